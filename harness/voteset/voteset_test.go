// Package voteset replays every transition of specs/voteset (TLC dump) into the real
// types.VoteSet / ValidatorSet.VerifyCommit and compares results and observers (C02).
package voteset

import (
	"encoding/json"
	"errors"
	"fmt"
	"math"
	"os"
	"sort"
	"strconv"
	"strings"
	"sync"
	"testing"
	"time"

	"github.com/kardiachain/go-kardia/lib/common"
	"github.com/kardiachain/go-kardia/lib/crypto"
	"github.com/kardiachain/go-kardia/lib/p2p"
	kproto "github.com/kardiachain/go-kardia/proto/kardiachain/types"
	"github.com/kardiachain/go-kardia/types"

	"verifharness/internal/mbt"
)

const chainID = "verif-chain"
const height, round = 5, 2

var blockIDs = map[string]types.BlockID{
	"A":   {Hash: common.BytesToHash([]byte{1}), PartsHeader: types.PartSetHeader{Total: 1, Hash: common.BytesToHash([]byte{2})}},
	"B":   {Hash: common.BytesToHash([]byte{3}), PartsHeader: types.PartSetHeader{Total: 2, Hash: common.BytesToHash([]byte{4})}},
	"C":   {Hash: common.BytesToHash([]byte{5}), PartsHeader: types.PartSetHeader{Total: 1, Hash: common.BytesToHash([]byte{6})}},
	"nil": {},
}

func blockName(b types.BlockID) string {
	for k, v := range blockIDs {
		if v.Equal(b) {
			return k
		}
	}
	return "?"
}

// world: keys ordered so that real validator index = specification index - 1
type world struct {
	powers []int64
	privs  []*types.DefaultPrivValidator
	mu     sync.Mutex
	sigs   map[string][]byte
}

func newWorld(powers []int64) *world {
	n := len(powers)
	w := &world{powers: powers, sigs: map[string][]byte{}}
	for i := 0; i < n; i++ {
		k, _ := crypto.ToECDSA(crypto.Keccak256([]byte(fmt.Sprintf("verif-val-%d", i))))
		w.privs = append(w.privs, types.NewDefaultPrivValidator(k))
	}
	// ValidatorSet order is (power desc, address asc); Power vectors are non-increasing, so
	// sorting the keys by address makes index i of the specification the real index i.
	sort.Slice(w.privs, func(a, b int) bool {
		return string(w.privs[a].GetAddress().Bytes()) < string(w.privs[b].GetAddress().Bytes())
	})
	return w
}

func (w *world) valset(unit int64) *types.ValidatorSet {
	vals := make([]*types.Validator, len(w.powers))
	for i := range w.powers {
		vals[i] = types.NewValidator(w.privs[i].GetAddress(), w.powers[i]*unit)
	}
	vs := types.NewValidatorSet(vals)
	for i := range w.powers {
		if !vs.Validators[i].Address.Equal(w.privs[i].GetAddress()) {
			panic("validator order assumption broken")
		}
	}
	return vs
}

// vote builds the real vote for (validator i (1-based), block b, signature variant sv, kind).
func (w *world) vote(i int, b string, sv int, kind string, typ kproto.SignedMsgType) *types.Vote {
	v := &types.Vote{ValidatorAddress: w.privs[i-1].GetAddress(), ValidatorIndex: uint32(i - 1), Height: height, Round: round,
		Timestamp: time.Unix(1000+int64(sv), 0).UTC(), Type: typ, BlockID: blockIDs[b]}
	switch kind {
	case "height":
		v.Height++
	case "heightlow":
		v.Height--
	case "round":
		v.Round++
	case "roundlow":
		v.Round--
	case "type":
		if typ == kproto.PrevoteType {
			v.Type = kproto.PrecommitType
		} else {
			v.Type = kproto.PrevoteType
		}
	}
	chain := chainID
	if kind == "chain" {
		chain = "other-chain"
	}
	key := fmt.Sprint(i, b, sv, v.Height, v.Round, v.Type, chain)
	w.mu.Lock()
	sig, ok := w.sigs[key]
	w.mu.Unlock()
	if !ok {
		pv := v.ToProto()
		if err := w.privs[i-1].SignVote(chain, pv); err != nil {
			panic(err)
		}
		sig = pv.Signature
		w.mu.Lock()
		w.sigs[key] = sig
		w.mu.Unlock()
	}
	v.Signature = append([]byte{}, sig...)
	switch kind {
	case "sig":
		v.Signature[7] ^= 0x10
	case "index":
		v.ValidatorIndex = uint32(len(w.powers))
	case "addr":
		v.ValidatorAddress = w.privs[i%len(w.powers)].GetAddress()
	}
	return v
}

func classify(added bool, err error) string {
	switch {
	case err == nil && added:
		return "added"
	case err == nil && !added:
		return "dup"
	}
	var ce *types.ErrVoteConflictingVotes
	if errors.As(err, &ce) {
		if added {
			return "conflict_added"
		}
		return "conflict_dropped"
	}
	if added {
		return "ADDED-WITH-ERROR"
	}
	if errors.Is(err, types.ErrVoteNonDeterministicSignature) || strings.Contains(err.Error(), types.ErrVoteNonDeterministicSignature.Error()) {
		return "nondet"
	}
	return "invalid"
}

type obs struct {
	V   []string `json:"v"`
	Sv  []int    `json:"sv"`
	Sum int      `json:"sum"`
	M   string   `json:"m"`
	Bb  map[string]struct {
		T  bool  `json:"t"`
		Pm bool  `json:"pm"`
		Vs []int `json:"vs"`
	} `json:"bb"`
	Any bool     `json:"any"`
	All bool     `json:"all"`
	Cf  []string `json:"cf"`
}
type line struct {
	H [][]interface{} `json:"h"`
	O obs             `json:"o"`
}

func atoi(x interface{}) int { return int(x.(float64)) }

func parsePowers(s string) []int64 {
	var out []int64
	for _, f := range strings.Split(s, ",") {
		p, err := strconv.ParseInt(strings.TrimSpace(f), 10, 64)
		if err != nil {
			panic(err)
		}
		out = append(out, p)
	}
	return out
}

// apply performs one specification action on the real vote set and returns the result class.
func apply(w *world, vs *types.VoteSet, typ kproto.SignedMsgType, a []interface{}) string {
	switch a[0].(string) {
	case "v":
		return classify(vs.AddVote(w.vote(atoi(a[1]), a[2].(string), atoi(a[3]), "", typ)))
	case "x":
		return classify(vs.AddVote(w.vote(atoi(a[1]), a[2].(string), 1, a[3].(string), typ)))
	case "p":
		if err := vs.SetPeerMaj23(p2p.ID(a[1].(string)), blockIDs[a[2].(string)]); err != nil {
			return "err"
		}
		return "ok"
	}
	panic("unknown action")
}

func TestReplay(t *testing.T) {
	res := mbt.NewResult()
	defer res.Write()
	dump := os.Getenv("VS_DUMP")
	powers := parsePowers(os.Getenv("VS_POWER"))
	w := newWorld(powers)
	var total int64
	for _, p := range powers {
		total += p
	}
	units := []int64{1, 7, types.MaxTotalVotingPower / total}
	vsets := map[int64]*types.ValidatorSet{}
	for _, u := range units {
		vsets[u] = w.valset(u)
	}
	pfx := "voteset:" + os.Getenv("VS_POWER") + ":"
	sent, err := mbt.EachLine(dump, 0, mbt.EnvInt("VS_LIMIT", 0), mbt.EnvInt("VS_STRIDE", 1), mbt.Seed(), func(n int, raw []byte) {
		var l line
		if err := json.Unmarshal(raw, &l); err != nil {
			res.Mismatch("infra:parse", err.Error(), string(raw))
			return
		}
		unit := units[n%len(units)]
		typ := kproto.PrecommitType
		if (n/len(units))%2 == 1 {
			typ = kproto.PrevoteType
		}
		vs := types.NewVoteSet(chainID, height, round, typ, vsets[unit].Copy())
		for k, a := range l.H {
			want := a[len(a)-1].(string)
			got := apply(w, vs, typ, a)
			if got != want {
				res.Mismatch(pfx+"result:"+a[0].(string)+":"+want+"->"+got,
					fmt.Sprintf("step %d of %v: real result %q, specified %q (unit %d, type %v)", k+1, l.H, got, want, unit, typ),
					map[string]interface{}{"hist": l.H, "unit": unit, "type": int(typ)})
				return
			}
		}
		res.Count(1)
		last := l.H[len(l.H)-1]
		if lr := last[len(last)-1].(string); lr != "added" {
			res.Distinct(fmt.Sprint(l.H))
		}
		fail := func(what, text string) {
			res.Mismatch(pfx+"obs:"+what, fmt.Sprintf("after %v (unit %d): %s", l.H, unit, text),
				map[string]interface{}{"hist": l.H, "unit": unit, "type": int(typ)})
		}
		// observers
		gm, ok := vs.TwoThirdsMajority()
		gotM := "none"
		if ok {
			gotM = blockName(gm)
		}
		if gotM != l.O.M {
			fail("maj23", fmt.Sprintf("TwoThirdsMajority = %s, specified %s", gotM, l.O.M))
			return
		}
		if vs.HasTwoThirdsMajority() != (l.O.M != "none") {
			fail("hasmaj", "HasTwoThirdsMajority disagrees")
		}
		if vs.HasTwoThirdsAny() != l.O.Any {
			fail("any", fmt.Sprintf("HasTwoThirdsAny = %v, specified %v", vs.HasTwoThirdsAny(), l.O.Any))
		}
		if vs.HasAll() != l.O.All {
			fail("all", fmt.Sprintf("HasAll = %v, specified %v", vs.HasAll(), l.O.All))
		}
		for i := range powers {
			v := vs.GetByIndex(uint32(i))
			got := "none"
			if v != nil {
				got = blockName(v.BlockID)
			}
			if got != l.O.V[i] {
				fail("votes", fmt.Sprintf("canonical vote of validator %d = %s, specified %s", i, got, l.O.V[i]))
				return
			}
			if v != nil && v.Timestamp.Unix() != 1000+int64(l.O.Sv[i]) {
				fail("votes-variant", fmt.Sprintf("canonical vote of validator %d has signature variant %d, specified %d", i, v.Timestamp.Unix()-1000, l.O.Sv[i]))
			}
			if vs.BitArray().GetIndex(i) != (l.O.V[i] != "none") {
				fail("bitarray", fmt.Sprintf("BitArray[%d] disagrees", i))
			}
		}
		for b, bb := range l.O.Bb {
			ba := vs.BitArrayByBlockID(blockIDs[b])
			if (ba != nil) != bb.T {
				fail("tracked", fmt.Sprintf("block %s tracked=%v, specified %v", b, ba != nil, bb.T))
				continue
			}
			if ba != nil {
				for i := range powers {
					if ba.GetIndex(i) != (bb.Vs[i] != 0) {
						fail("byblock", fmt.Sprintf("BitArrayByBlockID(%s)[%d] disagrees", b, i))
					}
				}
			}
		}
		if typ == kproto.PrecommitType {
			if vs.IsCommit() != (l.O.M != "none") {
				fail("iscommit", "IsCommit disagrees")
			}
			if len(l.O.Cf) > 0 {
				c := vs.MakeCommit()
				for i, f := range l.O.Cf {
					var got string
					switch c.Signatures[i].BlockIDFlag {
					case types.BlockIDFlagAbsent:
						got = "absent"
					case types.BlockIDFlagNil:
						got = "nil"
					case types.BlockIDFlagCommit:
						got = "commit"
					}
					if got != f {
						fail("commitflag", fmt.Sprintf("MakeCommit flag of validator %d = %s, specified %s", i, got, f))
					}
				}
				if err := vsets[unit].VerifyCommit(chainID, blockIDs[l.O.M], height, c); err != nil {
					fail("commitverifies", "VerifyCommit(MakeCommit) rejected: "+err.Error())
				}
				// the commit read back as a vote set reproduces the majority
				func() {
					defer func() {
						if r := recover(); r != nil {
							// (CommitToVoteSet panics on a commit it cannot verify: reconstructLastCommit would take the node down)
							fail("committovoteset", fmt.Sprintf("CommitToVoteSet panicked on the commit MakeCommit built: %v", r))
						}
					}()
					cvs := types.CommitToVoteSet(chainID, c, vsets[unit])
					if m2, ok2 := cvs.TwoThirdsMajority(); !ok2 || blockName(m2) != l.O.M {
						fail("committovoteset", "CommitToVoteSet lost the majority")
					}
				}()
			}
		}
		if n%997 == 1 || len(l.H) >= 7 {
			res.Sample(map[string]interface{}{"behaviour": l.H, "expected": l.O, "unit": unit})
		}
	})
	if err != nil {
		res.Mismatch("infra:read", err.Error(), nil)
	}
	res.Behaviours = sent
	res.Set("replayed_"+os.Getenv("VS_POWER"), sent)
	_ = math.MaxInt64
}

type cline struct {
	C struct {
		Size  int  `json:"size"`
		HOK   bool `json:"hOK"`
		BidOK bool `json:"bidOK"`
		Sigs  []struct {
			Flag string `json:"flag"`
			Sig  string `json:"sig"`
		} `json:"sigs"`
	} `json:"c"`
	R string `json:"r"`
}

// TestCommit: every abstract commit of MC_Commit against the real VerifyCommit.
func TestCommit(t *testing.T) {
	res := mbt.NewResult()
	defer res.Write()
	powers := parsePowers(os.Getenv("VS_POWER"))
	w := newWorld(powers)
	var total int64
	for _, p := range powers {
		total += p
	}
	units := []int64{1, 7, types.MaxTotalVotingPower / total}
	vsets := map[int64]*types.ValidatorSet{}
	for _, u := range units {
		vsets[u] = w.valset(u)
	}
	n := len(powers)
	pfx := "commit:" + os.Getenv("VS_POWER") + ":"
	sent, err := mbt.EachLine(os.Getenv("VS_DUMP"), 0, mbt.EnvInt("VS_LIMIT", 0), mbt.EnvInt("VS_STRIDE", 1), mbt.Seed(), func(ln int, raw []byte) {
		var l cline
		if err := json.Unmarshal(raw, &l); err != nil {
			res.Mismatch("infra:parse", err.Error(), string(raw))
			return
		}
		unit := units[ln%len(units)]
		var sigs []types.CommitSig
		for i := 1; i <= n; i++ {
			s := l.C.Sigs[i-1]
			if s.Flag == "absent" {
				sigs = append(sigs, types.NewCommitSigAbsent())
				continue
			}
			blk, other := "A", "B"
			flag := types.BlockIDFlagCommit
			if s.Flag == "nil" {
				blk, other, flag = "nil", "A", types.BlockIDFlagNil
			}
			signer, signed := i, blk
			switch s.Sig {
			case "other":
				signed = other
			case "swap":
				signer = i%n + 1
			}
			v := w.vote(signer, signed, i, "", kproto.PrecommitType)
			sig := v.Signature
			if s.Sig == "bad" {
				sig[9] ^= 0x04
			}
			sigs = append(sigs, types.CommitSig{BlockIDFlag: flag, ValidatorAddress: w.privs[i-1].GetAddress(),
				Timestamp: time.Unix(1000+int64(i), 0).UTC(), Signature: sig})
		}
		switch {
		case l.C.Size < n:
			sigs = sigs[:l.C.Size]
		case l.C.Size > n:
			sigs = append(sigs, types.NewCommitSigAbsent())
		}
		c := types.NewCommit(height, round, blockIDs["A"], sigs)
		wantBid, wantH := blockIDs["A"], uint64(height)
		if !l.C.BidOK {
			wantBid = blockIDs["B"]
		}
		if !l.C.HOK {
			wantH++
		}
		var err error
		func() {
			defer func() {
				if r := recover(); r != nil {
					err = fmt.Errorf("PANIC: %v", r)
				}
			}()
			err = vsets[unit].VerifyCommit(chainID, wantBid, wantH, c)
		}()
		res.Count(1)
		if l.R != "ok" {
			res.Distinct(string(raw))
		}
		if (err == nil) != (l.R == "ok") || (err != nil && strings.HasPrefix(err.Error(), "PANIC")) {
			res.Mismatch(pfx+"verify:"+l.R, fmt.Sprintf("VerifyCommit returned %v, specified %q for %s (unit %d)", err, l.R, string(raw), unit),
				map[string]interface{}{"commit": json.RawMessage(raw), "unit": unit})
		}
		if ln%997 == 1 {
			res.Sample(map[string]interface{}{"commit": json.RawMessage(raw), "real": fmt.Sprint(err)})
		}
	})
	if err != nil {
		res.Mismatch("infra:read", err.Error(), nil)
	}
	res.Behaviours = sent
}
