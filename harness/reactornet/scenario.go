//go:build verif

package reactornet

import (
	"fmt"
	"math/rand"
	"strings"
	"time"
)

// A scenario = adversarial prefix (seeded; partitions, nodes down, late joiners) followed by the synchronous suffix
// (everybody up, everybody connected, no further faults) in which the C04 verdict is taken.
type Scenario struct {
	Cfg  string `json:"cfg"`  // network configuration (netConfigs)
	Kind string `json:"kind"` // scenario kind (prefixes)
	Seed int64  `json:"seed"`
	Dir  string `json:"dir"`
	K    int    `json:"k"` // heights every node must commit beyond the maximum at the heal point
	MaxBoundS int `json:"max_bound_s"` // cap on the liveness wait (0: none); a capped wait that expires is not judged
}

type netConfig struct {
	powers []int64
	extra  int // nodes that are not validators
	// validator-set changes (node.World.Plan): plan[k] = the validator list the application reports when block k is
	// executed, in force from height k+2 (0 = not a member; the node keeps following as a non-validator)
	plan map[uint64][]int64
}

var netConfigs = map[string]netConfig{
	"4eq":  {powers: []int64{1, 1, 1, 1}},
	"4w":   {powers: []int64{3, 2, 2, 2}},
	"5nv":  {powers: []int64{1, 1, 1, 1}, extra: 1},
	"3eq":  {powers: []int64{1, 1, 1}},
	"5w":   {powers: []int64{3, 2, 2, 1, 1}},
	"7eq":  {powers: []int64{1, 1, 1, 1, 1, 1, 1}},
	// the validator set changes while the scenario runs: a power is raised, a validator is removed (its node goes on as
	// a non-validator) and re-added, the powers go back — vote bit arrays, proposer rotation and quorums change with it
	"4chg": {powers: []int64{1, 1, 1, 1}, plan: map[uint64][]int64{4: {2, 1, 1, 1}, 7: {2, 1, 0, 1}, 10: {2, 1, 1, 1}, 13: {1, 1, 1, 2}, 17: {1, 1, 1, 1}}},
}

// Result of one scenario (written by the child process).
type Outcome struct {
	Scenario      Scenario `json:"scenario"`
	Infra         string   `json:"infra,omitempty"` // the run cannot be judged (overloaded machine, rig failure)
	CalibPerH     float64  `json:"calib_s_per_height"`
	CalibHeights  int      `json:"calib_heights"`
	HealMaxHeight uint64   `json:"heal_max_height"`
	HealMinHeight uint64   `json:"heal_min_height"`
	Target        uint64   `json:"target"`
	BoundS        float64  `json:"bound_s"`
	SuffixS       float64  `json:"suffix_s"`
	Live          bool     `json:"live"`
	LastProgressS []float64 `json:"last_progress_s"` // per node: time of its last commit after the heal point
	Stuck         []int    `json:"stuck,omitempty"`  // nodes below the target that committed nothing in the last third of the bound
	Liveness      string   `json:"liveness,omitempty"`  // violation text
	StartHangs    string   `json:"start_hangs,omitempty"` // violation text: a restarted node never finishes its start
	FaultFree     bool     `json:"fault_free,omitempty"` // the liveness violation happened in the fault-free start, before any fault
	Agreement     string   `json:"agreement,omitempty"` // violation text
	Panic         string   `json:"panic,omitempty"`     // violation text
	Diagnosis     []J      `json:"diagnosis,omitempty"`
	Log           []string `json:"log"`
	Trace         string   `json:"trace,omitempty"`
	TraceErr      string   `json:"trace_err,omitempty"`
	Stats         traceStats `json:"stats"`
	FinalHeights  []uint64 `json:"final_heights"`
	Restarts      int      `json:"restarts"`
}

func sleep(d time.Duration) { time.Sleep(d) }

// ---- prefixes ----
// Every prefix gets the running, fully connected network (except for nodes it asked to hold back) and ends at an
// arbitrary point; Heal() then starts what is down and connects everybody.
type prefixFn func(n *Net, rng *rand.Rand)

func perm(rng *rand.Rand, n int) []int { return rng.Perm(n) }

func dur(rng *rand.Rand, lo, hi int) time.Duration {
	return time.Duration(lo+rng.Intn(hi-lo+1)) * time.Millisecond
}

var prefixes = map[string]prefixFn{
	"calm": func(n *Net, rng *rand.Rand) { sleep(dur(rng, 800, 1500)) },

	// nodes that join late: started from the genesis state while the others are many heights ahead, connected to one
	// peer or to everybody; they must be served every block and commit by gossip alone (fast sync is off)
	"late-join": func(n *Net, rng *rand.Rand) {
		sleep(dur(rng, 500, 2500))
		for x := range n.Late {
			if err := n.Start(x); err != nil {
				n.note("late joiner does not start: %v", err)
				return
			}
			if rng.Intn(2) == 0 {
				n.connectAll(x)
			} else {
				for _, j := range rng.Perm(n.Size()) {
					if j != x && n.sw[j] != nil && n.Edges[[2]int{min2(x, j), max2(x, j)}] {
						n.Connect(min2(x, j), max2(x, j))
						break
					}
				}
			}
			sleep(dur(rng, 200, 1500))
		}
	},

	// a node dies between two handler calls at an arbitrary moment (its queued input is lost, its WAL keeps what it
	// handled) and comes back on its database and WAL
	"node-crash": func(n *Net, rng *rand.Rand) {
		sz := n.Size()
		sleep(dur(rng, 300, 1000))
		for k := 0; k < 1+rng.Intn(2); k++ {
			v := rng.Intn(sz)
			if !n.slots[v].up {
				continue
			}
			after := time.Now().Add(dur(rng, 0, 600))
			h := n.Hold(v, func(g *gateRec) bool { return time.Now().After(after) })
			select {
			case <-h.held:
			case <-time.After(20 * time.Second):
			}
			n.Kill(v, h)
			sleep(dur(rng, 200, 1800))
			if err := n.Start(v); err != nil {
				n.note("restart failed: %v", err)
				return
			}
			n.connectAll(v)
			sleep(dur(rng, 200, 1000))
		}
	},

	// partitions: 2+2 (nobody has a quorum), 1+rest (the rest moves on, one node lags), rotating isolation, a chain
	// of splits; connections are cut on both sides (StopPeerGracefully / StopPeerForError) and re-made through net.Pipe
	"partition-heal": func(n *Net, rng *rand.Rand) {
		sz := n.Size()
		sleep(dur(rng, 300, 900))
		switch rng.Intn(4) {
		case 0: // halves
			p := perm(rng, sz)
			n.SetTopology([][]int{p[:sz/2], p[sz/2:]})
			sleep(dur(rng, 1500, 3000))
		case 1: // one node alone for a while
			p := perm(rng, sz)
			n.SetTopology([][]int{p[:1], p[1:]})
			sleep(dur(rng, 1500, 3500))
		case 2: // rotating isolation: each phase another node is cut off
			p := perm(rng, sz)
			for k := 0; k < 3; k++ {
				v := p[k%sz]
				var rest []int
				for _, x := range n.All() {
					if x != v {
						rest = append(rest, x)
					}
				}
				n.SetTopology([][]int{{v}, rest})
				sleep(dur(rng, 700, 1400))
			}
		case 3: // halves, then a different split without healing in between
			p := perm(rng, sz)
			n.SetTopology([][]int{p[:sz/2], p[sz/2:]})
			sleep(dur(rng, 1000, 2000))
			q := perm(rng, sz)
			n.SetTopology([][]int{q[:1], q[1:]})
			sleep(dur(rng, 1000, 2000))
		}
	},

	// a node is stopped between two handler calls, stays down while the others (if they still have +2/3) move on, is
	// rebuilt on its surviving database and WAL directory (state load, WAL catch-up replay) and re-connected
	"node-restart": func(n *Net, rng *rand.Rand) {
		sz := n.Size()
		sleep(dur(rng, 400, 1200))
		rounds := 1 + rng.Intn(2)
		for k := 0; k < rounds; k++ {
			v := rng.Intn(sz)
			n.Stop(v)
			sleep(dur(rng, 300, 2000))
			if err := n.Start(v); err != nil {
				n.note("restart failed: %v", err)
				return
			}
			// re-connect to everybody, or (sometimes) to one peer only: the rest follows at the heal point
			if rng.Intn(3) == 0 {
				for _, o := range rng.Perm(sz) {
					if o != v && n.sw[o] != nil && n.Edges[[2]int{min2(v, o), max2(v, o)}] {
						n.Connect(min2(v, o), max2(v, o))
						break
					}
				}
			} else {
				n.connectAll(v)
			}
			sleep(dur(rng, 200, 1000))
		}
	},
}

// quorum: do the validators in `set` (slot indices) hold more than 2/3 of the power?
func (n *Net) quorum(set map[int]bool) bool {
	var p, t int64
	for i, s := range n.slots {
		if s.id == 0 {
			continue
		}
		t += n.W.Powers[s.id-1]
		if set[i] {
			p += n.W.Powers[s.id-1]
		}
	}
	return 3*p > 2*t
}

// connectedSet: do the edges of the network's topology connect the nodes of `set`?
func (n *Net) connectedSet(set map[int]bool) bool {
	var nodes []int
	for i := range n.slots {
		if set[i] {
			nodes = append(nodes, i)
		}
	}
	if len(nodes) == 0 {
		return false
	}
	seen := map[int]bool{nodes[0]: true}
	todo := []int{nodes[0]}
	for len(todo) > 0 {
		a := todo[0]
		todo = todo[1:]
		for _, b := range nodes {
			if !seen[b] && (n.Edges == nil || n.Edges[[2]int{min2(a, b), max2(a, b)}]) {
				seen[b] = true
				todo = append(todo, b)
			}
		}
	}
	return len(seen) == len(nodes)
}

// pickCritical chooses a victim validator and a set of other validators to keep down such that the nodes that stay up
// have +2/3 of the power WITH the victim and not without it.
func pickCritical(n *Net, rng *rand.Rand) (victim int, down []int) {
	var vals []int
	for i, s := range n.slots {
		if s.id > 0 {
			vals = append(vals, i)
		}
	}
	victim = vals[rng.Intn(len(vals))]
	up := map[int]bool{}
	for _, i := range vals {
		up[i] = true
	}
	for _, k := range rng.Perm(len(vals)) {
		x := vals[k]
		if x == victim {
			continue
		}
		up[victim] = false
		critical := !n.quorum(up)
		up[victim] = true
		if critical {
			break
		}
		up[x] = false
		if !n.quorum(up) || !n.connectedSet(upWithExtras(n, up)) { // without x there is no quorum at all / no connected network: x stays
			up[x] = true
			continue
		}
		down = append(down, x)
	}
	return
}

// the validators in `up` plus the nodes that are not validators (they are never taken down by pickCritical)
func upWithExtras(n *Net, up map[int]bool) map[int]bool {
	m := map[int]bool{}
	for i, s := range n.slots {
		if up[i] || s.id == 0 {
			m[i] = true
		}
	}
	return m
}

func (n *Net) connectAll(v int) {
	for j := 0; j < n.Size(); j++ {
		if j != v && n.sw[j] != nil && (n.Edges == nil || n.Edges[[2]int{min2(v, j), max2(v, j)}]) {
			n.Connect(min2(v, j), max2(v, j))
		}
	}
}

// ownPrecommitIn: the node's own precommit for a block is in its vote set of the current round and it has not committed
func ownPrecommitIn(id int) func(g *gateRec) bool {
	return func(g *gateRec) bool {
		if g.Step >= 8 || id <= 0 {
			return false
		}
		for _, rv := range g.Votes {
			if rv.R == int(g.R) && rv.PC[id-1] != "" && rv.PC[id-1] != "nil" {
				return true
			}
		}
		return false
	}
}

func init() {
	// STEERED: a validator the rest cannot do without is exactly ONE height behind the rest.  The victim is delayed
	// (parked at the gate) as soon as its own precommit for the block of height h is in its vote set; its gossip
	// routines hand that precommit out, the others commit h and move to h+1; the victim dies there (its queued input
	// is lost) and comes back on its database and WAL: at height h with its precommit, needing the others' precommits
	// for h — which only gossipVotesRoutine's "peer lags by one height: send LastCommit" branch sends, while the
	// others, at h+1, cannot reach h+2 without the victim.
	prefixes["commit-lag"] = func(n *Net, rng *rand.Rand) {
		v, down := pickCritical(n, rng)
		for _, x := range down {
			n.Stop(x)
		}
		n.note("commit-lag: victim node %d, kept down %v", v+1, down)
		sleep(dur(rng, 200, 800))
		h := n.Hold(v, ownPrecommitIn(n.slots[v].id))
		select {
		case <-h.held:
		case <-time.After(30 * time.Second):
			n.Release(v, h)
			n.note("commit-lag: steering missed (the victim never showed its own precommit before committing)")
			return
		}
		rec := n.slots[v].procs[len(n.slots[v].procs)-1].rec
		hv := rec.hrs.Load() >> 24
		n.note("commit-lag: node %d parked at height %d with its precommit in its vote set", v+1, hv)
		// the others commit hv with the victim's precommit
		t0 := time.Now()
		for time.Since(t0) < 20*time.Second {
			ok := true
			for i := range n.slots {
				if i != v && n.slots[i].up && n.slots[i].id > 0 && n.StoreHeight(i) < hv {
					ok = false
				}
			}
			if ok {
				break
			}
			sleep(10 * time.Millisecond)
		}
		n.Kill(v, h)
		sleep(dur(rng, 100, 600))
		if err := n.Start(v); err != nil {
			n.note("restart failed: %v", err)
			return
		}
		n.connectAll(v)
		sleep(dur(rng, 300, 1500))
	}
}

func (n *Net) minUpStoreHeight() uint64 {
	m := uint64(1 << 62)
	for i := range n.slots {
		if !n.Silent[i] {
			if h := n.StoreHeight(i); h < m {
				m = h
			}
		}
	}
	return m
}

func min2(a, b int) int {
	if a < b {
		return a
	}
	return b
}
func max2(a, b int) int {
	if a > b {
		return a
	}
	return b
}

// edgesOf: the connections of a named topology over sz nodes.  Every topology is CONNECTED (the property's
// assumption); in the sparse ones every link is essential: a vote reaches a node two hops away only if the node in
// between re-sends it (gossipVotesRoutine on what it holds), a lagging node is served by its only neighbour.
func edgesOf(topo string, sz int, rng *rand.Rand) map[[2]int]bool {
	e := map[[2]int]bool{}
	add := func(a, b int) { e[[2]int{min2(a, b), max2(a, b)}] = true }
	p := rng.Perm(sz)
	switch topo {
	case "line":
		for k := 0; k+1 < sz; k++ {
			add(p[k], p[k+1])
		}
	case "ring":
		for k := 0; k < sz; k++ {
			add(p[k], p[(k+1)%sz])
		}
	case "star":
		for k := 1; k < sz; k++ {
			add(p[0], p[k])
		}
	default:
		for a := 0; a < sz; a++ {
			for b := a + 1; b < sz; b++ {
				add(a, b)
			}
		}
	}
	return e
}

// RunScenario: calibration (fault-free network), prefix, heal, verdicts, trace.
// Kind "<prefix>@<topology>": the network is healed to (and started in) that topology instead of the full mesh.
func RunScenario(sc Scenario) (out Outcome) {
	out.Scenario = sc
	cfg, ok := netConfigs[sc.Cfg]
	if !ok {
		out.Infra = "unknown configuration " + sc.Cfg
		return
	}
	kind, topo := sc.Kind, "full"
	if i := strings.Index(kind, "@"); i >= 0 {
		kind, topo = kind[:i], kind[i+1:]
	}
	// "<topology>-1": one validator (the rest keeps +2/3 and stays connected) is DOWN during the whole suffix — the crash
	// fault the property allows.  Every round it should propose in needs the propose timeout, a nil polka, the
	// precommit-wait timeout and the next proposer: the real ticker and the round changes are part of the verdict.
	minus1 := strings.HasSuffix(topo, "-1")
	topo = strings.TrimSuffix(topo, "-1")
	pf, ok := prefixes[kind]
	if !ok {
		out.Infra = "unknown scenario kind " + sc.Kind
		return
	}
	if sc.K <= 0 {
		sc.K = 3
	}
	rng := rand.New(rand.NewSource(sc.Seed))
	n := NewNet(sc.Cfg, cfg.powers, cfg.extra, sc.Dir, DefaultTiming)
	n.W.Plan = cfg.plan
	n.Edges = edgesOf(topo, n.Size(), rng)
	// late joiners: nodes that are not there at the start (the rest has +2/3 without them)
	late := map[int]bool{}
	if kind == "late-join" {
		up := map[int]bool{}
		for i := range n.slots {
			up[i] = true
		}
		for _, x := range rng.Perm(n.Size()) {
			if len(late) >= 1+rng.Intn(2) {
				break
			}
			up[x] = false
			if n.quorum(up) && n.connectedSet(up) {
				late[x] = true
			} else {
				up[x] = true
			}
		}
		n.Late = late
	}
	defer func() {
		if r := recover(); r != nil {
			out.Infra = fmt.Sprintf("the scenario driver panicked: %v", r)
		}
	}()
	for i := 0; i < n.Size(); i++ {
		if late[i] {
			continue
		}
		if err := n.Start(i); err != nil {
			out.Infra = err.Error()
			n.Close()
			return
		}
	}
	n.SetTopology([][]int{n.All()})
	// ---- calibration: the same network, fault-free, from height 1 ----
	const calH = 4
	t0 := time.Now()
	took, okc, calP := n.WaitHeights(calH, 100*time.Second)
	if !okc {
		if d := n.Dead(); len(d) > 0 {
			out.Panic = "during the fault-free start of the network: " + fmt.Sprint(d)
		} else {
			// a fresh, fault-free, fully connected network that does not commit its first heights.  Overload or stall?
			// Stall: no node committed anything for the last 40 s AND every node is idle (nothing queued for its receive
			// routine) — an overloaded machine leaves work queued, a stuck network has nothing left to do.
			idle, latest := true, time.Duration(0)
			for i, s := range n.slots {
				if s.nd == nil {
					continue
				}
				pq, iq := s.nd.CS.VerifRNQueueLens()
				if pq+iq > 0 {
					idle = false
				}
				if calP[i] > latest {
					latest = calP[i]
				}
			}
			out.Diagnosis = n.Diagnose()
			if idle && took-latest > 40*time.Second {
				out.Liveness = fmt.Sprintf("the fresh fault-free network (everybody up and connected from the start) did not commit height %d within %.0f s; no node committed anything during the last %.0f s and every receive routine is idle (store heights %v)",
					calH, took.Seconds(), (took - latest).Seconds(), n.heights())
				out.FaultFree = true
			} else {
				out.Infra = fmt.Sprintf("the fault-free network did not commit %d heights within %.0f s (overloaded machine?)", calH, time.Since(t0).Seconds())
			}
		}
		out.Log = n.Log()
		n.Close()
		// the trace of the stalled run is still worth validating
		if out.Liveness != "" {
			tp := sc.Dir + ".ndjson"
			if st, err := n.BuildTrace(tp); err == nil {
				out.Stats, out.Trace = st, tp
			}
		}
		return
	}
	out.CalibHeights = calH
	out.CalibPerH = took.Seconds() / calH
	n.note("calibration: %d heights in %.2f s", calH, took.Seconds())
	// ---- adversarial prefix ----
	pf(n, rng)
	// ---- heal: from here on everybody is up and connected, no further faults ----
	if err := n.Heal(); err != nil {
		if strings.Contains(err.Error(), ErrStartHangs) {
			out.StartHangs = "a restarted node does not come back: " + err.Error()
		} else if strings.HasPrefix(err.Error(), "infra:") {
			out.Infra = err.Error()
		} else {
			out.Panic = "a node does not start on its surviving files: " + err.Error()
		}
		out.Log = n.Log()
		// (no Close: the hanging start holds the service)
		return
	}
	if minus1 {
		up := map[int]bool{}
		for i := range n.slots {
			up[i] = true
		}
		for _, x := range rng.Perm(n.Size()) {
			if n.slots[x].id == 0 {
				continue
			}
			up[x] = false
			if n.quorum(up) && n.connectedSet(up) {
				n.Silent = map[int]bool{x: true}
				n.Stop(x)
				n.note("node %d stays down during the suffix", x+1)
				break
			}
			up[x] = true
		}
	}
	out.HealMaxHeight, out.HealMinHeight = n.MaxStoreHeight(), n.minUpStoreHeight()
	out.Target = out.HealMaxHeight + uint64(sc.K)
	need := float64(out.Target - out.HealMinHeight)
	// bound: >= 20 x what the fault-free network needed for the same number of heights on this machine, now
	bound := time.Duration(20 * need * out.CalibPerH * float64(time.Second))
	if bound < 40*time.Second {
		bound = 40 * time.Second
	}
	capped := false
	if max := time.Duration(sc.MaxBoundS) * time.Second; sc.MaxBoundS > 0 && bound > max {
		// the tier's time budget does not allow 20x the calibrated time on a machine this slow: if the shorter wait is
		// not enough, the run is not judged
		bound, capped = max, true
	}
	out.BoundS = bound.Seconds()
	n.note("healed: store heights %d..%d, target %d, bound %.0f s", out.HealMinHeight, out.HealMaxHeight, out.Target, out.BoundS)
	tookS, live, lastP := n.WaitHeights(out.Target, bound)
	out.SuffixS, out.Live = tookS.Seconds(), live
	for _, p := range lastP {
		out.LastProgressS = append(out.LastProgressS, p.Seconds())
	}
	dead := n.Dead()
	if len(dead) > 0 {
		out.Panic = fmt.Sprint(dead)
	}
	if !live && len(dead) == 0 {
		// deadlock / livelock, not slowness: some node that still has to commit has committed NOTHING during the last
		// third of the bound (everybody else may be running ahead: that does not help the node that is stuck)
		var slowest time.Duration
		for i := 0; i < n.Size(); i++ {
			if n.StoreHeight(i) < out.Target && !n.Silent[i] {
				if lastP[i] <= tookS*2/3 {
					out.Stuck = append(out.Stuck, i+1)
				}
				if tookS-lastP[i] > slowest {
					slowest = tookS - lastP[i]
				}
			}
		}
		if capped {
			out.Infra = fmt.Sprintf("machine too slow for this tier's budget: the fault-free network needed %.2f s per height, 20x that for %d heights exceeds the %d s this tier can wait", out.CalibPerH, int(need), sc.MaxBoundS)
		} else if len(out.Stuck) == 0 {
			out.Infra = fmt.Sprintf("bound of %.0f s expired but every node that is behind committed a block during the last third of it: slow, not stuck", out.BoundS)
		} else {
			out.Liveness = fmt.Sprintf("%.0f s after the heal point (everybody up and connected; the fault-free network needed %.2f s per height) not every node has committed height %d; node(s) %v committed nothing during the last %.0f s (store heights %v)",
				tookS.Seconds(), out.CalibPerH, out.Target, out.Stuck, (tookS * 1 / 3).Seconds(), n.heights())
		}
		out.Diagnosis = n.Diagnose()
	}
	for i := 0; i < n.Size(); i++ {
		out.FinalHeights = append(out.FinalHeights, n.StoreHeight(i))
	}
	n.note("suffix: live=%v after %.2f s", live, tookS.Seconds())
	n.Close()
	for _, s := range n.slots {
		if len(s.procs) > 1 {
			out.Restarts += len(s.procs) - 1
		}
	}
	if d := n.StoreDisagreement(); d != "" {
		out.Agreement = d
	}
	if re := n.RigErrors(); len(re) > 0 && out.Infra == "" {
		out.Infra = fmt.Sprint(re)
	}
	out.Log = n.Log()
	tp := sc.Dir + ".ndjson"
	st, err := n.BuildTrace(tp)
	out.Stats = st
	if err != nil {
		out.TraceErr = err.Error()
	} else {
		out.Trace = tp
	}
	return
}
