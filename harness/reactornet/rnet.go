//go:build verif

// Package reactornet runs REAL consensus networks: N real nodes (real ConsensusState + real ConsensusManager on
// real p2p Switches connected in memory through net.Pipe, so the real MConnection / SecretConnection / Switch are in
// the loop), real goroutines, the real TimeoutTicker, the real receiveRoutine and the real file WAL.  Nothing in the
// message path is modelled: what a node receives is what the gossip routines of consensus/manager.go of its peers
// decided to send.
//
// Binding to the specification (specs/reactornet/ReactorNetTrace.tla, an extension of specs/node/KardiaNodeTrace.tla):
// the inputs of every handler call are taken from the node's WAL (msgInfo / timeoutInfo, in the order the real
// receiveRoutine took them), the state after every handler call is recorded at the gate at the top of the receive
// loop (consensus.VerifGate, called IN the receive goroutine), together with the signature requests made during the
// call.  One ndjson trace per run holds every node's handler calls; TLC must explain every line with the handlers of
// specs/node/KardiaNode.tla.
package reactornet

import (
	"encoding/json"
	"fmt"
	"io"
	"os"
	"path/filepath"
	"runtime"
	"sort"
	"strings"
	"sync"
	"sync/atomic"
	"time"

	"github.com/kardiachain/go-kardia/configs"
	"github.com/kardiachain/go-kardia/consensus"
	cstypes "github.com/kardiachain/go-kardia/consensus/types"
	"github.com/kardiachain/go-kardia/kai/kaidb"
	"github.com/kardiachain/go-kardia/kai/kaidb/memorydb"
	auto "github.com/kardiachain/go-kardia/lib/autofile"
	"github.com/kardiachain/go-kardia/lib/common"
	"github.com/kardiachain/go-kardia/lib/crypto"
	"github.com/kardiachain/go-kardia/lib/log"
	"github.com/kardiachain/go-kardia/lib/p2p"
	"github.com/kardiachain/go-kardia/mainchain/blockchain"
	kproto "github.com/kardiachain/go-kardia/proto/kardiachain/types"
	"github.com/kardiachain/go-kardia/types"

	"verifharness/node"
)

type J = map[string]interface{}

// Timing: the consensus timeouts of a network.  The property is about timely delivery: the timeouts must be
// longer than what delivery + handling needs on this (shared, loaded) machine, and they grow with the round.
type Timing struct {
	Propose, ProposeDelta     time.Duration
	Prevote, PrevoteDelta     time.Duration
	Precommit, PrecommitDelta time.Duration
	Commit                    time.Duration
	Gossip, Maj23             time.Duration
}

var DefaultTiming = Timing{
	Propose: 800 * time.Millisecond, ProposeDelta: 400 * time.Millisecond,
	Prevote: 400 * time.Millisecond, PrevoteDelta: 200 * time.Millisecond,
	Precommit: 400 * time.Millisecond, PrecommitDelta: 200 * time.Millisecond,
	Commit: 150 * time.Millisecond, Gossip: 10 * time.Millisecond, Maj23: 200 * time.Millisecond,
}

func (t Timing) scaled(f float64) Timing {
	m := func(d time.Duration) time.Duration { return time.Duration(float64(d) * f) }
	return Timing{m(t.Propose), m(t.ProposeDelta), m(t.Prevote), m(t.PrevoteDelta), m(t.Precommit), m(t.PrecommitDelta),
		m(t.Commit), t.Gossip, t.Maj23}
}

// ---------------------------------------------------------------------------------------------
// the gate: one record per iteration of the real receive loop
// ---------------------------------------------------------------------------------------------
type roundVotes struct {
	R      int
	PV, PC []string // per validator identity: "" (none) | "nil" | hex block hash
}
type gateRec struct {
	T                         time.Time
	H                         uint64
	R                         uint32
	Step                      int
	HasProp                   bool
	Pol                       uint32
	PBlock, LockedB, ValidB   string // "" none | hex hash
	PParts                    string // "" none | hex hash of the part-set header
	LockedR, ValidR, CommitR  uint32
	TTP                       bool
	Votes                     []roundVotes
	Last                      []string
	Signed                    []node.SignReq
}

type recorder struct {
	w    *node.World
	sign *node.SignLog
	mu   sync.Mutex
	recs []gateRec
	hrs  atomic.Uint64 // height<<24 | round<<8 | step  (cheap progress probe for the watcher)
	n    atomic.Int64
	hold atomic.Pointer[holdReq]
}

// holdReq: steering.  The node's receive routine parks at the gate the first time cond holds for the state it is in
// (an adversarial DELAY of that node: its reactor keeps receiving into the peer queue, its gossip routines keep
// sending what is in its round state), until it is released — or killed: the receive goroutine ends at the gate,
// which is the death of the process between two handler calls (its queues are lost, its WAL holds what it handled).
type holdReq struct {
	cond    func(g *gateRec) bool
	held    chan struct{}
	release chan struct{}
	kill    atomic.Bool
}

var recorders sync.Map // *consensus.ConsensusState -> *recorder

func init() {
	consensus.VerifGate = func(name string, cs *consensus.ConsensusState) {
		if r, ok := recorders.Load(cs); ok {
			r.(*recorder).gate(cs)
		}
	}
}

func hx(h common.Hash) string { return h.Hex() }

func (r *recorder) gate(cs *consensus.ConsensusState) {
	rs := cs.GetRoundState() // we ARE the receive goroutine: nothing changes the round state while we read it
	nv := len(r.w.Privs)
	blk := func(b *types.Block) string {
		if b == nil {
			return ""
		}
		return hx(b.Hash())
	}
	vlist := func(vs *types.VoteSet, hh uint64) []string {
		out := make([]string, nv)
		if vs == nil {
			return out
		}
		for i := 0; i < nv; i++ {
			if pos := r.w.IndexAt(hh, i+1); pos >= 0 && pos < vs.Size() {
				if v := vs.GetByIndex(uint32(pos)); v != nil {
					if v.BlockID.Hash.IsZero() {
						out[i] = "nil"
					} else {
						out[i] = hx(v.BlockID.Hash)
					}
				}
			}
		}
		return out
	}
	g := gateRec{T: time.Now(), H: rs.Height, R: rs.Round, Step: int(rs.Step), HasProp: rs.Proposal != nil,
		PBlock: blk(rs.ProposalBlock), LockedB: blk(rs.LockedBlock), ValidB: blk(rs.ValidBlock),
		LockedR: rs.LockedRound, ValidR: rs.ValidRound, CommitR: rs.CommitRound, TTP: rs.TriggeredTimeoutPrecommit}
	if rs.Proposal != nil {
		g.Pol = rs.Proposal.POLRound
	}
	if rs.ProposalBlockParts != nil {
		g.PParts = hx(rs.ProposalBlockParts.Header().Hash)
	}
	if rs.Votes != nil {
		for rr := 0; rr <= int(rs.Round)+40; rr++ {
			if pv := rs.Votes.Prevotes(uint32(rr)); pv != nil {
				g.Votes = append(g.Votes, roundVotes{R: rr, PV: vlist(pv, rs.Height), PC: vlist(rs.Votes.Precommits(uint32(rr)), rs.Height)})
			}
		}
	}
	g.Last = vlist(rs.LastCommit, rs.Height-1)
	if r.sign != nil {
		g.Signed = r.sign.Take()
	}
	r.mu.Lock()
	r.recs = append(r.recs, g)
	r.mu.Unlock()
	r.hrs.Store(rs.Height<<24 | uint64(rs.Round)<<8 | uint64(rs.Step))
	r.n.Add(1)
	if h := r.hold.Load(); h != nil && h.cond(&g) {
		r.hold.Store(nil)
		close(h.held)
		<-h.release
		if h.kill.Load() {
			runtime.Goexit()
		}
	}
}

// ---------------------------------------------------------------------------------------------
// the network
// ---------------------------------------------------------------------------------------------
type proc struct {
	rec      *recorder
	walUpTo  int    // number of input records in the WAL when this process ended
	died     string // the receive routine ended by itself (CONSENSUS FAILURE) / the node did not start
	killed   bool   // ended at the gate by the scenario (process death between two handler calls)
	rigErr   string // the rig could not do its job on this process (never a verdict)
	started  time.Time
	stopped  time.Time
}

type slot struct {
	idx   int // position in the network (and in Net.sw)
	id    int // validator identity 1..n (0: this node is not a validator)
	db    kaidb.Database
	root  string
	nd    *node.Node
	conR  *consensus.ConsensusManager
	up    bool
	procs []*proc
}

type Net struct {
	W      *node.World
	Name   string
	Dir    string
	Timing Timing
	slots  []*slot
	sw     []*p2p.Switch // sw[i]: the running switch of slot i (nil while the node is down)
	mu     sync.Mutex
	log    []string // what the scenario did, with times relative to t0
	t0     time.Time
	Edges  map[[2]int]bool // the topology of the fault-free network (nil: full mesh); partitions cut it further
	Late   map[int]bool    // nodes that join late (scenario kind late-join)
	Silent map[int]bool    // validators that stay down during the synchronous suffix (crash faults, < 1/3 of the power)
}

// StartTimeout: how long a node's start (state load, WAL catch-up replay of ONE height, service start) may take.
var StartTimeout = 45 * time.Second

const ErrStartHangs = "Switch.Start -> ConsensusManager.OnStart -> ConsensusState.Start does not return"

func flushCache() *blockchain.CacheConfig {
	// state flushed at every block: a stopped node finds its head where it left it (mainchain/backend.go's archive mode)
	return &blockchain.CacheConfig{TrieCleanLimit: 16, TrieDirtyDisabled: true, TrieTimeLimit: 5 * time.Minute}
}

// NewNet: one node per validator of `powers` plus `extra` nodes that are not validators.
func NewNet(name string, powers []int64, extra int, dir string, tm Timing) *Net {
	n := &Net{W: node.NewWorld(powers), Name: name, Dir: dir, Timing: tm, t0: time.Now()}
	os.RemoveAll(dir)
	os.MkdirAll(dir, 0o755)
	for i := 0; i < len(powers)+extra; i++ {
		id := i + 1
		if i >= len(powers) {
			id = 0
		}
		n.slots = append(n.slots, &slot{idx: i, id: id, db: memorydb.New(), root: filepath.Join(dir, fmt.Sprintf("n%d", i+1))})
		n.sw = append(n.sw, nil)
	}
	return n
}

func (n *Net) Size() int { return len(n.slots) }

func (n *Net) note(f string, a ...interface{}) {
	n.mu.Lock()
	n.log = append(n.log, fmt.Sprintf("%6.2fs ", time.Since(n.t0).Seconds())+fmt.Sprintf(f, a...))
	n.mu.Unlock()
}

// Start builds node i on its database and WAL directory (fresh: genesis state; else whatever survived) and starts
// its switch with the real consensus reactor.  It does not connect it to anybody.
func (n *Net) Start(i int) error {
	s := n.slots[i]
	if s.up {
		return nil
	}
	fresh := len(s.procs) == 0
	nd, err := node.BuildNode(n.W, s.id, node.Opts{DB: s.db, Fresh: fresh, Cache: flushCache(), RootDir: s.root})
	if err != nil {
		return fmt.Errorf("node %d does not build: %v", i+1, err)
	}
	nd.CS.VerifUseRealTicker()
	c := nd.CS.VerifConsensusConfig()
	tm := n.Timing
	c.TimeoutPropose, c.TimeoutProposeDelta = tm.Propose, tm.ProposeDelta
	c.TimeoutPrevote, c.TimeoutPrevoteDelta = tm.Prevote, tm.PrevoteDelta
	c.TimeoutPrecommit, c.TimeoutPrecommitDelta = tm.Precommit, tm.PrecommitDelta
	c.TimeoutCommit = tm.Commit
	c.PeerGossipSleepDuration, c.PeerQueryMaj23SleepDuration = tm.Gossip, tm.Maj23
	rec := &recorder{w: n.W, sign: nd.Sign}
	if nd.Sign != nil {
		nd.Sign.Take()
	}
	recorders.Store(nd.CS, rec)
	p := &proc{rec: rec, started: time.Now()}
	s.procs = append(s.procs, p)
	fs := configs.TestFastSyncConfig()
	fs.Enable = false // straight to consensus (the block-sync reactor is not part of this family)
	conR := consensus.NewConsensusManager(nd.CS, fs)
	pc := configs.DefaultP2PConfig()
	pc.AllowDuplicateIP = true
	pc.FlushThrottleTimeout = 5 * time.Millisecond
	var startErr error
	started := make(chan struct{})
	go func() {
		defer close(started)
		defer func() {
			if r := recover(); r != nil {
				startErr = fmt.Errorf("panic while starting node %d: %v", i+1, r)
			}
		}()
		// p2p.MakeSwitch listens on a "free" port it picked a moment earlier and panics when another process took it in
		// between (the test utility's race): try again before giving up
		var sw *p2p.Switch
		var lastPanic interface{}
		for attempt := 0; attempt < 8 && sw == nil; attempt++ {
			func() {
				defer func() {
					if r := recover(); r != nil {
						lastPanic = r
						time.Sleep(time.Duration(20+attempt*30) * time.Millisecond)
					}
				}()
				sw = p2p.MakeSwitch(pc, i, "verif", "1.0", func(_ int, sw *p2p.Switch) *p2p.Switch {
					sw.AddReactor("CONSENSUS", conR)
					return sw
				})
			}()
		}
		if sw == nil {
			panic(lastPanic)
		}
		sw.SetLogger(log.New())
		if err := sw.Start(); err != nil {
			startErr = fmt.Errorf("switch of node %d does not start: %v", i+1, err)
			return
		}
		n.sw[i] = sw
	}()
	select {
	case <-started:
	case <-time.After(StartTimeout):
		// Switch.Start -> ConsensusManager.OnStart -> ConsensusState.Start has not returned
		p.died = ErrStartHangs
		n.note("node %d: start has not returned after %.0f s", i+1, StartTimeout.Seconds())
		return fmt.Errorf("node %d: %s", i+1, ErrStartHangs)
	}
	if startErr != nil && (strings.Contains(startErr.Error(), "listen") || strings.Contains(startErr.Error(), "address already in use") || strings.Contains(startErr.Error(), "bind")) {
		p.rigErr = startErr.Error() // the test switch could not get its listening port
		nd.Close()
		return fmt.Errorf("infra: %v", startErr)
	}
	if startErr != nil {
		p.died = startErr.Error()
		nd.Close()
		return startErr
	}
	s.nd, s.conR, s.up = nd, conR, true
	n.note("node %d started (process %d) at height %d", i+1, len(s.procs), nd.CS.GetRoundState().Height)
	return nil
}

// Stop stops node i between two handler calls (switch, reactor, consensus state; the receive routine closes the WAL
// on its way out) and leaves its database and WAL directory behind.
func (n *Net) Stop(i int) {
	s := n.slots[i]
	if !s.up {
		return
	}
	sw := n.sw[i]
	n.sw[i] = nil
	s.up = false
	sw.Stop()
	p := s.procs[len(s.procs)-1]
	select {
	case <-s.nd.CS.VerifDone():
	case <-time.After(60 * time.Second):
		p.rigErr = "the receive routine did not end within 60 s of Stop"
	}
	p.stopped = time.Now()
	recorders.Delete(s.nd.CS)
	s.nd.Close()
	ins, _, err := readWAL(s.root)
	if err != nil {
		p.rigErr = "WAL unreadable after stop: " + err.Error()
	}
	p.walUpTo = len(ins)
	n.note("node %d stopped (height %d, %d inputs logged)", i+1, s.nd.CS.GetRoundState().Height, len(ins))
}

// Hold asks node i to park at the gate the first time cond holds; the returned request's `held` channel is closed
// when it is parked.
func (n *Net) Hold(i int, cond func(g *gateRec) bool) *holdReq {
	h := &holdReq{cond: cond, held: make(chan struct{}), release: make(chan struct{})}
	s := n.slots[i]
	s.procs[len(s.procs)-1].rec.hold.Store(h)
	return h
}

// Release lets a parked node continue (and withdraws a request that has not fired).
func (n *Net) Release(i int, h *holdReq) {
	s := n.slots[i]
	s.procs[len(s.procs)-1].rec.hold.CompareAndSwap(h, nil)
	select {
	case <-h.release:
	default:
		close(h.release)
	}
}

// Kill: node i, parked at the gate by h, dies there: its switch, reactor and ticker are stopped, its WAL is flushed
// and closed (what the operating system does with the written records of a dead process), the receive goroutine ends
// without handling anything else.  Database and WAL directory stay behind.
func (n *Net) Kill(i int, h *holdReq) {
	s := n.slots[i]
	if !s.up {
		return
	}
	select {
	case <-h.held:
	default:
		n.Release(i, h)
		n.Stop(i)
		return
	}
	sw := n.sw[i]
	n.sw[i] = nil
	s.up = false
	sw.Stop()
	s.nd.CS.VerifStopWAL()
	h.kill.Store(true)
	close(h.release)
	p := s.procs[len(s.procs)-1]
	p.stopped = time.Now()
	p.killed = true
	recorders.Delete(s.nd.CS)
	s.nd.Close()
	ins, _, err := readWAL(s.root)
	if err != nil {
		p.rigErr = "WAL unreadable after the process died: " + err.Error()
	}
	p.walUpTo = len(ins)
	n.note("node %d killed at the gate (height %d, %d inputs logged)", i+1, s.nd.CS.GetRoundState().Height, len(ins))
}

func (n *Net) peerOf(i, j int) p2p.Peer {
	if n.sw[i] == nil || n.sw[j] == nil {
		return nil
	}
	return n.sw[i].Peers().Get(n.sw[j].NodeInfo().ID())
}

func (n *Net) Connected(i, j int) bool { return n.peerOf(i, j) != nil && n.peerOf(j, i) != nil }

// Connect connects i and j (both up) through net.Pipe unless they are connected.
func (n *Net) Connect(i, j int) {
	if i == j || n.sw[i] == nil || n.sw[j] == nil {
		return
	}
	// a half-closed connection (one side still holds the peer) must be gone first: addPeer refuses duplicates
	for k := 0; k < 400 && (n.peerOf(i, j) != nil) != (n.peerOf(j, i) != nil); k++ {
		time.Sleep(5 * time.Millisecond)
	}
	if n.peerOf(i, j) != nil || n.peerOf(j, i) != nil {
		if n.Connected(i, j) {
			return
		}
		n.Disconnect(i, j)
	}
	p2p.Connect2Switches(n.sw, i, j)
}

// Disconnect cuts the connection between i and j on both sides.
func (n *Net) Disconnect(i, j int) {
	if p := n.peerOf(i, j); p != nil {
		n.sw[i].StopPeerGracefully(p)
	}
	if p := n.peerOf(j, i); p != nil {
		n.sw[j].StopPeerForError(p, "partition")
	}
}

// SetTopology makes the connections exactly those of `groups` (nodes in the same group are connected, up nodes only).
func (n *Net) SetTopology(groups [][]int) {
	g := map[int]int{}
	for k, grp := range groups {
		for _, i := range grp {
			g[i] = k + 1
		}
	}
	for i := 0; i < n.Size(); i++ {
		for j := i + 1; j < n.Size(); j++ {
			if n.sw[i] == nil || n.sw[j] == nil {
				continue
			}
			if g[i] != 0 && g[i] == g[j] && (n.Edges == nil || n.Edges[[2]int{i, j}]) {
				n.Connect(i, j)
			} else {
				n.Disconnect(i, j)
			}
		}
	}
	n.note("topology %v", groups)
}

func (n *Net) All() []int {
	var a []int
	for i := range n.slots {
		a = append(a, i)
	}
	return a
}

// Heal: every node up, everybody connected to everybody.
func (n *Net) Heal() error {
	for i := range n.slots {
		if err := n.Start(i); err != nil {
			return err
		}
	}
	n.SetTopology([][]int{n.All()})
	return nil
}

// StoreHeight of node i (height of the last block it committed); works for stopped nodes too.
func (n *Net) StoreHeight(i int) uint64 {
	s := n.slots[i]
	if s.nd == nil {
		return 0
	}
	return s.nd.BO.Height()
}

func (n *Net) MaxStoreHeight() uint64 {
	m := uint64(0)
	for i := range n.slots {
		if h := n.StoreHeight(i); h > m {
			m = h
		}
	}
	return m
}
func (n *Net) MinStoreHeight() uint64 {
	m := uint64(1 << 62)
	for i := range n.slots {
		if h := n.StoreHeight(i); h < m {
			m = h
		}
	}
	return m
}

// WaitHeights waits until every node committed height `target`.  Returns the time it took, whether it happened, and
// for every node the time of its last commit (progress) relative to the start of the wait.
func (n *Net) WaitHeights(target uint64, bound time.Duration) (took time.Duration, ok bool, lastProgress []time.Duration) {
	start := time.Now()
	last := make([]uint64, n.Size())
	lastProgress = make([]time.Duration, n.Size())
	for i := range n.slots {
		last[i] = n.StoreHeight(i)
	}
	for time.Since(start) < bound {
		done := true
		for i := range n.slots {
			if n.slots[i].nd == nil || n.Silent[i] {
				continue // not started yet (late joiner) / down for good
			}
			h := n.StoreHeight(i)
			if h > last[i] {
				last[i] = h
				lastProgress[i] = time.Since(start)
			}
			if h < target {
				done = false
			}
		}
		if done {
			return time.Since(start), true, lastProgress
		}
		for _, s := range n.slots { // a dead receive routine will not come back: no need to wait for the bound
			if s.up {
				select {
				case <-s.nd.CS.VerifDone():
					return time.Since(start), false, lastProgress
				default:
				}
			}
		}
		time.Sleep(20 * time.Millisecond)
	}
	return time.Since(start), false, lastProgress
}

// Diagnose: per node height/round/step, queue lengths, and what it believes about each of its peers.
func (n *Net) Diagnose() []J {
	var out []J
	for i, s := range n.slots {
		d := J{"node": i + 1, "validator": s.id, "up": s.up, "store_height": n.StoreHeight(i), "processes": len(s.procs)}
		if s.up {
			rs := s.nd.CS.GetRoundState()
			pq, iq := s.nd.CS.VerifRNQueueLens()
			d["h/r/s"] = fmt.Sprintf("%d/%d/%d", rs.Height, rs.Round, rs.Step)
			d["proposal"] = rs.Proposal != nil
			d["proposal_block"] = rs.ProposalBlock != nil
			d["locked_round"] = rs.LockedRound
			d["peer_queue"], d["internal_queue"] = pq, iq
			if rs.Votes != nil {
				if pv := rs.Votes.Prevotes(rs.Round); pv != nil {
					d["prevotes"] = pv.BitArray().String()
				}
				if pc := rs.Votes.Precommits(rs.Round); pc != nil {
					d["precommits"] = pc.BitArray().String()
				}
			}
			select {
			case <-s.nd.CS.VerifDone():
				d["receive_routine"] = "ended"
			default:
			}
			var peers []J
			for j := range n.slots {
				if p := n.peerOf(i, j); p != nil {
					pj := J{"peer": j + 1}
					if ps, ok := p.Get(types.PeerStateKey).(*consensus.PeerState); ok {
						prs := ps.GetRoundState()
						pj["believes"] = fmt.Sprintf("%d/%d/%d proposal=%v parts=%v pol=%d pv=%v pc=%v lastCommit(r%d)=%v catchup(r%d)=%v", prs.Height, prs.Round, prs.Step,
							prs.Proposal, prs.ProposalBlockParts, prs.ProposalPOLRound, prs.Prevotes, prs.Precommits, prs.LastCommitRound, prs.LastCommit,
							prs.CatchupCommitRound, prs.CatchupCommit)
					}
					peers = append(peers, pj)
				}
			}
			d["peers"] = peers
		}
		out = append(out, d)
	}
	return out
}

// Close stops everything.
func (n *Net) Close() {
	for i := range n.slots {
		n.Stop(i)
	}
}

// ---------------------------------------------------------------------------------------------
// verdicts on the stores
// ---------------------------------------------------------------------------------------------
func (n *Net) StoreDisagreement() string {
	maxH := n.MaxStoreHeight()
	for h := uint64(1); h <= maxH; h++ {
		var ref common.Hash
		refN := -1
		for i, s := range n.slots {
			if s.nd == nil || s.nd.BO.Height() < h {
				continue
			}
			b := s.nd.BO.LoadBlock(h)
			if b == nil {
				return fmt.Sprintf("height %d: node %d reports store height %d but has no block %d", h, i+1, s.nd.BO.Height(), h)
			}
			if refN < 0 {
				ref, refN = b.Hash(), i
			} else if b.Hash() != ref {
				return fmt.Sprintf("height %d: node %d stored block %s, node %d stored block %s", h, refN+1, ref.Hex()[:12], i+1, b.Hash().Hex()[:12])
			}
		}
	}
	return ""
}

// ---------------------------------------------------------------------------------------------
// WAL -> inputs
// ---------------------------------------------------------------------------------------------
type walInput struct {
	Timeout bool
	H       uint64
	R       uint32
	Step    int
	Msg     consensus.Message
	Peer    p2p.ID
	T       time.Time
}

func readWAL(root string) (ins []walInput, ends []int64, err error) {
	head := filepath.Join(root, "cs.wal", "wal")
	if _, e := os.Stat(head); e != nil {
		return nil, nil, nil
	}
	grp, err := auto.OpenGroup(head)
	if err != nil {
		return nil, nil, err
	}
	defer grp.Close()
	rd, err := grp.NewReader(0)
	if err != nil {
		return nil, nil, err
	}
	defer rd.Close()
	dec := consensus.NewWALDecoder(rd)
	for {
		tm, e := dec.Decode()
		if e == io.EOF {
			return ins, ends, nil
		}
		if e != nil {
			return ins, ends, e
		}
		switch m := tm.Msg.(type) {
		case consensus.EndHeightMessage:
			ends = append(ends, m.Height)
		default:
			if msg, peer, ok := consensus.VerifMsgInfoFields(tm.Msg); ok {
				ins = append(ins, walInput{Msg: msg, Peer: peer, T: tm.Time})
			} else if _, h, r, st, ok := consensus.VerifTimeoutFields(tm.Msg); ok {
				ins = append(ins, walInput{Timeout: true, H: h, R: r, Step: int(st), T: tm.Time})
			}
		}
	}
}

// ---------------------------------------------------------------------------------------------
// trace: WAL inputs + gate records -> the ndjson format of KardiaNodeTrace / ReactorNetTrace
// ---------------------------------------------------------------------------------------------
type namer struct {
	names   map[uint64]map[string]string // height -> hex block hash -> name
	pnames  map[string]string            // hex part-set header hash -> name
	phash   map[string]common.Hash
	counter map[uint64]int
}

func newNamer() *namer {
	return &namer{names: map[uint64]map[string]string{}, pnames: map[string]string{}, phash: map[string]common.Hash{}, counter: map[uint64]int{}}
}
func (nm *namer) add(h uint64, id types.BlockID) string {
	if id.Hash.IsZero() {
		return "nil"
	}
	if nm.names[h] == nil {
		nm.names[h] = map[string]string{}
	}
	k := hx(id.Hash)
	if s, ok := nm.names[h][k]; ok {
		return s
	}
	nm.counter[h]++
	s := fmt.Sprintf("b%d_%d", h, nm.counter[h])
	nm.names[h][k] = s
	nm.pnames[hx(id.PartsHeader.Hash)] = s
	nm.phash[hx(id.PartsHeader.Hash)] = id.PartsHeader.Hash
	return s
}
func (nm *namer) block(h uint64, hexHash string) string {
	switch hexHash {
	case "":
		return "none"
	case "nil":
		return "nil"
	}
	if s, ok := nm.names[h][hexHash]; ok {
		return s
	}
	return "?" + hexHash[2:10]
}
func (nm *namer) parts(hexHash string) string {
	if hexHash == "" {
		return "none"
	}
	if s, ok := nm.pnames[hexHash]; ok {
		return s
	}
	return "?"
}

type traceStats struct {
	Events, Restarts, MaxRound int
	Timeouts, OwnMsgs, PeerMsgs int
	LateVotes                  int // votes for another height than the node's (catch-up traffic, late precommits)
	Truncated                  int // events left out of the trace file (runs that went on for the whole liveness bound)
}

// MaxTraceEventsPerNode bounds the part of a node's history that is handed to TLC (a prefix: every prefix of a
// behaviour is a behaviour).  Runs of the unchanged code stay far below it.
var MaxTraceEventsPerNode = 3000

// BuildTrace writes the trace of the whole run (every node, every process) to path.
func (n *Net) BuildTrace(path string) (traceStats, error) {
	var st traceStats
	nm := newNamer()
	type nodeIn struct{ ins []walInput }
	all := make([]nodeIn, n.Size())
	maxH := uint64(1)
	for i, s := range n.slots {
		ins, _, err := readWAL(s.root)
		if err != nil {
			return st, fmt.Errorf("WAL of node %d: %v", i+1, err)
		}
		all[i].ins = ins
		for _, in := range ins {
			switch m := in.Msg.(type) {
			case *consensus.ProposalMessage:
				nm.add(m.Proposal.Height, m.Proposal.POLBlockID)
			case *consensus.VoteMessage:
				nm.add(m.Vote.Height, m.Vote.BlockID)
			}
		}
		for _, p := range s.procs {
			for _, g := range p.rec.recs {
				if g.H > maxH {
					maxH = g.H
				}
			}
		}
	}
	f, err := os.Create(path)
	if err != nil {
		return st, err
	}
	defer f.Close()
	enc := json.NewEncoder(f)
	// header (the format of KardiaNodeTrace; `reactor` marks the extensions of ReactorNetTrace)
	pw := [][]int64{}
	for h := 1; h <= int(maxH)+3; h++ {
		pw = append(pw, n.W.PowersAt(h))
	}
	me := []int{}
	for _, s := range n.slots {
		me = append(me, s.id)
	}
	inv := []string{"X1_1"}
	hdr := J{"t": "hdr", "n": n.Size(), "power": pw, "prop": n.W.ProposerTable(int(maxH)+3, 80), "me": me, "invalid": inv, "wait": false, "reactor": true}
	if err := enc.Encode(hdr); err != nil {
		return st, err
	}
	written := make([]int, n.Size())
	for i, s := range n.slots {
		peerNo := map[p2p.ID]int{}
		pos := 0 // next WAL input
		for pi, p := range s.procs {
			recs := p.rec.recs
			if len(recs) == 0 {
				if p.died != "" {
					continue
				}
				return st, fmt.Errorf("node %d process %d has no gate record", i+1, pi+1)
			}
			upTo := p.walUpTo
			if pi == len(s.procs)-1 && upTo == 0 {
				upTo = len(all[i].ins)
			}
			ins := all[i].ins[pos:min2(upTo, len(all[i].ins))]
			pos = upTo
			// gate record 0 = the state the process starts its receive loop in
			if pi > 0 && written[i] < MaxTraceEventsPerNode {
				ev := J{"n": i + 1, "k": "restart", "newBid": "none", "post": n.post(nm, recs[0]), "signed": n.signed(nm, s.id, recs[0].Signed), "out": []J{}, "touts": []J{}}
				if err := enc.Encode(ev); err != nil {
					return st, err
				}
				st.Events++
				st.Restarts++
			}
			// one gate record after every input (the last input of a process that died inside a handler has none)
			if len(ins) != len(recs)-1 && !(p.died != "" && len(ins) == len(recs)) {
				return st, fmt.Errorf("node %d process %d: %d inputs in the WAL but %d gate records", i+1, pi+1, len(ins), len(recs))
			}
			for k, in := range ins {
				if k+1 >= len(recs) {
					break
				}
				if written[i] >= MaxTraceEventsPerNode {
					st.Truncated += len(ins) - k
					break
				}
				written[i]++
				g := recs[k+1]
				ev := J{"n": i + 1, "post": n.post(nm, g), "signed": n.signed(nm, s.id, g.Signed), "out": []J{}, "touts": []J{}}
				newBid := "none"
				for _, q := range g.Signed {
					if q.Kind == "proposal" {
						newBid = nm.block(q.H, hx(q.Hash))
					}
				}
				ev["newBid"] = newBid
				if in.Timeout {
					ev["k"] = "timeout"
					ev["own"] = false
					ev["ti"] = J{"h": in.H, "r": in.R, "step": in.Step}
					st.Timeouts++
				} else {
					ev["k"] = "msg"
					own := in.Peer == ""
					ev["own"] = own
					pn := 0
					if !own {
						if _, ok := peerNo[in.Peer]; !ok {
							peerNo[in.Peer] = len(peerNo) + 1
						}
						pn = peerNo[in.Peer]
						st.PeerMsgs++
					} else {
						st.OwnMsgs++
					}
					m := n.abstract(nm, in.Msg, pn)
					if m == nil {
						return st, fmt.Errorf("node %d: unknown message type %T in the WAL", i+1, in.Msg)
					}
					if m["k"] == "vote" && m["h"].(uint64) != g.H {
						st.LateVotes++
					}
					ev["m"] = m
				}
				if int(g.R) > st.MaxRound {
					st.MaxRound = int(g.R)
				}
				if err := enc.Encode(ev); err != nil {
					return st, err
				}
				st.Events++
			}
		}
	}
	return st, nil
}

func (n *Net) post(nm *namer, g gateRec) J {
	votes := []J{}
	name := func(h uint64, l []string) []string {
		out := make([]string, len(l))
		for i, x := range l {
			out[i] = nm.block(h, x)
		}
		return out
	}
	for _, rv := range g.Votes {
		votes = append(votes, J{"r": rv.R, "pv": name(g.H, rv.PV), "pc": name(g.H, rv.PC)})
	}
	return J{"h": g.H, "r": g.R, "step": g.Step, "hasProp": g.HasProp, "pol": g.Pol,
		"pblock": nm.block(g.H, g.PBlock), "pparts": nm.parts(g.PParts),
		"lockedR": g.LockedR, "lockedB": nm.block(g.H, g.LockedB), "validR": g.ValidR, "validB": nm.block(g.H, g.ValidB),
		"commitR": g.CommitR, "ttp": g.TTP, "votes": votes, "last": name(g.H-1, g.Last)}
}

// the signature requests made during one handler call, in the shape of the specification's output records
func (n *Net) signed(nm *namer, id int, reqs []node.SignReq) []J {
	out := []J{}
	for _, q := range reqs {
		if q.Kind == "proposal" {
			out = append(out, J{"o": "proposal", "h": q.H, "r": q.R, "pol": q.Pol, "bid": nm.block(q.H, hx(q.Hash)), "i": id})
		} else {
			b := "nil"
			if !q.Hash.IsZero() {
				b = nm.block(q.H, hx(q.Hash))
			}
			out = append(out, J{"o": "vote", "type": q.Type, "h": q.H, "r": q.R, "bid": b, "i": id})
		}
	}
	return out
}

func (n *Net) abstract(nm *namer, m consensus.Message, peer int) J {
	switch mm := m.(type) {
	case *consensus.ProposalMessage:
		p := mm.Proposal
		signer := 0
		sb := types.ProposalSignBytes(node.ChainID, p.ToProto())
		for i, pv := range n.W.Privs {
			if types.VerifySignature(pv.GetAddress(), crypto.Keccak256(sb), p.Signature) {
				signer = i + 1
			}
		}
		return J{"k": "proposal", "h": p.Height, "r": p.Round, "pol": p.POLRound, "bid": nm.add(p.Height, p.POLBlockID), "i": signer, "sigOK": signer > 0}
	case *consensus.BlockPartMessage:
		name := "?"
		for k, hh := range nm.phash {
			if mm.Part.Proof.Verify(hh.Bytes(), mm.Part.Bytes) == nil && uint64(mm.Part.Index) == uint64(mm.Part.Proof.Index) {
				name = nm.pnames[k]
			}
		}
		if mm.Part.Proof.Total != 1 {
			name = "?multipart"
		}
		return J{"k": "part", "h": mm.Height, "r": mm.Round, "bid": name}
	case *consensus.VoteMessage:
		v := mm.Vote
		id := n.W.IDOf(v.ValidatorAddress)
		ok := id > 0 && n.W.IndexAt(v.Height, id) == int(v.ValidatorIndex)
		if ok {
			// signature check as the vote set does it
			if err := v.Verify(node.ChainID, n.W.Privs[id-1].GetAddress()); err != nil {
				ok = false
			}
		}
		b := "nil"
		if !v.BlockID.Hash.IsZero() {
			b = nm.block(v.Height, hx(v.BlockID.Hash))
		}
		return J{"k": "vote", "type": int(v.Type), "h": v.Height, "r": v.Round, "bid": b, "i": id, "ok": ok, "peer": peer}
	}
	return nil
}

// Dead returns the nodes whose receive routine ended by itself (the real code recovers a panic inside a handler, logs
// CONSENSUS FAILURE and stops the routine) or that did not start.
func (n *Net) Dead() []string {
	var out []string
	for i, s := range n.slots {
		for pi, p := range s.procs {
			if p.died != "" {
				out = append(out, fmt.Sprintf("node %d process %d: %s", i+1, pi+1, p.died))
			}
		}
		if s.up {
			select {
			case <-s.nd.CS.VerifDone():
				out = append(out, fmt.Sprintf("node %d: the receive routine ended by itself (CONSENSUS FAILURE) at height %d", i+1, s.nd.CS.GetRoundState().Height))
				s.procs[len(s.procs)-1].died = "CONSENSUS FAILURE"
			default:
			}
		}
	}
	return out
}

// RigErrors: what the rig itself could not do (infrastructure, never a verdict).
func (n *Net) RigErrors() []string {
	var out []string
	for i, s := range n.slots {
		for pi, p := range s.procs {
			if p.rigErr != "" {
				out = append(out, fmt.Sprintf("node %d process %d: %s", i+1, pi+1, p.rigErr))
			}
		}
	}
	return out
}

func (n *Net) Log() []string {
	n.mu.Lock()
	defer n.mu.Unlock()
	return append([]string{}, n.log...)
}

var _ = sort.Ints
var _ = strings.Join
var _ = kproto.PrevoteType
var _ = cstypes.RoundStepNewHeight

func (n *Net) heights() []uint64 {
	var hs []uint64
	for i := range n.slots {
		hs = append(hs, n.StoreHeight(i))
	}
	return hs
}
