//go:build verif

package reactornet

import (
	"encoding/json"
	"fmt"
	"net"
	"os"
	"sort"
	"sync"
	"sync/atomic"
	"testing"
	"time"

	"github.com/kardiachain/go-kardia/configs"
	"github.com/kardiachain/go-kardia/consensus"
	cstypes "github.com/kardiachain/go-kardia/consensus/types"
	"github.com/kardiachain/go-kardia/lib/common"
	"github.com/kardiachain/go-kardia/lib/crypto"
	"github.com/kardiachain/go-kardia/lib/p2p"
	"github.com/kardiachain/go-kardia/lib/p2p/conn"
	"github.com/kardiachain/go-kardia/lib/service"
	kproto "github.com/kardiachain/go-kardia/proto/kardiachain/types"
	"github.com/kardiachain/go-kardia/types"

	"verifharness/internal/mbt"
	"verifharness/node"
)

// ---------------------------------------------------------------------------------------------
// MBT of specs/reactornet/GossipVotes.tla: every peer history TLC enumerates (MC_GossipVotes) is replayed on the real
// ConsensusManager.Receive / PeerState / gossipVotesRoutine of a real validator that was driven into the CANONICAL
// SENDER state of the model; the votes the real routine hands to peer.Send until it has nothing left must be the
// votes the specification sends.
// ---------------------------------------------------------------------------------------------

// gossipPeer implements p2p.Peer.  It records what is sent to it and ends the gossip routine (IsRunning = false) as
// soon as one iteration of the routine's loop has sent nothing — every iteration starts with one IsRunning call.
type gossipPeer struct {
	*service.BaseService
	id    p2p.ID
	addr  *p2p.NetAddress
	mu    sync.Mutex
	kv    map[string]interface{}
	sent  [][]byte
	polls int
	iterSends int
	runaway bool
}

var gpSeq int64

func newGossipPeer() *gossipPeer {
	n := atomic.AddInt64(&gpSeq, 1)
	k, _ := crypto.ToECDSA(crypto.Keccak256([]byte(fmt.Sprintf("verif-gossip-peer-%d", n))))
	nk := p2p.NodeKey{PrivKey: k}
	addr := p2p.NewNetAddressIPPort(net.IPv4(9, byte(n>>16), byte(n>>8), byte(n)), 26656)
	addr.ID = nk.ID()
	p := &gossipPeer{id: nk.ID(), addr: addr, kv: map[string]interface{}{}}
	p.BaseService = service.NewBaseService(nil, "gossipPeer", p)
	return p
}
func (p *gossipPeer) FlushStop() {}
func (p *gossipPeer) record(ch byte, b []byte) bool {
	p.mu.Lock()
	if ch == consensus.VoteChannel {
		p.sent = append(p.sent, append([]byte(nil), b...))
	}
	p.iterSends++
	p.mu.Unlock()
	return true
}
func (p *gossipPeer) TrySend(ch byte, b []byte) bool { return p.record(ch, b) }
func (p *gossipPeer) Send(ch byte, b []byte) bool    { return p.record(ch, b) }
func (p *gossipPeer) NodeInfo() p2p.NodeInfo {
	return p2p.DefaultNodeInfo{DefaultNodeID: p.id, ListenAddr: p.addr.DialString()}
}
func (p *gossipPeer) Status() conn.ConnectionStatus { return conn.ConnectionStatus{} }
func (p *gossipPeer) ID() p2p.ID                    { return p.id }
func (p *gossipPeer) IsOutbound() bool              { return false }
func (p *gossipPeer) IsPersistent() bool            { return false }
func (p *gossipPeer) Get(key string) interface{} {
	p.mu.Lock()
	defer p.mu.Unlock()
	return p.kv[key]
}
func (p *gossipPeer) Set(key string, v interface{}) {
	p.mu.Lock()
	p.kv[key] = v
	p.mu.Unlock()
}
func (p *gossipPeer) RemoteIP() net.IP            { return p.addr.IP }
func (p *gossipPeer) SocketAddr() *p2p.NetAddress { return p.addr }
func (p *gossipPeer) RemoteAddr() net.Addr        { return &net.TCPAddr{IP: p.addr.IP, Port: 8800} }
func (p *gossipPeer) CloseConn() error            { return nil }
func (p *gossipPeer) IsRunning() bool {
	p.mu.Lock()
	defer p.mu.Unlock()
	if p.polls > 0 && p.iterSends == 0 {
		return false // the previous iteration sent nothing: the routine is at its fixpoint
	}
	if p.polls > 400 {
		p.runaway = true // the routine keeps sending (a vote that is never marked as sent)
		return false
	}
	p.polls++
	p.iterSends = 0
	return true
}

// runGossip runs the real gossipVotesRoutine for this peer to its fixpoint and returns the votes it sent.
func runGossip(conR *consensus.ConsensusManager, p *gossipPeer, ps *consensus.PeerState) (votes []*types.Vote, runaway bool, pan interface{}) {
	p.mu.Lock()
	p.sent, p.polls, p.iterSends, p.runaway = nil, 0, 0, false
	p.mu.Unlock()
	pan = conR.VerifRNGossipVotes(p, ps)
	p.mu.Lock()
	defer p.mu.Unlock()
	for _, b := range p.sent {
		m, err := consensus.VerifDecodeMsgRN(b)
		if err != nil {
			continue
		}
		if vm, ok := m.(*consensus.VoteMessage); ok {
			votes = append(votes, vm.Vote)
		}
	}
	return votes, p.runaway, pan
}

// ---- the canonical sender (MC_GossipVotes.tla): validator 1 at height 3, round 2 ----
type sender struct {
	w    *node.World
	nd   *node.Node
	conR *consensus.ConsensusManager
}

func (s *sender) pump() {
	for {
		ms := s.nd.CS.VerifDrainInternal()
		if len(ms) == 0 {
			return
		}
		for _, m := range ms {
			s.nd.CS.VerifHandleMsg(m, "")
		}
	}
}
func (s *sender) timeout(h uint64, r uint32, step cstypes.RoundStepType) {
	s.nd.CS.VerifHandleTimeout(consensus.VerifTimeout{Height: h, Round: r, Step: step})
	s.pump()
}
func (s *sender) vote(i int, t kproto.SignedMsgType, h uint64, r uint32, id types.BlockID) {
	v := s.w.SignVoteFor(i, t, h, r, id, time.Now())
	s.nd.CS.VerifHandleMsg(&consensus.VoteMessage{Vote: v}, p2p.ID(fmt.Sprintf("v%d", i)))
	s.pump()
}

// propose makes the node hold the proposal of (h, r): its own if it is the proposer, else one the driver builds from
// the block the node itself would create, signed with the proposer's key.
func (s *sender) propose(h uint64, r uint32) (types.BlockID, error) {
	rs := s.nd.CS.GetRoundState()
	if rs.Proposal == nil {
		prop := s.w.IDOf(rs.Validators.GetProposer().Address)
		blk, parts := s.nd.CS.VerifCreateProposalBlock()
		if blk == nil || parts.Total() != 1 {
			return types.BlockID{}, fmt.Errorf("no single-part proposal block at (%d,%d)", h, r)
		}
		id := types.BlockID{Hash: blk.Hash(), PartsHeader: parts.Header()}
		p := s.w.SignProposalFor(prop, h, r, 0, id)
		s.nd.CS.VerifHandleMsg(&consensus.ProposalMessage{Proposal: p}, "v")
		s.nd.CS.VerifHandleMsg(&consensus.BlockPartMessage{Height: h, Round: r, Part: parts.GetPart(0)}, "v")
		s.pump()
	}
	rs = s.nd.CS.GetRoundState()
	if rs.Proposal == nil || rs.ProposalBlock == nil {
		return types.BlockID{}, fmt.Errorf("the node does not hold a complete proposal at (%d,%d)", h, r)
	}
	return rs.Proposal.POLBlockID, nil
}

func buildSender() (*sender, error) {
	w := node.NewWorld([]int64{1, 1, 1, 1})
	nd, err := node.BuildNode(w, 1, node.Opts{Fresh: true})
	if err != nil {
		return nil, err
	}
	s := &sender{w: w, nd: nd}
	nd.CS.VerifScheduleRound0()
	// heights 1 and 2 are committed in round 1; the commit of height 1 is made of the precommits of validators 1, 2, 4,
	// the one of height 2 (the sender's LastCommit at height 3) of validators 1, 2, 3
	for h, others := range map[uint64][2]int{1: {2, 4}, 2: {2, 3}} {
		_ = h
		_ = others
	}
	for _, hc := range []struct {
		h      uint64
		others [2]int
	}{{1, [2]int{2, 4}}, {2, [2]int{2, 3}}} {
		s.timeout(hc.h, 1, cstypes.RoundStepNewHeight)
		id, err := s.propose(hc.h, 1)
		if err != nil {
			return nil, err
		}
		for _, i := range hc.others {
			s.vote(i, kproto.PrevoteType, hc.h, 1, id)
		}
		for _, i := range hc.others {
			s.vote(i, kproto.PrecommitType, hc.h, 1, id)
		}
		if got := nd.CS.GetRoundState().Height; got != hc.h+1 {
			return nil, fmt.Errorf("height %d was not committed (the node is at height %d)", hc.h, got)
		}
	}
	// height 3, round 1 fails: nil prevotes and nil precommits of validators 1, 2, 3
	s.timeout(3, 1, cstypes.RoundStepNewHeight)
	s.timeout(3, 1, cstypes.RoundStepPropose) // (no effect if the node is past the propose step)
	for _, i := range []int{2, 3} {
		s.vote(i, kproto.PrevoteType, 3, 1, types.BlockID{})
	}
	s.timeout(3, 1, cstypes.RoundStepPrevoteWait)
	for _, i := range []int{2, 3} {
		s.vote(i, kproto.PrecommitType, 3, 1, types.BlockID{})
	}
	s.timeout(3, 1, cstypes.RoundStepPrecommitWait)
	if rs := nd.CS.GetRoundState(); rs.Height != 3 || rs.Round != 2 {
		return nil, fmt.Errorf("the node is at %d/%d, not at 3/2", rs.Height, rs.Round)
	}
	// round 2: proposal, prevotes of 1, 2, 3 for it, precommits of 1 and 2
	id, err := s.propose(3, 2)
	if err != nil {
		return nil, err
	}
	s.timeout(3, 2, cstypes.RoundStepPropose)
	for _, i := range []int{2, 3} {
		s.vote(i, kproto.PrevoteType, 3, 2, id)
	}
	s.vote(2, kproto.PrecommitType, 3, 2, id)
	// ---- is this the canonical sender of the model? ----
	rs := nd.CS.GetRoundState()
	bits := func(ba *common.BitArray) string {
		if ba == nil {
			return "nil"
		}
		return ba.String()
	}
	got := fmt.Sprintf("h%d r%d pv1=%s pc1=%s pv2=%s pc2=%s lc(r%d)=%s", rs.Height, rs.Round,
		bits(rs.Votes.Prevotes(1).BitArray()), bits(rs.Votes.Precommits(1).BitArray()),
		bits(rs.Votes.Prevotes(2).BitArray()), bits(rs.Votes.Precommits(2).BitArray()), rs.LastCommit.GetRound(), bits(rs.LastCommit.BitArray()))
	want := "h3 r2 pv1=BA{4:xxx_} pc1=BA{4:xxx_} pv2=BA{4:xxx_} pc2=BA{4:xx__} lc(r1)=BA{4:xxx_}"
	if got != want {
		return nil, fmt.Errorf("the real validator is not in the canonical sender state of MC_GossipVotes.tla: got %s, want %s", got, want)
	}
	if !rs.Votes.Precommits(1).IsCommit() || rs.Votes.Precommits(2).IsCommit() {
		return nil, fmt.Errorf("canonical sender: precommits of round 1 must have a +2/3 majority (nil), those of round 2 not")
	}
	c1 := nd.BO.LoadBlockCommit(1)
	if c1 == nil || c1.Round != 1 || bits(c1.BitArray()) != "BA{4:xx_x}" {
		return nil, fmt.Errorf("canonical sender: stored commit of height 1 is %v, want round 1 BA{4:xx_x}", c1)
	}
	if nd.BO.LoadBlockCommit(2) != nil {
		return nil, fmt.Errorf("canonical sender: a stored commit of height 2 exists before block 3 does")
	}
	fs := configs.TestFastSyncConfig() // Enable: the reactor does not start the consensus state (it is driven by hand)
	s.conR = consensus.NewConsensusManager(nd.CS, fs)
	nd.CS.VerifConsensusConfig().PeerGossipSleepDuration = 50 * time.Microsecond
	if err := s.conR.Start(); err != nil {
		return nil, err
	}
	return s, nil
}

type gMsg struct {
	K    string `json:"k"`
	H    uint64 `json:"h"`
	R    uint32 `json:"r"`
	Step int    `json:"step"`
	Lcr  uint32 `json:"lcr"`
	T    int    `json:"t"`
	I    uint32 `json:"i"`
	Polr uint32 `json:"polr"`
}
type gLine struct {
	H []gMsg                     `json:"h"`
	S [][4]int                   `json:"s"`
	O [][4]int                   `json:"o"`
	Q map[string]json.RawMessage `json:"q"`
}

func arrOf(ba *common.BitArray) string {
	if ba == nil {
		return `["nil"]`
	}
	idx := []int{}
	for i := 0; i < ba.Size(); i++ {
		if ba.GetIndex(i) {
			idx = append(idx, i)
		}
	}
	b, _ := json.Marshal(idx)
	return `["set",` + string(b) + `]`
}

// TestGossipReplay: GOSSIP_DUMP = TLC's output of MC_GossipVotes (one line per history).
func TestGossipReplay(t *testing.T) {
	res := mbt.NewResult()
	defer res.Write()
	s, err := buildSender()
	if err != nil {
		res.Mismatch("infra:reactornet:gossip-sender", err.Error(), nil)
		return
	}
	dummyID := types.BlockID{Hash: common.BytesToHash([]byte{1}), PartsHeader: types.PartSetHeader{Total: 1, Hash: common.BytesToHash([]byte{2})}}
	var nonProp, runaways int64
	classOf := func(v [4]int, peerR int) string {
		switch {
		case v[0] == 3 && v[2] == 1 && v[1] == peerR:
			return "prevotes-of-the-peers-round"
		case v[0] == 3 && v[2] == 1:
			return "pol-prevotes"
		case v[0] == 3:
			return "precommits-of-the-peers-round"
		case v[0] == 2:
			return "last-commit-for-a-peer-one-height-behind"
		default:
			return "stored-commit-for-a-peer-further-behind"
		}
	}
	n, err := mbt.EachLine(os.Getenv("GOSSIP_DUMP"), mbt.EnvInt("GOSSIP_WORKERS", 0), 0, mbt.EnvInt("GOSSIP_STRIDE", 1), mbt.Seed(), func(k int, raw []byte) {
		var ln gLine
		if err := json.Unmarshal(raw, &ln); err != nil || len(ln.H) == 0 {
			res.Mismatch("infra:reactornet:gossip-dump", fmt.Sprintf("unparsable dump line %d: %v", k, err), string(raw[:min2(len(raw), 300)]))
			return
		}
		res.Count(1)
		res.Behaviour()
		p := newGossipPeer()
		s.conR.InitPeer(p)
		ps, _ := p.Get(types.PeerStateKey).(*consensus.PeerState)
		var pan interface{}
		func() {
			defer func() {
				if r := recover(); r != nil {
					pan = r
				}
			}()
			for _, m := range ln.H {
				switch m.K {
				case "nrs":
					s.conR.Receive(consensus.StateChannel, p, consensus.MustEncode(&consensus.NewRoundStepMessage{Height: m.H, Round: m.R, Step: cstypes.RoundStepType(m.Step), LastCommitRound: m.Lcr}))
				case "has":
					s.conR.Receive(consensus.StateChannel, p, consensus.MustEncode(&consensus.HasVoteMessage{Height: m.H, Round: m.R, Type: kproto.SignedMsgType(m.T), Index: m.I}))
				case "vote":
					v := s.w.SignVoteFor(int(m.I)+1, kproto.SignedMsgType(m.T), m.H, m.R, types.BlockID{}, time.Unix(1700000000, 0))
					s.conR.Receive(consensus.VoteChannel, p, consensus.MustEncode(&consensus.VoteMessage{Vote: v}))
				case "prop":
					pr := types.NewProposal(m.H, m.R, m.Polr, dummyID)
					pr.Signature = make([]byte, 65)
					s.conR.Receive(consensus.DataChannel, p, consensus.MustEncode(&consensus.ProposalMessage{Proposal: pr}))
				case "gossip":
					if _, _, pn := runGossip(s.conR, p, ps); pn != nil {
						pan = pn
					}
				}
			}
		}()
		s.nd.CS.VerifRNDrainPeerQueue()
		detail := J{"history": ln.H, "line": k}
		if pan != nil {
			res.Mismatch("reactornet:panic:gossip:receive", fmt.Sprintf("the reactor panicked on a peer's messages: %v", pan), detail)
			return
		}
		votes, runaway, pn := runGossip(s.conR, p, ps)
		if pn != nil {
			res.Mismatch("reactornet:panic:gossip:votes-routine", fmt.Sprintf("gossipVotesRoutine panicked: %v", pn), detail)
			return
		}
		real := map[[4]int]bool{}
		for _, v := range votes {
			real[[4]int{int(v.Height), int(v.Round), int(v.Type), int(v.ValidatorIndex)}] = true
		}
		want := map[[4]int]bool{}
		for _, v := range ln.S {
			want[v] = true
		}
		prs := ps.GetRoundState()
		if len(ln.S) > 0 {
			res.Distinct(fmt.Sprintf("%v", ln.S)) // distinct non-empty sets of votes to send
		}
		if runaway {
			atomic.AddInt64(&runaways, 1)
		}
		// C04: a vote that is OWED to this peer and that the specification sends must have been sent
		for _, v := range ln.O {
			if !real[v] {
				cl := classOf(v, int(prs.Round))
				res.Mismatch("reactornet:gossip:owed-vote-not-sent:"+cl,
					fmt.Sprintf("after the peer's messages %v the real gossipVotesRoutine ran to its fixpoint without sending vote (height %d, round %d, type %d, validator index %d) which the peer needs and the sender holds (%s); the specification sends %v, the real routine sent %v",
						histText(ln.H), v[0], v[1], v[2], v[3], cl, ln.S, keys(real)), detail)
				return
			}
		}
		// everything else (votes that are sent but not owed, the bookkeeping itself) keeps specification and code in
		// lock-step; differences are counted, not reported
		same := len(real) == len(want)
		for v := range want {
			if !real[v] {
				same = false
			}
		}
		q := map[string]string{"pv": arrOf(prs.Prevotes), "pc": arrOf(prs.Precommits), "lc": arrOf(prs.LastCommit), "cc": arrOf(prs.CatchupCommit), "pol": arrOf(prs.ProposalPOL),
			"h": fmt.Sprint(prs.Height), "r": fmt.Sprint(prs.Round), "step": fmt.Sprint(int(prs.Step)), "prop": fmt.Sprint(prs.Proposal), "polr": fmt.Sprint(prs.ProposalPOLRound),
			"lcr": fmt.Sprint(prs.LastCommitRound), "ccr": fmt.Sprint(prs.CatchupCommitRound)}
		for f, rv := range q {
			if string(ln.Q[f]) != rv {
				same = false
			}
		}
		if !same {
			if atomic.AddInt64(&nonProp, 1) == 1 {
				res.Set("first_lockstep_difference", J{"history": ln.H, "spec_sent": ln.S, "real_sent": keys(real), "spec_peer_state": ln.Q, "real_peer_state": q})
			}
		}
		if k%50000 == 1 {
			res.Sample(J{"history": ln.H, "votes_sent": ln.S, "owed": ln.O})
		}
	})
	if err != nil {
		res.Mismatch("infra:reactornet:gossip-dump", err.Error(), nil)
	}
	res.Set("gossip_histories", n)
	res.Set("gossip_lockstep_differences", nonProp)
	res.Set("gossip_routine_did_not_reach_a_fixpoint", runaways)
}

func histText(h []gMsg) string {
	out := ""
	for _, m := range h {
		switch m.K {
		case "nrs":
			out += fmt.Sprintf("NewRoundStep(%d/%d/%d,lcr %d) ", m.H, m.R, m.Step, m.Lcr)
		case "has":
			out += fmt.Sprintf("HasVote(%d/%d,t%d,#%d) ", m.H, m.R, m.T, m.I)
		case "vote":
			out += fmt.Sprintf("Vote(%d/%d,t%d,#%d) ", m.H, m.R, m.T, m.I)
		case "prop":
			out += fmt.Sprintf("Proposal(%d/%d,pol %d) ", m.H, m.R, m.Polr)
		default:
			out += "gossip "
		}
	}
	return out
}

func keys(m map[[4]int]bool) [][4]int {
	var out [][4]int
	for k := range m {
		out = append(out, k)
	}
	sort.Slice(out, func(a, b int) bool { return fmt.Sprint(out[a]) < fmt.Sprint(out[b]) })
	return out
}
