//go:build verif

package reactornet

import (
	"fmt"
	"path/filepath"
	"testing"
	"time"

	"github.com/kardiachain/go-kardia/consensus"
	"github.com/kardiachain/go-kardia/kai/kaidb/memorydb"
	"github.com/kardiachain/go-kardia/lib/p2p"
	kproto "github.com/kardiachain/go-kardia/proto/kardiachain/types"
	"github.com/kardiachain/go-kardia/types"

	"verifharness/internal/mbt"
	"verifharness/node"
)

// roundsThenRestart: ONE real validator (real receive routine, real ticker, real WAL) is taken through `rounds` rounds of
// height 1 by nil prevotes / nil precommits of the three other validators (signed by the driver, which holds their keys:
// the "arbitrary delays / Byzantine messages" of the adversarial prefix), is stopped between two handler calls and
// started again on its database and WAL.  Returns how long Start took, or hung = true when it did not return.
func roundsThenRestart(dir string, rounds int) (hung bool, startTook time.Duration, replayed int, err error) {
	w := node.NewWorld([]int64{1, 1, 1, 1})
	db := memorydb.New()
	root := filepath.Join(dir, "n1")
	build := func(fresh bool) (*node.Node, error) {
		nd, err := node.BuildNode(w, 1, node.Opts{DB: db, Fresh: fresh, Cache: flushCache(), RootDir: root})
		if err != nil {
			return nil, err
		}
		nd.CS.VerifUseRealTicker()
		c := nd.CS.VerifConsensusConfig()
		c.TimeoutPropose, c.TimeoutProposeDelta = 30*time.Millisecond, time.Millisecond
		c.TimeoutPrevote, c.TimeoutPrevoteDelta = 10*time.Millisecond, time.Millisecond
		c.TimeoutPrecommit, c.TimeoutPrecommitDelta = 10*time.Millisecond, time.Millisecond
		c.TimeoutCommit = 10 * time.Millisecond
		return nd, nil
	}
	nd, err := build(true)
	if err != nil {
		return false, 0, 0, err
	}
	if err := nd.CS.Start(); err != nil {
		return false, 0, 0, err
	}
	for r := uint32(1); r <= uint32(rounds); r++ {
		// wait until the node is in round r
		t0 := time.Now()
		for nd.CS.GetRoundState().Round < r || nd.CS.GetRoundState().Step < 3 {
			if time.Since(t0) > 20*time.Second {
				return false, 0, 0, fmt.Errorf("the node does not reach round %d (it is at %d/%d)", r, nd.CS.GetRoundState().Round, nd.CS.GetRoundState().Step)
			}
			time.Sleep(2 * time.Millisecond)
		}
		for _, typ := range []kproto.SignedMsgType{kproto.PrevoteType, kproto.PrecommitType} {
			for i := 2; i <= 4; i++ {
				v := w.SignVoteFor(i, typ, 1, r, types.BlockID{}, time.Now())
				nd.CS.VerifInjectPeer(&consensus.VoteMessage{Vote: v}, p2p.ID(fmt.Sprintf("n%d", i)))
			}
		}
	}
	t0 := time.Now()
	for nd.CS.GetRoundState().Round <= uint32(rounds) && time.Since(t0) < 20*time.Second {
		time.Sleep(2 * time.Millisecond)
	}
	nd.CS.Stop()
	select {
	case <-nd.CS.VerifDone():
	case <-time.After(20 * time.Second):
		return false, 0, 0, fmt.Errorf("the receive routine does not end")
	}
	nd.Close()
	ins, _, err := readWAL(root)
	if err != nil {
		return false, 0, 0, err
	}
	nd2, err := build(false)
	if err != nil {
		return false, 0, len(ins), err
	}
	done := make(chan error, 1)
	t1 := time.Now()
	go func() { done <- nd2.CS.Start() }()
	select {
	case err := <-done:
		took := time.Since(t1)
		nd2.CS.Stop()
		nd2.Close()
		return false, took, len(ins), err
	case <-time.After(20 * time.Second):
		return true, 0, len(ins), nil
	}
}

// TestRestartAfterRounds (C04: "no reachable state ... a restarted node ... blocks progress forever"): a validator that
// went through several rounds of a height must come back after a restart.
func TestRestartAfterRounds(t *testing.T) {
	res := mbt.NewResult()
	defer res.Write()
	type r struct {
		rounds, n int
		hung      bool
		took      time.Duration
		err       error
	}
	cases := []int{2, 4, 6, 9}
	out := make(chan r, len(cases))
	for _, rounds := range cases {
		go func(rounds int) {
			hung, took, n, err := roundsThenRestart(filepath.Join(scratch(), fmt.Sprintf("rar-%d-%d", mbt.Seed(), rounds)), rounds)
			out <- r{rounds, n, hung, took, err}
		}(rounds)
	}
	for range cases {
		x := <-out
		res.Count(1)
		res.Behaviour()
		res.Distinct(fmt.Sprintf("restart-after-%d-rounds", x.rounds))
		res.Sample(J{"probe": "restart after rounds", "rounds": x.rounds, "start_did_not_return": x.hung, "start_s": x.took.Seconds(), "inputs_in_wal": x.n, "err": fmt.Sprint(x.err)})
		if x.err != nil {
			res.Mismatch("infra:reactornet:restart-after-rounds", fmt.Sprintf("rounds=%d: %v", x.rounds, x.err), nil)
			continue
		}
		if x.hung {
			res.Mismatch("reactornet:liveness:restart:start-does-not-return",
				fmt.Sprintf("a validator that handled %d logged inputs over %d rounds of height 1, stopped between two handler calls and started again on its database and WAL, never finishes ConsensusState.Start (still inside OnStart after 20 s): the restarted node does not come back",
					x.n, x.rounds), J{"rounds": x.rounds, "inputs": x.n})
		}
	}
}
