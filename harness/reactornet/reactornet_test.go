//go:build verif

package reactornet

import (
	"context"
	"encoding/json"
	"fmt"
	"os"
	"os/exec"
	"path/filepath"
	"regexp"
	"strconv"
	"strings"
	"sync"
	"testing"
	"time"

	"verifharness/internal/mbt"
)

func scratch() string {
	dir := os.Getenv("VERIF_SCRATCH")
	if dir == "" {
		dir = os.TempDir()
	}
	return dir
}

// TestOne runs one scenario in this process (development aid): RN_CFG, RN_KIND, VERIF_SEED.
func TestOne(t *testing.T) {
	cfg, kind := os.Getenv("RN_CFG"), os.Getenv("RN_KIND")
	if cfg == "" {
		cfg = "4eq"
	}
	if kind == "" {
		kind = "calm"
	}
	sc := Scenario{Cfg: cfg, Kind: kind, Seed: mbt.Seed(), Dir: filepath.Join(scratch(), fmt.Sprintf("rn-%s-%s-%d", cfg, kind, mbt.Seed())), K: 3}
	out := RunScenario(sc)
	b, _ := json.MarshalIndent(out, "", " ")
	fmt.Println(string(b))
}

// TestChild runs the scenario $RN_SCEN (JSON) and writes its Outcome to $RN_OUT.  It is started by TestReactorNet in a
// process of its own: a panic in a goroutine of the real code (gossip routines, MConnection, switch) kills the
// process it happens in, and must be reported, not take the whole check down.
func TestChild(t *testing.T) {
	raw := os.Getenv("RN_SCEN")
	if raw == "" {
		t.Skip("child only")
	}
	var sc Scenario
	if err := json.Unmarshal([]byte(raw), &sc); err != nil {
		t.Fatal(err)
	}
	out := RunScenario(sc)
	b, _ := json.Marshal(out)
	if err := os.WriteFile(os.Getenv("RN_OUT"), b, 0o644); err != nil {
		t.Fatal(err)
	}
}

var errBudget = fmt.Errorf("not run to its end within the time budget of this tier (earlier scenarios took their whole liveness bound)")

var rigFrames = regexp.MustCompile(`p2p\.Connect2Switches|addPeerWithConnection|p2p\.MakeSwitch`)

// runChild runs one scenario in a child process.  crash != "": the process died (text = head of the panic).
func runChild(sc Scenario, deadline time.Time) (out Outcome, crash string, rig bool, err error) {
	timeout := time.Until(deadline)
	if timeout < 20*time.Second {
		return out, "", false, errBudget
	}
	b, _ := json.Marshal(sc)
	outp := sc.Dir + ".out.json"
	logp := sc.Dir + ".log"
	os.Remove(outp)
	lf, e := os.Create(logp)
	if e != nil {
		return out, "", false, e
	}
	defer lf.Close()
	ctx, cancel := context.WithDeadline(context.Background(), deadline)
	defer cancel()
	cmd := exec.CommandContext(ctx, os.Args[0], "-test.run", "^TestChild$", "-test.timeout", fmt.Sprintf("%ds", int(timeout.Seconds())+60))
	cmd.Env = append(os.Environ(), "RN_SCEN="+string(b), "RN_OUT="+outp, "GOTRACEBACK=all")
	cmd.Stdout, cmd.Stderr = lf, lf
	runErr := cmd.Run()
	if ctx.Err() != nil {
		return out, "", false, errBudget
	}
	if raw, e := os.ReadFile(outp); e == nil {
		if e := json.Unmarshal(raw, &out); e == nil {
			return out, "", false, nil
		}
	}
	text, _ := os.ReadFile(logp)
	s := string(text)
	if i := strings.Index(s, "panic:"); i >= 0 || strings.Contains(s, "fatal error:") {
		if i < 0 {
			i = strings.Index(s, "fatal error:")
		}
		head := s[i:]
		// the panicking goroutine's stack: up to the first blank line after the first "goroutine" header
		if j := strings.Index(head, "\n\ngoroutine"); j > 0 {
			if k := strings.Index(head[j+2:], "\n\n"); k > 0 {
				head = head[:j+2+k]
			}
		}
		if len(head) > 4000 {
			head = head[:4000]
		}
		if strings.Contains(head, "test timed out") {
			return out, "", false, fmt.Errorf("child timed out: %s", head[:min2(len(head), 300)])
		}
		return out, head, rigFrames.MatchString(head), nil
	}
	return out, "", false, fmt.Errorf("child produced no outcome (%v): %s", runErr, s[max2(0, len(s)-600):])
}

// TestReactorNet: RN_PLAN = "cfg:kind:count,..." — runs count seeded scenarios of each (cfg, kind) in child processes,
// RN_PAR at a time, and reports the C04 / C01 verdicts; the traces go to RN_DIR for validation by TLC.
func TestReactorNet(t *testing.T) {
	res := mbt.NewResult()
	defer res.Write()
	dir := os.Getenv("RN_DIR")
	if dir == "" {
		dir = filepath.Join(scratch(), "reactornet")
	}
	os.MkdirAll(dir, 0o755)
	plan := os.Getenv("RN_PLAN")
	if plan == "" {
		plan = "4eq:partition-heal:1,4eq:node-restart:1"
	}
	var scs []Scenario
	for _, item := range strings.Split(plan, ",") {
		f := strings.Split(strings.TrimSpace(item), ":")
		if len(f) != 3 {
			res.Mismatch("infra:plan", "bad RN_PLAN item "+item, nil)
			return
		}
		cnt, _ := strconv.Atoi(f[2])
		for k := 0; k < cnt; k++ {
			seed := mbt.Seed()*1000 + int64(k)
			scs = append(scs, Scenario{Cfg: f[0], Kind: f[1], Seed: seed, K: mbt.EnvInt("RN_K", 3), MaxBoundS: mbt.EnvInt("RN_MAXBOUND", 150),
				Dir: filepath.Join(dir, fmt.Sprintf("%s-%s-%d", f[0], f[1], seed))})
		}
	}
	par := mbt.EnvInt("RN_PAR", 6)
	deadline := time.Now().Add(time.Duration(mbt.EnvInt("RN_BUDGET", 330)) * time.Second)
	type item struct {
		sc    Scenario
		out   Outcome
		crash string
		rig   bool
		err   error
	}
	items := make([]item, len(scs))
	ch := make(chan int)
	var wg sync.WaitGroup
	for w := 0; w < par; w++ {
		wg.Add(1)
		go func() {
			defer wg.Done()
			for k := range ch {
				it := item{sc: scs[k]}
				for attempt := 0; attempt < 2; attempt++ {
					it.out, it.crash, it.rig, it.err = runChild(scs[k], deadline)
					// one retry for failures of the rig itself (handshake timeouts of the test connector on a loaded machine)
					if !(it.rig || (it.err != nil && it.err != errBudget)) {
						break
					}
				}
				items[k] = it
			}
		}()
	}
	for k := range scs {
		ch <- k
	}
	close(ch)
	wg.Wait()
	var files []J
	var summary []J
	for _, it := range items {
		sc, o := it.sc, it.out
		where := sc.Cfg + ":" + sc.Kind
		detail := J{"scenario": sc, "outcome": o}
		switch {
		case it.err == errBudget:
			res.Mismatch("infra:reactornet:budget", fmt.Sprintf("scenario %s seed %d: %v", where, sc.Seed, it.err), nil)
			continue
		case it.err != nil:
			res.Mismatch("infra:reactornet:child", fmt.Sprintf("scenario %s seed %d: %v", where, sc.Seed, it.err), detail)
			continue
		case it.crash != "" && it.rig:
			res.Mismatch("infra:reactornet:connector", fmt.Sprintf("scenario %s seed %d: the test connector of lib/p2p panicked: %s", where, sc.Seed, it.crash[:min2(len(it.crash), 600)]), detail)
			continue
		case it.crash != "":
			res.Mismatch("reactornet:panic:"+where, fmt.Sprintf("scenario %s seed %d: the process running the real network died: %s", where, sc.Seed, it.crash), detail)
			continue
		case o.Infra != "":
			res.Mismatch("infra:reactornet:"+sc.Kind, fmt.Sprintf("scenario %s seed %d: %s", where, sc.Seed, o.Infra), detail)
			continue
		}
		res.Count(o.Stats.Events)
		res.Behaviour()
		if o.Restarts > 0 || o.Stats.MaxRound > 1 || o.HealMinHeight < o.HealMaxHeight {
			res.Distinct(fmt.Sprintf("%s/%d", where, sc.Seed))
		}
		if o.StartHangs != "" {
			res.Mismatch("reactornet:liveness:restart:start-does-not-return", fmt.Sprintf("scenario %s seed %d: %s", where, sc.Seed, o.StartHangs), detail)
		}
		if o.Panic != "" {
			res.Mismatch("reactornet:panic:"+where, fmt.Sprintf("scenario %s seed %d: %s", where, sc.Seed, o.Panic), detail)
		}
		if o.Liveness != "" {
			sig := "reactornet:liveness:" + where
			if o.FaultFree {
				sig = "reactornet:liveness:" + sc.Cfg + ":fault-free"
			}
			res.Mismatch(sig, fmt.Sprintf("scenario %s seed %d: %s", where, sc.Seed, o.Liveness), detail)
		}
		if o.Agreement != "" {
			res.Mismatch("reactornet:agreement:"+where, fmt.Sprintf("scenario %s seed %d: %s", where, sc.Seed, o.Agreement), detail)
		}
		if o.TraceErr != "" {
			// the WAL and the gate records of a node do not line up: the recording cannot be trusted, no verdict from it
			if o.Panic == "" {
				res.Mismatch("infra:reactornet:trace", fmt.Sprintf("scenario %s seed %d: %s", where, sc.Seed, o.TraceErr), detail)
			}
		} else if o.Trace != "" {
			files = append(files, J{"path": o.Trace, "cfg": sc.Cfg, "kind": sc.Kind, "seed": sc.Seed, "events": o.Stats.Events})
		}
		summary = append(summary, J{"scenario": where, "seed": sc.Seed, "calib_s_per_height": o.CalibPerH, "heal_heights": []uint64{o.HealMinHeight, o.HealMaxHeight},
			"target": o.Target, "suffix_s": o.SuffixS, "bound_s": o.BoundS, "live": o.Live, "events": o.Stats.Events, "restarts": o.Restarts, "max_round": o.Stats.MaxRound})
		res.Sample(J{"scenario": where, "seed": sc.Seed, "log": o.Log, "final_heights": o.FinalHeights, "stats": o.Stats})
	}
	res.Set("trace_files", files)
	res.Set("scenarios", summary)
}
