//go:build verif

// Package blocksync binds specs/blocksync (BlockSync.tla: the block-sync processor; BlockSyncReactor.tla:
// scheduler + processor + the routines' priority queues) to the real code of /repo/blockchain.
//
// chain_test.go builds the concrete universe the abstract blocks of the specification stand for:
//   - the COMMITTED CHAIN G(1..maxH) is produced by a network of real consensus nodes (harness/node BuildNode,
//     driven synchronously), so every genuine block carries a genuine LastCommit; at every height the first
//     round fails (its proposal is withheld), which leaves genuine NIL precommits of every validator behind;
//   - the LYING blocks are built by the driver the way a Byzantine validator / peer would build them, holding the
//     keys the kind needs (see BlockSync.tla for the kinds);
//   - every block is taken through the wire codec of the reactor (EncodeMsg -> DecodeMsg -> ValidateMsg ->
//     BlockFromProto) and handed to the processor as a freshly decoded object, as reactor.Receive does.
package blocksync

import (
	"fmt"
	"math/big"
	"sort"
	"strconv"
	"strings"
	"sync"
	"time"

	bcr "github.com/kardiachain/go-kardia/blockchain"
	"github.com/kardiachain/go-kardia/consensus"
	"github.com/kardiachain/go-kardia/kai/state/cstate"
	"github.com/kardiachain/go-kardia/lib/common"
	"github.com/kardiachain/go-kardia/lib/crypto"
	"github.com/kardiachain/go-kardia/lib/p2p"
	"github.com/kardiachain/go-kardia/lib/rlp"
	mbc "github.com/kardiachain/go-kardia/mainchain/blockchain"
	stypes "github.com/kardiachain/go-kardia/mainchain/staking/types"
	bcproto "github.com/kardiachain/go-kardia/proto/kardiachain/blockchain"
	kproto "github.com/kardiachain/go-kardia/proto/kardiachain/types"
	"github.com/kardiachain/go-kardia/trie"
	"github.com/kardiachain/go-kardia/types"

	"verifharness/node"
)

var dbgSim = false

func hasher() types.TrieHasher { return trie.NewStackTrie(nil) }

// ---- a minimal synchronous network of real nodes (all honest), first round of every height withheld ----

type simNode struct {
	*node.Node
	tick node.Ticker
}
type flight struct {
	to, from int
	msg      consensus.Message
}
type sim struct {
	w      *node.World
	nodes  map[int]*simNode
	order  []int
	q      []flight
	steps  int
	nilPre map[uint64]map[int]*types.Vote // height -> validator index (1-based) -> its nil precommit of round 1
	states map[uint64]cstate.LatestBlockState
}

func (s *sim) after(nd *simNode) {
	for _, m := range nd.CS.VerifDrainInternal() {
		if vm, ok := m.(*consensus.VoteMessage); ok {
			v := vm.Vote
			if v.Type == kproto.PrecommitType && v.Round == 1 && v.BlockID.IsZero() {
				if s.nilPre[v.Height] == nil {
					s.nilPre[v.Height] = map[int]*types.Vote{}
				}
				s.nilPre[v.Height][int(v.ValidatorIndex)+1] = v.Copy()
			}
		}
		for _, to := range s.order {
			s.q = append(s.q, flight{to: to, from: nd.ID, msg: m})
		}
	}
	for _, ti := range nd.TakeSched() {
		nd.tick.Schedule(ti)
	}
	s.steps++
	// reference states of the committed chain (node order[0])
	if nd.ID == s.order[0] {
		st := nd.CS.VerifState()
		if _, ok := s.states[st.LastBlockHeight]; !ok {
			s.states[st.LastBlockHeight] = st
		}
	}
}

// withheld: the proposal and the block parts of round 1 never arrive (a silent proposer)
func withheld(m consensus.Message) bool {
	switch mm := m.(type) {
	case *consensus.ProposalMessage:
		return mm.Proposal.Round == 1
	case *consensus.BlockPartMessage:
		return mm.Round == 1
	}
	return false
}

func (s *sim) run(until uint64, maxSteps int) error {
	for _, i := range s.order {
		nd := s.nodes[i]
		nd.CS.VerifScheduleRound0()
		for _, ti := range nd.TakeSched() {
			nd.tick.Schedule(ti)
		}
	}
	minH := func() uint64 {
		m := uint64(1 << 62)
		for _, nd := range s.nodes {
			if h := nd.CS.GetRoundState().Height; h < m {
				m = h
			}
		}
		return m
	}
	for s.steps < maxSteps {
		if dbgSim && s.steps%500 == 0 {
			for _, i := range s.order {
				rs := s.nodes[i].CS.GetRoundState()
				fmt.Printf("step %d node %d h=%d r=%d step=%v armed=%v ti=%+v q=%d\n", s.steps, i, rs.Height, rs.Round, rs.Step, s.nodes[i].tick.Armed, s.nodes[i].tick.TI, len(s.q))
			}
		}
		if minH() > until {
			return nil
		}
		if len(s.q) > 0 {
			f := s.q[0]
			s.q = s.q[1:]
			if withheld(f.msg) {
				continue
			}
			nd := s.nodes[f.to]
			peer := p2p.ID("")
			if f.from != f.to {
				peer = p2p.ID(fmt.Sprintf("n%d", f.from))
			}
			nd.CS.VerifHandleMsg(f.msg, peer)
			s.after(nd)
			continue
		}
		// nothing deliverable: every node whose armed timeout is the earliest (height, round, step) fires before any
		// of the resulting messages is delivered (there is no gossip here: a proposal sent while the others are
		// still in the previous round would be lost)
		best := -1
		for _, i := range s.order {
			nd := s.nodes[i]
			if !nd.tick.Armed {
				continue
			}
			if best < 0 {
				best = i
				continue
			}
			a, b := nd.tick.TI, s.nodes[best].tick.TI
			if consensus.CompareHRS(a.Height, a.Round, a.Step, b.Height, b.Round, b.Step) < 0 {
				best = i
			}
		}
		if best < 0 {
			return fmt.Errorf("network stalled at height %d after %d steps", minH(), s.steps)
		}
		ref := s.nodes[best].tick.TI
		for _, i := range s.order {
			nd := s.nodes[i]
			if !nd.tick.Armed {
				continue
			}
			ti := nd.tick.TI
			if consensus.CompareHRS(ti.Height, ti.Round, ti.Step, ref.Height, ref.Round, ref.Step) != 0 {
				continue
			}
			nd.tick.Armed = false
			nd.CS.VerifHandleTimeout(ti)
			s.after(nd)
		}
	}
	return fmt.Errorf("network did not pass height %d within %d steps", until, maxSteps)
}

// ---- the application's validator updates (validator-set change inside the synced range) ----

// changeOps interposes on BlockOperations.CommitAndValidateBlockTxs of EVERY node (the nodes that build the chain and
// the syncing node alike: it stands for a deterministic application): in the block at height `at` the application
// reports the validator list `vals` (world index -> power), which the block executor turns into validator updates;
// they take effect two heights later (cstate.updateState).
type changeOps struct {
	*mbc.BlockOperations
	at   uint64
	vals []*types.Validator
}

func (o *changeOps) CommitAndValidateBlockTxs(b *types.Block, lci stypes.LastCommitInfo, byz []stypes.Evidence) ([]*types.Validator, common.Hash, error) {
	vals, app, err := o.BlockOperations.CommitAndValidateBlockTxs(b, lci, byz)
	if err == nil && b.Height() == o.at {
		vals = nil
		for _, v := range o.vals {
			vals = append(vals, v.Copy())
		}
	}
	return vals, app, err
}

// parseChange: "1:1=1,2=3" = in block 1 the application reports the set {validator 1 with power 1, validator 2 with power 3}
func parseChange(w *node.World, s string) (uint64, []*types.Validator) {
	if s == "" {
		return 0, nil
	}
	p := strings.SplitN(s, ":", 2)
	at, err := strconv.Atoi(p[0])
	if err != nil {
		panic(err)
	}
	var vals []*types.Validator
	for _, kv := range strings.Split(p[1], ",") {
		q := strings.SplitN(kv, "=", 2)
		i, _ := strconv.Atoi(q[0])
		pw, _ := strconv.Atoi(q[1])
		vals = append(vals, types.NewValidator(w.Privs[i-1].GetAddress(), int64(pw)))
	}
	return uint64(at), vals
}

// opts returns the BuildNode options of this universe's nodes.
func (u *universe) opts() node.Opts {
	o := node.Opts{Fresh: true}
	if u.changeAt > 0 {
		o.WrapBO = func(bo *mbc.BlockOperations) node.BlockOps {
			return &changeOps{BlockOperations: bo, at: u.changeAt, vals: u.changeVals}
		}
	}
	return o
}

// ---- the universe ----

type universe struct {
	w      *node.World
	powers []int64
	maxH   int
	byz    int              // 1-based index of the Byzantine validator (the driver holds its key legitimately)
	sets   map[string][]int // signer sets of the thinned-out commits: min, exa, bel
	chain  map[int]*types.Block
	states map[uint64]cstate.LatestBlockState // states[k]: state of the committed chain after k blocks
	nilPre map[uint64]map[int]*types.Vote
	other  []*types.DefaultPrivValidator // a different key set of the same size ("wrong set")

	changeAt   uint64             // the application changes the validator set in this block (0: never)
	changeVals []*types.Validator // to this list

	codecRejects map[string]bool // kinds the reactor's codec refuses (handed to the processor nevertheless)

	mu    sync.Mutex
	built map[string]*types.Block // name -> block as constructed
	wire  map[string][]byte       // name -> encoded BlockResponse
	ids   map[string]types.BlockID
	names map[string]string // BlockID.Key() -> name
}

func splitList(s string) []string {
	var out []string
	for _, f := range strings.Split(s, ",") {
		if f = strings.TrimSpace(f); f != "" {
			out = append(out, f)
		}
	}
	return out
}

func parseInts(s string) []int {
	var out []int
	for _, f := range strings.Split(s, ",") {
		if f = strings.TrimSpace(f); f != "" {
			v, err := strconv.Atoi(f)
			if err != nil {
				panic(err)
			}
			out = append(out, v)
		}
	}
	return out
}

// newUniverse runs the real network to height maxH and prepares the block constructors.
// sets: "min=1,2,3;exa=1,2;bel=1,4;byz=4"
func newUniverse(powers []int64, maxH int, sets string, change string) (*universe, error) {
	u := &universe{w: node.NewWorld(powers), powers: powers, maxH: maxH, sets: map[string][]int{}, chain: map[int]*types.Block{},
		built: map[string]*types.Block{}, wire: map[string][]byte{}, ids: map[string]types.BlockID{}, names: map[string]string{},
		codecRejects: map[string]bool{}}
	for _, kv := range strings.Split(sets, ";") {
		p := strings.SplitN(kv, "=", 2)
		if len(p) != 2 {
			continue
		}
		if p[0] == "byz" {
			u.byz = parseInts(p[1])[0]
		} else {
			u.sets[p[0]] = parseInts(p[1])
		}
	}
	if u.byz == 0 {
		u.byz = len(powers)
	}
	u.changeAt, u.changeVals = parseChange(u.w, change)
	s := &sim{w: u.w, nodes: map[int]*simNode{}, nilPre: map[uint64]map[int]*types.Vote{}, states: map[uint64]cstate.LatestBlockState{}}
	for i := 1; i <= len(powers); i++ {
		nd, err := node.BuildNode(u.w, i, u.opts())
		if err != nil {
			return nil, err
		}
		s.nodes[i] = &simNode{Node: nd}
		s.order = append(s.order, i)
	}
	defer func() {
		for _, nd := range s.nodes {
			nd.Close()
		}
	}()
	s.states[0] = s.nodes[1].CS.VerifState()
	if err := s.run(uint64(maxH), 20000); err != nil {
		return nil, err
	}
	ref := s.nodes[1]
	for h := 1; h <= maxH; h++ {
		b := ref.BO.LoadBlock(uint64(h))
		if b == nil {
			return nil, fmt.Errorf("reference node has no block %d", h)
		}
		// agreement of the real stores (sanity of the construction)
		for _, i := range s.order {
			if o := s.nodes[i].BO.LoadBlock(uint64(h)); o == nil || o.Hash() != b.Hash() {
				return nil, fmt.Errorf("real nodes disagree at height %d", h)
			}
		}
		u.chain[h] = b
	}
	u.states = s.states
	u.nilPre = s.nilPre
	for i := range powers {
		k, _ := crypto.ToECDSA(crypto.Keccak256([]byte(fmt.Sprintf("verif-blocksync-otherset-%d", i))))
		u.other = append(u.other, types.NewDefaultPrivValidator(k))
	}
	return u, nil
}

func blockID(b *types.Block) types.BlockID {
	return types.BlockID{Hash: b.Hash(), PartsHeader: b.MakePartSet(types.BlockPartSizeBytes).Header()}
}

// valsAt returns the validator set in force at height h of the committed chain (the Validators of the state after
// h-1 blocks) and, per member, the world index (1-based) of its key.
func (u *universe) valsAt(h uint64) (*types.ValidatorSet, []int) {
	vs := u.states[h-1].Validators
	idx := make([]int, vs.Size())
	for k, v := range vs.Validators {
		for i, pv := range u.w.Privs {
			if pv.GetAddress().Equal(v.Address) {
				idx[k] = i + 1
			}
		}
		if idx[k] == 0 {
			panic("validator without a key in the world")
		}
	}
	return vs, idx
}

// commit builds a commit for (h, round, bid) laid out for the validator set `layout` (world index of each member, in
// the set's order): sig(i), i the member's world index, in "A" absent, "B" precommit for bid, "N" precommit for nil,
// "X" precommit for bid signed by the key of another validator set.  Genuine signatures of `base` (a genuine commit
// for the same height/round/bid and the same layout) and the harvested genuine nil precommits are reused where they
// exist; what is missing is signed with the validator's key (the driver plays whoever holds it).
func (u *universe) commit(h uint64, round uint32, bid types.BlockID, layout []int, sig func(i int) string, base *types.Commit) *types.Commit {
	sigs := make([]types.CommitSig, len(layout))
	ts := time.Unix(1700000100+int64(h), 0).UTC()
	sign := func(pv types.PrivValidator, pos int, id types.BlockID) types.CommitSig {
		v := &types.Vote{ValidatorAddress: pv.GetAddress(), ValidatorIndex: uint32(pos), Height: h, Round: round, Timestamp: ts,
			Type: kproto.PrecommitType, BlockID: id}
		p := v.ToProto()
		if err := pv.SignVote(node.ChainID, p); err != nil {
			panic(err)
		}
		v.Signature = p.Signature
		return v.CommitSig()
	}
	for pos, i := range layout {
		switch sig(i) {
		case "A":
			sigs[pos] = types.NewCommitSigAbsent()
		case "B":
			if base != nil && base.Height == h && base.Round == round && base.BlockID.Equal(bid) && len(base.Signatures) == len(layout) &&
				base.Signatures[pos].ForBlock() && base.Signatures[pos].ValidatorAddress.Equal(u.w.Privs[i-1].GetAddress()) {
				sigs[pos] = base.Signatures[pos]
			} else {
				sigs[pos] = sign(u.w.Privs[i-1], pos, bid)
			}
		case "N":
			if v := u.nilPre[h][i]; v != nil && v.Round == round && int(v.ValidatorIndex) == pos {
				sigs[pos] = v.CommitSig()
			} else {
				sigs[pos] = sign(u.w.Privs[i-1], pos, types.BlockID{})
			}
		case "X":
			sigs[pos] = sign(u.other[i-1], pos, bid)
		}
	}
	return types.NewCommit(h, round, bid, sigs)
}

func inSet(set []int, i int) bool {
	for _, x := range set {
		if x == i {
			return true
		}
	}
	return false
}

// construct builds the block named kind+h (see BlockSync.tla, Block(k, h)).
func (u *universe) construct(kind string, h int) *types.Block {
	g := u.chain[h]
	if kind == "G" {
		return g
	}
	hd := g.Header()
	lc := g.LastCommit()
	txs := []*types.Transaction(g.Transactions())
	all := func(c string) func(int) string { return func(int) string { return c } }
	thin := func(set string) *types.Commit {
		_, layout := u.valsAt(lc.Height)
		return u.commit(lc.Height, lc.Round, lc.BlockID, layout, func(i int) string {
			if inSet(u.sets[set], i) {
				return "B"
			}
			return "A"
		}, lc)
	}
	switch kind {
	case "F": // sibling: another proposer (a validator of that height), same parent, same (genuine) LastCommit
		vs, _ := u.valsAt(uint64(h))
		alt := u.w.Privs[u.byz-1].GetAddress()
		if alt.Equal(hd.ProposerAddress) || !vs.HasAddress(alt) {
			alt = hd.ProposerAddress
			for _, v := range vs.Validators {
				if !v.Address.Equal(hd.ProposerAddress) {
					alt = v.Address
					break
				}
			}
		}
		if alt.Equal(hd.ProposerAddress) {
			hd.GasLimit++ // a single validator: the sibling differs in a field block validation leaves open
		}
		hd.ProposerAddress = alt
		return types.NewBlock(hd, txs, lc, nil, hasher())
	case "min", "exa", "bel":
		hd.LastCommitHash = common.Hash{}
		return types.NewBlock(hd, txs, thin(kind), nil, hasher())
	case "sam": // same header (same header hash); the commit's round is altered: Commit.Hash covers the signatures only
		return types.NewBlock(hd, txs, types.NewCommit(lc.Height, lc.Round+1, lc.BlockID, lc.Signatures), nil, hasher())
	case "wht": // LastCommit with the wrong height (again not covered by LastCommitHash)
		return types.NewBlock(hd, txs, types.NewCommit(lc.Height+1, lc.Round, lc.BlockID, lc.Signatures), nil, hasher())
	case "bod": // the genuine header and LastCommit over a tampered body (one more transaction)
		tx := types.NewTransaction(uint64(h), u.w.Privs[0].GetAddress(), big.NewInt(1), 29000, big.NewInt(1), nil)
		return g.WithBody(&types.Body{Transactions: append(append([]*types.Transaction{}, txs...), tx), LastCommit: lc})
	case "bad": // invalid child of G(h-1): wrong app hash
		hd.AppHash = common.BytesToHash([]byte{0xee, byte(h)})
		return types.NewBlock(hd, txs, lc, nil, hasher())
	case "nil", "wst", "ffF", "fbd", "old": // children of a block nobody committed, with a commit "for" it
		pk := "F"
		if kind == "fbd" {
			pk = "bad"
		}
		pid := u.id(pk, h-1)
		hd.LastBlockID = pid
		hd.LastCommitHash = common.Hash{}
		var c *types.Commit
		_, layout := u.valsAt(uint64(h - 1))
		switch kind {
		case "nil": // the Byzantine validator's precommit plus the correct validators' genuine nil precommits of round 1
			c = u.commit(uint64(h-1), 1, pid, layout, func(i int) string {
				if i == u.byz {
					return "B"
				}
				return "N"
			}, nil)
		case "wst":
			c = u.commit(uint64(h-1), 1, pid, layout, all("X"), nil)
		case "old": // signed by members of the FIRST validator set (who have left since), laid out for that set
			_, first := u.valsAt(1)
			c = u.commit(uint64(h-1), 1, pid, first, func(i int) string {
				if inSet(u.sets["old"], i) {
					return "B"
				}
				return "A"
			}, nil)
		default:
			c = u.commit(uint64(h-1), 1, pid, layout, all("B"), nil)
		}
		return types.NewBlock(hd, txs, c, nil, hasher())
	}
	panic("unknown block kind " + kind)
}

func (u *universe) ensure(kind string, h int) string {
	name := kind + strconv.Itoa(h)
	u.mu.Lock()
	_, ok := u.wire[name]
	u.mu.Unlock()
	if ok {
		return name
	}
	b := u.construct(kind, h)
	if kind == "bod" { // WithBody leaves the evidence unset: serialise through the genuine block's form
		g, err := u.chain[h].ToProto()
		if err != nil {
			panic(err)
		}
		for _, tx := range b.Transactions() {
			bz, err := rlp.EncodeToBytes(tx)
			if err != nil {
				panic(err)
			}
			g.Data.Txs = append(g.Data.Txs, bz)
		}
		bz, err := bcr.EncodeMsg(&bcproto.BlockResponse{Block: g})
		if err != nil {
			panic(err)
		}
		u.mu.Lock()
		u.wire[name] = bz
		u.mu.Unlock()
		d, err := u.decode(name)
		if err != nil {
			panic(err)
		}
		id := blockID(d)
		u.mu.Lock()
		u.built[name] = d
		u.ids[name] = id
		u.names[id.Key()] = name
		u.mu.Unlock()
		return name
	}
	pb, err := b.ToProto()
	if err != nil {
		panic(err)
	}
	bz, err := bcr.EncodeMsg(&bcproto.BlockResponse{Block: pb})
	if err != nil {
		panic(err)
	}
	u.mu.Lock()
	u.built[name] = b
	u.wire[name] = bz
	u.mu.Unlock()
	d, err := u.decode(name)
	if err != nil {
		panic(fmt.Sprintf("block %s does not pass the reactor's codec: %v", name, err))
	}
	id := blockID(d)
	u.mu.Lock()
	if other, dup := u.names[id.Key()]; dup && other != name {
		u.mu.Unlock()
		panic(fmt.Sprintf("blocks %s and %s have the same block id", other, name))
	}
	u.ids[name] = id
	u.names[id.Key()] = name
	u.mu.Unlock()
	return name
}

func (u *universe) id(kind string, h int) types.BlockID {
	name := u.ensure(kind, h)
	u.mu.Lock()
	defer u.mu.Unlock()
	return u.ids[name]
}

// decode takes the block through reactor.Receive's path: DecodeMsg, ValidateMsg, BlockFromProto.  A block of kind
// `bod` is refused there (recorded in codecRejects) and decoded without the validation.
func (u *universe) decode(name string) (*types.Block, error) {
	u.mu.Lock()
	bz := u.wire[name]
	u.mu.Unlock()
	msg, err := bcr.DecodeMsg(bz)
	if err != nil {
		return nil, err
	}
	if err := bcr.ValidateMsg(msg); err != nil {
		if strings.HasPrefix(name, "bod") {
			u.mu.Lock()
			u.codecRejects["bod"] = true
			u.mu.Unlock()
			return types.BlockFromProtoUnsafe(msg.(*bcproto.BlockResponse).Block)
		}
		return nil, err
	}
	return types.BlockFromProto(msg.(*bcproto.BlockResponse).Block, hasher())
}

// nameOf maps a real block back to its abstract name ("?": not a block of the universe).
func (u *universe) nameOf(b *types.Block) string {
	if b == nil {
		return "none"
	}
	id := blockID(b)
	u.mu.Lock()
	defer u.mu.Unlock()
	if n, ok := u.names[id.Key()]; ok {
		return n
	}
	return "?" + b.Hash().Hex()[2:10]
}

func (u *universe) nameOfID(id types.BlockID) string {
	if id.IsZero() {
		return "gen0"
	}
	u.mu.Lock()
	defer u.mu.Unlock()
	if n, ok := u.names[id.Key()]; ok {
		return n
	}
	return "?" + id.Hash.Hex()[2:10]
}

// prepare constructs every block of the given kinds (so that names are known before replay starts).
func (u *universe) prepare(kinds []string) {
	atOne := map[string]bool{"G": true, "F": true, "sam": true, "bad": true, "bod": true}
	sort.Strings(kinds)
	for _, k := range kinds {
		for h := 1; h <= u.maxH; h++ {
			if h == 1 && !atOne[k] {
				continue
			}
			if k == "old" && uint64(h) <= u.changeAt+2 { // old(h) exists only where the set of h-1 is the new one
				continue
			}
			u.ensure(k, h)
		}
	}
}
