//go:build verif

package blocksync

import (
	"encoding/json"
	"fmt"
	"os"
	"regexp"
	"strings"
	"testing"
	"time"

	bcr "github.com/kardiachain/go-kardia/blockchain"
	"github.com/kardiachain/go-kardia/configs"
	"github.com/kardiachain/go-kardia/lib/p2p"
	"github.com/kardiachain/go-kardia/types"

	"verifharness/internal/mbt"
)

// One logical tick of BlockSyncReactor.tla is one hour for the real scheduler (VerifScheduler.Warp moves every
// stored instant back, no sleeping); "elapsed > T ticks" becomes "elapsed > T hours + 30 min".
const tickDur = time.Hour

func ticks(n int) time.Duration { return time.Duration(n)*tickDur + tickDur/2 }

// evDesc: an event in the shape of the specification's EvDesc: <<t, p, q, h, n, b.k, b.h, ps>>
type evDesc struct {
	T, P, Q string
	H, N    int
	B       string // block name ("none")
	Ps      string // peers, comma separated
}

func (e evDesc) String() string {
	return fmt.Sprintf("%s(p=%s q=%s h=%d n=%d b=%s ps=[%s])", e.T, e.P, e.Q, e.H, e.N, e.B, e.Ps)
}

func specDesc(a []interface{}) evDesc {
	ps := []string{}
	for _, x := range a[7].([]interface{}) {
		ps = append(ps, x.(string))
	}
	return evDesc{T: a[0].(string), P: a[1].(string), Q: a[2].(string), H: int(a[3].(float64)), N: int(a[4].(float64)),
		B: nm(a[5], a[6]), Ps: strings.Join(ps, ",")}
}

var rePanicProcessed = regexp.MustCompile(`processed height \d+, but expected height \d+`)

// realDesc: the real event, reduced to the fields that are meaningful for its type.
func realDesc(u *universe, ev bcr.Event) evDesc {
	d := bcr.VerifBSDescribe(ev)
	e := evDesc{T: d.Kind, P: "-", Q: "-", B: "none"}
	switch d.Kind {
	case "noOpEvent":
		e.T = "noOp"
	case "bcStatusResponse":
		e.P, e.H, e.N = string(d.Peer), int(d.Height), int(d.Base)
	case "bcBlockResponse", "scBlockReceived":
		e.P, e.H, e.B = string(d.Peer), int(d.Height), u.nameOf(d.Block)
	case "bcNoBlockResponse", "scBlockRequest", "pcBlockProcessed":
		e.P, e.H = string(d.Peer), int(d.Height)
	case "bcAddNewPeer", "bcRemovePeer", "scPeerError":
		e.P = string(d.Peer)
	case "pcBlockVerificationFailure":
		e.P, e.Q, e.H = string(d.Peer), string(d.Peer2), int(d.Height)
	case "pcFinished":
		e.H, e.N = int(d.Height), d.Synced
	case "scPeersPruned":
		ps := []string{}
		for _, p := range d.Peers {
			ps = append(ps, string(p))
		}
		e.Ps = strings.Join(ps, ",")
	}
	return e
}

// reactor: the real scheduler and processor behind real Routine queues, wired as newReactor / demux wire them.
type reactor struct {
	u        *universe
	sn       *syncNode
	sched    *bcr.VerifScheduler
	scR      *bcr.VerifRoutine
	pcR      *bcr.VerifRoutine
	phase    string         // "sync" | "scstopped" | "done"
	perrs    map[string]int // scPeerError events queued for the processor and not yet handled, per peer
	perrSent map[string]int // scPeerError events ever sent to the processor, per peer
	silent   map[string]bool
	reqs     [][2]interface{}
}

func newReactor(u *universe, targetPending, peerTimeout, syncTimeout int) *reactor {
	r := &reactor{u: u, phase: "sync", perrs: map[string]int{}, perrSent: map[string]int{}}
	r.sn = newSyncNode(u, u.states[0])
	cfg := &configs.FastSyncConfig{ServiceName: "verif", Enable: true, MaxPeers: 10, TargetPending: targetPending,
		SyncTimeout: ticks(syncTimeout), PeerTimeout: ticks(peerTimeout), MinRecvRate: 0}
	r.sched = bcr.NewVerifScheduler(u.states[0].Copy(), time.Now(), cfg)
	r.scR = bcr.NewVerifRoutine("scheduler", r.sched.Handle)
	r.pcR = bcr.NewVerifRoutine("processor", r.sn.proc.Handle)
	return r
}

// step runs one iteration of a routine: the next event in the real queue's order, then the real handler under recover.
func step(rt *bcr.VerifRoutine) (in, out bcr.Event, panicked interface{}, ok bool) {
	in, ok = rt.Next()
	if !ok {
		return
	}
	defer func() {
		if p := recover(); p != nil {
			panicked = p
		}
	}()
	out, _ = rt.Handle(in)
	return
}

// routeSched is the "Incremental events from scheduler" arm of reactor.demux.
func (r *reactor) routeSched(out bcr.Event) {
	d := bcr.VerifBSDescribe(out)
	switch d.Kind {
	case "scBlockReceived":
		r.pcR.Send(out)
	case "scPeerError":
		r.pcR.Send(out)
		r.perrs[string(d.Peer)]++
		r.perrSent[string(d.Peer)]++
	case "scBlockRequest":
		r.reqs = append(r.reqs, [2]interface{}{string(d.Peer), int(d.Height)})
	case "scFinishedEv":
		r.pcR.Send(out)
		r.scR.Stop()
		r.phase = "scstopped"
	case "scPeersPruned":
		for _, p := range d.Peers {
			r.pcR.Send(bcr.VerifScPeerError(p))
			r.perrs[string(p)]++
			r.perrSent[string(p)]++
		}
	}
}

// routeProc is the "Incremental events from processor" arm of reactor.demux.
func (r *reactor) routeProc(out bcr.Event) {
	switch bcr.VerifBSDescribe(out).Kind {
	case "pcBlockProcessed", "pcBlockVerificationFailure":
		r.scR.Send(out) // refused once the scheduler is stopped
	case "pcFinished":
		r.phase = "done"
		r.scR.Stop()
		r.pcR.Stop()
	}
}

type rObs struct {
	Pc struct {
		Ht   int             `json:"ht"`
		Q    [][]interface{} `json:"q"`
		Dr   bool            `json:"dr"`
		Sy   int             `json:"sy"`
		Dead string          `json:"dead"`
	} `json:"pc"`
	Sc struct {
		Ht    int                      `json:"ht"`
		Peers map[string][]interface{} `json:"peers"`
		Bst   []string                 `json:"bst"`
		Pend  []string                 `json:"pend"`
		Rcvd  []string                 `json:"rcvd"`
		Dead  string                   `json:"dead"`
	} `json:"sc"`
	Nsc   int    `json:"nsc"`
	Npc   int    `json:"npc"`
	Phase string `json:"phase"`
}
type rLine struct {
	H [][]interface{} `json:"h"`
	O rObs            `json:"o"`
}

// TestReactorReplay replays every transition of MC_BlockSyncReactor into the real scheduler + processor + Routine
// queues.  Compared at every routine step: WHICH event the real priority queue hands out and the event the real
// handler returns (or its panic); after the last step: the projections of both machines and the queue lengths.
// Property level (C18): a panic of either routine on a behaviour made of peer input, disconnects, ticker events
// and routine scheduling is reported under the signature of its cause; (C01) the store holds committed blocks only.
func TestReactorReplay(t *testing.T) {
	res := mbt.NewResult()
	defer res.Write()
	defer func() { // a driver that dies must not look like a clean run
		if r := recover(); r != nil {
			res.Mismatch("infra:driver-panic", fmt.Sprint(r), nil)
		}
	}()
	dump := os.Getenv("BS_DUMP")
	var powers []int64
	for _, p := range parseInts(os.Getenv("BS_POWER")) {
		powers = append(powers, int64(p))
	}
	maxH := mbt.EnvInt("BS_MAXH", 3)
	kinds := splitList(os.Getenv("BS_KINDS"))
	tag := os.Getenv("BS_TAG")
	tp, pt, st := mbt.EnvInt("BS_TARGET", 3), mbt.EnvInt("BS_PEERTIMEOUT", 1), mbt.EnvInt("BS_SYNCTIMEOUT", 5)
	start := os.Getenv("BS_START") == "1"
	peerSeq := splitList(os.Getenv("BS_PEERS"))
	if len(peerSeq) == 0 {
		peerSeq = []string{"p1", "p2"}
	}
	u, err := newUniverse(powers, maxH, os.Getenv("BS_SETS"), os.Getenv("BS_CHANGE"))
	if err != nil {
		res.Mismatch("infra:chain", "building the committed chain with real nodes failed: "+err.Error(), nil)
		return
	}
	u.prepare(append([]string{"G"}, kinds...))
	pfx := "blocksync:reactor:"
	sent, err := mbt.EachLine(dump, mbt.EnvInt("BS_WORKERS", 0), mbt.EnvInt("BS_LIMIT", 0), mbt.EnvInt("BS_STRIDE", 1), mbt.Seed(), func(n int, raw []byte) {
		var l rLine
		if err := json.Unmarshal(raw, &l); err != nil {
			res.Mismatch("infra:parse", err.Error(), string(raw))
			return
		}
		r := newReactor(u, tp, pt, st)
		defer r.sn.Close()
		if start {
			// the model starts after every peer's first status report (base 1, height MaxH) has been handled
			for _, p := range peerSeq {
				r.scR.Send(bcr.VerifBcStatusResponse(p2p.ID(p), 1, uint64(maxH), time.Now()))
				if _, out, pan, ok := step(r.scR); !ok || pan != nil || bcr.VerifBSDescribe(out).Kind != "noOpEvent" {
					res.Mismatch("infra:prelude", "the status prelude did not run as expected", nil)
					return
				}
			}
		}
		detail := J{"hist": l.H, "cfg": tag, "power": powers, "targetPending": tp, "peerTimeoutTicks": pt}
		nontrivial := false
		dead := false
		for k, a := range l.H {
			act := a[0].(string)
			now := time.Now()
			switch act {
			case "st":
				r.scR.Send(bcr.VerifBcStatusResponse(p2p.ID(a[1].(string)), uint64(a[2].(float64)), uint64(a[3].(float64)), now))
			case "blk":
				name := nm(a[2], a[3])
				b, err := u.decode(name)
				if err != nil {
					res.Mismatch("infra:decode", err.Error(), name)
					return
				}
				u.mu.Lock()
				size := len(u.wire[name])
				u.mu.Unlock()
				r.scR.Send(bcr.VerifBcBlockResponse(p2p.ID(a[1].(string)), b, uint64(size), now))
			case "nob":
				r.scR.Send(bcr.VerifBcNoBlockResponse(p2p.ID(a[1].(string)), uint64(a[2].(float64)), now))
				nontrivial = true
			case "rm":
				r.scR.Send(bcr.VerifBcRemovePeer(p2p.ID(a[1].(string))))
				nontrivial = true
			case "add":
				r.scR.Send(bcr.VerifBcAddNewPeer(p2p.ID(a[1].(string))))
			case "sch":
				r.scR.Send(bcr.VerifRTrySchedule(now))
			case "prn":
				r.scR.Send(bcr.VerifRTryPrunePeer(now))
				nontrivial = true
			case "ptk":
				r.pcR.Send(bcr.VerifRProcessBlock())
			case "tick":
				r.sched.Warp(tickDur)
			case "S", "P":
				rt, who := r.scR, "scheduler"
				if act == "P" {
					rt, who = r.pcR, "processor"
				}
				wantIn, wantOut := specDesc(a[1:9]), specDesc(a[9:17])
				// what the processor holds for the height of an incoming block (to name the cause of a duplicate)
				var stalePeer string
				if act == "P" && wantIn.T == "scBlockReceived" {
					if it, ok := r.sn.proc.Queue()[uint64(wantIn.H)]; ok {
						stalePeer = string(it.Peer)
					}
				}
				in, out, pan, ok := step(rt)
				if !ok && pan == nil {
					res.Mismatch(pfx+"step:"+who+":empty", fmt.Sprintf("%s: step %d of %v: the real %s queue is empty, specified next event %v", tag, k+1, l.H, who, wantIn), detail)
					return
				}
				gotIn := realDesc(u, in)
				if gotIn != wantIn {
					res.Mismatch(pfx+"order:"+who+":"+wantIn.T+"->"+gotIn.T,
						fmt.Sprintf("%s: step %d of %v: the real %s queue handed out %v, specified %v", tag, k+1, l.H, who, gotIn, wantIn), detail)
					return
				}
				if act == "P" && gotIn.T == "scPeerError" {
					r.perrs[gotIn.P]--
				}
				var gotOut evDesc
				if pan != nil {
					gotOut = evDesc{P: "-", Q: "-", B: "none"}
					if act == "P" {
						pr := panicResult(pan)
						gotOut.T, gotOut.H = pr.Class, pr.H
					} else if rePanicProcessed.MatchString(fmt.Sprint(pan)) {
						gotOut.T = "panic:processed-height"
					} else {
						s := fmt.Sprint(pan)
						gotOut.T = "panic:other(" + s[:min(len(s), 80)] + ")"
					}
				} else {
					gotOut = realDesc(u, out)
				}
				if gotOut != wantOut {
					res.Mismatch(pfx+"result:"+who+":"+wantIn.T+":"+wantOut.T+"->"+gotOut.T,
						fmt.Sprintf("%s: step %d of %v: the real %s returned %v for %v, specified %v", tag, k+1, l.H, who, gotOut, gotIn, wantOut), detail)
					return
				}
				if pan != nil {
					// ---- property level (C18): a routine died
					dead = true
					cause := "other"
					if gotOut.T == "panic:dup" {
						// the two blocks that collided: the queued one (stalePeer) and the incoming one (gotIn.P); one of the
						// two peers has been removed by the scheduler, which is why the height was requested again
						cause = "duplicate-enqueue:other"
						snap := r.sched.Snapshot()
						for _, p := range []string{stalePeer, gotIn.P} {
							if snap.Peers[p2p.ID(p)].State == "Removed" && r.perrSent[p] == 0 {
								cause = "duplicate-enqueue:peer-removed-silently" // nobody told the processor
							}
						}
						for _, p := range []string{stalePeer, gotIn.P} {
							if r.perrs[p] > 0 {
								cause = "duplicate-enqueue:peer-error-overtaken" // the scPeerError is queued behind the block
							}
						}
					} else if gotOut.T == "panic:processed-height" {
						cause = "processed-height:events-reordered"
					} else if gotOut.T == "panic:apply" {
						cause = "apply"
					} else if gotOut.T == "panic:save" {
						cause = "save"
					}
					res.Mismatch("blocksync:panic:"+cause,
						fmt.Sprintf("%s: the real %s routine PANICKED (%s) handling %v after the %d events %v -- an uncaught panic in a routine kills the node; "+
							"the specification (= the code as written) predicts it, the property (C18: block-sync input never crashes the node) forbids it",
							tag, who, strings.SplitN(fmt.Sprint(pan), "\n", 2)[0], gotIn, k, l.H), detail)
					res.Distinct("panic:" + cause + ":" + fmt.Sprint(l.H))
					break
				}
				if act == "S" {
					r.routeSched(out)
				} else {
					r.routeProc(out)
				}
				if gotOut.T != "noOp" && gotOut.T != "scBlockRequest" && gotOut.T != "scBlockReceived" && gotOut.T != "pcBlockProcessed" {
					nontrivial = true
				}
			}
			if dead {
				break
			}
		}
		res.Count(len(l.H))
		res.Behaviour()
		if nontrivial {
			res.Distinct(fmt.Sprint(l.H))
		}
		fail := func(what, text string) {
			res.Mismatch(pfx+"obs:"+what, fmt.Sprintf("%s: after %v: %s", tag, l.H, text), detail)
		}
		// ---- property level (C01): the store holds committed blocks only
		for h := uint64(1); r.sn.nd != nil && h <= r.sn.nd.BO.Height(); h++ {
			b := r.sn.nd.BO.LoadBlock(h)
			c := u.chain[int(h)]
			if b == nil || c == nil || !sameID(blockID(b), blockID(c)) {
				res.Mismatch("blocksync:adopted-uncommitted", fmt.Sprintf("%s: after %v the syncing node's store holds %s at height %d; the real network committed %s",
					tag, l.H, u.nameOf(b), h, u.nameOf(c)), detail)
				return
			}
		}
		if dead || l.O.Pc.Dead != "ok" || l.O.Sc.Dead != "ok" {
			if !dead {
				fail("dead", "the specification says a routine panicked, the real ones did not")
			}
			return
		}
		// ---- lock-step
		if r.phase != l.O.Phase {
			fail("phase", fmt.Sprintf("reactor phase %s, specified %s", r.phase, l.O.Phase))
			return
		}
		pc := r.sn.proc
		if int(pc.Height()) != l.O.Pc.Ht {
			fail("pc.height", fmt.Sprintf("processor height %d, specified %d", pc.Height(), l.O.Pc.Ht))
			return
		}
		q := pc.Queue()
		for i, e := range l.O.Pc.Q {
			h := uint64(i + 1)
			wantN, wantP := nm(e[0], e[1]), e[2].(string)
			gotN, gotP := "none", "none"
			if it, ok := q[h]; ok {
				gotN, gotP = u.nameOf(it.Block), string(it.Peer)
			}
			if gotN != wantN || gotP != wantP {
				fail("pc.queue", fmt.Sprintf("processor queue[%d] = %s from %s, specified %s from %s", h, gotN, gotP, wantN, wantP))
				return
			}
		}
		if pc.Draining() != l.O.Pc.Dr || pc.BlocksSynced() != l.O.Pc.Sy {
			fail("pc.flags", fmt.Sprintf("draining/blocksSynced = %v/%d, specified %v/%d", pc.Draining(), pc.BlocksSynced(), l.O.Pc.Dr, l.O.Pc.Sy))
		}
		if r.phase == "sync" {
			s := r.sched.Snapshot()
			if int(s.Height) != l.O.Sc.Ht {
				fail("sc.height", fmt.Sprintf("scheduler height %d, specified %d", s.Height, l.O.Sc.Ht))
				return
			}
			for p, e := range l.O.Sc.Peers {
				want := fmt.Sprintf("%s/%d/%d", e[0], int(e[1].(float64)), int(e[2].(float64)))
				got := "none/0/0"
				if sp, ok := s.Peers[p2p.ID(p)]; ok {
					got = fmt.Sprintf("%s/%d/%d", sp.State, sp.Base, sp.Height)
				}
				if got != want {
					fail("sc.peers", fmt.Sprintf("scheduler peer %s = %s, specified %s", p, got, want))
					return
				}
			}
			for i := range l.O.Sc.Bst {
				h := uint64(i + 1)
				gotB, gotP, gotR := "Unknown", "none", "none"
				if b, ok := s.Blocks[h]; ok {
					gotB = b
				}
				if p, ok := s.Pending[h]; ok {
					gotP = string(p)
				}
				if p, ok := s.Received[h]; ok {
					gotR = string(p)
				}
				if gotB != l.O.Sc.Bst[i] || gotP != l.O.Sc.Pend[i] || gotR != l.O.Sc.Rcvd[i] {
					fail("sc.blocks", fmt.Sprintf("scheduler height %d: state/pending/received = %s/%s/%s, specified %s/%s/%s", h, gotB, gotP, gotR,
						l.O.Sc.Bst[i], l.O.Sc.Pend[i], l.O.Sc.Rcvd[i]))
					return
				}
			}
			if r.scR.Len() != l.O.Nsc {
				fail("sc.inbox", fmt.Sprintf("scheduler queue length %d, specified %d", r.scR.Len(), l.O.Nsc))
			}
		}
		if r.phase != "done" && r.pcR.Len() != l.O.Npc {
			fail("pc.inbox", fmt.Sprintf("processor queue length %d, specified %d", r.pcR.Len(), l.O.Npc))
		}
		if n%997 == 0 {
			res.Sample(J{"cfg": tag, "hist": l.H})
		}
	})
	if err != nil {
		res.Mismatch("infra:dump", err.Error(), dump)
	}
	if sent == 0 {
		res.Mismatch("infra:empty-dump", "no transitions in "+dump, nil)
	}
	_ = types.BlockPartSizeBytes
}
