//go:build verif

package blocksync

import (
	"encoding/json"
	"fmt"
	"os"
	"regexp"
	"strconv"
	"testing"

	bcr "github.com/kardiachain/go-kardia/blockchain"
	"github.com/kardiachain/go-kardia/kai/state/cstate"
	"github.com/kardiachain/go-kardia/lib/log"
	"github.com/kardiachain/go-kardia/lib/p2p"
	"github.com/kardiachain/go-kardia/types"

	"verifharness/internal/mbt"
	"verifharness/node"
)

type J = map[string]interface{}

// syncNode: one fresh real node (real BlockChain on the staking genesis, cstate store, evidence pool,
// BlockOperations, BlockExecutor) whose block-sync processor is driven by the replay.  The node behind the
// processor context is built on first use (SaveBlock / ApplyBlock): most behaviours never get that far, and the
// processor itself only needs the genesis consensus state until then.
type syncNode struct {
	u     *universe
	nd    *node.Node
	exec  *cstate.BlockExecutor
	err   error
	saved []*types.Block // blocks SaveBlock accepted, in order
	proc  *bcr.VerifProcessor
}

func (s *syncNode) node() *node.Node {
	if s.nd == nil && s.err == nil {
		s.nd, s.err = node.BuildNode(s.u.w, 0, s.u.opts())
		if s.err != nil {
			panic("infra: BuildNode: " + s.err.Error())
		}
		// the block executor exactly as BuildNode / mainchain/backend.go wire it
		var ops node.BlockOps = s.nd.BO
		if s.u.opts().WrapBO != nil {
			ops = s.u.opts().WrapBO(s.nd.BO)
		}
		s.exec = cstate.NewBlockExecutor(s.nd.Store, log.New(), s.nd.EvPool, ops)
		s.exec.SetEventBus(s.nd.Bus)
	}
	return s.nd
}

// blockStore of the processor context: the real BlockOperations; SaveBlock calls are recorded.
func (s *syncNode) Base() uint64                    { return s.node().BO.Base() }
func (s *syncNode) Height() uint64                  { return s.node().BO.Height() }
func (s *syncNode) LoadBlock(h uint64) *types.Block { return s.node().BO.LoadBlock(h) }
func (s *syncNode) SaveBlock(b *types.Block, ps *types.PartSet, c *types.Commit) {
	s.node().BO.SaveBlock(b, ps, c) // panics for a non-contiguous block; recorded only if it returns
	s.saved = append(s.saved, b)
}

// blockApplier of the processor context: the real BlockExecutor.
func (s *syncNode) ApplyBlock(st cstate.LatestBlockState, id types.BlockID, b *types.Block) (cstate.LatestBlockState, uint64, error) {
	s.node()
	return s.exec.ApplyBlock(st, id, b)
}

func (s *syncNode) Close() {
	if s.nd != nil {
		s.nd.Close()
	}
}

// checkSiblings confirms what the specification assumes about the kind F: F(h) is a VALID child of G(h-1) (the real
// BlockExecutor.ValidateBlock accepts it on the state of the committed chain) that differs from G(h).
func checkSiblings(u *universe) error {
	sn := newSyncNode(u, u.states[0])
	defer sn.Close()
	sn.node()
	st := u.states[0].Copy()
	for h := 1; h <= u.maxH; h++ {
		f, err := u.decode("F" + strconv.Itoa(h))
		if err != nil {
			return err
		}
		if err := sn.exec.ValidateBlock(st, f); err != nil {
			return fmt.Errorf("the sibling F%d is not a valid block: %v", h, err)
		}
		g, err := u.decode("G" + strconv.Itoa(h))
		if err != nil {
			return err
		}
		if sameID(blockID(f), blockID(g)) {
			return fmt.Errorf("the sibling F%d equals G%d", h, h)
		}
		if h < u.maxH {
			sn.node().BO.SaveBlock(g, g.MakePartSet(types.BlockPartSizeBytes), u.chain[h+1].LastCommit())
			if st, _, err = sn.exec.ApplyBlock(st, blockID(g), g); err != nil {
				return fmt.Errorf("the committed block G%d does not apply: %v", h, err)
			}
		}
	}
	return nil
}

func newSyncNode(u *universe, genesis cstate.LatestBlockState) *syncNode {
	s := &syncNode{u: u}
	s.proc = bcr.NewVerifProcessor(s, s, genesis.Copy())
	return s
}

var (
	rePanicDup   = regexp.MustCompile(`duplicate block (\d+) `)
	rePanicApply = regexp.MustCompile(`failed to process committed block \((\d+):`)
	rePanicSave  = regexp.MustCompile(`can only save contiguous blocks\. Wanted \d+, got (\d+)`)
)

// panicResult classifies a panic of pcState.handle by its message (class + the height it names).
func panicResult(r interface{}) result {
	s := fmt.Sprint(r)
	for _, c := range []struct {
		re    *regexp.Regexp
		class string
	}{{rePanicDup, "panic:dup"}, {rePanicApply, "panic:apply"}, {rePanicSave, "panic:save"}} {
		if m := c.re.FindStringSubmatch(s); m != nil {
			h, _ := strconv.Atoi(m[1])
			return result{c.class, h, "-", "-", 0}
		}
	}
	return result{"panic:other(" + s[:min(len(s), 80)] + ")", 0, "-", "-", 0}
}

func sameID(a, b types.BlockID) bool { return a.Equal(b) }

func min(a, b int) int {
	if a < b {
		return a
	}
	return b
}

// result of one real handle call in the shape of the specification's result tuple
type result struct {
	Class  string
	H      int
	P1, P2 string
	N      int
}

func (r result) String() string { return fmt.Sprintf("%s(%d,%s,%s,%d)", r.Class, r.H, r.P1, r.P2, r.N) }

func handle(p *bcr.VerifProcessor, ev bcr.Event) (res result) {
	defer func() {
		if r := recover(); r != nil {
			res = panicResult(r)
		}
	}()
	out, err := p.Handle(ev)
	if err != nil {
		return result{Class: "error:" + err.Error(), P1: "-", P2: "-"}
	}
	d := bcr.VerifBSDescribe(out)
	switch d.Kind {
	case "noOpEvent":
		return result{"noOp", 0, "-", "-", 0}
	case "pcBlockProcessed":
		return result{"processed", int(d.Height), string(d.Peer), "-", 0}
	case "pcBlockVerificationFailure":
		return result{"verfail", int(d.Height), string(d.Peer), string(d.Peer2), 0}
	case "pcFinished":
		return result{"finished", int(d.Height), "-", "-", d.Synced}
	}
	return result{Class: "unexpected:" + d.Kind, P1: "-", P2: "-"}
}

type obs struct {
	Ht   int             `json:"ht"`
	Q    [][]interface{} `json:"q"`
	Dr   bool            `json:"dr"`
	Sy   int             `json:"sy"`
	St   [][]interface{} `json:"st"`
	Ap   [][]interface{} `json:"ap"`
	Dead string          `json:"dead"`
}
type line struct {
	H [][]interface{} `json:"h"`
	O obs             `json:"o"`
}

func nm(kind interface{}, h interface{}) string {
	k := kind.(string)
	hh := int(h.(float64))
	if k == "none" {
		return "none"
	}
	return k + strconv.Itoa(hh)
}

// TestReplay replays every transition of MC_BlockSync (TLC dump BS_DUMP) into the real processor.
// Compared after EVERY event: the class and the fields of the returned event (or the panic); after the last one:
// state height, LastBlockID, queue (block and peer per height), draining, blocksSynced, the blocks saved and the
// blocks applied.  Independently of the specification: every block in the real store must be the block the real
// network committed at that height (unless BS_BEYOND=1: models outside the fault assumption).
func TestReplay(t *testing.T) {
	res := mbt.NewResult()
	defer res.Write()
	defer func() { // a driver that dies must not look like a clean run
		if r := recover(); r != nil {
			res.Mismatch("infra:driver-panic", fmt.Sprint(r), nil)
		}
	}()
	dump := os.Getenv("BS_DUMP")
	var powers []int64
	for _, p := range parseInts(os.Getenv("BS_POWER")) {
		powers = append(powers, int64(p))
	}
	maxH := mbt.EnvInt("BS_MAXH", 4)
	kinds := splitList(os.Getenv("BS_KINDS"))
	beyond := os.Getenv("BS_BEYOND") == "1"
	tag := os.Getenv("BS_TAG")
	u, err := newUniverse(powers, maxH, os.Getenv("BS_SETS"), os.Getenv("BS_CHANGE"))
	if err != nil {
		res.Mismatch("infra:chain", "building the committed chain with real nodes failed: "+err.Error(), nil)
		return
	}
	u.prepare(append([]string{"G"}, kinds...))
	for k := range u.codecRejects {
		res.Set("codec_rejects_"+k, true) // such blocks never reach the processor through reactor.Receive
	}
	for _, k := range kinds {
		if k == "F" {
			if err := checkSiblings(u); err != nil {
				res.Mismatch("infra:universe", err.Error(), nil)
				return
			}
		}
	}
	pfx := "blocksync:proc:"
	sent, err := mbt.EachLine(dump, mbt.EnvInt("BS_WORKERS", 0), mbt.EnvInt("BS_LIMIT", 0), mbt.EnvInt("BS_STRIDE", 1), mbt.Seed(), func(n int, raw []byte) {
		var l line
		if err := json.Unmarshal(raw, &l); err != nil {
			res.Mismatch("infra:parse", err.Error(), string(raw))
			return
		}
		sn := newSyncNode(u, u.states[0])
		defer sn.Close()
		detail := J{"hist": l.H, "cfg": tag, "power": powers}
		var applied []string
		nontrivial := false
		for k, a := range l.H {
			act := a[0].(string)
			want := result{a[4].(string), int(a[5].(float64)), a[6].(string), a[7].(string), int(a[8].(float64))}
			var ev bcr.Event
			switch act {
			case "recv":
				name := nm(a[2], a[3])
				var b *types.Block
				if name != "none" {
					if b, err = u.decode(name); err != nil {
						res.Mismatch("infra:decode", err.Error(), name)
						return
					}
					if a[2].(string) != "G" {
						nontrivial = true
					}
				}
				ev = bcr.VerifScBlockReceived(p2p.ID(a[1].(string)), b)
			case "proc":
				ev = bcr.VerifRProcessBlock()
			case "perr":
				ev = bcr.VerifScPeerError(p2p.ID(a[1].(string)))
			case "fin":
				ev = bcr.VerifScFinished()
			case "reset":
				ev = bcr.VerifBcResetState(u.states[uint64(a[3].(float64))].Copy())
				nontrivial = true
			}
			first := sn.proc.Queue()[sn.proc.Height()+1]
			got := handle(sn.proc, ev)
			if got != want {
				res.Mismatch(pfx+"result:"+act+":"+want.Class+"->"+got.Class,
					fmt.Sprintf("%s: step %d (%v) of %v: the real processor returned %v, specified %v", tag, k+1, a[:4], l.H, got, want), detail)
				return
			}
			if want.Class != "noOp" && want.Class != "processed" {
				nontrivial = true
			}
			if got.Class == "processed" {
				applied = append(applied, u.nameOf(first.Block))
				// the state really advanced onto that block
				if lid := sn.proc.State().LastBlockID; !sameID(lid, blockID(first.Block)) {
					res.Mismatch(pfx+"obs:lastblockid", fmt.Sprintf("%s: after pcBlockProcessed the state's LastBlockID is %s, not the processed block %s",
						tag, u.nameOfID(lid), u.nameOf(first.Block)), detail)
					return
				}
			}
		}
		res.Count(len(l.H))
		res.Behaviour()
		if nontrivial {
			res.Distinct(fmt.Sprint(l.H))
		}
		fail := func(what, text string) {
			res.Mismatch(pfx+"obs:"+what, fmt.Sprintf("%s: after %v: %s", tag, l.H, text), detail)
		}
		// ---- property level, on the real side only: the store holds committed blocks only
		if !beyond {
			for h := uint64(1); sn.nd != nil && h <= sn.nd.BO.Height(); h++ {
				b := sn.nd.BO.LoadBlock(h)
				c := u.chain[int(h)]
				if b == nil || c == nil || !sameID(blockID(b), blockID(c)) {
					res.Mismatch("blocksync:adopted-uncommitted", fmt.Sprintf("%s: after %v the syncing node's store holds %s at height %d; the real network committed %s",
						tag, l.H, u.nameOf(b), h, u.nameOf(c)), detail)
					return
				}
			}
			if st := sn.proc.State(); st.LastBlockHeight > 0 {
				if c := u.chain[int(st.LastBlockHeight)]; c == nil || !sameID(st.LastBlockID, blockID(c)) {
					res.Mismatch("blocksync:adopted-uncommitted", fmt.Sprintf("%s: after %v the syncing node's state is on block %s at height %d; the real network committed %s",
						tag, l.H, u.nameOfID(st.LastBlockID), st.LastBlockHeight, u.nameOf(c)), detail)
					return
				}
			}
		}
		// ---- lock-step with the specification
		savedNames := func() (got, want []string) {
			for _, b := range sn.saved {
				got = append(got, u.nameOf(b))
			}
			for _, e := range l.O.St {
				want = append(want, nm(e[0], e[1]))
			}
			return
		}
		if l.O.Dead != "ok" {
			// the routine is dead; its fields are whatever the panic left behind -- except the store: saveBlock
			// comes before applyBlock, so the block whose application failed has been saved
			if got, want := savedNames(); fmt.Sprint(got) != fmt.Sprint(want) {
				fail("saved", fmt.Sprintf("blocks saved %v, specified %v (processor dead: %s)", got, want, l.O.Dead))
			}
			return
		}
		if int(sn.proc.Height()) != l.O.Ht {
			fail("height", fmt.Sprintf("real height %d, specified %d", sn.proc.Height(), l.O.Ht))
			return
		}
		q := sn.proc.Queue()
		for i, e := range l.O.Q {
			h := uint64(i + 1)
			wantN, wantP := nm(e[0], e[1]), e[2].(string)
			gotN, gotP := "none", "none"
			if it, ok := q[h]; ok {
				gotN, gotP = u.nameOf(it.Block), string(it.Peer)
			}
			if gotN != wantN || gotP != wantP {
				fail("queue", fmt.Sprintf("queue[%d] = %s from %s, specified %s from %s", h, gotN, gotP, wantN, wantP))
				return
			}
		}
		for h := range q {
			if int(h) > len(l.O.Q) {
				fail("queue", fmt.Sprintf("queue holds height %d outside the universe", h))
				return
			}
		}
		if sn.proc.Draining() != l.O.Dr {
			fail("draining", fmt.Sprintf("draining = %v, specified %v", sn.proc.Draining(), l.O.Dr))
		}
		if sn.proc.BlocksSynced() != l.O.Sy {
			fail("synced", fmt.Sprintf("blocksSynced = %d, specified %d", sn.proc.BlocksSynced(), l.O.Sy))
		}
		var wantApplied []string
		for _, e := range l.O.Ap {
			wantApplied = append(wantApplied, nm(e[0], e[1]))
		}
		if saved, wantSaved := savedNames(); fmt.Sprint(saved) != fmt.Sprint(wantSaved) {
			fail("saved", fmt.Sprintf("blocks saved %v, specified %v", saved, wantSaved))
		}
		if fmt.Sprint(applied) != fmt.Sprint(wantApplied) {
			fail("applied", fmt.Sprintf("blocks applied %v, specified %v", applied, wantApplied))
		}
		if n%997 == 0 {
			res.Sample(J{"cfg": tag, "hist": l.H, "obs": l.O})
		}
	})
	if err != nil {
		res.Mismatch("infra:dump", err.Error(), dump)
	}
	if sent == 0 {
		res.Mismatch("infra:empty-dump", "no transitions in "+dump, nil)
	}
}
