package rlp

import (
	"encoding/json"
	"os"
	"testing"

	"verifharness/internal/mbt"
)

// stringsLine is one transition of MC_RLPStrings (also used by MC_RLPHuge): a byte string with the
// specified outcome of every untyped entry point and of the typed decoders of the schema set.
type stringsLine struct {
	B  bytesJ   `json:"b"`
	U  untypedJ `json:"u"`
	Ty map[string]struct {
		E  string          `json:"e"`
		V  json.RawMessage `json:"v"`
		C  bool            `json:"c"`
		E1 string          `json:"e1"`
		N  int             `json:"n"`
	} `json:"ty"`
}

// TestStrings: generation (a) - every byte string over the boundary alphabet.
func TestStrings(t *testing.T) {
	res := mbt.NewResult()
	defer res.Write()
	tl := newTally(res, "strings")
	defer tl.finish()
	sent, err := mbt.EachLine(os.Getenv("RLP_DUMP"), 0, mbt.EnvInt("RLP_LIMIT", 0), mbt.EnvInt("RLP_STRIDE", 1), mbt.Seed(), func(n int, raw []byte) {
		var l stringsLine
		if err := json.Unmarshal(raw, &l); err != nil {
			res.Mismatch("infra:parse", err.Error(), string(raw))
			return
		}
		in := []byte(l.B)
		detail := map[string]interface{}{"input": hexOf(in)}
		runUntyped(tl, "rlp:strings", in, &l.U, detail)
		accepted := l.U.D.E == "ok"
		for name, want := range l.Ty {
			runTyped(tl, "rlp:strings", name, in, resJ{E: want.E, V: want.V, E1: want.E1, N: want.N}, want.C, detail)
			if want.E == "ok" {
				accepted = true
			}
		}
		// non-trivial: a string that some decoder accepts, or one that fails for a reason other than
		// the type of its first byte (i.e. not plain "expected list/string")
		if accepted || (l.U.D.E != "ok" && l.U.D.E != "trailing") {
			res.Distinct(hexOf(in))
		}
		if n%1009 == 7 {
			res.Sample(map[string]interface{}{"input": hexOf(in), "Dec": l.U.D.E, "Split": l.U.Sp.E, "u64": l.Ty["u64"].E, "OptS": l.Ty["OptS"].E})
		}
	})
	if err != nil {
		res.Mismatch("infra:read", err.Error(), nil)
	}
	res.Behaviours = sent
	res.Set("replayed_"+tl.name, sent)
}
