// Package rlp binds specs/rlp (RLP.tla, RLPStream.tla, RLPTyped.tla and their MC modules) to the
// real lib/rlp and to the chain types that are stored / hashed through it (property C16).
//
// Every test reads the lines TLC printed for one MC module (one line per transition: the generated
// byte string or value together with EVERYTHING the specification says about it), runs the real code
// through every entry point and compares.  The specification is the oracle; accept/reject and the
// decoded value are property level, the error class is only counted (extra.class_differs).
package rlp

import (
	"bytes"
	"encoding/hex"
	"encoding/json"
	"errors"
	"fmt"
	"io"
	"os"
	"strings"
	"sync"
	"sync/atomic"

	krlp "github.com/kardiachain/go-kardia/lib/rlp"

	"verifharness/internal/mbt"
)

// ---------------------------------------------------------------------------------------------
// JSON forms printed by the specification

// bytesJ is a byte string as printed by RLP!PB: an array whose elements are bytes or pairs
// [byte, count] standing for a run, e.g. [248, 56, [0, 56]].
type bytesJ []byte

func (p *bytesJ) UnmarshalJSON(raw []byte) error {
	var a []json.RawMessage
	if err := json.Unmarshal(raw, &a); err != nil {
		return fmt.Errorf("byte string %s: %w", raw, err)
	}
	out := make([]byte, 0, len(a))
	for _, e := range a {
		if len(e) > 0 && e[0] == '[' {
			var r [2]int
			if err := json.Unmarshal(e, &r); err != nil {
				return err
			}
			for i := 0; i < r[1]; i++ {
				out = append(out, byte(r[0]))
			}
			continue
		}
		var x int
		if err := json.Unmarshal(e, &x); err != nil {
			return err
		}
		out = append(out, byte(x))
	}
	*p = out
	return nil
}

// itemJ is an RLP item as printed by RLP!PItem: {"s": bytes} or {"l": [items]}.
type itemJ struct {
	S *bytesJ  `json:"s"`
	L *[]itemJ `json:"l"`
}

// generic returns the item in the shape rlp decodes into interface{}: []byte / []interface{}.
func (it itemJ) generic() interface{} {
	if it.L != nil {
		out := make([]interface{}, 0, len(*it.L))
		for _, e := range *it.L {
			out = append(out, e.generic())
		}
		return out
	}
	if it.S == nil {
		return []byte{}
	}
	return []byte(*it.S)
}

// sameItem compares what the real decoder produced for interface{} with the specified item.
func sameItem(got interface{}, want interface{}) bool {
	switch w := want.(type) {
	case []byte:
		g, ok := got.([]byte)
		return ok && bytes.Equal(g, w)
	case []interface{}:
		g, ok := got.([]interface{})
		if !ok || len(g) != len(w) {
			return false
		}
		for i := range w {
			if !sameItem(g[i], w[i]) {
				return false
			}
		}
		return true
	}
	return false
}

func showItem(x interface{}) string {
	switch v := x.(type) {
	case []byte:
		return "0x" + shortHex(v)
	case []interface{}:
		parts := make([]string, len(v))
		for i := range v {
			parts[i] = showItem(v[i])
		}
		return "[" + strings.Join(parts, " ") + "]"
	case nil:
		return "nil"
	}
	return fmt.Sprintf("%T(%v)", x, x)
}

func shortHex(b []byte) string {
	if len(b) <= 40 {
		return hex.EncodeToString(b)
	}
	return fmt.Sprintf("%s..%s(%d bytes)", hex.EncodeToString(b[:16]), hex.EncodeToString(b[len(b)-8:]), len(b))
}

// resJ is a specified result: error class and (when "ok") a value in a schema dependent form.
type resJ struct {
	E  string          `json:"e"`
	V  json.RawMessage `json:"v"`
	E1 string          `json:"e1"` // class of rlp.Decode(reader): one value, no trailing check
	N  int             `json:"n"`  // bytes it consumes
}

// ---------------------------------------------------------------------------------------------
// error classes of the real code, in the vocabulary of the specification

func classify(err error) string {
	if err == nil {
		return "ok"
	}
	switch {
	case errors.Is(err, io.EOF):
		return "eof"
	case errors.Is(err, io.ErrUnexpectedEOF):
		return "unexpected_eof"
	case errors.Is(err, krlp.EOL):
		return "eol"
	case errors.Is(err, krlp.ErrCanonSize):
		return "canon_size"
	case errors.Is(err, krlp.ErrCanonInt):
		return "canon_int"
	case errors.Is(err, krlp.ErrValueTooLarge):
		return "too_large"
	case errors.Is(err, krlp.ErrElemTooLarge):
		return "elem_too_large"
	case errors.Is(err, krlp.ErrExpectedString):
		return "expected_string"
	case errors.Is(err, krlp.ErrExpectedList):
		return "expected_list"
	case errors.Is(err, krlp.ErrMoreThanOneValue):
		return "trailing"
	}
	m := err.Error()
	switch {
	case strings.HasPrefix(m, "PANIC"):
		return "PANIC"
	case strings.Contains(m, "non-canonical size information"):
		return "canon_size"
	case strings.Contains(m, "non-canonical integer"):
		return "canon_int"
	case strings.Contains(m, "expected input list"):
		return "expected_list"
	case strings.Contains(m, "expected input string or byte"):
		return "expected_string"
	case strings.Contains(m, "input string too long"):
		return "too_long"
	case strings.Contains(m, "input string too short"):
		return "too_short"
	case strings.Contains(m, "input list has too many elements"):
		return "not_at_eol"
	case strings.Contains(m, "too few elements"):
		return "too_few"
	case strings.Contains(m, "wrong kind of empty value"):
		return "wrong_empty"
	case strings.Contains(m, "invalid boolean value"):
		return "bad_bool"
	case strings.Contains(m, "wrong size"):
		return "wrong_size"
	case strings.Contains(m, "uint overflow"):
		return "uint_overflow"
	case strings.Contains(m, "ListEnd outside"):
		return "not_in_list"
	case strings.Contains(m, "not positioned at EOL"):
		return "not_at_eol"
	case strings.Contains(m, "invalid receipt status"):
		return "bad_status"
	}
	return "other:" + m
}

// sameClass: the specification's class vocabulary is a little finer / coarser in places where the
// code uses one message for two situations.
func sameClass(spec, real string) bool {
	if spec == real {
		return true
	}
	switch spec {
	case "uint_overflow":
		return real == "too_long"
	case "wrong_size":
		return real == "too_long" || real == "too_short"
	case "too_large":
		// raw.go says ErrValueTooLarge where the stream says ErrElemTooLarge / unexpected EOF
		return real == "elem_too_large" || real == "unexpected_eof" || real == "eof"
	case "unexpected_eof":
		return real == "eof" || real == "too_large" || real == "elem_too_large"
	}
	return false
}

// guard runs f under recover(); a panic is returned as an error starting with "PANIC".
func guard(f func() error) (err error) {
	defer func() {
		if r := recover(); r != nil {
			err = fmt.Errorf("PANIC: %v", r)
		}
	}()
	return f()
}

// ---------------------------------------------------------------------------------------------
// bookkeeping shared by the tests

type tally struct {
	res       *mbt.Result
	name      string
	classSame int64
	classDiff int64
	mu        sync.Mutex
	diffs     map[string]int // "entry:specified->real" -> count (information only)
}

func newTally(res *mbt.Result, name string) *tally {
	if tag := os.Getenv("RLP_TAG"); tag != "" {
		name = tag // the model the dump comes from (one Go test serves several models)
	}
	return &tally{res: res, name: name, diffs: map[string]int{}}
}

// check compares one real outcome with the specified one on the property level:
// acceptance must agree; a panic is always a mismatch.  Returns true when the real code accepted
// and so did the specification (the caller then compares the values).
func (t *tally) check(sigPrefix, entry string, in []byte, spec string, err error, detail interface{}) bool {
	real := classify(err)
	t.res.Count(1)
	if real == "PANIC" {
		t.res.Mismatch(sigPrefix+":panic:"+entry, fmt.Sprintf("%s panicked on input %s: %v (specified: %s)", entry, shortHex(in), err, spec), detail)
		return false
	}
	if (real == "ok") != (spec == "ok") {
		if real == "ok" {
			t.res.Mismatch(sigPrefix+":accepts:"+entry+":"+spec,
				fmt.Sprintf("%s ACCEPTS input %s; the specification rejects it (%s)", entry, shortHex(in), spec), detail)
		} else {
			t.res.Mismatch(sigPrefix+":rejects:"+entry,
				fmt.Sprintf("%s REJECTS input %s (%v); the specification accepts it", entry, shortHex(in), err), detail)
		}
		return false
	}
	if sameClass(spec, real) {
		atomic.AddInt64(&t.classSame, 1)
	} else {
		atomic.AddInt64(&t.classDiff, 1)
		t.mu.Lock()
		t.diffs[entry+":"+spec+"->"+strings.SplitN(real, ":", 2)[0]]++
		t.mu.Unlock()
	}
	return real == "ok"
}

func (t *tally) value(sigPrefix, entry string, in []byte, ok bool, text string, detail interface{}) {
	if !ok {
		t.res.Mismatch(sigPrefix+":value:"+entry, fmt.Sprintf("%s on input %s: %s", entry, shortHex(in), text), detail)
	}
}

func (t *tally) finish() {
	t.res.Set("class_agrees_"+t.name, int(atomic.LoadInt64(&t.classSame)))
	t.res.Set("class_differs_"+t.name, int(atomic.LoadInt64(&t.classDiff)))
	if len(t.diffs) > 0 {
		t.res.Set("class_differs_kinds_"+t.name, t.diffs)
	}
}

func hexOf(b []byte) string { return hex.EncodeToString(b) }

func clip(s string, n int) string {
	if len(s) > n {
		return s[:n] + "..."
	}
	return s
}
