package rlp

import (
	"bytes"
	"encoding/json"
	"fmt"
	"io"
	"math/big"
	"reflect"
	"testing/iotest"

	krlp "github.com/kardiachain/go-kardia/lib/rlp"
)

// untypedJ is RLPSchemas!UntypedOut: what every untyped entry point must return for a byte string.
type untypedJ struct {
	D struct {
		E  string          `json:"e"`
		It json.RawMessage `json:"it"`
	} `json:"d"`
	D1 struct {
		E string `json:"e"`
		N int    `json:"n"`
	} `json:"d1"`
	Sp struct {
		E string `json:"e"`
		K string `json:"k"`
		C int    `json:"c"`
		R int    `json:"r"`
	} `json:"sp"`
	Cv struct {
		E string `json:"e"`
		N int    `json:"n"`
	} `json:"cv"`
	Su struct {
		E string `json:"e"`
		V bytesJ `json:"v"`
		R int    `json:"r"`
	} `json:"su"`
	Li struct {
		E  string `json:"e"`
		N  int    `json:"n"`
		Ie string `json:"ie"`
	} `json:"li"`
	Rw struct {
		E string `json:"e"`
	} `json:"rw"`
}

func kindName(k krlp.Kind) string {
	switch k {
	case krlp.Byte:
		return "b"
	case krlp.String:
		return "s"
	case krlp.List:
		return "l"
	}
	return "?"
}

// walk rebuilds the item ahead in the stream through the public Stream API.
func walk(s *krlp.Stream) (interface{}, error) {
	kind, _, err := s.Kind()
	if err != nil {
		return nil, err
	}
	if kind == krlp.List {
		if _, err := s.List(); err != nil {
			return nil, err
		}
		out := []interface{}{}
		for {
			x, err := walk(s)
			if err == krlp.EOL {
				break
			}
			if err != nil {
				return nil, err
			}
			out = append(out, x)
		}
		if err := s.ListEnd(); err != nil {
			return nil, err
		}
		return out, nil
	}
	return s.Bytes()
}

// atEOF: after one complete value a limited top-level stream must report io.EOF.
func atEOF(s *krlp.Stream) error {
	_, _, err := s.Kind()
	if err == io.EOF {
		return nil
	}
	// another value (well-formed or not) follows
	return krlp.ErrMoreThanOneValue
}

// onlyReader hides every method but Read (the Stream then wraps it into a bufio.Reader).
type onlyReader struct{ r io.Reader }

func (o onlyReader) Read(p []byte) (int, error) { return o.r.Read(p) }

// runUntyped drives every untyped entry point of the package with the byte string in and compares
// with the specification.  sig is the signature prefix ("rlp:strings", "rlp:trees", ...).
func runUntyped(t *tally, sig string, in []byte, u *untypedJ, detail interface{}) {
	var wantItem interface{}
	if u.D.E == "ok" {
		var it itemJ
		if err := json.Unmarshal(u.D.It, &it); err != nil {
			t.res.Mismatch("infra:parse-item", err.Error(), string(u.D.It))
			return
		}
		wantItem = it.generic()
	}
	cmpItem := func(entry string, got interface{}) {
		t.value(sig, entry, in, sameItem(got, wantItem), fmt.Sprintf("decoded %s, specified %s", showItem(got), showItem(wantItem)), detail)
	}
	reenc := func(entry string, v interface{}) {
		var out []byte
		err := guard(func() (e error) { out, e = krlp.EncodeToBytes(v); return })
		if err != nil || !bytes.Equal(out, in) {
			t.res.Mismatch(sig+":canon:reencode:"+entry,
				fmt.Sprintf("%s accepted %s but the decoded value encodes to %s (err %v): the input is not the canonical encoding of what it decodes to",
					entry, shortHex(in), shortHex(out), err), detail)
		}
	}

	// 1. DecodeBytes into interface{}
	{
		var v interface{}
		err := guard(func() error { return krlp.DecodeBytes(in, &v) })
		if t.check(sig, "DecodeBytes(interface{})", in, u.D.E, err, detail) {
			cmpItem("DecodeBytes(interface{})", v)
			reenc("DecodeBytes(interface{})", v)
		}
	}
	// 2. DecodeBytes into RawValue: header only (RawShallow), identity on what it accepts
	{
		var v krlp.RawValue
		err := guard(func() error { return krlp.DecodeBytes(in, &v) })
		if t.check(sig, "DecodeBytes(RawValue)", in, u.Rw.E, err, detail) {
			t.value(sig, "DecodeBytes(RawValue)", in, bytes.Equal(v, in), fmt.Sprintf("RawValue %s differs from the input", shortHex(v)), detail)
		}
	}
	// 3. Decode from a reader: one value, the rest stays in the reader
	{
		var v interface{}
		r := bytes.NewReader(in)
		err := guard(func() error { return krlp.Decode(r, &v) })
		if t.check(sig, "Decode(reader)", in, u.D1.E, err, detail) {
			t.value(sig, "Decode(reader)", in, len(in)-r.Len() == u.D1.N,
				fmt.Sprintf("consumed %d bytes, specified %d", len(in)-r.Len(), u.D1.N), detail)
		}
	}
	// 4. the Stream API, three ways of building the stream
	streams := []struct {
		name string
		mk   func() *krlp.Stream
	}{
		{"Stream(bytes.Reader,auto)", func() *krlp.Stream { return krlp.NewStream(bytes.NewReader(in), 0) }},
		{"Stream(bytes.Reader,limit)", func() *krlp.Stream { return krlp.NewStream(bytes.NewReader(in), uint64(len(in))) }},
		{"Stream(bufio,limit)", func() *krlp.Stream {
			return krlp.NewStream(onlyReader{iotest.OneByteReader(bytes.NewReader(in))}, uint64(len(in)))
		}},
	}
	for _, sc := range streams {
		if len(in) == 0 && sc.name == "Stream(bufio,limit)" {
			continue // limit 0 means "no limit" for a plain reader (LimitedOnly)
		}
		// 4a. walk with Kind / Bytes / List / ListEnd
		var v interface{}
		err := guard(func() (e error) {
			s := sc.mk()
			if v, e = walk(s); e != nil {
				return e
			}
			return atEOF(s)
		})
		if t.check(sig, sc.name+".walk", in, u.D.E, err, detail) {
			cmpItem(sc.name+".walk", v)
		}
		// 4b. Stream.Decode(&interface{})
		var v2 interface{}
		err = guard(func() (e error) {
			s := sc.mk()
			if e = s.Decode(&v2); e != nil {
				return e
			}
			return atEOF(s)
		})
		if t.check(sig, sc.name+".Decode", in, u.D.E, err, detail) {
			cmpItem(sc.name+".Decode", v2)
		}
		// 4c. Stream.Raw
		var raw []byte
		err = guard(func() (e error) {
			s := sc.mk()
			if raw, e = s.Raw(); e != nil {
				return e
			}
			return atEOF(s)
		})
		if t.check(sig, sc.name+".Raw", in, u.Rw.E, err, detail) {
			t.value(sig, sc.name+".Raw", in, bytes.Equal(raw, in), fmt.Sprintf("Raw() = %s differs from the input", shortHex(raw)), detail)
		}
	}
	// 5. Split / SplitString / SplitList
	{
		var k krlp.Kind
		var content, rest []byte
		err := guard(func() (e error) { k, content, rest, e = krlp.Split(in); return })
		if t.check(sig, "Split", in, u.Sp.E, err, detail) {
			ok := kindName(k) == u.Sp.K && len(content) == u.Sp.C && len(rest) == u.Sp.R &&
				bytes.Equal(rest, in[len(in)-len(rest):]) && bytes.Equal(content, in[len(in)-len(rest)-len(content):len(in)-len(rest)])
			t.value(sig, "Split", in, ok, fmt.Sprintf("kind %s content %d rest %d, specified kind %s content %d rest %d",
				kindName(k), len(content), len(rest), u.Sp.K, u.Sp.C, u.Sp.R), detail)
		}
		wantS, wantL := u.Sp.E, u.Sp.E
		if u.Sp.E == "ok" && u.Sp.K == "l" {
			wantS = "expected_string"
		}
		if u.Sp.E == "ok" && u.Sp.K != "l" {
			wantL = "expected_list"
		}
		err = guard(func() (e error) { content, rest, e = krlp.SplitString(in); return })
		if t.check(sig, "SplitString", in, wantS, err, detail) {
			t.value(sig, "SplitString", in, len(content) == u.Sp.C && len(rest) == u.Sp.R, "content/rest lengths differ", detail)
		}
		err = guard(func() (e error) { content, rest, e = krlp.SplitList(in); return })
		if t.check(sig, "SplitList", in, wantL, err, detail) {
			t.value(sig, "SplitList", in, len(content) == u.Sp.C && len(rest) == u.Sp.R, "content/rest lengths differ", detail)
		}
	}
	// 6. CountValues
	{
		var n int
		err := guard(func() (e error) { n, e = krlp.CountValues(in); return })
		if t.check(sig, "CountValues", in, u.Cv.E, err, detail) {
			t.value(sig, "CountValues", in, n == u.Cv.N, fmt.Sprintf("%d values, specified %d", n, u.Cv.N), detail)
		}
	}
	// 7. SplitUint64
	{
		var x uint64
		var rest []byte
		err := guard(func() (e error) { x, rest, e = krlp.SplitUint64(in); return })
		if t.check(sig, "SplitUint64", in, u.Su.E, err, detail) {
			t.value(sig, "SplitUint64", in, bytes.Equal(minimalBE(x), u.Su.V) && len(rest) == u.Su.R,
				fmt.Sprintf("value %x rest %d, specified %x rest %d", x, len(rest), []byte(u.Su.V), u.Su.R), detail)
		}
	}
	// 8. the list iterator
	{
		n, ierr := 0, "ok"
		var joined []byte
		err := guard(func() error {
			it, e := krlp.NewListIterator(in)
			if e != nil {
				return e
			}
			for it.Next() {
				if it.Err() != nil {
					ierr = classify(it.Err())
					break
				}
				joined = append(joined, it.Value()...)
				n++
				if n > len(in)+1 {
					ierr = "RUNAWAY"
					break
				}
			}
			return nil
		})
		if t.check(sig, "NewListIterator", in, u.Li.E, err, detail) {
			ok := n == u.Li.N && (ierr == "ok") == (u.Li.Ie == "ok")
			t.value(sig, "ListIterator", in, ok, fmt.Sprintf("%d values then %s, specified %d then %s", n, ierr, u.Li.N, u.Li.Ie), detail)
			if ok && ierr == "ok" {
				_, content, _, _ := krlp.Split(in)
				t.value(sig, "ListIterator.Value", in, bytes.Equal(joined, content), "the values do not add up to the list payload", detail)
			}
		}
	}
}

// runTyped decodes in into the Go type of schema `name` and compares with the specified result.
// Returns the decoded value when accepted.
func runTyped(t *tally, sig string, name string, in []byte, want resJ, canon bool, detail interface{}) {
	typ, ok := schemaTypes[name]
	if !ok {
		t.res.Mismatch("infra:schema", "no Go type for schema "+name, nil)
		return
	}
	// rlp.Decode from a reader: one value of the type, the rest stays in the reader
	if want.E1 != "" {
		p0 := reflect.New(typ)
		rd := bytes.NewReader(in)
		err := guard(func() error { return krlp.Decode(rd, p0.Interface()) })
		if t.check(sig, "Decode(reader,"+name+")", in, want.E1, err, detail) {
			t.value(sig, "Decode(reader,"+name+")", in, len(in)-rd.Len() == want.N,
				fmt.Sprintf("consumed %d bytes, specified %d", len(in)-rd.Len(), want.N), detail)
		}
	}
	ptr := reflect.New(typ)
	err := guard(func() error { return krlp.DecodeBytes(in, ptr.Interface()) })
	if !t.check(sig, "DecodeBytes("+name+")", in, want.E, err, detail) {
		return
	}
	wt, perr := wantTree(typ, want.V)
	if perr != nil {
		t.res.Mismatch("infra:parse-value", perr.Error(), string(want.V))
		return
	}
	gt := gotTree(ptr.Elem())
	t.value(sig, "DecodeBytes("+name+")", in, reflect.DeepEqual(gt, wt),
		fmt.Sprintf("decoded %s, specified %s", treeString(gt), treeString(wt)), detail)
	// the accepted input must be the encoding of the decoded value
	var out []byte
	err = guard(func() (e error) { out, e = krlp.EncodeToBytes(ptr.Interface()); return })
	if err != nil || !bytes.Equal(out, in) {
		if !canon {
			// predicted by the specification: deviation OptionalZero of RLPTyped.tla.  One defect, one
			// signature - the one it is registered under (first seen on schema OptS); the schema
			// actually hit is named in the text.
			t.res.Mismatch("rlp:typed:optional-zero:OptS",
				fmt.Sprintf("DecodeBytes(%s) accepts %s, which is NOT the canonical encoding of the value it decodes to (%s encodes to %s): "+
					"an optional field of non-pointer type given explicitly with its zero value is accepted (two inputs, one value)",
					name, shortHex(in), treeString(gt), shortHex(out)), detail)
		} else {
			t.res.Mismatch(sig+":canon:reencode:"+name,
				fmt.Sprintf("DecodeBytes(%s) accepted %s but the decoded value %s encodes to %s (err %v)", name, shortHex(in), treeString(gt), shortHex(out), err), detail)
		}
	} else if !canon {
		t.res.Mismatch(sig+":canon:spec-predicted-noncanonical:"+name,
			fmt.Sprintf("the specification predicts that %s is a non-canonical input accepted for %s, the real re-encoding is identical", shortHex(in), name), detail)
	}
	// decoding into a value that already holds data: codec fields are overwritten / zeroed, fields the
	// codec does not see (rlp:"-", unexported) keep what they had and do not shift the others
	if fullTypes[typ] {
		p3 := reflect.New(typ)
		prepopulate(p3.Elem())
		err = guard(func() error { return krlp.DecodeBytes(in, p3.Interface()) })
		if t.check(sig, "DecodeBytes(prepopulated "+name+")", in, want.E, err, detail) {
			w3 := keepIgnored(typ, wt)
			g3 := gotTree(p3.Elem())
			t.value(sig, "DecodeBytes(prepopulated "+name+")", in, reflect.DeepEqual(g3, w3),
				fmt.Sprintf("decoded into a prepopulated value: %s, specified %s (ignored fields must keep the sentinel ee / true)", treeString(g3), treeString(w3)), detail)
		}
	}
	// a second decoder instance must agree (Stream.Decode through an explicit stream)
	ptr2 := reflect.New(typ)
	err = guard(func() error {
		s := krlp.NewStream(bytes.NewReader(in), uint64(len(in)))
		if e := s.Decode(ptr2.Interface()); e != nil {
			return e
		}
		return atEOF(s)
	})
	if t.check(sig, "Stream.Decode("+name+")", in, want.E, err, detail) {
		t.value(sig, "Stream.Decode("+name+")", in, reflect.DeepEqual(gotTree(ptr2.Elem()), wt), "value differs from DecodeBytes", detail)
	}
}

// countWriter and friends: the encoder is reached through every public entry point.
func checkEncoders(t *tally, sig string, v interface{}, want []byte, detail interface{}) {
	cmp := func(entry string, got []byte, err error) {
		t.res.Count(1)
		if err != nil || !bytes.Equal(got, want) {
			t.res.Mismatch(sig+":encode:"+entry, fmt.Sprintf("%s = %s (err %v), specified Enc = %s", entry, shortHex(got), err, shortHex(want)), detail)
		}
	}
	var out []byte
	err := guard(func() (e error) { out, e = krlp.EncodeToBytes(v); return })
	cmp("EncodeToBytes", out, err)
	if err == nil {
		if _, custom := v.(krlp.Encoder); !custom { // types with their own EncodeRLP write into OUR buffer type
			gethCross(v, out)
		}
	}
	var buf bytes.Buffer
	err = guard(func() error { return krlp.Encode(&buf, v) })
	cmp("Encode(writer)", buf.Bytes(), err)
	var rd []byte
	var size int
	err = guard(func() error {
		n, r, e := krlp.EncodeToReader(v)
		if e != nil {
			return e
		}
		size = n
		rd, e = io.ReadAll(iotest.OneByteReader(r))
		return e
	})
	cmp("EncodeToReader", rd, err)
	if err == nil && size != len(want) {
		t.res.Mismatch(sig+":encode:EncodeToReader.size", fmt.Sprintf("EncodeToReader size %d, encoding has %d bytes", size, len(want)), detail)
	}
	// items ([]byte / []interface{} trees) also through the incremental EncoderBuffer API (encbuffer.go),
	// which the generated encoders of /repo/types use
	switch v.(type) {
	case []byte, []interface{}:
		var eb, ab []byte
		var wbuf bytes.Buffer
		err = guard(func() error {
			w := krlp.NewEncoderBuffer(nil)
			bufferItem(w, v)
			eb = w.ToBytes()
			ab = w.AppendToBytes([]byte{0xAA})
			if e := w.Flush(); e != nil {
				return e
			}
			w2 := krlp.NewEncoderBuffer(&wbuf)
			bufferItem(w2, v)
			return w2.Flush()
		})
		cmp("EncoderBuffer.ToBytes", eb, err)
		if err == nil {
			cmp("EncoderBuffer.AppendToBytes", ab[min1(len(ab)):], nil)
			cmp("EncoderBuffer.Flush(writer)", wbuf.Bytes(), nil)
		}
	}
}

func min1(n int) int {
	if n < 1 {
		return n
	}
	return 1
}

func bufferItem(w krlp.EncoderBuffer, v interface{}) {
	switch x := v.(type) {
	case []byte:
		w.WriteBytes(x)
	case []interface{}:
		idx := w.List()
		for _, e := range x {
			bufferItem(w, e)
		}
		w.ListEnd(idx)
	}
}

// checkUintHelpers: AppendUint64 / IntSize / EncoderBuffer.WriteUint64 / WriteBigInt on an integer whose
// canonical encoding is want.
func checkUintHelpers(t *tally, sig string, u uint64, want []byte, detail interface{}) {
	t.res.Count(1)
	var a, wb, wbig []byte
	var isz int
	err := guard(func() error {
		a = krlp.AppendUint64([]byte{0xAA}, u)[1:]
		isz = krlp.IntSize(u)
		w := krlp.NewEncoderBuffer(nil)
		w.WriteUint64(u)
		wb = w.ToBytes()
		_ = w.Flush()
		w = krlp.NewEncoderBuffer(nil)
		w.WriteBigInt(new(big.Int).SetUint64(u))
		wbig = w.ToBytes()
		return w.Flush()
	})
	if err != nil || !bytes.Equal(a, want) || !bytes.Equal(wb, want) || !bytes.Equal(wbig, want) || isz != len(want) {
		t.res.Mismatch(sig+":encode:uint-helpers", fmt.Sprintf("integer %#x: AppendUint64 %x, WriteUint64 %x, WriteBigInt %x, IntSize %d (err %v); specified encoding %x",
			u, a, wb, wbig, isz, err, want), detail)
	}
}
