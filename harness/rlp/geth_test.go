package rlp

import (
	"bytes"
	"fmt"
	"reflect"
	"sync/atomic"

	grlp "github.com/ethereum/go-ethereum/rlp"
)

// Cross-check of the encoder against go-ethereum v1.9.15's rlp (module cache) on the same Go values.
// NOT a verdict (the oracle is RLP.tla's Enc): disagreements are only counted and shown in the
// evidence (extra.geth_*).  Skipped: types whose tags that version does not know (it returns an
// error) and this package's own RawValue type (go-ethereum sees a plain byte slice there).
var gethAgree, gethDiffer, gethSkipped int64
var gethFirstDiff atomic.Value

func gethCross(v interface{}, ours []byte) {
	t := reflect.TypeOf(v)
	for t != nil && t.Kind() == reflect.Ptr {
		t = t.Elem()
	}
	if t == rawType {
		return
	}
	var out []byte
	err := guard(func() (e error) { out, e = grlp.EncodeToBytes(v); return })
	switch {
	case err != nil:
		atomic.AddInt64(&gethSkipped, 1)
	case bytes.Equal(out, ours):
		atomic.AddInt64(&gethAgree, 1)
	default:
		if atomic.AddInt64(&gethDiffer, 1) == 1 {
			gethFirstDiff.Store(fmt.Sprintf("%T: %s vs go-ethereum %s", v, shortHex(ours), shortHex(out)))
		}
	}
}

func (t *tally) gethReport() {
	t.res.Set("geth_1_9_15_same_encoding_"+t.name, int(atomic.LoadInt64(&gethAgree)))
	t.res.Set("geth_1_9_15_different_encoding_"+t.name, int(atomic.LoadInt64(&gethDiffer)))
	t.res.Set("geth_1_9_15_type_not_supported_"+t.name, int(atomic.LoadInt64(&gethSkipped)))
	if d, ok := gethFirstDiff.Load().(string); ok {
		t.res.Set("geth_1_9_15_first_difference_"+t.name, d)
	}
}
