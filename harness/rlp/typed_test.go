package rlp

import (
	"bytes"
	"encoding/json"
	"fmt"
	"math/big"
	"os"
	"reflect"
	"testing"
	"time"

	"github.com/kardiachain/go-kardia/lib/common"
	"github.com/kardiachain/go-kardia/lib/crypto"
	krlp "github.com/kardiachain/go-kardia/lib/rlp"
	"github.com/kardiachain/go-kardia/types"

	"verifharness/internal/mbt"
)

// typedLine is one transition of MC_RLPTyped.
type typedLine struct {
	N    string            `json:"n"`    // schema name
	V    json.RawMessage   `json:"v"`    // abstract value (value states), else 0
	Norm bool              `json:"norm"` // value in normal form: decode(encode(v)) = v
	Ms   []json.RawMessage `json:"ms"`   // mutations applied to the encoding
	B    bytesJ            `json:"b"`
	D    string            `json:"d"` // class of the untyped canonical decoder
	O    struct {
		E  string          `json:"e"`
		V  json.RawMessage `json:"v"`
		C  bool            `json:"c"`
		E1 string          `json:"e1"`
		N  int             `json:"n"`
	} `json:"o"`
	Sem bool `json:"sem"` // receipts: the status field has one of the accepted forms
}

func keccak(b []byte) common.Hash { return crypto.Keccak256Hash(b) }

// legacy storage encoding of a log, which LogForStorage.DecodeRLP also accepts
type legacyLogMirror struct {
	Address     common.Address
	Topics      []common.Hash
	Data        []byte
	BlockHeight uint64
	TxHash      common.Hash
	TxIndex     uint
	BlockHash   common.Hash
	Index       uint
}

// TestTyped: typed round trips (value -> real encoder -> bytes = Enc; bytes -> real decoder ->
// value), typed rejection of mutated encodings, and the chain types of /repo/types.
func TestTyped(t *testing.T) {
	res := mbt.NewResult()
	defer res.Write()
	tl := newTally(res, "typed")
	defer tl.finish()
	defer tl.gethReport()
	sent, err := mbt.EachLine(os.Getenv("RLP_DUMP"), 0, mbt.EnvInt("RLP_LIMIT", 0), mbt.EnvInt("RLP_STRIDE", 1), mbt.Seed(), func(n int, raw []byte) {
		var l typedLine
		if err := json.Unmarshal(raw, &l); err != nil {
			res.Mismatch("infra:parse", err.Error(), clip(string(raw), 400))
			return
		}
		in := []byte(l.B)
		ms := make([]string, len(l.Ms))
		for i := range l.Ms {
			ms[i] = string(l.Ms[i])
		}
		isValue := len(ms) == 0 && len(l.V) > 0 && string(l.V) != "0"
		detail := map[string]interface{}{"schema": l.N, "input": hexOf(in), "mutations": ms}
		if isValue {
			detail["value"] = l.V
		}
		typ, ok := schemaTypes[l.N]
		if !ok {
			res.Mismatch("infra:schema", "no Go type for schema "+l.N, nil)
			return
		}
		sig := "rlp:typed"
		// 1. the encoder on the value TLC chose
		if isValue {
			gv, err := build(typ, l.V)
			if err != nil {
				res.Mismatch("infra:build", fmt.Sprintf("%s: %v", l.N, err), string(l.V))
				return
			}
			p := reflect.New(typ)
			p.Elem().Set(gv)
			checkEncoders(tl, sig+":"+l.N, p.Interface(), in, detail) // through the pointer
			if l.N == "u64" || l.N == "uint" {
				checkUintHelpers(tl, sig, gv.Uint(), in, detail)
			}
			// ... and by value, unless the type has a pointer-receiver EncodeRLP (then the package
			// refuses unaddressable values by design)
			_, ptrEnc := p.Interface().(krlp.Encoder)
			if typ.Kind() != reflect.Interface && !ptrEnc {
				checkEncoders(tl, sig+":"+l.N, gv.Interface(), in, detail)
			}
		}
		// 2. the decoder (mirror / generic types)
		runTyped(tl, sig, l.N, in, resJ{E: l.O.E, V: l.O.V, E1: l.O.E1, N: l.O.N}, l.O.C, detail)
		// the untyped decoder must agree with the specification on the same bytes
		{
			var v interface{}
			err := guard(func() error { return krlp.DecodeBytes(in, &v) })
			tl.check(sig, "DecodeBytes(interface{})", in, l.D, err, detail)
		}
		// 3. the real chain types
		want := l.O.E
		if want == "ok" && !l.Sem {
			want = "bad_status"
		}
		switch l.N {
		case "tx":
			chainTx(tl, in, want, l.O.V, isValue, detail)
		case "log":
			chainLog(tl, in, want, l.O.V, detail)
		case "receipt":
			chainReceipt(tl, in, want, l.O.V, false, detail)
		case "sreceipt":
			chainReceipt(tl, in, want, l.O.V, true, detail)
		case "blockinfo":
			chainBlockInfo(tl, in, want, l.O.V, detail)
		case "account":
			if isValue {
				chainAccount(tl, in, detail)
			}
		case "slim":
			if l.O.E == "ok" {
				chainSlim(tl, in, detail)
			}
		case "header":
			if isValue {
				chainHeader(tl, in, n, detail)
			}
		}
		if len(ms) > 0 || (isValue && !l.Norm) {
			res.Distinct(l.N + ":" + hexOf(in))
		} else if isValue {
			res.Distinct(l.N + ":" + string(l.V))
		}
		if n%701 == 5 {
			res.Sample(map[string]interface{}{"schema": l.N, "value": l.V, "mutations": ms, "input": shortHex(in), "typed": l.O.E, "untyped": l.D})
		}
	})
	if err != nil {
		res.Mismatch("infra:read", err.Error(), nil)
	}
	res.Behaviours = sent
	res.Set("replayed_"+tl.name, sent)
}

func hexField(fs []json.RawMessage, i int) []byte {
	var b bytesJ
	_ = json.Unmarshal(fs[i], &b)
	return []byte(b)
}

// types.Transaction: decode / getters / re-encode / hash / size; constructors for unsigned values.
func chainTx(t *tally, in []byte, want string, val json.RawMessage, isValue bool, detail interface{}) {
	const sig = "rlp:chain:tx"
	var tx types.Transaction
	err := guard(func() error { return krlp.DecodeBytes(in, &tx) })
	if !t.check(sig, "DecodeBytes(Transaction)", in, want, err, detail) {
		return
	}
	var fs []json.RawMessage
	if err := json.Unmarshal(val, &fs); err != nil || len(fs) != 9 {
		t.res.Mismatch("infra:parse-value", "tx value", string(val))
		return
	}
	v, r, s := tx.RawSignatureValues()
	isPtr, isNil, inner := ptrForm(fs[3])
	var wantTo []byte
	if isPtr && !isNil {
		var b bytesJ
		_ = json.Unmarshal(inner, &b)
		wantTo = b
	}
	gotTo := []byte(nil)
	if tx.To() != nil {
		gotTo = tx.To().Bytes()
	}
	okFields := bytes.Equal(minimalBE(tx.Nonce()), hexField(fs, 0)) &&
		bytes.Equal(tx.GasPrice().Bytes(), hexField(fs, 1)) &&
		bytes.Equal(minimalBE(tx.Gas()), hexField(fs, 2)) &&
		(tx.To() == nil) == (wantTo == nil) && bytes.Equal(gotTo, wantTo) &&
		bytes.Equal(tx.Value().Bytes(), hexField(fs, 4)) &&
		bytes.Equal(tx.Data(), hexField(fs, 5)) &&
		bytes.Equal(v.Bytes(), hexField(fs, 6)) && bytes.Equal(r.Bytes(), hexField(fs, 7)) && bytes.Equal(s.Bytes(), hexField(fs, 8))
	t.value(sig, "Transaction fields", in, okFields, fmt.Sprintf("decoded transaction (nonce %d, gas %d, to %x, value %v, price %v, data %x, v %v r %v s %v) differs from the specified fields %s",
		tx.Nonce(), tx.Gas(), gotTo, tx.Value(), tx.GasPrice(), tx.Data(), v, r, s, val), detail)
	// encode / hash / size are functions of the canonical bytes
	var out, out2, out3 []byte
	err = guard(func() (e error) {
		if out, e = krlp.EncodeToBytes(&tx); e != nil {
			return
		}
		if out2, e = tx.MarshalBinary(); e != nil {
			return
		}
		out3 = types.Transactions{&tx}.GetRlp(0)
		return
	})
	same := err == nil && bytes.Equal(out, in) && bytes.Equal(out2, in) && bytes.Equal(out3, in)
	t.value(sig, "Transaction re-encode", in, same, fmt.Sprintf("EncodeToBytes %s MarshalBinary %s GetRlp %s (err %v)", shortHex(out), shortHex(out2), shortHex(out3), err), detail)
	t.value(sig, "Transaction.Hash", in, tx.Hash() == keccak(in), "hash of the decoded transaction is not keccak256(encoding)", detail)
	t.value(sig, "Transaction.Size", in, int(tx.Size()) == len(in), fmt.Sprintf("Size() = %v, encoding has %d bytes", tx.Size(), len(in)), detail)
	// unsigned transactions can also be built by the constructors: same bytes, same hash
	if isValue && v.Sign() == 0 && r.Sign() == 0 && s.Sign() == 0 {
		var built *types.Transaction
		if tx.To() != nil {
			built = types.NewTransaction(tx.Nonce(), *tx.To(), tx.Value(), tx.Gas(), tx.GasPrice(), tx.Data())
		} else {
			built = types.NewContractCreation(tx.Nonce(), tx.Value(), tx.Gas(), tx.GasPrice(), tx.Data())
		}
		var enc []byte
		err := guard(func() (e error) { enc, e = krlp.EncodeToBytes(built); return })
		t.res.Count(1)
		if err != nil || !bytes.Equal(enc, in) || built.Hash() != tx.Hash() {
			t.res.Mismatch(sig+":constructed", fmt.Sprintf("transaction built by the constructor encodes to %s (err %v), specified %s", shortHex(enc), err, shortHex(in)), detail)
		}
	}
}

func parseLog(raw json.RawMessage) (addr []byte, topics [][]byte, data []byte, err error) {
	var fs []json.RawMessage
	if err = json.Unmarshal(raw, &fs); err != nil || len(fs) != 3 {
		return nil, nil, nil, fmt.Errorf("log value %s", raw)
	}
	addr = hexField(fs, 0)
	var ts []json.RawMessage
	if err = json.Unmarshal(fs[1], &ts); err != nil {
		return
	}
	for i := range ts {
		topics = append(topics, hexField(ts, i))
	}
	data = hexField(fs, 2)
	return
}

func sameLog(l *types.Log, raw json.RawMessage) bool {
	addr, topics, data, err := parseLog(raw)
	if err != nil || !bytes.Equal(l.Address.Bytes(), addr) || len(l.Topics) != len(topics) || !bytes.Equal(l.Data, data) {
		return false
	}
	for i := range topics {
		if !bytes.Equal(l.Topics[i].Bytes(), topics[i]) {
			return false
		}
	}
	return true
}

// types.Log (consensus encoding) and types.LogForStorage.
func chainLog(t *tally, in []byte, want string, val json.RawMessage, detail interface{}) {
	const sig = "rlp:chain:log"
	var l types.Log
	err := guard(func() error { return krlp.DecodeBytes(in, &l) })
	if t.check(sig, "DecodeBytes(Log)", in, want, err, detail) {
		t.value(sig, "Log fields", in, sameLog(&l, val), "decoded log differs from the specified fields", detail)
		var out []byte
		err := guard(func() (e error) { out, e = krlp.EncodeToBytes(&l); return })
		t.value(sig, "Log re-encode", in, err == nil && bytes.Equal(out, in), fmt.Sprintf("re-encoding %s (err %v)", shortHex(out), err), detail)
	}
	var ls types.LogForStorage
	err = guard(func() error { return krlp.DecodeBytes(in, &ls) })
	if want != "ok" && err == nil {
		// LogForStorage also accepts the legacy 8-field encoding (documented); anything else is a mismatch
		var legacy legacyLogMirror
		if krlp.DecodeBytes(in, &legacy) == nil {
			return
		}
	}
	if t.check(sig, "DecodeBytes(LogForStorage)", in, want, err, detail) {
		t.value(sig, "LogForStorage fields", in, sameLog((*types.Log)(&ls), val), "decoded log differs from the specified fields", detail)
		var out []byte
		err := guard(func() (e error) { out, e = krlp.EncodeToBytes(&ls); return })
		t.value(sig, "LogForStorage re-encode", in, err == nil && bytes.Equal(out, in), fmt.Sprintf("re-encoding %s (err %v)", shortHex(out), err), detail)
	}
}

// types.Receipt (consensus encoding) and types.ReceiptForStorage.
func chainReceipt(t *tally, in []byte, want string, val json.RawMessage, storage bool, detail interface{}) {
	sig, entry := "rlp:chain:receipt", "Receipt"
	if storage {
		sig, entry = "rlp:chain:sreceipt", "ReceiptForStorage"
	}
	var r types.Receipt
	err := guard(func() error {
		if storage {
			return krlp.DecodeBytes(in, (*types.ReceiptForStorage)(&r))
		}
		return krlp.DecodeBytes(in, &r)
	})
	if want != "ok" && err == nil && storage {
		// legacy logs inside a storage receipt (see chainLog)
		var m struct {
			PostStateOrStatus []byte
			CumulativeGasUsed uint64
			Bloom             types.Bloom
			TxHash            common.Hash
			ContractAddress   common.Address
			Logs              []*legacyLogMirror
			GasUsed           uint64
		}
		if krlp.DecodeBytes(in, &m) == nil {
			return
		}
	}
	if !t.check(sig, "DecodeBytes("+entry+")", in, want, err, detail) {
		return
	}
	ok, perr := sameReceipt(&r, val, storage)
	if perr != nil {
		t.res.Mismatch("infra:parse-value", perr.Error(), string(val))
		return
	}
	t.value(sig, entry+" fields", in, ok, fmt.Sprintf("decoded receipt %+v differs from the specified fields", r), detail)
	var out []byte
	err = guard(func() (e error) {
		if storage {
			out, e = krlp.EncodeToBytes((*types.ReceiptForStorage)(&r))
		} else {
			out, e = krlp.EncodeToBytes(&r)
		}
		return
	})
	t.value(sig, entry+" re-encode", in, err == nil && bytes.Equal(out, in), fmt.Sprintf("re-encoding %s (err %v)", shortHex(out), err), detail)
	if !storage {
		var g []byte
		err := guard(func() error { g = types.Receipts{&r}.GetRlp(0); return nil })
		t.value(sig, "Receipts.GetRlp", in, err == nil && bytes.Equal(g, in), "GetRlp (the bytes hashed into the receipt root) differs from the encoding", detail)
	}
}

// sameReceipt compares a decoded receipt with the abstract value of schema receipt / sreceipt.
func sameReceipt(r *types.Receipt, val json.RawMessage, storage bool) (bool, error) {
	var fs []json.RawMessage
	if err := json.Unmarshal(val, &fs); err != nil || (storage && len(fs) != 7) || (!storage && len(fs) != 4) {
		return false, fmt.Errorf("receipt value %s", clip(string(val), 200))
	}
	status := hexField(fs, 0)
	okStatus := false
	switch {
	case len(status) == 0:
		okStatus = r.Status == types.ReceiptStatusFailed && len(r.PostState) == 0
	case len(status) == 1:
		okStatus = r.Status == types.ReceiptStatusSuccessful && len(r.PostState) == 0
	default:
		okStatus = bytes.Equal(r.PostState, status)
	}
	logsIdx := 3
	if storage {
		logsIdx = 5
	}
	var ls []json.RawMessage
	_ = json.Unmarshal(fs[logsIdx], &ls)
	okLogs := len(ls) == len(r.Logs)
	for i := 0; okLogs && i < len(ls); i++ {
		okLogs = sameLog(r.Logs[i], ls[i])
	}
	ok := okStatus && okLogs && bytes.Equal(minimalBE(r.CumulativeGasUsed), hexField(fs, 1)) && bytes.Equal(r.Bloom.Bytes(), hexField(fs, 2))
	if storage {
		ok = ok && bytes.Equal(r.TxHash.Bytes(), hexField(fs, 3)) && bytes.Equal(r.ContractAddress.Bytes(), hexField(fs, 4)) &&
			bytes.Equal(minimalBE(r.GasUsed), hexField(fs, 6))
	}
	return ok, nil
}

// types.BlockInfo: what rawdb stores per block (gas used, rewards, storage receipts, bloom).
func chainBlockInfo(t *tally, in []byte, want string, val json.RawMessage, detail interface{}) {
	const sig = "rlp:chain:blockinfo"
	var bi types.BlockInfo
	err := guard(func() error { return krlp.DecodeBytes(in, &bi) })
	if want != "ok" && err == nil {
		// legacy logs inside a storage receipt (see chainLog)
		var m struct {
			GasUsed  uint64
			Rewards  *big.Int
			Receipts []*struct {
				PostStateOrStatus []byte
				CumulativeGasUsed uint64
				Bloom             types.Bloom
				TxHash            common.Hash
				ContractAddress   common.Address
				Logs              []*legacyLogMirror
				GasUsed           uint64
			}
			Bloom types.Bloom
		}
		if krlp.DecodeBytes(in, &m) == nil {
			return
		}
	}
	if !t.check(sig, "DecodeBytes(BlockInfo)", in, want, err, detail) {
		return
	}
	var fs []json.RawMessage
	if err := json.Unmarshal(val, &fs); err != nil || len(fs) != 4 {
		t.res.Mismatch("infra:parse-value", "blockinfo value", clip(string(val), 200))
		return
	}
	var rs []json.RawMessage
	_ = json.Unmarshal(fs[2], &rs)
	ok := bytes.Equal(minimalBE(bi.GasUsed), hexField(fs, 0)) && bi.Rewards != nil && bytes.Equal(bi.Rewards.Bytes(), hexField(fs, 1)) &&
		bytes.Equal(bi.Bloom.Bytes(), hexField(fs, 3)) && len(rs) == len(bi.Receipts)
	for i := 0; ok && i < len(rs); i++ {
		same, perr := sameReceipt(bi.Receipts[i], rs[i], true)
		ok = same && perr == nil
	}
	t.value(sig, "BlockInfo fields", in, ok, "decoded block info differs from the specified fields", detail)
	var out []byte
	err = guard(func() (e error) { out, e = krlp.EncodeToBytes(&bi); return })
	t.value(sig, "BlockInfo re-encode", in, err == nil && bytes.Equal(out, in), fmt.Sprintf("re-encoding %s (err %v)", shortHex(out), err), detail)
	t.value(sig, "BlockInfo.Size", in, int(bi.Size()) == len(in), fmt.Sprintf("Size() = %v, encoding has %d bytes", bi.Size(), len(in)), detail)
}

// types.StateAccount: the slim form and back must give the same consensus bytes (the account hash).
func chainAccount(t *tally, in []byte, detail interface{}) {
	const sig = "rlp:chain:account"
	var acc types.StateAccount
	if err := guard(func() error { return krlp.DecodeBytes(in, &acc) }); err != nil {
		return // compared by the generic path
	}
	var slim, full []byte
	err := guard(func() (e error) {
		slim = types.SlimAccountRLP(acc)
		full, e = types.FullAccountRLP(slim)
		return
	})
	t.res.Count(1)
	// the slim form drops an EMPTY code hash / root: an account whose CodeHash is the empty string
	// comes back with the hash of empty code (by design of the snapshot format)
	want := in
	if len(acc.CodeHash) == 0 {
		acc2 := acc
		acc2.CodeHash = types.EmptyCodeHash[:]
		want, _ = krlp.EncodeToBytes(&acc2)
	}
	if err != nil || !bytes.Equal(full, want) {
		t.res.Mismatch(sig+":slim-roundtrip", fmt.Sprintf("FullAccountRLP(SlimAccountRLP(a)) = %s (err %v), account encoding %s", shortHex(full), err, shortHex(want)), detail)
	}
}

func chainSlim(t *tally, in []byte, detail interface{}) {
	const sig = "rlp:chain:slim"
	var acc *types.StateAccount
	err := guard(func() (e error) { acc, e = types.FullAccount(in); return })
	t.res.Count(1)
	if err != nil {
		t.res.Mismatch(sig+":FullAccount", fmt.Sprintf("FullAccount rejects a well-formed slim account %s: %v", shortHex(in), err), detail)
		return
	}
	if len(acc.CodeHash) == 0 || acc.Balance == nil {
		t.res.Mismatch(sig+":FullAccount:fields", "FullAccount left CodeHash / Balance empty", detail)
	}
}

// types.Header through its generated EncodeRLP: the RLP bytes survive a round trip; the block hash
// (Header.Hash, protobuf based) survives only if the RLP encoding carries every hashed field.
func chainHeader(t *tally, in []byte, n int, detail interface{}) {
	const sig = "rlp:roundtrip:header"
	var h types.Header
	if err := guard(func() error { return krlp.DecodeBytes(in, &h) }); err != nil {
		return // compared by the generic path
	}
	t.res.Count(2)
	h1 := h
	var h2 types.Header
	err := guard(func() error {
		enc, e := krlp.EncodeToBytes(&h1)
		if e != nil {
			return e
		}
		return krlp.DecodeBytes(enc, &h2)
	})
	if err != nil || h1.Hash() != h2.Hash() {
		t.res.Mismatch(sig+":hash", fmt.Sprintf("header with zero time: decode(encode(h)).Hash() differs (err %v)", err), detail)
	}
	// the same header with its Time field set
	h1.Time = time.Unix(1600000000+int64(n%1000), 0).UTC()
	var h3 types.Header
	err = guard(func() error {
		enc, e := krlp.EncodeToBytes(&h1)
		if e != nil {
			return e
		}
		return krlp.DecodeBytes(enc, &h3)
	})
	if err != nil || h1.Hash() != h3.Hash() {
		t.res.Mismatch(sig+":time-dropped",
			fmt.Sprintf("types.Header does not keep its hash across RLP encode/decode: the generated EncodeRLP writes Time as an empty list, "+
				"so decode(encode(h)).Time is zero and Hash() changes for every header whose Time is set (err %v)", err),
			map[string]interface{}{"header_rlp_zero_time": hexOf(in), "time": h1.Time.String(), "hash_before": h1.Hash().Hex(), "hash_after": h3.Hash().Hex()})
	}
}

var _ = big.NewInt
