package rlp

import (
	"bytes"
	"encoding/json"
	"fmt"
	"math/big"
	"os"
	"sync/atomic"
	"testing"
	"testing/iotest"

	krlp "github.com/kardiachain/go-kardia/lib/rlp"

	"verifharness/internal/mbt"
)

// streamLine is one transition of MC_RLPStream: input, input limit and the history of calls.
type streamLine struct {
	In  bytesJ              `json:"in"`
	Lim int                 `json:"lim"`
	Ls  bool                `json:"ls"` // NewListStream
	H   [][]json.RawMessage `json:"h"`  // [operation, error class, value]
}

type opResult struct {
	err error
	val interface{} // comparable with the specified printable value (see sameOpValue)
}

// applyOp performs one specification operation on the real stream.
func applyOp(s *krlp.Stream, op string) (r opResult) {
	r.err = guard(func() error {
		switch op {
		case "kind":
			k, size, err := s.Kind()
			r.val = []interface{}{kindName(k), int(size)}
			return err
		case "bytes":
			b, err := s.Bytes()
			r.val = b
			return err
		case "raw":
			b, err := s.Raw()
			r.val = b
			return err
		case "u64":
			u, err := s.Uint()
			r.val = minimalBE(u)
			return err
		case "u8":
			var u uint8
			err := s.Decode(&u)
			r.val = minimalBE(uint64(u))
			return err
		case "bool":
			b, err := s.Bool()
			r.val = b
			return err
		case "big":
			var bi *big.Int
			err := s.Decode(&bi)
			if err == nil {
				r.val = bi.Bytes()
			}
			return err
		case "list":
			n, err := s.List()
			r.val = int(n)
			return err
		case "listend":
			r.val = 0
			return s.ListEnd()
		case "rb1", "rb2":
			buf := make([]byte, 1)
			if op == "rb2" {
				buf = make([]byte, 2)
			}
			err := s.ReadBytes(buf)
			r.val = buf
			return err
		case "walk":
			var v interface{}
			err := s.Decode(&v)
			r.val = v
			return err
		}
		return fmt.Errorf("unknown operation %q", op)
	})
	return r
}

func sameOpValue(op string, got interface{}, want json.RawMessage) (bool, string) {
	switch op {
	case "kind":
		var w []json.RawMessage
		if json.Unmarshal(want, &w) != nil || len(w) != 2 {
			return false, "unparsable kind value"
		}
		var k string
		var size int
		_ = json.Unmarshal(w[0], &k)
		_ = json.Unmarshal(w[1], &size)
		g := got.([]interface{})
		// for a single byte the size is 0 in both
		return g[0] == k && g[1] == size, fmt.Sprintf("kind %v size %v, specified kind %s size %d", g[0], g[1], k, size)
	case "bytes", "raw", "u64", "u8", "big", "rb1", "rb2":
		var w bytesJ
		if err := json.Unmarshal(want, &w); err != nil {
			return false, err.Error()
		}
		g, _ := got.([]byte)
		return bytes.Equal(g, w), fmt.Sprintf("value %s, specified %s", shortHex(g), shortHex(w))
	case "bool":
		var w bool
		_ = json.Unmarshal(want, &w)
		return got == w, fmt.Sprintf("%v, specified %v", got, w)
	case "list":
		var w int
		_ = json.Unmarshal(want, &w)
		return got == w, fmt.Sprintf("list size %v, specified %d", got, w)
	case "listend":
		return true, ""
	case "walk":
		var it itemJ
		if err := json.Unmarshal(want, &it); err != nil {
			return false, err.Error()
		}
		return sameItem(got, it.generic()), fmt.Sprintf("item %s, specified %s", showItem(got), showItem(it.generic()))
	}
	return false, "unknown operation"
}

// TestStream: every history of Stream calls TLC explored is replayed on a real rlp.Stream (built
// over a bytes.Reader and over a one-byte-at-a-time plain reader); every call must return the
// specified outcome: ok / EOL / error, and the specified value.
func TestStream(t *testing.T) {
	res := mbt.NewResult()
	defer res.Write()
	tl := newTally(res, "stream")
	defer tl.finish()
	sent, err := mbt.EachLine(os.Getenv("RLP_DUMP"), 0, mbt.EnvInt("RLP_LIMIT", 0), mbt.EnvInt("RLP_STRIDE", 1), mbt.Seed(), func(n int, raw []byte) {
		var l streamLine
		if err := json.Unmarshal(raw, &l); err != nil {
			res.Mismatch("infra:parse", err.Error(), clip(string(raw), 400))
			return
		}
		in := []byte(l.In)
		var ops []string
		for _, st := range l.H {
			var op, e string
			_ = json.Unmarshal(st[0], &op)
			_ = json.Unmarshal(st[1], &e)
			ops = append(ops, op+":"+e)
		}
		detail := map[string]interface{}{"input": hexOf(in), "limit": l.Lim, "list_stream": l.Ls, "history": ops}
		for variant := 0; variant < 2; variant++ {
			var s *krlp.Stream
			switch {
			case variant == 0 && !l.Ls:
				s = krlp.NewStream(bytes.NewReader(in), uint64(l.Lim))
			case variant == 1 && !l.Ls:
				s = krlp.NewStream(onlyReader{iotest.OneByteReader(bytes.NewReader(in))}, uint64(l.Lim))
			case variant == 0:
				s = krlp.NewListStream(bytes.NewReader(in), uint64(l.Lim))
			default:
				s = krlp.NewListStream(onlyReader{iotest.OneByteReader(bytes.NewReader(in))}, uint64(l.Lim))
			}
			for k, st := range l.H {
				var op, want string
				_ = json.Unmarshal(st[0], &op)
				_ = json.Unmarshal(st[1], &want)
				r := applyOp(s, op)
				real := classify(r.err)
				res.Count(1)
				where := fmt.Sprintf("call %d (%s) of %v on input %s limit %d", k+1, op, ops, shortHex(in), l.Lim)
				if real == "PANIC" {
					res.Mismatch("rlp:stream:panic:"+op, where+": "+r.err.Error(), detail)
					break
				}
				// property level: ok / end of list / error
				cat := func(c string) string {
					if c == "ok" || c == "eol" {
						return c
					}
					return "error"
				}
				if cat(real) != cat(want) {
					res.Mismatch("rlp:stream:result:"+op+":"+cat(want)+"->"+cat(real),
						fmt.Sprintf("%s: real result %s (%v), specified %s", where, real, r.err, want), detail)
					break
				}
				if sameClass(want, real) {
					atomic.AddInt64(&tl.classSame, 1)
				} else {
					tl.mu.Lock()
					tl.classDiff++
					tl.diffs[op+":"+want+"->"+real]++
					tl.mu.Unlock()
				}
				if want == "ok" {
					if ok, text := sameOpValue(op, r.val, st[2]); !ok {
						res.Mismatch("rlp:stream:value:"+op, where+": "+text, detail)
						break
					}
				}
			}
		}
		if len(l.H) > 1 {
			res.Distinct(fmt.Sprint(hexOf(in), l.Lim, l.Ls, ops))
		}
		if n%397 == 3 && len(l.H) >= 4 {
			res.Sample(detail)
		}
	})
	if err != nil {
		res.Mismatch("infra:read", err.Error(), nil)
	}
	res.Behaviours = sent
	res.Set("replayed_"+tl.name, sent)
}
