package rlp

import (
	"bytes"
	"encoding/json"
	"fmt"
	"os"
	"reflect"
	"runtime"
	"sort"
	"testing"

	krlp "github.com/kardiachain/go-kardia/lib/rlp"

	"verifharness/internal/mbt"
)

// listsLine is one transition of MC_RLPLists: a list header declaring a large payload.
type listsLine struct {
	Mode  string `json:"mode"` // "lim": payload present, DecodeBytes; "unl": header only, no input limit
	Claim int    `json:"claim"`
	Pre   bytesJ `json:"pre"`
	Len   int    `json:"len"`
	C1    int    `json:"c1"`
	C2    int    `json:"c2"`
	Grow  int    `json:"grow"`
	Hd    []struct {
		N int    `json:"n"`
		S bytesJ `json:"s"`
		L bytesJ `json:"l"`
	} `json:"hd"`
	Ty map[string]struct {
		E string `json:"e"`
		K int    `json:"k"`
	} `json:"ty"`
}

// TestLists: a LIST header never sizes an allocation - with an input limit (DecodeBytes) and without
// (rlp.Decode and NewStream(r, 0).Decode over a plain io.Reader).  Sequential, smallest claim first;
// accept / reject is compared with the specification, the allocation of every call is measured
// (minimum of three runs) against the bound the specification states (RLPStream!AllocBound).
func TestLists(t *testing.T) {
	res := mbt.NewResult()
	defer res.Write()
	tl := newTally(res, "lists")
	defer tl.finish()
	var all []listsLine
	sent, err := mbt.EachLine(os.Getenv("RLP_DUMP"), 1, 0, 1, mbt.Seed(), func(n int, raw []byte) {
		var l listsLine
		if err := json.Unmarshal(raw, &l); err != nil {
			res.Mismatch("infra:parse", err.Error(), clip(string(raw), 400))
			return
		}
		all = append(all, l)
	})
	if err != nil {
		res.Mismatch("infra:read", err.Error(), nil)
	}
	res.Behaviours = sent
	sort.SliceStable(all, func(i, j int) bool { return all[i].Claim < all[j].Claim })
	// the length side of putint: strings and lists with payloads of 255..65537 (and 2^24-1) bytes
	if len(all) > 0 {
		for _, h := range all[0].Hd {
			res.Count(2)
			str := bytes.Repeat([]byte{0xa5}, h.N)
			detail := map[string]interface{}{"payload_bytes": h.N}
			var out []byte
			var back []byte
			err := guard(func() (e error) {
				if out, e = krlp.EncodeToBytes(str); e != nil {
					return
				}
				return krlp.DecodeBytes(out, &back)
			})
			if err != nil || !bytes.Equal(out, append(append([]byte{}, h.S...), str...)) || !bytes.Equal(back, str) {
				res.Mismatch("rlp:encode:long-string-header", fmt.Sprintf("a string of %d bytes encodes with header %s (err %v), specified %s",
					h.N, shortHex(out[:min2(len(out), 6)]), err, hexOf(h.S)), detail)
			}
			// a list whose payload has exactly h.N bytes: one string element with its own header
			hl := 2
			for ; hl < 5; hl++ { // header length of the element: 1 + number of length bytes of (N - hl)
				if m := h.N - hl; (m < 256 && hl == 2) || (m >= 256 && m < 65536 && hl == 3) || (m >= 65536 && hl == 4) {
					break
				}
			}
			elem := bytes.Repeat([]byte{0xa5}, h.N-hl)
			var lst []interface{}
			err = guard(func() (e error) {
				if out, e = krlp.EncodeToBytes([]interface{}{elem}); e != nil {
					return
				}
				var v interface{}
				if e = krlp.DecodeBytes(out, &v); e == nil {
					lst, _ = v.([]interface{})
				}
				return
			})
			ok := err == nil && len(out) == len(h.L)+h.N && bytes.Equal(out[:len(h.L)], h.L) && len(lst) == 1 && sameItem(lst[0], elem)
			if !ok {
				res.Mismatch("rlp:encode:long-list-header", fmt.Sprintf("a list with a payload of %d bytes encodes with header %s, %d bytes in all (err %v), specified header %s",
					h.N, shortHex(out[:min2(len(out), 6)]), len(out), err, hexOf(h.L)), detail)
			}
		}
	}
	skip := map[string]bool{}
	var ms runtime.MemStats
	var maxSeen uint64
	maxWhere := ""
	for _, l := range all {
		in := append([]byte{}, l.Pre...)
		for len(in) < l.Len {
			in = append(in, 0x81, 0x00)
		}
		in = in[:l.Len]
		names := make([]string, 0, len(l.Ty))
		for nm := range l.Ty {
			names = append(names, nm)
		}
		sort.Strings(names)
		for _, nm := range names {
			want := l.Ty[nm]
			typ := schemaTypes[nm]
			var elem uint64 = 16 // interface{} decodes into []interface{}
			if typ.Kind() == reflect.Slice {
				elem = uint64(typ.Elem().Size())
			}
			bound := uint64(l.C2) + uint64(l.C1)*uint64(len(in)) + uint64(l.Grow)*uint64(want.K+4)*elem
			type entry struct {
				name string
				run  func(p interface{}) error
			}
			var entries []entry
			if l.Mode == "lim" {
				entries = []entry{{"DecodeBytes", func(p interface{}) error { return krlp.DecodeBytes(in, p) }}}
			} else {
				entries = []entry{
					{"Decode(io.Reader,no limit)", func(p interface{}) error { return krlp.Decode(onlyReader{bytes.NewReader(in)}, p) }},
					{"NewStream(io.Reader,0).Decode", func(p interface{}) error {
						return krlp.NewStream(onlyReader{bytes.NewReader(in)}, 0).Decode(p)
					}},
				}
			}
			for _, e := range entries {
				key := e.name + "(" + nm + ")"
				if skip[key] {
					continue
				}
				detail := map[string]interface{}{"entry": key, "input_prefix": hexOf(l.Pre), "input_len": len(in), "declared_list_size": l.Claim, "mode": l.Mode}
				var delta uint64
				var derr error
				for try := 0; try < 3; try++ {
					p := reflect.New(typ).Interface()
					runtime.ReadMemStats(&ms)
					before := ms.TotalAlloc
					derr = guard(func() error { return e.run(p) })
					runtime.ReadMemStats(&ms)
					d := ms.TotalAlloc - before
					if try == 0 || d < delta {
						delta = d
					}
					if classify(derr) == "PANIC" || delta <= bound {
						break
					}
				}
				tl.check("rlp:lists", key, in[:min2(len(in), 40)], want.E, derr, detail)
				res.Distinct(fmt.Sprint(key, l.Claim, hexOf(l.Pre)))
				detail["allocated"] = delta
				detail["bound"] = bound
				if delta > bound {
					res.Mismatch("rlp:alloc:list-header:"+key,
						fmt.Sprintf("%s allocated %d bytes for a %d-byte input whose LIST header declares %d bytes (prefix %s; %d element(s) decoded before it fails): "+
							"the specified bound is %d + %d*len(input) + %d*(k+4)*%d = %d - the allocation follows the declared size, not the decoded elements",
							key, delta, len(in), l.Claim, hexOf(l.Pre), want.K, l.C2, l.C1, l.Grow, elem, bound), detail)
					skip[key] = true
					continue
				}
				if delta > maxSeen {
					maxSeen, maxWhere = delta, fmt.Sprintf("%s claim %d len %d", key, l.Claim, len(in))
				}
			}
		}
	}
	res.Set("list_alloc_max_bytes", int(maxSeen))
	res.Set("list_alloc_max_where", maxWhere)
	res.Set("replayed_"+tl.name, sent)
}
