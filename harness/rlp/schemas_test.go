package rlp

import (
	"bytes"
	"encoding/json"
	"fmt"
	"math/big"
	"reflect"
	"strings"
	"unsafe"

	"github.com/kardiachain/go-kardia/lib/common"
	krlp "github.com/kardiachain/go-kardia/lib/rlp"
	"github.com/kardiachain/go-kardia/types"
)

// ---------------------------------------------------------------------------------------------
// The fixed schema set (specs/rlp/RLPSchemas.tla): one Go type per schema name.

type Inner struct {
	X uint64
	Y []byte
}
type Nested struct {
	A uint64
	I Inner
	B string
}
type OptS struct {
	A uint64
	B uint64   `rlp:"optional"`
	C *big.Int `rlp:"optional"`
}
type OptP struct {
	A uint64
	P *big.Int `rlp:"optional"`
	Q *[2]byte `rlp:"optional"`
}
type TailS struct {
	A uint64
	R []uint64 `rlp:"tail"`
}
type NilS struct {
	P *[20]byte `rlp:"nil"`
	Q *Inner    `rlp:"nil"`
	U *uint64   `rlp:"nil"`
	L *[]uint64 `rlp:"nil"`
}
type NilX struct {
	Q *Inner  `rlp:"nilString"`
	U *uint64 `rlp:"nilList"`
}
type PtrS struct {
	U *uint64
	I *Inner
}
type Rows []Inner
type ArrU [2]uint64

// Structs with fields the codec does not see (rlp:"-" and unexported) at every position relative to
// optional / tail / nil-tagged fields.  For these types (fullTypes) the abstract value lists ALL Go
// fields in declaration order: the ignored ones are part of the Go value - the encoder must not look
// at them, the decoder must not touch them and must not let them shift the other fields.
type IgA struct {
	A     uint64
	Cache uint64 `rlp:"-"`
	B     uint64 `rlp:"optional"`
	C     uint64 `rlp:"optional"`
}
type IgB struct {
	hidden uint64
	A      uint64
	x      uint64
	y      bool
	B      *big.Int `rlp:"optional"`
	z      uint64
	C      uint64 `rlp:"optional"`
	W      uint64 `rlp:"-"`
}
type IgT struct {
	X uint64 `rlp:"-"`
	A uint64
	h uint64
	R []uint64 `rlp:"tail"`
	t uint64
}
type IgN struct {
	c    uint64
	P    *uint64 `rlp:"nil"`
	Skip uint64  `rlp:"-"`
	Q    *Inner  `rlp:"nil"`
	d    bool
}
type OptIn struct {
	X     uint64
	Cache uint64 `rlp:"-"`
	Y     uint64 `rlp:"optional"`
}
type IgE struct {
	A uint64
	OptIn
	n uint64
	P *OptIn `rlp:"nil"`
	Z uint64 `rlp:"optional"`
}
type OnlyOpt struct {
	O uint64 `rlp:"optional"`
}
type IgOnly struct {
	h uint64
	O uint64 `rlp:"optional"`
	T uint64 `rlp:"-"`
}

// Pointers to every kind in every position (RLPSchemas: PtrPlain, PtrNil, PtrNilS, PtrNilL, PtrOpt).
type PtrPlain struct {
	B   *bool
	U8  *uint8
	U16 *uint16
	U32 *uint32
	U64 *uint64
	Big *big.Int
	S   *string
	A   *[2]byte
	Y   *[]byte
	St  *Inner
	L   *[]uint64
}
type PtrNil struct {
	B   *bool     `rlp:"nil"`
	U8  *uint8    `rlp:"nil"`
	U16 *uint16   `rlp:"nil"`
	U32 *uint32   `rlp:"nil"`
	U64 *uint64   `rlp:"nil"`
	Big *big.Int  `rlp:"nil"`
	S   *string   `rlp:"nil"`
	A   *[2]byte  `rlp:"nil"`
	Y   *[]byte   `rlp:"nil"`
	St  *Inner    `rlp:"nil"`
	L   *[]uint64 `rlp:"nil"`
}
type PtrNilS struct {
	B   *bool     `rlp:"nilString"`
	U8  *uint8    `rlp:"nilString"`
	U16 *uint16   `rlp:"nilString"`
	U32 *uint32   `rlp:"nilString"`
	U64 *uint64   `rlp:"nilString"`
	Big *big.Int  `rlp:"nilString"`
	S   *string   `rlp:"nilString"`
	A   *[2]byte  `rlp:"nilString"`
	Y   *[]byte   `rlp:"nilString"`
	St  *Inner    `rlp:"nilString"`
	L   *[]uint64 `rlp:"nilString"`
}
type PtrNilL struct {
	B   *bool     `rlp:"nilList"`
	U8  *uint8    `rlp:"nilList"`
	U16 *uint16   `rlp:"nilList"`
	U32 *uint32   `rlp:"nilList"`
	U64 *uint64   `rlp:"nilList"`
	Big *big.Int  `rlp:"nilList"`
	S   *string   `rlp:"nilList"`
	A   *[2]byte  `rlp:"nilList"`
	Y   *[]byte   `rlp:"nilList"`
	St  *Inner    `rlp:"nilList"`
	L   *[]uint64 `rlp:"nilList"`
}
type PtrOpt struct {
	N   uint64
	B   *bool     `rlp:"optional"`
	U8  *uint8    `rlp:"optional"`
	U16 *uint16   `rlp:"optional"`
	U32 *uint32   `rlp:"optional"`
	U64 *uint64   `rlp:"optional"`
	Big *big.Int  `rlp:"optional"`
	S   *string   `rlp:"optional"`
	A   *[2]byte  `rlp:"optional"`
	Y   *[]byte   `rlp:"optional"`
	St  *Inner    `rlp:"optional"`
	L   *[]uint64 `rlp:"optional"`
}
type PtrB struct {
	N      uint64
	Active *bool
	Name   string
}

// fullTypes: struct types whose abstract values list every Go field (see above).
var fullTypes = map[reflect.Type]bool{
	reflect.TypeOf(IgA{}): true, reflect.TypeOf(IgB{}): true, reflect.TypeOf(IgT{}): true, reflect.TypeOf(IgN{}): true,
	reflect.TypeOf(OptIn{}): true, reflect.TypeOf(IgE{}): true, reflect.TypeOf(OnlyOpt{}): true, reflect.TypeOf(IgOnly{}): true,
}

// mirrors of the unexported wire structs of /repo/types (same field types, same tags, same order);
// used to decode with the generic machinery next to the real types
type TxMirror struct {
	AccountNonce uint64
	Price        *big.Int
	GasLimit     uint64
	Recipient    *common.Address `rlp:"nil"`
	Amount       *big.Int
	Payload      []byte
	V, R, S      *big.Int
}
type LogMirror struct {
	Address common.Address
	Topics  []common.Hash
	Data    []byte
}
type ReceiptMirror struct {
	PostStateOrStatus []byte
	CumulativeGasUsed uint64
	Bloom             types.Bloom
	Logs              []*LogMirror
}
type SReceiptMirror struct {
	PostStateOrStatus []byte
	CumulativeGasUsed uint64
	Bloom             types.Bloom
	TxHash            common.Hash
	ContractAddress   common.Address
	Logs              []*LogMirror
	GasUsed           uint64
}

type BlockInfoMirror struct {
	GasUsed  uint64
	Rewards  *big.Int
	Receipts []*SReceiptMirror
	Bloom    types.Bloom
}

var schemaTypes = map[string]reflect.Type{
	"uint":   reflect.TypeOf(uint(0)),
	"bigv":   reflect.TypeOf(big.Int{}),
	"u8":     reflect.TypeOf(uint8(0)),
	"u16":    reflect.TypeOf(uint16(0)),
	"u32":    reflect.TypeOf(uint32(0)),
	"u64":    reflect.TypeOf(uint64(0)),
	"big":    reflect.TypeOf((*big.Int)(nil)),
	"bool":   reflect.TypeOf(false),
	"bytes":  reflect.TypeOf([]byte(nil)),
	"string": reflect.TypeOf(""),
	"arr1":   reflect.TypeOf([1]byte{}),
	"arr2":   reflect.TypeOf([2]byte{}),
	"arr20":  reflect.TypeOf([20]byte{}),
	"raw":    reflect.TypeOf(krlp.RawValue(nil)),
	"iface":  reflect.TypeOf((*interface{})(nil)).Elem(),
	"Inner":  reflect.TypeOf(Inner{}),
	"Nested": reflect.TypeOf(Nested{}),
	"OptS":   reflect.TypeOf(OptS{}),
	"OptP":   reflect.TypeOf(OptP{}),
	"TailS":  reflect.TypeOf(TailS{}),
	"NilS":   reflect.TypeOf(NilS{}),
	"NilX":   reflect.TypeOf(NilX{}),
	"PtrS":   reflect.TypeOf(PtrS{}),
	"Rows":   reflect.TypeOf(Rows(nil)),
	"ArrU":   reflect.TypeOf(ArrU{}),
	"IgA":    reflect.TypeOf(IgA{}), "IgB": reflect.TypeOf(IgB{}), "IgT": reflect.TypeOf(IgT{}), "IgN": reflect.TypeOf(IgN{}),
	"OptIn": reflect.TypeOf(OptIn{}), "IgE": reflect.TypeOf(IgE{}), "OnlyOpt": reflect.TypeOf(OnlyOpt{}), "IgOnly": reflect.TypeOf(IgOnly{}),
	"pbool": reflect.TypeOf((*bool)(nil)), "pu16": reflect.TypeOf((*uint16)(nil)), "pstr": reflect.TypeOf((*string)(nil)), "pInner": reflect.TypeOf((*Inner)(nil)),
	"PtrPlain": reflect.TypeOf(PtrPlain{}), "PtrNil": reflect.TypeOf(PtrNil{}), "PtrNilS": reflect.TypeOf(PtrNilS{}), "PtrNilL": reflect.TypeOf(PtrNilL{}),
	"PtrOpt": reflect.TypeOf(PtrOpt{}), "PtrB": reflect.TypeOf(PtrB{}),
	"SU64": reflect.TypeOf([]uint64(nil)), "SArr32": reflect.TypeOf([][32]byte(nil)), "SPtr": reflect.TypeOf([]*Inner(nil)), "SBig": reflect.TypeOf([]*big.Int(nil)),
	// chain types that the generic machinery can handle directly
	"account":   reflect.TypeOf(types.StateAccount{}),
	"slim":      reflect.TypeOf(types.SlimAccount{}),
	"header":    reflect.TypeOf(types.Header{}),
	"tx":        reflect.TypeOf(TxMirror{}),
	"log":       reflect.TypeOf(LogMirror{}),
	"receipt":   reflect.TypeOf(ReceiptMirror{}),
	"sreceipt":  reflect.TypeOf(SReceiptMirror{}),
	"blockinfo": reflect.TypeOf(BlockInfoMirror{}),
}

var (
	bigPtrType = reflect.TypeOf((*big.Int)(nil))
	bigValType = reflect.TypeOf(big.Int{})
	rawType    = reflect.TypeOf(krlp.RawValue(nil))
)

// ignoredField: the codec does not see the field (unexported or rlp:"-").
func ignoredField(f reflect.StructField) bool {
	if f.PkgPath != "" {
		return true
	}
	for _, tag := range strings.Split(f.Tag.Get("rlp"), ",") {
		if strings.TrimSpace(tag) == "-" {
			return true
		}
	}
	return false
}

// rlpFields lists the fields of a struct type that appear in its abstract value: the ones the codec
// sees, or - for fullTypes - all of them.
func rlpFields(t reflect.Type) []int {
	var out []int
	for i := 0; i < t.NumField(); i++ {
		if fullTypes[t] || !ignoredField(t.Field(i)) {
			out = append(out, i)
		}
	}
	return out
}

// settable returns v in a form that can be Set even if it was reached through an unexported field.
func settable(v reflect.Value) reflect.Value {
	if v.CanSet() {
		return v
	}
	return reflect.NewAt(v.Type(), unsafe.Pointer(v.UnsafeAddr())).Elem()
}

// sentinel / sentinelTree: what prepopulate puts into scalar fields and how it reads back.
func sentinelTree(t reflect.Type) interface{} {
	switch {
	case t.Kind() >= reflect.Uint && t.Kind() <= reflect.Uintptr:
		return "ee"
	case t.Kind() == reflect.Bool:
		return true
	}
	return nil
}

// prepopulate fills every uint / bool field of a struct value (recursively through struct-valued
// fields, not through pointers) with a sentinel: decoding into such a value must overwrite or zero
// every codec field and must leave the ignored ones alone.
func prepopulate(v reflect.Value) {
	if v.Kind() != reflect.Struct || !fullTypes[v.Type()] {
		return
	}
	for i := 0; i < v.NumField(); i++ {
		f := settable(v.Field(i))
		switch {
		case f.Kind() >= reflect.Uint && f.Kind() <= reflect.Uintptr:
			f.SetUint(0xee)
		case f.Kind() == reflect.Bool:
			f.SetBool(true)
		case f.Kind() == reflect.Struct:
			prepopulate(f)
		}
	}
}

// keepIgnored rewrites the tree expected after decoding into a FRESH value into the tree expected
// after decoding into a prepopulated one: ignored fields hold the sentinel.
func keepIgnored(t reflect.Type, tree interface{}) interface{} {
	if t.Kind() != reflect.Struct || !fullTypes[t] {
		return tree
	}
	fs, ok := tree.([]interface{})
	if !ok || len(fs) != t.NumField() {
		return tree
	}
	out := make([]interface{}, len(fs))
	for i := range fs {
		f := t.Field(i)
		switch {
		case ignoredField(f) && sentinelTree(f.Type) != nil:
			out[i] = sentinelTree(f.Type)
		case f.Type.Kind() == reflect.Struct:
			out[i] = keepIgnored(f.Type, fs[i])
		default:
			out[i] = fs[i]
		}
	}
	return out
}

func isByteSeq(t reflect.Type) bool {
	return (t.Kind() == reflect.Slice || t.Kind() == reflect.Array) && t.Elem().Kind() == reflect.Uint8
}

func minimalBE(u uint64) []byte {
	var out []byte
	for ; u > 0; u >>= 8 {
		out = append([]byte{byte(u)}, out...)
	}
	return out
}

// ptrForm reports whether raw is the pointer record {"p": "nil"} / {"p": "val", "v": ...}.
func ptrForm(raw json.RawMessage) (isPtr, isNil bool, inner json.RawMessage) {
	raw = bytes.TrimSpace(raw)
	if len(raw) == 0 || raw[0] != '{' {
		return false, false, nil
	}
	var o struct {
		P *string         `json:"p"`
		V json.RawMessage `json:"v"`
	}
	if err := json.Unmarshal(raw, &o); err != nil || o.P == nil {
		return false, false, nil
	}
	return true, *o.P == "nil", o.V
}

// ---------------------------------------------------------------------------------------------
// abstract value (JSON printed by RLPTyped!PV)  ->  comparable tree
// Go value                                      ->  comparable tree
//
// comparable tree: hex string for integers and byte strings, bool, []interface{} for structs /
// slices / arrays, "nil" or map{"val": x} for pointers, map{"s"|"l"} for interface{} items.

func wantTree(t reflect.Type, raw json.RawMessage) (interface{}, error) {
	switch {
	case t == bigValType:
		var b bytesJ
		if err := json.Unmarshal(raw, &b); err != nil {
			return nil, err
		}
		return hexOf(b), nil
	case t.Kind() == reflect.Ptr:
		isPtr, isNil, inner := ptrForm(raw)
		if isPtr && isNil {
			return "nil", nil
		}
		if !isPtr {
			inner = raw // the schema treats the pointer as its element (never nil after decoding)
		}
		if t == bigPtrType {
			var b bytesJ
			if err := json.Unmarshal(inner, &b); err != nil {
				return nil, err
			}
			return map[string]interface{}{"val": hexOf(b)}, nil
		}
		x, err := wantTree(t.Elem(), inner)
		return map[string]interface{}{"val": x}, err
	case t.Kind() >= reflect.Uint && t.Kind() <= reflect.Uintptr, t.Kind() == reflect.String, isByteSeq(t):
		var b bytesJ
		if err := json.Unmarshal(raw, &b); err != nil {
			return nil, fmt.Errorf("%v: %w (%s)", t, err, raw)
		}
		return hexOf(b), nil
	case t.Kind() == reflect.Bool:
		var b bool
		err := json.Unmarshal(raw, &b)
		return b, err
	case t.Kind() == reflect.Interface:
		var it itemJ
		if err := json.Unmarshal(raw, &it); err != nil {
			return nil, err
		}
		return itemTree(it.generic()), nil
	case t.Kind() == reflect.Struct:
		var fs []json.RawMessage
		if err := json.Unmarshal(raw, &fs); err != nil {
			return nil, fmt.Errorf("%v: %w (%s)", t, err, raw)
		}
		idx := rlpFields(t)
		if len(fs) != len(idx) {
			return nil, fmt.Errorf("%v: %d abstract fields for %d struct fields", t, len(fs), len(idx))
		}
		out := make([]interface{}, len(idx))
		for i, fi := range idx {
			x, err := wantTree(t.Field(fi).Type, fs[i])
			if err != nil {
				return nil, err
			}
			out[i] = x
		}
		return out, nil
	case t.Kind() == reflect.Slice || t.Kind() == reflect.Array:
		var es []json.RawMessage
		if err := json.Unmarshal(raw, &es); err != nil {
			return nil, fmt.Errorf("%v: %w (%s)", t, err, raw)
		}
		out := make([]interface{}, len(es))
		for i := range es {
			x, err := wantTree(t.Elem(), es[i])
			if err != nil {
				return nil, err
			}
			out[i] = x
		}
		return out, nil
	}
	return nil, fmt.Errorf("unsupported type %v", t)
}

func itemTree(x interface{}) interface{} {
	switch v := x.(type) {
	case []byte:
		return map[string]interface{}{"s": hexOf(v)}
	case []interface{}:
		out := make([]interface{}, len(v))
		for i := range v {
			out[i] = itemTree(v[i])
		}
		return map[string]interface{}{"l": out}
	case nil:
		return "nil-interface"
	}
	return fmt.Sprintf("unexpected %T", x)
}

func gotTree(v reflect.Value) interface{} {
	t := v.Type()
	switch {
	case t == bigValType:
		bi := v.Interface().(big.Int)
		if bi.Sign() < 0 {
			return "NEGATIVE"
		}
		return hexOf(bi.Bytes())
	case t.Kind() == reflect.Ptr:
		if v.IsNil() {
			return "nil"
		}
		if t == bigPtrType {
			bi := v.Interface().(*big.Int)
			if bi.Sign() < 0 {
				return map[string]interface{}{"val": "NEGATIVE"}
			}
			return map[string]interface{}{"val": hexOf(bi.Bytes())}
		}
		return map[string]interface{}{"val": gotTree(v.Elem())}
	case t.Kind() >= reflect.Uint && t.Kind() <= reflect.Uintptr:
		return hexOf(minimalBE(v.Uint()))
	case t.Kind() == reflect.String:
		return hexOf([]byte(v.String()))
	case isByteSeq(t):
		if t.Kind() == reflect.Array {
			b := make([]byte, v.Len())
			reflect.Copy(reflect.ValueOf(b), v)
			return hexOf(b)
		}
		return hexOf(v.Bytes())
	case t.Kind() == reflect.Bool:
		return v.Bool()
	case t.Kind() == reflect.Interface:
		if v.IsNil() {
			return "nil-interface"
		}
		return itemTree(v.Interface())
	case t.Kind() == reflect.Struct:
		idx := rlpFields(t)
		out := make([]interface{}, len(idx))
		for i, fi := range idx {
			out[i] = gotTree(v.Field(fi))
		}
		return out
	case t.Kind() == reflect.Slice || t.Kind() == reflect.Array:
		out := make([]interface{}, v.Len())
		for i := 0; i < v.Len(); i++ {
			out[i] = gotTree(v.Index(i))
		}
		return out
	}
	return fmt.Sprintf("unsupported %v", t)
}

// build constructs the Go value of type t for an abstract value (for encoding tests).
func build(t reflect.Type, raw json.RawMessage) (reflect.Value, error) {
	v := reflect.New(t).Elem()
	switch {
	case t == bigValType:
		var b bytesJ
		if err := json.Unmarshal(raw, &b); err != nil {
			return v, err
		}
		v.Set(reflect.ValueOf(*new(big.Int).SetBytes(b)))
		return v, nil
	case t.Kind() == reflect.Ptr:
		isPtr, isNil, inner := ptrForm(raw)
		if isPtr && isNil {
			return v, nil // nil pointer
		}
		if !isPtr {
			inner = raw
		}
		if t == bigPtrType {
			var b bytesJ
			if err := json.Unmarshal(inner, &b); err != nil {
				return v, err
			}
			return reflect.ValueOf(new(big.Int).SetBytes(b)), nil
		}
		e, err := build(t.Elem(), inner)
		if err != nil {
			return v, err
		}
		p := reflect.New(t.Elem())
		p.Elem().Set(e)
		return p, nil
	case t.Kind() >= reflect.Uint && t.Kind() <= reflect.Uintptr:
		var b bytesJ
		if err := json.Unmarshal(raw, &b); err != nil {
			return v, err
		}
		if len(b) > 8 {
			return v, fmt.Errorf("integer of %d bytes", len(b))
		}
		var u uint64
		for _, x := range b {
			u = u<<8 | uint64(x)
		}
		v.SetUint(u)
		return v, nil
	case t.Kind() == reflect.String:
		var b bytesJ
		if err := json.Unmarshal(raw, &b); err != nil {
			return v, err
		}
		v.SetString(string(b))
		return v, nil
	case isByteSeq(t):
		var b bytesJ
		if err := json.Unmarshal(raw, &b); err != nil {
			return v, err
		}
		if t.Kind() == reflect.Array {
			if len(b) != t.Len() {
				return v, fmt.Errorf("%d bytes for %v", len(b), t)
			}
			reflect.Copy(v, reflect.ValueOf([]byte(b)))
			return v, nil
		}
		if len(b) == 0 {
			b = bytesJ{} // empty, not nil (nil and empty are one abstract value)
		}
		v.SetBytes([]byte(b))
		return v, nil
	case t.Kind() == reflect.Bool:
		var b bool
		err := json.Unmarshal(raw, &b)
		v.SetBool(b)
		return v, err
	case t.Kind() == reflect.Interface:
		var it itemJ
		if err := json.Unmarshal(raw, &it); err != nil {
			return v, err
		}
		v.Set(reflect.ValueOf(it.generic()))
		return v, nil
	case t.Kind() == reflect.Struct:
		var fs []json.RawMessage
		if err := json.Unmarshal(raw, &fs); err != nil {
			return v, err
		}
		idx := rlpFields(t)
		if len(fs) != len(idx) {
			return v, fmt.Errorf("%v: %d abstract fields for %d struct fields", t, len(fs), len(idx))
		}
		for i, fi := range idx {
			f, err := build(t.Field(fi).Type, fs[i])
			if err != nil {
				return v, err
			}
			settable(v.Field(fi)).Set(f)
		}
		return v, nil
	case t.Kind() == reflect.Slice || t.Kind() == reflect.Array:
		var es []json.RawMessage
		if err := json.Unmarshal(raw, &es); err != nil {
			return v, err
		}
		if t.Kind() == reflect.Slice {
			v = reflect.MakeSlice(t, len(es), len(es))
		} else if len(es) != t.Len() {
			return v, fmt.Errorf("%d elements for %v", len(es), t)
		}
		for i := range es {
			e, err := build(t.Elem(), es[i])
			if err != nil {
				return v, err
			}
			v.Index(i).Set(e)
		}
		return v, nil
	}
	return v, fmt.Errorf("unsupported type %v", t)
}

func treeString(x interface{}) string {
	b, _ := json.Marshal(x)
	s := string(b)
	if len(s) > 600 {
		s = s[:600] + "..."
	}
	return s
}
