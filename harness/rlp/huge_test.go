package rlp

import (
	"bytes"
	"encoding/json"
	"fmt"
	"math/big"
	"os"
	"path/filepath"
	"runtime"
	"sort"
	"testing"

	krlp "github.com/kardiachain/go-kardia/lib/rlp"
	"github.com/kardiachain/go-kardia/types"

	"verifharness/internal/mbt"
)

// hugeLine is one transition of MC_RLPHuge: a header claiming up to 2^64-1 bytes.
type hugeLine struct {
	B  bytesJ   `json:"b"`
	Cl bytesJ   `json:"cl"` // the claimed size, big endian
	U  untypedJ `json:"u"`
	Ty map[string]struct {
		E  string          `json:"e"`
		V  json.RawMessage `json:"v"`
		C  bool            `json:"c"`
		E1 string          `json:"e1"`
		N  int             `json:"n"`
	} `json:"ty"`
}

// allocEntries are the calls whose allocation is measured on every adversarial input.
var allocEntries = []struct {
	name string
	run  func(in []byte) error
}{
	{"DecodeBytes(interface{})", func(in []byte) error { var v interface{}; return krlp.DecodeBytes(in, &v) }},
	{"DecodeBytes([]byte)", func(in []byte) error { var v []byte; return krlp.DecodeBytes(in, &v) }},
	{"DecodeBytes(string)", func(in []byte) error { var v string; return krlp.DecodeBytes(in, &v) }},
	{"DecodeBytes(*big.Int)", func(in []byte) error { var v *big.Int; return krlp.DecodeBytes(in, &v) }},
	{"DecodeBytes(uint64)", func(in []byte) error { var v uint64; return krlp.DecodeBytes(in, &v) }},
	{"DecodeBytes(RawValue)", func(in []byte) error { var v krlp.RawValue; return krlp.DecodeBytes(in, &v) }},
	{"DecodeBytes([20]byte)", func(in []byte) error { var v [20]byte; return krlp.DecodeBytes(in, &v) }},
	{"DecodeBytes([]Inner)", func(in []byte) error { var v Rows; return krlp.DecodeBytes(in, &v) }},
	{"DecodeBytes([]RawValue)", func(in []byte) error { var v []krlp.RawValue; return krlp.DecodeBytes(in, &v) }},
	{"DecodeBytes(TailS)", func(in []byte) error { var v TailS; return krlp.DecodeBytes(in, &v) }},
	{"DecodeBytes(Transaction)", func(in []byte) error { var v types.Transaction; return krlp.DecodeBytes(in, &v) }},
	{"DecodeBytes(Receipt)", func(in []byte) error { var v types.Receipt; return krlp.DecodeBytes(in, &v) }},
	{"DecodeBytes(ReceiptForStorage)", func(in []byte) error { var v types.ReceiptForStorage; return krlp.DecodeBytes(in, &v) }},
	{"DecodeBytes(StateAccount)", func(in []byte) error { var v types.StateAccount; return krlp.DecodeBytes(in, &v) }},
	{"Decode(reader)", func(in []byte) error { var v interface{}; return krlp.Decode(bytes.NewReader(in), &v) }},
	{"Stream.Bytes", func(in []byte) error {
		_, err := krlp.NewStream(bytes.NewReader(in), uint64(len(in))).Bytes()
		return err
	}},
	{"Stream.Raw", func(in []byte) error {
		_, err := krlp.NewStream(bytes.NewReader(in), uint64(len(in))).Raw()
		return err
	}},
	{"Stream.Uint", func(in []byte) error {
		_, err := krlp.NewStream(bytes.NewReader(in), uint64(len(in))).Uint()
		return err
	}},
	{"Stream.List+Bytes", func(in []byte) error {
		s := krlp.NewStream(bytes.NewReader(in), uint64(len(in)))
		if _, err := s.List(); err != nil {
			return err
		}
		_, err := s.Bytes()
		return err
	}},
	{"Stream.List+Raw+Raw", func(in []byte) error {
		s := krlp.NewStream(bytes.NewReader(in), uint64(len(in)))
		if _, err := s.List(); err != nil {
			return err
		}
		if _, err := s.Raw(); err != nil {
			return err
		}
		_, err := s.Raw()
		return err
	}},
	{"Stream.walk", func(in []byte) error {
		_, err := walk(krlp.NewStream(bytes.NewReader(in), uint64(len(in))))
		return err
	}},
	{"Split", func(in []byte) error { _, _, _, err := krlp.Split(in); return err }},
	{"CountValues", func(in []byte) error { _, err := krlp.CountValues(in); return err }},
	{"SplitUint64", func(in []byte) error { _, _, err := krlp.SplitUint64(in); return err }},
	{"NewListIterator", func(in []byte) error {
		it, err := krlp.NewListIterator(in)
		if err != nil {
			return err
		}
		for n := 0; it.Next() && it.Err() == nil && n <= len(in); n++ {
		}
		return it.Err()
	}},
}

// allocBound: what a decoder may allocate for an input of n bytes: a fixed overhead (stream, reader,
// reflection, error values) plus a small multiple of the input length.
func allocBound(n int) uint64 { return 8192 + 16*uint64(n) }

// TestHuge: generation (d).  Everything here is sequential and ordered by the claimed size, because a
// decoder that trusts a header can take the whole test binary down:
//  1. the allocation guard: no entry point may allocate more than allocBound(len(input)), none may
//     panic; an entry point that fails is not tried on bigger claims;
//  2. only if the guard found nothing: every comparison of TestStrings on the adversarial strings.
//
// The input currently worked on is kept in $VERIF_SCRATCH/rlp-alloc-current.json so that a fatal
// out-of-memory of the test binary can still be attributed by the runner.
func TestHuge(t *testing.T) {
	res := mbt.NewResult()
	defer res.Write()
	tl := newTally(res, "huge")
	defer tl.finish()
	type adv struct {
		n    int
		line hugeLine
	}
	var all []adv
	sent, err := mbt.EachLine(os.Getenv("RLP_DUMP"), 1, mbt.EnvInt("RLP_LIMIT", 0), mbt.EnvInt("RLP_STRIDE", 1), mbt.Seed(), func(n int, raw []byte) {
		var l hugeLine
		if err := json.Unmarshal(raw, &l); err != nil {
			res.Mismatch("infra:parse", err.Error(), clip(string(raw), 400))
			return
		}
		all = append(all, adv{n, l})
	})
	if err != nil {
		res.Mismatch("infra:read", err.Error(), nil)
	}
	res.Behaviours = sent
	res.Set("replayed_"+tl.name, sent)
	sort.SliceStable(all, func(i, j int) bool {
		a, b := bytes.TrimLeft(all[i].line.Cl, "\x00"), bytes.TrimLeft(all[j].line.Cl, "\x00")
		if len(a) != len(b) {
			return len(a) < len(b)
		}
		if c := bytes.Compare(a, b); c != 0 {
			return c < 0
		}
		return bytes.Compare(all[i].line.B, all[j].line.B) < 0
	})

	// the marker file is kept open and overwritten in place (fixed width, space padded)
	var marker *os.File
	markerPath := filepath.Join(os.Getenv("VERIF_SCRATCH"), "rlp-alloc-current.json")
	if os.Getenv("VERIF_SCRATCH") != "" {
		marker, _ = os.Create(markerPath)
	}
	pad := bytes.Repeat([]byte(" "), 512)
	mark := func(entry string, in, claim []byte) {
		if marker != nil {
			line := append([]byte(fmt.Sprintf(`{"entry":%q,"input":%q,"claimed_size":%q}`, entry, clip(hexOf(in), 300), hexOf(claim))), pad...)
			_, _ = marker.WriteAt(line[:512], 0)
		}
	}

	// 1. allocation guard, smallest claim first
	skip := map[string]bool{} // entry points that already showed a violation (do not try bigger claims)
	var maxSeen uint64
	maxWhere := ""
	measured := 0
	var ms runtime.MemStats
	for _, e := range allocEntries { // warm up: type caches, pools
		_ = guard(func() error { return e.run([]byte{0xc1, 0x80}) })
	}
	for _, ad := range all {
		in, claim := []byte(ad.line.B), []byte(ad.line.Cl)
		for _, e := range allocEntries {
			if skip[e.name] {
				continue
			}
			mark(e.name, in, claim)
			// the minimum of up to three measurements: one-time allocations (type cache, pools
			// refilled after a garbage collection) do not repeat, an allocation sized by the header does
			var delta uint64
			var err error
			for try := 0; try < 3; try++ {
				runtime.ReadMemStats(&ms)
				before := ms.TotalAlloc
				err = guard(func() error { return e.run(in) })
				runtime.ReadMemStats(&ms)
				d := ms.TotalAlloc - before
				if try == 0 || d < delta {
					delta = d
				}
				if classify(err) == "PANIC" || delta <= allocBound(len(in)) {
					break
				}
			}
			measured++
			res.Count(1)
			detail := map[string]interface{}{"entry": e.name, "input": hexOf(in), "claimed_size": hexOf(claim), "allocated": delta}
			if classify(err) == "PANIC" {
				res.Mismatch("rlp:alloc:panic:"+e.name, fmt.Sprintf("%s panicked on the adversarial header %s (claims 0x%s bytes): %v", e.name, hexOf(in), hexOf(claim), err), detail)
				skip[e.name] = true
				continue
			}
			if delta > allocBound(len(in)) {
				res.Mismatch("rlp:alloc:unbounded:"+e.name,
					fmt.Sprintf("%s allocated %d bytes for the %d-byte input %s whose header claims 0x%s bytes (bound %d)", e.name, delta, len(in), hexOf(in), hexOf(claim), allocBound(len(in))), detail)
				skip[e.name] = true
				continue
			}
			if delta > maxSeen {
				maxSeen, maxWhere = delta, e.name+" "+hexOf(in)
			}
		}
	}
	res.Set("alloc_measured", measured)
	res.Set("alloc_max_bytes", int(maxSeen))
	res.Set("alloc_max_where", maxWhere)

	// 2. the comparisons (skipped when some decoder trusts the header: they could kill the process)
	if len(skip) == 0 {
		for _, ad := range all {
			l := ad.line
			in := []byte(l.B)
			mark("comparison with the specification", in, l.Cl)
			detail := map[string]interface{}{"input": hexOf(in), "claimed_size": hexOf(l.Cl)}
			runUntyped(tl, "rlp:huge", in, &l.U, detail)
			for name, want := range l.Ty {
				runTyped(tl, "rlp:huge", name, in, resJ{E: want.E, V: want.V, E1: want.E1, N: want.N}, want.C, detail)
			}
			res.Distinct(hexOf(in))
			if ad.n%911 == 1 {
				res.Sample(map[string]interface{}{"input": hexOf(in), "claimed_size": hexOf(l.Cl), "Dec": l.U.D.E, "RawValue": l.U.Rw.E})
			}
		}
	} else {
		res.Set("huge_comparisons_skipped", true)
	}
	if marker != nil {
		marker.Close()
		_ = os.Remove(markerPath)
	}
}
