package rlp

import (
	"encoding/json"
	"fmt"
	"os"
	"testing"

	"verifharness/internal/mbt"
)

// treesLine is one transition of MC_RLPTrees: an item tree, the mutations applied to its
// encoding, the resulting byte string and everything the specification says about it.
type treesLine struct {
	H struct {
		X  json.RawMessage   `json:"x"`
		Ms []json.RawMessage `json:"ms"`
	} `json:"h"`
	B  bytesJ   `json:"b"`
	U  untypedJ `json:"u"`
	Ty map[string]struct {
		E  string          `json:"e"`
		V  json.RawMessage `json:"v"`
		C  bool            `json:"c"`
		E1 string          `json:"e1"`
		N  int             `json:"n"`
	} `json:"ty"`
}

// TestTrees: generations (b) and (c) - item trees, their encodings, and every mutation class at
// every position.  For an unmutated tree the real ENCODER is checked too: EncodeToBytes of the
// tree (as []byte / []interface{}) must be the specified byte string.
func TestTrees(t *testing.T) {
	res := mbt.NewResult()
	defer res.Write()
	tl := newTally(res, "trees")
	defer tl.finish()
	defer tl.gethReport()
	kinds := map[string]int{}
	sent, err := mbt.EachLine(os.Getenv("RLP_DUMP"), 0, mbt.EnvInt("RLP_LIMIT", 0), mbt.EnvInt("RLP_STRIDE", 1), mbt.Seed(), func(n int, raw []byte) {
		var l treesLine
		if err := json.Unmarshal(raw, &l); err != nil {
			res.Mismatch("infra:parse", err.Error(), clip(string(raw), 400))
			return
		}
		in := []byte(l.B)
		ms := make([]string, len(l.H.Ms))
		for i := range l.H.Ms {
			ms[i] = string(l.H.Ms[i])
		}
		detail := map[string]interface{}{"input": hexOf(in), "tree": l.H.X, "mutations": ms}
		if len(ms) == 0 {
			// the encoder: Enc(x) = EncodeToBytes(x)
			var it itemJ
			if err := json.Unmarshal(l.H.X, &it); err != nil {
				res.Mismatch("infra:parse-item", err.Error(), string(l.H.X))
				return
			}
			checkEncoders(tl, "rlp:trees", it.generic(), in, detail)
		}
		runUntyped(tl, "rlp:trees", in, &l.U, detail)
		for name, want := range l.Ty {
			runTyped(tl, "rlp:trees", name, in, resJ{E: want.E, V: want.V, E1: want.E1, N: want.N}, want.C, detail)
		}
		res.Distinct(hexOf(in))
		if n%4001 == 11 || (len(ms) == 2 && n%997 == 3) {
			res.Sample(map[string]interface{}{"tree": l.H.X, "mutations": ms, "input": shortHex(in), "Dec": l.U.D.E, "RawValue": l.U.Rw.E})
		}
		_ = kinds
	})
	if err != nil {
		res.Mismatch("infra:read", err.Error(), nil)
	}
	res.Behaviours = sent
	res.Set("replayed_"+tl.name, sent)
	_ = fmt.Sprint
}
