package rlp

import (
	"bufio"
	"bytes"
	"encoding/json"
	"math/big"
	"math/rand"
	"os"
	"path/filepath"
	"testing"

	"github.com/kardiachain/go-kardia/lib/common"
	krlp "github.com/kardiachain/go-kardia/lib/rlp"
	"github.com/kardiachain/go-kardia/types"

	"verifharness/internal/mbt"
)

// event is one line of the trace validated by specs/rlp/RLPTrace.tla.
type event struct {
	In    []int       `json:"in"`
	Acc   bool        `json:"acc"`
	It    interface{} `json:"it"`
	Raw   bool        `json:"raw"`
	Sp    bool        `json:"sp"`
	Cv    int         `json:"cv"`
	U64   bool        `json:"u64"`
	Big   bool        `json:"big"`
	Bytes bool        `json:"bytes"`
	Tx    bool        `json:"tx"`
	Re    bool        `json:"re"`
}

func ints(b []byte) []int {
	out := make([]int, len(b))
	for i, x := range b {
		out[i] = int(x)
	}
	return out
}

// specItem renders a decoded tree as the [k, b, e] records of RLP.tla.
func specItem(x interface{}) interface{} {
	switch v := x.(type) {
	case []byte:
		return map[string]interface{}{"k": "s", "b": ints(v), "e": []interface{}{}}
	case []interface{}:
		es := make([]interface{}, len(v))
		for i := range v {
			es[i] = specItem(v[i])
		}
		return map[string]interface{}{"k": "l", "b": []int{}, "e": es}
	}
	return map[string]interface{}{"k": "?", "b": []int{}, "e": []interface{}{}}
}

func randTree(r *rand.Rand, depth int) interface{} {
	if depth == 0 || r.Intn(3) == 0 {
		n := []int{0, 1, 1, 2, 3, 8, 55, 56, 60}[r.Intn(9)]
		b := make([]byte, n)
		r.Read(b)
		if n > 0 && r.Intn(3) == 0 {
			b[0] = []byte{0, 1, 0x7f, 0x80, 0xff}[r.Intn(5)]
		}
		return b
	}
	n := r.Intn(4)
	out := make([]interface{}, n)
	for i := range out {
		out[i] = randTree(r, depth-1)
	}
	return out
}

func randBig(r *rand.Rand) *big.Int {
	b := make([]byte, []int{0, 1, 1, 8, 9, 32}[r.Intn(6)])
	r.Read(b)
	return new(big.Int).SetBytes(b)
}

func randTxBytes(r *rand.Rand) []byte {
	data := make([]byte, []int{0, 0, 1, 4, 56}[r.Intn(5)])
	r.Read(data)
	var tx *types.Transaction
	if r.Intn(3) == 0 {
		tx = types.NewContractCreation(r.Uint64()>>uint(r.Intn(64)), randBig(r), r.Uint64()>>uint(r.Intn(64)), randBig(r), data)
	} else {
		var to common.Address
		r.Read(to[:])
		tx = types.NewTransaction(r.Uint64()>>uint(r.Intn(64)), to, randBig(r), r.Uint64()>>uint(r.Intn(64)), randBig(r), data)
	}
	b, _ := krlp.EncodeToBytes(tx)
	return b
}

func damage(r *rand.Rand, b []byte) []byte {
	b = append([]byte{}, b...)
	switch r.Intn(8) {
	case 0: // unchanged
	case 1: // bit flip
		if len(b) > 0 {
			b[r.Intn(len(b))] ^= 1 << uint(r.Intn(8))
		}
	case 2: // truncate
		if len(b) > 0 {
			b = b[:r.Intn(len(b))]
		}
	case 3: // insert a byte
		i := r.Intn(len(b) + 1)
		b = append(b[:i], append([]byte{byte(r.Intn(256))}, b[i:]...)...)
	case 4: // delete a byte
		if len(b) > 0 {
			i := r.Intn(len(b))
			b = append(b[:i], b[i+1:]...)
		}
	case 5: // overwrite one of the first bytes with a header byte
		if len(b) > 0 {
			i := r.Intn(min2(len(b), 4))
			b[i] = []byte{0x00, 0x7f, 0x80, 0x81, 0xb7, 0xb8, 0xb9, 0xbf, 0xc0, 0xc1, 0xf7, 0xf8, 0xf9, 0xff}[r.Intn(14)]
		}
	case 6: // duplicate a slice
		if len(b) > 1 {
			i := r.Intn(len(b) - 1)
			j := i + 1 + r.Intn(min2(len(b)-i-1, 6))
			b = append(b[:j], append(append([]byte{}, b[i:j]...), b[j:]...)...)
		}
	case 7: // +-1 on a byte
		if len(b) > 0 {
			i := r.Intn(len(b))
			if r.Intn(2) == 0 {
				b[i]++
			} else {
				b[i]--
			}
		}
	}
	return b
}

func min2(a, b int) int {
	if a < b {
		return a
	}
	return b
}

// TestRecord produces the trace for RLPTrace.tla (TV direction).  Nothing is judged here except
// panics; TLC decides whether the specification explains every event.
func TestRecord(t *testing.T) {
	res := mbt.NewResult()
	defer res.Write()
	n := mbt.EnvInt("RLP_EVENTS", 1500)
	r := rand.New(rand.NewSource(mbt.Seed()))
	path := filepath.Join(os.Getenv("VERIF_SCRATCH"), "rlp-trace.ndjson")
	if p := os.Getenv("RLP_TRACE"); p != "" {
		path = p
	}
	f, err := os.Create(path)
	if err != nil {
		res.Mismatch("infra:trace-file", err.Error(), nil)
		return
	}
	defer f.Close()
	w := bufio.NewWriter(f)
	defer w.Flush()
	enc := json.NewEncoder(w)
	for k := 0; k < n; k++ {
		var in []byte
		switch r.Intn(4) {
		case 0: // plain random bytes, biased to header bytes
			in = make([]byte, r.Intn(10))
			r.Read(in)
			if len(in) > 0 && r.Intn(2) == 0 {
				in[0] = []byte{0x80, 0x81, 0x82, 0xb7, 0xb8, 0xb9, 0xc0, 0xc1, 0xc2, 0xc3, 0xf7, 0xf8, 0xf9}[r.Intn(13)]
			}
		case 1, 2: // a real encoding of a random tree, damaged
			b, _ := krlp.EncodeToBytes(randTree(r, 3))
			in = damage(r, b)
		case 3: // a real transaction encoding, damaged
			in = damage(r, randTxBytes(r))
		}
		if len(in) > 400 {
			in = in[:400]
		}
		ev := event{In: ints(in), It: 0, Cv: -1}
		var v interface{}
		perr := guard(func() error {
			ev.Acc = krlp.DecodeBytes(in, &v) == nil
			if ev.Acc {
				ev.It = specItem(v)
				out, e := krlp.EncodeToBytes(v)
				ev.Re = e == nil && bytes.Equal(out, in)
			}
			var raw krlp.RawValue
			ev.Raw = krlp.DecodeBytes(in, &raw) == nil && bytes.Equal(raw, in)
			_, _, _, e := krlp.Split(in)
			ev.Sp = e == nil
			if c, e := krlp.CountValues(in); e == nil {
				ev.Cv = c
			}
			var u uint64
			ev.U64 = krlp.DecodeBytes(in, &u) == nil
			var bi *big.Int
			ev.Big = krlp.DecodeBytes(in, &bi) == nil
			var bs []byte
			ev.Bytes = krlp.DecodeBytes(in, &bs) == nil
			var tx types.Transaction
			ev.Tx = krlp.DecodeBytes(in, &tx) == nil
			return nil
		})
		res.Count(1)
		if perr != nil {
			res.Mismatch("rlp:tv:panic", "a decoder panicked on input "+shortHex(in)+": "+perr.Error(), map[string]interface{}{"input": hexOf(in), "seed": mbt.Seed()})
			continue
		}
		if err := enc.Encode(ev); err != nil {
			res.Mismatch("infra:trace-write", err.Error(), nil)
			return
		}
		if ev.Acc || ev.Raw || ev.Tx {
			res.Distinct(hexOf(in))
		}
		if k%499 == 7 {
			res.Sample(map[string]interface{}{"input": shortHex(in), "accepted": ev.Acc, "tx": ev.Tx, "raw": ev.Raw})
		}
	}
	res.Behaviours = 0 // counted by the runner when TLC has accepted the trace
	res.Set("trace_events", n)
}
