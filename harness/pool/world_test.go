// Package pool binds specs/pool (TxPool.tla) to the real mainchain/tx_pool.TxPool (property C17):
//   - TestReplay replays every transition TLC printed for MC_TxPool into a fresh real pool over a
//     stub chain and compares result and observation with the outcomes the specification allows;
//   - TestRecord runs seeded random operation sequences on the real pool and writes them as ndjson
//     traces that TLC validates against TxPoolTrace;
//   - both evaluate the clauses of the statement directly on the real pool after every operation.
package pool

import (
	"crypto/ecdsa"
	"encoding/json"
	"fmt"
	"io"
	"math/big"
	"os"
	"sort"
	"strings"
	"sync"

	"github.com/kardiachain/go-kardia/configs"
	"github.com/kardiachain/go-kardia/kai/events"
	"github.com/kardiachain/go-kardia/kai/kaidb/memorydb"
	"github.com/kardiachain/go-kardia/kai/state"
	"github.com/kardiachain/go-kardia/lib/common"
	"github.com/kardiachain/go-kardia/lib/crypto"
	"github.com/kardiachain/go-kardia/lib/event"
	"github.com/kardiachain/go-kardia/lib/rlp"
	"github.com/kardiachain/go-kardia/mainchain/tx_pool"
	"github.com/kardiachain/go-kardia/trie"
	"github.com/kardiachain/go-kardia/types"
)

// Config carries the constants of one TLC configuration (written by checks/C17.py into $POOL_CFG).
type Config struct {
	Accts        int    `json:"accts"`
	AccountSlots uint64 `json:"account_slots"`
	GlobalSlots  uint64 `json:"global_slots"`
	AccountQueue uint64 `json:"account_queue"`
	GlobalQueue  uint64 `json:"global_queue"`
	PriceLimit   uint64 `json:"price_limit"`
	PriceBump    uint64 `json:"price_bump"`
	InitLocals   []int  `json:"init_locals"`
	NoLocals     bool   `json:"no_locals"`
	UseJournal   bool   `json:"use_journal"`
	BlackAccts   []int  `json:"black_accts"`
	InitBal      int64  `json:"init_bal"`
	InitGas      uint64 `json:"init_gas"`
	Tag          string `json:"tag"`
}

func loadConfig() (*Config, error) {
	var c Config
	if err := json.Unmarshal([]byte(os.Getenv("POOL_CFG")), &c); err != nil {
		return nil, fmt.Errorf("POOL_CFG: %v", err)
	}
	return &c, nil
}

// Tx is the abstract transaction <<a, n, p, k>> of the specification.
type Tx struct {
	A, N, P int
	K       string
}

func (t Tx) String() string { return fmt.Sprintf("%d/%d/%d/%s", t.A, t.N, t.P, t.K) }
func (t Tx) tuple() []interface{} {
	return []interface{}{t.A, t.N, t.P, t.K}
}

func gasOf(k string) uint64 {
	switch k {
	case "b":
		return 200000
	case "w":
		return 400000
	case "g":
		return 20000
	}
	return 100000
}
func valOf(k string) int64 {
	if k == "v" {
		return 1000000
	}
	return 0
}
func slotsOf(k string) int {
	if k == "w" {
		return 2
	}
	return 1
}

const otherChainID = 999

// world: keys and the concrete transaction of every abstract one (shared by all workers; a
// types.Transaction is immutable apart from its atomic caches).
type world struct {
	keys   []*ecdsa.PrivateKey
	addrs  []common.Address
	byAddr map[common.Address]int
	mu     sync.RWMutex
	txs    map[Tx]*types.Transaction
	byHash map[common.Hash]Tx
}

func newWorld(n int) *world {
	w := &world{byAddr: map[common.Address]int{}, txs: map[Tx]*types.Transaction{}, byHash: map[common.Hash]Tx{}}
	for i := 1; i <= n; i++ {
		k, err := crypto.ToECDSA(crypto.Keccak256([]byte(fmt.Sprintf("verif-pool-acct-%d", i))))
		if err != nil {
			panic(err)
		}
		w.keys = append(w.keys, k)
		a := crypto.PubkeyToAddress(k.PublicKey)
		w.addrs = append(w.addrs, a)
		w.byAddr[a] = i
	}
	return w
}

func (w *world) addr(a int) common.Address      { return w.addrs[a-1] }
func (w *world) chainCfg() *configs.ChainConfig { return configs.TestChainConfig }

var recipient = common.HexToAddress("0x00000000000000000000000000000000000c0ffe")

// tx returns the real transaction for the abstract one (built and signed once).
func (w *world) tx(t Tx) *types.Transaction {
	w.mu.RLock()
	r, ok := w.txs[t]
	w.mu.RUnlock()
	if ok {
		return r
	}
	var data []byte
	switch t.K {
	case "w":
		data = make([]byte, 40960) // two 32 KiB slots
	case "h":
		data = make([]byte, 132000) // above txMaxSize (128 KiB)
	}
	raw := types.NewTransaction(uint64(t.N), recipient, big.NewInt(valOf(t.K)), gasOf(t.K), big.NewInt(int64(t.P)), data)
	key := w.keys[t.A-1]
	var signer types.Signer = types.HomesteadSigner{}
	switch {
	case t.K == "c":
		signer = types.NewChainIDSigner(big.NewInt(otherChainID))
	case t.N%2 == 1:
		// odd nonces are replay-protected for the pool's own chain id; even ones are plain
		// homestead transactions (the pool's signer accepts both)
		signer = types.NewChainIDSigner(configs.TestChainConfig.ChainID)
	}
	// sign by hand: signer.Hash + crypto.Sign + WithSignature (types.SignTx hashes differently)
	sig, err := crypto.Sign(signer.Hash(raw).Bytes(), key)
	if err != nil {
		panic(err)
	}
	if t.K == "x" {
		sig = make([]byte, 65) // r = s = 0: no sender can be recovered
	}
	signed, err := raw.WithSignature(signer, sig)
	if err != nil {
		panic(err)
	}
	w.mu.Lock()
	if prev, ok := w.txs[t]; ok {
		signed = prev
	} else {
		w.txs[t] = signed
		w.byHash[signed.Hash()] = t
	}
	w.mu.Unlock()
	return signed
}

func (w *world) abstract(tx *types.Transaction) (Tx, bool) {
	w.mu.RLock()
	t, ok := w.byHash[tx.Hash()]
	w.mu.RUnlock()
	return t, ok
}

// stubChain is the blockChain the pool sees: per account nonce and balance, a block gas limit, and a
// linear chain of (empty) blocks.  StateAt hands out a fresh StateDB, so the pool's view changes only
// when it resets.
type stubChain struct {
	w       *world
	mu      sync.Mutex
	nonce   []uint64
	bal     []int64
	gas     uint64
	cur     *types.Block
	blocks  map[common.Hash]*types.Block
	mined   int // transactions in the current head block, sent by account minedBy
	minedBy int
	feed    event.Feed
	stateAt chan uint64 // when set: heights for which the pool asked for the state (head event path)
}

func newChain(w *world, c *Config) *stubChain {
	ch := &stubChain{w: w, gas: c.InitGas}
	for range w.addrs {
		ch.nonce = append(ch.nonce, 0)
		ch.bal = append(ch.bal, c.InitBal)
	}
	ch.cur = types.NewBlock(&types.Header{GasLimit: ch.gas, Height: 0}, nil, nil, nil, trie.NewStackTrie(nil))
	ch.blocks = map[common.Hash]*types.Block{ch.cur.Hash(): ch.cur}
	return ch
}

func (c *stubChain) CurrentBlock() *types.Block {
	c.mu.Lock()
	defer c.mu.Unlock()
	return c.cur
}
func (c *stubChain) GetBlock(hash common.Hash, number uint64) *types.Block {
	c.mu.Lock()
	defer c.mu.Unlock()
	if b := c.blocks[hash]; b != nil && b.Height() == number {
		return b
	}
	return nil
}
func (c *stubChain) StateAt(height uint64) (*state.StateDB, error) {
	c.mu.Lock()
	sdb, err := state.New(common.Hash{}, state.NewDatabase(memorydb.New()), nil)
	if err == nil {
		for i, a := range c.w.addrs {
			sdb.SetNonce(a, c.nonce[i])
			sdb.SetBalance(a, big.NewInt(c.bal[i]))
		}
	}
	ch := c.stateAt
	c.mu.Unlock()
	if ch != nil {
		ch <- height
	}
	return sdb, err
}
func (c *stubChain) SubscribeChainHeadEvent(ch chan<- events.ChainHeadEvent) event.Subscription {
	return c.feed.Subscribe(ch)
}

// head installs a new chain head on top of the current one: account a gets (nonce, balance), the
// block gas limit becomes gas.
func (c *stubChain) head(a int, nonce uint64, bal int64, gas uint64) *types.Block {
	c.mu.Lock()
	defer c.mu.Unlock()
	c.nonce[a-1], c.bal[a-1], c.gas = nonce, bal, gas
	c.mined = 0
	h := &types.Header{GasLimit: gas, Height: c.cur.Height() + 1, LastBlockID: types.BlockID{Hash: c.cur.Hash()}}
	c.cur = types.NewBlock(h, nil, nil, nil, trie.NewStackTrie(nil))
	c.blocks[c.cur.Hash()] = c.cur
	return c.cur
}

// mine installs a head block that contains the given transactions of account a (its state nonce advances).
func (c *stubChain) mine(a int, txs types.Transactions) *types.Block {
	c.mu.Lock()
	defer c.mu.Unlock()
	c.nonce[a-1] += uint64(len(txs))
	c.mined, c.minedBy = len(txs), a
	h := &types.Header{GasLimit: c.gas, Height: c.cur.Height() + 1, LastBlockID: types.BlockID{Hash: c.cur.Hash()}}
	c.cur = types.NewBlock(h, txs, nil, nil, trie.NewStackTrie(nil))
	c.blocks[c.cur.Hash()] = c.cur
	return c.cur
}

// abandon replaces the head block by an empty sibling (same parent, same height): a reorganisation of
// depth one; the state nonce of the account whose transactions the abandoned block held goes back.
func (c *stubChain) abandon() *types.Block {
	c.mu.Lock()
	defer c.mu.Unlock()
	if c.mined > 0 {
		c.nonce[c.minedBy-1] -= uint64(c.mined)
		c.mined = 0
	}
	old := c.cur.Header()
	h := &types.Header{GasLimit: c.gas, Height: old.Height, LastBlockID: old.LastBlockID, NumTxs: 1 << 20} // differs from the abandoned header
	c.cur = types.NewBlock(h, nil, nil, nil, trie.NewStackTrie(nil))
	c.blocks[c.cur.Hash()] = c.cur
	return c.cur
}

// headEvent announces the block as the pool's real environment does (ChainHeadEvent on the feed, handled
// by loop() -> requestReset(previous head, new head)) and returns when that reset has completed: the
// stub sees the pool fetch the state of the new height from inside the reset, and the barrier run that
// is requested afterwards can only start when the resetting run is over.
func (s *sut) headEvent(b *types.Block) {
	ch := make(chan uint64, 4)
	s.chain.mu.Lock()
	s.chain.stateAt = ch
	s.chain.mu.Unlock()
	s.chain.feed.Send(events.ChainHeadEvent{Block: b})
	for h := range ch {
		if h == b.Height() {
			break
		}
	}
	s.chain.mu.Lock()
	s.chain.stateAt = nil
	s.chain.mu.Unlock()
	s.pool.VerifBarrier()
}

func classify(err error) string {
	switch err {
	case nil:
		return "ok"
	case tx_pool.ErrAlreadyKnown:
		return "known"
	case tx_pool.ErrInvalidSender:
		return "sender"
	case tx_pool.ErrBlacklistedSender:
		return "blacklisted"
	case tx_pool.ErrUnderpriced:
		return "underpriced"
	case tx_pool.ErrTxPoolOverflow:
		return "overflow"
	case tx_pool.ErrReplaceUnderpriced:
		return "replace"
	case tx_pool.ErrNonceTooLow:
		return "noncelow"
	case tx_pool.ErrInsufficientFunds:
		return "funds"
	case tx_pool.ErrGasLimit:
		return "gaslimit"
	case tx_pool.ErrIntrinsicGas:
		return "intrinsic"
	case tx_pool.ErrOversizedData:
		return "oversized"
	case tx_pool.ErrNegativeValue:
		return "negvalue"
	}
	return "ERR:" + err.Error()
}

// sut is one real pool over its stub chain, plus what the driver has to remember between steps.
type sut struct {
	w            *world
	c            *Config
	chain        *stubChain
	pool         *tx_pool.TxPool
	journal      string
	dirty        map[common.Address]bool // promotion owed (asynchronous submissions)
	owed         bool                    // a run of the reorg loop is owed
	evPath       bool                    // head events go through the ChainHeadEvent feed (else VerifReset)
	sawRo        bool                    // a reorganisation has happened in this history
	nonceAfterRo int                     // Nonce(addr) relation broken after a reorganisation (named deviation)
	// history of membership, for the attribution of one known deviation (a transaction that left the pool and was
	// submitted again can sit twice in the price heap: the stale entry of its first life becomes valid again)
	last    map[Tx]bool // pooled at the last look
	gone    map[Tx]bool // has been pooled and has left
	readded map[Tx]bool // ... and was accepted again
}

func (c *Config) poolConfig(w *world, journal string) tx_pool.TxPoolConfig {
	pc := tx_pool.TxPoolConfig{
		NoLocals: c.NoLocals, Journal: journal, Rejournal: 1000 * 3600 * 1e9,
		PriceLimit: c.PriceLimit, PriceBump: c.PriceBump,
		AccountSlots: c.AccountSlots, GlobalSlots: c.GlobalSlots, AccountQueue: c.AccountQueue, GlobalQueue: c.GlobalQueue,
		Lifetime: 1000 * 3600 * 1e9,
	}
	for _, a := range c.InitLocals {
		pc.Locals = append(pc.Locals, w.addr(a))
	}
	return pc
}

func newSut(w *world, c *Config, journal string) *sut {
	s := &sut{w: w, c: c, chain: newChain(w, c), journal: journal, dirty: map[common.Address]bool{}}
	if !c.UseJournal {
		s.journal = ""
	}
	s.pool = tx_pool.NewTxPool(c.poolConfig(w, s.journal), w.chainCfg(), s.chain)
	return s
}

func (s *sut) close() {
	s.pool.Stop()
	if s.journal != "" {
		os.Remove(s.journal)
		os.Remove(s.journal + ".new")
	}
}

// track updates the membership history from the current pooled set.
func (s *sut) track(now []Tx) {
	if s.gone == nil {
		s.last, s.gone, s.readded = map[Tx]bool{}, map[Tx]bool{}, map[Tx]bool{}
	}
	cur := make(map[Tx]bool, len(now))
	for _, t := range now {
		cur[t] = true
		if s.gone[t] && !s.last[t] {
			s.readded[t] = true
		}
	}
	for t := range s.last {
		if !cur[t] {
			s.gone[t] = true
		}
	}
	s.last = cur
}

// trackOnly looks at the pool just to keep the membership history complete.
func (s *sut) trackOnly() {
	pend, queued := s.pool.Content()
	var now []Tx
	for _, m := range []map[common.Address]types.Transactions{pend, queued} {
		for _, txs := range m {
			for _, tx := range txs {
				if t, ok := s.w.abstract(tx); ok {
					now = append(now, t)
				}
			}
		}
	}
	s.track(now)
}

// resurrectedEvicted: a transaction that had left the pool and was accepted again has been removed by this
// operation (prev -> now).
func (s *sut) resurrectedEvicted(prev, now *Obs) bool {
	if prev == nil {
		return false
	}
	cur := map[Tx]bool{}
	for _, t := range pooled(now) {
		cur[t] = true
	}
	for _, t := range pooled(prev) {
		if !cur[t] && s.readded[t] {
			return true
		}
	}
	return false
}

func (s *sut) dirtyList() []common.Address {
	out := make([]common.Address, 0, len(s.dirty))
	for a := range s.dirty {
		out = append(out, a)
	}
	return out
}

// Obs is the projection of a pool that is compared with the specification.
type Obs struct {
	P  []Tx  // pending
	Q  []Tx  // queued
	N  []int // Nonce(addr) per account
	L  []int // local accounts
	F  int   // gas price floor
	LL []Tx  // transactions under the local flag of the lookup
	D  []int // accounts with an owed promotion
	J  []Tx  // journal file (sorted: the order of a regenerated journal follows Go map order)
	CN []int // state nonce of the stub chain per account when the observation was taken
}

func sortTx(x []Tx) {
	sort.Slice(x, func(i, j int) bool {
		a, b := x[i], x[j]
		if a.A != b.A {
			return a.A < b.A
		}
		if a.N != b.N {
			return a.N < b.N
		}
		if a.P != b.P {
			return a.P < b.P
		}
		return a.K < b.K
	})
}

func txKey(x []Tx) string {
	var sb strings.Builder
	for _, t := range x {
		sb.WriteString(t.String())
		sb.WriteByte(' ')
	}
	return sb.String()
}

// content is the property-relevant part (what the pool holds and who is local); lockstep the rest.
func (o *Obs) content() string {
	return "P[" + txKey(o.P) + "] Q[" + txKey(o.Q) + "] L" + fmt.Sprint(o.L)
}
func (o *Obs) lockstep() string {
	return "N" + fmt.Sprint(o.N) + " F" + fmt.Sprint(o.F) + " LL[" + txKey(o.LL) + "] D" + fmt.Sprint(o.D) + " J[" + txKey(o.J) + "]"
}

// observe reads the real pool through its public API (plus the lookup flag export).
func (s *sut) observe() (*Obs, error) {
	o := &Obs{}
	pend, queued := s.pool.Content()
	conv := func(m map[common.Address]types.Transactions, dst *[]Tx) error {
		for addr, txs := range m {
			for _, tx := range txs {
				t, ok := s.w.abstract(tx)
				if !ok {
					return fmt.Errorf("pool holds a transaction that was never submitted: %x", tx.Hash())
				}
				if s.w.addr(t.A) != addr {
					return fmt.Errorf("transaction %v listed under account %x", t, addr)
				}
				*dst = append(*dst, t)
				if _, local := s.pool.VerifLookup(tx.Hash()); local {
					o.LL = append(o.LL, t)
				}
			}
		}
		return nil
	}
	if err := conv(pend, &o.P); err != nil {
		return nil, err
	}
	if err := conv(queued, &o.Q); err != nil {
		return nil, err
	}
	sortTx(o.P)
	sortTx(o.Q)
	sortTx(o.LL)
	s.track(pooled(o))
	s.chain.mu.Lock()
	for _, n := range s.chain.nonce {
		o.CN = append(o.CN, int(n))
	}
	s.chain.mu.Unlock()
	for i := range s.w.addrs {
		o.N = append(o.N, int(s.pool.Nonce(s.w.addrs[i])))
	}
	for _, a := range s.pool.Locals() {
		o.L = append(o.L, s.w.byAddr[a])
	}
	sort.Ints(o.L)
	o.F = int(s.pool.GasPrice().Int64())
	for a := range s.dirty {
		o.D = append(o.D, s.w.byAddr[a])
	}
	if s.owed {
		o.D = append(o.D, 0) // the marker the specification keeps in `dirty`
	}
	sort.Ints(o.D)
	if s.journal != "" {
		j, err := s.readJournal()
		if err != nil {
			return nil, err
		}
		o.J = j
		sortTx(o.J)
	}
	return o, nil
}

func (s *sut) readJournal() ([]Tx, error) {
	f, err := os.Open(s.journal)
	if os.IsNotExist(err) {
		return nil, nil
	}
	if err != nil {
		return nil, err
	}
	defer f.Close()
	var out []Tx
	st := rlp.NewStream(f, 0)
	for {
		tx := new(types.Transaction)
		if err := st.Decode(tx); err != nil {
			if err == io.EOF {
				return out, nil
			}
			return out, err
		}
		t, ok := s.w.abstract(tx)
		if !ok {
			return out, fmt.Errorf("journal holds an unknown transaction %x", tx.Hash())
		}
		out = append(out, t)
	}
}
