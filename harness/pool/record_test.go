package pool

import (
	"bufio"
	"bytes"
	"encoding/json"
	"fmt"
	"math/rand"
	"os"
	"path/filepath"
	"runtime"
	"sync"
	"testing"
	"time"

	"github.com/kardiachain/go-kardia/lib/log"
	"github.com/kardiachain/go-kardia/mainchain/tx_pool"

	"verifharness/internal/mbt"
)

// RecConfig: the universe the random driver draws from ($POOL_REC).
type RecConfig struct {
	MaxNonce  int      `json:"max_nonce"`
	Prices    []int    `json:"prices"`
	Kinds     []string `json:"kinds"`
	Bals      []int64  `json:"bals"`
	GasLimits []uint64 `json:"gas_limits"`
	Floors    []int    `json:"floors"`
	Ops       []string `json:"ops"` // operations to draw from (repeat a label to give it weight)
	Traces    int      `json:"traces"`
	Offset    int      `json:"offset"` // id of the first trace (ids seed the per-trace generator)
	Steps     int      `json:"steps"`
}

// traceEvent is one line of trace.ndjson (see specs/pool/TxPoolTrace.tla).
type traceEvent struct {
	Op  string          `json:"op"`
	T   []interface{}   `json:"t,omitempty"`
	U   []interface{}   `json:"u,omitempty"`
	A   int             `json:"a,omitempty"`
	N   int             `json:"n"`
	B   int64           `json:"b"`
	G   uint64          `json:"g"`
	F   int             `json:"f,omitempty"`
	S   []int           `json:"S"`
	Acc interface{}     `json:"acc"`
	Res string          `json:"res"` // class, for the reader of a rejected trace (not matched by TLC)
	P   [][]interface{} `json:"p"`
	Q   [][]interface{} `json:"q"`
	L   []int           `json:"l"`
	PN  []int           `json:"pn"` // pool.Nonce(addr) per account
}

func tuples(x []Tx) [][]interface{} {
	out := make([][]interface{}, 0, len(x))
	for _, t := range x {
		out = append(out, t.tuple())
	}
	return out
}

func accOf(op, res string) interface{} {
	a := accepted(res)
	if op == "ab" {
		return []int{int(a[0] - '0'), int(a[2] - '0')}
	}
	return int(a[0] - '0')
}

// TestRecord drives the real pool with seeded random operation sequences, evaluates the clauses of the
// statement on it after every operation, and writes the sequences to $POOL_TRACE for TLC.
func TestRecord(t *testing.T) {
	res := mbt.NewResult()
	defer res.Write()
	log.Root().SetHandler(log.DiscardHandler())
	c, err := loadConfig()
	if err != nil {
		res.Mismatch("infra:config", err.Error(), nil)
		return
	}
	var rc RecConfig
	if err := json.Unmarshal([]byte(os.Getenv("POOL_REC")), &rc); err != nil {
		res.Mismatch("infra:config", "POOL_REC: "+err.Error(), nil)
		return
	}
	hasEx := false
	for _, o := range rc.Ops {
		hasEx = hasEx || o == "ex"
	}
	if hasEx {
		defer tx_pool.VerifSetEvictionInterval(tx_pool.VerifSetEvictionInterval(time.Millisecond))
	}
	w := newWorld(c.Accts)
	black := map[int]bool{}
	for _, a := range c.BlackAccts {
		tx_pool.Blacklisted[w.addr(a).Hex()] = true
		black[a] = true
	}
	scratch := os.Getenv("VERIF_SCRATCH")
	if scratch == "" {
		scratch = os.TempDir()
	}
	f, err := os.Create(os.Getenv("POOL_TRACE"))
	if err != nil {
		res.Mismatch("infra:trace", err.Error(), nil)
		return
	}
	defer f.Close()
	out := bufio.NewWriter(f)
	defer out.Flush()
	one := func(tr int) (buf bytes.Buffer, events int) {
		enc := json.NewEncoder(&buf)
		rng := rand.New(rand.NewSource(mbt.Seed()*7919 + int64(tr)*104729 + 17))
		s := newSut(w, c, filepath.Join(scratch, fmt.Sprintf("rec-journal-%d.rlp", tr)))
		s.evPath = tr%2 == 1
		prev, err := s.observe()
		if err != nil {
			res.Mismatch("infra:observe", err.Error(), nil)
			s.close()
			return
		}
		enc.Encode(traceEvent{Op: "new", Acc: 1, Res: "ok", P: tuples(prev.P), Q: tuples(prev.Q), L: append([]int{}, prev.L...), S: []int{}, PN: append([]int{}, prev.N...)})
		events++
		var hist []interface{}
		nontriv := false
		for k := 0; k < rc.Steps; k++ {
			st := Step{Op: rc.Ops[rng.Intn(len(rc.Ops))]}
			randTx := func() Tx {
				return Tx{1 + rng.Intn(c.Accts), rng.Intn(rc.MaxNonce + 1), rc.Prices[rng.Intn(len(rc.Prices))], rc.Kinds[rng.Intn(len(rc.Kinds))]}
			}
			// bias nonces towards what is executable next, so that long pending runs build up
			near := func(t Tx) Tx {
				if rng.Intn(3) > 0 && t.A-1 < len(prev.N) {
					t.N = prev.N[t.A-1] + rng.Intn(2)
					if t.N > rc.MaxNonce {
						t.N = rc.MaxNonce
					}
				}
				return t
			}
			switch st.Op {
			case "ar", "al", "xr", "xl":
				st.T = near(randTx())
			case "ab":
				st.T, st.T2 = near(randTx()), near(randTx())
				if st.T == st.T2 {
					st.T2.N = (st.T2.N + 1) % (rc.MaxNonce + 1)
				}
			case "rs":
				st.A = 1 + rng.Intn(c.Accts)
				st.N = rng.Intn(rc.MaxNonce + 2)
				if rng.Intn(2) == 0 { // the usual head event: the offered transactions were mined
					st.N = int(s.chain.nonce[st.A-1]) + rng.Intn(3)
				}
				st.B = rc.Bals[rng.Intn(len(rc.Bals))]
				st.G = rc.GasLimits[rng.Intn(len(rc.GasLimits))]
			case "gp":
				st.F = rc.Floors[rng.Intn(len(rc.Floors))]
			case "ex":
				local := map[int]bool{}
				for _, a := range prev.L {
					local[a] = true
				}
				seen := map[int]bool{}
				for _, t := range prev.Q {
					if !local[t.A] && !seen[t.A] && rng.Intn(2) == 0 {
						seen[t.A] = true
						st.S = append(st.S, t.A)
					}
				}
				if len(st.S) == 0 {
					continue
				}
			}
			// what the specification's model forbids in this state is not drawn
			quiet := !s.owed
			switch st.Op {
			case "ar", "al", "ab", "rst":
				if !quiet {
					st = Step{Op: "pr"}
				}
			case "pr":
				if quiet {
					continue
				}
			case "xr", "xl":
				// the critical section is entered only by what passes the pre-checks of addTxs
				if s.pool.Has(w.tx(st.T).Hash()) || st.T.K == "x" || st.T.K == "c" || black[st.T.A] {
					continue
				}
			}
			if st.Op == "rst" && !c.UseJournal {
				continue
			}
			got := s.apply(st)
			o, err := s.observe()
			if err != nil {
				res.Mismatch("pool:observe:"+st.Op, fmt.Sprintf("[%s] trace %d step %d (%v): %v", c.Tag, tr, k, st.label(), err),
					map[string]interface{}{"config": c, "history": hist, "seed": mbt.Seed()})
				break
			}
			hist = append(hist, append(st.label(), got))
			for _, fd := range s.statement(o, prev, st, got, k%8 == 0) {
				res.Mismatch(fd.sig, fmt.Sprintf("[%s] random trace %d after step %d %v: %s", c.Tag, tr, k+1, hist, fd.text),
					map[string]interface{}{"config": c, "history": hist, "seed": mbt.Seed(), "pool": o})
			}
			if len(got) > 5 && got[:6] == "PANIC:" {
				res.Mismatch("pool:panic:"+st.Op, fmt.Sprintf("[%s] random trace %d step %d %v: %s", c.Tag, tr, k+1, hist, got),
					map[string]interface{}{"config": c, "history": hist, "seed": mbt.Seed()})
				break
			}
			ev := traceEvent{Op: st.Op, N: st.N, B: st.B, G: st.G, A: st.A, F: st.F, S: append([]int{}, st.S...), Acc: accOf(st.Op, got), Res: got,
				P: tuples(o.P), Q: tuples(o.Q), L: append([]int{}, o.L...), PN: append([]int{}, o.N...)}
			switch st.Op {
			case "ar", "al", "xr", "xl":
				ev.T = st.T.tuple()
			case "ab":
				ev.T, ev.U = st.T.tuple(), st.T2.tuple()
			}
			enc.Encode(ev)
			events++
			res.Count(1)
			if !(isAdd(st.Op) && got == "ok") {
				nontriv = true
			}
			prev = o
		}
		s.close()
		res.Behaviour()
		if nontriv {
			res.Distinct(fmt.Sprint(tr))
		}
		if tr < 2 {
			res.Sample(map[string]interface{}{"config": c.Tag, "random_trace": hist})
		}
		return
	}
	// traces are independent (own generator, own pool): produce them in parallel, write them in order
	type done struct {
		buf    bytes.Buffer
		events int
	}
	results := make([]done, rc.Traces)
	var wg sync.WaitGroup
	sem := make(chan struct{}, runtime.NumCPU())
	for k := 0; k < rc.Traces; k++ {
		wg.Add(1)
		sem <- struct{}{}
		go func(k int) {
			defer wg.Done()
			defer func() { <-sem }()
			results[k].buf, results[k].events = one(rc.Offset + k)
		}(k)
	}
	wg.Wait()
	events := 0
	for k := range results {
		out.Write(results[k].buf.Bytes())
		events += results[k].events
	}
	res.Set("trace_events_"+c.Tag, events)
}
