package pool

import (
	"hash/fnv"
	"sync"
	"sync/atomic"
)

type counter struct{}

func newCounter() counter          { return counter{} }
func (counter) add(p *int64)       { atomic.AddInt64(p, 1) }
func (counter) get(p *int64) int64 { return atomic.LoadInt64(p) }
func digest(b []byte) uint64       { h := fnv.New64a(); h.Write(b); return h.Sum64() }

type tally struct {
	mu sync.Mutex
	m  map[string]int
}

func newTally() *tally { return &tally{m: map[string]int{}} }
func (t *tally) add(k string) {
	t.mu.Lock()
	t.m[k]++
	t.mu.Unlock()
}
