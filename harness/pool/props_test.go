package pool

import (
	"fmt"
	"math/big"
	"sort"
	"strings"
	"time"

	"github.com/kardiachain/go-kardia/lib/common"
	"github.com/kardiachain/go-kardia/mainchain/tx_pool"
	"github.com/kardiachain/go-kardia/types"
)

// Step is one operation of the specification in concrete form.
type Step struct {
	Op   string // ar al ab xr xl pr rs mn ro gp ex rst
	K    int    // mn: number of offered transactions of account A the new block contains
	T    Tx     // ar al xr xl; first of ab
	T2   Tx     // second of ab
	Ts   []Tx   // bb bl: the whole batch
	A    int    // rs: account
	N    int    // rs: new state nonce
	B    int64  // rs: new balance
	G    uint64 // rs: new block gas limit
	F    int    // gp: new price
	S    []int  // ex: accounts that have been silent for longer than Lifetime
	Res  string // result class the specification gives (replay) / the real pool gave (record)
	Ev   []Tx   // transactions evicted by the pool-full branch
	Alts int    // number of outcomes the specification allows
	Dig  []Tx   // pooled set of the chosen outcome when Alts > 1
}

func (st Step) label() []interface{} {
	switch st.Op {
	case "ar", "al", "xr", "xl":
		return []interface{}{st.Op, st.T.A, st.T.N, st.T.P, st.T.K}
	case "ab":
		return []interface{}{st.Op, st.T.tuple(), st.T2.tuple()}
	case "bb", "bl":
		return []interface{}{st.Op, tuples(st.Ts)}
	case "rs":
		return []interface{}{st.Op, st.A, st.N, st.B, st.G}
	case "mn":
		return []interface{}{st.Op, st.A, st.K}
	case "gp":
		return []interface{}{st.Op, st.F}
	case "ex":
		return []interface{}{st.Op, st.S}
	}
	return []interface{}{st.Op}
}

// apply performs the operation on the real pool and returns its result class.  Every call into
// the pool runs under recover: a panic is a result class of its own.
func (s *sut) apply(st Step) (res string) {
	defer func() {
		if r := recover(); r != nil {
			res = fmt.Sprintf("PANIC:%v", r)
		}
	}()
	switch st.Op {
	case "ar":
		return classify(s.pool.AddRemotesSync([]*types.Transaction{s.w.tx(st.T)})[0])
	case "al":
		return classify(s.pool.AddLocal(s.w.tx(st.T)))
	case "ab":
		errs := s.pool.AddRemotesSync([]*types.Transaction{s.w.tx(st.T), s.w.tx(st.T2)})
		return classify(errs[0]) + "+" + classify(errs[1])
	case "bb", "bl":
		// a whole batch in ONE call; the answer is the error vector, slot by slot
		txs := make([]*types.Transaction, len(st.Ts))
		for i, t := range st.Ts {
			txs[i] = s.w.tx(t)
		}
		var errs []error
		if st.Op == "bb" {
			errs = s.pool.AddRemotesSync(txs)
		} else {
			errs = s.pool.AddLocals(txs)
		}
		if len(errs) != len(txs) {
			return fmt.Sprintf("ERR:%d results for %d transactions", len(errs), len(txs))
		}
		parts := make([]string, len(errs))
		for i, e := range errs {
			parts[i] = classify(e)
		}
		return strings.Join(parts, "+")
	case "xr", "xl":
		// AddLocals passes !NoLocals as the local flag; addTxs then requests a run of the reorg loop
		s.owed = true
		errs, dirty := s.pool.VerifAddLocked([]*types.Transaction{s.w.tx(st.T)}, st.Op == "xl" && !s.c.NoLocals)
		for _, a := range dirty {
			s.dirty[a] = true
		}
		return classify(errs[0])
	case "pr":
		s.pool.VerifRunReorg(false, s.dirtyList())
		s.dirty, s.owed = map[common.Address]bool{}, false
		return "ok"
	case "rs":
		blk := s.chain.head(st.A, uint64(st.N), st.B, st.G)
		if !s.owed && s.evPath {
			s.headEvent(blk) // feed -> loop() -> requestReset(old head, new head) -> reorg loop
		} else if !s.owed {
			s.pool.VerifReset() // requestReset(nil, nil) -> reorg loop
		} else {
			// the head event absorbs the promotion that is still owed (scheduleReorgLoop merges them)
			s.pool.VerifRunReorg(true, s.dirtyList())
			s.dirty, s.owed = map[common.Address]bool{}, false
		}
		return "ok"
	case "mn":
		// the next block contains the first K transactions the pool offers for account A
		offered, _ := s.pool.Pending()
		txs := offered[s.w.addr(st.A)]
		if len(txs) < st.K {
			return "nothing-to-mine"
		}
		s.headEvent(s.chain.mine(st.A, txs[:st.K]))
		return "ok"
	case "ro":
		// that block is abandoned for an empty sibling
		s.sawRo = true
		s.headEvent(s.chain.abandon())
		return "ok"
	case "gp":
		s.pool.SetGasPrice(big.NewInt(int64(st.F)))
		return "ok"
	case "ex":
		// more than Lifetime passes for the accounts of S and for every local account; the eviction
		// ticker (1 ms in these runs) must then empty the queues of S and nothing else.
		var age []common.Address
		for _, a := range st.S {
			age = append(age, s.w.addr(a))
		}
		age = append(age, s.pool.Locals()...)
		s.pool.VerifAge(age)
		deadline := time.Now().Add(20 * time.Second)
		for {
			left := 0
			for _, a := range st.S {
				_, q := s.pool.ContentFrom(s.w.addr(a))
				left += len(q)
			}
			if left == 0 {
				return "ok"
			}
			if time.Now().After(deadline) {
				return "not-evicted"
			}
			time.Sleep(50 * time.Microsecond)
		}
	case "rst":
		s.pool.Stop()
		s.pool = tx_pool.NewTxPool(s.c.poolConfig(s.w, s.journal), s.w.chainCfg(), s.chain)
		return "ok"
	}
	return "unknown-op"
}

type finding struct{ sig, text string }

// statement evaluates the clauses of C17 directly on the real pool against the REAL chain state of
// the stub.  justReorg: the operation ended with a run of the reorganisation; promoted: the account
// whose own promotion just ran (0 if none).
func (s *sut) statement(o, prev *Obs, st Step, got string, full bool) []finding {
	op := st.Op
	var out []finding
	bad := func(clause, format string, a ...interface{}) {
		out = append(out, finding{"pool:statement:" + clause, fmt.Sprintf(format, a...)})
	}
	ch := s.chain
	ch.mu.Lock()
	nonce := append([]uint64(nil), ch.nonce...)
	bal := append([]int64(nil), ch.bal...)
	gas := ch.gas
	ch.mu.Unlock()

	// what the pool OFFERS
	offered, err := s.pool.Pending()
	if err != nil {
		bad("pending-error", "Pending() failed: %v", err)
	}
	nOffered := 0
	for addr, txs := range offered {
		a := s.w.byAddr[addr]
		if a == 0 {
			bad("unknown-account", "Pending() lists unknown account %x", addr)
			continue
		}
		next := nonce[a-1]
		for _, tx := range txs {
			nOffered++
			if tx.Nonce() != next {
				// attributed to the operation after which it arises (the account's offer was gap-free before)
				if !gapped(prev, a) {
					// known deviation: a reorganisation can leave a hole, or leave Nonce(a) wrong so that the hole
					// opens with the account's next promotion; both are attributed to the reorganisation
					cause := "after-" + op
					if s.sawRo && unsound(prev, a) {
						cause = "after-ro"
					}
					bad("gap-free:"+cause, "account %d: offered nonce %d where %d is due (state nonce %d)", a, tx.Nonce(), next, nonce[a-1])
				}
			}
			next = tx.Nonce() + 1
			if tx.Cost().Cmp(big.NewInt(bal[a-1])) > 0 {
				bad("affordable", "account %d: offered nonce %d costs %v, balance %d", a, tx.Nonce(), tx.Cost(), bal[a-1])
			}
			if tx.Gas() > gas {
				bad("block-gas", "account %d: offered nonce %d has gas %d, block gas limit %d", a, tx.Nonce(), tx.Gas(), gas)
			}
			if from, err := types.Sender(types.NewChainIDSigner(s.w.chainCfg().ChainID), tx); err != nil || from != addr {
				bad("sender", "account %d: offered transaction has sender %x (%v)", a, from, err)
			}
		}
	}
	if nOffered != len(o.P) {
		bad("pending-vs-content", "Pending() offers %d transactions, Content() lists %d pending", nOffered, len(o.P))
	}
	// no transaction (and no nonce) is both pending and queued; already-mined ones are gone
	inP, inQ := map[Tx]bool{}, map[Tx]bool{}
	slotP, slotQ := map[[2]int]int{}, map[[2]int]int{}
	for _, t := range o.P {
		inP[t] = true
		slotP[[2]int{t.A, t.N}]++
	}
	for _, t := range o.Q {
		inQ[t] = true
		slotQ[[2]int{t.A, t.N}]++
		if inP[t] {
			bad("disjoint", "%v is both pending and queued", t)
		}
		if slotP[[2]int{t.A, t.N}] > 0 {
			bad("disjoint-nonce", "account %d nonce %d is both pending and queued", t.A, t.N)
		}
		if big.NewInt(valOf(t.K)+int64(gasOf(t.K))*int64(t.P)).Cmp(big.NewInt(bal[t.A-1])) > 0 || gasOf(t.K) > gas {
			// not part of the statement (queued transactions are not offered): lock-step only
			_ = t
		}
	}
	for k, n := range slotP {
		if n > 1 {
			bad("replaced-gone", "account %d nonce %d is pending %d times", k[0], k[1], n)
		}
	}
	for k, n := range slotQ {
		if n > 1 {
			bad("replaced-gone", "account %d nonce %d is queued %d times", k[0], k[1], n)
		}
	}
	for _, t := range append(append([]Tx{}, o.P...), o.Q...) {
		if uint64(t.N) < nonce[t.A-1] {
			bad("mined-gone", "%v is still pooled, state nonce %d", t, nonce[t.A-1])
		}
	}
	// every indexed transaction is in exactly one list (Get/Has/Status against the lists)
	check := func(t Tx) {
		tx := s.w.tx(t)
		h := tx.Hash()
		has := s.pool.Has(h)
		got := s.pool.Get(h)
		st := s.pool.Status([]common.Hash{h})[0]
		listed := 0
		if inP[t] {
			listed++
		}
		if inQ[t] {
			listed++
		}
		if has != (got != nil) || (got != nil && got.Hash() != h) {
			bad("indexed", "%v: Has=%v but Get=%v", t, has, got != nil)
		}
		if has != (listed == 1) {
			bad("indexed", "%v: indexed=%v, in %d lists", t, has, listed)
		}
		want := tx_pool.TxStatusUnknown
		if inP[t] {
			want = tx_pool.TxStatusPending
		} else if inQ[t] {
			want = tx_pool.TxStatusQueued
		}
		if st != want {
			bad("indexed", "%v: Status=%d, lists say %d", t, st, want)
		}
	}
	if full {
		s.w.mu.RLock()
		all := make([]Tx, 0, len(s.w.txs))
		for t := range s.w.txs {
			if t.A <= s.c.Accts {
				all = append(all, t)
			}
		}
		s.w.mu.RUnlock()
		for _, t := range all {
			check(t)
		}
	} else {
		for _, t := range o.P {
			check(t)
		}
		for _, t := range o.Q {
			check(t)
		}
	}
	if p, q := s.pool.Stats(); p != len(o.P) || q != len(o.Q) {
		bad("stats", "Stats() = (%d, %d), lists hold (%d, %d)", p, q, len(o.P), len(o.Q))
	}
	// configured slot limits, local senders exempt
	local := map[int]bool{}
	for _, a := range o.L {
		local[a] = true
	}
	slots, remoteSlots := 0, 0
	perP := map[int]int{}
	isLocalFlag := map[Tx]bool{}
	for _, t := range o.LL {
		isLocalFlag[t] = true
	}
	for _, t := range o.P {
		perP[t.A]++
	}
	for _, t := range append(append([]Tx{}, o.P...), o.Q...) {
		slots += slotsOf(t.K)
		if !isLocalFlag[t] {
			remoteSlots += slotsOf(t.K)
		}
	}
	if uint64(slots) > s.c.GlobalSlots+s.c.GlobalQueue && remoteSlots > 0 && (prev == nil || slotSum(pooled(prev)) < slots) {
		cause := ""
		if s.resurrectedEvicted(prev, o) {
			cause = ":resurrected-heap-entry" // known deviation: the evicted transaction was counted twice
		}
		bad("limit-total"+cause, "%d slots pooled (%d of them remote), GlobalSlots+GlobalQueue = %d", slots, remoteSlots, s.c.GlobalSlots+s.c.GlobalQueue)
	}
	if uint64(len(o.P)) > s.c.GlobalSlots {
		for a, n := range perP {
			if !local[a] && uint64(n) > s.c.AccountSlots {
				bad("limit-pending", "%d pending > GlobalSlots %d while non-local account %d holds %d > AccountSlots %d", len(o.P), s.c.GlobalSlots, a, n, s.c.AccountSlots)
			}
		}
	}
	// one step of the pool: replacement only with the price bump; transactions of local senders leave
	// only when mined, unpayable, too large for a block, or replaced with the bump
	if prev != nil && op != "rst" {
		now := map[[2]int]Tx{}
		for _, t := range pooled(o) {
			now[[2]int{t.A, t.N}] = t
		}
		wasLocal := map[int]bool{}
		for _, a := range prev.L {
			wasLocal[a] = true
		}
		bumps := func(nw, old Tx) bool {
			return nw.P > old.P && uint64(nw.P) >= uint64(old.P)*(100+s.c.PriceBump)/100
		}
		for _, t := range pooled(prev) {
			u, still := now[[2]int{t.A, t.N}]
			if still && u == t {
				continue
			}
			if still && !bumps(u, t) {
				// cause "pool-full": the pool-full branch of add() may evict the very transaction the new one
				// competes with before the price bump is tested (known deviation); anything else is new
				cause := ""
				if isAdd(op) || op == "ab" || op == "bb" || op == "bl" {
					if fullBefore(prev, s.c, append([]Tx{st.T, st.T2}, st.Ts...)...) {
						cause = ":pool-full"
					}
				}
				bad("replacement-without-bump"+cause, "%v was replaced by %v (PriceBump %d%%)", t, u, s.c.PriceBump)
			}
			if wasLocal[t.A] {
				cost := valOf(t.K) + int64(gasOf(t.K))*int64(t.P)
				excused := uint64(t.N) < nonce[t.A-1] || cost > bal[t.A-1] || gasOf(t.K) > gas || (still && bumps(u, t))
				if !excused {
					bad("local-evicted:after-"+op, "%v of local account %d left the pool although it is neither mined, unpayable nor replaced", t, t.A)
				}
			}
		}
	}
	// the journal hands the journaled transactions of local accounts back after a restart
	if prev != nil && op == "rst" && s.journal != "" {
		now := map[[2]int]bool{}
		for _, t := range pooled(o) {
			now[[2]int{t.A, t.N}] = true
		}
		inJ := map[Tx]bool{}
		for _, t := range prev.J {
			inJ[t] = true
		}
		for _, t := range pooled(prev) {
			if inJ[t] && !now[[2]int{t.A, t.N}] {
				bad("journal-lost", "%v was pooled and journaled before the restart; after it nothing is pooled for that nonce", t)
			}
		}
	}
	// Nonce(addr) is one above the highest offered nonce of the account, or the state nonce when nothing is
	// offered (the pool promotes from this number: a stale-high value opens a nonce gap with the next submission).
	// Attributed to the operation after which it arises.  Named deviation: after a reorganisation that left a hole
	// (known finding gap-free:after-ro) the truncation of the holed list leaves it wrong -- counted, not reported.
	for a := 1; a <= len(o.N) && a <= len(o.CN); a++ {
		if msg := nonceRelation(o, a); msg != "" && nonceRelation(prev, a) == "" {
			if s.sawRo {
				s.nonceAfterRo++
				continue
			}
			bad("nonce-next-pending:after-"+op, "%s", msg)
		}
	}
	// The queue limits are read strictly (they are configured limits and the statement exempts only
	// local senders).  A violation is attributed to the operation after which it ARISES or grows, and
	// only in quiescent states (no promotion run owed): sig ...:after-<op>.
	if len(o.D) == 0 {
		nonLocalQ := func(x *Obs) (total int, per map[int]int) {
			per = map[int]int{}
			loc := map[int]bool{}
			for _, a := range x.L {
				loc[a] = true
			}
			for _, t := range x.Q {
				if !loc[t.A] {
					per[t.A]++
				}
			}
			return len(x.Q), per
		}
		tot, per := nonLocalQ(o)
		ptot, pper := 0, map[int]int{}
		if prev != nil {
			ptot, pper = nonLocalQ(prev)
		}
		// cause of an excess: "reset-demotion" (demoteUnexecutables runs after the per-account cap),
		// "removal-demotion" (removeTx in SetGasPrice / the pool-full eviction moves the followers of a removed
		// pending transaction of ANOTHER account back to its queue and no cap / truncation follows) -- both known
		// deviations; otherwise the operation itself is named
		senders := map[int]bool{}
		switch op {
		case "ar", "al", "xr", "xl":
			senders[st.T.A] = true
		case "ab":
			senders[st.T.A], senders[st.T2.A] = true, true
		case "bb", "bl":
			for _, t := range st.Ts {
				senders[t.A] = true
			}
		}
		cause := func(a int) string {
			switch {
			case op == "rs" || op == "mn" || op == "ro":
				return "reset-demotion"
			case op == "gp", (op == "ar" || op == "al" || op == "ab" || op == "bb" || op == "bl") && a != 0 && !senders[a]:
				return "removal-demotion"
			}
			return "after-" + op
		}
		if uint64(tot) > s.c.GlobalQueue && len(per) > 0 && (tot > ptot || len(pper) == 0) {
			bad("limit-global-queue:"+cause(0), "%d queued > GlobalQueue %d with non-local accounts %v among them (before the operation: %d queued)", tot, s.c.GlobalQueue, per, ptot)
		}
		accts := make([]int, 0, len(per))
		for a := range per {
			accts = append(accts, a)
		}
		sort.Ints(accts)
		for _, a := range accts {
			if uint64(per[a]) > s.c.AccountQueue && per[a] > pper[a] {
				bad("limit-account-queue:"+cause(a), "non-local account %d holds %d queued > AccountQueue %d (before the operation: %d)", a, per[a], s.c.AccountQueue, pper[a])
			}
		}
	}
	// "invalid submissions are rejected with an error without changing the pool": judged on the critical
	// section ("xr"/"xl"); for the synchronous calls the caller adds the case where the specification says the
	// change is not housekeeping (evicted set not empty)
	if prev != nil && (op == "xr" || op == "xl") && rejected(got) && prev.content() != o.content() {
		cause := ""
		if fullBefore(prev, s.c, st.T) {
			cause = ":pool-full"
		}
		bad("rejected-changed-pool:"+got+cause, "the submission of %v was rejected (%s) but the pool changed from %s to %s", st.T, got, prev.content(), o.content())
	}
	// who submits through AddLocal is a local sender afterwards
	if (op == "al" || op == "xl") && got == "ok" && !s.c.NoLocals {
		isLocal := false
		for _, a := range o.L {
			isLocal = isLocal || a == st.T.A
		}
		if !isLocal {
			cause := ""
			if prev != nil {
				for _, t := range prev.P {
					if t.A == st.T.A && t.N == st.T.N {
						cause = ":replaced-pending" // known deviation: that path of add() returns before marking
					}
				}
			}
			bad("addlocal-sender-not-local"+cause, "AddLocal accepted %v but account %d is not local afterwards (locals %v)", st.T, st.T.A, o.L)
		}
	}
	return out
}

func slotSum(x []Tx) int {
	n := 0
	for _, t := range x {
		n += slotsOf(t.K)
	}
	return n
}

// gapped: in observation x the pending transactions of account a are not the run CN[a], CN[a]+1, ...
func gapped(x *Obs, a int) bool {
	if x == nil || a-1 >= len(x.CN) {
		return false
	}
	next := x.CN[a-1]
	for _, t := range x.P { // sorted by account, nonce
		if t.A == a {
			if t.N != next {
				return true
			}
			next++
		}
	}
	return false
}

// unsound: in observation x account a is offered a gapped sequence or Nonce(a) is not "state nonce + number of
// offered transactions"
func unsound(x *Obs, a int) bool {
	if x == nil || a-1 >= len(x.CN) || a-1 >= len(x.N) {
		return false
	}
	n := 0
	for _, t := range x.P {
		if t.A == a {
			n++
		}
	}
	return gapped(x, a) || x.N[a-1] != x.CN[a-1]+n
}

// fullBefore: the lookup was at GlobalSlots+GlobalQueue, so a further slot needs the pool-full branch
func fullBefore(prev *Obs, c *Config, sub ...Tx) bool {
	n, need := 0, 0
	for _, t := range pooled(prev) {
		n += slotsOf(t.K)
	}
	for _, t := range sub { // a batch: the later element meets the pool with the earlier ones added
		if t.K != "" {
			need += slotsOf(t.K)
		}
	}
	if need == 0 {
		need = 1
	}
	return uint64(n+need) > c.GlobalSlots+c.GlobalQueue
}

// nonceRelation: "" if in observation x Nonce(a) = highest offered nonce + 1 (state nonce if nothing is offered)
func nonceRelation(x *Obs, a int) string {
	if x == nil || a-1 >= len(x.N) || a-1 >= len(x.CN) {
		return ""
	}
	want, n := x.CN[a-1], 0
	for _, t := range x.P {
		if t.A == a {
			n++
			if t.N+1 > want {
				want = t.N + 1
			}
		}
	}
	if x.N[a-1] != want {
		return fmt.Sprintf("Nonce(account %d) = %d, but the state nonce is %d and %d transactions are offered up to nonce %d", a, x.N[a-1], x.CN[a-1], n, want-1)
	}
	return ""
}
