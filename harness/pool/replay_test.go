package pool

import (
	"encoding/json"
	"fmt"
	"os"
	"path/filepath"
	"sort"
	"strings"
	"testing"
	"time"

	"github.com/kardiachain/go-kardia/lib/log"
	"github.com/kardiachain/go-kardia/mainchain/tx_pool"

	"verifharness/internal/mbt"
)

// dump line of MC_TxPool: h = history (compact tuples), o = every outcome the specification allows
// for the last operation of h.
type specObs struct {
	P  [][]interface{} `json:"p"`
	Q  [][]interface{} `json:"q"`
	N  []int           `json:"n"`
	L  []int           `json:"l"`
	F  int             `json:"f"`
	LL [][]interface{} `json:"ll"`
	D  []int           `json:"d"`
	J  [][]interface{} `json:"j"`
}
type alt struct {
	R resClass `json:"r"`
	O specObs  `json:"o"`
}

// resClass: a result class, or for a batch the classes joined with "+"
type resClass string

func (r *resClass) UnmarshalJSON(b []byte) error {
	var s string
	if json.Unmarshal(b, &s) == nil {
		*r = resClass(s)
		return nil
	}
	var a []string
	if err := json.Unmarshal(b, &a); err != nil {
		return err
	}
	*r = resClass(strings.Join(a, "+"))
	return nil
}

func resOf(x interface{}) string {
	if s, ok := x.(string); ok {
		return s
	}
	var parts []string
	for _, v := range x.([]interface{}) {
		parts = append(parts, v.(string))
	}
	return strings.Join(parts, "+")
}

type line struct {
	H [][]interface{} `json:"h"`
	O []alt           `json:"o"`
}

func num(x interface{}) int { return int(x.(float64)) }

func toTx(a []interface{}) Tx { return Tx{num(a[0]), num(a[1]), num(a[2]), a[3].(string)} }
func toTxs(a [][]interface{}) []Tx {
	out := make([]Tx, 0, len(a))
	for _, x := range a {
		out = append(out, toTx(x))
	}
	sortTx(out)
	return out
}
func toInts(x interface{}) []int {
	var out []int
	for _, v := range x.([]interface{}) {
		out = append(out, num(v))
	}
	sort.Ints(out)
	return out
}
func toTxsI(x interface{}) []Tx {
	var out []Tx
	for _, v := range x.([]interface{}) {
		out = append(out, toTx(v.([]interface{})))
	}
	sortTx(out)
	return out
}

// parseStep turns one history tuple <<op, args..., res, ev, alts, digest>> into a Step.
func parseStep(a []interface{}) (st Step, err error) {
	defer func() {
		if r := recover(); r != nil {
			err = fmt.Errorf("bad step %v: %v", a, r)
		}
	}()
	st.Op = a[0].(string)
	n := len(a)
	st.Res = resOf(a[n-4])
	st.Ev = toTxsI(a[n-3])
	st.Alts = num(a[n-2])
	st.Dig = toTxsI(a[n-1])
	switch st.Op {
	case "ar", "al", "xr", "xl":
		st.T = toTx(a[1:5])
	case "ab":
		st.T, st.T2 = toTx(a[1].([]interface{})), toTx(a[2].([]interface{}))
	case "bb", "bl":
		for _, x := range a[1].([]interface{}) {
			st.Ts = append(st.Ts, toTx(x.([]interface{})))
		}
	case "rs":
		st.A, st.N, st.B, st.G = num(a[1]), num(a[2]), int64(num(a[3])), uint64(num(a[4]))
	case "mn":
		st.A, st.K = num(a[1]), num(a[2])
	case "gp":
		st.F = num(a[1])
	case "ex":
		st.S = toInts(a[1])
	case "pr", "rst", "ro":
	default:
		return st, fmt.Errorf("unknown operation %q", st.Op)
	}
	return st, nil
}

func (so *specObs) obs() *Obs {
	o := &Obs{P: toTxs(so.P), Q: toTxs(so.Q), N: so.N, L: append([]int(nil), so.L...), F: so.F, LL: toTxs(so.LL),
		D: append([]int(nil), so.D...), J: toTxs(so.J)}
	sort.Ints(o.L)
	sort.Ints(o.D)
	return o
}

// accepted: the accept/reject pattern of a result ("ok" / anything else, per element of a batch)
func accepted(res string) string {
	parts := strings.Split(res, "+")
	for i, p := range parts {
		if p == "ok" {
			parts[i] = "1"
		} else {
			parts[i] = "0"
		}
	}
	return strings.Join(parts, "+")
}

func pooled(o *Obs) []Tx {
	x := append(append([]Tx{}, o.P...), o.Q...)
	sortTx(x)
	return x
}

func isAdd(op string) bool     { return op == "ar" || op == "al" || op == "xr" || op == "xl" }
func rejected(res string) bool { return !strings.Contains(accepted(res), "1") }

// happy path of the family: an accepted submission that lands in pending or queue without evicting,
// replacing or being capped.  Everything else is a non-trivial case.
func nontrivial(steps []Step) bool {
	last := steps[len(steps)-1]
	return !(isAdd(last.Op) && last.Res == "ok" && len(last.Ev) == 0 && last.Alts == 1)
}

func TestReplay(t *testing.T) {
	res := mbt.NewResult()
	defer res.Write()
	log.Root().SetHandler(log.DiscardHandler())
	c, err := loadConfig()
	if err != nil {
		res.Mismatch("infra:config", err.Error(), nil)
		return
	}
	if os.Getenv("POOL_EVICT") == "1" {
		// the eviction ticker of loop() is the only way to reach the expiry code: let it tick every ms
		defer tx_pool.VerifSetEvictionInterval(tx_pool.VerifSetEvictionInterval(time.Millisecond))
	}
	w := newWorld(c.Accts)
	for _, a := range c.BlackAccts {
		tx_pool.Blacklisted[w.addr(a).Hex()] = true
	}
	scratch := os.Getenv("VERIF_SCRATCH")
	if scratch == "" {
		scratch = os.TempDir()
	}
	pfx := "pool:"
	var diverged, lockstepDiffs, classDiffs, nonceAfterRo int64
	cnt := newCounter()
	checkPrefix := mbt.EnvInt("POOL_STRIDE", 1) > 1 || mbt.EnvInt("POOL_LIMIT", 0) > 0
	cases := newTally()
	sent, err := mbt.EachLine(os.Getenv("POOL_DUMP"), mbt.EnvInt("POOL_WORKERS", 0), mbt.EnvInt("POOL_LIMIT", 0), mbt.EnvInt("POOL_STRIDE", 1), mbt.Seed(), func(n int, raw []byte) {
		var l line
		if err := json.Unmarshal(raw, &l); err != nil {
			res.Mismatch("infra:parse", err.Error(), string(raw))
			return
		}
		steps := make([]Step, len(l.H))
		for i, a := range l.H {
			st, err := parseStep(a)
			if err != nil {
				res.Mismatch("infra:parse", err.Error(), string(raw))
				return
			}
			steps[i] = st
		}
		s := newSut(w, c, filepath.Join(scratch, fmt.Sprintf("journal-%d.rlp", n)))
		defer s.close()
		s.evPath = n%2 == 1 || os.Getenv("POOL_EVPATH") == "1" // alternate between the two ways a head event reaches the pool
		detail := func(k int, extra map[string]interface{}) map[string]interface{} {
			d := map[string]interface{}{"config": c, "history": l.H, "step": k + 1, "seed": mbt.Seed()}
			for x, y := range extra {
				d[x] = y
			}
			return d
		}
		var prev *Obs
		if o, err := s.observe(); err == nil {
			prev = o
		}
		for k, st := range steps {
			lastStep := k == len(steps)-1
			got := s.apply(st)
			resultOK := accepted(got) == accepted(st.Res)
			if !resultOK && st.Alts > 1 {
				// the specification had a choice here and another branch may answer differently
				if !lastStep {
					cnt.add(&diverged)
					return
				}
				for i := range l.O {
					if accepted(string(l.O[i].R)) == accepted(got) {
						resultOK = true
					}
				}
			}
			if !resultOK || len(got) > 5 && got[:6] == "PANIC:" {
				res.Mismatch(pfx+"result:"+st.Op+":"+st.Res+"->"+got,
					fmt.Sprintf("[%s] step %d of %v: the real pool answered %q, the specification says %q", c.Tag, k+1, l.H, got, st.Res),
					detail(k, nil))
				return
			}
			if (st.Op == "bb" || st.Op == "bl") && st.Alts == 1 && got != st.Res {
				// the accept/reject pattern agrees but a slot carries another transaction's error class: the vector is
				// per slot, a shifted class is a wrong answer about that submission
				res.Mismatch(pfx+"result-vector:"+st.Op,
					fmt.Sprintf("[%s] step %d of %v: the real pool answered %q slot by slot, the specification says %q", c.Tag, k+1, l.H, got, st.Res),
					detail(k, nil))
				return
			}
			if got != st.Res && st.Alts == 1 {
				cnt.add(&classDiffs)
				res.Set("first_class_diff", fmt.Sprintf("[%s] %v step %d: real %q, specified %q", c.Tag, l.H, k+1, got, st.Res))
			}
			if !lastStep && !checkPrefix && st.Alts == 1 && k != len(steps)-2 {
				// every transition is the last step of its own line: with stride 1 the prefix has been
				// judged there and only has to be re-executed here
				prev = nil
				s.trackOnly()
				continue
			}
			o, err := s.observe()
			if err != nil {
				res.Mismatch(pfx+"observe:"+st.Op, fmt.Sprintf("[%s] after step %d of %v: %v", c.Tag, k+1, l.H, err), detail(k, nil))
				return
			}
			// the clauses of the statement, directly on the real pool
			if !lastStep && !checkPrefix {
				if st.Alts > 1 && txKey(pooled(o)) != txKey(st.Dig) {
					cnt.add(&diverged)
					return
				}
				prev = o
				continue
			}
			for _, f := range s.statement(o, prev, st, got, lastStep) {
				res.Mismatch(f.sig, fmt.Sprintf("[%s] after step %d of %v: %s", c.Tag, k+1, l.H, f.text),
					detail(k, map[string]interface{}{"pool": o}))
			}
			// a synchronous submission that is rejected although the specification says the critical section had
			// already evicted (known deviation of the pool-full branch; housekeeping of the reorg is not meant)
			if (st.Op == "ar" || st.Op == "al") && rejected(got) && prev != nil && len(st.Ev) > 0 && prev.content() != o.content() {
				cause := ""
				if fullBefore(prev, c, st.T) {
					cause = ":pool-full"
				}
				res.Mismatch(pfx+"statement:rejected-changed-pool:"+got+cause,
					fmt.Sprintf("[%s] step %d of %v: the submission was rejected (%s) but the pool changed from %s to %s", c.Tag, k+1, l.H, got, prev.content(), o.content()),
					detail(k, map[string]interface{}{"before": prev, "after": o}))
			}
			if !lastStep {
				// follow the path TLC took: where the specification had a choice the real pool may have
				// taken another allowed branch (judged where this transition is the last one of a line)
				if st.Alts > 1 && txKey(pooled(o)) != txKey(st.Dig) {
					cnt.add(&diverged)
					return
				}
				prev = o
				continue
			}
			// last step: the real outcome must be one of the allowed ones
			okContent, okAll := false, false
			for i := range l.O {
				so := l.O[i].O.obs()
				if accepted(string(l.O[i].R)) == accepted(got) && so.content() == o.content() {
					okContent = true
					if so.lockstep() == o.lockstep() && string(l.O[i].R) == got {
						okAll = true
					}
				}
			}
			if !okContent {
				var want []string
				for i := range l.O {
					want = append(want, string(l.O[i].R)+" "+l.O[i].O.obs().content())
				}
				cause := ""
				if isAdd(st.Op) || st.Op == "ab" {
					if s.resurrectedEvicted(prev, o) {
						cause = ":resurrected-heap-entry" // known deviation from the ideal price heap of the specification
					}
				}
				res.Mismatch(pfx+"content:"+st.Op+cause,
					fmt.Sprintf("[%s] after %v the real pool holds %s %s; the specification allows %v", c.Tag, l.H, got, o.content(), want),
					detail(k, map[string]interface{}{"real": o, "allowed": l.O}))
				return
			}
			if s.journal != "" {
				// the journal file decides what the next restart gives back: it must hold what the specification's
				// journal holds (as a multiset; a regenerated journal follows Go map order)
				okJ := false
				for i := range l.O {
					so := l.O[i].O.obs()
					okJ = okJ || (so.content() == o.content() && txKey(so.J) == txKey(o.J))
				}
				if !okJ {
					res.Mismatch(pfx+"journal:"+st.Op,
						fmt.Sprintf("[%s] after %v the journal file holds [%s]; the specification allows %v", c.Tag, l.H, txKey(o.J), l.O),
						detail(k, map[string]interface{}{"real": o, "allowed": l.O}))
					return
				}
			}
			// pool.Nonce(addr) of every account is an observed part of the state: it must be what the transcribed
			// pendingNonces map of the specification holds in one of the allowed outcomes with this content
			okN := false
			for i := range l.O {
				so := l.O[i].O.obs()
				okN = okN || (so.content() == o.content() && fmt.Sprint(so.N) == fmt.Sprint(o.N))
			}
			if !okN {
				var want []string
				for i := range l.O {
					want = append(want, fmt.Sprint(l.O[i].O.N))
				}
				res.Mismatch(pfx+"nonce:"+st.Op,
					fmt.Sprintf("[%s] after %v pool.Nonce per account is %v; the specification's pendingNonces map holds %v (pool: %s)", c.Tag, l.H, o.N, want, o.content()),
					detail(k, map[string]interface{}{"real": o, "allowed": l.O}))
				return
			}
			if !okAll {
				cnt.add(&lockstepDiffs)
				res.Set("first_lockstep_diff", fmt.Sprintf("[%s] %v: real %s %s, specified %v", c.Tag, l.H, got, o.lockstep(), l.O))
			}
			if s.nonceAfterRo > 0 {
				cnt.add(&nonceAfterRo)
			}
		}
		res.Count(1)
		last := steps[len(steps)-1]
		cases.add(last.Op + ":" + last.Res)
		if last.Alts > 1 {
			cases.add("choice:" + last.Op)
		}
		if len(last.Ev) > 0 {
			cases.add("evict:" + last.Op + ":" + last.Res)
		}
		if nontrivial(steps) {
			hb, _ := json.Marshal(l.H)
			res.Distinct(fmt.Sprintf("%x", digest(hb)))
		}
		if n%4999 == 1 || (len(steps) >= 4 && steps[len(steps)-1].Alts > 1 && n%97 == 0) {
			res.Sample(map[string]interface{}{"config": c.Tag, "behaviour": l.H, "allowed": l.O})
		}
	})
	if err != nil {
		res.Mismatch("infra:read", err.Error(), nil)
	}
	if sent == 0 {
		res.Mismatch("infra:empty", "no transitions in "+os.Getenv("POOL_DUMP"), nil)
	}
	res.Behaviours = sent
	res.Set("replayed_"+c.Tag, sent)
	res.Set("cases_"+c.Tag, cases.m)
	res.Set("diverged_"+c.Tag, cnt.get(&diverged))
	res.Set("lockstep_diffs_"+c.Tag, cnt.get(&lockstepDiffs))
	res.Set("class_diffs_"+c.Tag, cnt.get(&classDiffs))
	if n := cnt.get(&nonceAfterRo); n > 0 {
		res.Set("nonce_relation_broken_after_reorg_"+c.Tag, n)
	}
}
