// Package wal binds specs/wal (WAL.tla) to the real consensus write-ahead log of /repo
// (consensus.BaseWAL, WALEncoder/WALDecoder, SearchForEndHeight, repairWalFile,
// lib/autofile.Group) — property C15.
//
// gen_test.go: seeded generators of real WAL messages of every kind.
package wal

import (
	"math"
	"math/rand"
	"time"

	"github.com/kardiachain/go-kardia/consensus"
	cstypes "github.com/kardiachain/go-kardia/consensus/types"
	"github.com/kardiachain/go-kardia/lib/common"
	"github.com/kardiachain/go-kardia/lib/merkle"
	"github.com/kardiachain/go-kardia/lib/p2p"
	kproto "github.com/kardiachain/go-kardia/proto/kardiachain/types"
	"github.com/kardiachain/go-kardia/types"
)

// Message kinds.  The first six are what consensus/state.go really writes (EndHeight markers,
// round-step events, timeouts, and the three peer/internal messages that go through the
// receive routine); the others are the remaining consensus messages that WALToProto accepts
// inside a msgInfo.
var coreKinds = []string{"eh", "rs", "to", "prop", "part", "vote"}
var extraKinds = []string{"nrs", "nvb", "pol", "hv", "maj23", "vsb"}
var allKinds = append(append([]string{}, coreKinds...), extraKinds...)

// what the abstract kind "m" (any message that is not a marker) is realised by
var msgKinds = allKinds[1:]

func rbytes(r *rand.Rand, n int) []byte {
	b := make([]byte, n)
	r.Read(b)
	return b
}

// ru64 draws from a distribution that hits the varint width boundaries and the extremes.
func ru64(r *rand.Rand) uint64 {
	switch r.Intn(8) {
	case 0:
		return 0
	case 1:
		return math.MaxUint64
	case 2:
		return uint64(r.Intn(128))
	case 3:
		return 1<<uint(7*(1+r.Intn(9))) - uint64(r.Intn(2))
	case 4:
		return math.MaxInt64
	default:
		return r.Uint64() >> uint(r.Intn(64))
	}
}
func ru32(r *rand.Rand) uint32 { return uint32(ru64(r)) }

func rtime(r *rand.Rand) time.Time {
	switch r.Intn(6) {
	case 0:
		return time.Time{}.UTC() // year 1: smallest time protobuf accepts
	case 1:
		return time.Unix(0, 0).UTC()
	case 2:
		return time.Date(9999, 12, 31, 23, 59, 59, 999999999, time.UTC)
	default:
		return time.Unix(r.Int63n(4e9), r.Int63n(1e9)).UTC()
	}
}

func rhash(r *rand.Rand) common.Hash {
	if r.Intn(6) == 0 {
		b := make([]byte, 32) // hashes with zero bytes at the end
		b[0] = byte(1 + r.Intn(255))
		return common.BytesToHash(b)
	}
	return common.BytesToHash(rbytes(r, 32))
}

func rblockID(r *rand.Rand, allowZero bool) types.BlockID {
	if allowZero && r.Intn(3) == 0 {
		return types.BlockID{}
	}
	h := rhash(r)
	ph := rhash(r)
	return types.BlockID{Hash: h, PartsHeader: types.PartSetHeader{Total: 1 + ru32(r)%1000, Hash: ph}}
}

func rbits(r *rand.Rand, bits int) *common.BitArray {
	ba := common.NewBitArray(bits)
	for i := 0; i < bits; i++ {
		ba.SetIndex(i, r.Intn(2) == 0)
	}
	return ba
}

func rpeer(r *rand.Rand) p2p.ID {
	switch r.Intn(4) {
	case 0:
		return "" // internal message
	case 1:
		return p2p.ID(common.Bytes2Hex(rbytes(r, 20)))
	case 2:
		return p2p.ID(rbytes(r, 1+r.Intn(40))) // arbitrary bytes (not valid UTF-8 in general)
	default:
		return "peer"
	}
}

func rvoteType(r *rand.Rand) kproto.SignedMsgType {
	if r.Intn(2) == 0 {
		return kproto.PrevoteType
	}
	return kproto.PrecommitType
}

func rsig(r *rand.Rand) []byte {
	s := rbytes(r, 65)
	s[64] = byte(r.Intn(2)) // recovery id: half of the real signatures end in a zero byte
	return s
}

// genMsg returns a real WAL message of the given kind.  h is the height of an EndHeight marker
// (the only field the specification looks at); every other field is drawn from r.
func genMsg(r *rand.Rand, kind string, h int64) consensus.WALMessage {
	switch kind {
	case "eh":
		return consensus.EndHeightMessage{Height: h}
	case "rs":
		steps := []string{"", "RoundStepNewHeight", "RoundStepPropose", "RoundStepCommit", string(rbytes(r, r.Intn(20)))}
		return types.EventDataRoundState{Height: ru64(r), Round: ru32(r), Step: steps[r.Intn(len(steps))]}
	case "to":
		d := time.Duration(int64(ru64(r)))
		if r.Intn(3) == 0 {
			d = time.Duration(r.Int63n(10)) * time.Second
		}
		return consensus.VerifTimeoutMsg(d, ru64(r), ru32(r), cstypes.RoundStepType(r.Intn(256)))
	case "prop":
		p := &types.Proposal{Height: ru64(r), Round: ru32(r), POLRound: ru32(r), Timestamp: rtime(r),
			POLBlockID: rblockID(r, false), Signature: rsig(r)}
		return consensus.VerifMsgInfo(&consensus.ProposalMessage{Proposal: p}, rpeer(r))
	case "part":
		n := r.Intn(4)
		aunts := make([][]byte, n)
		for i := range aunts {
			aunts[i] = rbytes(r, merkle.Size)
		}
		if n == 0 {
			aunts = nil
		}
		var body []byte
		if r.Intn(5) > 0 {
			body = rbytes(r, 1+r.Intn(200))
			if r.Intn(3) == 0 {
				body[len(body)-1] = 0
			}
		}
		part := &types.Part{Index: ru32(r), Bytes: body,
			Proof: merkle.SimpleProof{Total: ru64(r), Index: ru64(r), LeafHash: rbytes(r, merkle.Size), Aunts: aunts}}
		return consensus.VerifMsgInfo(&consensus.BlockPartMessage{Height: ru64(r), Round: ru32(r), Part: part}, rpeer(r))
	case "vote":
		v := &types.Vote{ValidatorAddress: common.BytesToAddress(rbytes(r, 20)), ValidatorIndex: ru32(r),
			Height: ru64(r), Round: ru32(r), Timestamp: rtime(r), Type: rvoteType(r), BlockID: rblockID(r, true),
			Signature: rsig(r)}
		return consensus.VerifMsgInfo(&consensus.VoteMessage{Vote: v}, rpeer(r))
	case "nrs":
		return consensus.VerifMsgInfo(&consensus.NewRoundStepMessage{Height: ru64(r), Round: ru32(r),
			Step: cstypes.RoundStepType(1 + r.Intn(8)), SecondsSinceStartTime: ru64(r), LastCommitRound: ru32(r)}, rpeer(r))
	case "nvb":
		total := 1 + r.Intn(17)
		return consensus.VerifMsgInfo(&consensus.NewValidBlockMessage{Height: ru64(r), Round: ru32(r),
			BlockPartsHeader: types.PartSetHeader{Total: uint32(total), Hash: rhash(r)},
			BlockParts:       rbits(r, total), IsCommit: r.Intn(2) == 0}, rpeer(r))
	case "pol":
		return consensus.VerifMsgInfo(&consensus.ProposalPOLMessage{Height: ru64(r), ProposalPOLRound: ru32(r),
			ProposalPOL: rbits(r, 1+r.Intn(130))}, rpeer(r))
	case "hv":
		return consensus.VerifMsgInfo(&consensus.HasVoteMessage{Height: ru64(r), Round: ru32(r), Type: rvoteType(r),
			Index: ru32(r)}, rpeer(r))
	case "maj23":
		return consensus.VerifMsgInfo(&consensus.VoteSetMaj23Message{Height: ru64(r), Round: ru32(r), Type: rvoteType(r),
			BlockID: rblockID(r, true)}, rpeer(r))
	case "vsb":
		return consensus.VerifMsgInfo(&consensus.VoteSetBitsMessage{Height: ru64(r), Round: ru32(r), Type: rvoteType(r),
			BlockID: rblockID(r, true), Votes: rbits(r, 1+r.Intn(200))}, rpeer(r))
	}
	panic("unknown kind " + kind)
}
