// tv_test.go: TV.  A seeded random workload on a real consensus.BaseWAL (large logs, every message
// kind, rotation against a fixed byte limit, restarts, crashes), random multi-byte corruption,
// truncation and garbage, the observers of the real code -- recorded as ndjson events that TLC
// validates against specs/wal/WALTrace.tla.
package wal

import (
	"bufio"
	"bytes"
	"encoding/binary"
	"encoding/json"
	"fmt"
	"math/rand"
	"os"
	"path/filepath"
	"strings"
	"testing"

	"verifharness/internal/mbt"
)

type event struct {
	A    string `json:"a"`
	K    string `json:"k"`
	H    int64  `json:"h"`
	Sz   int    `json:"sz"`
	Res  string `json:"res"`
	N    int64  `json:"n"`
	F    int    `json:"f"`
	J    int    `json:"j"`
	C    string `json:"c"`
	Ign  int    `json:"ign"`
	T    string `json:"t"`
	Ids  []int  `json:"ids"`
	End  string `json:"end"`
	id   int    // record written by a w/ws event
	real bool   // Sz is the size seen on disk (before that: an estimate)
}

type recorder struct {
	w      *world
	evs    []*event
	r      *rand.Rand
	height int64
	byID   map[int]*event
	broken string
	noTick bool // behind a damage the sizes of the files are not tracked: no head-size checks
}

func (rc *recorder) add(e *event) *event {
	if e.Ids == nil {
		e.Ids = []int{}
	}
	rc.evs = append(rc.evs, e)
	return e
}

// ehSize: payload size of the EndHeight(0) record that OnStart wrote during the last sync, if any
func (rc *recorder) sync(start bool) int {
	before := rc.w.next
	if p := rc.w.sync(start); p != "" && rc.broken == "" {
		rc.broken = p
		rc.add(&event{A: "unexplainable: " + p})
	}
	// fill in the sizes of the records that have reached the disk
	for _, f := range rc.w.disk {
		for _, s := range f {
			if e := rc.byID[s.id]; e != nil && !e.real {
				e.Sz, e.real = len(rc.w.recs[s.id].orig)-8, true
			}
		}
	}
	if rc.w.next > before { // an EndHeight(0) was written by OnStart
		return len(rc.w.recs[before].orig) - 8
	}
	return 17
}

func (rc *recorder) write() {
	w := rc.w
	kind := "m"
	var h int64
	switch x := rc.r.Intn(20); {
	case x < 3:
		kind = "eh"
		rc.height++
		h = rc.height
	case x == 3 && rc.r.Intn(10) == 0:
		kind = "huge"
	}
	syncd := kind == "eh" || rc.r.Intn(3) == 0 // consensus writes markers and its own messages synced
	id := w.next
	// one write in eight: the group's ticker runs its head-size check INSIDE the write, behind a
	// seeded one of the group writes the real encoder makes for the message (one, as implemented:
	// the specification explains the event as WriteTick with g = 1)
	var tick *event
	if kind != "huge" && !rc.noTick && w.limit > 0 && w.gwPer > 0 && rc.r.Intn(8) == 0 {
		w.fireAt = 1 + rc.r.Intn(w.gwPer)
		w.fire = func() {
			var size int64
			if st, err := os.Stat(w.head()); err == nil {
				size = st.Size()
			}
			g := w.wal.Group()
			before := g.MaxIndex()
			g.VerifCheckHeadSizeLimit()
			tick = &event{N: size, Res: "no", J: 1}
			if g.MaxIndex() != before {
				tick.Res = "rot"
			}
		}
	}
	res := w.write(syncd, kind, h)
	w.fire = nil
	a := "w"
	if syncd {
		a = "ws"
	}
	e := rc.add(&event{A: a, K: kind, H: h, Res: res, id: id})
	if tick != nil {
		e.A, e.N, e.J, e.T = a+"t", tick.N, tick.J, tick.Res // T: what the check did ("rot" / "no")
	}
	if res == "ok" {
		rc.byID[id] = e
		// the size is not known before the record is on disk (the time stamp is taken inside
		// Write); a record that never gets there keeps this estimate, which nothing depends on
		var b bytes.Buffer
		encodeFixed(&b, w.recs[id].msg)
		e.Sz = b.Len() - 8
	} else {
		e.Sz = maxMsg + 1000
	}
	rc.sync(false)
}

func (rc *recorder) ids(r readRes) []int {
	out := []int{}
	for _, f := range r.frames {
		id := -1
		for _, x := range rc.w.recs {
			if bytes.Equal(x.orig, f) {
				id = x.id
			}
		}
		out = append(out, id)
	}
	return out
}

func (rc *recorder) observe(full bool) {
	w := rc.w
	ra := w.readAll()
	rc.add(&event{A: "readall", Ids: rc.ids(ra), End: ra.end})
	for i := range w.disk {
		if full || rc.r.Intn(3) == 0 {
			rf := readFile(w.path(i))
			rc.add(&event{A: "readfile", F: i + 1, Ids: rc.ids(rf), End: rf.end})
		}
	}
	hs := []int64{0, rc.height, rc.height + 1}
	for i := 0; i < 3; i++ {
		hs = append(hs, rc.r.Int63n(rc.height+1))
	}
	for _, h := range hs {
		for ign := 0; ign < 2; ign++ {
			s := w.search(h, ign == 1)
			e := &event{A: "search", H: h, Ign: ign, T: s.t}
			if s.t == "found" {
				e.Ids, e.End = rc.ids(s.rest), s.rest.end
			}
			rc.add(e)
		}
	}
}

// streamPos: is there an undamaged neighbour on both sides of slot (f, j) / of the end of file f?
func (rc *recorder) isolated() bool {
	var flat []string
	for _, f := range rc.w.disk {
		for _, s := range f {
			flat = append(flat, s.d)
		}
	}
	for i := 0; i+1 < len(flat); i++ {
		if flat[i] != "ok" && flat[i+1] != "ok" {
			return false
		}
	}
	return true
}

func cutClassOf(frame []byte, keep int) string {
	switch {
	case keep == 0:
		return "clean"
	case keep <= 3:
		return "cut1_3"
	case keep == 4:
		return "cut4"
	case keep <= 7:
		return "cut5_7"
	case keep == 8:
		return "cut8"
	case keep >= len(frame)-zeroTail(frame):
		return "cutZero"
	}
	return "cutBody"
}

// damage applies one random damage; returns false if the candidate was rejected
func (rc *recorder) damage() bool {
	w := rc.w
	f := rc.r.Intn(len(w.disk))
	save := append([]seg(nil), w.disk[f]...)
	undo := func() bool { w.disk[f] = save; return false }
	var e *event
	switch x := rc.r.Intn(10); {
	case x < 6: // overwrite 1..8 bytes inside one record
		if len(save) == 0 {
			return false
		}
		j := rc.r.Intn(len(save))
		if save[j].d != "ok" {
			return false
		}
		old := save[j].data
		nb := append([]byte(nil), old...)
		off := rc.r.Intn(len(nb))
		if rc.r.Intn(3) == 0 {
			off = rc.r.Intn(8) // the header is a small target
		}
		n := 1 + rc.r.Intn(8)
		if off+n > len(nb) {
			n = len(nb) - off
		}
		rc.r.Read(nb[off : off+n])
		if bytes.Equal(nb, old) {
			return false
		}
		L, L2 := binary.BigEndian.Uint32(old[4:8]), binary.BigEndian.Uint32(nb[4:8])
		c := "body"
		switch {
		case L2 < L:
			c = "lenS"
		case L2 > maxMsg:
			c = "lenH"
		case L2 > L:
			c = "lenL"
		case bytes.Equal(nb[8:], old[8:]):
			c = "crc"
		}
		w.disk[f] = append([]seg(nil), save...)
		w.disk[f][j] = seg{id: save[j].id, d: c, data: nb}
		e = &event{A: "flip", F: f + 1, J: j + 1, C: c}
	case x < 9: // the file ends at a random offset
		total := len(segBytes(save))
		if total == 0 {
			return false
		}
		at := rc.r.Intn(total)
		if rc.r.Intn(3) == 0 && len(save) > 0 { // near the end: the usual crash
			at = total - 1 - rc.r.Intn(len(save[len(save)-1].data))
		}
		pos := 0
		for j, s := range save {
			if at < pos+len(s.data) {
				if s.d != "ok" {
					return false
				}
				keep := at - pos
				c := cutClassOf(s.data, keep)
				w.disk[f] = append([]seg(nil), save[:j]...)
				if c != "clean" {
					w.disk[f] = append(w.disk[f], seg{id: s.id, d: c, data: s.data[:keep]})
				}
				e = &event{A: "cut", F: f + 1, J: j + 1, C: c}
				break
			}
			pos += len(s.data)
		}
	default:
		g := rbytes(rc.r, 1+rc.r.Intn(40))
		if rc.r.Intn(4) == 0 {
			g = make([]byte, len(g))
		}
		c := "j8"
		if len(g) <= 3 {
			c = "j3"
		} else if len(g) <= 7 {
			c = "j7"
		}
		w.disk[f] = append(append([]seg(nil), save...), seg{id: 0, d: c, data: g})
		e = &event{A: "junk", F: f + 1, C: c}
	}
	if e == nil || !rc.isolated() {
		return undo()
	}
	// the splice classes depend on the bytes that follow
	for j := range w.disk[f] {
		s := &w.disk[f][j]
		if s.d == "cutBody" || s.d == "cutZero" {
			s.d += "S"
			if !w.classConsistent() {
				s.d = strings.TrimSuffix(s.d, "S")
			}
			e.C = s.d
		}
	}
	if !w.classConsistent() { // e.g. a cut in front of a file whose first bytes were what an earlier cut spliced with
		return undo()
	}
	os.WriteFile(w.path(f), segBytes(w.disk[f]), 0o600)
	rc.add(e)
	return true
}

func (rc *recorder) oneLog(root string, seed int64, big bool) {
	rc.r = rand.New(rand.NewSource(seed))
	rc.evs = append(rc.evs, &event{A: "reset", Ids: []int{}})
	rc.height = 0
	rc.byID = map[int]*event{}
	rc.broken = ""
	rc.noTick = false
	w := &world{root: root, recs: map[int]*rec{}, next: 1, zero: map[int]bool{}, rng: rc.r}
	w.pick = func(id int) string { return msgKinds[rc.r.Intn(len(msgKinds))] }
	rc.w = w
	os.MkdirAll(root, 0o700)
	defer os.RemoveAll(root)
	defer func() { w.close() }()
	limit := int64(300 + rc.r.Intn(6000))
	if rc.r.Intn(8) == 0 {
		limit = 0
	}
	w.opt, w.limit = limit, limit
	if rc.r.Intn(3) == 0 { // file indices that cross 1000 while the log grows
		w.seedBase(960 + rc.r.Intn(45))
	}
	if err := w.open(); err != nil {
		rc.add(&event{A: "unexplainable: " + err.Error()})
		return
	}
	if limit == 0 {
		w.wal.Group().VerifSetHeadSizeLimit(0)
	}
	ne := rc.add(&event{A: "new", N: limit})
	ne.Sz = rc.sync(true)
	n := 40 + rc.r.Intn(80)
	if big {
		n = 150 + rc.r.Intn(350)
	}
	for i := 0; i < n && rc.broken == ""; i++ {
		switch x := rc.r.Intn(100); {
		case x < 70:
			rc.write()
		case x < 76:
			w.wal.FlushAndSync()
			rc.add(&event{A: "fl"})
			rc.sync(false)
		case x < 94:
			var size int64
			if st, err := os.Stat(w.head()); err == nil {
				size = st.Size()
			}
			g := w.wal.Group()
			before := g.MaxIndex()
			g.VerifCheckHeadSizeLimit()
			res := "no"
			if g.MaxIndex() != before {
				res = "rot"
			}
			rc.add(&event{A: "tick", N: size, Res: res})
			rc.sync(false)
		case x < 97:
			w.close()
			if err := w.open(); err != nil {
				rc.add(&event{A: "unexplainable: " + err.Error()})
				return
			}
			if limit == 0 {
				w.wal.Group().VerifSetHeadSizeLimit(0)
			}
			e := rc.add(&event{A: "restart"})
			e.Sz = rc.sync(true)
		default:
			if err := w.crash(); err != nil {
				rc.add(&event{A: "unexplainable: " + err.Error()})
				return
			}
			if limit == 0 {
				w.wal.Group().VerifSetHeadSizeLimit(0)
			}
			e := rc.add(&event{A: "crash"})
			e.Sz = rc.sync(true)
		}
	}
	if rc.broken != "" {
		return
	}
	w.wal.FlushAndSync()
	rc.add(&event{A: "fl"})
	rc.sync(false)
	rc.observe(false)
	rc.noTick = true
	// damage: 1..3 isolated damages, at most 2 that lose the framing
	nd := 1 + rc.r.Intn(3)
	losing := 0
	for tries := 0; nd > 0 && tries < 50; tries++ {
		if rc.damage() {
			last := rc.evs[len(rc.evs)-1]
			if last.C != "crc" && last.C != "body" && last.C != "clean" {
				losing++
			}
			nd--
			if losing >= 2 {
				break
			}
		}
	}
	rc.observe(true)
	// what OnStart does on a corruption error: repair a file (the head, mostly) and reload
	if rc.r.Intn(2) == 0 {
		f := len(w.disk) - 1
		if rc.r.Intn(4) == 0 {
			f = rc.r.Intn(len(w.disk))
		}
		w.close()
		src := w.path(f) + ".CORRUPTED"
		os.WriteFile(src, fileBytes(w.path(f)), 0o600)
		out, r := repair(src, w.path(f))
		os.Remove(src)
		ids := []int{}
		var kept []seg
		rest := out
		for _, s := range w.disk[f] {
			x := w.recs[s.id]
			if x == nil || !bytes.HasPrefix(rest, x.orig) {
				break
			}
			kept = append(kept, seg{id: s.id, d: "ok", data: x.orig})
			ids = append(ids, s.id)
			rest = rest[len(x.orig):]
		}
		if r != "ok" || len(rest) != 0 {
			ids = append(ids, -1) // not a prefix of the file's records: nothing explains this
		}
		w.disk[f] = kept
		if err := w.open(); err != nil {
			rc.add(&event{A: "unexplainable: " + err.Error()})
			return
		}
		e := rc.add(&event{A: "repair", F: f + 1, Ids: ids})
		e.Sz = rc.sync(true)
	} else {
		w.close()
		if err := w.open(); err != nil {
			rc.add(&event{A: "unexplainable: " + err.Error()})
			return
		}
		e := rc.add(&event{A: "restart"})
		e.Sz = rc.sync(true)
	}
	// the node goes on: more records behind whatever is left
	for i := 0; i < 5+rc.r.Intn(15) && rc.broken == ""; i++ {
		rc.write()
	}
	w.wal.FlushAndSync()
	rc.add(&event{A: "fl"})
	rc.sync(false)
	if rc.isolated() && w.classConsistent() {
		rc.observe(false)
	}
}

func TestRecord(t *testing.T) {
	res := mbt.NewResult()
	defer res.Write()
	scratch := os.Getenv("VERIF_SCRATCH")
	if scratch == "" {
		scratch = os.TempDir()
	}
	out := os.Getenv("WAL_TRACE")
	f, err := os.Create(out)
	if err != nil {
		res.Mismatch("infra:trace-file", err.Error(), nil)
		return
	}
	defer f.Close()
	bw := bufio.NewWriter(f)
	defer bw.Flush()
	nlogs := mbt.EnvInt("WAL_LOGS", 10)
	rc := &recorder{}
	total, maxH := 0, int64(0)
	for i := 0; i < nlogs; i++ {
		rc.evs = nil
		func() {
			defer func() {
				if p := recover(); p != nil {
					res.Mismatch("infra:driver-panic", fmt.Sprint(p), nil)
				}
			}()
			rc.oneLog(filepath.Join(scratch, fmt.Sprintf("tv-%d", i)), mbt.Seed()*7919+int64(i), i%3 == 0)
		}()
		for _, e := range rc.evs {
			b, _ := json.Marshal(e)
			bw.Write(b)
			bw.WriteByte('\n')
		}
		total += len(rc.evs)
		if rc.height > maxH {
			maxH = rc.height
		}
		res.Count(1)
		res.Distinct(fmt.Sprint("log", i))
	}
	res.Behaviours = nlogs
	res.Set("trace_events", total)
	res.Set("trace_max_height", maxH)
}
