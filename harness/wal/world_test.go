// world_test.go: one real WAL directory driven by the harness, with a shadow of what is on
// disk (which bytes belong to which written record), the byte-level realisation of the abstract
// damage classes of WAL.tla, and the observers (group read, file read, search, repair).
package wal

import (
	"bytes"
	"encoding/binary"
	"fmt"
	"hash/crc32"
	"io"
	"math/rand"
	"os"
	"path/filepath"
	"strings"
	"sync"
	"time"

	"github.com/kardiachain/go-kardia/consensus"
	cstypes "github.com/kardiachain/go-kardia/consensus/types"
	auto "github.com/kardiachain/go-kardia/lib/autofile"
	"github.com/kardiachain/go-kardia/lib/common"
	"github.com/kardiachain/go-kardia/lib/p2p"
	"github.com/kardiachain/go-kardia/types"
)

func p2pID(s string) p2p.ID { return p2p.ID(s) }

// maxMsgSizeBytes of consensus/wal.go (maxMsgSize + 24); unexported there.  The drivers test the
// boundary on both sides, so a different value in the code shows up as a mismatch.
const maxMsg = 1048576 + 24

var castagnoli = crc32.MakeTable(crc32.Castagnoli)

// ---------------------------------------------------------------------------------------------
// canonical, codec-independent rendering of a WAL message: every field, spelled out by hand.

func canonTime(t time.Time) string { return fmt.Sprintf("%d.%09d", t.Unix(), t.Nanosecond()) }
func canonBID(b types.BlockID) string {
	return fmt.Sprintf("%x/%d/%x", b.Hash.Bytes(), b.PartsHeader.Total, b.PartsHeader.Hash.Bytes())
}
func canonBits(b *common.BitArray) string {
	if b == nil {
		return "nil"
	}
	return fmt.Sprintf("%d:%x", b.Bits, b.Elems)
}

func canonCons(m consensus.Message) string {
	switch x := m.(type) {
	case *consensus.ProposalMessage:
		p := x.Proposal
		return fmt.Sprintf("prop %d %d %d %s %s %x", p.Height, p.Round, p.POLRound, canonTime(p.Timestamp), canonBID(p.POLBlockID), p.Signature)
	case *consensus.BlockPartMessage:
		var a strings.Builder
		for _, h := range x.Part.Proof.Aunts {
			fmt.Fprintf(&a, "%x,", h)
		}
		return fmt.Sprintf("part %d %d %d %x %d %d %x [%s]", x.Height, x.Round, x.Part.Index, x.Part.Bytes,
			x.Part.Proof.Total, x.Part.Proof.Index, x.Part.Proof.LeafHash, a.String())
	case *consensus.VoteMessage:
		v := x.Vote
		return fmt.Sprintf("vote %x %d %d %d %s %d %s %x", v.ValidatorAddress.Bytes(), v.ValidatorIndex, v.Height, v.Round,
			canonTime(v.Timestamp), v.Type, canonBID(v.BlockID), v.Signature)
	case *consensus.NewRoundStepMessage:
		return fmt.Sprintf("nrs %d %d %d %d %d", x.Height, x.Round, x.Step, x.SecondsSinceStartTime, x.LastCommitRound)
	case *consensus.NewValidBlockMessage:
		return fmt.Sprintf("nvb %d %d %d/%x %s %v", x.Height, x.Round, x.BlockPartsHeader.Total, x.BlockPartsHeader.Hash.Bytes(),
			canonBits(x.BlockParts), x.IsCommit)
	case *consensus.ProposalPOLMessage:
		return fmt.Sprintf("pol %d %d %s", x.Height, x.ProposalPOLRound, canonBits(x.ProposalPOL))
	case *consensus.HasVoteMessage:
		return fmt.Sprintf("hv %d %d %d %d", x.Height, x.Round, x.Type, x.Index)
	case *consensus.VoteSetMaj23Message:
		return fmt.Sprintf("maj23 %d %d %d %s", x.Height, x.Round, x.Type, canonBID(x.BlockID))
	case *consensus.VoteSetBitsMessage:
		return fmt.Sprintf("vsb %d %d %d %s %s", x.Height, x.Round, x.Type, canonBID(x.BlockID), canonBits(x.Votes))
	}
	return fmt.Sprintf("?%T", m)
}

func canon(m consensus.WALMessage) string {
	switch x := m.(type) {
	case consensus.EndHeightMessage:
		return fmt.Sprintf("eh %d", x.Height)
	case types.EventDataRoundState:
		return fmt.Sprintf("rs %d %d %q", x.Height, x.Round, x.Step)
	}
	if d, h, r, s, ok := consensus.VerifTimeoutFields(m); ok {
		return fmt.Sprintf("to %d %d %d %d", int64(d), h, r, s)
	}
	if msg, peer, ok := consensus.VerifMsgInfoFields(m); ok {
		return fmt.Sprintf("mi %q %s", string(peer), canonCons(msg))
	}
	return fmt.Sprintf("?%T", m)
}

var _ = cstypes.RoundStepType(0)

// ---------------------------------------------------------------------------------------------

type rec struct {
	id   int
	kind string
	msg  consensus.WALMessage
	can  string
	orig []byte // crc | length | payload as first seen on disk
}

type seg struct {
	id   int    // 0 = junk
	d    string // damage class
	data []byte // what is on disk now
}

type world struct {
	root  string // scratch directory of this behaviour
	gen   int    // directory generation (a crash moves to a copy)
	wal   *consensus.BaseWAL
	limit int64 // abstract head size limit (records) given to "new"
	tlim  int64 // abstract total size limit (records), 0 = off
	gone  int   // oldest files removed by the total size limit (their entries in disk stay, empty)
	base  int   // index of the group's first file (see seedBase); disk[i] is file index base+i
	// group writes (autofile.Group.Write calls) of the message being written, see hookGroupWrite
	gwCount int    // seen so far in the current BaseWAL.Write / Start
	gwPer   int    // per record, as observed on the last record written (1 as implemented)
	fireAt  int    // run fire behind this group write of the next message (0 = never)
	fire    func() // consumed when it runs
	// a frame that a rotation inside one Write split over two files (only a changed encoder does that)
	carry     []byte
	carryFile int
	disk      [][]seg
	pend      []int
	recs      map[int]*rec
	next      int
	rng       *rand.Rand
	opt       int64               // > 0: head size limit given to NewWAL through autofile.GroupHeadSizeLimit (TV)
	pick      func(id int) string // concrete kind for the abstract kind "m"
	zero      map[int]bool        // ids whose payload must end in a zero byte
}

func (w *world) dir() string  { return filepath.Join(w.root, fmt.Sprint("g", w.gen)) }
func (w *world) head() string { return filepath.Join(w.dir(), "wal") }
func (w *world) path(i int) string {
	if i == len(w.disk)-1 {
		return w.head()
	}
	return fmt.Sprintf("%s.%03d", w.head(), w.base+i)
}

// seedBase makes the file indices of this WAL start at base instead of 0: the specification is
// about positions, the names wal.000, wal.001, ... are a detail of the realisation -- one that
// changes width at 1000 (OpenGroup finds the files by a pattern, filePathForIndex prints %03d).
// An empty file wal.<base-1> put into the directory before the WAL is opened for the first time
// is all it takes (OpenGroup numbers the head one above the largest index it finds); every reader
// passes through it.  Not used together with the total size limit, whose loop would count it.
func (w *world) seedBase(base int) error {
	if base <= 0 {
		return nil
	}
	w.base = base
	if err := os.MkdirAll(w.dir(), 0o700); err != nil {
		return err
	}
	return os.WriteFile(fmt.Sprintf("%s.%03d", w.head(), base-1), nil, 0o600)
}

// The hook at the end of autofile.(*Group).Write is one package variable; the worlds of all
// workers register their group here.
var (
	hookOnce sync.Once
	hookReg  sync.Map // *auto.Group -> *world
)

func hookGroupWrite(g *auto.Group) {
	if v, ok := hookReg.Load(g); ok {
		w := v.(*world)
		w.gwCount++ // the hook runs on the goroutine that called Write: the driver's own
		if w.fire != nil && w.gwCount == w.fireAt {
			f := w.fire
			w.fire = nil
			f()
		}
	}
}

func (w *world) open() error {
	hookOnce.Do(func() { auto.VerifAfterGroupWrite = hookGroupWrite })
	lim := int64(1 << 40) // MBT sets the limit in front of every head-size check (world.tick)
	if w.opt > 0 {
		lim = w.opt
	}
	wal, err := consensus.NewWAL(w.head(), auto.GroupCheckDuration(time.Hour), auto.GroupHeadSizeLimit(lim))
	if err != nil {
		return err
	}
	wal.SetFlushInterval(time.Hour) // no background flushes: the behaviour decides when the buffer reaches the disk
	w.wal = wal
	hookReg.Store(wal.Group(), w)
	w.gwCount = 0
	if err := wal.Start(); err != nil {
		return err
	}
	if w.gwCount > 0 { // OnStart wrote the marker of a new log: so many group writes make one record
		w.gwPer = w.gwCount
	}
	if w.base > 0 && wal.Group().MaxIndex() == w.base {
		// BaseWAL.OnStart writes the marker of height 0 into a NEW log only (empty head and no rotated file).  The seeded
		// empty file wal.<base-1> is the only numbered file here, i.e. this is what a new log looks like when its indices
		// start at base: the marker is written for it
		if sz, err := wal.Group().Head.Size(); err == nil && sz == 0 {
			w.gwCount = 0
			err := wal.WriteSync(consensus.EndHeightMessage{Height: 0})
			if w.gwCount > 0 {
				w.gwPer = w.gwCount
			}
			return err
		}
	}
	return nil
}

func (w *world) close() {
	if w.wal == nil {
		return
	}
	w.wal.Stop()
	w.wal.Wait()
	w.wal.Group().Head.Close() // Group.Close leaves the AutoFile's goroutines running
	hookReg.Delete(w.wal.Group())
	w.wal = nil
}

func fileBytes(p string) []byte {
	b, err := os.ReadFile(p)
	if err != nil {
		return nil
	}
	return b
}

func segBytes(ss []seg) []byte {
	var b []byte
	for _, s := range ss {
		b = append(b, s.data...)
	}
	return b
}

// sync brings the shadow up to date with the directory: new files after a rotation, new bytes at
// the end of a file.  New bytes must be whole, well-formed records holding exactly the pending
// messages, in order.  Returns a description of the first disagreement ("" if none).
func (w *world) sync(startRec bool) string {
	g := w.wal.Group()
	if startRec && w.gone > 0 && w.gone+1 == len(w.disk) {
		// every numbered file is gone: OpenGroup found the head alone and calls it index 0 again
		w.disk, w.gone = w.disk[len(w.disk)-1:], 0
	}
	nf := g.MaxIndex() + 1 - w.base
	if nf < 1 {
		return fmt.Sprintf("the group says its head has index %d, the first file has index %d", g.MaxIndex(), w.base)
	}
	for len(w.disk) < nf {
		w.disk = append(w.disk, nil)
	}
	if len(w.disk) != nf {
		return fmt.Sprintf("group has %d files, shadow %d", nf, len(w.disk))
	}
	for i := range w.disk {
		if i < w.gone {
			if _, err := os.Stat(w.path(i)); err == nil {
				return fmt.Sprintf("file %d was removed by the total size limit and is there again", i)
			}
			continue
		}
		have := fileBytes(w.path(i))
		known := segBytes(w.disk[i])
		if len(have) < len(known) || !bytes.Equal(have[:len(known)], known) {
			return fmt.Sprintf("file %d: the %d bytes already on disk changed (now %d bytes)", i, len(known), len(have))
		}
		rest := have[len(known):]
		if w.carry != nil && i > w.carryFile && len(rest) > 0 {
			// the frame that begins at the end of file carryFile goes on here
			comb := append(append([]byte(nil), w.carry...), rest...)
			l := -1
			if len(comb) >= 8 {
				l = int(binary.BigEndian.Uint32(comb[4:8]))
			}
			if l < 0 || l > maxMsg || len(comb) < 8+l {
				return fmt.Sprintf("file %d ends inside a frame that the %d new bytes of file %d do not complete", w.carryFile, len(rest), i)
			}
			id, txt := w.take(comb[:8+l], startRec, i)
			if txt != "" {
				return txt
			}
			used := 8 + l - len(w.carry)
			w.disk[w.carryFile][len(w.disk[w.carryFile])-1].id = id
			w.disk[i] = append(w.disk[i], seg{id: id, d: "split", data: append([]byte(nil), rest[:used]...)})
			rest = rest[used:]
			w.carry = nil
		}
		for len(rest) > 0 {
			l := -1
			if len(rest) >= 8 {
				l = int(binary.BigEndian.Uint32(rest[4:8]))
			}
			if l < 0 || (l <= maxMsg && len(rest) < 8+l) {
				if i < len(w.disk)-1 && w.carry == nil {
					// A file that is not the head ends inside a frame.  With the encoder as it is
					// this cannot be; it is what a rotation between two group writes of one
					// message leaves.  The shadow follows (so that the observers run on it), the
					// layout will not be the specified one.
					w.carry, w.carryFile = append([]byte(nil), rest...), i
					w.disk[i] = append(w.disk[i], seg{id: -1, d: "split", data: w.carry})
					break
				}
				return fmt.Sprintf("file %d: %d stray bytes at the end that are not a whole record", i, len(rest))
			}
			if l > maxMsg {
				return fmt.Sprintf("file %d: record of length %d", i, l)
			}
			id, txt := w.take(rest[:8+l], startRec, i)
			if txt != "" {
				return txt
			}
			w.disk[i] = append(w.disk[i], seg{id: id, d: "ok", data: w.recs[id].orig})
			rest = rest[8+l:]
		}
	}
	return ""
}

// take checks a frame that appeared on disk (CRC-32C, decodes to the message written for the next
// pending id, re-encodes to the same bytes) and assigns it that id.
func (w *world) take(frame []byte, startRec bool, i int) (int, string) {
	if crc32.Checksum(frame[8:], castagnoli) != binary.BigEndian.Uint32(frame[0:4]) {
		return 0, fmt.Sprintf("file %d: new record with a wrong CRC-32C", i)
	}
	var id int
	if startRec && len(w.pend) == 0 {
		// the EndHeight(0) that OnStart writes into a new log
		id = w.next
		w.next++
		m := consensus.EndHeightMessage{Height: 0}
		w.recs[id] = &rec{id: id, kind: "eh", msg: m, can: canon(m)}
	} else if len(w.pend) > 0 {
		id, w.pend = w.pend[0], w.pend[1:]
	} else {
		return 0, fmt.Sprintf("file %d: a record appeared on disk that nobody wrote", i)
	}
	r := w.recs[id]
	got, err := consensus.NewWALDecoder(bytes.NewReader(frame)).Decode()
	if err != nil {
		return 0, fmt.Sprintf("record %d (%s): written %s, does not decode: %v", id, r.kind, r.can, err)
	}
	if c := canon(got.Msg); c != r.can {
		return 0, fmt.Sprintf("record %d (%s): written %s, decodes as %s", id, r.kind, r.can, c)
	}
	if re := reencode(got); !bytes.Equal(re, frame) {
		return 0, fmt.Sprintf("record %d (%s): re-encoding the decoded message gives different bytes", id, r.kind)
	}
	r.orig = append([]byte(nil), frame...)
	return id, ""
}

// split reports whether some file of the shadow ends or begins inside a frame.
func (w *world) split() bool {
	for _, f := range w.disk {
		for _, s := range f {
			if s.d == "split" {
				return true
			}
		}
	}
	return false
}

func reencode(m *consensus.TimedWALMessage) []byte {
	var b bytes.Buffer
	if err := consensus.NewWALEncoder(&b).Encode(m); err != nil {
		return nil
	}
	return b.Bytes()
}

func payloadTailZero(m consensus.WALMessage) bool {
	b := reencode(&consensus.TimedWALMessage{Time: time.Unix(1, 1).UTC(), Msg: m})
	return len(b) > 0 && b[len(b)-1] == 0
}

// hugePeer makes a msgInfo whose encoding is far above the limit.
func hugeMsg(r *rand.Rand) consensus.WALMessage {
	return consensus.VerifMsgInfo(&consensus.HasVoteMessage{Height: 1, Round: 1, Type: rvoteType(r), Index: 1},
		p2pID(strings.Repeat("x", maxMsg+1000)))
}

// Size classes: the abstract kinds "m1k", "m5k", "m40k" are ordinary messages (to the specification
// they are "m") that the driver realises with padded real messages, so that the files of a log of a
// handful of records cross 4096, 8192 and 65536 bytes and frames straddle the 4096-byte refill
// boundaries of a buffered reader at seeded offsets.  (WALDecoder.Decode calls Read and ignores the
// byte count: any reader that may return short reads in the middle of a file breaks it.)
func sizeClass(r *rand.Rand, kind string) int {
	switch kind {
	case "m1k":
		return 1100 + r.Intn(900)
	case "m5k":
		return 3500 + r.Intn(3500)
	case "m40k":
		return 30000 + r.Intn(18000) // some above the 40 960 bytes of the group's bufio.Writer
	}
	return 0
}

// genPadded: a block part with n data bytes, or a vote from a peer with an n-byte id.
func genPadded(r *rand.Rand, n int) consensus.WALMessage {
	if r.Intn(2) == 0 {
		m := genMsg(r, "part", 0)
		msg, peer, _ := consensus.VerifMsgInfoFields(m)
		msg.(*consensus.BlockPartMessage).Part.Bytes = rbytes(r, n)
		return consensus.VerifMsgInfo(msg, peer)
	}
	msg, _, _ := consensus.VerifMsgInfoFields(genMsg(r, "vote", 0))
	return consensus.VerifMsgInfo(msg, p2pID(strings.Repeat("p", n)))
}

// write performs Write / WriteSync of an abstract record kind; returns the result class.
func (w *world) write(sync bool, kind string, h int64) string {
	var m consensus.WALMessage
	ck := kind
	id := w.next
	switch kind {
	case "eh":
		m = consensus.EndHeightMessage{Height: h}
	case "huge":
		m = hugeMsg(w.rng)
	default:
		pad := sizeClass(w.rng, kind)
		if kind == "m" {
			ck = w.pick(id)
		}
		if pad > 0 {
			m = genPadded(w.rng, pad)
		} else {
			m = genMsg(w.rng, ck, h)
		}
		if w.zero[id] && pad == 0 {
			for t := 0; t < 200 && !payloadTailZero(m); t++ {
				m = genMsg(w.rng, ck, h)
			}
		}
	}
	var err error
	w.gwCount = 0
	if sync {
		err = w.wal.WriteSync(m)
	} else {
		err = w.wal.Write(m)
	}
	if err == nil && w.gwCount > 0 {
		w.gwPer = w.gwCount
	}
	if err != nil {
		if strings.Contains(err.Error(), "too big") {
			return "toobig"
		}
		return "error: " + err.Error()
	}
	w.next++
	w.recs[id] = &rec{id: id, kind: ck, msg: m, can: canon(m)}
	w.pend = append(w.pend, id)
	return "ok"
}

// tick realises Group.checkHeadSizeLimit with a byte limit on the same side of the head size as
// the abstract comparison; returns "rot" / "no".
func (w *world) tick(cmp string) string {
	g := w.wal.Group()
	var size int64
	if st, err := os.Stat(w.head()); err == nil {
		size = st.Size()
	}
	var lim int64
	switch {
	case w.limit == 0:
		lim = 0
	case cmp == "lt":
		lim = size + 1
	case cmp == "eq":
		lim = size
	default:
		lim = 1 + w.rng.Int63n(size-1)
		if w.rng.Intn(2) == 0 {
			lim = size - 1
		}
	}
	g.VerifSetHeadSizeLimit(lim)
	before := g.MaxIndex()
	g.VerifCheckHeadSizeLimit()
	if g.MaxIndex() != before {
		return "rot"
	}
	return "no"
}

// prune realises Group.checkTotalSizeLimit with a byte limit that makes the real loop take the
// decisions of the abstract one: n files go, and it stops because the total fell below the limit
// ("size"), because four files went ("four") or because only the head is left ("head").
// Returns "" or a description of what the real code did instead.
func (w *world) prune(n int, why string) string {
	g := w.wal.Group()
	var sizes []int64
	var total int64
	for i := w.gone; i < len(w.disk); i++ {
		var sz int64
		if st, err := os.Stat(w.path(i)); err == nil {
			sz = st.Size()
		}
		sizes = append(sizes, sz)
		total += sz
	}
	after := func(k int) int64 { // total once the k oldest files are gone
		t := total
		for j := 0; j < k; j++ {
			t -= sizes[j]
		}
		return t
	}
	var lim int64
	switch {
	case why == "off":
		lim = 0
	case why == "size" && n == 0:
		lim = total + 1
	case why == "size":
		lim = after(n - 1) // the n-th removal happens at equality, the next total is below
	default:
		lim = after(n)
		if lim == 0 {
			lim = 1
		}
	}
	g.VerifSetTotalSizeLimit(lim)
	g.VerifCheckTotalSizeLimit()
	for i := w.gone; i < len(w.disk); i++ {
		_, err := os.Stat(w.path(i))
		exists := err == nil || i == len(w.disk)-1 // a head that was never opened does not exist yet
		if exists != (i >= w.gone+n) {
			return fmt.Sprintf("checkTotalSizeLimit(limit %d, sizes %v): file %d exists=%v, specified: the %d oldest files go (%s)", lim, sizes, i, exists, n, why)
		}
	}
	for i := w.gone; i < w.gone+n; i++ {
		w.disk[i] = nil
	}
	w.gone += n
	return ""
}

func copyDir(src, dst string) error {
	if err := os.MkdirAll(dst, 0o700); err != nil {
		return err
	}
	es, err := os.ReadDir(src)
	if err != nil {
		return err
	}
	for _, e := range es {
		b, err := os.ReadFile(filepath.Join(src, e.Name()))
		if err != nil {
			return err
		}
		if err := os.WriteFile(filepath.Join(dst, e.Name()), b, 0o600); err != nil {
			return err
		}
	}
	return nil
}

// crash: what a killed process leaves is the directory as it is now (the bufio buffer is lost).
func (w *world) crash() error {
	old := w.dir()
	w.gen++
	if err := copyDir(old, w.dir()); err != nil {
		return err
	}
	dead := w.wal
	w.wal = nil
	w.pend = nil
	err := w.open()
	dead.Stop() // release the dead process's goroutines; it flushes into the OLD directory
	dead.Wait()
	dead.Group().Head.Close()
	hookReg.Delete(dead.Group())
	return err
}

// ---------------------------------------------------------------------------------------------
// byte-level realisation of the damage classes

func flipBit(b []byte, off int, bit uint) []byte {
	c := append([]byte(nil), b...)
	c[off] ^= 1 << bit
	return c
}
func setLen(b []byte, l uint32) []byte {
	c := append([]byte(nil), b...)
	binary.BigEndian.PutUint32(c[4:8], l)
	return c
}

func zeroTail(frame []byte) int {
	z := 0
	for i := len(frame) - 1; i >= 8 && frame[i] == 0; i-- {
		z++
	}
	return z
}

// records above this size are the padded ones (size classes "m1k", "m5k", "m40k"): their bits and
// offsets are sampled, not enumerated
const bigFrame = 1024

// variants returns the damaged forms of one record for class c.  all = every byte offset and every
// bit that falls into the class (plus boundary values); otherwise a seeded selection.
// For cut classes the result is the prefix of the record that stays in the file.
func variants(c string, frame []byte, all bool, r *rand.Rand, k int) [][]byte {
	L := uint32(len(frame) - 8)
	var out [][]byte
	switch c {
	case "crc":
		for off := 0; off < 4; off++ {
			for bit := uint(0); bit < 8; bit++ {
				out = append(out, flipBit(frame, off, bit))
			}
		}
		for i := 0; i < 3; i++ { // multi-byte changes
			v := append([]byte(nil), frame...)
			for bytes.Equal(v[:4], frame[:4]) {
				r.Read(v[:4])
			}
			out = append(out, v)
		}
	case "body":
		if all && len(frame) <= bigFrame {
			for off := 8; off < len(frame); off++ {
				for bit := uint(0); bit < 8; bit++ {
					out = append(out, flipBit(frame, off, bit))
				}
			}
		} else { // first and last bit, and seeded ones (a padded record has hundreds of thousands)
			out = append(out, flipBit(frame, 8, 7))
			for i := 0; i < k; i++ {
				out = append(out, flipBit(frame, 8+r.Intn(int(L)), uint(r.Intn(8))))
			}
			out = append(out, flipBit(frame, len(frame)-1, 0))
		}
		for i := 0; i < 3; i++ { // bursts of up to 4 bytes (<= 32 bits: detected with certainty)
			v := append([]byte(nil), frame...)
			n := 1 + r.Intn(4)
			if n > int(L) {
				n = int(L)
			}
			off := 8 + r.Intn(int(L)-n+1)
			for bytes.Equal(v, frame) {
				r.Read(v[off : off+n])
			}
			out = append(out, v)
		}
	case "lenS", "lenL", "lenH":
		add := func(l uint32) {
			ok := (c == "lenS" && l < L) || (c == "lenL" && l > L && l <= maxMsg) || (c == "lenH" && l > maxMsg)
			if ok {
				out = append(out, setLen(frame, l))
			}
		}
		for bit := uint(0); bit < 32; bit++ {
			add(L ^ (1 << bit))
		}
		add(0)
		add(L - 1)
		add(L + 1)
		add(maxMsg)
		add(maxMsg + 1)
		add(0xFFFFFFFF)
		add(0x80000000)
		add(L + uint32(r.Intn(300)) + 2)
		if L > 2 {
			add(uint32(r.Intn(int(L-1))) + 1)
		}
	case "cut1_3":
		out = [][]byte{frame[:1], frame[:2], frame[:3]}
	case "cut4":
		out = [][]byte{frame[:4]}
	case "cut5_7":
		out = [][]byte{frame[:5], frame[:6], frame[:7]}
	case "cut8":
		out = [][]byte{frame[:8]}
	case "cutBody", "cutZero", "cutBodyS", "cutZeroS":
		// every offset inside the payload; whether the bytes that follow in the stream equal the
		// missing ones (the S classes) is decided per variant by classConsistent
		z := zeroTail(frame)
		step := 1
		if len(frame) > bigFrame && len(frame)-z-9 > 64 { // padded record: its ends, and seeded offsets in between
			step = 1 + r.Intn((len(frame)-z-9)/32)
		}
		for n := 9; n < len(frame); n++ {
			isZ := n >= len(frame)-z
			if !isZ && step > 1 && n > 40 && n < len(frame)-z-40 && n%step != 0 {
				continue
			}
			if strings.HasPrefix(c, "cutZero") == isZ {
				out = append(out, frame[:n])
			}
		}
	case "clean":
		out = [][]byte{{}}
	case "j3":
		for n := 1; n <= 3; n++ {
			out = append(out, rbytes(r, n), make([]byte, n))
		}
	case "j7":
		for n := 4; n <= 7; n++ {
			out = append(out, rbytes(r, n), make([]byte, n))
		}
	case "j8":
		out = append(out, make([]byte, 8), make([]byte, 16), make([]byte, 9)) // crc 0, length 0: a "valid" empty frame
		for i := 0; i < 4; i++ {
			out = append(out, rbytes(r, 8+r.Intn(60)))
		}
		// well-formed frames around things that are not WAL messages
		for _, pl := range [][]byte{{}, rbytes(r, 1+r.Intn(30)), {0x12, 0x00}, {0x0a, 0x00}} {
			f := make([]byte, 8+len(pl))
			binary.BigEndian.PutUint32(f[0:4], crc32.Checksum(pl, castagnoli))
			binary.BigEndian.PutUint32(f[4:8], uint32(len(pl)))
			copy(f[8:], pl)
			out = append(out, f)
		}
		// header announcing more than there is
		f := rbytes(r, 8+r.Intn(20))
		binary.BigEndian.PutUint32(f[4:8], uint32(len(f)+r.Intn(1000)))
		out = append(out, f)
	}
	if c == "lenH" { // the smallest excess first, and always part of a selection
		for i, v := range out {
			if binary.BigEndian.Uint32(v[4:8]) == maxMsg+1 {
				out[0], out[i] = out[i], out[0]
			}
		}
	}
	if all || len(out) <= k {
		return out
	}
	// seeded selection that always keeps the first and the last variant
	sel := [][]byte{out[0], out[len(out)-1]}
	for len(sel) < k {
		sel = append(sel, out[r.Intn(len(out))])
	}
	return sel
}

// classConsistent checks the one thing about a cut class that depends on OTHER bytes than the
// record's own: a cut record whose missing bytes are followed, in the stream, by exactly those
// bytes belongs to the splice classes ("...S"), any other cut record does not.
func (w *world) classConsistent() bool {
	for i, f := range w.disk {
		for j, s := range f {
			if !strings.HasPrefix(s.d, "cut") {
				continue
			}
			missing := w.recs[s.id].orig[len(s.data):]
			var follow []byte
			follow = append(follow, segBytes(f[j+1:])...)
			for _, g := range w.disk[i+1:] {
				if len(follow) >= len(missing) {
					break
				}
				follow = append(follow, segBytes(g)...)
			}
			splice := len(follow) > 0 && len(follow) >= len(missing) && bytes.Equal(follow[:len(missing)], missing)
			if splice != strings.HasSuffix(s.d, "S") {
				return false
			}
		}
	}
	return true
}

// ---------------------------------------------------------------------------------------------
// observers: every call into the code under test runs under recover()

type readRes struct {
	frames [][]byte // re-encoded messages, in the order returned
	cans   []string
	end    string // "eof" | "dce" | "other: ..." | "PANIC: ..."
	maxReq int    // largest buffer the decoder asked the reader to fill
}

// spy sits between the decoder and the real reader.  Decode allocates make([]byte, length) and
// hands exactly that slice to Read, so the largest len(p) seen is the largest payload buffer
// allocated ("never an allocation beyond the message size limit").
type spy struct {
	rd  io.Reader
	max int
}

type oversize int

func (s *spy) Read(p []byte) (int, error) {
	if len(p) > s.max {
		s.max = len(p)
	}
	if len(p) > maxMsg {
		panic(oversize(len(p))) // caught in drain/scanAll; nothing is gained by filling the buffer
	}
	return s.rd.Read(p)
}

func drain(real io.Reader) (res readRes) {
	rd := &spy{rd: real}
	defer func() {
		res.maxReq = rd.max
		if p := recover(); p != nil {
			if _, ok := p.(oversize); ok {
				res.end = "other: oversize allocation"
				return
			}
			res.end = fmt.Sprint("PANIC: ", p)
		}
	}()
	dec := consensus.NewWALDecoder(rd)
	for n := 0; n < 1<<20; n++ {
		m, err := dec.Decode()
		if err == io.EOF {
			res.end = "eof"
			return
		}
		if consensus.IsDataCorruptionError(err) {
			if m != nil {
				res.end = "other: message returned together with a corruption error"
				return
			}
			res.end = "dce"
			return
		}
		if err != nil {
			res.end = "other: " + err.Error()
			return
		}
		res.frames = append(res.frames, reencode(m))
		res.cans = append(res.cans, canon(m.Msg))
	}
	res.end = "other: endless"
	return
}

func (w *world) readAll() (res readRes) {
	defer func() {
		if p := recover(); p != nil {
			res.end = fmt.Sprint("PANIC: ", p)
		}
	}()
	g := w.wal.Group()
	gr, err := g.NewReader(g.MinIndex())
	if err != nil {
		return readRes{end: "other: " + err.Error()}
	}
	defer gr.Close()
	return drain(gr)
}

// scanAll reads the whole group the way SearchForEndHeight does with IgnoreDataCorruptionErrors
// (corruption errors are skipped, reading goes on with whatever bytes come next), through the
// spy: the largest buffer a decoder that lost the framing allocates.  It runs in front of the real
// search, whose reader cannot be watched.
func (w *world) scanAll() (maxReq int, end string) {
	g := w.wal.Group()
	gr, err := g.NewReader(g.MinIndex())
	if err != nil {
		return 0, "other: " + err.Error()
	}
	defer gr.Close()
	rd := &spy{rd: gr}
	defer func() {
		maxReq = rd.max
		if p := recover(); p != nil {
			if _, ok := p.(oversize); ok {
				end = "other: oversize allocation"
				return
			}
			end = fmt.Sprint("PANIC: ", p)
		}
	}()
	dec := consensus.NewWALDecoder(rd)
	for n := 0; n < 1<<20; n++ {
		_, err := dec.Decode()
		if err == io.EOF {
			return rd.max, "eof"
		}
		if err != nil && !consensus.IsDataCorruptionError(err) {
			return rd.max, "other: " + err.Error()
		}
	}
	return rd.max, "other: endless"
}

func readFile(p string) readRes {
	f, err := os.Open(p)
	if err != nil {
		return readRes{end: "eof"} // a head that does not exist yet is an empty file
	}
	defer f.Close()
	return drain(f)
}

type searchRes struct {
	t    string // "found" | "nf" | "err" | "other: ..." | "PANIC: ..."
	rest readRes
}

func (w *world) search(h int64, ign bool) (res searchRes) {
	defer func() {
		if p := recover(); p != nil {
			res.t = fmt.Sprint("PANIC: ", p)
		}
	}()
	rd, found, err := w.wal.SearchForEndHeight(h, &consensus.WALSearchOptions{IgnoreDataCorruptionErrors: ign})
	switch {
	case err != nil && (found || rd != nil):
		return searchRes{t: "other: error together with found/reader"}
	case consensus.IsDataCorruptionError(err):
		return searchRes{t: "err"}
	case err != nil:
		return searchRes{t: "other: " + err.Error()}
	case !found && rd != nil:
		return searchRes{t: "other: reader without found"}
	case !found:
		return searchRes{t: "nf"}
	case rd == nil:
		return searchRes{t: "other: found without reader"}
	}
	defer rd.Close()
	return searchRes{t: "found", rest: drain(rd)}
}

// repair runs repairWalFile(src -> dst) and returns dst's bytes.
func repair(src, dst string) (out []byte, res string) {
	defer func() {
		if p := recover(); p != nil {
			res = fmt.Sprint("PANIC: ", p)
		}
	}()
	if err := consensus.VerifRepairWalFile(src, dst); err != nil {
		return nil, "error: " + err.Error()
	}
	return fileBytes(dst), "ok"
}

// ---------------------------------------------------------------------------------------------
// exact payload sizes (for the limit of Encode / Decode)

var fixedTime = time.Unix(1700000000, 123456789).UTC()

func encodeFixed(b *bytes.Buffer, m consensus.WALMessage) error {
	return consensus.NewWALEncoder(b).Encode(&consensus.TimedWALMessage{Time: fixedTime, Msg: m})
}

func paddedMsg(pad int) consensus.WALMessage {
	return consensus.VerifMsgInfo(&consensus.HasVoteMessage{Height: 7, Round: 1, Type: 1, Index: 3}, p2pID(strings.Repeat("x", pad)))
}

// sizedMsg returns a message whose encoded TimedWALMessage (with fixedTime) has exactly n bytes,
// for n between 64 KiB and 2 MiB (all nested length prefixes are 3 bytes wide in that range).
func sizedMsg(n int) consensus.WALMessage {
	var b bytes.Buffer
	if err := encodeFixed(&b, paddedMsg(100000)); err != nil {
		panic(err)
	}
	c := b.Len() - 8 - 100000
	return paddedMsg(n - c)
}
