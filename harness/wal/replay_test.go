// replay_test.go: MBT.  Every transition TLC printed for MC_WAL (path + expected observations) is
// replayed on a real consensus.BaseWAL; a damage action is realised for every byte offset / bit of
// its class (or a seeded selection, see WAL_EXH) and every observer of the real code is compared
// with the specification: group read, per-file read, SearchForEndHeight (all heights, both
// options), repairWalFile.
package wal

import (
	"bytes"
	"encoding/binary"
	"encoding/hex"
	"encoding/json"
	"fmt"
	"hash/fnv"
	"math/rand"
	"os"
	"path/filepath"
	"runtime"
	"sort"
	"strings"
	"sync/atomic"
	"testing"

	"verifharness/internal/mbt"
)

type action struct {
	op   string
	args []json.RawMessage
	res  string
}

func (a action) str(i int) string { var s string; json.Unmarshal(a.args[i], &s); return s }
func (a action) num(i int) int    { var n int; json.Unmarshal(a.args[i], &n); return n }

type idsEnd struct {
	ids []int
	end string
}

type outcome struct {
	t    string
	rest idsEnd
}

type searchExp struct {
	h   int64
	ign bool
	out []outcome
}

type expObs struct {
	files [][]seg // id + d only
	gone  int
	buf   []int
	ra    idsEnd
	rf    []idsEnd
	s     []searchExp
	miss  []int64
}

type line struct {
	H []json.RawMessage `json:"h"`
	O struct {
		F    [][][]json.RawMessage `json:"f"`
		B    []int                 `json:"b"`
		G    int                   `json:"g"`
		RA   []json.RawMessage     `json:"ra"`
		RF   [][]json.RawMessage   `json:"rf"`
		S    [][]json.RawMessage   `json:"s"`
		Miss []int64               `json:"miss"`
	} `json:"o"`
}

func parseIdsEnd(p []json.RawMessage) (r idsEnd) {
	json.Unmarshal(p[0], &r.ids)
	json.Unmarshal(p[1], &r.end)
	return
}

func parseLine(raw []byte) (acts []action, e expObs, err error) {
	var l line
	if err = json.Unmarshal(raw, &l); err != nil {
		return
	}
	for _, h := range l.H {
		var parts []json.RawMessage
		if err = json.Unmarshal(h, &parts); err != nil {
			return
		}
		var a action
		json.Unmarshal(parts[0], &a.op)
		json.Unmarshal(parts[len(parts)-1], &a.res)
		a.args = parts[1 : len(parts)-1]
		acts = append(acts, a)
	}
	for _, f := range l.O.F {
		var ss []seg
		for _, x := range f {
			var s seg
			json.Unmarshal(x[0], &s.id)
			json.Unmarshal(x[1], &s.d)
			ss = append(ss, s)
		}
		e.files = append(e.files, ss)
	}
	e.buf = l.O.B
	e.gone = l.O.G
	e.ra = parseIdsEnd(l.O.RA)
	for _, r := range l.O.RF {
		e.rf = append(e.rf, parseIdsEnd(r))
	}
	for _, s := range l.O.S {
		var x searchExp
		var ign int
		json.Unmarshal(s[0], &x.h)
		json.Unmarshal(s[1], &ign)
		x.ign = ign == 1
		var outs [][]json.RawMessage
		json.Unmarshal(s[2], &outs)
		for _, o := range outs {
			var oc outcome
			json.Unmarshal(o[0], &oc.t)
			json.Unmarshal(o[2], &oc.rest.ids)
			json.Unmarshal(o[3], &oc.rest.end)
			x.out = append(x.out, oc)
		}
		e.s = append(e.s, x)
	}
	e.miss = l.O.Miss
	return
}

func isDamage(op string) bool { return op == "flip" || op == "cut" || op == "junk" }

func hash64(s string) uint64 { h := fnv.New64a(); h.Write([]byte(s)); return h.Sum64() }

type runner struct {
	res       *mbt.Result
	scratch   string
	logStr    int // every logStr-th LOG is replayed (all transitions that damage it included)
	exhPct    int // percentage of the replayed logs whose damages are realised exhaustively
	k         int // variants per damage otherwise
	seed      int64
	nvar      int64
	nobs      int64
	nlock     int64
	hugeOK    int32
	wpr       int   // WritesPerRecord of the specification the dump comes from (1)
	nsplitpos int64 // in-write ticks placed at a group-write position the specification does not have
	// set once the decoder has been seen allocating more than the limit: no larger length is
	// tried after that (a 4 GiB buffer per worker gets the test process killed)
	allocBroken int32
}

type lineCtx struct {
	n     int
	raw   []byte
	acts  []action
	exp   expObs
	class string // damage class of the last damage ("none")
	rn    *runner
}

func (c *lineCtx) detail(extra map[string]interface{}) map[string]interface{} {
	d := map[string]interface{}{"line": string(c.raw), "seed": c.rn.seed, "dump_line": c.n}
	for k, v := range extra {
		d[k] = v
	}
	return d
}

// expected frames for a list of record ids
func (w *world) frames(ids []int) [][]byte {
	out := make([][]byte, len(ids))
	for i, id := range ids {
		if r := w.recs[id]; r != nil {
			out[i] = r.orig
		}
	}
	return out
}

func sameFrames(a, b [][]byte) bool {
	if len(a) != len(b) {
		return false
	}
	for i := range a {
		if !bytes.Equal(a[i], b[i]) {
			return false
		}
	}
	return true
}

// describe what a read returned in terms of record ids (0 = not a written record)
func (w *world) name(r readRes) string {
	var ids []string
	for i, f := range r.frames {
		id := 0
		for _, rc := range w.recs {
			if bytes.Equal(rc.orig, f) {
				id = rc.id
			}
		}
		if id == 0 {
			ids = append(ids, "ALIEN("+r.cans[i]+")")
		} else {
			ids = append(ids, fmt.Sprint(id))
		}
	}
	return "[" + strings.Join(ids, " ") + "] " + r.end
}

// readVerdict classifies a disagreement between a real read and the specified one.
//
//	"P" the statement of C15 is falsified: a message sequence other than the specified one (a
//	    different message, a record behind the damage, a missing one), an error that is neither
//	    end-of-log nor a corruption error, an undamaged log that does not end with end-of-log;
//	"L" only the way a DAMAGED log ends differs (io.EOF vs DataCorruptionError): the statement
//	    allows both, the specification pins one -- reported as a lock-step divergence.
func readVerdict(got readRes, wantFrames [][]byte, wantEnd string, damaged bool) string {
	if sameFrames(got.frames, wantFrames) && got.end == wantEnd {
		return ""
	}
	if !sameFrames(got.frames, wantFrames) || (got.end != "eof" && got.end != "dce") || !damaged {
		return "P"
	}
	return "L"
}

// soundFound: is what the reader returned by a successful search delivers the continuation of
// SOME intact marker of that height (the statement's "positions the reader at the message after it")?
func (w *world) soundFound(h int64, rest readRes) bool {
	for i := range w.disk {
		var st []seg
		for _, f := range w.disk[i:] {
			st = append(st, f...)
		}
		for p, s := range st {
			rc := w.recs[s.id]
			if rc == nil || rc.kind != "eh" || rc.can != fmt.Sprintf("eh %d", h) {
				continue
			}
			if s.d != "ok" && !(strings.HasSuffix(s.d, "S") && p < len(st)-1) {
				continue
			}
			var want [][]byte
			if s.d == "ok" {
				for _, x := range st[p+1:] {
					if x.d != "ok" {
						break
					}
					want = append(want, w.recs[x.id].orig)
				}
			}
			if sameFrames(rest.frames, want) && (rest.end == "eof" || rest.end == "dce") {
				return true
			}
		}
	}
	return false
}

func endClass(e string) string {
	if i := strings.Index(e, ":"); i > 0 {
		return e[:i]
	}
	return e
}

// compareAll runs every observer on the real WAL and compares with the expected observations.
// what describes the realised damage (for the report).
func (c *lineCtx) compareAll(w *world, what map[string]interface{}, only int) bool {
	rn := c.rn
	e := &c.exp
	if !w.classConsistent() {
		rn.res.Add("variants_in_other_splice_class", 1)
		return false
	}
	if c.class != "none" && atomic.LoadInt32(&rn.allocBroken) == 1 {
		// the decoder allocates what a damaged length field says (already reported): every further
		// damaged log costs gigabytes, the process would not survive
		rn.res.Add("damaged_logs_not_read_after_overallocation", 1)
		return false
	}
	atomic.AddInt64(&rn.nvar, 1)
	bad := func(sig, text string) {
		rn.res.Mismatch(sig, text, c.detail(what))
	}
	lock := func(where, text string) { // the specification and the code differ where the statement is open
		atomic.AddInt64(&rn.nlock, 1)
		rn.res.Mismatch("infra:lockstep:"+where, text+" (the statement of C15 allows both)", c.detail(what))
	}
	damaged := c.class != "none"
	alloc := func(r readRes, who string) {
		if r.maxReq > maxMsg {
			atomic.StoreInt32(&rn.allocBroken, 1)
			bad("wal:alloc:"+c.class, fmt.Sprintf("%s: the decoder allocated a payload buffer of %d bytes (limit %d)", who, r.maxReq, maxMsg))
		}
	}
	// group read
	ra := w.readAll()
	alloc(ra, "group read")
	atomic.AddInt64(&rn.nobs, 1)
	if damaged { // what a reader that skips corruption errors allocates on its way to the end
		mr, end := w.scanAll()
		alloc(readRes{maxReq: mr}, "group read that skips corruption errors")
		atomic.AddInt64(&rn.nobs, 1)
		if strings.HasPrefix(end, "PANIC") {
			bad("wal:panic:scan:"+c.class, "reading the group while skipping corruption errors panicked: "+end)
		} else if end == "other: endless" {
			bad("wal:scan:"+c.class+":endless", "reading the group while skipping corruption errors does not end")
		}
	}
	noSearch := atomic.LoadInt32(&rn.allocBroken) == 1 // the reader inside the search cannot be watched: it is not run once the decoder over-allocates
	if strings.HasPrefix(ra.end, "PANIC") {
		bad("wal:panic:read-group:"+c.class, "reading the group panicked: "+ra.end)
	} else if v := readVerdict(ra, w.frames(e.ra.ids), e.ra.end, damaged); v == "P" {
		bad("wal:read-group:"+c.class+":"+e.ra.end+"->"+endClass(ra.end),
			fmt.Sprintf("group read returned %s, specified %v %s", w.name(ra), e.ra.ids, e.ra.end))
	} else if v == "L" {
		lock("read-group:"+c.class+":"+e.ra.end+"->"+ra.end, fmt.Sprintf("group read returned %s, specified %v %s", w.name(ra), e.ra.ids, e.ra.end))
	}
	// per-file read and repair
	for i := range w.disk {
		if only >= 0 && i != only {
			continue // not touched by this variant, compared with the first one
		}
		rf := readFile(w.path(i))
		alloc(rf, "file read")
		atomic.AddInt64(&rn.nobs, 1)
		x := e.rf[i]
		if strings.HasPrefix(rf.end, "PANIC") {
			bad("wal:panic:read-file:"+c.class, "reading a file panicked: "+rf.end)
		} else if v := readVerdict(rf, w.frames(x.ids), x.end, damaged); v == "P" {
			bad("wal:read-file:"+c.class+":"+x.end+"->"+endClass(rf.end),
				fmt.Sprintf("file %d read through os.File returned %s, specified %v %s", i+1, w.name(rf), x.ids, x.end))
		} else if v == "L" {
			lock("read-file:"+c.class+":"+x.end+"->"+rf.end, fmt.Sprintf("file %d read through os.File returned %s, specified %v %s", i+1, w.name(rf), x.ids, x.end))
		}
		if _, err := os.Stat(w.path(i)); err == nil && atomic.LoadInt32(&rn.allocBroken) == 0 {
			out, r := repair(w.path(i), filepath.Join(w.root, "repair.tmp"))
			atomic.AddInt64(&rn.nobs, 1)
			want := bytes.Join(w.frames(x.ids), nil)
			if r != "ok" {
				bad("wal:repair:"+c.class+":"+endClass(r), fmt.Sprintf("repairWalFile of file %d: %s", i+1, r))
			} else if !bytes.Equal(out, want) {
				bad("wal:repair:"+c.class+":content", fmt.Sprintf("repairWalFile of file %d kept %d bytes, the longest valid prefix %v has %d bytes",
					i+1, len(out), x.ids, len(want)))
			}
		}
	}
	// searches
	for _, s := range e.s {
		if noSearch {
			break
		}
		got := w.search(s.h, s.ign)
		alloc(got.rest, "reader returned by the search")
		atomic.AddInt64(&rn.nobs, 1)
		mode := "strict"
		if s.ign {
			mode = "ignore"
		}
		if strings.HasPrefix(got.t, "PANIC") || strings.HasPrefix(got.rest.end, "PANIC") {
			bad("wal:panic:search:"+c.class, fmt.Sprintf("SearchForEndHeight(%d, %s) panicked: %s %s", s.h, mode, got.t, got.rest.end))
			continue
		}
		ok, onlyFound := false, len(s.out) > 0
		var allowed []string
		for _, o := range s.out {
			allowed = append(allowed, fmt.Sprintf("%s %v %s", o.t, o.rest.ids, o.rest.end))
			if o.t != "found" {
				onlyFound = false
			}
			if o.t != got.t {
				continue
			}
			if o.t != "found" || (sameFrames(got.rest.frames, w.frames(o.rest.ids)) && got.rest.end == o.rest.end) {
				ok = true
			}
		}
		if ok {
			continue
		}
		desc := got.t
		if got.t == "found" {
			desc += " then " + w.name(got.rest)
		}
		text := fmt.Sprintf("SearchForEndHeight(%d, %s) gave %s; specified one of %v", s.h, mode, desc, allowed)
		// What falsifies the statement: any disagreement on an undamaged log (found iff written,
		// reader behind the marker); on a damaged one a result that is neither found / not found /
		// corruption error, a "found" that is not behind an intact marker of that height, and a
		// marker the specification says is certainly found (nothing damaged is in the way, or the
		// option says to skip it) that the code reports as absent, or as a corruption although
		// it was told to ignore corruption.  Everything else on a damaged log (a strict search that
		// gives up with a corruption error, error vs not found, found behind the damage) the
		// statement leaves open ("reported as end-of-log or as a corruption error").
		switch {
		case !damaged,
			got.t != "found" && got.t != "nf" && got.t != "err",
			got.t == "found" && !w.soundFound(s.h, got.rest),
			got.t == "nf" && onlyFound,
			got.t == "err" && onlyFound && s.ign:
			bad("wal:search:"+c.class+":"+mode+":"+endClass(got.t), text)
		default:
			lock("search:"+c.class+":"+mode+":"+got.t, text)
		}
	}
	// the statement itself: a written marker is found.  The specification (which transcribes the
	// early exit of the search) says which heights are missed; if the real code misses them too
	// this is a finding about the code, not a disagreement.
	for _, h := range e.miss {
		if noSearch {
			break
		}
		got := w.search(h, true)
		if got.t == "nf" {
			bad("wal:search:missed-marker:heights-not-increasing",
				fmt.Sprintf("EndHeight(%d) was written (and is intact) but SearchForEndHeight(%d) reports not found: "+
					"a newer file ends with a marker of a smaller height and the search stops there", h, h))
		}
	}
	return true
}

func (c *lineCtx) compareLayout(w *world) bool {
	e := &c.exp
	ok := len(w.disk) == len(e.files) && len(w.pend) == len(e.buf) && w.gone == e.gone
	for i := 0; ok && i < len(w.disk); i++ {
		ok = len(w.disk[i]) == len(e.files[i])
		for j := 0; ok && j < len(w.disk[i]); j++ {
			ok = w.disk[i][j].id == e.files[i][j].id && w.disk[i][j].d == e.files[i][j].d
		}
	}
	for i := 0; ok && i < len(w.pend); i++ {
		ok = w.pend[i] == e.buf[i]
	}
	return ok
}

// flatIDs: the sequence of records of a layout, whatever file or buffer they sit in (the halves of a split frame are
// one record; junk is 0)
func flatIDs(d [][]seg, pend []int) []int {
	var all []int
	for _, f := range d {
		for _, s := range f {
			if len(all) == 0 || all[len(all)-1] != s.id || s.id == 0 {
				all = append(all, s.id)
			}
		}
	}
	return append(all, pend...)
}

// layoutDiffers reports a layout other than the specified one.  When the SEQUENCE OF RECORDS itself differs (the log
// holds a record nobody wrote, or lacks one that was written) this is the property's own subject and a verdict;
// a different distribution of the same records over files and buffer is lock-step.
func (c *lineCtx) layoutDiffers(w *world) {
	got, want := flatIDs(w.disk, w.pend), flatIDs(c.exp.files, c.exp.buf)
	text := fmt.Sprintf("on disk %s, specified %s", layoutStr(w.disk, w.pend), layoutStr(c.exp.files, c.exp.buf))
	if w.gone == c.exp.gone && fmt.Sprint(got) != fmt.Sprint(want) {
		last := c.acts[len(c.acts)-1].op
		hist := string(c.raw)
		if i := strings.Index(hist, `,"o":`); i > 0 {
			hist = hist[:i]
		}
		c.rn.res.Mismatch("wal:content:after-"+last, "the log holds the records "+fmt.Sprint(got)+", specified "+fmt.Sprint(want)+" ("+text+") -- path "+hist, c.detail(nil))
		return
	}
	c.lockstep(w, "layout", text)
}

func layoutStr(d [][]seg, pend []int) string {
	var sb strings.Builder
	for _, f := range d {
		sb.WriteString("[")
		for _, s := range f {
			fmt.Fprintf(&sb, "%d:%s ", s.id, s.d)
		}
		sb.WriteString("] ")
	}
	fmt.Fprintf(&sb, "buf %v", pend)
	return sb.String()
}

// lockstep: the real WAL did something the specification does not describe in a part that only
// serves to keep both in step (rotation points, buffering).  The statement of C15 is then checked
// directly (everything flushed is read back, in order), and the line is reported as not followed.
func (c *lineCtx) lockstep(w *world, where, text string) {
	atomic.AddInt64(&c.rn.nlock, 1)
	if w != nil && w.wal != nil && c.class == "none" {
		var all []int
		for _, f := range w.disk {
			for _, s := range f {
				if s.id > 0 && (len(all) == 0 || all[len(all)-1] != s.id) { // the halves of a split frame are one record
					all = append(all, s.id)
				}
			}
		}
		ra := w.readAll()
		if !sameFrames(ra.frames, w.frames(all)) || (ra.end != "eof" && !(w.split() && ra.end == "dce")) {
			c.rn.res.Mismatch("wal:read-group:none:lost-or-reordered",
				fmt.Sprintf("group read returned %s, on disk are the records %v", w.name(ra), all), c.detail(nil))
		}
	}
	hist := string(c.raw)
	if i := strings.Index(hist, `,"o":`); i > 0 {
		hist = hist[:i]
	}
	c.rn.res.Mismatch("infra:lockstep:"+where, text+" -- path "+hist+fmt.Sprintf(" (seed %d, dump line %d, index base %d)", c.rn.seed, c.n, baseOf(w)), c.detail(nil))
}

// syncProblem reports what world.sync found: a record that does not hold the written message is
// the property ("returns the written messages unchanged"), anything else is lock-step.
func (c *lineCtx) syncProblem(w *world, op, p string) {
	if strings.HasPrefix(p, "record ") {
		kind := "?"
		var id int
		if _, err := fmt.Sscanf(p, "record %d", &id); err == nil && w.recs[id] != nil {
			kind = w.recs[id].kind
		}
		c.rn.res.Mismatch("wal:roundtrip:"+kind, p, c.detail(nil))
		return
	}
	c.lockstep(w, op, p)
}

func baseOf(w *world) int {
	if w == nil {
		return 0
	}
	return w.base
}

// apply one non-damage action; returns false if the line cannot be followed further
func (c *lineCtx) step(w *world, a action) bool {
	rn := c.rn
	switch a.op {
	case "new":
		w.limit = int64(a.num(0))
		if len(a.args) > 1 {
			w.tlim = int64(a.num(1))
		}
		if w.tlim == 0 { // one log in three lives at file indices around 1000
			bases := []int{0, 0, 0, 0, 0, 0, 998, 999, 1000}
			if err := w.seedBase(bases[w.rng.Intn(len(bases))]); err != nil {
				rn.res.Mismatch("infra:open", err.Error(), c.detail(nil))
				return false
			}
		}
		if err := w.open(); err != nil {
			rn.res.Mismatch("infra:open", err.Error(), c.detail(nil))
			return false
		}
		if p := w.sync(true); p != "" {
			c.syncProblem(w, "new", p)
			return false
		}
	case "w", "ws":
		kind, h := a.str(0), int64(a.num(1))
		got := w.write(a.op == "ws", kind, h)
		if got != a.res {
			rn.res.Mismatch("wal:write:"+kind+":"+a.res+"->"+endClass(got),
				fmt.Sprintf("%s of a %s message: real %s, specified %s", a.op, kind, got, a.res), c.detail(nil))
			return false
		}
		if kind == "huge" && atomic.CompareAndSwapInt32(&rn.hugeOK, 0, 1) {
			c.encoderBoundary()
		}
		if p := w.sync(false); p != "" {
			c.syncProblem(w, a.op, p)
			return false
		}
	case "wt", "wst":
		// a Write / WriteSync during which the group's ticker runs its head-size check, behind
		// group write g of the message.  The specification (WritesPerRecord = 1) knows one
		// position; if the real encoder hands the record over in several group writes, every
		// real position is a place where the ticker can come: a seeded one is taken.
		kind, h, g, cmp, tres := a.str(0), int64(a.num(1)), a.num(2), a.str(3), a.str(4)
		pos := g
		if w.gwPer > 0 && w.gwPer != rn.wpr {
			pos = 1 + w.rng.Intn(w.gwPer)
			atomic.AddInt64(&rn.nsplitpos, 1)
		}
		got := "never ran"
		w.fireAt, w.fire = pos, func() { got = w.tick(cmp) }
		wres := w.write(a.op == "wst", kind, h)
		w.fire = nil
		if wres != a.res {
			rn.res.Mismatch("wal:write:"+kind+":"+a.res+"->"+endClass(wres),
				fmt.Sprintf("%s of a %s message: real %s, specified %s", a.op, kind, wres, a.res), c.detail(nil))
			return false
		}
		if got != tres {
			c.lockstep(w, "tick-in-write:"+cmp, fmt.Sprintf("checkHeadSizeLimit behind group write %d of a message (head size %s limit): real %s, specified %s", pos, cmp, got, tres))
			return false
		}
		if p := w.sync(false); p != "" {
			c.syncProblem(w, a.op, p)
			return false
		}
	case "fl":
		if err := w.wal.FlushAndSync(); err != nil {
			rn.res.Mismatch("infra:flush", err.Error(), c.detail(nil))
			return false
		}
		if p := w.sync(false); p != "" {
			c.syncProblem(w, a.op, p)
			return false
		}
	case "tick":
		got := w.tick(a.str(0))
		if got != a.res {
			c.lockstep(w, "tick:"+a.str(0), fmt.Sprintf("checkHeadSizeLimit with head size %s limit: real %s, specified %s", a.str(0), got, a.res))
			return false
		}
		if p := w.sync(false); p != "" {
			c.syncProblem(w, a.op, p)
			return false
		}
	case "prune":
		if p := w.prune(a.num(0), a.str(1)); p != "" {
			c.lockstep(w, "prune:"+a.str(1), p)
			return false
		}
		if p := w.sync(false); p != "" {
			c.syncProblem(w, a.op, p)
			return false
		}
	case "restart":
		w.close()
		if err := w.open(); err != nil {
			rn.res.Mismatch("infra:open", err.Error(), c.detail(nil))
			return false
		}
		if p := w.sync(true); p != "" {
			c.syncProblem(w, a.op, p)
			return false
		}
	case "crash":
		if err := w.crash(); err != nil {
			rn.res.Mismatch("infra:crash", err.Error(), c.detail(nil))
			return false
		}
		if p := w.sync(true); p != "" {
			c.syncProblem(w, a.op, p)
			return false
		}
	case "repair":
		if !w.classConsistent() {
			// bytes appended behind a cut record happen to equal the missing ones (or not): the
			// record belongs to the other splice class, this path is another transition's
			rn.res.Add("variants_in_other_splice_class", 1)
			return false
		}
		f := a.num(0) - 1
		w.close()
		src := w.path(f) + ".CORRUPTED"
		os.WriteFile(src, fileBytes(w.path(f)), 0o600)
		out, r := repair(src, w.path(f))
		os.Remove(src)
		if r != "ok" {
			rn.res.Mismatch("wal:repair:"+c.class+":"+endClass(r), "repairWalFile: "+r, c.detail(nil))
			return false
		}
		// the shadow follows what repair left, if that is a sequence of the file's records
		var kept []seg
		rest := out
		for _, s := range w.disk[f] {
			rc := w.recs[s.id]
			if rc == nil || !bytes.HasPrefix(rest, rc.orig) {
				break
			}
			kept = append(kept, seg{id: s.id, d: "ok", data: rc.orig})
			rest = rest[len(rc.orig):]
		}
		if len(rest) != 0 {
			rn.res.Mismatch("wal:repair:"+c.class+":content", fmt.Sprintf("repairWalFile of file %d left bytes that are not a prefix of its records", f+1), c.detail(nil))
			return false
		}
		w.disk[f] = kept
		if err := w.open(); err != nil {
			rn.res.Mismatch("infra:open", err.Error(), c.detail(nil))
			return false
		}
		if p := w.sync(true); p != "" {
			c.syncProblem(w, a.op, p)
			return false
		}
	default:
		rn.res.Mismatch("infra:action", "unknown action "+a.op, c.detail(nil))
		return false
	}
	return true
}

// encoderBoundary: the size limit of WALEncoder.Encode, exactly (fixed timestamp, padded peer id)
func (c *lineCtx) encoderBoundary() {
	for _, want := range []int{maxMsg - 1, maxMsg, maxMsg + 1} {
		m := sizedMsg(want)
		var b bytes.Buffer
		err := func() (err error) {
			defer func() {
				if p := recover(); p != nil {
					err = fmt.Errorf("PANIC: %v", p)
				}
			}()
			return encodeFixed(&b, m)
		}()
		okWant := want <= maxMsg
		if (err == nil) != okWant || (err == nil && b.Len() != want+8) {
			c.rn.res.Mismatch("wal:write:size-limit", fmt.Sprintf("Encode of a %d-byte payload (limit %d): err=%v, %d bytes written", want, maxMsg, err, b.Len()), nil)
			continue
		}
		if err == nil { // and the decoder takes it back
			r := drain(bytes.NewReader(b.Bytes()))
			if len(r.frames) != 1 || r.end != "eof" || !bytes.Equal(r.frames[0], b.Bytes()) {
				c.rn.res.Mismatch("wal:roundtrip:size-limit", fmt.Sprintf("a %d-byte payload does not read back: %d messages, %s", want, len(r.frames), r.end), nil)
			}
		}
	}
}

// damage variants of one damage action in the current world.  The returned closure applies
// variant v to the shadow and the directory.
type dmg struct {
	f, j  int
	class string
	vars  [][]byte
	base  []seg
}

func (c *lineCtx) prepDamage(w *world, a action, all bool) *dmg {
	d := &dmg{f: a.num(0) - 1}
	var frame []byte
	if a.op == "junk" {
		d.class = a.str(1)
	} else {
		d.j = a.num(1) - 1
		d.class = a.str(2)
		frame = w.disk[d.f][d.j].data
	}
	d.base = append([]seg(nil), w.disk[d.f]...)
	d.vars = variants(d.class, frame, all, w.rng, c.rn.k)
	return d
}

func (d *dmg) apply(w *world, v int) {
	b := d.vars[v]
	ss := append([]seg(nil), d.base...)
	switch {
	case strings.HasPrefix(d.class, "j"):
		ss = append(ss, seg{id: 0, d: d.class, data: b})
	case d.class == "clean":
		ss = ss[:d.j]
	case strings.HasPrefix(d.class, "cut"):
		ss = append(ss[:d.j:d.j], seg{id: d.base[d.j].id, d: d.class, data: b})
	default:
		ss[d.j] = seg{id: d.base[d.j].id, d: d.class, data: b}
	}
	w.disk[d.f] = ss
	os.WriteFile(w.path(d.f), segBytes(ss), 0o600)
}

func (d *dmg) describe(v int) map[string]interface{} {
	b := d.vars[v]
	if len(b) > 96 {
		b = b[:96]
	}
	return map[string]interface{}{"file": d.f + 1, "slot": d.j + 1, "class": d.class, "variant": v,
		"variant_of": len(d.vars), "bytes_hex_prefix": hex.EncodeToString(b)}
}

// run replays one line.
func (c *lineCtx) run() {
	rn := c.rn
	last := len(c.acts) - 1
	finalDamage := isDamage(c.acts[last].op)
	c.class = "none"
	for _, a := range c.acts {
		if isDamage(a.op) {
			c.class = a.str(len(a.args) - 1)
		}
	}
	// how many times the whole path is executed: once, unless a damage in the middle is realised
	// by several seeded variants
	inner := false
	for i, a := range c.acts {
		if isDamage(a.op) && i != last {
			inner = true
		}
	}
	runs := 1
	if inner {
		runs = 2
	}
	all := finalDamage && int(hash64(fmt.Sprint(rn.seed, "exh", c.logKey()))%100) < rn.exhPct
	for run := 0; run < runs; run++ {
		root := filepath.Join(rn.scratch, fmt.Sprintf("l%d-%d", c.n, run))
		os.MkdirAll(root, 0o700)
		w := &world{root: root, recs: map[int]*rec{}, next: 1, zero: map[int]bool{},
			rng: rand.New(rand.NewSource(rn.seed*1000003 + int64(c.n)*7 + int64(run)))}
		salt := w.rng.Intn(1 << 20)
		w.pick = func(id int) string { return msgKinds[(salt+id*7)%len(msgKinds)] }
		// records that a later "cutZero" hits must end in a zero byte: find their ids by a dry
		// run over the expected layout (ids are assigned in write order)
		c.markZero(w)
		ok := true
		for i, a := range c.acts {
			if !isDamage(a.op) {
				if ok = c.step(w, a); !ok {
					break
				}
				continue
			}
			if w.split() {
				// a file starts inside a frame: the layout is not the specified one (reported, with the
				// observers, by the transition in front of this damage); nothing to damage by the book
				c.lockstep(w, "layout", fmt.Sprintf("on disk %s: a file starts inside a frame", layoutStr(w.disk, w.pend)))
				ok = false
				break
			}
			d := c.prepDamage(w, a, all && i == last)
			if len(d.vars) == 0 { // class not realisable on this record (e.g. no zero byte at its end)
				rn.res.Add("unrealisable_"+d.class, 1)
				ok = false
				break
			}
			if i == last {
				if !c.layoutAfter(w, d) {
					ok = false
					break
				}
				only, done := -1, 0
				if d.class == "lenH" { // smallest excess first
					sort.Slice(d.vars, func(i, j int) bool {
						return binary.BigEndian.Uint32(d.vars[i][4:8]) < binary.BigEndian.Uint32(d.vars[j][4:8])
					})
				}
				for v := range d.vars {
					if d.class == "lenH" && atomic.LoadInt32(&rn.allocBroken) == 1 {
						break
					}
					d.apply(w, v)
					if c.compareAll(w, d.describe(v), only) {
						only = d.f
						done++
					}
				}
				if done == 0 {
					rn.res.Add("unrealisable_"+d.class, 1)
				}
				ok = false // observers done
				rn.res.Count(done)
				break
			}
			d.apply(w, (run*7+w.rng.Intn(len(d.vars)))%len(d.vars))
		}
		if ok && !w.classConsistent() {
			rn.res.Add("variants_in_other_splice_class", 1)
			ok = false
		}
		if ok {
			same := c.compareLayout(w)
			if !same {
				c.layoutDiffers(w)
			}
			// A layout other than the specified one ends the line -- except when a FILE STARTS INSIDE
			// A FRAME: then the question is the property's own (does every reader still return what
			// was written?), and the observers are compared with what the specification says about
			// the same records in whole frames.
			if (same || w.split()) && c.compareAll(w, nil, -1) {
				rn.res.Count(1)
			}
		}
		w.close()
		os.RemoveAll(root)
	}
}

// logKey identifies the log a transition works on: the path without a final damage action.
func (c *lineCtx) logKey() string {
	acts := c.acts
	if isDamage(acts[len(acts)-1].op) {
		acts = acts[:len(acts)-1]
	}
	var sb strings.Builder
	for _, a := range acts {
		sb.WriteString(a.op)
		sb.Write(bytes.Join(rawArgs(a), []byte(",")))
		sb.WriteString(a.res + ";")
	}
	return sb.String()
}

func rawArgs(a action) [][]byte {
	out := make([][]byte, len(a.args))
	for i, x := range a.args {
		out[i] = x
	}
	return out
}

// layoutAfter checks the expected layout for a final damage (variant 0 applied to a copy of the shadow)
func (c *lineCtx) layoutAfter(w *world, d *dmg) bool {
	d.apply(w, 0)
	if !c.compareLayout(w) {
		c.layoutDiffers(w)
		return false
	}
	return true
}

// markZero finds the ids of the records hit by a "cutZero" damage.
func (c *lineCtx) markZero(w *world) {
	for _, a := range c.acts {
		if a.op == "cut" && a.str(2) == "cutZero" {
			// the id is in the expected layout of the final state if the slot is still there;
			// otherwise fall back to all records
			f, j := a.num(0)-1, a.num(1)-1
			if f < len(c.exp.files) && j < len(c.exp.files[f]) && c.exp.files[f][j].d == "cutZero" {
				w.zero[c.exp.files[f][j].id] = true
			} else {
				for id := 1; id < 64; id++ {
					w.zero[id] = true
				}
			}
		}
	}
}

// probeAlloc runs once, alone, in front of the parallel replay: a record whose length field says
// limit+1.  A decoder that allocates it (1 MiB) is reported here, and no damaged log is read
// afterwards -- with random bytes in a length field the buffers are gigabytes, on every worker.
func (rn *runner) probeAlloc() {
	root := filepath.Join(rn.scratch, "probe")
	os.MkdirAll(root, 0o700)
	defer os.RemoveAll(root)
	w := &world{root: root, recs: map[int]*rec{}, next: 1, zero: map[int]bool{}, rng: rand.New(rand.NewSource(rn.seed))}
	w.pick = func(id int) string { return "vote" }
	if err := w.open(); err != nil {
		rn.res.Mismatch("infra:open", err.Error(), nil)
		return
	}
	defer func() { w.close() }()
	w.sync(true)
	w.write(true, "m", 0)
	if p := w.sync(false); p != "" || len(w.disk[0]) != 2 {
		return // reported by the replay proper
	}
	frame := w.disk[0][1].data
	w.disk[0][1] = seg{id: 2, d: "lenH", data: setLen(frame, maxMsg+1)}
	os.WriteFile(w.path(0), segBytes(w.disk[0]), 0o600)
	for who, r := range map[string]readRes{"group read": w.readAll(), "file read": readFile(w.path(0))} {
		if r.maxReq > maxMsg {
			atomic.StoreInt32(&rn.allocBroken, 1)
			rn.res.Mismatch("wal:alloc:lenH", fmt.Sprintf("%s: the decoder allocated a payload buffer of %d bytes for a record announcing %d (limit %d)",
				who, r.maxReq, maxMsg+1, maxMsg), map[string]interface{}{"record": "a vote message with the length field set to limit+1", "seed": rn.seed})
		}
	}
}

func TestReplay(t *testing.T) {
	res := mbt.NewResult()
	defer res.Write()
	scratch := os.Getenv("VERIF_SCRATCH")
	if scratch == "" {
		scratch = os.TempDir()
	}
	scratch, _ = os.MkdirTemp(scratch, "walreplay")
	defer os.RemoveAll(scratch)
	rn := &runner{res: res, scratch: scratch, wpr: mbt.EnvInt("WAL_WPR", 1), logStr: mbt.EnvInt("WAL_STRIDE", 1), exhPct: mbt.EnvInt("WAL_EXH", 10),
		k: mbt.EnvInt("WAL_K", 4), seed: mbt.Seed()}
	rn.probeAlloc()
	var replayed int64
	sent, err := mbt.EachLine(os.Getenv("WAL_DUMP"), mbt.EnvInt("WAL_WORKERS", 0), mbt.EnvInt("WAL_LIMIT", 0), 1, mbt.Seed(),
		func(n int, raw []byte) {
			acts, exp, err := parseLine(raw)
			if err != nil || len(acts) == 0 {
				res.Mismatch("infra:parse", fmt.Sprint(err), string(raw))
				return
			}
			c := &lineCtx{n: n, raw: raw, acts: acts, exp: exp, rn: rn}
			// sampling is by LOG, not by line: a transition that damages a log is replayed iff
			// the log (the path in front of the damage) is, so that a replayed log is hit by
			// every damage class at every record -- with WAL_EXH, at every byte and bit
			if rn.logStr > 1 && hash64(fmt.Sprint(rn.seed, "pick", c.logKey()))%uint64(rn.logStr) != 0 {
				return
			}
			atomic.AddInt64(&replayed, 1)
			func() {
				defer func() {
					if p := recover(); p != nil {
						res.Mismatch("infra:driver-panic", fmt.Sprint(p), string(raw))
					}
				}()
				c.run()
			}()
			if c.class != "none" || len(acts) > 2 {
				la := acts[len(acts)-1]
				res.Distinct(fmt.Sprintf("%d/%s%s", len(exp.files), la.op, bytes.Join(rawArgs(la), nil)))
			}
			if n%4099 == 1 {
				res.Sample(json.RawMessage(raw))
			}
		})
	if err != nil {
		res.Mismatch("infra:read", err.Error(), nil)
	}
	if sent == 0 {
		res.Mismatch("infra:empty-dump", "no transitions in "+os.Getenv("WAL_DUMP"), nil)
	}
	res.Behaviours = int(replayed)
	res.Set("damage_variants_and_states_observed", rn.nvar)
	res.Set("observer_calls", rn.nobs)
	res.Set("in_write_ticks_at_unspecified_group_write", rn.nsplitpos)
}

// TestAlloc: "never an allocation beyond the message size limit", for the one reader the spy of
// drain() cannot be put in front of: the GroupReader inside SearchForEndHeight.  Serial (the
// allocation counter of the runtime is global): for transitions of the dump whose last action
// sets a length field above the limit, every variant is applied and the bytes allocated by the
// real readers that stop at the first error (group read, file read, strict search) are
// measured: the length must be refused before the payload buffer is made.  Variants are tried
// in increasing order of the announced length, the first excess ends the line.
func TestAlloc(t *testing.T) {
	res := mbt.NewResult()
	defer res.Write()
	scratch := os.Getenv("VERIF_SCRATCH")
	if scratch == "" {
		scratch = os.TempDir()
	}
	scratch, _ = os.MkdirTemp(scratch, "walalloc")
	defer os.RemoveAll(scratch)
	rn := &runner{res: res, scratch: scratch, k: 4, wpr: 1, seed: mbt.Seed()}
	limit := mbt.EnvInt("WAL_LIMIT", 150)
	done := 0
	var worst uint64
	_, err := mbt.EachLine(os.Getenv("WAL_DUMP"), 1, 0, 1, 0, func(n int, raw []byte) {
		if done >= limit || !bytes.Contains(raw, []byte(`"lenH","ok"]],"o"`)) {
			return
		}
		if hash64(fmt.Sprint(rn.seed, n))%7 != 0 {
			return
		}
		acts, exp, err := parseLine(raw)
		if err != nil {
			res.Mismatch("infra:parse", fmt.Sprint(err), string(raw))
			return
		}
		c := &lineCtx{n: n, raw: raw, acts: acts, exp: exp, rn: rn, class: acts[len(acts)-1].str(2)}
		root := filepath.Join(scratch, fmt.Sprint("a", n))
		os.MkdirAll(root, 0o700)
		defer os.RemoveAll(root)
		w := &world{root: root, recs: map[int]*rec{}, next: 1, zero: map[int]bool{}, rng: rand.New(rand.NewSource(rn.seed + int64(n)))}
		w.pick = func(id int) string { return msgKinds[(n+id)%len(msgKinds)] }
		defer func() { w.close() }()
		for _, a := range acts[:len(acts)-1] {
			if isDamage(a.op) || !c.step(w, a) {
				return
			}
		}
		d := c.prepDamage(w, acts[len(acts)-1], true)
		sort.Slice(d.vars, func(i, j int) bool {
			return binary.BigEndian.Uint32(d.vars[i][4:8]) < binary.BigEndian.Uint32(d.vars[j][4:8])
		})
		done++
		for v := range d.vars {
			d.apply(w, v)
			announced := binary.BigEndian.Uint32(d.vars[v][4:8])
			var m0, m1 runtime.MemStats
			runtime.ReadMemStats(&m0)
			w.readAll()
			readFile(w.path(d.f))
			for _, s := range exp.s {
				if !s.ign {
					w.search(s.h, false)
				}
			}
			runtime.ReadMemStats(&m1)
			got := m1.TotalAlloc - m0.TotalAlloc
			res.Count(1)
			// bufio buffers (4 KiB per file opened) and the decoded messages are small change
			budget := uint64(256 << 10)
			if got > worst {
				worst = got
			}
			if got > budget {
				res.Mismatch("wal:alloc:"+d.class, fmt.Sprintf("a record announcing %d bytes (limit %d) made the readers allocate %d bytes",
					announced, maxMsg, got), c.detail(d.describe(v)))
				return
			}
		}
	})
	if err != nil {
		res.Mismatch("infra:read", err.Error(), nil)
	}
	if done == 0 {
		res.Mismatch("infra:empty-dump", "no length-field transitions in "+os.Getenv("WAL_DUMP"), nil)
	}
	res.Behaviours = done
	res.Set("alloc_worst_bytes", worst)
}
