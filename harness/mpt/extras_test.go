package mpt

// TestDerive: types.DeriveSha over the streaming StackTrie and over a regular trie, for every list length
// of MC_Derive, against the driver's independent hash of the specified tree.
// TestSecure: the histories of MC_MPT over a universe of keccak-hashed keys, replayed into trie.StateTrie
// (SecureTrie) through the preimages.

import (
	"bytes"
	"encoding/json"
	"fmt"
	"os"
	"testing"

	"github.com/kardiachain/go-kardia/kai/kaidb/memorydb"
	"github.com/kardiachain/go-kardia/lib/common"
	"github.com/kardiachain/go-kardia/lib/crypto"
	"github.com/kardiachain/go-kardia/trie"
	"github.com/kardiachain/go-kardia/trie/trienode"
	"github.com/kardiachain/go-kardia/types"

	"verifharness/internal/mbt"
)

// itemList is a types.DerivableList whose item i is the value of class (i mod NV) + 1 (MC_Derive.ItemClass).
type itemList struct {
	u *universe
	n int
}

func (l itemList) Len() int { return l.n }
func (l itemList) EncodeIndex(i int, w *bytes.Buffer) {
	w.Write(l.u.val(i%len(l.u.vals) + 1))
}

func TestDerive(t *testing.T) {
	res := mbt.NewResult()
	defer res.Write()
	u, err := loadUniverse()
	if err != nil {
		res.Mismatch("infra:universe", err.Error(), nil)
		return
	}
	type line struct {
		N int             `json:"n"`
		T json.RawMessage `json:"t"`
	}
	sent, err := mbt.EachLine(os.Getenv("MPT_DUMP"), 0, 0, 1, 0, func(_ int, raw []byte) {
		var l line
		if err := json.Unmarshal(raw, &l); err != nil {
			res.Mismatch("infra:parse", err.Error(), string(raw[:100]))
			return
		}
		tree, err := parseTree(l.T)
		if err != nil {
			res.Mismatch("infra:parse", err.Error(), nil)
			return
		}
		want := u.root(tree)
		fail := func(what, text string) {
			res.Mismatch("mpt:derivesha:"+what, fmt.Sprintf("list of %d items: %s", l.N, text), map[string]interface{}{"n": l.N, "vallen": os.Getenv("MPT_VALLEN")})
		}
		defer func() {
			if r := recover(); r != nil {
				fail("panic", fmt.Sprintf("panic: %v", r))
			}
		}()
		list := itemList{u, l.N}
		if got := types.DeriveSha(list, trie.NewStackTrie(nil)); got != want {
			fail("stacktrie", fmt.Sprintf("DeriveSha over StackTrie = %x, independent hash of the specified tree %x", got, want))
		}
		if got := types.DeriveSha(list, trie.NewEmpty(trie.NewDatabase(memorydb.New()))); got != want {
			fail("trie", fmt.Sprintf("DeriveSha over a regular trie = %x, independent hash of the specified tree %x", got, want))
		}
		res.Count(1)
		if l.N > 1 {
			res.Distinct(fmt.Sprint("derive", l.N))
		}
		if l.N == 129 {
			res.Sample(map[string]interface{}{"derive_sha_list_length": l.N, "root": want.Hex()})
		}
	})
	if err != nil {
		res.Mismatch("infra:read", err.Error(), nil)
	}
	res.Behaviours = sent
	res.Set(tagged("derivesha_lists"), sent)
}

func TestSecure(t *testing.T) {
	res := mbt.NewResult()
	defer res.Write()
	u, err := loadUniverse() // keys = keccak(preimage), ascending
	if err != nil {
		res.Mismatch("infra:universe", err.Error(), nil)
		return
	}
	var pre [][]byte
	{
		var ps [][]int
		if err := json.Unmarshal([]byte(os.Getenv("MPT_PREIMAGES")), &ps); err != nil || len(ps) != len(u.keys) {
			res.Mismatch("infra:universe", fmt.Sprintf("MPT_PREIMAGES: %v", err), nil)
			return
		}
		for i, p := range ps {
			b := make([]byte, len(p))
			for j, x := range p {
				b[j] = byte(x)
			}
			if !bytes.Equal(crypto.Keccak256(b), u.keys[i]) {
				res.Mismatch("infra:universe", "key is not the keccak of its preimage (python keccak wrong?)", i)
				return
			}
			pre = append(pre, b)
		}
	}
	tb := loadTable(u, os.Getenv("MPT_TABLE"), res)
	bij := &bijection{byC: map[string]common.Hash{}, byRoot: map[common.Hash]string{}}
	seed := mbt.Seed()
	sent, err := mbt.EachLine(os.Getenv("MPT_DUMP"), 0, mbt.EnvInt("MPT_LIMIT", 0), mbt.EnvInt("MPT_STRIDE", 1), seed, func(n int, raw []byte) {
		var l replayLine
		if err := json.Unmarshal(raw, &l); err != nil {
			res.Mismatch("infra:parse", err.Error(), string(raw))
			return
		}
		exp := tb.get(l.C)
		if exp == nil {
			res.Mismatch("infra:table-miss", "content not in the table", string(raw))
			return
		}
		hist := parseHist(l.H)
		mode := int((int64(n) + seed) % 4) // 0 plain, 1 commit+reopen before the last step, 2 copy before the last step, 3 storage API
		detail := map[string]interface{}{"hist": l.H, "content": l.C, "mode": mode, "preimages": os.Getenv("MPT_PREIMAGES"), "vallen": os.Getenv("MPT_VALLEN")}
		fail := func(what, text string) {
			res.Mismatch("mpt:secure:"+what, fmt.Sprintf("after %v (mode %d): %s", l.H, mode, text), detail)
		}
		defer func() {
			if r := recover(); r != nil {
				fail("panic", fmt.Sprintf("panic: %v", r))
			}
		}()
		db := trie.NewDatabase(memorydb.New())
		st, err := trie.NewStateTrie(trie.TrieID(types.EmptyRootHash), db)
		if err != nil {
			fail("open", err.Error())
			return
		}
		parent := types.EmptyRootHash
		var orig *trie.StateTrie // mode 2: the trie the copy was taken from
		var origC []int
		cur := make([]int, len(pre))
		for step, o := range hist {
			if step == len(hist)-1 {
				switch mode {
				case 1:
					root, nodes := st.Commit(false)
					if nodes != nil {
						if err := db.Update(root, parent, trienode.NewWithNodeSet(nodes)); err != nil {
							fail("db-update", err.Error())
							return
						}
					}
					if st, err = trie.NewStateTrie(trie.TrieID(root), db); err != nil {
						fail("reopen", err.Error())
						return
					}
					parent = root
				case 2:
					orig, origC = st, append([]int{}, cur...)
					st = st.Copy()
				}
			}
			switch {
			case o.kind == "del":
				st.MustDelete(pre[o.k-1])
			case mode == 3 && o.v != 0:
				// UpdateStorage stores rlp(value); GetStorage strips it again
				if err := st.UpdateStorage(common.Address{}, pre[o.k-1], u.val(o.v)); err != nil {
					fail("op-error", err.Error())
					return
				}
			default:
				st.MustUpdate(pre[o.k-1], u.val(o.v))
			}
			cur[o.k-1] = o.v
		}
		res.Count(1)
		if orig != nil { // Copy independence: the original still has the content of the moment of the copy
			for i := range pre {
				if cl := u.classOf(orig.MustGet(pre[i])); cl != origC[i] {
					fail("copy-original-get", fmt.Sprintf("after continuing on the copy, the original returns class %d for %x, it held %d", cl, pre[i], origC[i]))
					return
				}
			}
			if e := tb.get(origC); e != nil && orig.Hash() != e.root {
				fail("copy-original-root", fmt.Sprintf("after continuing on the copy, the original has root %x, specified %x", orig.Hash(), e.root))
			}
		}
		for i := range pre {
			var v []byte
			if mode == 3 {
				if v, err = st.GetStorage(common.Address{}, pre[i]); err != nil {
					fail("get", fmt.Sprintf("GetStorage(%x) returned %v", pre[i], err))
					return
				}
			} else {
				v = st.MustGet(pre[i])
			}
			if cl := u.classOf(v); cl != l.C[i] {
				fail("get", fmt.Sprintf("Get(%x) = %x (value class %d), specified class %d", pre[i], v, cl, l.C[i]))
				return
			}
		}
		root := st.Hash()
		if mode != 3 { // the storage API stores rlp(value): another content, only Get is compared there
			if root != exp.root {
				fail("root", fmt.Sprintf("root %x, independent hash of the specified tree over the hashed keys %x", root, exp.root))
			}
			if msg := bij.note(contentKey(l.C), root); msg != "" {
				fail("root-bijection", msg)
			}
		}
		if len(hist) > 1 {
			res.Distinct(digest(string(raw)))
		}
		if n%9999 == 1 {
			res.Sample(map[string]interface{}{"secure_trie_history": l.H, "content": l.C, "root": root.Hex()})
		}
	})
	if err != nil {
		res.Mismatch("infra:read", err.Error(), nil)
	}
	res.Behaviours = sent
	res.Set(tagged("secure_replayed"), sent)
}
