package mpt

// TestCache: every transition of MC_Cache (histories in which TLC itself places Hash(), Commit()+reopen,
// Copy() and node-loading Gets between the updates) is replayed into the real trie.Trie over a real
// trie.Database.  After a commit the replay really continues on the trie reopened by root hash, whose
// nodes are resolved from the database on demand.

import (
	"encoding/json"
	"fmt"
	"os"
	"sort"
	"sync/atomic"
	"testing"

	"github.com/kardiachain/go-kardia/lib/common"
	"github.com/kardiachain/go-kardia/trie"

	"verifharness/internal/mbt"
)

type cacheLine struct {
	H [][]json.RawMessage `json:"h"`
	C []int               `json:"c"`
}

type cop struct {
	kind  string
	k, v  int
	paths [][]byte // commit: paths of the node set the specification expects
	c     []int    // commit / copy: content at that point
}

func parseCacheHist(h [][]json.RawMessage) ([]cop, error) {
	out := make([]cop, len(h))
	for i, a := range h {
		var o cop
		if err := json.Unmarshal(a[0], &o.kind); err != nil {
			return nil, err
		}
		switch o.kind {
		case "commit":
			var ps [][]int
			if err := json.Unmarshal(a[1], &ps); err != nil {
				return nil, err
			}
			for _, p := range ps {
				b := make([]byte, len(p))
				for j, x := range p {
					b[j] = byte(x)
				}
				o.paths = append(o.paths, b)
			}
			if err := json.Unmarshal(a[2], &o.c); err != nil {
				return nil, err
			}
		case "copy":
			if err := json.Unmarshal(a[2], &o.c); err != nil {
				return nil, err
			}
		default:
			if err := json.Unmarshal(a[1], &o.k); err != nil {
				return nil, err
			}
			if err := json.Unmarshal(a[2], &o.v); err != nil {
				return nil, err
			}
		}
		out[i] = o
	}
	return out, nil
}

func TestCache(t *testing.T) {
	res := mbt.NewResult()
	defer res.Write()
	u, err := loadUniverse()
	if err != nil {
		res.Mismatch("infra:universe", err.Error(), nil)
		return
	}
	tb := loadTable(u, os.Getenv("MPT_TABLE"), res)
	bij := &bijection{byC: map[string]common.Hash{}, byRoot: map[common.Hash]string{}}
	pfx := "mpt:" + os.Getenv("MPT_TAG") + ":cache:"
	seed := mbt.Seed()
	var commitsChecked, copiesChecked, provesChecked int64

	sent, err := mbt.EachLine(os.Getenv("MPT_DUMP"), 0, mbt.EnvInt("MPT_LIMIT", 0), mbt.EnvInt("MPT_STRIDE", 1), seed, func(n int, raw []byte) {
		var l cacheLine
		if err := json.Unmarshal(raw, &l); err != nil {
			res.Mismatch("infra:parse", err.Error(), string(raw))
			return
		}
		hist, err := parseCacheHist(l.H)
		if err != nil {
			res.Mismatch("infra:parse", err.Error(), string(raw))
			return
		}
		exp := tb.get(l.C)
		if exp == nil {
			res.Mismatch("infra:table-miss", "content not in the table", string(raw))
			return
		}
		toDisk := (int64(n)+seed)%3 == 0     // flush the database to disk at every commit and reopen from disk
		keepCopy := (int64(n)+seed)%2 == 0   // after Copy(): continue on the copy (else on the original)
		detail := map[string]interface{}{"hist": json.RawMessage(mustJSON(l.H)), "content": l.C, "to_disk": toDisk, "continue_on_copy": keepCopy,
			"keys": os.Getenv("MPT_KEYS"), "vallen": os.Getenv("MPT_VALLEN"), "valsmall": os.Getenv("MPT_VALSMALL")}
		where := ""
		fail := func(what, text string) {
			res.Mismatch(pfx+what, fmt.Sprintf("history %s%s: %s", mustJSON(l.H), where, text), detail)
		}
		defer func() {
			if r := recover(); r != nil {
				fail("panic", fmt.Sprintf("the real trie panicked: %v", r))
			}
		}()
		checkGets := func(tr *trie.Trie, c []int, what string) bool {
			for i, k := range u.keys {
				v, err := tr.Get(k)
				if err != nil {
					fail(what, fmt.Sprintf("Get(%x) returned error %v", k, err))
					return false
				}
				if cl := u.classOf(v); cl != c[i] {
					fail(what, fmt.Sprintf("Get(%x) = %x (value class %d), specified class %d", k, v, cl, c[i]))
					return false
				}
			}
			return true
		}
		checkShape := func(tr *trie.Trie, c []int, what string) bool {
			e := tb.get(c)
			if e == nil {
				res.Mismatch("infra:table-miss", "content not in the table", fmt.Sprint(c))
				return false
			}
			got, leafErr, err := u.walkReal(tr, c)
			if err != nil {
				fail(what+"-iter", "NodeIterator error: "+err.Error())
				return false
			}
			if leafErr != "" {
				fail(what+"-leaf", leafErr)
				return false
			}
			if !samePaths(got, e.paths) {
				fail(what+"-structure", fmt.Sprintf("NodeIterator saw %s, the canonical tree of the content is %s", fmtPaths(got), fmtPaths(e.paths)))
				return false
			}
			if h := tr.Hash(); h != e.root {
				fail(what+"-root", fmt.Sprintf("root %x, independent hash of the specified tree %x", h, e.root))
				return false
			}
			return true
		}

		rt := newRealTrie()
		type committed struct {
			root common.Hash
			c    []int
		}
		var commits []committed
		var other *trie.Trie // the handle the history does NOT continue on after Copy()
		var otherC []int
		nontrivial := false
		for step, o := range hist {
			where = fmt.Sprintf(" (step %d)", step+1)
			switch o.kind {
			case "put", "del":
				if err := u.applyOp(rt.tr, op{o.kind, o.k, o.v}); err != nil {
					fail("op-error", fmt.Sprintf("returned %v", err))
					return
				}
			case "get":
				v, err := rt.tr.Get(u.keys[o.k-1])
				if err != nil {
					fail("get-error", fmt.Sprintf("Get(%x) returned error %v", u.keys[o.k-1], err))
					return
				}
				if cl := u.classOf(v); cl != o.v {
					fail("get", fmt.Sprintf("Get(%x) = %x (value class %d), specified class %d", u.keys[o.k-1], v, cl, o.v))
					return
				}
			case "hash":
				rt.tr.Hash()
			case "commit":
				nontrivial = true
				nodes, err := rt.commitReopen(toDisk)
				if err != nil {
					fail("reopen", err.Error())
					return
				}
				// lock-step (not a property-level comparison): the node set is exactly the dirty standalone nodes
				var got []string
				if nodes != nil {
					for p, nd := range nodes.Nodes {
						if !nd.IsDeleted() {
							got = append(got, p)
						}
					}
				}
				var want []string
				for _, p := range o.paths {
					want = append(want, string(p))
				}
				sort.Strings(got)
				sort.Strings(want)
				if fmt.Sprintf("%x", got) != fmt.Sprintf("%x", want) {
					res.Add(tagged("lockstep_nodeset_deviations"), 1)
					res.Set(tagged("lockstep_nodeset_example"), fmt.Sprintf("history %s step %d: committed %x, specified %x", mustJSON(l.H), step+1, got, want))
				}
				commits = append(commits, committed{rt.lastRoot, o.c})
				if e := tb.get(o.c); e != nil && e.root != rt.lastRoot {
					fail("commit-root", fmt.Sprintf("Commit returned root %x, independent hash of the specified tree %x", rt.lastRoot, e.root))
					return
				}
			case "copy":
				nontrivial = true
				cp := rt.tr.Copy()
				if keepCopy {
					other, rt.tr = rt.tr, cp
				} else {
					other = cp
				}
				otherC = o.c
			}
		}
		where = ""
		res.Count(1)
		if nontrivial {
			res.Distinct(digest(string(raw)))
		}
		if !checkGets(rt.tr, l.C, "get") || !checkShape(rt.tr, l.C, "trie") {
			return
		}
		if msg := bij.note(contentKey(l.C), rt.tr.Hash()); msg != "" {
			fail("root-bijection", msg)
		}
		// Copy independence: the other handle still has the content of the moment of the copy
		if other != nil {
			if !checkGets(other, otherC, "copy-other-get") || !checkShape(other, otherC, "copy-other") {
				return
			}
			atomic.AddInt64(&copiesChecked, 1)
		}
		// every committed root reopened from the database has the content it had
		for _, cm := range commits {
			tr, err := trie.New(trie.TrieID(cm.root), rt.db)
			if err != nil {
				fail("committed-reopen", fmt.Sprintf("root %x of content %v cannot be opened: %v", cm.root, cm.c, err))
				return
			}
			if !checkGets(tr, cm.c, "committed-get") || !checkShape(tr, cm.c, "committed") {
				return
			}
			atomic.AddInt64(&commitsChecked, 1)
		}
		// a proof produced from the (partially loaded) trie verifies to the stored value / absence
		if exp.tree.kind != 0 && n%3 == 0 {
			root := rt.tr.Hash()
			for k := range u.keys {
				p, err := u.prove(rt.tr, k+1)
				if err != nil {
					fail("prove-error", "Prove returned "+err.Error())
					return
				}
				d := verifierDB{}
				for _, b := range p.blobs {
					d.add(b)
				}
				val, verr := trie.VerifyProof(root, u.keys[k], d)
				if verr != nil || u.classOf(val) != l.C[k] {
					fail("proof", fmt.Sprintf("proof of %x verifies to %x / %v, stored class %d", u.keys[k], val, verr, l.C[k]))
					return
				}
			}
			atomic.AddInt64(&provesChecked, 1)
		}
		if n%29999 == 1 {
			res.Sample(map[string]interface{}{"history": json.RawMessage(mustJSON(l.H)), "content": l.C, "root": rt.tr.Hash().Hex()})
		}
	})
	if err != nil {
		res.Mismatch("infra:read", err.Error(), nil)
	}
	res.Behaviours = sent
	res.Set(tagged("cache_replayed"), sent)
	res.Set(tagged("cache_committed_roots_reopened"), commitsChecked)
	res.Set(tagged("cache_copy_handles_checked"), copiesChecked)
	res.Set(tagged("cache_proofs_from_partial_trie"), provesChecked)
}

func mustJSON(x interface{}) string {
	b, _ := json.Marshal(x)
	return string(b)
}
