package mpt

// TestProof: every (content, key, mutation) case of MC_Proof is executed on the real trie.Prove /
// trie.VerifyProof.  The verifier's database is built the way a verifier must build it: every received
// blob is stored under ITS OWN keccak hash (never under a key supplied by the prover).

import (
	"encoding/json"
	"errors"
	"fmt"
	"math/rand"
	"os"
	"testing"

	"github.com/kardiachain/go-kardia/lib/common"
	"github.com/kardiachain/go-kardia/lib/crypto"
	"github.com/kardiachain/go-kardia/trie"

	"verifharness/internal/mbt"
)

// proofList records what Prove writes, in order (kaidb.KeyValueWriter).
type proofList struct {
	keys  [][]byte
	blobs [][]byte
}

func (p *proofList) Put(k, v []byte) error {
	p.keys = append(p.keys, common.CopyBytes(k))
	p.blobs = append(p.blobs, common.CopyBytes(v))
	return nil
}
func (p *proofList) Delete([]byte) error { return errors.New("not supported") }

// verifierDB: kaidb.KeyValueReader over blobs keyed by their own hash.
type verifierDB map[string][]byte

func (d verifierDB) add(blob []byte) { d[string(crypto.Keccak256(blob))] = blob }
func (d verifierDB) Has(k []byte) (bool, error) {
	_, ok := d[string(k)]
	return ok, nil
}
func (d verifierDB) Get(k []byte) ([]byte, error) {
	if b, ok := d[string(k)]; ok {
		return b, nil
	}
	return nil, errors.New("not found")
}

// buildTrie inserts content c in the order perm; reopened: commit and reopen it, so that Prove has to
// resolve the nodes from the database.
func (u *universe) buildTrie(c []int, perm []int, reopened bool) (*realTrie, error) {
	rt := newRealTrie()
	for _, i := range perm {
		if c[i] != 0 {
			if err := rt.tr.Update(u.keys[i], u.val(c[i])); err != nil {
				return nil, err
			}
		}
	}
	if reopened {
		if _, err := rt.commitReopen(false); err != nil {
			return nil, err
		}
	}
	return rt, nil
}

func (u *universe) prove(tr *trie.Trie, k int) (*proofList, error) {
	pl := &proofList{}
	err := tr.Prove(u.keys[k-1], 0, pl)
	return pl, err
}

type proofLine struct {
	C []int         `json:"c"`
	K int           `json:"k"`
	M []interface{} `json:"m"`
	O int           `json:"o"`
	N int           `json:"n"`
}

func TestProof(t *testing.T) {
	res := mbt.NewResult()
	defer res.Write()
	u, err := loadUniverse()
	if err != nil {
		res.Mismatch("infra:universe", err.Error(), nil)
		return
	}
	pfx := "mpt:" + os.Getenv("MPT_TAG") + ":proof:"
	seed := mbt.Seed()
	sent, err := mbt.EachLine(os.Getenv("MPT_DUMP"), 0, mbt.EnvInt("MPT_LIMIT", 0), mbt.EnvInt("MPT_STRIDE", 1), seed, func(n int, raw []byte) {
		var l proofLine
		if err := json.Unmarshal(raw, &l); err != nil {
			res.Mismatch("infra:parse", err.Error(), string(raw))
			return
		}
		kind := l.M[0].(string)
		mi, mk2, mj, mv2 := int(l.M[1].(float64)), int(l.M[2].(float64)), int(l.M[3].(float64)), int(l.M[4].(float64))
		rng := rand.New(rand.NewSource(seed*1000003 + int64(n)))
		reopened := rng.Intn(2) == 1
		detail := map[string]interface{}{"content": l.C, "key": l.K, "mutation": l.M, "specified": l.O, "reopened": reopened,
			"keys": os.Getenv("MPT_KEYS"), "vallen": os.Getenv("MPT_VALLEN"), "valsmall": os.Getenv("MPT_VALSMALL"), "seed": seed, "line": n}
		fail := func(what, text string) {
			res.Mismatch(pfx+what, fmt.Sprintf("content %v key %x mutation %v: %s", l.C, u.keys[l.K-1], l.M, text), detail)
		}
		defer func() {
			if r := recover(); r != nil {
				fail("panic:"+kind, fmt.Sprintf("panic: %v", r))
			}
		}()
		rt, err := u.buildTrie(l.C, rng.Perm(len(u.keys)), reopened)
		if err != nil {
			fail("build", err.Error())
			return
		}
		root := rt.tr.Hash()
		p, err := u.prove(rt.tr, l.K)
		if err != nil {
			fail("prove-error", "Prove returned "+err.Error())
			return
		}
		for i := range p.blobs {
			if string(crypto.Keccak256(p.blobs[i])) != string(p.keys[i]) {
				fail("element-key", fmt.Sprintf("Prove stored element %d under a key that is not its hash", i+1))
				return
			}
		}
		if len(p.blobs) != l.N {
			// lock-step only: the index-based mutations below cannot be mapped
			res.Add(tagged("lockstep_proof_length_deviations"), 1)
			if kind != "none" && kind != "other" && kind != "stale" && kind != "bloat" {
				return
			}
		}
		// second proof, where the mutation needs one
		var q *proofList
		switch kind {
		case "other", "bloat", "swap":
			if q, err = u.prove(rt.tr, mk2); err != nil {
				fail("prove-error", "Prove returned "+err.Error())
				return
			}
		case "stale", "xtrie":
			c2 := append([]int{}, l.C...)
			c2[mk2-1] = mv2
			rt2, err := u.buildTrie(c2, rng.Perm(len(u.keys)), !reopened)
			if err != nil {
				fail("build", err.Error())
				return
			}
			if q, err = u.prove(rt2.tr, l.K); err != nil {
				fail("prove-error", "Prove returned "+err.Error())
				return
			}
		}
		// the concrete databases for this abstract mutation (several for "flip": different bytes)
		var dbs []verifierDB
		base := func(skip int) verifierDB {
			d := verifierDB{}
			for i, b := range p.blobs {
				if i+1 != skip {
					d.add(b)
				}
			}
			return d
		}
		switch kind {
		case "none":
			dbs = append(dbs, base(0))
		case "drop":
			dbs = append(dbs, base(mi))
		case "dup":
			d := base(0)
			d.add(common.CopyBytes(p.blobs[mi-1]))
			dbs = append(dbs, d)
		case "flip":
			blob := p.blobs[mi-1]
			pos := map[int]bool{0: true, len(blob) - 1: true, len(blob) / 2: true}
			for len(pos) < 6 && len(pos) < len(blob) {
				pos[rng.Intn(len(blob))] = true
			}
			for at := range pos {
				d := base(mi)
				b := common.CopyBytes(blob)
				b[at] ^= byte(1 << uint(rng.Intn(8)))
				d.add(b)
				dbs = append(dbs, d)
			}
			// and a truncated / extended element
			d := base(mi)
			d.add(common.CopyBytes(blob[:len(blob)-1]))
			dbs = append(dbs, d)
			d = base(mi)
			d.add(append(common.CopyBytes(blob), 0x80))
			dbs = append(dbs, d)
		case "trunc":
			d := verifierDB{}
			for i := 0; i < mi-1; i++ {
				d.add(p.blobs[i])
			}
			dbs = append(dbs, d)
		case "other", "stale":
			d := verifierDB{}
			for _, b := range q.blobs {
				d.add(b)
			}
			dbs = append(dbs, d)
		case "bloat":
			d := base(0)
			for _, b := range q.blobs {
				d.add(b)
			}
			dbs = append(dbs, d)
		case "swap":
			d := base(mi)
			if mj <= len(q.blobs) {
				d.add(q.blobs[mj-1])
			}
			dbs = append(dbs, d)
		case "xtrie":
			d := base(mi)
			if mi <= len(q.blobs) {
				d.add(q.blobs[mi-1])
			}
			dbs = append(dbs, d)
		default:
			res.Mismatch("infra:mutation", "unknown mutation kind "+kind, string(raw))
			return
		}
		truth := l.C[l.K-1]
		for _, d := range dbs {
			val, verr := trie.VerifyProof(root, u.keys[l.K-1], d)
			got := u.classOf(val)
			if verr != nil {
				got = -1
				if val != nil {
					fail("value-with-error:"+kind, fmt.Sprintf("VerifyProof returned both a value %x and an error %v", val, verr))
				}
			}
			res.Count(1)
			if kind == "none" {
				// a proof produced for a key verifies and yields exactly the stored value / absence
				if got != l.O {
					fail("genuine", fmt.Sprintf("VerifyProof of the genuine proof returned class %d (err %v), specified %d (stored %d)", got, verr, l.O, truth))
				}
				continue
			}
			// no tampered proof verifies to a different value
			if got != -1 && got != truth {
				fail("tampered-accepted:"+kind, fmt.Sprintf("VerifyProof accepted a tampered proof with value %x (class %d), stored class %d", val, got, truth))
			} else if got != l.O {
				res.Add(tagged("lockstep_outcome_deviations_"+kind), 1)
			}
		}
		if kind != "none" && kind != "dup" && kind != "bloat" {
			res.Distinct(digest(string(raw)))
		}
		if n%49999 == 1 {
			res.Sample(map[string]interface{}{"content": l.C, "key": fmt.Sprintf("%x", u.keys[l.K-1]), "mutation": l.M, "proof_elements": len(p.blobs), "specified_outcome": l.O})
		}
	})
	if err != nil {
		res.Mismatch("infra:read", err.Error(), nil)
	}
	res.Behaviours = sent
	res.Set(tagged("proof_cases"), sent)
}
