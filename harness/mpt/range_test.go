package mpt

// TestRange: every (content, first, last, claim) of MC_Range on the real trie.VerifyRangeProof, with the
// honest edge proofs Prove(first) + Prove(last) of the real trie (f = 0: no proof, whole-trie claim).

import (
	"encoding/json"
	"fmt"
	"math/rand"
	"os"
	"testing"

	"github.com/kardiachain/go-kardia/kai/kaidb"
	"github.com/kardiachain/go-kardia/trie"

	"verifharness/internal/mbt"
)

type rangeLine struct {
	C  []int  `json:"c"`
	F  int    `json:"f"`
	L  int    `json:"l"`
	Cl []int  `json:"cl"`
	O  string `json:"o"`
}

func TestRange(t *testing.T) {
	res := mbt.NewResult()
	defer res.Write()
	u, err := loadUniverse()
	if err != nil {
		res.Mismatch("infra:universe", err.Error(), nil)
		return
	}
	pfx := "mpt:rangeproof:" // no universe tag: the signatures are matched by known_findings.json
	seed := mbt.Seed()
	sent, err := mbt.EachLine(os.Getenv("MPT_DUMP"), 0, mbt.EnvInt("MPT_LIMIT", 0), mbt.EnvInt("MPT_STRIDE", 1), seed, func(n int, raw []byte) {
		var l rangeLine
		if err := json.Unmarshal(raw, &l); err != nil {
			res.Mismatch("infra:parse", err.Error(), string(raw))
			return
		}
		rng := rand.New(rand.NewSource(seed*7919 + int64(n)))
		reopened := rng.Intn(2) == 1
		// classify the claim relative to the truth, for the signature
		kind := "truth"
		for i := range l.Cl {
			inRange := l.F == 0 || (i+1 >= l.F && i+1 <= l.L)
			truth := 0
			if inRange {
				truth = l.C[i]
			}
			if l.Cl[i] != truth {
				switch {
				case l.Cl[i] == 0:
					kind = "dropped"
				case truth == 0 && inRange:
					kind = "added-inside"
				case truth == 0 && i+1 < l.F:
					kind = "added-left-of-range"
					if l.C[i] == l.Cl[i] {
						kind = "added-left-of-range-true-pair"
					}
				case truth == 0:
					kind = "added-right-of-range"
					if l.C[i] == l.Cl[i] {
						kind = "added-right-of-range-true-pair"
					}
				default:
					kind = "altered"
				}
			}
		}
		detail := map[string]interface{}{"content": l.C, "first": l.F, "last": l.L, "claim": l.Cl, "specified": l.O, "reopened": reopened,
			"keys": os.Getenv("MPT_KEYS"), "vallen": os.Getenv("MPT_VALLEN"), "valsmall": os.Getenv("MPT_VALSMALL")}
		fail := func(what, text string) {
			res.Mismatch(pfx+what, fmt.Sprintf("content %v, range [%d,%d], claim %v: %s", l.C, l.F, l.L, l.Cl, text), detail)
		}
		rt, err := u.buildTrie(l.C, rng.Perm(len(u.keys)), reopened)
		if err != nil {
			fail("build", err.Error())
			return
		}
		root := rt.tr.Hash()
		var keys, vals [][]byte
		for i, v := range l.Cl {
			if v != 0 {
				keys = append(keys, u.keys[i])
				vals = append(vals, u.val(v))
			}
		}
		var proof kaidb.KeyValueReader
		var first, last []byte
		if l.F > 0 {
			first, last = u.keys[l.F-1], u.keys[l.L-1]
			d := verifierDB{}
			for _, k := range []int{l.F, l.L} {
				p, err := u.prove(rt.tr, k)
				if err != nil {
					fail("prove-error", err.Error())
					return
				}
				for _, b := range p.blobs {
					d.add(b)
				}
			}
			proof = d
		}
		got, more, verr := "", false, error(nil)
		func() {
			defer func() {
				if r := recover(); r != nil {
					got = fmt.Sprintf("PANIC: %v", r)
				}
			}()
			more, verr = trie.VerifyRangeProof(root, first, last, keys, vals, proof)
			switch {
			case verr != nil:
				got = "err"
			case more:
				got = "more"
			default:
				got = "ok"
			}
		}()
		res.Count(1)
		if kind != "truth" {
			res.Distinct(digest(string(raw)))
		}
		switch {
		case len(got) > 5: // panic
			fail("panic:"+kind, got)
		case got != "err" && l.O == "err":
			// a claim that is not the content of the range was accepted
			fail("false-claim-accepted:"+kind, fmt.Sprintf("VerifyRangeProof accepted (more=%v); the claim is not the content of the range", more))
		case got == "err" && l.O != "err":
			fail("true-claim-rejected:"+kind, fmt.Sprintf("VerifyRangeProof rejected the true content of the range: %v", verr))
		case got != l.O:
			fail("more-flag:"+kind, fmt.Sprintf("VerifyRangeProof reported more=%v, specified %q", more, l.O))
		}
		if n%19999 == 1 {
			res.Sample(map[string]interface{}{"content": l.C, "first_key": l.F, "last_key": l.L, "claim": l.Cl, "specified": l.O, "real": got})
		}
	})
	if err != nil {
		res.Mismatch("infra:read", err.Error(), nil)
	}
	res.Behaviours = sent
	res.Set(tagged("range_cases"), sent)
}
