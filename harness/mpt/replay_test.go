package mpt

// TestReplay: every transition TLC generated for MC_MPT (history h, resulting content c) is replayed
// from a fresh real trie.Trie.  The specification is the oracle: the expected tree of c comes from the
// MC_Table dump (or from the line itself when the model ran with Inline = TRUE).

import (
	"bytes"
	"encoding/json"
	"fmt"
	"os"
	"sort"
	"sync"
	"testing"

	"github.com/kardiachain/go-kardia/kai/kaidb/memorydb"
	"github.com/kardiachain/go-kardia/lib/common"
	"github.com/kardiachain/go-kardia/lib/crypto"
	"github.com/kardiachain/go-kardia/trie"
	"github.com/kardiachain/go-kardia/trie/trienode"
	"github.com/kardiachain/go-kardia/types"

	"verifharness/internal/mbt"
)

// realTrie: a real trie together with the database it commits to.
type realTrie struct {
	disk     *memorydb.Database
	db       *trie.Database
	tr       *trie.Trie
	lastRoot common.Hash
	commits  int
}

func newRealTrie() *realTrie {
	disk := memorydb.New()
	db := trie.NewDatabase(disk)
	return &realTrie{disk: disk, db: db, tr: trie.NewEmpty(db), lastRoot: types.EmptyRootHash}
}

// commitReopen: Commit, hand the node set to the database, and continue on a NEW trie opened by root
// hash (a committed Trie must not be used again).  toDisk additionally flushes the database to its
// disk store and reopens through a fresh trie.Database, so that every node is decoded from disk.
// Returns the node set of the commit (nil if the trie was clean).
func (r *realTrie) commitReopen(toDisk bool) (*trienode.NodeSet, error) {
	root, nodes := r.tr.Commit(false)
	if nodes != nil {
		if err := r.db.Update(root, r.lastRoot, trienode.NewWithNodeSet(nodes)); err != nil {
			return nodes, fmt.Errorf("db.Update: %v", err)
		}
	}
	if toDisk {
		if err := r.db.Commit(root, false); err != nil {
			return nodes, fmt.Errorf("db.Commit: %v", err)
		}
		r.db = trie.NewDatabase(r.disk)
	}
	tr, err := trie.New(trie.TrieID(root), r.db)
	if err != nil {
		return nodes, fmt.Errorf("reopen %x: %v", root, err)
	}
	r.tr, r.lastRoot = tr, root
	r.commits++
	return nodes, nil
}

type op struct {
	kind string
	k, v int
}

func parseHist(h [][]interface{}) []op {
	out := make([]op, len(h))
	for i, a := range h {
		out[i] = op{a[0].(string), int(a[1].(float64)), int(a[2].(float64))}
	}
	return out
}

// applyOp performs one Update/Delete of the specification on the real trie.
func (u *universe) applyOp(tr *trie.Trie, o op) error {
	switch o.kind {
	case "put": // v = 0: Update with the empty value (D1), passed as an empty non-nil slice
		if o.v == 0 {
			return tr.Update(u.keys[o.k-1], []byte{})
		}
		return tr.Update(u.keys[o.k-1], u.val(o.v))
	case "del":
		return tr.Delete(u.keys[o.k-1])
	}
	return fmt.Errorf("unknown op %q", o.kind)
}

// variants: which structural no-ops (Hash / Commit+reopen / Copy / Get / iteration) the driver interleaves
// with the history.  The specification says they change nothing; MC_Cache lets TLC place them, here every
// transition gets one of them by line number and seed.
var variants = []string{"plain", "hash-each", "reopen-each", "reopen-last", "copy-last", "hash-last", "read-each", "disk-last"}

// walkReal returns what the NodeIterator yields, in order, and checks every leaf against the content.
func (u *universe) walkReal(tr *trie.Trie, c []int) (got []pathEnt, leafErr string, err error) {
	it := tr.NodeIterator(nil)
	for it.Next(true) {
		p := append([]byte{}, it.Path()...)
		kind := "E"
		switch {
		case it.Leaf():
			kind = "L"
			key := it.LeafKey()
			idx := -1
			for i, k := range u.keys {
				if bytes.Equal(k, key) {
					idx = i
				}
			}
			if idx < 0 {
				leafErr = fmt.Sprintf("leaf with key %x outside the universe", key)
			} else if cl := u.classOf(it.LeafBlob()); cl != c[idx] {
				leafErr = fmt.Sprintf("leaf %x holds value class %d, content says %d", key, cl, c[idx])
			} else {
				// the proof the iterator produces for the leaf it stands on verifies to that value
				d := verifierDB{}
				for _, b := range it.LeafProof() {
					d.add(b)
				}
				if v, err := trie.VerifyProof(tr.Hash(), key, d); err != nil || u.classOf(v) != cl {
					leafErr = fmt.Sprintf("LeafProof of %x verifies to %x / %v, the leaf holds class %d", key, v, err, cl)
				}
			}
		case it.Hash() != (common.Hash{}):
			kind = "H"
		}
		got = append(got, pathEnt{p, kind})
	}
	return got, leafErr, it.Error()
}

// seekReal: what NodeIterator(start) yields (paths and kinds), and the keys trie.NewIterator yields from there.
func (u *universe) seekReal(tr *trie.Trie, start []byte) (got []pathEnt, leafKeys [][]byte, err error) {
	it := tr.NodeIterator(start)
	for it.Next(true) {
		kind := "E"
		if it.Leaf() {
			kind = "L"
		} else if it.Hash() != (common.Hash{}) {
			kind = "H"
		}
		got = append(got, pathEnt{append([]byte{}, it.Path()...), kind})
	}
	if it.Error() != nil {
		return got, nil, it.Error()
	}
	kv := trie.NewIterator(tr.NodeIterator(start))
	for kv.Next() {
		leafKeys = append(leafKeys, append([]byte{}, kv.Key...))
	}
	return got, leafKeys, kv.Err
}

func samePaths(a, b []pathEnt) bool {
	if len(a) != len(b) {
		return false
	}
	for i := range a {
		if a[i].kind != b[i].kind || !bytes.Equal(a[i].path, b[i].path) {
			return false
		}
	}
	return true
}

// stackRoot feeds the sorted content to the real StackTrie; returns root, the paths it wrote, or a panic text.
func (u *universe) stackRoot(c []int, withWriter, marshal bool) (root common.Hash, written map[string]common.Hash, panicked string) {
	defer func() {
		if r := recover(); r != nil {
			panicked = fmt.Sprint(r)
		}
	}()
	written = map[string]common.Hash{}
	var st *trie.StackTrie
	if withWriter {
		st = trie.NewStackTrie(func(owner common.Hash, path []byte, hash common.Hash, blob []byte) {
			written[string(path)] = hash
			if common.BytesToHash(crypto.Keccak256(blob)) != hash {
				written[string(path)] = common.Hash{}
			}
		})
	} else {
		st = trie.NewStackTrie(nil)
	}
	for _, i := range sortedKeyIdx(u) {
		if c[i] != 0 {
			st.Update(u.keys[i], u.val(c[i]))
			if marshal {
				// serialise the half-built stack trie and continue on the copy read back (specified: no effect)
				blob, err := st.MarshalBinary()
				if err != nil {
					return root, written, "MarshalBinary: " + err.Error()
				}
				st2, err := trie.NewFromBinary(blob, nil)
				if err != nil {
					return root, written, "NewFromBinary: " + err.Error()
				}
				st = st2
			}
		}
	}
	if withWriter {
		var err error
		root, err = st.Commit()
		if err != nil {
			panicked = "Commit: " + err.Error()
		}
		return
	}
	return st.Hash(), written, ""
}

func hPaths(ps []pathEnt) map[string]bool {
	m := map[string]bool{}
	for _, p := range ps {
		if p.kind == "H" {
			m[string(p.path)] = true
		}
	}
	return m
}

type bijection struct {
	mu     sync.Mutex
	byC    map[string]common.Hash
	byRoot map[common.Hash]string
}

// note records (content, root) and returns a description of a violated bijection, if any.
func (b *bijection) note(ck string, root common.Hash) string {
	b.mu.Lock()
	defer b.mu.Unlock()
	if old, ok := b.byC[ck]; ok && old != root {
		return fmt.Sprintf("content %s had root %x in another behaviour and has %x here", ck, old, root)
	}
	if oc, ok := b.byRoot[root]; ok && oc != ck {
		return fmt.Sprintf("contents %s and %s share the root %x", oc, ck, root)
	}
	b.byC[ck], b.byRoot[root] = root, ck
	return ""
}

type replayLine struct {
	H  [][]interface{} `json:"h"`
	C  []int           `json:"c"`
	T  json.RawMessage `json:"t"`
	P  json.RawMessage `json:"p"`
	Sd *bool           `json:"sd"`
	Sf []int           `json:"sf"`
}

func loadTable(u *universe, path string, res *mbt.Result) *table {
	tb := &table{m: map[string]*expect{}}
	if path == "" {
		return tb
	}
	_, err := mbt.EachLine(path, 0, 0, 1, 0, func(n int, raw []byte) {
		var l tableLine
		if err := json.Unmarshal(raw, &l); err != nil {
			res.Mismatch("infra:table-parse", err.Error(), string(raw))
			return
		}
		e, err := u.mkExpect(l.T, l.P, l.Sd, l.Sf)
		if err != nil {
			res.Mismatch("infra:table-parse", err.Error(), string(raw))
			return
		}
		if e.sizeW != "" {
			res.Mismatch("infra:spec-sizes", "EncLen of the specification disagrees with the real RLP length: "+e.sizeW, string(raw))
		}
		tb.mu.Lock()
		tb.m[contentKey(l.C)] = e
		tb.mu.Unlock()
	})
	if err != nil {
		res.Mismatch("infra:table-read", err.Error(), path)
	}
	return tb
}

func TestReplay(t *testing.T) {
	res := mbt.NewResult()
	defer res.Write()
	u, err := loadUniverse()
	if err != nil {
		res.Mismatch("infra:universe", err.Error(), nil)
		return
	}
	tb := loadTable(u, os.Getenv("MPT_TABLE"), res)
	res.Set(tagged("table_contents"), len(tb.m))
	bij := &bijection{byC: map[string]common.Hash{}, byRoot: map[common.Hash]string{}}
	pfx := "mpt:" + os.Getenv("MPT_TAG") + ":"
	seed := mbt.Seed()
	var stackChecked, stackPanics, reopened, nodesetChecked, seeks int64
	var cmu sync.Mutex

	sent, err := mbt.EachLine(os.Getenv("MPT_DUMP"), 0, mbt.EnvInt("MPT_LIMIT", 0), mbt.EnvInt("MPT_STRIDE", 1), seed, func(n int, raw []byte) {
		var l replayLine
		if err := json.Unmarshal(raw, &l); err != nil {
			res.Mismatch("infra:parse", err.Error(), string(raw))
			return
		}
		var exp *expect
		if len(l.T) > 0 {
			e, err := u.mkExpect(l.T, l.P, l.Sd != nil && *l.Sd, l.Sf)
			if err != nil {
				res.Mismatch("infra:parse", err.Error(), string(raw))
				return
			}
			if e.sizeW != "" {
				res.Mismatch("infra:spec-sizes", "EncLen of the specification disagrees with the real RLP length: "+e.sizeW, string(raw))
			}
			exp = e
		} else if exp = tb.get(l.C); exp == nil {
			res.Mismatch("infra:table-miss", "content not in the table", string(raw))
			return
		}
		hist := parseHist(l.H)
		variant := variants[int((int64(n)+seed)%int64(len(variants)))]
		detail := map[string]interface{}{"hist": l.H, "content": l.C, "variant": variant, "keys": os.Getenv("MPT_KEYS"),
			"vallen": os.Getenv("MPT_VALLEN"), "valsmall": os.Getenv("MPT_VALSMALL")}
		fail := func(what, text string) {
			res.Mismatch(pfx+what+":"+variant, fmt.Sprintf("after %v (%s): %s", l.H, variant, text), detail)
		}
		defer func() {
			if r := recover(); r != nil {
				fail("panic", fmt.Sprintf("the real trie panicked: %v", r))
			}
		}()

		rt := newRealTrie()
		var orig *trie.Trie // copy-last: the trie the copy was taken from
		var origC []int
		cur := make([]int, len(u.keys)) // content so far (derived from the history only to name the pre-state of the last step)
		var pre []int
		for step, o := range hist {
			last := step == len(hist)-1
			if last {
				pre = append([]int{}, cur...)
				switch variant {
				case "reopen-last", "disk-last":
					if _, err := rt.commitReopen(variant == "disk-last"); err != nil {
						fail("reopen", err.Error())
						return
					}
				case "copy-last":
					orig, origC = rt.tr, append([]int{}, cur...)
					rt.tr = rt.tr.Copy()
				case "hash-last":
					rt.tr.Hash()
				}
			}
			if err := u.applyOp(rt.tr, o); err != nil {
				fail("op-error", fmt.Sprintf("step %d returned %v", step+1, err))
				return
			}
			cur[o.k-1] = o.v
			switch variant {
			case "hash-each":
				rt.tr.Hash()
			case "reopen-each":
				if _, err := rt.commitReopen(step%2 == 1); err != nil {
					fail("reopen", err.Error())
					return
				}
			case "read-each":
				if !last {
					for i := range u.keys {
						rt.tr.Get(u.keys[i])
					}
					it := rt.tr.NodeIterator(nil)
					for it.Next(true) {
					}
				}
			}
		}
		res.Count(1)
		// non-trivial: the transition is not a plain insertion of a new key (it deletes, overwrites, or is a no-op on an absent key)
		lastOp := hist[len(hist)-1]
		if lastOp.kind == "del" || lastOp.v == 0 || pre[lastOp.k-1] != 0 {
			res.Distinct(digest(contentKey(pre) + "|" + fmt.Sprint(lastOp)))
		}

		// (a) every key returns exactly the last value written
		checkGets := func(tr *trie.Trie, c []int, what string) bool {
			for i, k := range u.keys {
				v, err := tr.Get(k)
				if err != nil {
					fail(what, fmt.Sprintf("Get(%x) returned error %v", k, err))
					return false
				}
				if cl := u.classOf(v); cl != c[i] {
					fail(what, fmt.Sprintf("Get(%x) = %x (value class %d), specified class %d", k, v, cl, c[i]))
					return false
				}
			}
			return true
		}
		// (b) structure seen by NodeIterator = Walk(Canon(content)); (c) root = independent hash
		checkShape := func(tr *trie.Trie, c []int, e *expect, what string) bool {
			got, leafErr, err := u.walkReal(tr, c)
			if err != nil {
				fail(what+"-iter", "NodeIterator error: "+err.Error())
				return false
			}
			if leafErr != "" {
				fail(what+"-leaf", leafErr)
				return false
			}
			if !samePaths(got, e.paths) {
				fail(what+"-structure", fmt.Sprintf("NodeIterator saw %s, the canonical tree of the content is %s", fmtPaths(got), fmtPaths(e.paths)))
				return false
			}
			if h := tr.Hash(); h != e.root {
				fail(what+"-root", fmt.Sprintf("root %x, independent hash of the specified tree %x", h, e.root))
				return false
			}
			return true
		}
		if !checkGets(rt.tr, l.C, "get") || !checkShape(rt.tr, l.C, exp, "trie") {
			return
		}
		if orig != nil { // Copy independence: the original still has the old content
			oe := tb.get(origC)
			if !checkGets(orig, origC, "copy-original-get") {
				return
			}
			if oe != nil && !checkShape(orig, origC, oe, "copy-original") {
				return
			}
		}
		// (b') NodeIterator(start) for every key of the universe as start: the specified suffix of the iteration
		if len(exp.seek) == len(u.keys) && n%3 == 0 {
			for i, k := range u.keys {
				got, leafKeys, err := u.seekReal(rt.tr, k)
				want := exp.paths[exp.seek[i]-1:]
				if err != nil {
					fail("seek-iter", fmt.Sprintf("NodeIterator(%x) error: %v", k, err))
					return
				}
				if !samePaths(got, want) {
					fail("seek", fmt.Sprintf("NodeIterator(%x) saw %s, specified (nodes with path >= the start key) %s", k, fmtPaths(got), fmtPaths(want)))
					return
				}
				// trie.Iterator yields the keys of the leaves of that suffix, in its order (a key that is a prefix of
				// other keys sits in the value slot of a branch and comes AFTER them: the terminator is the largest nibble)
				var wantKeys [][]byte
				for _, e := range want {
					if e.kind == "L" {
						kb := make([]byte, (len(e.path)-1)/2)
						for j := range kb {
							kb[j] = e.path[2*j]<<4 | e.path[2*j+1]
						}
						wantKeys = append(wantKeys, kb)
					}
				}
				if fmt.Sprintf("%x", leafKeys) != fmt.Sprintf("%x", wantKeys) {
					fail("seek-keys", fmt.Sprintf("Iterator from %x yields keys %x, specified %x", k, leafKeys, wantKeys))
					return
				}
			}
			cmu.Lock()
			seeks++
			cmu.Unlock()
		}
		root := rt.tr.Hash()
		// (e) content <-> root is a bijection over everything this run sees
		if msg := bij.note(contentKey(l.C), root); msg != "" {
			fail("root-bijection", msg)
		}
		// (d) streaming trie over the sorted content
		if exp.sd {
			withWriter := n%2 == 0
			sr, written, p := u.stackRoot(l.C, withWriter, !withWriter && n%4 == 1)
			if p != "" {
				fail("stacktrie-panic", "StackTrie panicked on prefix-free sorted data: "+p)
			} else if sr != root {
				fail("stacktrie-root", fmt.Sprintf("StackTrie root %x, trie root %x", sr, root))
			} else if withWriter {
				want := hPaths(exp.paths)
				ok := len(written) == len(want)
				for p, h := range written {
					ok = ok && want[p] && h != (common.Hash{})
				}
				if !ok && exp.tree.kind != 0 {
					fail("stacktrie-nodes", fmt.Sprintf("StackTrie wrote nodes at %x, the standalone nodes of the tree are %s", keysOf(written), fmtPaths(exp.paths)))
				}
			}
			cmu.Lock()
			stackChecked++
			cmu.Unlock()
		} else if n%16 == 0 {
			// D3 (lock-step only, not a property-level comparison): outside its domain the stack trie panics
			if _, _, p := u.stackRoot(l.C, false, false); p != "" {
				cmu.Lock()
				stackPanics++
				cmu.Unlock()
			} else {
				res.Add(tagged("lockstep_stack_no_panic"), 1)
			}
		}
		// (f) commit, reopen by root hash, same content and structure; a first commit stores exactly the standalone nodes
		if n%4 == 0 || variant == "plain" {
			first := rt.commits == 0
			nodes, err := rt.commitReopen(n%8 == 0)
			if err != nil {
				fail("reopen", err.Error())
				return
			}
			if rt.lastRoot != root {
				fail("commit-root", fmt.Sprintf("Commit returned %x, Hash %x", rt.lastRoot, root))
			}
			if first && orig == nil {
				want := hPaths(exp.paths)
				gotN := map[string]bool{}
				bad := ""
				if nodes != nil {
					for p, nd := range nodes.Nodes {
						if nd.IsDeleted() {
							continue
						}
						gotN[p] = true
						if common.BytesToHash(crypto.Keccak256(nd.Blob)) != nd.Hash {
							bad = fmt.Sprintf("node at %x: blob does not hash to its key", p)
						}
					}
				}
				if len(gotN) != len(want) {
					bad = "different node set"
				}
				for p := range gotN {
					if !want[p] {
						bad = "different node set"
					}
				}
				if bad != "" {
					fail("commit-nodeset", fmt.Sprintf("%s: committed paths %x, standalone nodes of the tree %s", bad, boolKeys(gotN), fmtPaths(exp.paths)))
				}
				cmu.Lock()
				nodesetChecked++
				cmu.Unlock()
			}
			if !checkGets(rt.tr, l.C, "reopened-get") || !checkShape(rt.tr, l.C, exp, "reopened") {
				return
			}
			cmu.Lock()
			reopened++
			cmu.Unlock()
		}
		if n%4999 == 1 {
			res.Sample(map[string]interface{}{"history": l.H, "content": l.C, "variant": variant, "root": root.Hex(), "iterator": fmtPaths(exp.paths)})
		}
	})
	if err != nil {
		res.Mismatch("infra:read", err.Error(), nil)
	}
	res.Behaviours = sent
	res.Set(tagged("replayed"), sent)
	res.Set(tagged("distinct_contents_rooted"), len(bij.byC))
	res.Set(tagged("stacktrie_compared"), stackChecked)
	res.Set(tagged("lockstep_stack_panics_outside_domain"), stackPanics)
	res.Set(tagged("reopened_compared"), reopened)
	res.Set(tagged("first_commit_nodesets_compared"), nodesetChecked)
	res.Set(tagged("seek_iterations_compared"), seeks)
}

func keysOf(m map[string]common.Hash) []string {
	var out []string
	for k := range m {
		out = append(out, k)
	}
	sort.Strings(out)
	return out
}

func boolKeys(m map[string]bool) []string {
	var out []string
	for k := range m {
		out = append(out, k)
	}
	sort.Strings(out)
	return out
}
