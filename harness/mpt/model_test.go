// Package mpt binds specs/mpt (MPT.tla, MPTCache.tla and their MC modules) to the real trie
// package of go-kardia (property C07).  This file holds what the drivers share: the universe
// (keys and value classes, handed over by checks/C07.py exactly as they were handed to TLC), the
// specification's trees as the drivers read them from the TLC dump, and the driver's OWN
// hasher of such a tree (RLP + keccak, written here from the Yellow-Paper definition, not taken
// from the trie package): that is the "independently implemented trie" of the statement.
package mpt

import (
	"bytes"
	"encoding/json"
	"fmt"
	"hash/fnv"
	"os"
	"sort"
	"strconv"
	"strings"
	"sync"

	"github.com/kardiachain/go-kardia/lib/common"
	"github.com/kardiachain/go-kardia/lib/crypto"
)

// ---------------------------------------------------------------------------------------------
// universe

type universe struct {
	keys   [][]byte // key bytes, index = specification index - 1
	vlen   []int    // byte length per value class
	vsmall []bool   // one byte < 0x80
	vals   [][]byte // concrete value of each class (index = class - 1)
	vclass map[string]int
}

// loadUniverse reads MPT_KEYS (JSON array of byte arrays), MPT_VALLEN ("1,40"), MPT_VALSMALL ("1,0").
func loadUniverse() (*universe, error) {
	u := &universe{vclass: map[string]int{}}
	var ks [][]int
	if err := json.Unmarshal([]byte(os.Getenv("MPT_KEYS")), &ks); err != nil {
		return nil, fmt.Errorf("MPT_KEYS: %v", err)
	}
	for _, k := range ks {
		b := make([]byte, len(k))
		for i, x := range k {
			b[i] = byte(x)
		}
		u.keys = append(u.keys, b)
	}
	for _, f := range strings.Split(os.Getenv("MPT_VALLEN"), ",") {
		n, err := strconv.Atoi(strings.TrimSpace(f))
		if err != nil {
			return nil, fmt.Errorf("MPT_VALLEN: %v", err)
		}
		u.vlen = append(u.vlen, n)
	}
	for _, f := range strings.Split(os.Getenv("MPT_VALSMALL"), ",") {
		u.vsmall = append(u.vsmall, strings.TrimSpace(f) == "1")
	}
	if len(u.vsmall) != len(u.vlen) || len(u.keys) == 0 {
		return nil, fmt.Errorf("inconsistent universe")
	}
	for i := range u.vlen {
		v := u.mkVal(i + 1)
		u.vals = append(u.vals, v)
		if _, dup := u.vclass[string(v)]; dup {
			return nil, fmt.Errorf("value classes %d collide", i+1)
		}
		u.vclass[string(v)] = i + 1
	}
	return u, nil
}

// mkVal: the concrete bytes of value class v.  Length and "small" are what the specification
// knows; the content only has to differ between classes.
func (u *universe) mkVal(v int) []byte {
	n := u.vlen[v-1]
	if n == 1 {
		if u.vsmall[v-1] {
			return []byte{byte(0x10 + v)}
		}
		return []byte{byte(0x90 + v)}
	}
	b := make([]byte, n)
	for i := range b {
		b[i] = byte(0xa0 + v + 3*i)
	}
	b[0] = byte(0xc0 + v) // looks like an RLP list header: values are opaque to the trie
	return b
}

func (u *universe) val(class int) []byte {
	if class == 0 {
		return nil
	}
	return u.vals[class-1]
}

// classOf maps bytes returned by the real code back to a value class (0 absent, 99 unknown bytes).
func (u *universe) classOf(b []byte) int {
	if len(b) == 0 {
		return 0
	}
	if c, ok := u.vclass[string(b)]; ok {
		return c
	}
	return 99
}

// digest: 8-byte key for counting distinct cases without keeping their text.
func digest(s string) string {
	h := fnv.New64a()
	h.Write([]byte(s))
	return string(h.Sum(nil))
}

// tagged: name of a counter in the evidence, qualified by the universe tag of this run.
func tagged(name string) string {
	if t := os.Getenv("MPT_TAG"); t != "" {
		return name + "." + t
	}
	return name
}

func contentKey(c []int) string {
	var sb strings.Builder
	for _, x := range c {
		sb.WriteByte(byte('0' + x))
	}
	return sb.String()
}

// ---------------------------------------------------------------------------------------------
// the specification's tree (MPT.tla J(n)):  0 | ["v",class] | ["s",[nibbles],child] | ["f",[17 children]]

type anode struct {
	kind byte // 0 nil, 'v', 's', 'f'
	v    int
	key  []byte
	c    *anode
	ch   [17]*anode
}

func parseTree(raw json.RawMessage) (*anode, error) {
	raw = bytes.TrimSpace(raw)
	if len(raw) == 0 {
		return nil, fmt.Errorf("empty tree")
	}
	if raw[0] != '[' {
		return &anode{}, nil // 0
	}
	var parts []json.RawMessage
	if err := json.Unmarshal(raw, &parts); err != nil {
		return nil, err
	}
	var tag string
	if err := json.Unmarshal(parts[0], &tag); err != nil {
		return nil, err
	}
	switch tag {
	case "v":
		n := &anode{kind: 'v'}
		return n, json.Unmarshal(parts[1], &n.v)
	case "s":
		n := &anode{kind: 's'}
		var k []int
		if err := json.Unmarshal(parts[1], &k); err != nil {
			return nil, err
		}
		for _, x := range k {
			n.key = append(n.key, byte(x))
		}
		c, err := parseTree(parts[2])
		n.c = c
		return n, err
	case "f":
		n := &anode{kind: 'f'}
		var kids []json.RawMessage
		if err := json.Unmarshal(parts[1], &kids); err != nil || len(kids) != 17 {
			return nil, fmt.Errorf("full node: %v (%d children)", err, len(kids))
		}
		for i := range kids {
			c, err := parseTree(kids[i])
			if err != nil {
				return nil, err
			}
			n.ch[i] = c
		}
		return n, nil
	}
	return nil, fmt.Errorf("unknown node tag %q", tag)
}

// ---------------------------------------------------------------------------------------------
// independent hasher of a specification tree (Yellow Paper, appendix D): own RLP, own
// hex-prefix encoding, keccak256 of the node encoding; a node shorter than 32 bytes is embedded.

func rlpString(b []byte) []byte {
	if len(b) == 1 && b[0] < 0x80 {
		return []byte{b[0]}
	}
	return append(rlpHeader(0x80, len(b)), b...)
}

func rlpList(payload []byte) []byte { return append(rlpHeader(0xc0, len(payload)), payload...) }

func rlpHeader(base byte, n int) []byte {
	if n < 56 {
		return []byte{base + byte(n)}
	}
	var be []byte
	for x := n; x > 0; x >>= 8 {
		be = append([]byte{byte(x)}, be...)
	}
	return append([]byte{base + 55 + byte(len(be))}, be...)
}

// hexPrefix: HP(nibbles, t) of the Yellow Paper; the specification's keys carry t as a trailing 16.
func hexPrefix(k []byte) []byte {
	t := byte(0)
	if len(k) > 0 && k[len(k)-1] == 16 {
		t, k = 2, k[:len(k)-1]
	}
	var out []byte
	if len(k)%2 == 1 {
		out = append(out, (t+1)<<4|k[0])
		k = k[1:]
	} else {
		out = append(out, t<<4)
	}
	for i := 0; i < len(k); i += 2 {
		out = append(out, k[i]<<4|k[i+1])
	}
	return out
}

// enc returns the RLP of node n (kind 's' or 'f') with children referenced as the YP prescribes.
func (u *universe) enc(n *anode) []byte {
	var p []byte
	switch n.kind {
	case 's':
		p = append(p, rlpString(hexPrefix(n.key))...)
		p = append(p, u.ref(n.c)...)
	case 'f':
		for i := 0; i < 17; i++ {
			p = append(p, u.ref(n.ch[i])...)
		}
	default:
		panic("enc of a non-structural node")
	}
	return rlpList(p)
}

// ref: how a parent refers to child c.
func (u *universe) ref(c *anode) []byte {
	switch c.kind {
	case 0:
		return []byte{0x80}
	case 'v':
		return rlpString(u.val(c.v))
	}
	e := u.enc(c)
	if len(e) < 32 {
		return e
	}
	return rlpString(crypto.Keccak256(e))
}

// emptyRoot = keccak(rlp("")), computed here and not taken from types.EmptyRootHash.
var emptyRoot = common.BytesToHash(crypto.Keccak256([]byte{0x80}))

func (u *universe) root(t *anode) common.Hash {
	if t.kind == 0 {
		return emptyRoot
	}
	return common.BytesToHash(crypto.Keccak256(u.enc(t)))
}

// ---------------------------------------------------------------------------------------------
// expected iterator sequence (MPT.tla Walk): [[path nibbles], "L"|"H"|"E"]

type pathEnt struct {
	path []byte
	kind string
}

func parsePaths(raw json.RawMessage) ([]pathEnt, error) {
	var arr [][]json.RawMessage
	if err := json.Unmarshal(raw, &arr); err != nil {
		return nil, err
	}
	out := make([]pathEnt, 0, len(arr))
	for _, e := range arr {
		var p []int
		var k string
		if err := json.Unmarshal(e[0], &p); err != nil {
			return nil, err
		}
		if err := json.Unmarshal(e[1], &k); err != nil {
			return nil, err
		}
		b := make([]byte, len(p))
		for i, x := range p {
			b[i] = byte(x)
		}
		out = append(out, pathEnt{b, k})
	}
	return out, nil
}

func fmtPaths(ps []pathEnt) string {
	var sb strings.Builder
	for _, p := range ps {
		fmt.Fprintf(&sb, "%x/%s ", p.path, p.kind)
	}
	return sb.String()
}

// expect is what the specification says about one content.
type expect struct {
	tree  *anode
	paths []pathEnt
	seek  []int       // SeekAll: 1-based position in paths where NodeIterator(key i) starts
	sd    bool        // PrefixFree(content): the stack trie is defined
	root  common.Hash // independent hash of tree
	sizeW string      // non-empty: the specification's embedded/hashed marks disagree with the real RLP sizes
}

type tableLine struct {
	C  []int           `json:"c"`
	T  json.RawMessage `json:"t"`
	P  json.RawMessage `json:"p"`
	Sd bool            `json:"sd"`
	Sf []int           `json:"sf"`
}

func (u *universe) mkExpect(t, p json.RawMessage, sd bool, sf []int) (*expect, error) {
	tree, err := parseTree(t)
	if err != nil {
		return nil, err
	}
	paths, err := parsePaths(p)
	if err != nil {
		return nil, err
	}
	e := &expect{tree: tree, paths: paths, sd: sd, seek: sf, root: u.root(tree)}
	e.sizeW = u.checkSizes(tree, paths)
	return e, nil
}

// checkSizes recomputes "H"/"E" of every structural node from the real encoding length and
// compares with the specification's EncLen arithmetic (a disagreement is a defect of the
// specification, reported as infrastructure error by the drivers).
func (u *universe) checkSizes(t *anode, paths []pathEnt) string {
	want := map[string]string{}
	for _, p := range paths {
		want[string(p.path)] = p.kind
	}
	var bad []string
	var walk func(n *anode, path []byte, root bool)
	walk = func(n *anode, path []byte, root bool) {
		switch n.kind {
		case 0:
			return
		case 'v':
			if want[string(path)] != "L" {
				bad = append(bad, fmt.Sprintf("%x: value not L", path))
			}
			return
		}
		k := "E"
		if root || len(u.enc(n)) >= 32 {
			k = "H"
		}
		if want[string(path)] != k {
			bad = append(bad, fmt.Sprintf("%x: real encoding says %s (len %d), specification %q", path, k, len(u.enc(n)), want[string(path)]))
		}
		if n.kind == 's' {
			walk(n.c, append(append([]byte{}, path...), n.key...), false)
		} else {
			for i := 0; i < 17; i++ {
				walk(n.ch[i], append(append([]byte{}, path...), byte(i)), false)
			}
		}
	}
	walk(t, nil, true)
	return strings.Join(bad, "; ")
}

// table: content -> expectation, from the MC_Table dump.
type table struct {
	mu sync.RWMutex
	m  map[string]*expect
}

func (tb *table) get(c []int) *expect {
	tb.mu.RLock()
	defer tb.mu.RUnlock()
	return tb.m[contentKey(c)]
}

func sortedKeyIdx(u *universe) []int {
	idx := make([]int, len(u.keys))
	for i := range idx {
		idx[i] = i
	}
	sort.Slice(idx, func(a, b int) bool { return bytes.Compare(u.keys[idx[a]], u.keys[idx[b]]) < 0 })
	return idx
}
