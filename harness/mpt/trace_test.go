package mpt

// TestTraceRecord: the producer of the traces that TLC validates against MPTTrace.tla (TV, code -> spec).
// Seeded random long histories on the real trie over a large universe; one JSON line per call with what
// the real code returned.  The driver decides nothing: acceptance is TLC's.

import (
	"bufio"
	"encoding/json"
	"fmt"
	"math/rand"
	"os"
	"testing"

	"github.com/kardiachain/go-kardia/lib/common"

	"verifharness/internal/mbt"
)

func TestTraceRecord(t *testing.T) {
	res := mbt.NewResult()
	defer res.Write()
	u, err := loadUniverse()
	if err != nil {
		res.Mismatch("infra:universe", err.Error(), nil)
		return
	}
	out, err := os.Create(os.Getenv("MPT_TRACE_OUT"))
	if err != nil {
		res.Mismatch("infra:trace-out", err.Error(), nil)
		return
	}
	defer out.Close()
	w := bufio.NewWriter(out)
	defer w.Flush()
	emit := func(x map[string]interface{}) {
		b, _ := json.Marshal(x)
		w.Write(b)
		w.WriteByte('\n')
	}
	traces, length := mbt.EnvInt("MPT_TRACES", 50), mbt.EnvInt("MPT_TRACE_LEN", 150)
	rng := rand.New(rand.NewSource(mbt.Seed()*104729 + 17))
	rootIDs := map[common.Hash]int{}
	rootID := func(h common.Hash) int {
		if id, ok := rootIDs[h]; ok {
			return id
		}
		rootIDs[h] = len(rootIDs) + 1
		return len(rootIDs)
	}
	lines := 0
	defer func() {
		if r := recover(); r != nil {
			res.Mismatch("mpt:trace:panic", fmt.Sprintf("the real trie panicked while recording (seed %d, line %d): %v", mbt.Seed(), lines, r), nil)
		}
	}()
	for tr := 0; tr < traces; tr++ {
		rt := newRealTrie()
		emit(map[string]interface{}{"t": "reset"})
		lines++
		// each history works on a random subset of the universe, so that keys collide often enough for deletes/overwrites
		nk := 4 + rng.Intn(len(u.keys)-3)
		sub := rng.Perm(len(u.keys))[:nk]
		for e := 0; e < length; e++ {
			k := sub[rng.Intn(nk)]
			switch x := rng.Intn(100); {
			case x < 42:
				v := 1 + rng.Intn(len(u.vals))
				if err := rt.tr.Update(u.keys[k], u.val(v)); err != nil {
					res.Mismatch("mpt:trace:op-error", fmt.Sprintf("Update returned %v (seed %d, line %d)", err, mbt.Seed(), lines), nil)
					return
				}
				emit(map[string]interface{}{"t": "put", "k": k + 1, "v": v})
			case x < 45:
				rt.tr.Update(u.keys[k], []byte{})
				emit(map[string]interface{}{"t": "put", "k": k + 1, "v": 0})
			case x < 62:
				if err := rt.tr.Delete(u.keys[k]); err != nil {
					res.Mismatch("mpt:trace:op-error", fmt.Sprintf("Delete returned %v (seed %d, line %d)", err, mbt.Seed(), lines), nil)
					return
				}
				emit(map[string]interface{}{"t": "del", "k": k + 1})
			case x < 74:
				v, err := rt.tr.Get(u.keys[k])
				if err != nil {
					res.Mismatch("mpt:trace:op-error", fmt.Sprintf("Get returned %v (seed %d, line %d)", err, mbt.Seed(), lines), nil)
					return
				}
				emit(map[string]interface{}{"t": "get", "k": k + 1, "v": u.classOf(v)})
			case x < 82:
				emit(map[string]interface{}{"t": "root", "r": rootID(rt.tr.Hash())})
			case x < 89:
				if _, err := rt.commitReopen(rng.Intn(2) == 0); err != nil {
					res.Mismatch("mpt:trace:reopen", fmt.Sprintf("%v (seed %d, line %d)", err, mbt.Seed(), lines), nil)
					return
				}
				emit(map[string]interface{}{"t": "root", "r": rootID(rt.lastRoot)})
			case x < 92:
				rt.tr = rt.tr.Copy()
				emit(map[string]interface{}{"t": "nop"})
			default:
				var p []interface{}
				it := rt.tr.NodeIterator(nil)
				for it.Next(true) {
					kind := "E"
					if it.Leaf() {
						kind = "L"
					} else if it.Hash() != (common.Hash{}) {
						kind = "H"
					}
					path := make([]int, len(it.Path()))
					for i, b := range it.Path() {
						path[i] = int(b)
					}
					p = append(p, []interface{}{path, kind})
				}
				if p == nil {
					p = []interface{}{}
				}
				emit(map[string]interface{}{"t": "walk", "p": p})
			}
			lines++
		}
		// close every history with all reads, the root and the structure
		for i := range u.keys {
			v, _ := rt.tr.Get(u.keys[i])
			emit(map[string]interface{}{"t": "get", "k": i + 1, "v": u.classOf(v)})
			lines++
		}
		emit(map[string]interface{}{"t": "root", "r": rootID(rt.tr.Hash())})
		lines++
	}
	res.Count(lines)
	res.Behaviours = 0 // counted by the runner once TLC has accepted the traces
	res.Set("trace_lines", lines)
	res.Set("trace_histories", traces)
	res.Set("trace_distinct_roots", len(rootIDs))
	res.Sample(map[string]interface{}{"trace_validation": fmt.Sprintf("%d random histories of %d calls + read-back, %d lines, %d distinct roots", traces, length, lines, len(rootIDs))})
}
