package mpt

// TestDb: every transition of MC_Db (a chain of trie versions over one node database with Reference /
// Dereference / Commit(root) / Cap, placed by TLC) is replayed on the real trie.Database (triedb/hashdb).

import (
	"encoding/json"
	"fmt"
	"os"
	"sync/atomic"
	"testing"

	"github.com/kardiachain/go-kardia/lib/common"
	"github.com/kardiachain/go-kardia/trie"
	"github.com/kardiachain/go-kardia/trie/trienode"

	"verifharness/internal/mbt"
)

type dbLine struct {
	H  [][]json.RawMessage `json:"h"`
	C  []int               `json:"c"`
	Nd int                 `json:"nd"` // number of nodes the specification keeps in memory (dirties)
	Lv []string            `json:"lv"` // state of every version: ref | disk | gone
}

func TestDb(t *testing.T) {
	res := mbt.NewResult()
	defer res.Write()
	u, err := loadUniverse()
	if err != nil {
		res.Mismatch("infra:universe", err.Error(), nil)
		return
	}
	tb := loadTable(u, os.Getenv("MPT_TABLE"), res)
	pfx := "mpt:" + os.Getenv("MPT_TAG") + ":db:"
	var versionsChecked, gcd int64
	sent, err := mbt.EachLine(os.Getenv("MPT_DUMP"), 0, mbt.EnvInt("MPT_LIMIT", 0), mbt.EnvInt("MPT_STRIDE", 1), mbt.Seed(), func(n int, raw []byte) {
		var l dbLine
		if err := json.Unmarshal(raw, &l); err != nil {
			res.Mismatch("infra:parse", err.Error(), string(raw))
			return
		}
		detail := map[string]interface{}{"hist": json.RawMessage(mustJSON(l.H)), "content": l.C, "versions": l.Lv,
			"keys": os.Getenv("MPT_KEYS"), "vallen": os.Getenv("MPT_VALLEN"), "valsmall": os.Getenv("MPT_VALSMALL")}
		where := ""
		fail := func(what, text string) {
			res.Mismatch(pfx+what, fmt.Sprintf("history %s%s: %s", mustJSON(l.H), where, text), detail)
		}
		defer func() {
			if r := recover(); r != nil {
				fail("panic", fmt.Sprintf("panic: %v", r))
			}
		}()
		rt := newRealTrie()
		type version struct {
			root common.Hash
			c    []int
		}
		var vs []version
		nontrivial := false
		for step, a := range l.H {
			where = fmt.Sprintf(" (step %d)", step+1)
			var kind string
			var x int
			json.Unmarshal(a[0], &kind)
			json.Unmarshal(a[1], &x)
			switch kind {
			case "put":
				var v int
				json.Unmarshal(a[2], &v)
				if err := u.applyOp(rt.tr, op{"put", x, v}); err != nil {
					fail("op-error", err.Error())
					return
				}
			case "version":
				var c []int
				json.Unmarshal(a[2], &c)
				root, nodes := rt.tr.Commit(false)
				if nodes != nil {
					if err := rt.db.Update(root, rt.lastRoot, trienode.NewWithNodeSet(nodes)); err != nil {
						fail("db-update", err.Error())
						return
					}
				}
				rt.db.Reference(root, common.Hash{})
				tr, err := trie.New(trie.TrieID(root), rt.db)
				if err != nil {
					fail("reopen", fmt.Sprintf("the version just made cannot be opened: %v", err))
					return
				}
				rt.tr, rt.lastRoot = tr, root
				vs = append(vs, version{root, c})
			case "deref":
				nontrivial = true
				rt.db.Dereference(vs[x-1].root)
			case "flush":
				nontrivial = true
				if err := rt.db.Commit(vs[x-1].root, false); err != nil {
					fail("db-commit", err.Error())
					return
				}
			case "cap":
				nontrivial = true
				if err := rt.db.Cap(0); err != nil {
					fail("db-cap", err.Error())
					return
				}
			}
		}
		where = ""
		res.Count(1)
		if nontrivial {
			res.Distinct(digest(string(raw)))
		}
		check := func(tr *trie.Trie, c []int, what string) bool {
			for i, k := range u.keys {
				v, err := tr.Get(k)
				if err != nil {
					fail(what+"-get", fmt.Sprintf("Get(%x) returned error %v", k, err))
					return false
				}
				if cl := u.classOf(v); cl != c[i] {
					fail(what+"-get", fmt.Sprintf("Get(%x) = %x (value class %d), specified class %d", k, v, cl, c[i]))
					return false
				}
			}
			e := tb.get(c)
			if e == nil {
				res.Mismatch("infra:table-miss", "content not in the table", fmt.Sprint(c))
				return false
			}
			got, leafErr, err := u.walkReal(tr, c)
			if err != nil || leafErr != "" {
				fail(what+"-iter", fmt.Sprintf("NodeIterator: %v %s", err, leafErr))
				return false
			}
			if !samePaths(got, e.paths) {
				fail(what+"-structure", fmt.Sprintf("NodeIterator saw %s, the canonical tree of the content is %s", fmtPaths(got), fmtPaths(e.paths)))
				return false
			}
			if h := tr.Hash(); h != e.root {
				fail(what+"-root", fmt.Sprintf("root %x, independent hash of the specified tree %x", h, e.root))
				return false
			}
			return true
		}
		// the open trie
		if !check(rt.tr, l.C, "trie") {
			return
		}
		// every version that has not been released reopens with the content it had
		for j, v := range vs {
			if l.Lv[j] == "gone" {
				continue
			}
			tr, err := trie.New(trie.TrieID(v.root), rt.db)
			if err != nil {
				fail("version-lost", fmt.Sprintf("version %d (%s, content %v) cannot be opened: %v", j+1, l.Lv[j], v.c, err))
				return
			}
			if !check(tr, v.c, "version") {
				return
			}
			atomic.AddInt64(&versionsChecked, 1)
		}
		// lock-step (not property-level): the garbage collector keeps exactly the nodes the specification keeps
		if got := len(rt.db.VerifDirtyNodes()); got != l.Nd {
			res.Add(tagged("lockstep_dirty_node_deviations"), 1)
			res.Set(tagged("lockstep_dirty_node_example"), fmt.Sprintf("history %s: %d nodes in memory, specified %d", mustJSON(l.H), got, l.Nd))
		} else {
			atomic.AddInt64(&gcd, 1)
		}
		if n%9999 == 1 {
			res.Sample(map[string]interface{}{"db_history": json.RawMessage(mustJSON(l.H)), "content": l.C, "versions": l.Lv, "nodes_in_memory": l.Nd})
		}
	})
	if err != nil {
		res.Mismatch("infra:read", err.Error(), nil)
	}
	res.Behaviours = sent
	res.Set(tagged("db_replayed"), sent)
	res.Set(tagged("db_versions_reopened"), versionsChecked)
	res.Set(tagged("db_lockstep_memory_sets_equal"), gcd)
}
