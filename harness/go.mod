module verifharness

go 1.18

require (
	github.com/ethereum/go-ethereum v1.9.15
	github.com/gogo/protobuf v1.3.2
	github.com/gtank/merlin v0.1.1
	github.com/kardiachain/go-kardia v0.0.0
	golang.org/x/crypto v0.0.0-20210921155107-089bfa567519
)

require (
	github.com/VictoriaMetrics/fastcache v1.5.7 // indirect
	github.com/Workiva/go-datastructures v1.0.52 // indirect
	github.com/aristanetworks/goarista v0.0.0-20190712234253-ed1100a1c015 // indirect
	github.com/beorn7/perks v1.0.1 // indirect
	github.com/btcsuite/btcd v0.21.0-beta // indirect
	github.com/cespare/xxhash/v2 v2.1.1 // indirect
	github.com/deckarep/golang-set v1.7.1 // indirect
	github.com/ebuchman/fail-test v0.0.0-20170303061230-95f809107225 // indirect
	github.com/go-kit/kit v0.10.0 // indirect
	github.com/go-stack/stack v1.8.0 // indirect
	github.com/golang/protobuf v1.4.3 // indirect
	github.com/golang/snappy v0.0.1 // indirect
	github.com/hashicorp/golang-lru v0.5.4 // indirect
	github.com/holiman/bloomfilter/v2 v2.0.3 // indirect
	github.com/holiman/uint256 v1.1.1 // indirect
	github.com/libp2p/go-buffer-pool v0.0.2 // indirect
	github.com/matttproud/golang_protobuf_extensions v1.0.1 // indirect
	github.com/mimoo/StrobeGo v0.0.0-20181016162300-f8f6d4d2b643 // indirect
	github.com/minio/highwayhash v1.0.1 // indirect
	github.com/pkg/errors v0.9.1 // indirect
	github.com/prometheus/client_golang v1.8.0 // indirect
	github.com/prometheus/client_model v0.2.0 // indirect
	github.com/prometheus/common v0.14.0 // indirect
	github.com/prometheus/procfs v0.2.0 // indirect
	github.com/shirou/gopsutil v2.20.5+incompatible // indirect
	github.com/syndtr/goleveldb v1.0.1-0.20200815110645-5c35d600f0ca // indirect
	golang.org/x/exp v0.0.0-20230626212559-97b1e661b5df // indirect
	golang.org/x/net v0.3.0 // indirect
	golang.org/x/sys v0.3.0 // indirect
	google.golang.org/protobuf v1.24.0 // indirect
)

replace github.com/kardiachain/go-kardia => /repo
