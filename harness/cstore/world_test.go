//go:build verif

// Package cstore binds specs/cstore (CStateStore.tla) to the real consensus-state store
// (kai/state/cstate/store.go) and to cstate.updateState (property C14, and the updateState
// clause of C12).
//
// world_test.go: the real side of one behaviour.  A `world` is one in-memory chain database
// with the genesis block committed the way genesis.Commit does it, a real cstate.Store over
// it, and the chain of real LatestBlockState values produced so far.  Blocks are "applied" as
// BlockExecutor.ApplyBlock does after the application has returned: real updateState (through
// cstate.VerifUpdateState), app hash set, real store.Save.  What BlockOperations does around
// that (SaveBlock = rawdb.WriteBlock, WriteAppHash, WriteHeadBlockHash) is done here with the
// same rawdb functions, because Load() joins the stored record with exactly those entries.
package cstore

import (
	"bytes"
	"fmt"
	"math/big"
	"sort"
	"strings"
	"time"

	"github.com/kardiachain/go-kardia/configs"
	"github.com/kardiachain/go-kardia/kai/kaidb"
	"github.com/kardiachain/go-kardia/kai/kaidb/memorydb"
	"github.com/kardiachain/go-kardia/kai/rawdb"
	"github.com/kardiachain/go-kardia/kai/state/cstate"
	"github.com/kardiachain/go-kardia/lib/common"
	"github.com/kardiachain/go-kardia/lib/crypto"
	"github.com/kardiachain/go-kardia/lib/log"
	"github.com/kardiachain/go-kardia/mainchain/genesis"
	kproto "github.com/kardiachain/go-kardia/proto/kardiachain/types"
	"github.com/kardiachain/go-kardia/trie"
	"github.com/kardiachain/go-kardia/types"

	"verifharness/internal/mbt"
)

func init() { log.Root().SetHandler(log.DiscardHandler()) }

const chainID = "verif-cstore"

var genesisTime = time.Unix(1700000000, 0).UTC()

// book: abstract address a (1..n of the specification) <-> real address.  The order of the abstract
// addresses is the byte order of the real ones (ties in ValidatorSet are broken by address).  The default
// book needs no keys (addresses 0x00..01, 0x00..02, ...); the ApplyBlock path installs one with signing keys.
type book struct {
	addrs []common.Address
	privs []*types.DefaultPrivValidator
	idx   map[common.Address]int
}

func byteBook() *book {
	b := &book{idx: map[common.Address]int{}}
	for a := 1; a <= 15; a++ {
		x := common.BytesToAddress([]byte{byte(a)})
		b.addrs = append(b.addrs, x)
		b.idx[x] = a
	}
	return b
}

func keyBook(n int) *book {
	b := &book{idx: map[common.Address]int{}}
	for i := 0; i < n; i++ {
		k, _ := crypto.ToECDSA(crypto.Keccak256([]byte(fmt.Sprintf("verif-cstore-%d", i))))
		b.privs = append(b.privs, types.NewDefaultPrivValidator(k))
	}
	sort.Slice(b.privs, func(i, j int) bool {
		return bytes.Compare(b.privs[i].GetAddress().Bytes(), b.privs[j].GetAddress().Bytes()) < 0
	})
	for i, p := range b.privs {
		b.addrs = append(b.addrs, p.GetAddress())
		b.idx[p.GetAddress()] = i + 1
	}
	return b
}

var theBook = byteBook()

func addr(a int) common.Address  { return theBook.addrs[a-1] }
func abstr(a common.Address) int { return theBook.idx[a] }

// abstract tokens of the specification -> real values
func appHashOf(h int) common.Hash { return crypto.Keccak256Hash([]byte(fmt.Sprintf("app-%d", h))) }
func timeOf(h int) time.Time      { return genesisTime.Add(time.Duration(h) * 1500 * time.Millisecond) }

// paramsOf: consensus parameters number p (1 = the defaults; the others differ from it in one field each).
func paramsOf(p int) kproto.ConsensusParams {
	cp := *configs.DefaultConsensusParams()
	switch p {
	case 2:
		cp.Block.MaxBytes += 1 // first field of the encoding
	case 3:
		cp.Evidence.MaxBytes += 1 // last field of the encoding
	case 4:
		cp.Block.MaxGas += 7
	}
	return cp
}

func hasher() types.TrieHasher { return trie.NewStackTrie(nil) }

type world struct {
	db     kaidb.Database
	store  cstate.Store
	gen    *genesis.Genesis
	cur    cstate.LatestBlockState   // the running node's state (what ConsensusState holds)
	chain  []cstate.LatestBlockState // chain[h] = the state handed to Save for height h (deep copies)
	blocks []*types.Block            // blocks[h]
	bids   []types.BlockID
	times  []time.Time // times[h] = time of block h

	exec *cstate.BlockExecutor // ApplyBlock path (applyblock_test.go); nil on the store-level path
	app  *stubApp
	unit int64 // real voting power = abstract power * unit (1 except in the scaled shadow runs)

	// oldBelow > 0: the states of heights below it are left in the database the way the code BEFORE the per-height
	// validator-set records (commit 83d442d) wrote them: the same writes minus those records (old-database runs)
	oldBelow int
}

// asOldCode removes the per-height records the Save of state st has just written.
func (w *world) asOldCode(st *cstate.LatestBlockState) {
	h := st.LastBlockHeight
	if int(h) >= w.oldBelow {
		return
	}
	if h == 0 {
		rawdb.DeleteConsensusValidatorsInfo(w.db, cstate.VerifValInfoKeyAt(st.Validators.Hash(), 1))
	}
	rawdb.DeleteConsensusValidatorsInfo(w.db, cstate.VerifValInfoKeyAt(st.NextValidators.Hash(), h+2))
}

// initialHeight: the genesis document's initial_height (env CSTORE_IH, default 1; the constant InitialHeight of the
// specification).  The store-level path keeps numbering blocks LastBlockHeight+1 as the store itself does.
var initialHeight = uint64(mbt.EnvInt("CSTORE_IH", 1))

func genesisDoc(powers []int64, params int) *genesis.Genesis {
	g := &genesis.Genesis{ChainID: chainID, InitialHeight: initialHeight, Timestamp: genesisTime, GasLimit: configs.GenesisGasLimit}
	for i, p := range powers {
		tokens := new(big.Int).Mul(big.NewInt(p), configs.PowerReduction)
		g.Validators = append(g.Validators, &genesis.GenesisValidator{
			Name: fmt.Sprintf("v%d", i+1), Address: addr(i + 1).Hex(), SelfDelegate: tokens.String(), StartWithGenesis: true})
	}
	cp := paramsOf(params)
	g.ConsensusParams = &cp
	return g
}

// writeBlock stores block h the way the node does: consensus SaveBlock (rawdb.WriteBlock: meta, parts,
// commits, height index, canonical hash), then the chain's head pointer and the app hash of the height.
func (w *world) writeBlock(b *types.Block, app common.Hash) types.BlockID {
	ps := b.MakePartSet(types.BlockPartSizeBytes)
	rawdb.WriteBlock(w.db, b, ps, &types.Commit{})
	rawdb.WriteCanonicalHash(w.db, b.Hash(), b.Height())
	rawdb.WriteHeadBlockHash(w.db, b.Hash())
	rawdb.WriteAppHash(w.db, b.Height(), app)
	return types.BlockID{Hash: b.Hash(), PartsHeader: ps.Header()}
}

// newWorld: fresh database, genesis block committed, genesis state created and saved by the real
// LoadStateFromDBOrGenesisDoc (the call mainchain/backend.go makes at every start).
func newWorld(powers []int64, params int) (*world, error) { return newWorldU(powers, params, 1, 0) }

func newWorldU(powers []int64, params int, unit int64, oldBelow int) (*world, error) {
	scaled := make([]int64, len(powers))
	for i, p := range powers {
		scaled[i] = p * unit
	}
	w := &world{db: memorydb.New(), gen: genesisDoc(scaled, params), unit: unit, oldBelow: oldBelow}
	head := &types.Header{Time: genesisTime, Height: 0, GasLimit: configs.GenesisGasLimit, AppHash: appHashOf(0)}
	gb := types.NewBlock(head, nil, &types.Commit{}, nil, hasher())
	bid := w.writeBlock(gb, appHashOf(0))
	w.blocks = append(w.blocks, gb)
	w.bids = append(w.bids, bid)
	w.times = append(w.times, genesisTime)
	w.store = cstate.NewStore(w.db)
	st, err := w.store.LoadStateFromDBOrGenesisDoc(w.gen)
	if err != nil {
		return nil, err
	}
	w.cur = st
	w.asOldCode(&st)
	w.chain = append(w.chain, snap(st))
	return w, nil
}

// restart: a NEW store object over the same database (nothing is cached in the old one, but this is
// what a restarted process has).
func (w *world) restart() {
	w.store = cstate.NewStore(w.db)
	if w.exec != nil {
		w.exec = cstate.NewBlockExecutor(w.store, log.New(), stubEvPool{}, w.app)
		w.exec.SetEventBus(sharedBus())
	}
}

type change struct {
	A int   `json:"a"`
	P int64 `json:"p"`
}

func mkUpdates(chs []change, unit int64) []*types.Validator {
	out := make([]*types.Validator, 0, len(chs))
	for _, c := range chs {
		out = append(out, &types.Validator{Address: addr(c.A), VotingPower: c.P * unit})
	}
	return out
}

// snap: a deep copy of a chain state (LatestBlockState.Copy drops LastHeightConsensusParamsChanged and shares
// the Proposer pointers with the original).
func snap(st cstate.LatestBlockState) cstate.LatestBlockState {
	c := st
	c.LastValidators, c.Validators, c.NextValidators = deepSet(st.LastValidators), deepSet(st.Validators), deepSet(st.NextValidators)
	return c
}
func deepSet(vs *types.ValidatorSet) *types.ValidatorSet {
	if vs == nil {
		return nil
	}
	c := vs.Copy()
	c.Proposer = vs.Proposer.Copy()
	return c
}

func (w *world) apply(chs []change) string { return w.applyP(chs, 0) }

// applyP: one block with the given validator updates (the change set calculateValidatorSetUpdates hands to
// updateState).  Returns "ok", "err" (updateState refused; nothing is written, as in ApplyBlock) or "PANIC:..".
// params > 0 and different from the current params: the params extension of the model — the state is saved with
// other ConsensusParams, recorded the way Tendermint records a params-changing block (the code itself has no
// such block; Save accepts any state).
func (w *world) applyP(chs []change, params int) (res string) {
	if w.exec != nil {
		return w.applyViaExecutor(chs)
	}
	defer func() {
		if r := recover(); r != nil {
			res = fmt.Sprint("PANIC: ", r)
		}
	}()
	h := int(w.cur.LastBlockHeight) + 1
	hd := &types.Header{Height: uint64(h), Time: timeOf(h), LastBlockID: w.cur.LastBlockID, GasLimit: configs.GenesisGasLimit,
		ProposerAddress: w.cur.Validators.GetProposer().Address, ValidatorsHash: w.cur.Validators.Hash(),
		NextValidatorsHash: w.cur.NextValidators.Hash(), AppHash: w.cur.AppHash}
	lc := types.NewCommit(0, 0, types.BlockID{}, nil) // the first block carries the canonical empty commit
	if h > 1 {
		// the commit of block h-1 by the set that was in force at h-1 (signature bytes are placeholders: nothing
		// on this path verifies them, the block only has to survive the block store's codec)
		var sigs []types.CommitSig
		for _, v := range w.cur.LastValidators.Validators {
			sigs = append(sigs, types.CommitSig{BlockIDFlag: types.BlockIDFlagCommit, ValidatorAddress: v.Address,
				Timestamp: timeOf(h), Signature: make([]byte, 65)})
		}
		lc = types.NewCommit(uint64(h-1), 1, w.cur.LastBlockID, sigs)
	}
	b := types.NewBlock(hd, nil, lc, nil, hasher())
	ps := b.MakePartSet(types.BlockPartSizeBytes)
	bid := types.BlockID{Hash: b.Hash(), PartsHeader: ps.Header()}
	ns, err := cstate.VerifUpdateState(w.cur, bid, b.Header(), mkUpdates(chs, w.unit))
	if err != nil {
		return "err"
	}
	ns.AppHash = appHashOf(h)
	if params > 0 {
		if np := paramsOf(params); !np.Equal(&w.cur.ConsensusParams) {
			ns.ConsensusParams = np
			ns.LastHeightConsensusParamsChanged = uint64(h) + 1
		}
	}
	// the order of the real node: SaveBlock (finalizeCommit), block + state + head (CommitAndValidateBlockTxs),
	// then the consensus state (ApplyBlock -> store.Save)
	w.writeBlock(b, ns.AppHash)
	w.store.Save(ns)
	w.asOldCode(&ns)
	w.cur = ns
	w.chain = append(w.chain, snap(ns))
	w.blocks = append(w.blocks, b)
	w.bids = append(w.bids, bid)
	w.times = append(w.times, b.Time())
	return "ok"
}

func (w *world) prune(from, to int) (res string, states uint64) {
	defer func() {
		if r := recover(); r != nil {
			res = fmt.Sprint("PANIC: ", r)
		}
	}()
	n, _, _ := w.store.PruneState(uint64(from), uint64(to))
	return "ok", n
}

// ---- projections ---------------------------------------------------------------------------

// setRepr: "a/p/prio a/p/prio ... |proposer" — the whole value of a validator set as the property sees it.
func setRepr(vs *types.ValidatorSet) string {
	if vs == nil {
		return "nil"
	}
	var sb strings.Builder
	for _, v := range vs.Validators {
		fmt.Fprintf(&sb, "%d/%d/%d ", abstr(v.Address), v.VotingPower, v.ProposerPriority)
	}
	p := vs.Copy().GetProposer()
	if p == nil {
		sb.WriteString("|none")
	} else {
		fmt.Fprintf(&sb, "|%d", abstr(p.Address))
	}
	return sb.String()
}

// membersRepr: addresses and powers only (what entitles to sign).
func membersRepr(vs *types.ValidatorSet) string {
	if vs == nil {
		return "nil"
	}
	var sb strings.Builder
	for _, v := range vs.Validators {
		fmt.Fprintf(&sb, "%d/%d ", abstr(v.Address), v.VotingPower)
	}
	return sb.String()
}
