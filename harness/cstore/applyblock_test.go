//go:build verif

// applyblock_test.go: the chains of specs/cstore produced on the real side by the REAL
// BlockExecutor.ApplyBlock: real validateBlock (blocks carry validly signed commits of the real
// LastValidators, the specified block time, validator hashes, last block id and app hash), real
// getBeginBlockValidatorInfo (which calls the real LoadValidators of the previous height), a stub
// application that returns the scripted validator list, real calculateValidatorSetUpdates, real
// updateState, real Save.  Then PruneState / restart / the read calls exactly as in replay_test.go.
package cstore

import (
	"fmt"
	"os"
	"sync"
	"testing"

	"github.com/kardiachain/go-kardia/configs"
	"github.com/kardiachain/go-kardia/kai/rawdb"
	"github.com/kardiachain/go-kardia/kai/state/cstate"
	"github.com/kardiachain/go-kardia/lib/common"
	"github.com/kardiachain/go-kardia/lib/log"
	stypes "github.com/kardiachain/go-kardia/mainchain/staking/types"
	kproto "github.com/kardiachain/go-kardia/proto/kardiachain/types"
	"github.com/kardiachain/go-kardia/types"

	"verifharness/internal/mbt"
)

type stubEvPool struct{}

func (stubEvPool) Update(cstate.LatestBlockState, types.EvidenceList) {}
func (stubEvPool) CheckEvidence(types.EvidenceList) error             { return nil }

// stubApp is the application / chain behind the executor: it returns the scripted validator list and does the
// writes CommitAndValidateBlockTxs does around the execution (head pointer, app hash of the height).
type stubApp struct {
	w        *world
	next     []*types.Validator // full validator list after this block (nil: no change)
	lastInfo stypes.LastCommitInfo
}

func (a *stubApp) CommitAndValidateBlockTxs(b *types.Block, lci stypes.LastCommitInfo, _ []stypes.Evidence) ([]*types.Validator, common.Hash, error) {
	a.lastInfo = lci
	rawdb.WriteCanonicalHash(a.w.db, b.Hash(), b.Height())
	rawdb.WriteHeadBlockHash(a.w.db, b.Hash())
	app := appHashOf(int(b.Height()))
	rawdb.WriteAppHash(a.w.db, b.Height(), app)
	return a.next, app, nil
}
func (a *stubApp) Config() *configs.ChainConfig { return configs.TestChainConfig }

var (
	busOnce sync.Once
	bus     *types.EventBus
)

func sharedBus() *types.EventBus {
	busOnce.Do(func() {
		bus = types.NewEventBus()
		bus.SetLogger(log.New())
		if err := bus.Start(); err != nil {
			panic(err)
		}
	})
	return bus
}

func (w *world) enableExecutor() {
	w.app = &stubApp{w: w}
	w.exec = cstate.NewBlockExecutor(w.store, log.New(), stubEvPool{}, w.app)
	w.exec.SetEventBus(sharedBus())
}

func signedPrecommit(a int, idx int, h uint64, bid types.BlockID, ts int) types.CommitSig {
	v := &types.Vote{ValidatorAddress: addr(a), ValidatorIndex: uint32(idx), Height: h, Round: 1, Timestamp: timeOf(ts),
		Type: kproto.PrecommitType, BlockID: bid}
	pv := v.ToProto()
	if err := theBook.privs[a-1].SignVote(chainID, pv); err != nil {
		panic(err)
	}
	v.Signature = pv.Signature
	return v.CommitSig()
}

// applyViaExecutor: block h = head+1 proposed on top of the running state, saved (SaveBlock), applied.
// Returns "ok", "err: ..." (ApplyBlock refused) or "PANIC: ...".
func (w *world) applyViaExecutor(chs []change) (res string) {
	defer func() {
		if r := recover(); r != nil {
			res = fmt.Sprint("PANIC: ", r)
		}
	}()
	st := w.cur
	h := int(st.LastBlockHeight) + 1
	// the application's answer: the FULL validator list when something changes (ApplyAndReturnValidatorSets)
	w.app.next = nil
	if len(chs) > 0 {
		mem := map[int]int64{}
		for _, v := range st.NextValidators.Validators {
			mem[abstr(v.Address)] = v.VotingPower
		}
		for _, c := range chs {
			if c.P == 0 {
				delete(mem, c.A)
			} else {
				mem[c.A] = c.P * w.unit
			}
		}
		for a := len(theBook.addrs); a >= 1; a-- { // any order: calculateValidatorSetUpdates works on sets
			if p, ok := mem[a]; ok {
				w.app.next = append(w.app.next, types.NewValidator(addr(a), p))
			}
		}
	}
	hd := &types.Header{Height: uint64(h), Time: st.LastBlockTime, LastBlockID: st.LastBlockID, GasLimit: configs.GenesisGasLimit,
		ProposerAddress: st.Validators.GetProposer().Address, ValidatorsHash: st.Validators.Hash(),
		NextValidatorsHash: st.NextValidators.Hash(), AppHash: st.AppHash}
	lc := types.NewCommit(0, 0, types.BlockID{}, nil)
	if h > 1 {
		var sigs []types.CommitSig
		for i, v := range st.LastValidators.Validators {
			sigs = append(sigs, signedPrecommit(abstr(v.Address), i, uint64(h-1), st.LastBlockID, h))
		}
		lc = types.NewCommit(uint64(h-1), 1, st.LastBlockID, sigs)
		hd.Time = cstate.MedianTime(lc, st.LastValidators)
	}
	b := types.NewBlock(hd, nil, lc, nil, hasher())
	ps := b.MakePartSet(types.BlockPartSizeBytes)
	bid := types.BlockID{Hash: b.Hash(), PartsHeader: ps.Header()}
	rawdb.WriteBlock(w.db, b, ps, &types.Commit{}) // consensus finalizeCommit: SaveBlock before ApplyBlock
	ns, _, err := w.exec.ApplyBlock(st, bid, b)
	if err != nil {
		return "err: " + err.Error()
	}
	w.asOldCode(&ns)
	w.cur = ns
	w.chain = append(w.chain, snap(ns))
	w.blocks = append(w.blocks, b)
	w.bids = append(w.bids, bid)
	w.times = append(w.times, b.Time())
	return "ok"
}

// commitInfoRepr: the LastCommitInfo the application was given, as members "a/p ".
func commitInfoRepr(lci stypes.LastCommitInfo) string {
	s := ""
	for _, v := range lci.Votes {
		s += fmt.Sprintf("%d/%d ", abstr(v.Address), v.VotingPower.Int64())
	}
	return s
}

// TestApplyBlock: env as TestReplay.  Histories with a rejected change set, or with a change that leaves the
// power as it is, are skipped: ApplyBlock derives the change set from the application's full list
// (calculateValidatorSetUpdates), so neither can be expressed on this path.
func TestApplyBlock(t *testing.T) {
	res := mbt.NewResult()
	defer res.Write()
	theBook = keyBook(4)
	rp := &replayer{res: res, initP: parseInit(), viaExec: true}
	if len(rp.initP) == 0 {
		res.Mismatch("infra:env", "CSTORE_INIT not set", nil)
		return
	}
	sent, err := mbt.EachLine(os.Getenv("CSTORE_DUMP"), mbt.EnvInt("CSTORE_WORKERS", 0), mbt.EnvInt("CSTORE_LIMIT", 0),
		mbt.EnvInt("CSTORE_STRIDE", 1), mbt.Seed(), rp.one)
	if err != nil {
		res.Mismatch("infra:read", err.Error(), nil)
	}
	if sent == 0 {
		res.Mismatch("infra:empty-dump", "no dump lines in "+os.Getenv("CSTORE_DUMP"), nil)
	}
	res.Behaviours = sent
}
