//go:build verif

// replay_test.go: every transition TLC printed for specs/cstore/MC_CStateStore is replayed into the real
// code from a fresh database: real LoadStateFromDBOrGenesisDoc, real updateState for every block, real
// Save / PruneState, restarts at random, then a NEW store object and real Load() at the head, Load() after
// the head pointer has been rewound to every lower height, LoadValidators and LoadConsensusParams at every
// height.  The specification is the oracle:
//
//	s  the chain state updateState must have produced           (sigs cstore:updatestate:...)
//	o  what every read call returns AS SPECIFIED                 (sigs cstore:load:..., cstore:rewind:load:...,
//	                                                              cstore:prune:..., cstore:loadvalidators:...,
//	                                                              cstore:loadparams:...)
//	x  what the AS-IMPLEMENTED instance of the specification (the model of the code as it is in the tree)
//	   predicts where that differs from o: a deviation of the real code from o that x predicts exactly gets the
//	   suffix of its cause (":key-collision", ":genesis-join", ":pruned-record", ":no-state-record",
//	   ":as-implemented"); one that x does not predict gets ":unexplained", so that a recorded finding can never
//	   mask a new defect in the same field.  Every deviation from o is reported, whatever x says.
//
// Compared merely to keep specification and code in lock-step (counted in the evidence, never reported):
// LastHeightValidatorsChanged / LastHeightConsensusParamsChanged of loaded states, what PruneState reports,
// answers for pruned heights, the priorities of the sets LoadValidators returns.
//
// Extra on every 4th history: the same history with voting powers * (2^40 + 12345) — whatever a read returns must
// be a set that was saved (codec losses).  CSTORE_OLD_BELOW=k: old-database run, see replayer.report.
package cstore

import (
	"encoding/json"
	"fmt"
	"os"
	"strconv"
	"strings"
	"testing"

	"github.com/kardiachain/go-kardia/kai/rawdb"
	"github.com/kardiachain/go-kardia/kai/state/cstate"
	kproto "github.com/kardiachain/go-kardia/proto/kardiachain/types"
	"github.com/kardiachain/go-kardia/types"

	"verifharness/internal/mbt"
)

// ---- dump line -----------------------------------------------------------------------------

type obs struct {
	Ld json.RawMessage `json:"ld"` // [class, [] | flat state]
	La json.RawMessage `json:"la"` // per height 0..head+1: 0 none, 2 panic, 10+mask ok (mask: fields that differ from the saved state)
	Lv json.RawMessage `json:"lv"` // per height: [1, members, exact] | [0, [], 0]
	Lp json.RawMessage `json:"lp"` // per height: params token | 0 error | -1 panic
}
type line struct {
	H []json.RawMessage `json:"h"`
	S []json.RawMessage `json:"s"`
	O obs               `json:"o"`
	X obs               `json:"x"`
}

type step struct {
	op       string
	chs      []change
	params   int
	res      string
	rmNext   bool
	from, to int
	n        int
}

func parseStep(raw json.RawMessage) (step, error) {
	var parts []json.RawMessage
	var s step
	if err := json.Unmarshal(raw, &parts); err != nil {
		return s, err
	}
	if err := json.Unmarshal(parts[0], &s.op); err != nil {
		return s, err
	}
	switch s.op {
	case "a":
		var flat []int64
		if err := json.Unmarshal(parts[1], &flat); err != nil {
			return s, err
		}
		for i := 0; i+1 < len(flat); i += 2 {
			s.chs = append(s.chs, change{A: int(flat[i]), P: flat[i+1]})
		}
		json.Unmarshal(parts[2], &s.params)
		json.Unmarshal(parts[3], &s.res)
		var tag int
		json.Unmarshal(parts[4], &tag)
		s.rmNext = tag == 1
	case "p":
		json.Unmarshal(parts[1], &s.from)
		json.Unmarshal(parts[2], &s.to)
		json.Unmarshal(parts[3], &s.n)
	default:
		return s, fmt.Errorf("unknown step %q", s.op)
	}
	return s, nil
}

// flat validator set of the specification [a,p,prio, a,p,prio, ..., prop] -> the same text setRepr gives
func flatSetRepr(raw json.RawMessage) (full, members string, err error) {
	var f []int64
	if err = json.Unmarshal(raw, &f); err != nil {
		return
	}
	if len(f) == 1 { // NilSet
		return "nil", "nil", nil
	}
	var sb, mb strings.Builder
	for i := 0; i+2 < len(f); i += 3 {
		fmt.Fprintf(&sb, "%d/%d/%d ", f[i], f[i+1], f[i+2])
		fmt.Fprintf(&mb, "%d/%d ", f[i], f[i+1])
	}
	if p := f[len(f)-1]; p == 0 {
		sb.WriteString("|none")
	} else {
		fmt.Fprintf(&sb, "|%d", p)
	}
	return sb.String(), mb.String(), nil
}

func flatMemRepr(raw json.RawMessage) string {
	var f []int64
	json.Unmarshal(raw, &f)
	var mb strings.Builder
	for i := 0; i+1 < len(f); i += 2 {
		fmt.Fprintf(&mb, "%d/%d ", f[i], f[i+1])
	}
	return mb.String()
}

// absState: a chain state in the vocabulary of the specification.
type absState struct {
	H, Bid, Time, App, Params, Lhvc, Lhpc, IH int
	Last, Vals, Next                          string // setRepr form
}

func parseFlatState(parts []json.RawMessage) (absState, error) {
	var a absState
	if len(parts) != 11 {
		return a, fmt.Errorf("flat state with %d fields", len(parts))
	}
	if err := json.Unmarshal(parts[10], &a.IH); err != nil {
		return a, err
	}
	ints := []*int{&a.H, &a.Bid, &a.Time, &a.App, &a.Params, &a.Lhvc, &a.Lhpc}
	for i, p := range ints {
		if err := json.Unmarshal(parts[i], p); err != nil {
			return a, err
		}
	}
	var err error
	if a.Last, _, err = flatSetRepr(parts[7]); err != nil {
		return a, err
	}
	if a.Vals, _, err = flatSetRepr(parts[8]); err != nil {
		return a, err
	}
	a.Next, _, err = flatSetRepr(parts[9])
	return a, err
}

// ---- real state -> tokens ------------------------------------------------------------------

// tokens of a real state relative to the world it lives in; -1 = a value the specification has no token for
func (w *world) bidToken(b types.BlockID) int {
	if b.IsZero() {
		return 0
	}
	for h, x := range w.bids {
		if x.Equal(b) {
			return h + 1
		}
	}
	return -1
}
func (w *world) timeToken(st *cstate.LatestBlockState) int {
	// the time of the state's own height first (on the ApplyBlock path block 1 carries the genesis time)
	if h := int(st.LastBlockHeight); h < len(w.times) && st.LastBlockTime.Equal(w.times[h]) {
		return h
	}
	for h := range w.times {
		if st.LastBlockTime.Equal(w.times[h]) {
			return h
		}
	}
	return -1
}
func (w *world) appToken(st *cstate.LatestBlockState) int {
	if st.AppHash.IsZero() {
		return 0
	}
	for h := 0; h <= len(w.bids); h++ {
		if st.AppHash == appHashOf(h) {
			return h + 1
		}
	}
	return -1
}
func paramsToken(p kproto.ConsensusParams) int {
	for t := 1; t <= 4; t++ {
		q := paramsOf(t)
		if p.Equal(&q) {
			return t
		}
	}
	return -1
}

func (w *world) abstract(st *cstate.LatestBlockState) absState {
	return absState{H: int(st.LastBlockHeight), Bid: w.bidToken(st.LastBlockID), Time: w.timeToken(st), App: w.appToken(st),
		IH: int(st.InitialHeight), Params: paramsToken(st.ConsensusParams), Lhvc: int(st.LastHeightValidatorsChanged), Lhpc: int(st.LastHeightConsensusParamsChanged),
		Last: setRepr(st.LastValidators), Vals: setRepr(st.Validators), Next: setRepr(st.NextValidators)}
}

// splitRepr "a/p/prio ... |prop" -> members "a/p ...", priorities "prio ...", proposer
func splitRepr(r string) (mem, prio, prop string) {
	if r == "nil" {
		return "nil", "nil", "nil"
	}
	i := strings.LastIndex(r, "|")
	prop = r[i+1:]
	for _, f := range strings.Fields(r[:i]) {
		p := strings.Split(f, "/")
		mem += p[0] + "/" + p[1] + " "
		prio += p[2] + " "
	}
	return
}

// diffStates lists the property-relevant differences (field, aspect) and the lock-step ones.
type fdiff struct{ field, aspect, got, want string }

func diffStates(got, want absState) (prop []fdiff, lock []fdiff) {
	cmpSet := func(name, g, w string) {
		if g == w {
			return
		}
		gm, gp, gr := splitRepr(g)
		wm, wp, wr := splitRepr(w)
		switch {
		case gm != wm:
			prop = append(prop, fdiff{name, "members", g, w})
		case gp != wp:
			prop = append(prop, fdiff{name, "priorities", g, w})
		case gr != wr:
			prop = append(prop, fdiff{name, "proposer", g, w})
		}
	}
	cmpSet("LastValidators", got.Last, want.Last)
	cmpSet("Validators", got.Vals, want.Vals)
	cmpSet("NextValidators", got.Next, want.Next)
	ci := func(name string, g, w int, relevant bool) {
		if g != w {
			d := fdiff{name, "value", strconv.Itoa(g), strconv.Itoa(w)}
			if relevant {
				prop = append(prop, d)
			} else {
				lock = append(lock, d)
			}
		}
	}
	ci("LastBlockHeight", got.H, want.H, true)
	ci("LastBlockID", got.Bid, want.Bid, true)
	ci("LastBlockTime", got.Time, want.Time, true)
	ci("AppHash", got.App, want.App, true)
	ci("ConsensusParams", got.Params, want.Params, true)
	ci("InitialHeight", got.IH, want.IH, true)
	// bookkeeping the statement does not list: compared to keep specification and code in lock-step
	ci("LastHeightValidatorsChanged", got.Lhvc, want.Lhvc, false)
	ci("LastHeightConsensusParamsChanged", got.Lhpc, want.Lhpc, false)
	return
}

// ---- the reads -----------------------------------------------------------------------------

type loadRes struct {
	class string // ok | none | panic
	st    absState
	msg   string
}

func (w *world) loadHead() (r loadRes) {
	defer func() {
		if p := recover(); p != nil {
			r = loadRes{class: "panic", msg: fmt.Sprint(p)}
		}
	}()
	st := w.store.Load()
	if st.IsEmpty() {
		return loadRes{class: "none"}
	}
	return loadRes{class: "ok", st: w.abstract(&st)}
}

func (w *world) loadAt(h int) (r loadRes) {
	defer func() {
		if p := recover(); p != nil {
			r = loadRes{class: "panic", msg: fmt.Sprint(p)}
		}
	}()
	st := cstate.VerifLoadStateAtHeight(w.db, uint64(h))
	if st == nil {
		return loadRes{class: "none"}
	}
	return loadRes{class: "ok", st: w.abstract(st)}
}

func (w *world) loadValidators(h int) (class, full, msg string) {
	defer func() {
		if p := recover(); p != nil {
			class, msg = "panic", fmt.Sprint(p)
		}
	}()
	vs, err := w.store.LoadValidators(uint64(h))
	if err != nil {
		return "err", "", err.Error()
	}
	if vs == nil {
		return "err", "", "nil set without error"
	}
	return "ok", setRepr(vs), ""
}

func (w *world) loadParams(h int) (tok int, msg string) {
	defer func() {
		if p := recover(); p != nil {
			tok, msg = -1, fmt.Sprint(p)
		}
	}()
	p, err := w.store.LoadConsensusParams(uint64(h))
	if err != nil {
		return 0, err.Error()
	}
	t := paramsToken(p)
	if t < 0 {
		t = -2
	}
	return t, ""
}

// ---- replay --------------------------------------------------------------------------------

func parseInit() []int64 {
	var initP []int64
	for _, f := range strings.Split(os.Getenv("CSTORE_INIT"), ",") {
		if p, err := strconv.ParseInt(strings.TrimSpace(f), 10, 64); err == nil {
			initP = append(initP, p)
		}
	}
	return initP
}

// rangeClass: where height h lies relative to the prune calls of the history.
func rangeClass(steps []step, h int) string {
	cls := "no-prune"
	for _, s := range steps {
		if s.op != "p" {
			continue
		}
		f := s.from
		if f == 0 {
			f = 1
		}
		switch {
		case h >= s.to:
			return "above-range"
		case h < f && h > 0:
			cls = "below-range"
		case h == 0 && cls == "no-prune":
			cls = "genesis"
		}
	}
	return cls
}

// scriptClasses: which of the named validator-set scripts a history contains.
func scriptClasses(initP []int64, steps []step) map[string]bool {
	out := map[string]bool{}
	mem := map[int]int64{}
	for i, p := range initP {
		mem[i+1] = p
	}
	key := func() string {
		var sb strings.Builder
		for a := 1; a < 16; a++ {
			if p, ok := mem[a]; ok {
				fmt.Fprintf(&sb, "%d/%d ", a, p)
			}
		}
		return sb.String()
	}
	seq := []string{key()}
	prevChanged, blocks, changes := false, 0, 0
	for _, s := range steps {
		if s.op == "p" {
			out["prune"] = true
			if blocks > 0 {
				out["prune-after-blocks"] = true
			}
			continue
		}
		if s.res != "ok" {
			out["rejected-change-set"] = true
			continue
		}
		if out["prune"] {
			out["blocks-after-prune"] = true
		}
		blocks++
		if len(s.chs) > 0 {
			changes++
			if prevChanged {
				out["consecutive-changes"] = true
			}
			for _, c := range s.chs {
				if old, ok := mem[c.A]; ok && c.P > 0 && old != c.P {
					out["power-only-change"] = true
				}
				if c.P == 0 {
					delete(mem, c.A)
				} else {
					mem[c.A] = c.P
				}
			}
			if s.rmNext {
				out["removal-of-next-proposer"] = true
			}
		}
		prevChanged = len(s.chs) > 0
		seq = append(seq, key())
	}
	if blocks >= 2 && changes == 0 {
		out["static"] = true
	}
	for i := 0; i < len(seq); i++ {
		for k := i + 2; k < len(seq); k++ {
			if seq[i] == seq[k] {
				for j := i + 1; j < k; j++ {
					if seq[j] != seq[i] {
						out["return-to-earlier-membership"] = true
					}
				}
			}
		}
	}
	return out
}

type replayer struct {
	res       *mbt.Result
	initP     []int64
	storeless bool // TestOldDatabase = TestReplay with CSTORE_OLD_BELOW=k (set by checks/C14.py) against a dump whose as-implemented
	// instance has UpgradeAt = k.

	// TestUpdateState: only the chain of states is built and compared
	viaExec  bool // TestApplyBlock: blocks go through the real BlockExecutor.ApplyBlock
	oldBelow int  // TestOldDatabase: heights below this one are stored as the code before 83d442d stored them
}

// report: a deviation of the real code from the specification.  In an old-database run the as-implemented instance
// of the specification describes what the repaired code does with records it did not write itself ("as before":
// the hash-addressed records, with the priorities and the prune rule they always had); a deviation it predicts is
// the accepted state of such a database and only counted, one it does not predict is reported.
func (rp *replayer) report(sig, text string, detail interface{}) {
	if rp.oldBelow > 0 && !strings.HasSuffix(sig, ":unexplained") {
		for _, why := range []string{":key-collision", ":pruned-record", ":as-implemented", ":genesis-join", ":no-state-record"} {
			if strings.HasSuffix(sig, why) {
				rp.res.Add("olddb_as_before"+why, 1)
				return
			}
		}
	}
	if rp.oldBelow > 0 {
		sig = strings.Replace(sig, "cstore:", "cstore:olddb:", 1)
		text = fmt.Sprintf("[database written by the code before the per-height records up to height %d] %s", rp.oldBelow-1, text)
	}
	rp.res.Mismatch(sig, text, detail)
}

// expressible: can the history be produced through ApplyBlock (no rejected change set, no change that leaves
// the power as it is — calculateValidatorSetUpdates would drop it)?
func expressible(initP []int64, steps []step) bool {
	mem := map[int]int64{}
	for i, p := range initP {
		mem[i+1] = p
	}
	for _, s := range steps {
		if s.op != "a" {
			continue
		}
		if s.res != "ok" || s.params > 1 {
			return false
		}
		for _, c := range s.chs {
			if old, ok := mem[c.A]; (ok && old == c.P) || (!ok && c.P == 0) {
				return false
			}
			if c.P == 0 {
				delete(mem, c.A)
			} else {
				mem[c.A] = c.P
			}
		}
	}
	return true
}

func (rp *replayer) one(n int, raw []byte) {
	res := rp.res
	var l line
	if err := json.Unmarshal(raw, &l); err != nil {
		res.Mismatch("infra:parse", err.Error(), string(raw))
		return
	}
	steps := make([]step, len(l.H))
	for i, r := range l.H {
		s, err := parseStep(r)
		if err != nil {
			res.Mismatch("infra:parse-step", err.Error(), string(raw))
			return
		}
		steps[i] = s
	}
	want, err := parseFlatState(l.S)
	if err != nil {
		res.Mismatch("infra:parse-state", err.Error(), string(raw))
		return
	}
	detail := map[string]interface{}{"init_powers": rp.initP, "history": l.H, "seed": mbt.Seed(), "line": n}
	if rp.viaExec && !expressible(rp.initP, steps) {
		res.Add("skipped_not_expressible_through_ApplyBlock", 1)
		return
	}
	w, err := newWorldU(rp.initP, 1, 1, rp.oldBelow)
	if err != nil {
		res.Mismatch("infra:genesis", err.Error(), detail)
		return
	}
	if rp.viaExec {
		w.enableExecutor()
		detail["path"] = "BlockExecutor.ApplyBlock"
	}
	rnd := uint64(mbt.Seed())*2654435761 + uint64(n)*40503
	for k, s := range steps {
		// a restart (new store object over the same database) may happen between any two steps
		rnd = rnd*6364136223846793005 + 1442695040888963407
		if (rnd>>33)%3 == 0 {
			w.restart()
		}
		switch s.op {
		case "a":
			entitled := membersRepr(w.cur.LastValidators) // the set that signed the head block
			got := w.applyP(s.chs, s.params)
			wantRes := "ok"
			if s.res != "ok" {
				wantRes = "err"
			}
			if rp.viaExec {
				if got != "ok" {
					// on the unchanged tree this happens when PruneState has removed the record LoadValidators(head) needs
					kind := strings.SplitN(got, ":", 2)[0]
					res.Mismatch("cstore:applyblock:"+kind+":"+rangeClass(steps[:k], int(w.cur.LastBlockHeight)),
						fmt.Sprintf("step %d of %s: the real ApplyBlock of a valid block %d on top of the running state fails: %s", k+1, histText(l.H), w.cur.LastBlockHeight+1, got), detail)
					return
				}
				if h := int(w.cur.LastBlockHeight); h > 1 {
					if ci := commitInfoRepr(w.app.lastInfo); ci != entitled {
						res.Mismatch("cstore:applyblock:commitinfo", fmt.Sprintf("block %d: the application was told that %s signed height %d (LoadValidators), entitled were %s", h, ci, h-1, entitled), detail)
					}
				}
			}
			if got != wantRes {
				res.Mismatch("cstore:updatestate:result:"+s.res+"->"+strings.SplitN(got, ":", 2)[0],
					fmt.Sprintf("block %d with validator updates %v: real updateState %s, specified %s (%s)", w.cur.LastBlockHeight+1, s.chs, got, wantRes, s.res),
					detail)
				return
			}
		case "p":
			if rp.storeless {
				continue
			}
			got, cnt := w.prune(s.from, s.to)
			if got != "ok" {
				res.Mismatch("cstore:prune:panic", fmt.Sprintf("step %d: PruneState(%d,%d) %s", k+1, s.from, s.to, got), detail)
				return
			}
			if int(cnt) != s.n {
				res.Add("lockstep_prune_count_diffs", 1) // the statement does not fix what PruneState reports
			}
		}
	}
	res.Count(1)
	cls := scriptClasses(rp.initP, steps)
	for c := range cls {
		res.Add("script:"+c, 1)
	}
	if cls["prune"] || cls["power-only-change"] || cls["return-to-earlier-membership"] || cls["consecutive-changes"] || cls["removal-of-next-proposer"] || len(cls) > 1 {
		res.Distinct(histText(l.H))
	}

	// (1) the chain state: what updateState produced against the specification's UpdateState
	got := w.abstract(&w.cur)
	pd, ld := diffStates(got, want)
	for _, d := range pd {
		sig := "cstore:updatestate:" + d.field + ":" + d.aspect
		res.Mismatch(sig, fmt.Sprintf("after %s the real chain state has %s = %s, the specification (Increment(Update(NextValidators)), rotation of the three sets) %s",
			histText(l.H), d.field, d.got, d.want), detail)
	}
	for _, d := range ld {
		if d.field == "LastHeightValidatorsChanged" { // updateState's own bookkeeping: part of what C12/C14 fix for the transition
			res.Mismatch("cstore:updatestate:"+d.field, fmt.Sprintf("after %s real %s = %s, specified %s", histText(l.H), d.field, d.got, d.want), detail)
		} else {
			res.Add("lockstep_"+d.field+"_diffs", 1)
		}
	}
	if rp.storeless {
		return
	}
	if len(pd) > 0 {
		return // the saved states already differ: the store comparison would only repeat it
	}
	if n%1499 == 1 {
		res.Sample(map[string]interface{}{"init_powers": rp.initP, "history": l.H, "expected_state": l.S, "expected_reads": l.O})
	}

	// (2) restart, then every read call
	w.restart()
	head := int(w.cur.LastBlockHeight)
	rp.checkLoad(w, &l, steps, want, detail)
	rp.checkLoadAt(w, &l, steps, head, detail)
	rp.checkLoadValidators(w, &l, steps, head, detail)
	rp.checkLoadParams(w, &l, steps, head, detail)
	rp.checkNeverSaved(w, "", l.H, detail)

	// (3) the same TLC-chosen history at a large scale (powers * (2^40 + 12345): priorities around 2^43, where the
	// specification's 32-bit integers cannot follow): no expected values, but whatever a read returns must be a
	// validator set that WAS saved — a codec that loses or alters a priority, a power or the proposer yields a value
	// that never was.
	if n%shadowStride == 0 && !rp.viaExec && rp.oldBelow == 0 {
		rp.shadow(steps, l.H, detail)
	}
}

const shadowStride = 4
const shadowUnit = int64(1)<<40 + 12345

func (rp *replayer) shadow(steps []step, hist []json.RawMessage, detail interface{}) {
	w, err := newWorldU(rp.initP, 1, shadowUnit, 0)
	if err != nil {
		rp.res.Mismatch("infra:genesis-scaled", err.Error(), detail)
		return
	}
	for _, s := range steps {
		switch s.op {
		case "a":
			got := w.applyP(s.chs, s.params)
			if (got == "ok") != (s.res == "ok") {
				rp.res.Add("lockstep_scaled_result_differs", 1) // validity of a change set is scale-invariant below the cap
				return
			}
		case "p":
			w.prune(s.from, s.to)
		}
	}
	w.restart()
	rp.res.Add("scaled_shadow_runs", 1)
	rp.checkNeverSaved(w, "scaled:", hist, detail)
}

// checkNeverSaved: every validator set a read call returns is, value for value (members, powers, priorities,
// proposer), one of the sets that were handed to Save.  (Which one is the business of the other checks.)
func (rp *replayer) checkNeverSaved(w *world, pfx string, hist []json.RawMessage, detail interface{}) {
	saved := map[string]bool{}
	for i := range w.chain {
		saved[setRepr(w.chain[i].LastValidators)] = true
		saved[setRepr(w.chain[i].Validators)] = true
		saved[setRepr(w.chain[i].NextValidators)] = true
	}
	head := int(w.cur.LastBlockHeight)
	if l := w.loadHeadRaw(); l != nil {
		for _, f := range []struct {
			name string
			vs   *types.ValidatorSet
		}{{"LastValidators", l.LastValidators}, {"Validators", l.Validators}, {"NextValidators", l.NextValidators}} {
			if r := setRepr(f.vs); !saved[r] {
				rp.res.Mismatch("cstore:"+pfx+"load:"+f.name+":never-saved-value",
					fmt.Sprintf("after %s (voting power unit %d) Load() returns %s = %s, which is none of the sets that were saved", histText(hist), w.unit, f.name, r), detail)
			}
			if f.vs != nil {
				var sum int64
				for _, v := range f.vs.Validators {
					sum += v.VotingPower
				}
				if f.vs.TotalVotingPower() != sum {
					rp.res.Mismatch("cstore:"+pfx+"load:"+f.name+":total-voting-power",
						fmt.Sprintf("after %s (unit %d) the loaded %s reports TotalVotingPower %d, its members sum to %d", histText(hist), w.unit, f.name, f.vs.TotalVotingPower(), sum), detail)
				}
			}
		}
	}
	for h := 1; h <= head; h++ {
		if class, full, _ := w.loadValidators(h); class == "ok" && !saved[full] {
			rp.res.Mismatch("cstore:"+pfx+"loadvalidators:never-saved-value",
				fmt.Sprintf("after %s (voting power unit %d) LoadValidators(%d) returns %s, which is none of the sets that were saved", histText(hist), w.unit, h, full), detail)
		}
	}
}

// loadHeadRaw: Load() as is (nil when it panics or reports the empty state).
func (w *world) loadHeadRaw() (st *cstate.LatestBlockState) {
	defer func() {
		if recover() != nil {
			st = nil
		}
	}()
	s := w.store.Load()
	if s.IsEmpty() {
		return nil
	}
	return &s
}

func histText(h []json.RawMessage) string {
	parts := make([]string, len(h))
	for i, r := range h {
		parts[i] = string(r)
	}
	return "history " + strings.Join(parts, " ")
}

// expectation of a component under the as-implemented instance: x if present, else o
func pick(o, x json.RawMessage) json.RawMessage {
	if len(x) == 0 || string(x) == "0" {
		return o
	}
	return x
}

func parseLd(raw json.RawMessage, same absState) (class string, st absState, err error) {
	var parts []json.RawMessage
	if err = json.Unmarshal(raw, &parts); err != nil {
		return
	}
	if err = json.Unmarshal(parts[0], &class); err != nil {
		return
	}
	if class != "ok" {
		return
	}
	var fs []json.RawMessage
	if err = json.Unmarshal(parts[1], &fs); err != nil {
		return
	}
	if len(fs) == 0 {
		return class, same, nil
	}
	st, err = parseFlatState(fs)
	return
}

func (rp *replayer) checkLoad(w *world, l *line, steps []step, cur absState, detail interface{}) {
	res := rp.res
	wantC, wantS, err := parseLd(l.O.Ld, cur)
	implC, implS, err2 := parseLd(pick(l.O.Ld, l.X.Ld), cur)
	if err != nil || err2 != nil {
		rp.report("infra:parse-ld", fmt.Sprint(err, err2), detail)
		return
	}
	got := w.loadHead()
	head := cur.H
	if got.class != wantC {
		why := "unexplained"
		if got.class == implC {
			why = "pruned-record"
		}
		rp.report("cstore:load:"+got.class+":"+rangeClass(steps, head)+":"+why,
			fmt.Sprintf("after %s and a restart, Load() at head %d: real %s (%s), specified %s", histText(l.H), head, got.class, got.msg, wantC), detail)
		return
	}
	if got.class != "ok" {
		return
	}
	pd, ld := diffStates(got.st, wantS)
	for _, d := range pd {
		why := "unexplained"
		if implC == "ok" {
			// does the as-implemented instance predict exactly the value the real store returned for this field?
			id, _ := diffStates(got.st, implS)
			explained := true
			for _, e := range id {
				if e.field == d.field {
					explained = false
				}
			}
			if explained {
				switch {
				case d.aspect == "priorities" || d.aspect == "proposer":
					why = "key-collision"
				case head == 0 && (d.field == "LastBlockID" || d.field == "AppHash"):
					why = "genesis-join"
				default:
					why = "as-implemented"
				}
			}
		}
		rp.report("cstore:load:"+d.field+":"+d.aspect+":"+why,
			fmt.Sprintf("after %s and a restart, Load() at head %d returns %s = %s, saved was %s", histText(l.H), head, d.field, d.got, d.want), detail)
	}
	for _, d := range ld {
		res.Add("lockstep_load_"+d.field+"_diffs", 1)
	}
}

func parseInts(raw json.RawMessage) []int {
	var v []int
	json.Unmarshal(raw, &v)
	return v
}

// bit of a field in the difference masks of the specification (MC_CStateStore!DiffMask)
var maskBit = map[string]int{"LastValidators": 1, "Validators": 2, "NextValidators": 4, "LastHeightValidatorsChanged": 8,
	"LastBlockID": 16, "AppHash": 32, "LastBlockTime": 64, "ConsensusParams": 128, "LastHeightConsensusParamsChanged": 256, "InitialHeight": 512}

// loadRewound: Load() after the head pointer has been moved back to block h — what a restart finds after the
// chain's head repair (NewBlockChain rewinds the head to the last block whose state is on disk).
func (w *world) loadRewound(h int) loadRes {
	rawdb.WriteHeadBlockHash(w.db, w.blocks[h].Hash())
	defer rawdb.WriteHeadBlockHash(w.db, w.blocks[len(w.blocks)-1].Hash())
	return w.loadHead()
}

// checkLoadAt: every height 0..head+1.  Below the head the state is loaded through the public path after a head
// rewind; the specification says: exactly the state that was saved for that height, whatever was saved or pruned
// afterwards (code 10), nothing for a pruned height (0).
func (rp *replayer) checkLoadAt(w *world, l *line, steps []step, head int, detail interface{}) {
	res := rp.res
	want := parseInts(l.O.La)
	impl := parseInts(pick(l.O.La, l.X.La))
	for h := 0; h <= head+1 && h < len(want); h++ {
		var got loadRes
		if h < len(w.blocks) {
			got = w.loadRewound(h)
		} else {
			got = w.loadAt(h)
		}
		switch {
		case want[h] >= 10 && got.class == "panic":
			why := "unexplained"
			if impl[h] == 2 {
				why = "pruned-record"
			}
			rp.report("cstore:prune:kept-state-unloadable:"+rangeClass(steps, h)+":"+why,
				fmt.Sprintf("after %s the per-height record of height %d is kept but loading it panics (%s): a record it refers to is gone", histText(l.H), h, got.msg), detail)
		case want[h] >= 10 && got.class == "none":
			rp.report("cstore:prune:kept-state-removed:"+rangeClass(steps, h),
				fmt.Sprintf("after %s the per-height record of height %d is gone although no prune range covers it", histText(l.H), h), detail)
		case want[h] >= 10 && h < head:
			// (the head itself is compared value by value in checkLoad)
			pd, ld := diffStates(got.st, w.abstract(&w.chain[h]))
			realMask := 0
			for _, d := range append(pd, ld...) {
				realMask |= maskBit[d.field]
			}
			for _, d := range pd {
				why := "unexplained"
				if impl[h] >= 10 && (impl[h]-10)&maskBit[d.field] != 0 {
					switch {
					case d.aspect == "priorities" || d.aspect == "proposer":
						why = "key-collision"
					case h == 0 && (d.field == "LastBlockID" || d.field == "AppHash"):
						why = "genesis-join"
					default:
						why = "as-implemented"
					}
				}
				rp.report("cstore:rewind:load:"+d.field+":"+d.aspect+":"+why,
					fmt.Sprintf("after %s, the head rewound to block %d and a restart, Load() returns %s = %s, saved for height %d was %s", histText(l.H), h, d.field, d.got, h, d.want), detail)
			}
			for _, d := range ld {
				res.Add("lockstep_rewind_"+d.field+"_diffs", 1)
			}
			if impl[h] >= 10 && realMask != impl[h]-10 {
				res.Add("lockstep_rewind_mask_differs_from_as_implemented_model", 1)
			}
		case want[h] == 0 && got.class != "none":
			res.Add("lockstep_pruned_state_still_present", 1)
		}
	}
}

type lvExp struct {
	ok    bool
	mem   string
	exact bool
}

func parseLv(raw json.RawMessage) []lvExp {
	var items [][]json.RawMessage
	json.Unmarshal(raw, &items)
	out := make([]lvExp, len(items))
	for i, it := range items {
		var c, e int
		json.Unmarshal(it[0], &c)
		json.Unmarshal(it[2], &e)
		out[i] = lvExp{ok: c == 1, mem: flatMemRepr(it[1]), exact: e == 1}
	}
	return out
}

func (rp *replayer) checkLoadValidators(w *world, l *line, steps []step, head int, detail interface{}) {
	res := rp.res
	want := parseLv(l.O.Lv)
	impl := parseLv(pick(l.O.Lv, l.X.Lv))
	for h := 0; h <= head+1 && h < len(want); h++ {
		class, full, msg := w.loadValidators(h)
		rc := rangeClass(steps, h)
		if class == "panic" {
			rp.report("cstore:loadvalidators:panic:"+rc, fmt.Sprintf("after %s LoadValidators(%d) panics: %s", histText(l.H), h, msg), detail)
			continue
		}
		switch {
		case want[h].ok && class != "ok":
			why := "unexplained"
			if !impl[h].ok {
				why = "pruned-record"
			}
			rp.report("cstore:loadvalidators:missing:"+rc+":"+why,
				fmt.Sprintf("after %s the state of height %d is kept but LoadValidators(%d) fails (%s); entitled to sign it: %s", histText(l.H), h, h, msg, want[h].mem), detail)
		case want[h].ok && class == "ok":
			mem, _, _ := splitRepr(full)
			if mem != want[h].mem {
				why := "unexplained"
				if impl[h].ok && impl[h].mem == mem {
					why = "as-implemented"
				}
				rp.report("cstore:loadvalidators:members:"+why,
					fmt.Sprintf("after %s LoadValidators(%d) returns %s, entitled to sign height %d: %s", histText(l.H), h, mem, h, want[h].mem), detail)
			} else if full != setRepr(w.chain[h].LastValidators) {
				// right members and powers, other priorities/proposer than the set saved for that height: the statement
				// asks for "the set entitled to sign", which members and powers decide; counted only
				res.Add("info_loadvalidators_priorities_differ", 1)
			}
		case !want[h].ok && class == "ok":
			res.Add("lockstep_loadvalidators_answers_unknown_height", 1)
		}
	}
}

func (rp *replayer) checkLoadParams(w *world, l *line, steps []step, head int, detail interface{}) {
	res := rp.res
	want := parseInts(l.O.Lp)
	impl := parseInts(pick(l.O.Lp, l.X.Lp))
	for h := 0; h <= head+1 && h < len(want); h++ {
		got, msg := w.loadParams(h)
		if got == want[h] {
			continue
		}
		why := "unexplained"
		if got == impl[h] {
			why = "as-implemented"
		}
		switch {
		case got == -1 && want[h] == 0:
			if why != "unexplained" {
				why = "no-state-record"
			}
			rp.report("cstore:loadparams:panic:"+why,
				fmt.Sprintf("after %s LoadConsensusParams(%d) for a height without a stored state panics (%s) instead of returning an error", histText(l.H), h, msg), detail)
		case got == -1:
			rp.report("cstore:loadparams:panic:kept-height:"+why, fmt.Sprintf("after %s LoadConsensusParams(%d) panics: %s", histText(l.H), h, msg), detail)
		case want[h] > 0 && got == 0:
			rp.report("cstore:loadparams:missing:"+rangeClass(steps, h)+":"+why,
				fmt.Sprintf("after %s LoadConsensusParams(%d) fails (%s), saved for that height: params #%d", histText(l.H), h, msg, want[h]), detail)
		case want[h] > 0:
			rp.report("cstore:loadparams:value:"+why,
				fmt.Sprintf("after %s LoadConsensusParams(%d) returns params #%d, saved for that height: #%d", histText(l.H), h, got, want[h]), detail)
		default:
			res.Add("lockstep_loadparams_answers_unknown_height", 1)
		}
	}
}

func runReplay(t *testing.T, storeless bool) {
	res := mbt.NewResult()
	defer res.Write()
	rp := &replayer{res: res, initP: parseInit(), storeless: storeless, oldBelow: mbt.EnvInt("CSTORE_OLD_BELOW", 0)}
	if len(rp.initP) == 0 {
		res.Mismatch("infra:env", "CSTORE_INIT not set", nil)
		return
	}
	sent, err := mbt.EachLine(os.Getenv("CSTORE_DUMP"), mbt.EnvInt("CSTORE_WORKERS", 0), mbt.EnvInt("CSTORE_LIMIT", 0),
		mbt.EnvInt("CSTORE_STRIDE", 1), mbt.Seed(), rp.one)
	if err != nil {
		res.Mismatch("infra:read", err.Error(), nil)
	}
	if sent == 0 {
		res.Mismatch("infra:empty-dump", "no dump lines in "+os.Getenv("CSTORE_DUMP"), nil)
	}
	res.Behaviours = sent
}

// TestReplay: property C14 (and the updateState clause of C12) against a dump of MC_CStateStore.
// env: CSTORE_DUMP (TLC output), CSTORE_INIT (genesis powers "1,1,1"), optional CSTORE_STRIDE / CSTORE_LIMIT.
func TestReplay(t *testing.T) { runReplay(t, false) }

// TestOldDatabase = TestReplay with CSTORE_OLD_BELOW=k (set by checks/C14.py) against a dump whose as-implemented
// instance has UpgradeAt = k.

// TestUpdateState: only the chain of states (real updateState against Increment(Update(NextValidators)) of
// ValidatorSet.tla); same env.  For checks/C12.py.
func TestUpdateState(t *testing.T) { runReplay(t, true) }
