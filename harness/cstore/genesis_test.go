//go:build verif

// genesis_test.go: the first transition of MC_CStateStore (Start: an empty database, the genesis state is
// made and saved; history <<>>) on the REAL start-up path of mainchain/backend.go: blockchain.NewBlockChain
// commits the real genesis block (staking contract, real state root), LoadStateFromDBOrGenesisDoc makes and
// saves the genesis consensus state; the process "restarts" (new chain and store objects over the same
// database) and LoadStateFromDBOrGenesisDoc now loads.  As specified the second state equals the first.
package cstore

import (
	"fmt"
	"math/big"
	"sync"
	"testing"
	"time"

	"github.com/kardiachain/go-kardia/configs"
	"github.com/kardiachain/go-kardia/kai/kaidb/memorydb"
	"github.com/kardiachain/go-kardia/kai/state/cstate"
	"github.com/kardiachain/go-kardia/mainchain/blockchain"
	"github.com/kardiachain/go-kardia/mainchain/genesis"
	"github.com/kardiachain/go-kardia/types"

	"verifharness/internal/mbt"
)

var contractsOnce sync.Once

// realGenesis: a genesis document shaped like deployment/local/genesis_devnet.yaml (funded accounts, genesis
// contracts incl. staking, named validators that start with genesis) for the validators of the current book.
func realGenesis(powers []int64) *genesis.Genesis {
	contractsOnce.Do(func() {
		configs.AddDefaultContract()
		for key, c := range configs.GetContracts() {
			configs.LoadGenesisContract(key, c.Address, c.ByteCode, c.ABI)
		}
	})
	amount, _ := big.NewInt(0).SetString("1000000000000000000000000000000", 10)
	accts := map[string]*big.Int{}
	for i := range powers {
		accts[addr(i+1).Hex()] = amount
	}
	gc := map[string]string{}
	for key, c := range configs.GetContracts() {
		if key != configs.StakingContractKey {
			gc[c.Address] = c.ByteCode
		}
	}
	g := genesis.DefaulTestnetFullGenesisBlock(accts, gc)
	g.Timestamp = time.Unix(1700000000, 0)
	g.ChainID = chainID
	for i, p := range powers {
		unit, _ := new(big.Int).SetString("12500000000000000000000000", 10) // the self-delegation of the devnet validators
		tokens := new(big.Int).Mul(big.NewInt(p), unit)
		g.Validators = append(g.Validators, &genesis.GenesisValidator{
			Name: fmt.Sprintf("val%d", i+1), Address: addr(i + 1).Hex(), CommissionRate: "100000000000000000", MaxRate: "250000000000000000",
			MaxChangeRate: "50000000000000000", SelfDelegate: tokens.String(), StartWithGenesis: true,
		})
	}
	return g
}

// TestGenesisRestart: no env.  Sigs as in TestReplay (cstore:load:<field>:<aspect>:<cause>).
func TestGenesisRestart(t *testing.T) {
	res := mbt.NewResult()
	defer res.Write()
	theBook = keyBook(4)
	for _, powers := range [][]int64{{1, 1, 1}, {3, 2, 1}, {1, 1, 1, 1}, {5}} {
		func() {
			detail := map[string]interface{}{"genesis_self_delegation_x_12.5M_KAI": powers, "path": "blockchain.NewBlockChain + LoadStateFromDBOrGenesisDoc, twice over one database"}
			defer func() {
				if r := recover(); r != nil {
					res.Mismatch("cstore:load:panic:genesis:unexplained", fmt.Sprintf("restart at genesis (powers %v): panic %v", powers, r), detail)
				}
			}()
			db := memorydb.New()
			g := realGenesis(powers)
			bc, err := blockchain.NewBlockChain(db, nil, g)
			if err != nil {
				res.Mismatch("infra:genesis-chain", err.Error(), detail)
				return
			}
			saved, err := cstate.NewStore(db).LoadStateFromDBOrGenesisDoc(g) // first start: made and saved
			if err != nil {
				res.Mismatch("infra:genesis-state", err.Error(), detail)
				return
			}
			genesisBlock := bc.CurrentBlock()
			bc.Stop()
			bc2, err := blockchain.NewBlockChain(db, nil, realGenesis(powers)) // second start
			if err != nil {
				res.Mismatch("infra:genesis-chain-restart", err.Error(), detail)
				return
			}
			defer bc2.Stop()
			loaded, err := cstate.NewStore(db).LoadStateFromDBOrGenesisDoc(realGenesis(powers))
			if err != nil {
				res.Mismatch("infra:genesis-state-restart", err.Error(), detail)
				return
			}
			res.Count(1)
			res.Distinct(fmt.Sprint("genesis-restart", powers))
			cmp := func(field string, got, want *types.ValidatorSet) {
				g, w := setRepr(got), setRepr(want)
				if g == w {
					return
				}
				gm, gp, _ := splitRepr(g)
				wm, wp, _ := splitRepr(w)
				aspect := "proposer"
				if gm != wm {
					aspect = "members"
				} else if gp != wp {
					aspect = "priorities"
				}
				why := "unexplained"
				if aspect != "members" && g == setRepr(saved.NextValidators) {
					why = "key-collision" // the record under Hash(members, powers) holds the set that was written last
				}
				res.Mismatch("cstore:load:"+field+":"+aspect+":"+why,
					fmt.Sprintf("real genesis (self-delegations %v x 12.5M KAI), restart before the first block: Load() returns %s = %s, saved was %s", powers, field, g, w), detail)
			}
			cmp("LastValidators", loaded.LastValidators, saved.LastValidators)
			cmp("Validators", loaded.Validators, saved.Validators)
			cmp("NextValidators", loaded.NextValidators, saved.NextValidators)
			if !loaded.LastBlockID.Equal(saved.LastBlockID) {
				why := "unexplained"
				if loaded.LastBlockID.Hash == genesisBlock.Hash() {
					why = "genesis-join"
				}
				res.Mismatch("cstore:load:LastBlockID:value:"+why, fmt.Sprintf("real genesis, restart before the first block: Load() returns LastBlockID %v, saved was %v (block 1 must carry the saved one)", loaded.LastBlockID, saved.LastBlockID), detail)
			}
			if loaded.AppHash != saved.AppHash {
				why := "unexplained"
				if loaded.AppHash == genesisBlock.AppHash() {
					why = "genesis-join"
				}
				res.Mismatch("cstore:load:AppHash:value:"+why, fmt.Sprintf("real genesis, restart before the first block: Load() returns AppHash %x, saved was %x", loaded.AppHash, saved.AppHash), detail)
			}
			if !loaded.LastBlockTime.Equal(saved.LastBlockTime) {
				res.Mismatch("cstore:load:LastBlockTime:value:unexplained", fmt.Sprintf("real genesis restart: LastBlockTime %v, saved %v", loaded.LastBlockTime, saved.LastBlockTime), detail)
			}
			if !loaded.ConsensusParams.Equal(&saved.ConsensusParams) {
				res.Mismatch("cstore:load:ConsensusParams:value:unexplained", "real genesis restart: consensus params differ", detail)
			}
			if loaded.LastBlockHeight != saved.LastBlockHeight || loaded.ChainID != saved.ChainID || loaded.InitialHeight != saved.InitialHeight {
				res.Mismatch("cstore:load:LastBlockHeight:value:unexplained", fmt.Sprintf("real genesis restart: height/chain/initial height %d/%s/%d, saved %d/%s/%d",
					loaded.LastBlockHeight, loaded.ChainID, loaded.InitialHeight, saved.LastBlockHeight, saved.ChainID, saved.InitialHeight), detail)
			}
			if loaded.LastHeightValidatorsChanged != saved.LastHeightValidatorsChanged || loaded.LastHeightConsensusParamsChanged != saved.LastHeightConsensusParamsChanged {
				res.Add("lockstep_genesis_lastheightchanged_diffs", 1)
			}
		}()
	}
	res.Behaviours = res.Evaluations
}
