//go:build verif

package cstore

import (
	"fmt"
	"os"
	"testing"

	"github.com/kardiachain/go-kardia/kai/state/cstate"
)

func safeLoad(s cstate.Store) (st cstate.LatestBlockState, res string) {
	defer func() {
		if r := recover(); r != nil {
			res = fmt.Sprint("PANIC: ", r)
		}
	}()
	return s.Load(), "ok"
}

// TestProbe is a development aid (CSTORE_PROBE=1): prints what the real store does on a few hand-made chains.
func TestProbe(t *testing.T) {
	if os.Getenv("CSTORE_PROBE") == "" {
		t.Skip()
	}
	w, err := newWorld([]int64{1, 1, 1}, 1)
	if err != nil {
		t.Fatal(err)
	}
	show := func(tag string) {
		w.restart()
		st, res := safeLoad(w.store)
		fmt.Printf("%s: head=%d load=%s\n", tag, w.cur.LastBlockHeight, res)
		if res == "ok" && !st.IsEmpty() {
			s := w.chain[len(w.chain)-1]
			fmt.Printf("   saved  L=%s V=%s N=%s lhvc=%d lhpc=%d\n", setRepr(s.LastValidators), setRepr(s.Validators), setRepr(s.NextValidators), s.LastHeightValidatorsChanged, s.LastHeightConsensusParamsChanged)
			fmt.Printf("   loaded L=%s V=%s N=%s lhvc=%d lhpc=%d bid=%v time=%v app=%v ih=%d chain=%s\n", setRepr(st.LastValidators), setRepr(st.Validators), setRepr(st.NextValidators), st.LastHeightValidatorsChanged, st.LastHeightConsensusParamsChanged,
				st.LastBlockID.Equal(s.LastBlockID), st.LastBlockTime.Equal(s.LastBlockTime), st.AppHash == s.AppHash, st.InitialHeight, st.ChainID)
		}
		for h := 0; h <= int(w.cur.LastBlockHeight)+1; h++ {
			func() {
				defer func() {
					if r := recover(); r != nil {
						fmt.Printf("   LoadValidators(%d) PANIC %v\n", h, r)
					}
				}()
				vs, err := w.store.LoadValidators(uint64(h))
				fmt.Printf("   LoadValidators(%d) = %s err=%v\n", h, setRepr(vs), err)
			}()
			func() {
				defer func() {
					if r := recover(); r != nil {
						fmt.Printf("   LoadConsensusParams(%d) PANIC %v\n", h, r)
					}
				}()
				p, err := w.store.LoadConsensusParams(uint64(h))
				fmt.Printf("   LoadConsensusParams(%d) = %v err=%v\n", h, p.Block.MaxBytes, err)
			}()
		}
	}
	show("genesis")
	fmt.Println(w.apply(nil))
	show("h1 static")
	fmt.Println(w.apply([]change{{1, 5}})) // block 2: set A effective at height 4
	fmt.Println(w.apply([]change{{1, 1}})) // block 3: back to G... (effective 5)
	show("h3")
	fmt.Println(w.apply([]change{{4, 0}})) // unknown removal
	fmt.Println(w.apply([]change{{1, 0}, {2, 0}, {3, 0}}))
	// ABA: G at 1,2 ; A at 3 ; B at 4,5,6 ; A at 7
	w, _ = newWorld([]int64{1, 1, 1}, 1)
	fmt.Println(w.apply([]change{{1, 5}})) // block 1 -> set for h3 = A
	fmt.Println(w.apply([]change{{1, 7}})) // block 2 -> set for h4 = B
	fmt.Println(w.apply(nil))              // h5 = B
	fmt.Println(w.apply(nil))              // h6 = B
	fmt.Println(w.apply([]change{{1, 5}})) // block 5 -> h7 = A
	show("ABA before prune")
	fmt.Println(w.prune(1, 4))
	show("ABA after prune [1,4)")
	// params collision
	w, _ = newWorld([]int64{2, 1}, 1)
	w.apply(nil)
	st := w.cur
	fmt.Println(w.apply(nil))
	// overwrite state 2 with changed params (a future params-changing block)
	st2 := w.cur.Copy()
	st2.ConsensusParams = paramsOf(2)
	w.store.Save(st2)
	_ = st
	show("params changed at h2")
}
