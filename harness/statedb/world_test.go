// Package statedb binds specs/statedb (StateDB.tla) to the real kai/state.StateDB (property C08).
//
// world_test.go: the real objects one behaviour is replayed into (database, optional snapshot
// tree, current + parked StateDB), the concretisation of abstract values, the execution of one
// abstract action on the real code and the projection of the real state onto the observables
// of the specification.
package statedb

import (
	"bytes"
	"encoding/json"
	"fmt"
	"math/big"
	"sort"

	"github.com/kardiachain/go-kardia/kai/kaidb/memorydb"
	"github.com/kardiachain/go-kardia/kai/state"
	"github.com/kardiachain/go-kardia/kai/state/snapshot"
	"github.com/kardiachain/go-kardia/lib/common"
	"github.com/kardiachain/go-kardia/lib/crypto"
	"github.com/kardiachain/go-kardia/types"
)

// ---------------------------------------------------------------- specification side (JSON)

type obsA struct {
	E  bool   `json:"e"`  // Exist
	M  bool   `json:"m"`  // Empty
	B  int    `json:"b"`  // balance
	N  int    `json:"n"`  // nonce
	C  int    `json:"c"`  // code id
	S  []int  `json:"s"`  // GetState per slot
	Cs []int  `json:"cs"` // GetCommittedState per slot
	Su bool   `json:"su"` // HasSuicided
	G  []bool `json:"g"`  // mechanism marks: dirty, pend, sd, dstr, del
}

// leaf of the account trie: <<present, bal, nonce, code, storage>>
type leaf struct {
	P              bool
	Bal, Nonce, Co int
	St             []int
}

func (l *leaf) UnmarshalJSON(b []byte) error {
	var parts []json.RawMessage
	if err := json.Unmarshal(b, &parts); err != nil {
		return err
	}
	if len(parts) != 5 {
		return fmt.Errorf("leaf with %d parts", len(parts))
	}
	for i, dst := range []interface{}{&l.P, &l.Bal, &l.Nonce, &l.Co, &l.St} {
		if err := json.Unmarshal(parts[i], dst); err != nil {
			return err
		}
	}
	return nil
}

type obsD struct {
	A   []obsA   `json:"a"`
	R   int      `json:"r"`
	J   bool     `json:"j"`
	L   [][]int  `json:"l"`
	Tx  int      `json:"tx"`
	Al  []bool   `json:"al"`
	As  [][]bool `json:"as"`
	Ts  [][]int  `json:"ts"`
	Pre []int    `json:"pre"`
	Ns  int      `json:"ns"`
	Tr  []leaf   `json:"tr"`
	Sl  bool     `json:"sl"` // mark: reads through a snapshot layer (if a tree is attached)
	Ld  []bool   `json:"ld"` // mark: address fully read on this StateDB
	Sq  []bool   `json:"sq"` // mark: StorageTrie called for the address
}

type obsT struct {
	C   obsD   `json:"c"`
	P   []obsD `json:"p"`
	Com []leaf `json:"com"`
}

type action struct {
	Op      string
	X, Y, Z int
	Res     int
}

func (a *action) UnmarshalJSON(b []byte) error {
	var parts []json.RawMessage
	if err := json.Unmarshal(b, &parts); err != nil {
		return err
	}
	if len(parts) < 4 {
		return fmt.Errorf("action with %d parts", len(parts))
	}
	dst := []interface{}{&a.Op, &a.X, &a.Y, &a.Z, &a.Res}
	for i := range parts {
		if i >= len(dst) {
			break
		}
		if err := json.Unmarshal(parts[i], dst[i]); err != nil {
			return err
		}
	}
	return nil
}

func (a action) String() string { return fmt.Sprintf("%s(%d,%d,%d)", a.Op, a.X, a.Y, a.Z) }

func histString(h []action) string {
	var sb bytes.Buffer
	for i, a := range h {
		if i > 0 {
			sb.WriteByte(' ')
		}
		sb.WriteString(a.String())
	}
	return sb.String()
}

// ---------------------------------------------------------------- concretisation

// Snapshot-tree modes a behaviour is replayed in.
const (
	modeTrie = iota // no snapshot tree: every read goes through the tries
	modeDiff        // snapshot tree, diff layers only (as committed)
	modeDisk        // snapshot tree, Cap(root, 0) after every capEvery-th Commit: everything merged into the disk layer
	modeFlat        // snapshot tree, Cap(root, 1) after every capEvery-th Commit: the diff layers below the head flattened into one
	numModes
)

var modeNames = []string{"trie", "snap-diff", "snap-disk", "snap-flat"}

// conc maps abstract values to real ones; variant 1 uses multi-byte quantities (RLP with length
// prefixes, 32-byte storage values, large balances).
type conc struct{ variant int }

func (c conc) addr(i int) common.Address { return common.BytesToAddress([]byte{0xc0, 0x08, byte(i)}) }
func (c conc) slot(k int) common.Hash {
	if c.variant == 1 {
		return crypto.Keccak256Hash([]byte{0x51, byte(k)})
	}
	return common.BytesToHash([]byte{byte(k)})
}
func (c conc) val(v int) common.Hash {
	if v == 0 {
		return common.Hash{}
	}
	if c.variant == 1 {
		h := crypto.Keccak256Hash([]byte{0x7a, byte(v)})
		h[0] |= 0x80 // full 32 bytes, no leading zero to trim
		return h
	}
	return common.BytesToHash([]byte{byte(v)})
}
func (c conc) unval(h common.Hash, max int) int {
	for v := 0; v <= max; v++ {
		if c.val(v) == h {
			return v
		}
	}
	return -1
}
func (c conc) balUnit() *big.Int {
	if c.variant == 1 {
		u, _ := new(big.Int).SetString("1000000000000000000003", 10)
		return u
	}
	return big.NewInt(1)
}
func (c conc) bal(n int) *big.Int { return new(big.Int).Mul(big.NewInt(int64(n)), c.balUnit()) }
func (c conc) unbal(b *big.Int) int {
	q, r := new(big.Int).QuoRem(b, c.balUnit(), new(big.Int))
	if r.Sign() != 0 || !q.IsInt64() {
		return -1
	}
	return int(q.Int64())
}
func (c conc) nonce(n int) uint64 {
	if c.variant == 1 {
		return uint64(n) * 257
	}
	return uint64(n)
}
func (c conc) unnonce(n uint64) int {
	if c.variant == 1 {
		if n%257 != 0 {
			return -1
		}
		return int(n / 257)
	}
	return int(n)
}

var codeBytes = [][]byte{nil, {0x60, 0x00, 0x50}, {0x60, 0x01, 0x60, 0x02, 0x01, 0x50, 0x00}, {0xfe}}

func codeID(b []byte) int {
	if len(b) == 0 {
		return 0
	}
	for i := 1; i < len(codeBytes); i++ {
		if bytes.Equal(codeBytes[i], b) {
			return i
		}
	}
	return -1
}
func txHash(x int) common.Hash {
	if x == 0 {
		return common.Hash{}
	}
	return common.BytesToHash([]byte{0xee, byte(x)})
}
func preHash(p int) common.Hash { return common.BytesToHash([]byte{0xab, byte(p)}) }

var blockHash = common.BytesToHash([]byte{0xb1, 0x0c})

// ---------------------------------------------------------------- the real objects

type sdbh struct {
	s   *state.StateDB
	ids []int // real ids of the open snapshots (the specification addresses them by position)
}

type world struct {
	conc
	mode  int
	mem   *memorydb.Database
	db    state.Database
	snaps *snapshot.Tree
	cur   *sdbh
	park  *sdbh
	root  common.Hash // last committed root
	alt   bool        // use Prepare instead of SetTxContext
	ns    int         // number of slots of the universe (for "rd")
	// flattening policy of modeDisk / modeFlat: Cap after every capEvery-th commit (1, 2 or 3), so that
	// single layers as well as stacks of layers get flattened / written to the disk layer
	capEvery, commits int
	roots             map[common.Hash]int
	// bookkeeping for the evidence
	rootRepeats int
}

func newWorld(mode, variant int) (*world, error) {
	w := &world{conc: conc{variant}, mode: mode, mem: memorydb.New(), root: types.EmptyRootHash, roots: map[common.Hash]int{}}
	w.db = state.NewDatabase(w.mem)
	if mode != modeTrie {
		sn, err := snapshot.New(snapshot.Config{CacheSize: 1}, w.mem, w.db.TrieDB(), types.EmptyRootHash)
		if err != nil {
			return nil, fmt.Errorf("snapshot.New: %v", err)
		}
		w.snaps = sn
	}
	s, err := state.New(types.EmptyRootHash, w.db, w.snaps)
	if err != nil {
		return nil, err
	}
	w.cur = &sdbh{s: s}
	w.roots[w.root] = 1
	return w, nil
}

// close releases the goroutine the snapshot generator of the tree keeps waiting for an abort.
func (w *world) close() {
	if w.snaps != nil {
		func() {
			defer func() { recover() }()
			w.snaps.Disable()
		}()
	}
}

// open returns a fresh StateDB at the last committed root.
func (w *world) open(withSnaps bool) (*state.StateDB, error) {
	var sn *snapshot.Tree
	if withSnaps {
		sn = w.snaps
	}
	return state.New(w.root, w.db, sn)
}

// apply executes one abstract action on the real code.  It returns the result code (Suicide's
// boolean), the root for ir/com, and a non-empty string if the real call panicked or failed.
func (w *world) apply(a action) (res int, root common.Hash, fail string) {
	defer func() {
		if r := recover(); r != nil {
			fail = fmt.Sprintf("panic: %v", r)
		}
	}()
	s := w.cur.s
	switch a.Op {
	case "ab":
		s.AddBalance(w.addr(a.X), w.bal(a.Y))
	case "sb":
		s.SubBalance(w.addr(a.X), w.bal(a.Y))
	case "bal":
		s.SetBalance(w.addr(a.X), w.bal(a.Y))
	case "non":
		s.SetNonce(w.addr(a.X), w.nonce(a.Y))
	case "code":
		s.SetCode(w.addr(a.X), codeBytes[a.Y])
	case "st":
		s.SetState(w.addr(a.X), w.slot(a.Y), w.val(a.Z))
	case "sui":
		if s.Suicide(w.addr(a.X)) {
			res = 1
		}
	case "cre":
		s.CreateAccount(w.addr(a.X))
	case "rf+":
		s.AddRefund(uint64(a.X))
	case "rf-":
		s.SubRefund(uint64(a.X))
	case "log":
		s.AddLog(&types.Log{Address: w.addr(a.X), Topics: []common.Hash{txHash(9)}, Data: []byte{byte(a.X)}})
	case "pre":
		s.AddPreimage(preHash(a.X), []byte{byte(a.X)})
	case "tx":
		if w.alt {
			s.Prepare(txHash(a.X), blockHash, a.X)
		} else {
			s.SetTxContext(txHash(a.X), a.X)
		}
	case "ala":
		s.AddAddressToAccessList(w.addr(a.X))
	case "als":
		s.AddSlotToAccessList(w.addr(a.X), w.slot(a.Y))
	case "ts":
		s.SetTransientState(w.addr(a.X), w.slot(a.Y), w.val(a.Z))
	case "rd":
		res = w.readCode(s, a.X)
	case "stt":
		// StorageTrie: a getter; the returned trie must hold the current slots of the account
		tr, err := s.StorageTrie(w.addr(a.X))
		if err != nil {
			return 0, root, "StorageTrie: " + err.Error()
		}
		if tr != nil {
			digits := []int{1}
			for k := 1; k <= w.ns; k++ {
				b, err := tr.GetStorage(w.addr(a.X), w.slot(k).Bytes())
				if err != nil {
					return 0, root, "StorageTrie().GetStorage: " + err.Error()
				}
				v := w.unval(common.BytesToHash(b), 3)
				if v < 0 {
					v = 3
				}
				digits = append(digits, v)
			}
			for j := len(digits) - 1; j >= 0; j-- {
				res = res*4 + digits[j]
			}
		}
	case "snap":
		w.cur.ids = append(w.cur.ids, s.Snapshot())
	case "rev":
		if a.X < 1 || a.X > len(w.cur.ids) {
			return 0, root, fmt.Sprintf("driver: revert to snapshot %d of %d", a.X, len(w.cur.ids))
		}
		s.RevertToSnapshot(w.cur.ids[a.X-1])
		w.cur.ids = w.cur.ids[:a.X-1]
	case "fin":
		s.Finalise(a.X == 1)
		w.cur.ids = nil
	case "ir":
		root = s.IntermediateRoot(a.X == 1)
		w.cur.ids = nil
	case "com":
		r, err := s.Commit(a.X == 1)
		if err != nil {
			return 0, root, "Commit: " + err.Error()
		}
		root = r
		w.cur.ids = nil
		w.root = r
		w.roots[r]++
		if w.roots[r] > 1 {
			w.rootRepeats++
		}
		w.commits++
		if w.snaps != nil && (w.capEvery <= 1 || w.commits%w.capEvery == 0) {
			switch w.mode {
			case modeDisk:
				w.snaps.Cap(r, 0) // error = already the disk layer / no layer for this root
			case modeFlat:
				// Tree.Cap removes stale layers with a recursion over "children by parent root" that never
				// terminates when a state root repeats among the live layers (A -> B -> A): a fatal stack
				// overflow that cannot be recovered.  Roots repeat all the time in these small universes and
				// never on a chain (account nonces only grow), so no more flattening once a root repeated.
				if w.rootRepeats == 0 {
					w.snaps.Cap(r, 1)
				}
			}
		}
	case "open":
		ns, err := w.open(true)
		if err != nil {
			return 0, root, "state.New: " + err.Error()
		}
		w.cur = &sdbh{s: ns}
	case "copy":
		w.park = w.cur
		w.cur = &sdbh{s: s.Copy()}
	case "swap":
		if w.park == nil {
			return 0, root, "driver: swap without a parked StateDB"
		}
		w.cur, w.park = w.park, w.cur
	default:
		return 0, root, "driver: unknown action " + a.Op
	}
	return res, root, ""
}

// ---------------------------------------------------------------- projection and comparison

// readCode calls every getter of address i and packs what they return the way ReadCode of the
// specification does (base 4: ex, empty, bal, nonce, code, sui, then st / cst per slot); a value
// outside the universe becomes digit 3 of a number that then cannot match.
func (w *world) readCode(s *state.StateDB, i int) int {
	a := w.addr(i)
	b2n := func(b bool) int {
		if b {
			return 1
		}
		return 0
	}
	dig := func(v int) int {
		if v < 0 || v > 3 {
			return 3
		}
		return v
	}
	code := s.GetCode(a)
	cid := codeID(code)
	if s.GetCodeSize(a) != len(code) {
		cid = -1
	}
	digits := []int{b2n(s.Exist(a)), b2n(s.Empty(a)), dig(w.unbal(s.GetBalance(a))), dig(w.unnonce(s.GetNonce(a))), dig(cid), b2n(s.HasSuicided(a))}
	for k := 1; k <= w.ns; k++ {
		digits = append(digits, dig(w.unval(s.GetState(a, w.slot(k)), 3)), dig(w.unval(s.GetCommittedState(a, w.slot(k)), 3)))
	}
	n := 0
	for j := len(digits) - 1; j >= 0; j-- {
		n = n*4 + digits[j]
	}
	return n
}

type diff struct {
	field string // stable name of the observable
	text  string
}

// compareSDB reads every getter of the real StateDB and compares it with the specified
// observation.  marks receives the number of disagreeing mechanism marks (lock-step only).
func (w *world) compareSDB(s *state.StateDB, want *obsD, marks *[8]int) (d *diff) {
	defer func() {
		if r := recover(); r != nil {
			d = &diff{"panic", fmt.Sprintf("getter panicked: %v", r)}
		}
	}()
	na := len(want.A)
	for i := 1; i <= na; i++ {
		a, o := w.addr(i), &want.A[i-1]
		// mechanism marks first: they must be read before the getters load anything
		if marks != nil && len(o.G) == 5 {
			di, pe, sd, ds, de := s.VerifMarks(a)
			for k, g := range []bool{di, pe, sd, ds, de} {
				if g != o.G[k] {
					marks[k]++
				}
			}
		}
		if got := s.Exist(a); got != o.E {
			return &diff{"exist", fmt.Sprintf("Exist(a%d) = %v, specified %v", i, got, o.E)}
		}
		if got := s.Empty(a); got != o.M {
			return &diff{"empty", fmt.Sprintf("Empty(a%d) = %v, specified %v", i, got, o.M)}
		}
		if got := s.GetBalance(a); w.unbal(got) != o.B {
			return &diff{"balance", fmt.Sprintf("GetBalance(a%d) = %v (%d units), specified %d units", i, got, w.unbal(got), o.B)}
		}
		if got := s.GetNonce(a); w.unnonce(got) != o.N {
			return &diff{"nonce", fmt.Sprintf("GetNonce(a%d) = %d, specified %d", i, got, w.nonce(o.N))}
		}
		code := s.GetCode(a)
		if codeID(code) != o.C {
			return &diff{"code", fmt.Sprintf("GetCode(a%d) = %x, specified code %d = %x", i, code, o.C, codeBytes[o.C])}
		}
		if got := s.GetCodeSize(a); got != len(codeBytes[o.C]) {
			return &diff{"codesize", fmt.Sprintf("GetCodeSize(a%d) = %d, specified %d", i, got, len(codeBytes[o.C]))}
		}
		wantHash := common.Hash{}
		if o.E {
			wantHash = crypto.Keccak256Hash(codeBytes[o.C])
		}
		if got := s.GetCodeHash(a); got != wantHash {
			return &diff{"codehash", fmt.Sprintf("GetCodeHash(a%d) = %x, specified %x", i, got, wantHash)}
		}
		for k := 1; k <= len(o.S); k++ {
			if got := s.GetState(a, w.slot(k)); got != w.val(o.S[k-1]) {
				return &diff{"state", fmt.Sprintf("GetState(a%d, k%d) = %x (value %d), specified value %d", i, k, got, w.unval(got, 9), o.S[k-1])}
			}
			if got := s.GetCommittedState(a, w.slot(k)); got != w.val(o.Cs[k-1]) {
				return &diff{"committed", fmt.Sprintf("GetCommittedState(a%d, k%d) = %x (value %d), specified value %d", i, k, got, w.unval(got, 9), o.Cs[k-1])}
			}
		}
		if got := s.HasSuicided(a); got != o.Su {
			return &diff{"suicided", fmt.Sprintf("HasSuicided(a%d) = %v, specified %v", i, got, o.Su)}
		}
		if got := s.AddressInAccessList(a); got != want.Al[i-1] {
			return &diff{"accesslist-address", fmt.Sprintf("AddressInAccessList(a%d) = %v, specified %v", i, got, want.Al[i-1])}
		}
		for k := 1; k <= len(want.As[i-1]); k++ {
			ga, gs := s.SlotInAccessList(a, w.slot(k))
			if ga != want.Al[i-1] || gs != want.As[i-1][k-1] {
				return &diff{"accesslist-slot", fmt.Sprintf("SlotInAccessList(a%d, k%d) = (%v, %v), specified (%v, %v)", i, k, ga, gs, want.Al[i-1], want.As[i-1][k-1])}
			}
			if got := s.GetTransientState(a, w.slot(k)); got != w.val(want.Ts[i-1][k-1]) {
				return &diff{"transient", fmt.Sprintf("GetTransientState(a%d, k%d) = %x (value %d), specified value %d", i, k, got, w.unval(got, 9), want.Ts[i-1][k-1])}
			}
		}
	}
	if got := s.GetRefund(); got != uint64(want.R) {
		return &diff{"refund", fmt.Sprintf("GetRefund() = %d, specified %d", got, want.R)}
	}
	if marks != nil && (s.VerifJournalLen() > 0) != want.J {
		marks[5]++
	}
	if marks != nil && w.snaps != nil && s.VerifHasSnap() != want.Sl {
		// legitimate where the real tree knows more / fewer roots than the single chain of the model
		// (a root seen before, or layers dropped by Cap in the flattening modes)
		if want.Sl {
			marks[6]++
		} else {
			marks[7]++
		}
	}
	if got := s.TxIndex(); got != want.Tx {
		return &diff{"txindex", fmt.Sprintf("TxIndex() = %d, specified %d", got, want.Tx)}
	}
	// logs: per transaction in order, with the stamped hash / tx index / running index
	byTx := map[int][][2]int{} // tx -> list of (index, address)
	maxTx := 3
	for idx, l := range want.L {
		byTx[l[0]] = append(byTx[l[0]], [2]int{idx, l[1]})
		if l[0] > maxTx {
			maxTx = l[0]
		}
	}
	for x := 0; x <= maxTx; x++ {
		got := s.GetLogs(txHash(x), 7, blockHash)
		exp := byTx[x]
		if len(got) != len(exp) {
			return &diff{"logs", fmt.Sprintf("GetLogs(tx%d) has %d logs, specified %d", x, len(got), len(exp))}
		}
		for j, l := range got {
			if l.Address != w.addr(exp[j][1]) || l.Index != uint(exp[j][0]) || l.TxHash != txHash(x) || l.TxIndex != uint(x) {
				return &diff{"logs", fmt.Sprintf("GetLogs(tx%d)[%d] = {addr %x index %d txhash %x txindex %d}, specified {a%d index %d tx%d}",
					x, j, l.Address, l.Index, l.TxHash, l.TxIndex, exp[j][1], exp[j][0], x)}
			}
		}
	}
	all := s.Logs()
	if len(all) != len(want.L) {
		return &diff{"logs", fmt.Sprintf("Logs() has %d logs, specified %d", len(all), len(want.L))}
	}
	idxs := make([]int, 0, len(all))
	for _, l := range all {
		idxs = append(idxs, int(l.Index))
	}
	sort.Ints(idxs)
	for j, ix := range idxs {
		if ix != j {
			return &diff{"logs", fmt.Sprintf("Logs() indices %v are not 0..%d", idxs, len(all)-1)}
		}
	}
	pi := s.Preimages()
	if len(pi) != len(want.Pre) {
		return &diff{"preimages", fmt.Sprintf("Preimages() has %d entries, specified %v", len(pi), want.Pre)}
	}
	for _, p := range want.Pre {
		if b, ok := pi[preHash(p)]; !ok || !bytes.Equal(b, []byte{byte(p)}) {
			return &diff{"preimages", fmt.Sprintf("Preimages() lacks preimage %d", p)}
		}
	}
	if err := s.Error(); err != nil {
		return &diff{"dberror", "StateDB.Error() = " + err.Error()}
	}
	return nil
}

// compareContent reads a StateDB that was freshly opened at a committed root and compares it with
// the committed content of the specification.
func (w *world) compareContent(s *state.StateDB, com []leaf) (d *diff) {
	defer func() {
		if r := recover(); r != nil {
			d = &diff{"panic", fmt.Sprintf("getter panicked: %v", r)}
		}
	}()
	for i := 1; i <= len(com); i++ {
		a, c := w.addr(i), &com[i-1]
		if got := s.Exist(a); got != c.P {
			return &diff{"exist", fmt.Sprintf("Exist(a%d) = %v, committed content says %v", i, got, c.P)}
		}
		if got := s.GetBalance(a); w.unbal(got) != c.Bal {
			return &diff{"balance", fmt.Sprintf("GetBalance(a%d) = %v, committed %d units", i, got, c.Bal)}
		}
		if got := s.GetNonce(a); w.unnonce(got) != c.Nonce {
			return &diff{"nonce", fmt.Sprintf("GetNonce(a%d) = %d, committed %d", i, got, w.nonce(c.Nonce))}
		}
		if got := s.GetCode(a); codeID(got) != c.Co {
			return &diff{"code", fmt.Sprintf("GetCode(a%d) = %x, committed code %d", i, got, c.Co)}
		}
		if got := s.GetCodeSize(a); got != len(codeBytes[c.Co]) {
			return &diff{"codesize", fmt.Sprintf("GetCodeSize(a%d) = %d, committed %d", i, got, len(codeBytes[c.Co]))}
		}
		for k := 1; k <= len(c.St); k++ {
			if got := s.GetState(a, w.slot(k)); got != w.val(c.St[k-1]) {
				return &diff{"state", fmt.Sprintf("GetState(a%d, k%d) = %x (value %d), committed value %d", i, k, got, w.unval(got, 9), c.St[k-1])}
			}
			if got := s.GetCommittedState(a, w.slot(k)); got != w.val(c.St[k-1]) {
				return &diff{"committed", fmt.Sprintf("GetCommittedState(a%d, k%d) = %x (value %d), committed value %d", i, k, got, w.unval(got, 9), c.St[k-1])}
			}
		}
	}
	if err := s.Error(); err != nil {
		return &diff{"dberror", "StateDB.Error() = " + err.Error()}
	}
	return nil
}

// contentKey is the canonical name of a CONCRETE trie content (addresses, balances, nonces, code ids,
// non-zero slots as real values), so that it does not depend on the universe of the vector or on
// the concretisation variant except where the real values differ.
func contentKey(c conc, content []leaf) string {
	var sb bytes.Buffer
	for i := range content {
		l := &content[i]
		if !l.P {
			continue
		}
		fmt.Fprintf(&sb, "|%x:b%s,n%d,c%d", c.addr(i + 1).Bytes()[17:], c.bal(l.Bal), c.nonce(l.Nonce), l.Co)
		for k, v := range l.St {
			if v != 0 {
				fmt.Fprintf(&sb, ",%x=%x", c.slot(k + 1).Bytes()[28:], c.val(v).Bytes()[28:])
			}
		}
	}
	if sb.Len() == 0 {
		return "empty"
	}
	return sb.String()
}

// freshRoot builds the content in a brand-new state (only the writes that make up the content,
// no history) and returns its committed root.
func freshRoot(c conc, content []leaf) (root common.Hash, err error) {
	defer func() {
		if r := recover(); r != nil {
			err = fmt.Errorf("panic: %v", r)
		}
	}()
	s, err := state.New(types.EmptyRootHash, state.NewDatabase(memorydb.New()), nil)
	if err != nil {
		return root, err
	}
	for i := range content {
		l := &content[i]
		if !l.P {
			continue
		}
		a := c.addr(i + 1)
		s.CreateAccount(a)
		if l.Bal != 0 {
			s.SetBalance(a, c.bal(l.Bal))
		}
		if l.Nonce != 0 {
			s.SetNonce(a, c.nonce(l.Nonce))
		}
		if l.Co != 0 {
			s.SetCode(a, codeBytes[l.Co])
		}
		for k, v := range l.St {
			if v != 0 {
				s.SetState(a, c.slot(k+1), c.val(v))
			}
		}
	}
	return s.Commit(false)
}
