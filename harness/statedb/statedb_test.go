// statedb_test.go: the MBT driver.  Every line of a TLC dump of MC_StateDB is one behaviour
// (history of actions with their results + the specified observation after the last action, or,
// for simulation dumps, after every action).  The history is replayed from a fresh real
// StateDB over a fresh state.Database (and snapshot tree, depending on the mode of the line) and
// compared with the specification, which is the oracle:
//
//   - the result of every step (Suicide's boolean, the packed values of "rd" / "stt");
//   - after the last step (simulation dumps: after the steps of the line's observation schedule -
//     reads load objects and warm caches, so most replays read only at the end): every getter of
//     the current StateDB and of the parked side of a Copy, for every address / slot of the universe
//     (Exist, Empty, GetBalance, GetNonce, GetCode / Hash / Size, GetState, GetCommittedState,
//     HasSuicided, GetRefund, GetLogs / Logs, access list, transient storage, TxIndex, Preimages,
//     Error);
//   - the last committed root read back through fresh StateDBs (trie path, snapshot path);
//   - the root of every IntermediateRoot / Commit against the global content <-> root table, whose
//     entries are created from a fresh state that holds just that content.
//
// Per line the driver chooses (from the line number and $VERIF_SEED): the snapshot-tree mode(s),
// the flattening policy (Cap after every 1st / 2nd / 3rd commit), the value encoding, SetTxContext
// vs Prepare, and whether a reverted detour is inserted.  The bookkeeping marks of the
// specification (dirty / pending / ... sets) are compared too, but only counted, never reported.
//
// Signatures: statedb:<kind>:<what>, kind in result | obs | copy | readback:<path> | root | panic;
// histories that contain a StorageTrie call use statedb:after-StorageTrie:<kind>:<what>.
package statedb

import (
	"encoding/json"
	"fmt"
	"hash/fnv"
	"math/rand"
	"os"
	"path/filepath"
	"runtime/debug"
	"strings"
	"sync"
	"testing"

	"github.com/kardiachain/go-kardia/lib/common"

	"verifharness/internal/mbt"
)

type line struct {
	H  []action `json:"h"`
	O  *obsT    `json:"o"`  // BFS dumps: observation after the last action
	Pl int      `json:"pl"` // simulation dumps: length of the scripted prefix
	Os []obsT   `json:"os"` // simulation dumps: observation after every action that follows the prefix
}

// rootTable is the global table abstract trie content <-> root hash over all behaviours of a check
// run (it is carried from one driver process to the next through a file in $VERIF_SCRATCH).
type rootTable struct {
	mu        sync.Mutex
	byContent map[string]common.Hash
	byRoot    map[common.Hash]string
	checked   int
}

func newRootTable() *rootTable {
	return &rootTable{byContent: map[string]common.Hash{}, byRoot: map[common.Hash]string{}}
}

func rootTablePath() string {
	d := os.Getenv("VERIF_SCRATCH")
	if d == "" {
		return ""
	}
	return filepath.Join(d, "statedb-roots.json")
}

func (rt *rootTable) load() {
	p := rootTablePath()
	if p == "" {
		return
	}
	b, err := os.ReadFile(p)
	if err != nil {
		return
	}
	m := map[string]string{}
	if json.Unmarshal(b, &m) != nil {
		return
	}
	for k, v := range m {
		h := common.HexToHash(v)
		rt.byContent[k] = h
		rt.byRoot[h] = k
	}
}

func (rt *rootTable) save() {
	p := rootTablePath()
	if p == "" {
		return
	}
	m := map[string]string{}
	for k, v := range rt.byContent {
		m[k] = v.Hex()
	}
	if b, err := json.Marshal(m); err == nil {
		os.WriteFile(p, b, 0o644)
	}
}

// check enters (content, root) and returns a non-empty kind if the bijection is broken:
// "history-dependent" (this root differs from the root of the same content built in a fresh state)
// or "collision" (two different contents with the same root).
func (rt *rootTable) check(c conc, content []leaf, got common.Hash) (kind, text string) {
	key := contentKey(c, content)
	rt.mu.Lock()
	defer rt.mu.Unlock()
	rt.checked++
	want, ok := rt.byContent[key]
	if !ok {
		fr, err := freshRoot(c, content)
		if err != nil {
			return "fresh-state", fmt.Sprintf("building content %s in a fresh state failed: %v", key, err)
		}
		if k2, dup := rt.byRoot[fr]; dup && k2 != key {
			return "collision", fmt.Sprintf("contents %s and %s have the same fresh-state root %x", key, k2, fr)
		}
		rt.byContent[key], rt.byRoot[fr] = fr, key
		want = fr
	}
	if got != want {
		if k2, dup := rt.byRoot[got]; dup {
			return "history-dependent", fmt.Sprintf("root %x (the root of content %s) returned for content %s, whose fresh-state root is %x", got, k2, key, want)
		}
		return "history-dependent", fmt.Sprintf("root %x returned for content %s, but the same content built in a fresh state has root %x", got, key, want)
	}
	return "", ""
}

var nontrivialOps = map[string]bool{"rev": true, "fin": true, "ir": true, "com": true, "open": true, "copy": true, "swap": true, "sui": true, "cre": true}

func hash64(s string) string {
	h := fnv.New64a()
	h.Write([]byte(s))
	return fmt.Sprintf("%016x", h.Sum64())
}

// TestReplay replays a dump of MC_StateDB.  Environment: SDB_DUMP (file), SDB_TAG (vector name),
// SDB_STRIDE / SDB_LIMIT (sub-sampling), SDB_MODES ("all": every line in all four snapshot modes,
// "pair": without a tree + one of the three tree modes, default: one mode chosen by line number and seed).
func TestReplay(t *testing.T) {
	res := mbt.NewResult()
	defer res.Write()
	// every replay builds a database, a snapshot tree with its caches and bloom filters: short-lived
	// garbage dominates, so collect less often (measured: half the CPU time, < 3 GB resident)
	debug.SetGCPercent(400)
	dump := os.Getenv("SDB_DUMP")
	tag := os.Getenv("SDB_TAG")
	modes := os.Getenv("SDB_MODES") // "" = one mode per line, "pair" = trie + one snapshot mode, "all" = all four
	seed := mbt.Seed()
	rt := newRootTable()
	rt.load()
	var mu sync.Mutex
	snapReads := map[string]int{} // read-backs that really went through a snapshot layer, per mode
	var marks [8]int
	steps, obsCount, rootRepeats := 0, 0, 0

	one := func(n int, l *line, mode, variant int, raw []byte) {
		sim := l.O == nil
		w, err := newWorld(mode, variant)
		if err != nil {
			res.Mismatch("infra:world", err.Error(), nil)
			return
		}
		defer w.close()
		w.alt = (n/3)%2 == 1
		w.capEvery = 1 + (n/8)%3
		if sim {
			w.ns = len(l.Os[0].C.A[0].S)
		} else {
			w.ns = len(l.O.C.A[0].S)
		}
		hs := histString(l.H)
		// Histories that contain a StorageTrie call get their own signatures: on this code base the
		// accessor leaks uncommitted slots into the snapshot cache (see checks/C08.py, finding
		// storagetrie-leak), and that must not hide or be hidden by anything else.
		pfx := "statedb:"
		for _, a := range l.H {
			if a.Op == "stt" {
				pfx = "statedb:after-StorageTrie:"
				break
			}
		}
		detail := func(step int) map[string]interface{} {
			return map[string]interface{}{"history": hs, "failing_step": step, "mode": modeNames[mode], "variant": variant,
				"seed": seed, "vector": tag, "line": n}
		}
		// observation schedule for simulation dumps: 0 = only after the last action (reads do not
		// disturb the run), 1 = after every action, 2 = pseudo-random third of the actions
		sched := (n / 8) % 3
		var localMarks [8]int
		localObs := 0
		// Reverted detour (a third of the replays): at one position of the history the driver inserts
		// Snapshot; <random journaled operations>; RevertToSnapshot.  The specification says a reverted
		// segment leaves no trace (MC invariant RevertedLeaveNoTrace), so every later result and
		// observation must be unchanged.  BFS with a VIEW can never produce such histories itself: the
		// state after the revert IS the state before the snapshot.
		detourAt, detour := -1, []action(nil)
		if n%3 == 2 && os.Getenv("SDB_NODETOUR") == "" {
			rng := rand.New(rand.NewSource(int64(n)*7919 + seed))
			detourAt = rng.Intn(len(l.H) + 1)
			na := 1
			if sim {
				na = len(l.Os[0].C.A)
			} else {
				na = len(l.O.C.A)
			}
			for j, m := 0, 1+rng.Intn(4); j < m; j++ {
				ops := []string{"ab", "bal", "non", "code", "st", "st", "sui", "cre", "cre", "log", "ala", "als", "ts", "rf+", "pre"}
				d := action{Op: ops[rng.Intn(len(ops))], X: 1 + rng.Intn(na)}
				switch d.Op {
				case "ab", "bal", "non":
					d.Y = rng.Intn(3)
				case "code":
					d.Y = rng.Intn(len(codeBytes))
				case "st", "ts":
					d.Y, d.Z = 1+rng.Intn(w.ns), rng.Intn(3)
				case "als":
					d.Y = 1 + rng.Intn(w.ns)
				case "rf+", "pre":
					d.X = 1
				}
				detour = append(detour, d)
			}
			hs = histString(l.H[:detourAt]) + " {snap " + histString(detour) + " rev}"
			if detourAt < len(l.H) {
				hs += " " + histString(l.H[detourAt:])
			}
			hs = strings.TrimSpace(hs)
		}
		runDetour := func() string {
			if _, _, fail := w.apply(action{Op: "snap"}); fail != "" {
				return fail
			}
			for _, d := range detour {
				if _, _, fail := w.apply(d); fail != "" {
					return fmt.Sprintf("%v: %s", d, fail)
				}
			}
			_, _, fail := w.apply(action{Op: "rev", X: len(w.cur.ids)})
			return fail
		}
		for k, a := range l.H {
			if k == detourAt {
				if fail := runDetour(); fail != "" {
					res.Mismatch(pfx+"panic:detour", fmt.Sprintf("reverted detour before step %d of [%s] (%s): %s", k+1, hs, modeNames[mode], fail), detail(k+1))
					return
				}
			}
			got, root, fail := w.apply(a)
			if k == len(l.H)-1 && detourAt == len(l.H) {
				if f2 := runDetour(); f2 != "" {
					res.Mismatch(pfx+"panic:detour", fmt.Sprintf("reverted detour after [%s] (%s): %s", hs, modeNames[mode], f2), detail(k+1))
					return
				}
			}
			last := k == len(l.H)-1
			if fail != "" {
				sig := pfx + "panic:" + a.Op
				if len(fail) > 7 && fail[:7] == "driver:" {
					sig = "infra:driver"
				}
				res.Mismatch(sig, fmt.Sprintf("step %d %v of [%s] (%s): %s", k+1, a, hs, modeNames[mode], fail), detail(k+1))
				return
			}
			if got != a.Res {
				res.Mismatch(pfx+"result:"+a.Op, fmt.Sprintf("step %d %v of [%s]: real result %d, specified %d", k+1, a, hs, got, a.Res), detail(k+1))
				return
			}
			var o *obsT
			if last && !sim {
				o = l.O
			} else if sim && k >= l.Pl && k-l.Pl < len(l.Os) {
				switch {
				case last, sched == 1, sched == 2 && (uint64(n)*2654435761+uint64(k)*40503+uint64(seed))%3 == 0:
					o = &l.Os[k-l.Pl]
				case a.Op == "ir" || a.Op == "com":
					// roots are checked at every ir / com (no reads of the live object involved)
					if kind, text := rt.check(w.conc, l.Os[k-l.Pl].C.Tr, root); kind != "" {
						res.Mismatch(pfx+"root:"+kind, fmt.Sprintf("after [%s] step %d (%s): %s", hs, k+1, modeNames[mode], text), detail(k+1))
						return
					}
				}
			}
			if o == nil {
				continue
			}
			localObs++
			// 1. root <-> content
			if a.Op == "ir" || a.Op == "com" {
				if kind, text := rt.check(w.conc, o.C.Tr, root); kind != "" {
					res.Mismatch(pfx+"root:"+kind, fmt.Sprintf("after [%s] step %d (%s): %s", hs, k+1, modeNames[mode], text), detail(k+1))
					return
				}
			}
			// 2. every getter of the current StateDB
			if d := w.compareSDB(w.cur.s, &o.C, &localMarks); d != nil {
				res.Mismatch(pfx+"obs:"+d.field, fmt.Sprintf("after [%s] step %d (%s): %s", hs, k+1, modeNames[mode], d.text), detail(k+1))
				return
			}
			// 3. the other side of a Copy keeps its observables
			if (len(o.P) == 1) != (w.park != nil) {
				res.Mismatch("infra:driver", "parked StateDB out of step with the specification", detail(k+1))
				return
			}
			if w.park != nil {
				if d := w.compareSDB(w.park.s, &o.P[0], &localMarks); d != nil {
					res.Mismatch(pfx+"copy:"+d.field, fmt.Sprintf("after [%s] step %d (%s): the PARKED side of the Copy changed: %s", hs, k+1, modeNames[mode], d.text), detail(k+1))
					return
				}
			}
			// 4. the committed root read back through fresh StateDBs (trie, snapshot layers)
			for _, withSnaps := range []bool{false, true} {
				if withSnaps && w.snaps == nil {
					continue
				}
				fs, err := w.open(withSnaps)
				path := "trie"
				if err == nil && withSnaps {
					if !fs.VerifHasSnap() {
						continue // the tree has no layer for this root (committed by a StateDB without a layer)
					}
					path = modeNames[mode]
				}
				if err != nil {
					res.Mismatch(pfx+"readback:"+path+":open", fmt.Sprintf("after [%s] step %d: state.New(committed root %x) failed: %v", hs, k+1, w.root, err), detail(k+1))
					return
				}
				if d := w.compareContent(fs, o.Com); d != nil {
					res.Mismatch(pfx+"readback:"+path+":"+d.field, fmt.Sprintf("after [%s] step %d: fresh StateDB at the committed root %x read through %s: %s", hs, k+1, w.root, path, d.text), detail(k+1))
					return
				}
				if withSnaps {
					mu.Lock()
					snapReads[modeNames[mode]]++
					mu.Unlock()
				}
			}
		}
		res.Count(1)
		nontrivial := false
		for _, a := range l.H {
			if nontrivialOps[a.Op] {
				nontrivial = true
				break
			}
		}
		if nontrivial {
			res.Distinct(hash64(hs))
		}
		mu.Lock()
		for k := range marks {
			marks[k] += localMarks[k]
		}
		steps += len(l.H)
		obsCount += localObs
		rootRepeats += w.rootRepeats
		mu.Unlock()
		if n%4999 == 1 || (sim && n%97 == 1) {
			var exp interface{} = l.O
			if sim {
				exp = l.Os[len(l.Os)-1]
			}
			res.Sample(map[string]interface{}{"behaviour": hs, "mode": modeNames[mode], "variant": variant, "expected_after_last_action": exp})
		}
	}

	sent, err := mbt.EachLine(dump, 0, mbt.EnvInt("SDB_LIMIT", 0), mbt.EnvInt("SDB_STRIDE", 1), seed, func(n int, raw []byte) {
		var l line
		if err := json.Unmarshal(raw, &l); err != nil {
			res.Mismatch("infra:parse", err.Error(), string(raw))
			return
		}
		if len(l.H) == 0 || (l.O == nil && len(l.Os) == 0) {
			res.Mismatch("infra:parse", "dump line without history or observation", string(raw))
			return
		}
		variant := n % 2
		switch modes {
		case "all":
			for m := 0; m < numModes; m++ {
				one(n, &l, m, variant, raw)
			}
		case "pair":
			one(n, &l, modeTrie, variant, raw)
			one(n, &l, 1+int((int64(n/2)+seed)%(numModes-1)), variant, raw)
		default:
			one(n, &l, int((int64(n/2)+seed)%numModes), variant, raw)
		}
	})
	if err != nil {
		res.Mismatch("infra:read", err.Error(), nil)
	}
	if sent == 0 {
		res.Mismatch("infra:empty", "no behaviour in dump "+dump, nil)
	}
	rt.save()
	res.Behaviours = sent
	res.Set("replayed_"+tag, sent)
	res.Set("steps_"+tag, steps)
	res.Set("observations_"+tag, obsCount)
	res.Set("root_table_entries", len(rt.byContent))
	res.Add("root_checks", rt.checked)
	// lock-step only (never a verdict): disagreements between the bookkeeping marks of the specification
	// and the real sets; the two snapshot-layer marks are legitimate where the real tree knows more /
	// fewer roots than the single chain of the model
	for k, name := range []string{"dirty", "pending", "dirty_for_commit", "destructed", "deleted", "journal_nonempty"} {
		res.Add("mechanism_mark_disagreements", marks[k])
		if marks[k] > 0 {
			res.Add("mark_disagreements_"+name, marks[k])
		}
	}
	res.Add("snapshot_layer_expected_but_absent", marks[6])
	res.Add("snapshot_layer_present_but_unexpected", marks[7])
	res.Add("commits_to_an_already_seen_root", rootRepeats)
	for k, v := range snapReads {
		res.Add("readbacks_through_"+k, v)
	}
}
