// record_test.go: the TV driver.  Seeded random operation sequences are executed on the REAL
// StateDB (universes and lengths beyond what the model explores exhaustively) and every call is
// logged as one ndjson event; specs/statedb/StateDBTrace.tla validates the file with TLC: the
// specification must explain every result, observation, root and read-back.
package statedb

import (
	"bufio"
	"encoding/json"
	"fmt"
	"math/rand"
	"os"
	"sort"
	"sync"
	"testing"

	"github.com/kardiachain/go-kardia/kai/state"
	"github.com/kardiachain/go-kardia/lib/common"

	"verifharness/internal/mbt"
)

type event struct {
	A    []interface{}          `json:"a"`
	R    int                    `json:"r"`
	O    map[string]interface{} `json:"o,omitempty"`
	Root string                 `json:"root,omitempty"`
	Rb   [][]interface{}        `json:"rb,omitempty"`
}

// project reads every getter of s and returns the observable projection in the shape of
// StateDBTrace!ProjA / ProjD (abstract values; -1 for a real value outside the concretisation).
func (w *world) project(s *state.StateDB, na, ns int) map[string]interface{} {
	accts := make([]map[string]interface{}, 0, na)
	al, as, ts := make([]bool, na), make([][]bool, na), make([][]int, na)
	for i := 1; i <= na; i++ {
		a := w.addr(i)
		code := s.GetCode(a)
		cid := codeID(code)
		if s.GetCodeSize(a) != len(code) {
			cid = -1
		}
		st, cst := make([]int, ns), make([]int, ns)
		as[i-1], ts[i-1] = make([]bool, ns), make([]int, ns)
		al[i-1] = s.AddressInAccessList(a)
		for k := 1; k <= ns; k++ {
			st[k-1] = w.unval(s.GetState(a, w.slot(k)), 9)
			cst[k-1] = w.unval(s.GetCommittedState(a, w.slot(k)), 9)
			_, as[i-1][k-1] = s.SlotInAccessList(a, w.slot(k))
			ts[i-1][k-1] = w.unval(s.GetTransientState(a, w.slot(k)), 9)
		}
		accts = append(accts, map[string]interface{}{"exist": s.Exist(a), "empty": s.Empty(a), "balance": w.unbal(s.GetBalance(a)),
			"nonce": w.unnonce(s.GetNonce(a)), "code": cid, "state": st, "committed": cst, "suicided": s.HasSuicided(a)})
	}
	// logs in emission order (Index), as <<tx, address>>; unknown hashes / addresses become -1
	all := s.Logs()
	sort.Slice(all, func(i, j int) bool { return all[i].Index < all[j].Index })
	logs := make([][]int, 0, len(all))
	for j, l := range all {
		tx, ad := -1, -1
		for x := 0; x <= 9; x++ {
			if txHash(x) == l.TxHash && uint(x) == l.TxIndex {
				tx = x
			}
		}
		for i := 1; i <= na; i++ {
			if w.addr(i) == l.Address {
				ad = i
			}
		}
		if int(l.Index) != j {
			tx = -2 // indices are not 0..n-1
		}
		// the per-transaction view must hold the same log
		found := false
		for _, pl := range s.GetLogs(l.TxHash, 7, blockHash) {
			if pl == l {
				found = true
			}
		}
		if !found {
			ad = -2
		}
		logs = append(logs, []int{tx, ad})
	}
	pre := []int{}
	for p := 0; p <= 9; p++ {
		if _, ok := s.Preimages()[preHash(p)]; ok {
			pre = append(pre, p)
		}
	}
	if len(pre) != len(s.Preimages()) {
		pre = append(pre, -1)
	}
	return map[string]interface{}{"a": accts, "refund": int(s.GetRefund()), "logs": logs, "txindex": s.TxIndex(),
		"aladdr": al, "alslot": as, "transient": ts, "preimages": pre}
}

// readBack reads the content of a freshly opened StateDB in the shape of StateDB!LeafT.
func (w *world) readBack(s *state.StateDB, na, ns int) []interface{} {
	out := make([]interface{}, 0, na)
	for i := 1; i <= na; i++ {
		a := w.addr(i)
		st := make([]int, ns)
		for k := 1; k <= ns; k++ {
			st[k-1] = w.unval(s.GetState(a, w.slot(k)), 9)
		}
		out = append(out, []interface{}{s.Exist(a), w.unbal(s.GetBalance(a)), w.unnonce(s.GetNonce(a)), codeID(s.GetCode(a)), st})
	}
	return out
}

type opw struct {
	op string
	w  int
}

// The recorder produces block-structured runs, the way the chain uses a StateDB: a block is a
// sequence of transactions, a transaction is a few setters / reads with nested snapshots and
// reverts and ends with Finalise or IntermediateRoot, a block ends with Commit, usually followed by
// state.New at the new root; now and then the state is copied and either side continued.
// Weights of the operations inside a transaction:
var opWeights = []opw{{"ab", 6}, {"sb", 4}, {"bal", 2}, {"non", 5}, {"code", 5}, {"st", 14}, {"sui", 6}, {"cre", 6},
	{"rf+", 2}, {"rf-", 1}, {"log", 3}, {"pre", 1}, {"ala", 2}, {"als", 2}, {"ts", 4}, {"rd", 4},
	{"snap", 8}, {"rev", 7}}

// TestRecord writes $SDB_TRACE.  Environment: SDB_NA, SDB_NS (universe), SDB_TRACES, SDB_LEN.
func TestRecord(t *testing.T) {
	res := mbt.NewResult()
	defer res.Write()
	out := os.Getenv("SDB_TRACE")
	na, ns := mbt.EnvInt("SDB_NA", 3), mbt.EnvInt("SDB_NS", 2)
	traces, length := mbt.EnvInt("SDB_TRACES", 200), mbt.EnvInt("SDB_LEN", 60)
	seed := mbt.Seed()
	total := 0
	for _, o := range opWeights {
		total += o.w
	}
	bufs := make([][]byte, traces)
	var wg sync.WaitGroup
	sem := make(chan struct{}, 16)
	for ti := 0; ti < traces; ti++ {
		wg.Add(1)
		sem <- struct{}{}
		go func(ti int) {
			defer wg.Done()
			defer func() { <-sem }()
			rng := rand.New(rand.NewSource(seed*1000003 + int64(ti)))
			mode, variant, sched := rng.Intn(numModes), rng.Intn(2), rng.Intn(3)
			w, err := newWorld(mode, variant)
			if err != nil {
				res.Mismatch("infra:world", err.Error(), nil)
				return
			}
			defer w.close()
			w.ns = ns
			w.alt = rng.Intn(2) == 1
			w.capEvery = 1 + rng.Intn(3)
			var buf []byte
			emit := func(e *event) {
				b, _ := json.Marshal(e)
				buf = append(append(buf, b...), '\n')
			}
			emit(&event{A: []interface{}{"reset", variant, 0, 0}})
			var hist []action
			focus := 1 + rng.Intn(na) // most actions hit one address (collisions)
			var queue []action        // forced next actions (transaction / block boundaries)
			txLeft := 1 + rng.Intn(5) // operations left in the current transaction
			for k := 0; k < length; k++ {
				// choose an action the model accepts (documented panics and negative balances excluded)
				var a action
				if len(queue) == 0 && txLeft <= 0 {
					e := rng.Intn(2)
					switch r := rng.Intn(10); {
					case r < 4:
						queue = append(queue, action{Op: "fin", X: e})
					case r < 7:
						queue = append(queue, action{Op: "ir", X: e})
					default:
						queue = append(queue, action{Op: "com", X: e})
						if rng.Intn(10) < 7 {
							queue = append(queue, action{Op: "open"})
						}
					}
					if r := rng.Intn(20); r == 0 {
						queue = append(queue, action{Op: "copy"})
					} else if r < 4 && w.park != nil {
						queue = append(queue, action{Op: "swap"})
					}
					if rng.Intn(10) < 6 {
						queue = append(queue, action{Op: "tx", X: rng.Intn(4)})
					}
					txLeft = 1 + rng.Intn(6)
				}
				for {
					if len(queue) > 0 {
						a, queue = queue[0], queue[1:]
						if a.Op == "swap" && w.park == nil {
							continue
						}
						break
					}
					txLeft--
					r := rng.Intn(total)
					for _, o := range opWeights {
						if r < o.w {
							a.Op = o.op
							break
						}
						r -= o.w
					}
					ad := focus
					if rng.Intn(4) == 0 {
						ad = 1 + rng.Intn(na)
					}
					a.X, a.Y, a.Z = 0, 0, 0
					s := w.cur.s
					switch a.Op {
					case "ab":
						a.X, a.Y = ad, rng.Intn(2)
						if w.unbal(s.GetBalance(w.addr(ad))) >= 3 {
							continue
						}
					case "sb":
						a.X, a.Y = ad, rng.Intn(2)
						if w.unbal(s.GetBalance(w.addr(ad))) < a.Y {
							continue
						}
					case "bal":
						a.X, a.Y = ad, rng.Intn(3)
					case "non":
						a.X, a.Y = ad, rng.Intn(3)
					case "code":
						a.X, a.Y = ad, rng.Intn(len(codeBytes))
					case "st", "ts":
						a.X, a.Y, a.Z = ad, 1+rng.Intn(ns), rng.Intn(4)
					case "sui", "cre", "log", "ala", "rd":
						a.X = ad
					case "als":
						a.X, a.Y = ad, 1+rng.Intn(ns)
					case "rf+":
						a.X = 1 + rng.Intn(2)
					case "rf-":
						a.X = 1
						if s.GetRefund() < 1 {
							continue
						}
					case "pre":
						a.X = 1 + rng.Intn(2)
					case "tx":
						a.X = rng.Intn(4)
					case "rev":
						if len(w.cur.ids) == 0 {
							continue
						}
						a.X = 1 + rng.Intn(len(w.cur.ids))
					case "snap":
						if len(w.cur.ids) >= 4 {
							continue
						}
					case "fin", "ir", "com":
						a.X = rng.Intn(2)
					case "swap":
						if w.park == nil {
							continue
						}
					}
					break
				}
				hist = append(hist, a)
				got, root, fail := w.apply(a)
				if fail != "" {
					res.Mismatch("statedb:panic:"+a.Op, fmt.Sprintf("random trace %d step %d %v of [%s] (%s): %s", ti, k+1, a, histString(hist), modeNames[mode], fail),
						map[string]interface{}{"history": histString(hist), "mode": modeNames[mode], "variant": variant, "seed": seed, "trace": ti})
					break
				}
				e := &event{A: []interface{}{a.Op, a.X, a.Y, a.Z}, R: got}
				if a.Op == "ir" || a.Op == "com" {
					e.Root = root.Hex()
				}
				if a.Op == "com" {
					for _, withSnaps := range []bool{false, true} {
						if withSnaps && w.snaps == nil {
							continue
						}
						fs, err := w.open(withSnaps)
						if err != nil {
							res.Mismatch("statedb:readback:open", fmt.Sprintf("state.New(%x) after [%s]: %v", w.root, histString(hist), err), nil)
							continue
						}
						if withSnaps && !fs.VerifHasSnap() {
							continue
						}
						e.Rb = append(e.Rb, w.readBack(fs, na, ns))
					}
				}
				if k == length-1 || sched == 1 || (sched == 2 && rng.Intn(3) == 0) {
					o := map[string]interface{}{"c": w.project(w.cur.s, na, ns), "p": []interface{}{}}
					if w.park != nil {
						o["p"] = []interface{}{w.project(w.park.s, na, ns)}
					}
					e.O = o
				}
				emit(e)
			}
			bufs[ti] = buf
			res.Count(len(hist))
		}(ti)
	}
	wg.Wait()
	f, err := os.Create(out)
	if err != nil {
		res.Mismatch("infra:trace-file", err.Error(), nil)
		return
	}
	bw := bufio.NewWriter(f)
	lines := 0
	for _, b := range bufs {
		bw.Write(b)
		for _, c := range b {
			if c == '\n' {
				lines++
			}
		}
	}
	bw.Flush()
	f.Close()
	res.Behaviours = traces
	res.Set("trace_lines", lines)
	_ = common.Hash{}
}
