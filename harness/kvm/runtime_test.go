// Package kvm binds specs/kvm (KVMFrames.tla) to the real virtual machine of /repo/kvm (property C10).
//
// runtime_test.go: how one execution of the REAL kvm.KVM is set up and observed.
//   - the machine is built exactly as mainchain does (kvm.NewKVM with a BlockContext whose CanTransfer /
//     Transfer are mainchain/kvm's, a ChainConfig whose GalaxiasBlock selects the v1 or v2 instruction set);
//   - the state is a real kai/state.StateDB over memorydb, committed and re-opened before the run;
//   - the StateDB handed to the machine is a pure delegating wrapper that records which accounts / slots the
//     machine touched, so that "nothing else changed" can be checked without enumerating the trie;
//   - a KVMLogger (Debug run) records executed opcodes, the highest stack and depth, and whether any frame
//     ended with a gas-class error (the property compares only "whenever neither runs out of gas").
package kvm

import (
	"bytes"
	"fmt"
	"math/big"
	"sort"
	"time"

	"github.com/kardiachain/go-kardia/configs"
	"github.com/kardiachain/go-kardia/kai/kaidb/memorydb"
	"github.com/kardiachain/go-kardia/kai/state"
	rkvm "github.com/kardiachain/go-kardia/kvm"
	"github.com/kardiachain/go-kardia/lib/common"
	"github.com/kardiachain/go-kardia/lib/crypto"
	vm "github.com/kardiachain/go-kardia/mainchain/kvm"
	"github.com/kardiachain/go-kardia/types"
)

// constants shared with KVMFrames.tla
const (
	originID   = 224 // 0xe0
	addrAID    = 161
	addrBID    = 162
	addrCID    = 163
	coinbaseID = 192
	tokBase    = 1 << 30
	gasEnough  = uint64(1) << 62 // "enough gas" of the specification
	gasSmall   = uint64(2000000) // for programs without a specified verdict
	blockGasL  = 30000000
	timeC      = 1000
	numberC    = 5
	chainIDC   = 24
	hashBase   = 176
)

var baseAddrs = []int64{originID, addrAID, addrBID, addrCID}

func idAddr(id int64) common.Address {
	if id >= tokBase {
		return tokAddr(int(id - tokBase))
	}
	return common.BigToAddress(big.NewInt(id))
}

// tokAddr: the real address of creation number t = creatorIdx*8 + nonce (KVMFrames!NewAddr).
func tokAddr(t int) common.Address {
	cidx, nonce := t/8, uint64(t%8)
	var creator common.Address
	if cidx >= 1 && cidx <= 4 {
		creator = idAddr(baseAddrs[cidx-1])
	} else {
		creator = tokAddr(cidx - 5)
	}
	return crypto.CreateAddress(creator, nonce)
}

// conc concretises specification values of one dump line: bytes >= 256 are symbolic.  [256, hBase): byte of a
// CREATE address (KVMWords!SymB); >= hBase: byte j of the Keccak hash of the h-th byte string the specification
// listed as hashed (KVMWords!HashB), computed here with lib/crypto Keccak256.
const (
	hBase  = 1 << 24
	h2Base = tokBase + (1 << 29)
)

type conc struct{ hashes [][]byte }

func newConc(hs [][]int) *conc {
	c := &conc{}
	for _, pre := range hs { // a listed string may contain bytes of earlier hashes
		c.hashes = append(c.hashes, crypto.Keccak256(c.bytes(pre)))
	}
	return c
}

func (c *conc) bytes(xs []int) []byte {
	out := make([]byte, len(xs))
	for i, x := range xs {
		switch {
		case x < 256:
			out[i] = byte(x)
		case x < hBase:
			a := tokAddr((x - 256) / 20)
			out[i] = a[(x-256)%20]
		default:
			h, j := (x-hBase)/32, (x-hBase)%32
			if h >= 1 && h <= len(c.hashes) {
				out[i] = c.hashes[h-1][j]
			}
		}
	}
	return out
}
func (c *conc) word(xs []int) common.Hash { return common.BytesToHash(c.bytes(xs)) }

// addr: the real address of a specification address id (CREATE2 ids: low 20 bytes of hash number id - h2Base)
func (c *conc) addr(id int64) common.Address {
	if id >= h2Base {
		h := int(id - h2Base)
		if h >= 1 && h <= len(c.hashes) {
			return common.BytesToAddress(c.hashes[h-1][12:])
		}
		return common.Address{}
	}
	return idAddr(id)
}

// concBytes: byte strings without hash bytes (code, call data of the header)
func concBytes(xs []int) []byte { return (&conc{}).bytes(xs) }

// ---------------------------------------------------------------------------------------------------------
// pre-state

type preAcct struct {
	addr    common.Address
	balance int64
	nonce   uint64
	code    []byte
	storage map[common.Hash]common.Hash
}

func buildState(pre []preAcct) *state.StateDB {
	db := state.NewDatabase(memorydb.New())
	sdb, err := state.New(common.Hash{}, db, nil)
	if err != nil {
		panic(err)
	}
	for _, a := range pre {
		sdb.CreateAccount(a.addr)
		sdb.SetBalance(a.addr, big.NewInt(a.balance))
		sdb.SetNonce(a.addr, a.nonce)
		sdb.SetCode(a.addr, a.code)
		for k, v := range a.storage {
			sdb.SetState(a.addr, k, v)
		}
	}
	root, err := sdb.Commit(false)
	if err != nil {
		panic(err)
	}
	sdb, err = state.New(root, db, nil)
	if err != nil {
		panic(err)
	}
	return sdb
}

// ---------------------------------------------------------------------------------------------------------
// recording wrapper (implements kvm.StateDB by delegation)

type recDB struct {
	*state.StateDB
	touched map[common.Address]map[common.Hash]struct{}
}

func newRecDB(s *state.StateDB) *recDB {
	return &recDB{StateDB: s, touched: map[common.Address]map[common.Hash]struct{}{}}
}
func (r *recDB) t(a common.Address) map[common.Hash]struct{} {
	m, ok := r.touched[a]
	if !ok {
		m = map[common.Hash]struct{}{}
		r.touched[a] = m
	}
	return m
}
func (r *recDB) CreateAccount(a common.Address)             { r.t(a); r.StateDB.CreateAccount(a) }
func (r *recDB) AddBalance(a common.Address, v *big.Int)    { r.t(a); r.StateDB.AddBalance(a, v) }
func (r *recDB) SubBalance(a common.Address, v *big.Int)    { r.t(a); r.StateDB.SubBalance(a, v) }
func (r *recDB) SetCode(a common.Address, c []byte)         { r.t(a); r.StateDB.SetCode(a, c) }
func (r *recDB) SetNonce(a common.Address, n uint64)        { r.t(a); r.StateDB.SetNonce(a, n) }
func (r *recDB) Suicide(a common.Address) bool              { r.t(a); return r.StateDB.Suicide(a) }
func (r *recDB) SetState(a common.Address, k, v common.Hash) { r.t(a)[k] = struct{}{}; r.StateDB.SetState(a, k, v) }

// ---------------------------------------------------------------------------------------------------------
// tracer

type tracer struct {
	ops      [256]int
	maxStack int
	maxDepth int
	gasErr   bool // a frame ended with ErrOutOfGas / ErrCodeStoreOutOfGas / ErrGasUintOverflow
	steps    int
	lastOp   rkvm.OpCode // the instruction about to execute when the last line was logged, and the size class
	lastCls  string      // of its largest operand (for the signature of a panic)
}

// operand class of the (at most 7) top stack items: where the largest one lies relative to 2^31, 2^32, 2^63, 2^64
func operandClass(scope *rkvm.ScopeContext) string {
	st := scope.Stack.Data()
	max := 0
	for i := len(st) - 1; i >= 0 && i >= len(st)-7; i-- {
		if b := st[i].BitLen(); b > max {
			max = b
		}
	}
	switch {
	case max <= 31:
		return "operands-below-2^31"
	case max <= 32:
		return "operand-below-2^32"
	case max <= 63:
		return "operand-below-2^63"
	case max <= 64:
		return "operand-below-2^64"
	}
	return "operand-from-2^64"
}

// panicSig: kvm:panic:<instruction>:<operand class>
func (r *runResult) panicSig() string {
	if r.tr == nil || r.tr.steps == 0 {
		return "kvm:panic:before-first-instruction"
	}
	return "kvm:panic:" + r.tr.lastOp.String() + ":" + r.tr.lastCls
}

func (t *tracer) note(err error) {
	if err == rkvm.ErrOutOfGas || err == rkvm.ErrCodeStoreOutOfGas || err == rkvm.ErrGasUintOverflow {
		t.gasErr = true
	}
}
func (t *tracer) CaptureStart(env *rkvm.KVM, from, to common.Address, create bool, input []byte, gas uint64, value *big.Int) {
}
func (t *tracer) CaptureState(pc uint64, op rkvm.OpCode, gas, cost uint64, scope *rkvm.ScopeContext, rData []byte, depth int, err error) {
	if err == nil {
		t.ops[byte(op)]++
		t.steps++
		t.lastOp, t.lastCls = op, operandClass(scope)
	}
	if n := len(scope.Stack.Data()); n > t.maxStack {
		t.maxStack = n
	}
	if depth > t.maxDepth {
		t.maxDepth = depth
	}
	t.note(err)
}
func (t *tracer) CaptureEnter(typ rkvm.OpCode, from, to common.Address, input []byte, gas uint64, value *big.Int) {
}
func (t *tracer) CaptureExit(output []byte, gasUsed uint64, err error) { t.note(err) }
func (t *tracer) CaptureFault(pc uint64, op rkvm.OpCode, gas, cost uint64, scope *rkvm.ScopeContext, depth int, err error) {
	t.note(err)
}
func (t *tracer) CaptureEnd(output []byte, gasUsed uint64, d time.Duration, err error) { t.note(err) }

// ---------------------------------------------------------------------------------------------------------
// one run

type runSpec struct {
	pre     []preAcct
	create  bool           // kvm.Create(origin, code) instead of kvm.Call(origin, to)
	to      common.Address // callee of kvm.Call
	code    []byte         // init code for create
	input   []byte
	value   int64
	gas     uint64
	gal     bool // v2 (Galaxias) instruction set
	trace   bool // Debug run with the tracer
	capWall time.Duration
}

type runResult struct {
	status  string // ok / rev / fail / panic / hang
	errText string
	ret     []byte
	left    uint64
	newAddr common.Address
	tr      *tracer
	db      *recDB
	logs    []*types.Log
}

func chainConfig(gal bool) *configs.ChainConfig {
	cc := &configs.ChainConfig{ChainID: big.NewInt(chainIDC), Kaicon: &configs.KaiconConfig{Period: 15, Epoch: 30000}}
	if gal {
		z := uint64(0)
		cc.GalaxiasBlock = &z
	}
	return cc
}

func execute(rs *runSpec) *runResult { return executeWith(rs, nil) }

// executeWith runs with the given logger (nil: the counting tracer when rs.trace is set)
func executeWith(rs *runSpec, logger rkvm.KVMLogger) *runResult {
	sdb := buildState(rs.pre)
	rec := newRecDB(sdb)
	res := &runResult{db: rec}
	bc := rkvm.BlockContext{
		CanTransfer: vm.CanTransfer, Transfer: vm.Transfer,
		GetHash:     func(n uint64) common.Hash { return common.BigToHash(big.NewInt(int64(hashBase + n))) },
		Coinbase:    idAddr(coinbaseID), GasLimit: blockGasL, BlockHeight: big.NewInt(numberC), Time: big.NewInt(timeC),
	}
	cfg := rkvm.Config{}
	if logger != nil {
		cfg.Debug, cfg.Tracer = true, logger
	} else if rs.trace {
		res.tr = &tracer{}
		cfg.Debug, cfg.Tracer = true, res.tr
	}
	machine := rkvm.NewKVM(bc, rkvm.TxContext{Origin: idAddr(originID), GasPrice: big.NewInt(1)}, rec, chainConfig(rs.gal), cfg)
	if rt, ok := logger.(*recTracer); ok {
		rt.cancel = machine.Cancel
	}
	type out struct {
		ret  []byte
		left uint64
		addr common.Address
		err  error
		pan  interface{}
	}
	done := make(chan out, 1)
	go func() {
		var o out
		defer func() {
			if r := recover(); r != nil {
				o.pan = r
			}
			done <- o
		}()
		if rs.create {
			o.ret, o.addr, o.left, o.err = machine.Create(rkvm.AccountRef(idAddr(originID)), rs.code, rs.gas, big.NewInt(rs.value))
		} else {
			o.ret, o.left, o.err = machine.Call(rkvm.AccountRef(idAddr(originID)), rs.to, rs.input, rs.gas, big.NewInt(rs.value))
		}
	}()
	capw := rs.capWall
	if capw == 0 {
		capw = 20 * time.Second
	}
	var o out
	select {
	case o = <-done:
	case <-time.After(capw):
		machine.Cancel()
		select {
		case <-done:
		case <-time.After(10 * time.Second):
		}
		res.status = "hang"
		return res
	}
	res.ret, res.left, res.newAddr = o.ret, o.left, o.addr
	switch {
	case o.pan != nil:
		res.status, res.errText = "panic", fmt.Sprint(o.pan)
	case o.err == nil:
		res.status = "ok"
	case o.err == rkvm.ErrExecutionReverted:
		res.status, res.errText = "rev", o.err.Error()
	default:
		res.status, res.errText = "fail", o.err.Error()
	}
	res.logs = sdb.Logs()
	return res
}

// digest of everything observable about a run (for the determinism check)
func (r *runResult) digest() string {
	var b bytes.Buffer
	fmt.Fprintf(&b, "%s|%x|%d|%x|", r.status, r.ret, r.left, r.newAddr)
	if r.db != nil && r.status != "hang" {
		var as []common.Address
		for a := range r.db.touched {
			as = append(as, a)
		}
		sort.Slice(as, func(i, j int) bool { return bytes.Compare(as[i][:], as[j][:]) < 0 })
		for _, a := range as {
			fmt.Fprintf(&b, "%x:%v:%d:%x:%v:%v", a, r.db.GetBalance(a), r.db.GetNonce(a), r.db.GetCodeHash(a), r.db.HasSuicided(a), r.db.Exist(a))
			var ks []common.Hash
			for k := range r.db.touched[a] {
				ks = append(ks, k)
			}
			sort.Slice(ks, func(i, j int) bool { return bytes.Compare(ks[i][:], ks[j][:]) < 0 })
			for _, k := range ks {
				fmt.Fprintf(&b, ",%x=%x", k, r.db.GetState(a, k))
			}
			b.WriteString(";")
		}
		for _, l := range r.logs {
			fmt.Fprintf(&b, "L%x%x%x", l.Address, l.Topics, l.Data)
		}
	}
	return b.String()
}

// unchanged reports the first difference between the touched part of the state and the pre-state
// ("a failed or reverted outermost call leaves no state change"); nonceOK lists accounts whose nonce may grow.
func (r *runResult) unchanged(pre []preAcct, nonceOK common.Address) string {
	pm := map[common.Address]*preAcct{}
	for i := range pre {
		pm[pre[i].addr] = &pre[i]
	}
	if len(r.logs) != 0 {
		return fmt.Sprintf("%d logs survive", len(r.logs))
	}
	for a, keys := range r.db.touched {
		p := pm[a]
		if p == nil {
			p = &preAcct{addr: a}
		}
		if r.db.GetBalance(a).Cmp(big.NewInt(p.balance)) != 0 {
			return fmt.Sprintf("balance of %x is %v, was %d", a, r.db.GetBalance(a), p.balance)
		}
		if r.db.GetNonce(a) != p.nonce && a != nonceOK {
			return fmt.Sprintf("nonce of %x is %d, was %d", a, r.db.GetNonce(a), p.nonce)
		}
		if !bytes.Equal(r.db.GetCode(a), p.code) {
			return fmt.Sprintf("code of %x changed", a)
		}
		if r.db.HasSuicided(a) {
			return fmt.Sprintf("%x is marked destroyed", a)
		}
		for k := range keys {
			if r.db.GetState(a, k) != p.storage[k] {
				return fmt.Sprintf("slot %x of %x is %x, was %x", k, a, r.db.GetState(a, k), p.storage[k])
			}
		}
	}
	return ""
}
