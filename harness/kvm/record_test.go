package kvm

// record_test.go: TV driver.  Seeded random byte strings are executed by the real machine with a logger that
// writes one ndjson line per interpreter iteration; specs/kvm/KVMTrace.tla validates every line with TLC.

import (
	"bufio"
	"encoding/json"
	"fmt"
	"math/big"
	"math/rand"
	"os"
	"path/filepath"
	"testing"
	"time"

	rkvm "github.com/kardiachain/go-kardia/kvm"
	"github.com/kardiachain/go-kardia/lib/common"

	"verifharness/internal/mbt"
)

// at most maxRecSteps iterations are logged per program; then a "cut" line ends the comparison and the machine is cancelled
const maxRecSteps = 250

type recTracer struct {
	w      *bufio.Writer
	steps  int
	cancel func()
}

func ints(b []byte) []int {
	out := make([]int, len(b))
	for i, x := range b {
		out[i] = int(x)
	}
	return out
}

func (t *recTracer) CaptureStart(env *rkvm.KVM, from, to common.Address, create bool, input []byte, gas uint64, value *big.Int) {
}
func (t *recTracer) CaptureState(pc uint64, op rkvm.OpCode, gas, cost uint64, scope *rkvm.ScopeContext, rData []byte, depth int, err error) {
	if t.steps >= maxRecSteps {
		if t.steps == maxRecSteps {
			t.w.WriteString(`{"k":"cut"}` + "\n")
			t.steps++
			if t.cancel != nil {
				t.cancel()
			}
		}
		return
	}
	e := 0
	if err == rkvm.ErrOutOfGas || err == rkvm.ErrCodeStoreOutOfGas || err == rkvm.ErrGasUintOverflow {
		e = 1
	} else if err != nil {
		e = 2
	}
	st := scope.Stack.Data()
	top := []int{}
	if len(st) > 0 {
		b := st[len(st)-1].Bytes32()
		top = ints(b[:])
	}
	j, _ := json.Marshal(map[string]interface{}{"k": "step", "pc": pc, "op": int(op), "d": depth, "sl": len(st), "top": top, "err": e})
	t.w.Write(j)
	t.w.WriteByte('\n')
	t.steps++
}
func (t *recTracer) CaptureEnter(typ rkvm.OpCode, from, to common.Address, input []byte, gas uint64, value *big.Int) {
}
func (t *recTracer) CaptureExit(output []byte, gasUsed uint64, err error) {}
func (t *recTracer) CaptureFault(pc uint64, op rkvm.OpCode, gas, cost uint64, scope *rkvm.ScopeContext, depth int, err error) {
}
func (t *recTracer) CaptureEnd(output []byte, gasUsed uint64, d time.Duration, err error) {}

var returnerC = []byte{0x60, 0x2a, 0x60, 0x00, 0x52, 0x60, 0x20, 0x60, 0x00, 0xf3}

// TestRecord writes $VERIF_SCRATCH/kvm-trace-<k>.ndjson for k < KVM_TRACES, KVM_PROGRAMS programs each.
func TestRecord(t *testing.T) {
	res := mbt.NewResult()
	defer res.Write()
	nfiles, nprog := mbt.EnvInt("KVM_TRACES", 4), mbt.EnvInt("KVM_PROGRAMS", 100)
	dir := os.Getenv("VERIF_SCRATCH")
	if dir == "" {
		dir = os.TempDir()
	}
	for k := 0; k < nfiles; k++ {
		r := rand.New(rand.NewSource(mbt.Seed()*7919 + int64(k)))
		f, err := os.Create(filepath.Join(dir, fmt.Sprintf("kvm-trace-%d.ndjson", k)))
		if err != nil {
			res.Mismatch("infra:kvm-record", err.Error(), nil)
			return
		}
		w := bufio.NewWriterSize(f, 1<<20)
		for p := 0; p < nprog; p++ {
			var code []byte
			switch p % 4 {
			case 0:
				code = genUniform(r)
				if len(code) > 100 {
					code = code[:100]
				}
			case 1, 2:
				code = genWeighted(r)
			default:
				code = genGrammar(r)
			}
			codeB := genWeighted(r)
			input := make([]byte, r.Intn(70))
			r.Read(input)
			value, balA, balB, s0 := r.Intn(3), r.Intn(20), r.Intn(5), r.Intn(3)
			pre := []preAcct{{addr: idAddr(originID), balance: 1000}, {addr: idAddr(addrBID), code: codeB, balance: int64(balB)},
				{addr: idAddr(addrCID), code: returnerC},
				{addr: idAddr(addrAID), code: code, balance: int64(balA), storage: map[common.Hash]common.Hash{}}}
			if s0 != 0 {
				pre[3].storage[common.Hash{}] = common.BigToHash(big.NewInt(int64(s0)))
			}
			j, _ := json.Marshal(map[string]interface{}{"k": "start", "a": ints(code), "b": ints(codeB), "c": ints(returnerC), "cd": ints(input),
				"v": value, "ba": balA, "bb": balB, "s0": s0})
			w.Write(j)
			w.WriteByte('\n')
			tr := &recTracer{w: w}
			out := executeWith(&runSpec{pre: pre, to: idAddr(addrAID), input: input, value: int64(value), gas: 3000000, gal: true}, tr)
			res.Count(1)
			if out.status == "panic" || out.status == "hang" {
				res.Mismatch("kvm:"+out.status+":recorded", fmt.Sprintf("the real machine %ss: %s", out.status, out.errText),
					map[string]interface{}{"code": fmt.Sprintf("%x", code), "codeB": fmt.Sprintf("%x", codeB), "input": fmt.Sprintf("%x", input), "value": value})
				out.status = "fail"
			}
			j, _ = json.Marshal(map[string]interface{}{"k": "end", "s": out.status, "r": ints(out.ret)})
			w.Write(j)
			w.WriteByte('\n')
			res.Add("recorded_steps", tr.steps)
			if tr.steps > 3 {
				res.Distinct(fmt.Sprintf("%x", code))
			}
		}
		w.Flush()
		f.Close()
	}
}
