package kvm

// replay_test.go: MBT driver.  Every dump line of MC_KVM (one program + environment + the final state the
// specification computed) is executed in the real kvm.KVM under both instruction sets, twice each on fresh
// states, and the outcome is compared with the specification.

import (
	"bufio"
	"bytes"
	"encoding/json"
	"fmt"
	"math/big"
	"os"
	"strings"
	"testing"

	"github.com/kardiachain/go-kardia/lib/common"

	"verifharness/internal/mbt"
)

type specAcct struct {
	I int64      `json:"i"`
	B int64      `json:"b"`
	N uint64     `json:"n"`
	D bool       `json:"d"`
	C []int      `json:"c"`
	S [][2][]int `json:"s"`
}
type specLog struct {
	A int64   `json:"a"`
	T [][]int `json:"t"`
	D []int   `json:"d"`
}
type specFin struct {
	S string     `json:"s"`
	R []int      `json:"r"`
	G bool       `json:"g"`
	N int        `json:"n"`
	A []specAcct `json:"a"`
	L []specLog  `json:"l"`
	H [][]int    `json:"h"` // byte strings the specification hashed, in order
}
type dumpLine struct {
	P []int   `json:"p"`
	E []int   `json:"e"` // b, c, cd, v, pre, mode
	F specFin `json:"f"`
}
type header struct {
	Lib  [][]int `json:"lib"`
	Cds  [][]int `json:"cds"`
	Init []int   `json:"init"`
}

// readHeader finds the line the specification prints before the first state.
func readHeader(path string) (*header, error) {
	f, err := os.Open(path)
	if err != nil {
		return nil, err
	}
	defer f.Close()
	sc := bufio.NewScanner(f)
	sc.Buffer(make([]byte, 1<<20), 1<<26)
	for i := 0; sc.Scan() && i < 400; i++ {
		l := sc.Bytes()
		if len(l) > 0 && l[0] == '"' && bytes.Contains(l, []byte(`lib`)) {
			var inner string
			if json.Unmarshal(l, &inner) != nil {
				continue
			}
			var h header
			if json.Unmarshal([]byte(inner), &h) == nil && len(h.Lib) > 0 {
				return &h, nil
			}
		}
	}
	return nil, fmt.Errorf("no header line in %s", path)
}

// preState mirrors MC_KVM!World0.
func preState(h *header, d *dumpLine) []preAcct {
	b, c, pre, mode := d.E[0], d.E[1], d.E[4], d.E[5]
	ps := []preAcct{{addr: idAddr(originID), balance: 1000}}
	if mode == 0 {
		a := preAcct{addr: idAddr(addrAID), code: concBytes(d.P)}
		if pre == 1 {
			a.balance = 10
			a.storage = map[common.Hash]common.Hash{common.BigToHash(big.NewInt(1)): common.BigToHash(big.NewInt(9))}
		}
		ps = append(ps, a)
	}
	if b > 0 {
		a := preAcct{addr: idAddr(addrBID), code: concBytes(h.Lib[b-1])}
		if pre == 1 {
			a.balance = 3
		}
		ps = append(ps, a)
	}
	if c > 0 {
		ps = append(ps, preAcct{addr: idAddr(addrCID), code: concBytes(h.Lib[c-1])})
	}
	return ps
}

func has46(xs []int) bool {
	for _, x := range xs {
		if x == 0x46 {
			return true
		}
	}
	return false
}

// compareFinal returns "" or (kind, text) of the first disagreement between a real run and the specification.
func compareFinal(r *runResult, d *dumpLine, pre []preAcct) (string, string) {
	f := &d.F
	cc := newConc(f.H)
	concBytes, concWord, idAddr := cc.bytes, cc.word, cc.addr
	if r.status != f.S {
		return "status", fmt.Sprintf("real outcome %s (%s), specified %s", r.status, r.errText, f.S)
	}
	want := concBytes(f.R)
	if f.S == "fail" {
		want = nil
	}
	if !bytes.Equal(r.ret, want) {
		return "returndata", fmt.Sprintf("real return data %x, specified %x", r.ret, want)
	}
	pm := map[common.Address]*preAcct{}
	for i := range pre {
		pm[pre[i].addr] = &pre[i]
	}
	seen := map[common.Address]bool{}
	for _, a := range f.A {
		addr := idAddr(a.I)
		seen[addr] = true
		if got := r.db.GetBalance(addr); got.Cmp(big.NewInt(a.B)) != 0 {
			return "balance", fmt.Sprintf("balance of %x: real %v, specified %d", addr, got, a.B)
		}
		if got := r.db.GetNonce(addr); got != a.N {
			return "nonce", fmt.Sprintf("nonce of %x: real %d, specified %d", addr, got, a.N)
		}
		if got := r.db.HasSuicided(addr); got != a.D {
			return "destroyed", fmt.Sprintf("destroyed mark of %x: real %v, specified %v", addr, got, a.D)
		}
		wantCode := concBytes(a.C)
		if a.I < tokBase {
			wantCode = nil
			if p := pm[addr]; p != nil {
				wantCode = p.code
			}
		}
		if got := r.db.GetCode(addr); !bytes.Equal(got, wantCode) {
			return "code", fmt.Sprintf("code of %x: real %x, specified %x", addr, got, wantCode)
		}
		nonEmpty := a.B != 0 || a.N != 0 || len(wantCode) != 0
		if nonEmpty && !r.db.Exist(addr) {
			return "exist", fmt.Sprintf("account %x does not exist, specified non-empty", addr)
		}
		want := map[common.Hash]common.Hash{}
		for _, kv := range a.S {
			want[concWord(kv[0])] = concWord(kv[1])
		}
		for k, v := range want {
			if got := r.db.GetState(addr, k); got != v {
				return "storage", fmt.Sprintf("slot %x of %x: real %x, specified %x", k, addr, got, v)
			}
		}
		for k := range r.db.touched[addr] {
			if _, ok := want[k]; !ok && r.db.GetState(addr, k) != (common.Hash{}) {
				return "storage", fmt.Sprintf("slot %x of %x: real %x, specified empty", k, addr, r.db.GetState(addr, k))
			}
		}
	}
	// accounts the machine touched that the specification does not know must be empty
	for addr, keys := range r.db.touched {
		if seen[addr] {
			continue
		}
		if r.db.GetBalance(addr).Sign() != 0 || r.db.GetNonce(addr) != 0 || len(r.db.GetCode(addr)) != 0 || r.db.HasSuicided(addr) {
			return "extra-account", fmt.Sprintf("account %x changed (balance %v nonce %d), not in the specified final state", addr, r.db.GetBalance(addr), r.db.GetNonce(addr))
		}
		for k := range keys {
			if r.db.GetState(addr, k) != (common.Hash{}) {
				return "extra-account", fmt.Sprintf("slot %x of unspecified account %x written", k, addr)
			}
		}
	}
	if len(r.logs) != len(f.L) {
		return "logs", fmt.Sprintf("%d logs, specified %d", len(r.logs), len(f.L))
	}
	for i, l := range f.L {
		g := r.logs[i]
		ok := g.Address == idAddr(l.A) && len(g.Topics) == len(l.T) && bytes.Equal(g.Data, concBytes(l.D))
		for j := 0; ok && j < len(l.T); j++ {
			ok = g.Topics[j] == concWord(l.T[j])
		}
		if !ok {
			return "logs", fmt.Sprintf("log %d: real %x %x %x, specified %x %v %v", i, g.Address, g.Topics, g.Data, idAddr(l.A), l.T, l.D)
		}
	}
	return "", ""
}

// where classifies a program for stable signatures: the "most special" instruction it contains.
func where(code []byte) string {
	has := func(b byte) bool { return bytes.IndexByte(code, b) >= 0 }
	switch {
	case has(0xf0):
		return "create"
	case has(0xfa):
		return "staticcall"
	case has(0xf4):
		return "delegatecall"
	case has(0xf2):
		return "callcode"
	case has(0xf1):
		return "call"
	case has(0xff):
		return "selfdestruct"
	case has(0x3e) || has(0x3d):
		return "returndata"
	case has(0x56) || has(0x57):
		return "jump"
	case has(0x55) || has(0x54):
		return "storage"
	}
	return "plain"
}

func TestReplay(t *testing.T) {
	res := mbt.NewResult()
	defer res.Write()
	// KVM_DUMP: one dump file, or several separated by commas; a suffix ":v1" marks a dump computed with Galaxias = FALSE
	for _, item := range strings.Split(os.Getenv("KVM_DUMP"), ",") {
		specGal := os.Getenv("KVM_GAL") != "0"
		if strings.HasSuffix(item, ":v1") {
			item, specGal = strings.TrimSuffix(item, ":v1"), false
		}
		replayFile(res, item, specGal)
	}
}

func replayFile(res *mbt.Result, path string, specGal bool) {
	h, err := readHeader(path)
	if err != nil {
		res.Mismatch("infra:kvm-dump", err.Error(), nil)
		return
	}
	stride := mbt.EnvInt("KVM_STRIDE", 1)
	sent, err := mbt.EachLine(path, 0, 0, stride, mbt.Seed(), func(n int, raw []byte) {
		if bytes.HasPrefix(raw, []byte(`{"lib"`)) || bytes.Contains(raw[:min(len(raw), 40)], []byte(`"lib"`)) {
			return
		}
		var d dumpLine
		if err := json.Unmarshal(raw, &d); err != nil || len(d.E) != 6 {
			res.Mismatch("infra:kvm-line", fmt.Sprintf("unparsable dump line %d: %v", n, err), string(raw[:min(len(raw), 300)]))
			return
		}
		replayLine(res, h, &d, specGal)
	})
	if err != nil {
		res.Mismatch("infra:kvm-dump", err.Error(), nil)
	}
	if sent == 0 {
		res.Mismatch("infra:kvm-dump", "no dump lines", path)
	}
}

func replayLine(res *mbt.Result, h *header, d *dumpLine, specGal bool) {
	pre := preState(h, d)
	code := concBytes(d.P)
	verdict := d.F.S == "ok" || d.F.S == "rev" || d.F.S == "fail"
	// instruction sets: both, unless some code contains byte 0x46 (CHAINID, the only difference the specification knows)
	gals := []bool{specGal, !specGal}
	if has46(d.P) || (d.E[0] > 0 && has46(h.Lib[d.E[0]-1])) || (d.E[1] > 0 && has46(h.Lib[d.E[1]-1])) {
		gals = gals[:1]
	}
	detail := func(gal bool) interface{} {
		return map[string]interface{}{"code": fmt.Sprintf("%x", code), "env(b,c,cd,v,pre,mode)": d.E, "galaxias": gal,
			"specified": d.F, "libB": libHex(h, d.E[0]), "libC": libHex(h, d.E[1])}
	}
	w := where(code)
	for _, gal := range gals {
		rs := &runSpec{pre: pre, create: d.E[5] == 1, to: idAddr(addrAID), code: code, input: concBytes(h.Cds[d.E[2]-1]),
			value: int64(d.E[3]), gas: gasEnough, gal: gal, trace: true}
		if !verdict {
			rs.gas = gasSmall
		}
		r1 := execute(rs)
		res.Count(1)
		iset := "v1"
		if gal {
			iset = "v2"
		}
		if r1.status == "panic" {
			res.Mismatch(r1.panicSig(), fmt.Sprintf("the real machine panics (%s) on a generated program [%s]", r1.errText, iset), detail(gal))
			continue
		}
		if r1.status == "hang" {
			res.Mismatch("kvm:hang:"+w, fmt.Sprintf("the real machine hangs on a generated program [%s]", iset), detail(gal))
			continue
		}
		if r1.left > rs.gas {
			res.Mismatch("kvm:gas:leftover-exceeds-supplied:"+w, fmt.Sprintf("leftover gas %d > supplied %d", r1.left, rs.gas), detail(gal))
		}
		if r1.tr.maxStack > 1024 {
			res.Mismatch("kvm:limit:stack:"+w, fmt.Sprintf("stack reached %d items", r1.tr.maxStack), detail(gal))
		}
		if r1.tr.maxDepth > 1025 {
			res.Mismatch("kvm:limit:depth:"+w, fmt.Sprintf("call depth reached %d", r1.tr.maxDepth), detail(gal))
		}
		// determinism: second run, fresh state, no tracer
		rs2 := *rs
		rs2.trace = false
		r2 := execute(&rs2)
		if r1.digest() != r2.digest() {
			res.Mismatch("kvm:determinism:"+w, "two runs of the same program on equal fresh states differ ["+iset+"]",
				map[string]interface{}{"run1": r1.digest(), "run2": r2.digest(), "case": detail(gal)})
			continue
		}
		// an unsuccessful outermost call leaves no state change (whatever the specification says about the rest)
		if r1.status != "ok" {
			nonceOK := common.Address{}
			if rs.create {
				nonceOK = idAddr(originID)
			}
			if diff := r1.unchanged(pre, nonceOK); diff != "" {
				res.Mismatch("kvm:frame:failed-top-call-changed-state:"+w, "outermost call ended with "+r1.status+" but "+diff+" ["+iset+"]", detail(gal))
			}
		}
		if !verdict {
			res.Add("no_verdict_"+d.F.S, 1)
			continue
		}
		if r1.tr.gasErr && !d.F.G {
			// the real run met a gas error where the specification assumes enough gas: outside the comparison
			res.Add("skipped_real_out_of_gas", 1)
			continue
		}
		kind, text := compareFinal(r1, d, pre)
		if kind != "" {
			sig := "kvm:" + kind + ":" + w
			if isIdentityAlias(code) && kind == "returndata" {
				sig = "kvm:returndata:identity-precompile-aliases-caller-memory"
			}
			res.Mismatch(sig, text+" ["+iset+"]", detail(gal))
			continue
		}
		res.Behaviour()
		oogPoint(res, rs, r1, pre, w, iset, detail(gal))
		if d.F.S != "ok" || len(d.F.L) > 0 || w != "plain" {
			res.Distinct(fmt.Sprintf("%x|%v", code, d.E))
		}
		if w != "plain" && w != "storage" {
			res.Sample(map[string]interface{}{"code": fmt.Sprintf("%x", code), "env": d.E, "outcome": d.F.S, "galaxias": gal})
		}
	}
}

// oogPoint: the designated out-of-gas point of the specification (KVMFrames!OutOfGas).  The run is repeated with
// one unit of gas less than it used.  For a single-frame execution (no call or create instruction executed) gas
// consumption does not depend on the gas limit, so the run MUST now end with an error, no return data, no gas
// left and an unchanged state; for multi-frame executions (63/64 rule: callees see a different limit) only the
// never-crashes clauses are checked.
func oogPoint(res *mbt.Result, rs *runSpec, r1 *runResult, pre []preAcct, w, iset string, detail interface{}) {
	if rs.gas != gasEnough || r1.left >= gasEnough || r1.left == 0 {
		return
	}
	used := gasEnough - r1.left
	single := r1.tr.maxDepth <= 1
	for _, op := range []byte{0xf0, 0xf1, 0xf2, 0xf4, 0xf5, 0xfa} {
		single = single && r1.tr.ops[op] == 0
	}
	rs3 := *rs
	rs3.gas, rs3.trace = used-1, false
	r3 := execute(&rs3)
	res.Count(1)
	if r3.status == "panic" || r3.status == "hang" {
		res.Mismatch("kvm:"+r3.status+":out-of-gas-point:"+w, fmt.Sprintf("with gas %d (one less than used) the real machine %ss: %s [%s]", rs3.gas, r3.status, r3.errText, iset), detail)
		return
	}
	if r3.left > rs3.gas {
		res.Mismatch("kvm:gas:leftover-exceeds-supplied:out-of-gas-point", fmt.Sprintf("leftover gas %d > supplied %d [%s]", r3.left, rs3.gas, iset), detail)
		return
	}
	nonceOK := common.Address{}
	if rs.create {
		nonceOK = idAddr(originID)
	}
	if r3.status != "ok" {
		if diff := r3.unchanged(pre, nonceOK); diff != "" {
			res.Mismatch("kvm:frame:failed-top-call-changed-state:out-of-gas-point:"+w, fmt.Sprintf("gas %d: outermost call ended with %s but %s [%s]", rs3.gas, r3.status, diff, iset), detail)
			return
		}
	}
	// (kvm.Create hands back the init code's output together with ErrCodeStoreOutOfGas: no data clause there)
	if single && (r3.status != "fail" || (len(r3.ret) != 0 && !rs.create) || r3.left != 0) {
		res.Mismatch("kvm:gas:out-of-gas-point:"+w, fmt.Sprintf("single-frame program used %d gas; with %d it ends %s, %d bytes returned, %d gas left; specified: error, no data, no gas [%s]",
			used, rs3.gas, r3.status, len(r3.ret), r3.left, iset), detail)
		return
	}
	res.Add("out_of_gas_points", 1)
}

func libHex(h *header, i int) string {
	if i <= 0 {
		return ""
	}
	return fmt.Sprintf("%x", concBytes(h.Lib[i-1]))
}

// a program that calls the identity precompile and later reads the return data buffer
func isIdentityAlias(code []byte) bool {
	return bytes.Contains(code, []byte{0x60, 0x04, 0x67}) && (bytes.IndexByte(code, 0x3e) >= 0)
}

func min(a, b int) int {
	if a < b {
		return a
	}
	return b
}
