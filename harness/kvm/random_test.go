package kvm

// random_test.go
//
// TestTour:   the instruction table of the specification (ValidOp / Pops / Pushes / Writes, printed by TLC in the
//             dump header) against the real jump table, for all 256 byte values of both instruction sets:
//             undefined opcode fails, one operand too few fails before the instruction executes, exactly
//             enough operands executes it, a full stack overflows exactly for the instructions that grow it,
//             every state-changing instruction fails inside a STATICCALL.  Every opcode of the table is thereby
//             executed at least once; the count goes into the evidence.
// TestRandom: for the clauses "for EVERY byte string ... terminates with a result or an error, never a panic,
//             hang or negative gas, deterministic" the specification contributes the outcome domain
//             {ok, rev, fail} (KVMFrames!Verdict) and the two limits; seeded uniformly random, opcode-weighted
//             and grammar-generated programs are executed with random call data, gas limits and pre-states.

import (
	"encoding/json"
	"fmt"
	"math/rand"
	"os"
	"runtime"
	"sync"
	"testing"

	"github.com/kardiachain/go-kardia/lib/common"

	"verifharness/internal/mbt"
)

type tables struct {
	Gal    bool   `json:"gal"`
	Valid  []bool `json:"valid"`
	Pops   []int  `json:"pops"`
	Pushes []int  `json:"pushes"`
	Writes []bool `json:"writes"`
}

func readTables(path string) (*tables, error) {
	f, err := os.ReadFile(path)
	if err != nil {
		return nil, err
	}
	for _, l := range splitLines(f) {
		if len(l) > 0 && l[0] == '"' {
			var inner string
			if json.Unmarshal(l, &inner) != nil {
				continue
			}
			var t tables
			if json.Unmarshal([]byte(inner), &t) == nil && len(t.Valid) == 256 {
				return &t, nil
			}
		}
	}
	return nil, fmt.Errorf("no instruction table in %s", path)
}

func splitLines(b []byte) [][]byte {
	var out [][]byte
	s := 0
	for i, c := range b {
		if c == '\n' {
			out = append(out, b[s:i])
			s = i + 1
		}
	}
	return append(out, b[s:])
}

// pushes n small words (values chosen so that every instruction has harmless operands: 0 offsets/sizes, address 0xa2)
func pushN(n int) []byte { return pushNFor(n, 0) }

// the filler is PUSH1 0, or PUSH2 0 when PUSH1 itself is the instruction under test
func pushNFor(n int, op int) []byte {
	var c []byte
	for i := 0; i < n; i++ {
		if op == 0x60 {
			c = append(c, 0x61, 0x00, 0x00)
		} else {
			c = append(c, 0x60, 0x00)
		}
	}
	return c
}

func tourPre(code []byte) []preAcct {
	return []preAcct{{addr: idAddr(originID), balance: 1000}, {addr: idAddr(addrAID), code: code, balance: 10},
		{addr: idAddr(addrBID), code: []byte{0x00}}}
}

func TestTour(t *testing.T) {
	res := mbt.NewResult()
	defer res.Write()
	executed := map[string]int{}
	for _, env := range []string{"KVM_HDR_V1", "KVM_HDR_V2"} {
		tb, err := readTables(os.Getenv(env))
		if err != nil {
			res.Mismatch("infra:kvm-tables", err.Error(), nil)
			return
		}
		iset := "v1"
		if tb.Gal {
			iset = "v2"
		}
		run := func(code []byte) *runResult {
			res.Count(1)
			return execute(&runSpec{pre: tourPre(code), to: idAddr(addrAID), gas: 10000000, gal: tb.Gal, trace: true})
		}
		for op := 0; op < 256; op++ {
			name := fmt.Sprintf("0x%02x", op)
			det := func(code []byte, r *runResult) interface{} {
				return map[string]interface{}{"code": fmt.Sprintf("%x", code), "set": iset, "status": r.status, "err": r.errText, "executed": r.tr != nil && r.tr.ops[op] > 0}
			}
			pops, pushes := tb.Pops[op], tb.Pushes[op]
			mk := func(n int) []byte {
				c := append(pushNFor(n, op), byte(op))
				if op >= 0x60 && op <= 0x7f {
					c = append(c, make([]byte, op-0x5f)...)
				}
				return append(c, 0x00)
			}
			// exactly enough operands
			code := mk(pops)
			r := run(code)
			if r.status == "panic" || r.status == "hang" {
				res.Mismatch("kvm:"+r.status+":tour", fmt.Sprintf("opcode %s: the real machine %ss (%s)", name, r.status, r.errText), det(code, r))
				continue
			}
			ran := r.tr.ops[op] > 0
			if ran != tb.Valid[op] {
				res.Mismatch("kvm:table:valid:"+iset, fmt.Sprintf("opcode %s with %d operands: executed=%v in the real %s table, the specification says valid=%v", name, pops, ran, iset, tb.Valid[op]), det(code, r))
				continue
			}
			if !tb.Valid[op] {
				if r.status != "fail" {
					res.Mismatch("kvm:table:undefined-opcode:"+iset, fmt.Sprintf("undefined opcode %s ends with %s, specified fail", name, r.status), det(code, r))
				}
				res.Distinct(iset + "undef" + name)
				continue
			}
			executed[iset]++
			res.Distinct(iset + "ok" + name)
			// one operand too few: underflow before execution
			if pops > 0 {
				code = mk(pops - 1)
				r = run(code)
				if r.status != "fail" || r.tr.ops[op] > 0 {
					res.Mismatch("kvm:table:underflow:"+iset, fmt.Sprintf("opcode %s with %d of %d operands: real %s (executed=%v), specified stack underflow", name, pops-1, pops, r.status, r.tr.ops[op] > 0), det(code, r))
				}
				res.Distinct(iset + "under" + name)
			}
			// the stack limit: maxStack = 1024 + pops - pushes items is fine, one more overflows
			if pushes > pops {
				max := 1024 + pops - pushes
				code = mk(max)
				r = run(code)
				if r.tr.ops[op] == 0 || r.tr.maxStack > 1024 {
					res.Mismatch("kvm:table:stack-limit:"+iset, fmt.Sprintf("opcode %s on %d items: executed=%v, highest stack %d; specified: executes, stack 1024", name, max, r.tr.ops[op] > 0, r.tr.maxStack), det(code, r))
				}
				code = mk(max + 1)
				r = run(code)
				if r.status != "fail" || r.tr.ops[op] > 0 || r.tr.maxStack > 1024 {
					res.Mismatch("kvm:table:stack-limit:"+iset, fmt.Sprintf("opcode %s on %d items: real %s executed=%v, specified stack overflow", name, max+1, r.status, r.tr.ops[op] > 0), det(code, r))
				}
				res.Distinct(iset + "over" + name)
			}
			// inside a static call: B holds the program, A static-calls B and returns the flag
			inner := mk(pops)
			if op == 0xf1 { // CALL is protected only when it carries value: operands gas,to,value=1
				inner = append(append(pushN(4), 0x60, 0x01, 0x60, 0x00, 0x60, 0x00), 0xf1, 0x00)
			}
			outer := []byte{0x60, 0x00, 0x60, 0x00, 0x60, 0x00, 0x60, 0x00, 0x60, addrBID, 0x62, 0x0f, 0x42, 0x40, 0xfa,
				0x60, 0x00, 0x52, 0x60, 0x20, 0x60, 0x00, 0xf3}
			pre := []preAcct{{addr: idAddr(originID), balance: 1000}, {addr: idAddr(addrAID), code: outer, balance: 10},
				{addr: idAddr(addrBID), code: inner, balance: 5}}
			res.Count(1)
			r = execute(&runSpec{pre: pre, to: idAddr(addrAID), gas: 10000000, gal: tb.Gal, trace: true})
			protected := tb.Writes[op] || op == 0xf1
			if r.status != "ok" || len(r.ret) != 32 {
				res.Mismatch("kvm:static:outer:"+iset, fmt.Sprintf("STATICCALL wrapper around %s ended with %s", name, r.status), det(inner, r))
			} else if protected && (r.ret[31] != 0 || r.tr.ops[op] > 0) {
				res.Mismatch("kvm:static:write-allowed:"+iset, fmt.Sprintf("state-changing opcode %s inside STATICCALL: flag %d executed=%v, specified: fails", name, r.ret[31], r.tr.ops[op] > 0), det(inner, r))
			} else if !protected && r.tr.ops[op] == 0 {
				res.Mismatch("kvm:static:read-refused:"+iset, fmt.Sprintf("opcode %s inside STATICCALL was not executed, specified: allowed", name), det(inner, r))
			}
			if d := r.unchanged(pre, common.Address{}); protected && d != "" && r.status == "ok" {
				// the outer call succeeded; nothing may have changed except touched empties
				res.Mismatch("kvm:static:state-changed:"+iset, fmt.Sprintf("opcode %s inside STATICCALL: %s", name, d), det(inner, r))
			}
			res.Behaviour()
		}
	}
	res.Set("opcodes_executed_v1", executed["v1"])
	res.Set("opcodes_executed_v2", executed["v2"])
}

// ---------------------------------------------------------------------------------------------------------

var smallConst = []byte{0, 0, 1, 2, 3, 4, 5, 6, 7, 8, 9, 31, 32, 33, 64, 0x5b, addrAID, addrBID, addrCID, 255}

func validV2(op byte) bool {
	switch {
	case op <= 0x0b, op >= 0x10 && op <= 0x1d, op == 0x20, op >= 0x30 && op <= 0x3f, op >= 0x40 && op <= 0x47 && op != 0x45,
		op >= 0x50 && op <= 0x5b, op >= 0x60 && op <= 0xa4, op >= 0xf0 && op <= 0xf5, op == 0xfa, op == 0xfd, op == 0xff:
		return true
	}
	return false
}

func genUniform(r *rand.Rand) []byte {
	n := 1 + r.Intn(64)
	if r.Intn(20) == 0 {
		n = 200 + r.Intn(2000)
	}
	b := make([]byte, n)
	r.Read(b)
	return b
}

// the boundary catalogue around 2^31, 2^32, 2^63, 2^64, 2^255 (KVMAsm!Consts), as minimal big-endian bytes
var boundaryConsts = [][]byte{{1, 0, 0}, {0x7f, 0xff, 0xff, 0xff}, {0x80, 0, 0, 0}, {0xff, 0xff, 0xff, 0xff}, {1, 0, 0, 0, 0},
	{0x7f, 0xff, 0xff, 0xff, 0xff, 0xff, 0xff, 0xff}, {0x80, 0, 0, 0, 0, 0, 0, 0},
	{0xff, 0xff, 0xff, 0xff, 0xff, 0xff, 0xff, 0xdf}, {0xff, 0xff, 0xff, 0xff, 0xff, 0xff, 0xff, 0xe0}, {0xff, 0xff, 0xff, 0xff, 0xff, 0xff, 0xff, 0xf0},
	{0xff, 0xff, 0xff, 0xff, 0xff, 0xff, 0xff, 0xff}, {1, 0, 0, 0, 0, 0, 0, 0, 0}, {1, 0, 0, 0, 0, 0, 0, 0, 1},
	append([]byte{0x80}, make([]byte, 31)...)}

func pushRand(r *rand.Rand, c []byte) []byte {
	if r.Intn(6) == 0 {
		b := boundaryConsts[r.Intn(len(boundaryConsts))]
		return append(append(c, byte(0x5f+len(b))), b...)
	}
	switch r.Intn(10) {
	case 0: // huge
		n := []int{4, 8, 9, 20, 32}[r.Intn(5)]
		c = append(c, byte(0x5f+n))
		for i := 0; i < n; i++ {
			if r.Intn(3) == 0 {
				c = append(c, byte(r.Intn(256)))
			} else {
				c = append(c, 0xff)
			}
		}
	case 1:
		n := 1 + r.Intn(32)
		c = append(c, byte(0x5f+n))
		d := make([]byte, n)
		r.Read(d)
		c = append(c, d...)
	case 2:
		c = append(c, 0x61, byte(r.Intn(4)), byte(r.Intn(256)))
	default:
		c = append(c, 0x60, smallConst[r.Intn(len(smallConst))])
	}
	return c
}

func genWeighted(r *rand.Rand) []byte {
	var c []byte
	n := 1 + r.Intn(40)
	for i := 0; i < n; i++ {
		switch r.Intn(12) {
		case 0, 1, 2, 3:
			c = pushRand(r, c)
		case 4: // memory / copy / log / return with operands
			ops := []byte{0x51, 0x52, 0x53, 0x37, 0x39, 0x3c, 0x3e, 0x20, 0xa0, 0xa1, 0xa2, 0xa3, 0xa4, 0xf3, 0xfd, 0xf0, 0xf5}
			for k := 0; k < 2+r.Intn(3); k++ {
				c = pushRand(r, c)
			}
			c = append(c, ops[r.Intn(len(ops))])
		case 5: // a call: outsize outoff insize inoff [value] addr gas
			kind := []byte{0xf1, 0xf2, 0xf4, 0xfa}[r.Intn(4)]
			c = append(c, 0x60, byte(r.Intn(70)), 0x60, byte(r.Intn(70)), 0x60, byte(r.Intn(200)), 0x60, byte(r.Intn(40)))
			if kind == 0xf1 || kind == 0xf2 {
				c = append(c, 0x60, byte(r.Intn(3)))
			}
			addr := []byte{1, 2, 3, 4, 5, 6, 7, 8, 9, addrAID, addrBID, addrCID, 0x77}[r.Intn(13)]
			c = append(c, 0x60, addr)
			if r.Intn(2) == 0 {
				c = append(c, 0x5a)
			} else {
				c = append(c, 0x62, byte(r.Intn(16)), byte(r.Intn(256)), byte(r.Intn(256)))
			}
			c = append(c, kind)
		case 6: // jumps
			c = append(c, 0x60, byte(r.Intn(len(c)+8)), []byte{0x56, 0x57}[r.Intn(2)])
		case 7:
			c = append(c, 0x5b)
		default:
			op := byte(r.Intn(256))
			for tries := 0; tries < 3 && !validV2(op); tries++ {
				op = byte(r.Intn(256))
			}
			c = append(c, op)
		}
	}
	if r.Intn(4) == 0 { // truncated PUSH at the end
		n := 2 + r.Intn(31)
		c = append(c, byte(0x5f+n))
		c = append(c, make([]byte, r.Intn(n))...)
	}
	return c
}

// grammar: blocks that start with JUMPDEST, contain stack-neutral statements and end with a jump to a block
func genGrammar(r *rand.Rand) []byte {
	nb := 2 + r.Intn(4)
	type blk struct {
		body   []byte
		target int
		cond   bool
	}
	bs := make([]blk, nb)
	stmts := [][]byte{
		{0x60, 1, 0x60, 0, 0x54, 0x01, 0x60, 0, 0x55},       // slot0++
		{0x60, 0, 0x51, 0x60, 1, 0x01, 0x60, 0, 0x52},       // mem0++
		{0x60, 7, 0x60, 32, 0x53},                           // mstore8
		{0x60, 32, 0x60, 0, 0x60, 0, 0x37},                  // calldatacopy
		{0x60, 16, 0x60, 3, 0x60, 64, 0x39},                 // codecopy
		{0x60, 0, 0x60, 0, 0xa0},                            // log0
		{0x59, 0x50, 0x58, 0x50, 0x36, 0x50, 0x38, 0x50},    // msize pc calldatasize codesize
		{0x60, 5, 0x60, 9, 0x02, 0x60, 4, 0x90, 0x04, 0x50}, // arithmetic
		{0x60, 0, 0x60, 0, 0x60, 32, 0x60, 0, 0x60, 0, 0x60, addrBID, 0x5a, 0xf1, 0x50},
		{0x60, 0, 0x60, 0, 0x60, 32, 0x60, 0, 0x60, addrBID, 0x5a, 0xfa, 0x50, 0x3d, 0x50},
	}
	for i := range bs {
		for k := 0; k < r.Intn(4); k++ {
			bs[i].body = append(bs[i].body, stmts[r.Intn(len(stmts))]...)
		}
		bs[i].target = r.Intn(nb)
		bs[i].cond = r.Intn(2) == 0
	}
	// layout: JUMPDEST body [cond] PUSH2 target JUMP/JUMPI
	off := make([]int, nb)
	pos := 0
	for i := range bs {
		off[i] = pos
		pos += 1 + len(bs[i].body) + 4
		if bs[i].cond {
			pos += 4 // PUSH1 0 SLOAD ... : "PUSH1 3 PUSH1 0 SLOAD LT"? keep simple: CALLDATASIZE ISZERO + (PUSH2 JUMPI)
		}
	}
	var c []byte
	for i := range bs {
		c = append(c, 0x5b)
		c = append(c, bs[i].body...)
		t := off[bs[i].target]
		if bs[i].cond {
			// counter in slot 0 below 5 ?  PUSH1 5 PUSH1 0 SLOAD LT  (6 bytes) -- layout reserved 4: use MSIZE ISZERO ISZERO + pad
			c = append(c, 0x59, 0x15, 0x15, 0x5b) // MSIZE ISZERO ISZERO JUMPDEST(pad)
			c = append(c, 0x61, byte(t>>8), byte(t), 0x57)
		} else {
			c = append(c, 0x61, byte(t>>8), byte(t), 0x56)
		}
	}
	return append(c, 0x00)
}

func TestRandom(t *testing.T) {
	res := mbt.NewResult()
	defer res.Write()
	total := mbt.EnvInt("KVM_RANDOM", 20000)
	workers := runtime.NumCPU()
	var wg sync.WaitGroup
	var mu sync.Mutex
	var ops [2][256]int
	gasChoices := []uint64{0, 1, 20, 100, 700, 3000, 21000, 100000, 1000000, 5000000}
	for w := 0; w < workers; w++ {
		wg.Add(1)
		go func(w int) {
			defer wg.Done()
			r := rand.New(rand.NewSource(mbt.Seed()*1000003 + int64(w)))
			for i := w; i < total; i += workers {
				var code []byte
				var gen string
				switch i % 3 {
				case 0:
					code, gen = genUniform(r), "uniform"
				case 1:
					code, gen = genWeighted(r), "weighted"
				default:
					code, gen = genGrammar(r), "grammar"
				}
				other := genWeighted(r)
				input := make([]byte, r.Intn(100))
				r.Read(input)
				gas := gasChoices[r.Intn(len(gasChoices))]
				if r.Intn(4) == 0 {
					gas = uint64(r.Intn(200000))
				}
				value := int64(r.Intn(3))
				create := r.Intn(8) == 0
				pre := []preAcct{{addr: idAddr(originID), balance: 1000, nonce: uint64(r.Intn(2))},
					{addr: idAddr(addrBID), code: other, balance: int64(r.Intn(5))}}
				if !create {
					pre = append(pre, preAcct{addr: idAddr(addrAID), code: code, balance: int64(r.Intn(20)),
						storage: map[common.Hash]common.Hash{{}: common.BytesToHash([]byte{byte(r.Intn(3))})}})
				}
				if r.Intn(2) == 0 {
					pre = append(pre, preAcct{addr: idAddr(addrCID), code: []byte{0x60, 0x2a, 0x60, 0x00, 0x52, 0x60, 0x20, 0x60, 0x00, 0xf3}})
				}
				for g := 0; g < 2; g++ {
					gal := g == 1
					rs := &runSpec{pre: pre, create: create, to: idAddr(addrAID), code: code, input: input, value: value, gas: gas, gal: gal, trace: true}
					r1 := execute(rs)
					res.Count(1)
					det := map[string]interface{}{"generator": gen, "code": fmt.Sprintf("%x", code), "codeB": fmt.Sprintf("%x", other), "input": fmt.Sprintf("%x", input),
						"gas": gas, "value": value, "create": create, "galaxias": gal, "seed": mbt.Seed(), "status": r1.status, "err": r1.errText}
					// the outcome domain of the specification: a result or an error value
					if r1.status == "panic" {
						res.Mismatch(r1.panicSig(), fmt.Sprintf("the real machine panics on a %s byte string: %s", gen, r1.errText), det)
						continue
					}
					if r1.status != "ok" && r1.status != "rev" && r1.status != "fail" {
						res.Mismatch("kvm:"+r1.status+":random-"+gen, fmt.Sprintf("the real machine %ss on a %s byte string: %s", r1.status, gen, r1.errText), det)
						continue
					}
					if r1.left > gas {
						res.Mismatch("kvm:gas:leftover-exceeds-supplied:random", fmt.Sprintf("leftover gas %d > supplied %d (%s)", r1.left, gas, r1.status), det)
					}
					if r1.tr.maxStack > 1024 {
						res.Mismatch("kvm:limit:stack:random", fmt.Sprintf("stack reached %d items", r1.tr.maxStack), det)
					}
					if r1.tr.maxDepth > 1025 {
						res.Mismatch("kvm:limit:depth:random", fmt.Sprintf("call depth reached %d", r1.tr.maxDepth), det)
					}
					rs2 := *rs
					rs2.trace = false
					r2 := execute(&rs2)
					if r1.digest() != r2.digest() {
						det["run1"], det["run2"] = r1.digest(), r2.digest()
						res.Mismatch("kvm:determinism:random", "two runs of the same byte string on equal fresh states differ", det)
						continue
					}
					if r1.status != "ok" {
						nonceOK := common.Address{}
						if create {
							nonceOK = idAddr(originID)
						}
						if d := r1.unchanged(pre, nonceOK); d != "" {
							res.Mismatch("kvm:frame:failed-top-call-changed-state:random", "outermost call ended with "+r1.status+" but "+d, det)
						}
					}
					res.Behaviour()
					if r1.tr.steps > 3 {
						res.Distinct(fmt.Sprintf("%x|%d|%v", code, gas, gal))
					}
					mu.Lock()
					for k, n := range r1.tr.ops {
						ops[g][k] += n
					}
					mu.Unlock()
				}
			}
		}(w)
	}
	wg.Wait()
	for g, name := range []string{"random_opcodes_executed_v1", "random_opcodes_executed_v2"} {
		n := 0
		for _, c := range ops[g] {
			if c > 0 {
				n++
			}
		}
		res.Set(name, n)
	}
}
