package kvm

// arith_test.go: recorder for specs/kvm/KVMArith.tla.  Tiny real programs PUSH32 n PUSH32 b PUSH32 a OP ... RETURN are
// executed by the real machine on seeded 256-bit operands (edge catalogue + uniform + random bit length) in both
// instruction sets; operands, result(s) and an untrusted witness quotient go to $VERIF_SCRATCH/kvm-arith.ndjson.
// TLC evaluates the defining law of the instruction on every line; nothing computed here is trusted.

import (
	"bufio"
	"bytes"
	"encoding/json"
	"fmt"
	"math/big"
	"math/rand"
	"os"
	"path/filepath"
	"testing"

	"verifharness/internal/mbt"
)

var two256 = new(big.Int).Lsh(big.NewInt(1), 256)

func pow2(n uint) *big.Int { return new(big.Int).Lsh(big.NewInt(1), n) }
func sub1(x *big.Int) *big.Int { return new(big.Int).Sub(x, big.NewInt(1)) }

func edgeValues() []*big.Int {
	vs := []*big.Int{big.NewInt(0), big.NewInt(1), big.NewInt(2), big.NewInt(3), big.NewInt(7), big.NewInt(255), big.NewInt(256),
		pow2(255), sub1(pow2(255)), new(big.Int).Add(pow2(255), big.NewInt(1)), sub1(two256), new(big.Int).Sub(two256, big.NewInt(2)),
		pow2(128), sub1(pow2(128)), pow2(64), sub1(pow2(64)), new(big.Int).Sub(two256, pow2(128)), new(big.Int).Add(pow2(200), big.NewInt(12345))}
	return vs
}

func randWord(r *rand.Rand) *big.Int {
	b := make([]byte, 32)
	r.Read(b)
	x := new(big.Int).SetBytes(b)
	switch r.Intn(4) {
	case 0: // random bit length
		x.Rsh(x, uint(r.Intn(256)))
	case 1: // negative small in two's complement
		x.Rsh(x, uint(128+r.Intn(128)))
		x.Sub(two256, x)
		x.Mod(x, two256)
	}
	return x
}

func word32(x *big.Int) []byte { b := make([]byte, 32); x.FillBytes(b); return b }

type arithCase struct {
	op      string
	ops     []byte // opcode(s): one, or two for DIVMOD / SDIVSMOD
	a, b, n *big.Int
	arity   int
	tag     string
}

func arithProgram(op byte, c *arithCase) []byte {
	var p []byte
	push := func(x *big.Int) { p = append(append(p, 0x7f), word32(x)...) }
	if c.arity >= 3 {
		push(c.n)
	}
	if c.arity >= 2 {
		push(c.b)
	}
	push(c.a)
	return append(p, op, 0x60, 0x00, 0x52, 0x60, 0x20, 0x60, 0x00, 0xf3)
}

func TestArith(t *testing.T) {
	res := mbt.NewResult()
	defer res.Write()
	nrand := mbt.EnvInt("KVM_ARITH_RANDOM", 120)
	nbigexp := mbt.EnvInt("KVM_ARITH_BIGEXP", 3)
	r := rand.New(rand.NewSource(mbt.Seed()*104729 + 17))
	E := edgeValues()
	var cases []arithCase
	bin := map[string][]byte{"MUL": {0x02}, "DIVMOD": {0x04, 0x06}, "SDIVSMOD": {0x05, 0x07}, "ADD": {0x01}, "SUB": {0x03},
		"LT": {0x10}, "GT": {0x11}, "SLT": {0x12}, "SGT": {0x13}, "EQ": {0x14}, "AND": {0x16}, "OR": {0x17}, "XOR": {0x18}}
	heavy := map[string]bool{"MUL": true, "DIVMOD": true, "SDIVSMOD": true}
	for _, name := range []string{"MUL", "DIVMOD", "SDIVSMOD", "ADD", "SUB", "LT", "GT", "SLT", "SGT", "EQ", "AND", "OR", "XOR"} {
		for i, a := range E {
			for j, b := range E {
				if !heavy[name] && (i+j)%3 != 0 { // the cheap, already exact instructions: a third of the pairs
					continue
				}
				cases = append(cases, arithCase{op: name, ops: bin[name], a: a, b: b, arity: 2, tag: "edge"})
			}
		}
		n := nrand
		if !heavy[name] {
			n = nrand / 3
		}
		for k := 0; k < n; k++ {
			a, b := randWord(r), randWord(r)
			if k%7 == 0 {
				b = a // equal operands
			}
			cases = append(cases, arithCase{op: name, ops: bin[name], a: a, b: b, arity: 2, tag: "random"})
		}
	}
	for _, name := range []string{"ISZERO", "NOT"} {
		op := map[string]byte{"ISZERO": 0x15, "NOT": 0x19}[name]
		for _, a := range E {
			cases = append(cases, arithCase{op: name, ops: []byte{op}, a: a, arity: 1, tag: "edge"})
		}
		for k := 0; k < nrand/6; k++ {
			cases = append(cases, arithCase{op: name, ops: []byte{op}, a: randWord(r), arity: 1, tag: "random"})
		}
	}
	// shifts, BYTE, SIGNEXTEND: a = amount / index, b = value
	amounts := []*big.Int{big.NewInt(0), big.NewInt(1), big.NewInt(7), big.NewInt(8), big.NewInt(9), big.NewInt(30), big.NewInt(31), big.NewInt(32),
		big.NewInt(33), big.NewInt(127), big.NewInt(128), big.NewInt(255), big.NewInt(256), big.NewInt(257), pow2(64), sub1(two256)}
	for name, op := range map[string]byte{"BYTE": 0x1a, "SHL": 0x1b, "SHR": 0x1c, "SAR": 0x1d, "SIGNEXTEND": 0x0b} {
		for _, a := range amounts {
			for _, b := range []*big.Int{E[1], E[7], E[8], E[10], E[16], randWord(r), randWord(r)} {
				cases = append(cases, arithCase{op: name, ops: []byte{op}, a: a, b: b, arity: 2, tag: "edge"})
			}
		}
		for k := 0; k < nrand/2; k++ {
			cases = append(cases, arithCase{op: name, ops: []byte{op}, a: big.NewInt(int64(r.Intn(300))), b: randWord(r), arity: 2, tag: "random"})
		}
	}
	// ADDMOD / MULMOD
	moduli := []*big.Int{big.NewInt(0), big.NewInt(1), big.NewInt(2), big.NewInt(3), pow2(255), sub1(two256), new(big.Int).Add(pow2(128), big.NewInt(1)), sub1(pow2(255))}
	for name, op := range map[string]byte{"ADDMOD": 0x08, "MULMOD": 0x09} {
		for _, a := range []*big.Int{E[0], E[1], E[7], E[8], E[10], E[11], E[13]} {
			for _, b := range []*big.Int{E[1], E[2], E[7], E[10], E[12]} {
				for _, n := range moduli {
					cases = append(cases, arithCase{op: name, ops: []byte{op}, a: a, b: b, n: n, arity: 3, tag: "edge"})
				}
			}
		}
		for k := 0; k < nrand; k++ {
			cases = append(cases, arithCase{op: name, ops: []byte{op}, a: randWord(r), b: randWord(r), n: randWord(r), arity: 3, tag: "random"})
		}
	}
	// EXP: a = base, b = exponent
	exps := []*big.Int{big.NewInt(0), big.NewInt(1), big.NewInt(2), big.NewInt(3), big.NewInt(10), big.NewInt(255), big.NewInt(256), big.NewInt(257), big.NewInt(65535)}
	for _, a := range []*big.Int{E[0], E[1], E[2], E[3], E[5], E[7], E[10], E[12], E[13], new(big.Int).Add(pow2(128), big.NewInt(1)), randWord(r), randWord(r)} {
		for _, b := range exps {
			cases = append(cases, arithCase{op: "EXP", ops: []byte{0x0a}, a: a, b: b, arity: 2, tag: "edge"})
		}
	}
	for k := 0; k < nrand/4; k++ {
		cases = append(cases, arithCase{op: "EXP", ops: []byte{0x0a}, a: randWord(r), b: big.NewInt(int64(r.Intn(70000))), arity: 2, tag: "random"})
	}
	// exponents beyond 64 and 128 bits (sparse, so that square-and-multiply in TLC stays cheap)
	for _, a := range []*big.Int{big.NewInt(3), new(big.Int).Add(pow2(128), big.NewInt(1)), new(big.Int).SetBit(randWord(r), 0, 1)} {
		for _, b := range []*big.Int{new(big.Int).Add(pow2(64), big.NewInt(1)), new(big.Int).Add(pow2(130), big.NewInt(7))} {
			cases = append(cases, arithCase{op: "EXP", ops: []byte{0x0a}, a: a, b: b, arity: 2, tag: "edge"})
		}
	}
	for k := 0; k < nbigexp; k++ {
		a := randWord(r)
		a.SetBit(a, 0, 1) // odd base: the result does not collapse to 0
		cases = append(cases, arithCase{op: "EXP", ops: []byte{0x0a}, a: a, b: randWord(r), arity: 2, tag: "random"})
	}

	// spread the expensive lines (EXP) over the file: TLC checks lines i, i + Stride, ... per worker
	r.Shuffle(len(cases), func(i, j int) { cases[i], cases[j] = cases[j], cases[i] })

	dir := os.Getenv("VERIF_SCRATCH")
	if dir == "" {
		dir = os.TempDir()
	}
	f, err := os.Create(filepath.Join(dir, "kvm-arith.ndjson"))
	if err != nil {
		res.Mismatch("infra:kvm-arith", err.Error(), nil)
		return
	}
	defer f.Close()
	w := bufio.NewWriter(f)
	defer w.Flush()
	lines := 0
	for ci := range cases {
		c := &cases[ci]
		var out [2][][]byte // per instruction set, per opcode
		bad := false
		for g := 0; g < 2 && !bad; g++ {
			for _, op := range c.ops {
				code := arithProgram(op, c)
				rr := execute(&runSpec{pre: []preAcct{{addr: idAddr(originID), balance: 1000}, {addr: idAddr(addrAID), code: code}},
					to: idAddr(addrAID), gas: 10000000, gal: g == 1})
				res.Count(1)
				if rr.status != "ok" || len(rr.ret) != 32 {
					res.Mismatch("kvm:arith:"+c.op+":"+rr.status, fmt.Sprintf("%s on 256-bit operands ends with %s (%s), %d bytes returned", c.op, rr.status, rr.errText, len(rr.ret)),
						map[string]interface{}{"code": fmt.Sprintf("%x", code), "galaxias": g == 1})
					bad = true
					break
				}
				out[g] = append(out[g], rr.ret)
			}
		}
		if bad {
			continue
		}
		sets := []int{3}
		for k := range c.ops {
			if !bytes.Equal(out[0][k], out[1][k]) {
				sets = []int{1, 2}
			}
		}
		for _, s := range sets {
			o := out[0]
			if s == 2 {
				o = out[1]
			}
			rec := map[string]interface{}{"op": c.op, "a": ints(word32(c.a)), "b": []int{}, "n": []int{}, "r": ints(o[0]), "r2": []int{}, "w": []int{}, "t": c.tag, "s": s}
			if c.arity >= 2 {
				rec["b"] = ints(word32(c.b))
			}
			if c.arity >= 3 {
				rec["n"] = ints(word32(c.n))
				if c.n.Sign() != 0 { // untrusted witness quotient
					x := new(big.Int)
					if c.op == "ADDMOD" {
						x.Add(c.a, c.b)
					} else {
						x.Mul(c.a, c.b)
					}
					rec["w"] = ints(x.Div(x, c.n).Bytes())
				}
			}
			if len(o) > 1 {
				rec["r2"] = ints(o[1])
			}
			j, _ := json.Marshal(rec)
			w.Write(j)
			w.WriteByte('\n')
			lines++
			res.Behaviour()
			res.Distinct(fmt.Sprintf("%s|%x|%x", c.op, c.a, c.b))
		}
	}
	res.Set("arith_lines", lines)
}
