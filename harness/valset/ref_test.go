//go:build verif

package valset

// refSet is a line-by-line copy of specs/valset/ValidatorSet.tla in arbitrary-precision integers.  It is NOT an
// oracle of its own: at unit scale every transition TLC generates is executed on it too and its result must equal
// the result TLC printed (any difference is an infrastructure error of this copy).  Its only purpose is to LIFT the
// specification to magnitudes TLC's 32-bit integers cannot reach: at the scale where the specification's Cap is the
// real MaxTotalVotingPower the rounding of the 1/8 term and the rescale threshold are not scale-invariant, so the
// small-scale result cannot be multiplied; the copy, run at the large scale, says what the specification says there.

import (
	"math/big"
	"sort"
)

type refVal struct {
	a    int
	p    *big.Int
	prio *big.Int
}
type refSet []refVal

func bi(x int64) *big.Int { return big.NewInt(x) }

// TruncDiv: Go's integer division (toward zero)
func truncDiv(a, b *big.Int) *big.Int { return new(big.Int).Quo(a, b) }

// floorDiv: TLA+ \div for a positive divisor (floor) = big.Int.Div (Euclidean, divisor > 0)
func floorDiv(a, b *big.Int) *big.Int { return new(big.Int).Div(a, b) }

func (v refSet) total() *big.Int {
	s := new(big.Int)
	for _, x := range v {
		s.Add(s, x.p)
	}
	return s
}
func (v refSet) copySet() refSet {
	out := make(refSet, len(v))
	for i, x := range v {
		out[i] = refVal{x.a, new(big.Int).Set(x.p), new(big.Int).Set(x.prio)}
	}
	return out
}

// Rescale(v, diffMax)
func (v refSet) rescale(diffMax *big.Int) {
	if diffMax.Sign() <= 0 || len(v) == 0 {
		return
	}
	mx, mn := new(big.Int).Set(v[0].prio), new(big.Int).Set(v[0].prio)
	for _, x := range v {
		if x.prio.Cmp(mx) > 0 {
			mx.Set(x.prio)
		}
		if x.prio.Cmp(mn) < 0 {
			mn.Set(x.prio)
		}
	}
	d := new(big.Int).Sub(mx, mn)
	if d.Cmp(diffMax) > 0 {
		ratio := floorDiv(new(big.Int).Sub(new(big.Int).Add(d, diffMax), bi(1)), diffMax)
		for i := range v {
			v[i].prio = truncDiv(v[i].prio, ratio)
		}
	}
}

// ShiftByAvg(v)
func (v refSet) shiftByAvg() {
	if len(v) == 0 {
		return
	}
	s := new(big.Int)
	for _, x := range v {
		s.Add(s, x.prio)
	}
	avg := floorDiv(s, bi(int64(len(v))))
	for i := range v {
		v[i].prio = new(big.Int).Sub(v[i].prio, avg)
	}
}

// IncOnce(v): returns the proposer's address
func (v refSet) incOnce() int {
	t := v.total()
	for i := range v {
		v[i].prio = new(big.Int).Add(v[i].prio, v[i].p)
	}
	m := 0
	for i := range v {
		if c := v[i].prio.Cmp(v[m].prio); c > 0 || (c == 0 && v[i].a < v[m].a) {
			m = i
		}
	}
	v[m].prio = new(big.Int).Sub(v[m].prio, t)
	return v[m].a
}

// IncrementOp(v, times)
func (v refSet) increment(times int64) int {
	v.rescale(new(big.Int).Mul(bi(2), v.total()))
	v.shiftByAvg()
	prop := 0
	for k := int64(0); k < times; k++ {
		prop = v.incOnce()
	}
	return prop
}

func (v refSet) sortSet() {
	sort.SliceStable(v, func(i, j int) bool {
		if c := v[i].p.Cmp(v[j].p); c != 0 {
			return c > 0
		}
		return v[i].a < v[j].a
	})
}
func (v refSet) get(a int) (refVal, bool) {
	for _, x := range v {
		if x.a == a {
			return x, true
		}
	}
	return refVal{}, false
}

type refCh struct {
	a int
	p *big.Int
}

// UpdateOp(v, chs) with cap
func (v refSet) update(chs []refCh, cap *big.Int) (string, refSet) {
	if len(chs) == 0 {
		return "ok", v
	}
	seen := map[int]bool{}
	dup := false
	for _, c := range chs {
		if seen[c.a] {
			dup = true
		}
		seen[c.a] = true
	}
	removed, sumDelta := new(big.Int), new(big.Int)
	unknownDel, neg, big_ := false, false, false
	numNew, numDel := 0, 0
	for _, c := range chs {
		if c.p.Sign() < 0 {
			neg = true
		}
		if c.p.Cmp(cap) > 0 {
			big_ = true
		}
	}
	if !dup {
		for _, c := range chs {
			old, has := v.get(c.a)
			if c.p.Sign() == 0 {
				numDel++
				if !has {
					unknownDel = true
				} else {
					removed.Add(removed, old.p)
				}
			} else if c.p.Sign() > 0 {
				if has {
					sumDelta.Add(sumDelta, new(big.Int).Sub(c.p, old.p))
				} else {
					numNew++
					sumDelta.Add(sumDelta, c.p)
				}
			}
		}
	}
	afterUpd := new(big.Int).Add(new(big.Int).Sub(v.total(), removed), sumDelta)
	switch {
	case dup:
		return "dup", v
	case neg:
		return "neg", v
	case big_:
		return "big", v
	case unknownDel:
		return "unknown", v
	case afterUpd.Cmp(cap) > 0:
		return "overflow", v
	case numNew == 0 && len(v) == numDel:
		return "empty", v
	}
	T := new(big.Int).Add(afterUpd, removed)
	newPrio := new(big.Int).Neg(new(big.Int).Add(T, floorDiv(T, bi(8))))
	var merged refSet
	for _, x := range v {
		if !seen[x.a] {
			merged = append(merged, refVal{x.a, new(big.Int).Set(x.p), new(big.Int).Set(x.prio)})
		}
	}
	for _, c := range chs {
		if c.p.Sign() > 0 {
			pr := newPrio
			if old, has := v.get(c.a); has {
				pr = old.prio
			}
			merged = append(merged, refVal{c.a, new(big.Int).Set(c.p), new(big.Int).Set(pr)})
		}
	}
	merged.sortSet()
	merged.rescale(new(big.Int).Mul(bi(2), merged.total()))
	merged.shiftByAvg()
	merged.sortSet()
	return "ok", merged
}

// newRefSet: NewSet(chs) = UpdateOp(<<>>, chs) then IncrementOp(1)
func newRefSet(powers []int64, unit int64, cap *big.Int) refSet {
	var chs []refCh
	for i, p := range powers {
		chs = append(chs, refCh{i + 1, new(big.Int).Mul(bi(p), bi(unit))})
	}
	_, v := refSet{}.update(chs, cap)
	v.increment(1)
	return v
}

func (x refVal) String() string {
	return "{" + itoa(x.a) + " " + x.p.String() + " " + x.prio.String() + "}"
}
func itoa(i int) string { return big.NewInt(int64(i)).String() }
