// Package valset replays every transition of specs/valset (TLC dump) into the real
// types.ValidatorSet and compares order, powers, priorities, proposer and error outcome (C12).
package valset

import (
	"bytes"
	"encoding/json"
	"fmt"
	"math/big"
	"os"
	"strconv"
	"strings"
	"testing"

	"github.com/kardiachain/go-kardia/lib/common"
	"github.com/kardiachain/go-kardia/types"

	"verifharness/internal/mbt"
)

type ch struct {
	A int   `json:"a"`
	P int64 `json:"p"`
}
type val struct {
	A    int   `json:"a"`
	P    int64 `json:"p"`
	Prio int64 `json:"prio"`
}
type line struct {
	H []json.RawMessage `json:"h"`
	V []val             `json:"v"`
	P int               `json:"p"`
}
type act struct {
	op    string
	times int64
	chs   []ch
	res   string
}

func parseAct(raw json.RawMessage) act {
	var parts []json.RawMessage
	if err := json.Unmarshal(raw, &parts); err != nil {
		panic(err)
	}
	var a act
	json.Unmarshal(parts[0], &a.op)
	if a.op == "inc" {
		json.Unmarshal(parts[1], &a.times)
	} else {
		json.Unmarshal(parts[1], &a.chs)
		json.Unmarshal(parts[2], &a.res)
	}
	return a
}

// Abstract validator identity a (1, 2, ... ordered as the specification orders addresses: BYTE order) -> concrete
// address.  Two tables: "plain" (0x00..0a) and "mixed" (VSET_ADDRS=mixed): addresses whose byte order is the
// identity order but whose first distinguishing hex digit is a LETTER, lower-case for odd and upper-case for even
// identities in the checksummed text form - every textual order (hex with or without checksum case, String()) that
// is not the byte order puts some pair the other way round.
var addrTab = func() []common.Address {
	const n = 12
	tab := make([]common.Address, n+1)
	for a := 1; a <= n; a++ {
		tab[a] = common.BytesToAddress([]byte{byte(a)})
	}
	if os.Getenv("VSET_ADDRS") != "mixed" {
		return tab
	}
	for a := 1; a <= n; a++ {
		var first byte
		pos := 0 // index of the distinguishing hex digit in the 40-digit text
		if a <= 6 {
			first = byte(0xa+a-1) << 4 // a0, b0, ... f0
		} else {
			first, pos = 0xf0|byte(0xa+a-7), 1 // fa, fb, ... ff
		}
		for k := 0; ; k++ {
			var b [20]byte
			b[0] = first
			b[18], b[19] = byte(k>>8), byte(k)
			ad := common.BytesToAddress(b[:])
			c := ad.Hex()[2+pos]
			if upper := c >= 'A' && c <= 'F'; upper == (a%2 == 0) {
				tab[a] = ad
				break
			}
		}
	}
	for a := 2; a <= n; a++ {
		if bytes.Compare(tab[a-1].Bytes(), tab[a].Bytes()) >= 0 {
			panic("address table not in byte order")
		}
	}
	return tab
}()

func addr(a int) common.Address { return addrTab[a] }
func idOf(ad common.Address) int {
	for a := 1; a < len(addrTab); a++ {
		if addrTab[a] == ad {
			return a
		}
	}
	return -1
}

func mkChanges(chs []ch, unit int64, order int) []*types.Validator {
	out := make([]*types.Validator, 0, len(chs))
	for _, c := range chs {
		out = append(out, types.NewValidator(addr(c.A), c.P*unit))
	}
	if order == 1 { // reversed
		for i, j := 0, len(out)-1; i < j; i, j = i+1, j-1 {
			out[i], out[j] = out[j], out[i]
		}
	}
	return out
}

func snapshot(vs *types.ValidatorSet) string {
	var sb strings.Builder
	for _, v := range vs.Validators {
		fmt.Fprintf(&sb, "%x/%d/%d ", idOf(v.Address), v.VotingPower, v.ProposerPriority)
	}
	return sb.String()
}

// applyReal performs one action; returns "ok"/"err"/"PANIC:..".
func applyReal(vs *types.ValidatorSet, a act, unit int64, order int) (res string) {
	defer func() {
		if r := recover(); r != nil {
			res = fmt.Sprint("PANIC: ", r)
		}
	}()
	if a.op == "inc" {
		vs.IncrementProposerPriority(a.times)
		return "ok"
	}
	if err := vs.UpdateWithChangeSet(mkChanges(a.chs, unit, order)); err != nil {
		return "err"
	}
	return "ok"
}

func initSet(powers []int64, unit int64) *types.ValidatorSet {
	vals := make([]*types.Validator, len(powers))
	for i, p := range powers {
		vals[i] = types.NewValidator(addr(i+1), p*unit)
	}
	return types.NewValidatorSet(vals)
}

func TestReplay(t *testing.T) {
	res := mbt.NewResult()
	defer res.Write()
	var initP []int64
	for _, f := range strings.Split(os.Getenv("VSET_INIT"), ",") {
		p, _ := strconv.ParseInt(f, 10, 64)
		initP = append(initP, p)
	}
	cmpPrio := os.Getenv("VSET_COMPARE_PRIO") != "0"
	capSpec := int64(mbt.EnvInt("VSET_CAP", 0)) // > 0: scale so that the spec's Cap is the real cap
	unit := int64(1)
	if capSpec > 0 {
		unit = types.MaxTotalVotingPower / capSpec
	}
	pfx := "valset:"
	sent, err := mbt.EachLine(os.Getenv("VSET_DUMP"), 0, mbt.EnvInt("VSET_LIMIT", 0), mbt.EnvInt("VSET_STRIDE", 1), mbt.Seed(), func(n int, raw []byte) {
		var l line
		if err := json.Unmarshal(raw, &l); err != nil {
			res.Mismatch("infra:parse", err.Error(), string(raw))
			return
		}
		acts := make([]act, len(l.H))
		for i, r := range l.H {
			acts[i] = parseAct(r)
		}
		vs := initSet(initP, unit)
		detail := map[string]interface{}{"init": initP, "hist": l.H, "unit": unit}
		// the arbitrary-precision copy of the specification: at unit scale it must reproduce what TLC printed; at the
		// large scale it states what the specification says there (see ref_test.go)
		specCap := big.NewInt(1000000)
		if capSpec > 0 {
			specCap = big.NewInt(capSpec)
		}
		ref1 := newRefSet(initP, 1, specCap)
		refU := newRefSet(initP, unit, big.NewInt(types.MaxTotalVotingPower))
		refProp1, refPropU := 0, 0
		for _, a := range acts {
			if a.op == "inc" {
				refProp1, refPropU = ref1.increment(a.times), refU.increment(a.times)
				continue
			}
			var c1, cU []refCh
			for _, c := range a.chs {
				c1 = append(c1, refCh{c.A, big.NewInt(c.P)})
				cU = append(cU, refCh{c.A, new(big.Int).Mul(big.NewInt(c.P), big.NewInt(unit))})
			}
			r1, n1 := ref1.copySet().update(c1, specCap)
			if r1 != a.res {
				res.Mismatch("infra:ref-transcription:result", fmt.Sprintf("the big-integer copy of the specification gives %s where TLC printed %s in %s", r1, a.res, string(raw)), detail)
				return
			}
			ref1 = n1
			_, refU = refU.copySet().update(cU, big.NewInt(types.MaxTotalVotingPower))
		}
		if len(ref1) != len(l.V) {
			res.Mismatch("infra:ref-transcription:size", "the big-integer copy of the specification disagrees with TLC on "+string(raw), detail)
			return
		}
		for i, w := range l.V {
			if ref1[i].a != w.A || ref1[i].p.Int64() != w.P || ref1[i].prio.Int64() != w.Prio {
				res.Mismatch("infra:ref-transcription:set", fmt.Sprintf("the big-integer copy of the specification gives %v where TLC printed %v in %s", ref1, l.V, string(raw)), detail)
				return
			}
		}
		if acts[len(acts)-1].op == "inc" && refProp1 != l.P {
			res.Mismatch("infra:ref-transcription:proposer", "the big-integer copy of the specification disagrees with TLC on the proposer in "+string(raw), detail)
			return
		}
		for k, a := range acts {
			last := k == len(acts)-1
			var before string
			var alt *types.ValidatorSet
			if last && a.op == "upd" {
				before = snapshot(vs)
				alt = vs.Copy()
			}
			got := applyReal(vs, a, unit, 0)
			want := "ok"
			if a.op == "upd" && a.res != "ok" {
				want = "err"
			}
			if got != want {
				res.Mismatch(pfx+"result:"+a.op+":"+a.res+"->"+strings.SplitN(got, ":", 2)[0],
					fmt.Sprintf("step %d of %s: real %s, specified %s (%s)", k+1, string(raw), got, want, a.res), detail)
				return
			}
			if last && a.op == "upd" {
				if want == "err" && snapshot(vs) != before {
					res.Mismatch(pfx+"allornothing:"+a.res, fmt.Sprintf("rejected change set %v modified the set: %s -> %s", a.chs, before, snapshot(vs)), detail)
				}
				// order independence: same bag in reversed order on a copy
				if len(a.chs) > 1 {
					got2 := applyReal(alt, a, unit, 1)
					if got2 != got || snapshot(alt) != snapshot(vs) {
						res.Mismatch(pfx+"order", fmt.Sprintf("change set %v gives %s / %s in one order and %s / %s reversed", a.chs, got, snapshot(vs), got2, snapshot(alt)), detail)
					}
				}
			}
		}
		res.Count(1)
		la := acts[len(acts)-1]
		if la.op == "upd" {
			res.Distinct(string(raw[:min(len(raw), 200)]))
		}
		// compare the set
		if len(vs.Validators) != len(l.V) {
			res.Mismatch(pfx+"size", fmt.Sprintf("after %s: real set %s, specified %v", string(raw), snapshot(vs), l.V), detail)
			return
		}
		for i, v := range vs.Validators {
			w := l.V[i]
			if v.Address != addr(w.A) || v.VotingPower != w.P*unit {
				res.Mismatch(pfx+"members", fmt.Sprintf("after %v: real set %s, specified %v", l.H, snapshot(vs), l.V), detail)
				return
			}
			if cmpPrio && v.ProposerPriority != w.Prio {
				res.Mismatch(pfx+"priority:"+la.op, fmt.Sprintf("after %s: real set %s, specified %v", string(raw), snapshot(vs), l.V), detail)
				return
			}
		}
		if unit == 1 && la.op == "inc" && vs.GetProposer().Address != addr(l.P) {
			res.Mismatch(pfx+"proposer", fmt.Sprintf("after %s: real proposer %x, specified %d", string(raw), idOf(vs.GetProposer().Address), l.P), detail)
		}
		if unit > 1 {
			// at the large scale the specification speaks through its big-integer copy: exact priorities and proposer
			for i, v := range vs.Validators {
				if i >= len(refU) || v.Address != addr(refU[i].a) || big.NewInt(v.VotingPower).Cmp(refU[i].p) != 0 || big.NewInt(v.ProposerPriority).Cmp(refU[i].prio) != 0 {
					res.Mismatch(pfx+"scaled:priority:"+la.op, fmt.Sprintf("after %s at unit %d: real set %s, specified (big-integer evaluation of ValidatorSet.tla) %v", string(raw), unit, snapshot(vs), refU), detail)
					return
				}
			}
			if la.op == "inc" && vs.GetProposer().Address != addr(refPropU) {
				res.Mismatch(pfx+"scaled:proposer", fmt.Sprintf("after %s at unit %d: real proposer %x, specified %d", string(raw), unit, idOf(vs.GetProposer().Address), refPropU), detail)
			}
		}
		if cmpPrio && vs.TotalVotingPower() != func() int64 {
			var s int64
			for _, w := range l.V {
				s += w.P * unit
			}
			return s
		}() {
			res.Mismatch(pfx+"total", "TotalVotingPower disagrees after "+string(raw), detail)
		}
		if n%997 == 1 {
			res.Sample(map[string]interface{}{"init": initP, "behaviour": l.H, "expected_set": l.V, "expected_proposer": l.P})
		}
	})
	if err != nil {
		res.Mismatch("infra:read", err.Error(), nil)
	}
	res.Behaviours = sent
}

func min(a, b int) int {
	if a < b {
		return a
	}
	return b
}
