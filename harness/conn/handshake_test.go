package conn

// MBT of SecretConn.tla part 1: every terminated behaviour of MC_Handshake is replayed.  The honest
// sessions are real MakeSecretConnection calls (one goroutine each, on a memConn the driver owns);
// the adversary is the driver.  Its cryptography is written here from the protocol description
// (X25519, merlin transcript, HKDF-SHA256, ChaCha20-Poly1305 with the frame layout) and shares no code
// with lib/p2p/conn: a change of what is signed, of the key schedule or of the framing on the code
// side shows either as an accepted forgery or as the adversary no longer interoperating under its own key.

import (
	"bytes"
	"crypto/ecdsa"
	"crypto/sha256"
	"encoding/binary"
	"encoding/json"
	"fmt"
	"io"
	"math/rand"
	"os"
	"sync"
	"testing"

	"github.com/gogo/protobuf/proto"
	"github.com/gtank/merlin"
	"golang.org/x/crypto/chacha20poly1305"
	"golang.org/x/crypto/curve25519"
	"golang.org/x/crypto/hkdf"

	"github.com/kardiachain/go-kardia/lib/crypto"
	cryptoenc "github.com/kardiachain/go-kardia/lib/crypto/encoding"
	p2pconn "github.com/kardiachain/go-kardia/lib/p2p/conn"
	kp2p "github.com/kardiachain/go-kardia/proto/kardiachain/p2p"

	"verifharness/internal/mbt"
)

// ---------------------------------------------------------------- the adversary's own implementation

type ephKey struct{ pub, priv [32]byte }

// newEph: an adversary ephemeral key; its randomness comes from r (seeded from VERIF_SEED and the line number).
func newEph(r io.Reader) ephKey {
	var k ephKey
	if _, err := io.ReadFull(r, k.priv[:]); err != nil {
		panic(err)
	}
	p, err := curve25519.X25519(k.priv[:], curve25519.Basepoint)
	if err != nil {
		panic(err)
	}
	copy(k.pub[:], p)
	return k
}

// sessionKeys: what a party with ephemeral key loc derives after receiving remPub.
type sessionKeys struct {
	send, recv [32]byte
	challenge  [32]byte
}

func deriveSession(loc ephKey, remPub [32]byte) (*sessionKeys, error) {
	lo, hi := loc.pub, remPub
	if bytes.Compare(lo[:], hi[:]) >= 0 { // sort32: lo = bar unless foo < bar
		lo, hi = remPub, loc.pub
	}
	locIsLeast := bytes.Equal(loc.pub[:], lo[:])
	t := merlin.NewTranscript("TENDERMINT_SECRET_CONNECTION_TRANSCRIPT_HASH")
	t.AppendMessage([]byte("EPHEMERAL_LOWER_PUBLIC_KEY"), lo[:])
	t.AppendMessage([]byte("EPHEMERAL_UPPER_PUBLIC_KEY"), hi[:])
	dh, err := curve25519.X25519(loc.priv[:], remPub[:])
	if err != nil {
		return nil, err
	}
	t.AppendMessage([]byte("DH_SECRET"), dh)
	r := hkdf.New(sha256.New, dh, nil, []byte("TENDERMINT_SECRET_CONNECTION_KEY_AND_CHALLENGE_GEN"))
	var res [96]byte
	if _, err := io.ReadFull(r, res[:]); err != nil {
		return nil, err
	}
	k := &sessionKeys{}
	if locIsLeast {
		copy(k.recv[:], res[0:32])
		copy(k.send[:], res[32:64])
	} else {
		copy(k.send[:], res[0:32])
		copy(k.recv[:], res[32:64])
	}
	copy(k.challenge[:], t.ExtractBytes([]byte("SECRET_CONNECTION_MAC"), 32))
	return k, nil
}

func nonceBytes(n uint64) []byte {
	b := make([]byte, 12)
	binary.LittleEndian.PutUint64(b[4:], n)
	return b
}

// sealData: one sealed frame carrying data (<= 1024 bytes) under key with nonce counter n.
func sealData(key [32]byte, n uint64, data []byte) []byte {
	frame := make([]byte, 1028)
	binary.LittleEndian.PutUint32(frame, uint32(len(data)))
	copy(frame[4:], data)
	a, err := chacha20poly1305.New(key[:])
	if err != nil {
		panic(err)
	}
	return a.Seal(nil, nonceBytes(n), frame, nil)
}

func openData(key [32]byte, n uint64, sealed []byte) ([]byte, error) {
	a, err := chacha20poly1305.New(key[:])
	if err != nil {
		panic(err)
	}
	frame, err := a.Open(nil, nonceBytes(n), sealed, nil)
	if err != nil {
		return nil, err
	}
	l := binary.LittleEndian.Uint32(frame)
	if l > 1024 {
		return nil, fmt.Errorf("length field %d", l)
	}
	return frame[4 : 4+l], nil
}

func delimited(m proto.Message) []byte {
	b, err := proto.Marshal(m)
	if err != nil {
		panic(err)
	}
	return append(proto.EncodeVarint(uint64(len(b))), b...)
}

func authPayload(pub ecdsa.PublicKey, sig []byte) []byte {
	pk, _ := cryptoenc.PubKeyToProto(pub)
	return delimited(&kp2p.AuthSigMessage{PubKey: pk, Sig: sig})
}

func parseAuthPayload(b []byte) (*kp2p.AuthSigMessage, error) {
	l, n := proto.DecodeVarint(b)
	if n == 0 || int(l)+n > len(b) {
		return nil, fmt.Errorf("bad auth payload")
	}
	var m kp2p.AuthSigMessage
	if err := proto.Unmarshal(b[n:n+int(l)], &m); err != nil {
		return nil, err
	}
	return &m, nil
}

// ephemeral key message on the wire: varint(34) 0x0a 0x20 <32 bytes>
func ephMessage(pub [32]byte) []byte {
	return append([]byte{34, 0x0a, 32}, pub[:]...)
}

// ---------------------------------------------------------------- honest sessions

type hsSession struct {
	id            int
	owner         string
	c             *memConn
	mu            sync.Mutex
	done          bool
	sc            *p2pconn.SecretConnection
	err           error
	fin           chan struct{}
	pub           [32]byte // its ephemeral public key
	ephMsg        []byte
	auth          []byte // its sealed auth frame
	remAdv        int    // adversary ephemeral id it was given (0: none)
	handshakeOnly bool   // takeOut gives up once MakeSecretConnection has returned
	remPub        [32]byte
}

func startSession(id int, owner string) (*hsSession, error) {
	s := &hsSession{id: id, owner: owner, c: newMemConn(fmt.Sprint("s", id), true), fin: make(chan struct{}), handshakeOnly: true}
	go func() {
		var sc *p2pconn.SecretConnection
		var err error
		func() {
			defer recoverTo(&err)
			sc, err = p2pconn.MakeSecretConnection(s.c, longTerm[owner])
		}()
		s.mu.Lock()
		s.sc, s.err, s.done = sc, err, true
		s.mu.Unlock()
		close(s.fin)
		s.c.wake()
	}()
	m, err := s.takeOut(35)
	if err != nil {
		return nil, fmt.Errorf("session %d: no ephemeral key message: %v", id, err)
	}
	if m[0] != 34 || m[1] != 0x0a || m[2] != 32 {
		return nil, fmt.Errorf("session %d: unexpected ephemeral key message % x", id, m[:3])
	}
	s.ephMsg = m
	copy(s.pub[:], m[3:])
	return s, nil
}

// takeOut waits for n bytes written by the session, or for its return.
func (s *hsSession) takeOut(n int) ([]byte, error) {
	return s.c.takeOut(n, func() bool {
		select {
		case <-s.fin:
			// what it wrote before returning is there already; only its absence ends the wait
			return s.handshakeOnly
		default:
			return false
		}
	})
}

// result waits for MakeSecretConnection to return: "fail", "self", or the name of the authenticated key.
func (s *hsSession) result() string {
	<-s.fin
	if s.err != nil {
		return "fail"
	}
	n := nameOfPub(s.sc.RemotePubKey())
	if n == s.owner {
		return "self"
	}
	return n
}

type hline struct {
	H [][]interface{} `json:"h"`
	O []string        `json:"o"`
}

// TestHandshake replays the dump of MC_Handshake.
// env CONN_OWNERS = "A,B"  CONN_EPHS = "10,20" (the model's SessOwner / SessEph).
func TestHandshake(t *testing.T) {
	res := mbt.NewResult()
	defer res.Write()
	owners := splitList(os.Getenv("CONN_OWNERS"))
	var ephIDs []int
	for _, x := range splitList(os.Getenv("CONN_EPHS")) {
		var v int
		fmt.Sscan(x, &v)
		ephIDs = append(ephIDs, v)
	}
	tag := os.Getenv("CONN_TAG")
	pfx := "conn:handshake:"
	sent, err := mbt.EachLine(os.Getenv("CONN_DUMP"), 0, mbt.EnvInt("CONN_LIMIT", 0), mbt.EnvInt("CONN_STRIDE", 1), mbt.Seed(), func(n int, raw []byte) {
		var l hline
		if err := json.Unmarshal(raw, &l); err != nil {
			res.Mismatch("infra:parse", err.Error(), string(raw))
			return
		}
		detail := map[string]interface{}{"hist": l.H, "owners": owners, "ephs": ephIDs, "seed": mbt.Seed(), "line": n, "cfg": tag}
		// all sessions start right away (they are independent until the driver feeds them)
		sess := map[int]*hsSession{}
		defer func() {
			for _, s := range sess {
				s.c.Close()
				s.c.feedEOF()
			}
		}()
		byEph := map[int]*hsSession{}
		for i, o := range owners {
			s, err := startSession(i+1, o)
			if err != nil {
				res.Mismatch(pfx+"start", err.Error(), detail)
				return
			}
			sess[i+1] = s
			byEph[ephIDs[i]] = s
		}
		// adversary ephemeral keys: id m is given an order relative to the honest keys like in the model where possible
		arng := rand.New(rand.NewSource(mbt.Seed()*999983 + int64(n)))
		adv := map[int]ephKey{}
		advKey := func(m int) ephKey {
			if k, ok := adv[m]; ok {
				return k
			}
			var best ephKey
			bestScore := -1
			for try := 0; try < 12 && bestScore < len(owners); try++ {
				k := newEph(arng)
				score := 0
				for i := range owners {
					c := bytes.Compare(k.pub[:], sess[i+1].pub[:])
					if (m < ephIDs[i]) == (c < 0) {
						score++
					}
				}
				if score > bestScore {
					best, bestScore = k, score
				}
			}
			adv[m] = best
			return best
		}
		// the keys the adversary shares with session s (it gave s its ephemeral key remAdv)
		keysWith := func(s *hsSession) (*sessionKeys, error) {
			if s.remAdv == 0 {
				return nil, fmt.Errorf("adversary shares no secret with session %d", s.id)
			}
			return deriveSession(advKey(s.remAdv), s.pub)
		}
		nontrivial := false
		check := func(k int, a []interface{}, s *hsSession) bool {
			want := a[6].(string)
			if want == "wait" {
				return true
			}
			got := s.result()
			op := a[0].(string)
			if s.err != nil && len(s.err.Error()) >= 5 && s.err.Error()[:5] == "PANIC" {
				res.Mismatch(pfx+"panic", fmt.Sprintf("step %d of %v: MakeSecretConnection panicked: %v", k+1, l.H, s.err), detail)
				return false
			}
			if got == "self" && want == "self" && matchOf(sess, s) == nil {
				res.Add("self_reflection_reproduced", 1)
			}
			if got == want || (want == "self" && got == "fail") {
				return true
			}
			switch {
			case want == "fail":
				res.Mismatch(pfx+"accepted:"+op, fmt.Sprintf("step %d of %v: session %d (key %s) completed with RemotePubKey = %s where the specification says the handshake fails", k+1, l.H, s.id, s.owner, got), detail)
			case got == "fail":
				res.Mismatch(pfx+"rejected:"+op, fmt.Sprintf("step %d of %v: session %d (key %s) failed with %q where the specification says it completes with peer %s", k+1, l.H, s.id, s.owner, s.err, want), detail)
			default:
				res.Mismatch(pfx+"identity:"+op, fmt.Sprintf("step %d of %v: session %d (key %s) learnt peer key %s, specified %s", k+1, l.H, s.id, s.owner, got, want), detail)
			}
			return false
		}
		for k, a := range l.H {
			op := a[0].(string)
			if op == "start" {
				continue
			}
			s := sess[ai(a[1])]
			switch op {
			case "eph":
				e := ai(a[2])
				var msg []byte
				switch {
				case e == 0: // low-order point
					msg = ephMessage([32]byte{})
					nontrivial = true
				case byEph[e] != nil:
					msg = byEph[e].ephMsg
					s.remPub = byEph[e].pub
				default:
					ak := advKey(e)
					msg = ephMessage(ak.pub)
					s.remAdv = e
					s.remPub = ak.pub
					nontrivial = true
				}
				s.c.feed(append([]byte(nil), msg...))
				if a[6].(string) == "wait" {
					f, err := s.takeOut(sealedSize)
					if err != nil {
						res.Mismatch(pfx+"rejected:eph", fmt.Sprintf("step %d of %v: session %d did not send its auth frame: %v", k+1, l.H, s.id, err), detail)
						return
					}
					s.auth = f
				}
			case "fwd":
				s2 := sess[ai(a[2])]
				if s2.auth == nil {
					res.Mismatch("infra:handshake-fwd", "no auth frame recorded", detail)
					return
				}
				if !(ai(a[2]) != s.id && s2.remPub == s.pub && s.remPub == s2.pub) {
					nontrivial = true // anything but the honest relay
				}
				s.c.feed(append([]byte(nil), s2.auth...))
			case "mk":
				nontrivial = true
				ks, err := keysWith(s)
				if err != nil {
					res.Mismatch("infra:handshake-mk", err.Error(), detail)
					return
				}
				var sig []byte
				if from := ai(a[5]); from == 0 {
					sig, err = crypto.Sign(ks.challenge[:], longTerm["M"])
					if err != nil {
						res.Mismatch("infra:handshake-sign", err.Error(), detail)
						return
					}
				} else {
					s2 := sess[from]
					k2, err := keysWith(s2)
					if err != nil {
						res.Mismatch("infra:handshake-mk", err.Error(), detail)
						return
					}
					pl, err := openData(k2.recv, 0, s2.auth)
					if err != nil {
						res.Mismatch(pfx+"adversary-cannot-open", fmt.Sprintf("step %d of %v: the adversary shares the DH secret with session %d but cannot open its auth frame with the specified key schedule: %v", k+1, l.H, s2.id, err), detail)
						return
					}
					m, err := parseAuthPayload(pl)
					if err != nil {
						res.Mismatch(pfx+"adversary-cannot-open", fmt.Sprintf("step %d of %v: auth payload of session %d: %v", k+1, l.H, s2.id, err), detail)
						return
					}
					sig = m.Sig
				}
				key := ks.send // what the session receives with
				if a[3].(string) == "send" {
					key = ks.recv
				}
				s.c.feed(sealData(key, 0, authPayload(longTerm[a[4].(string)].PublicKey, sig)))
			case "junk":
				nontrivial = true
				f := make([]byte, sealedSize)
				arng.Read(f)
				s.c.feed(f)
			}
			if !check(k, a, s) {
				return
			}
		}
		// the stream after the handshake: the keys are the ones the specification says each side holds
		for _, s := range sess {
			<-s.fin
			if s.err != nil {
				continue
			}
			s.c.mu.Lock()
			s.c.block = false
			s.c.mu.Unlock()
			s.handshakeOnly = false
			msg := []byte(fmt.Sprintf("after-handshake-%d-%d", n, s.id))
			if s.remAdv != 0 { // the adversary is the peer (under its own key, or reflected): it reads and writes the stream
				ks, _ := keysWith(s)
				s.sc.Write(msg)
				f, err := s.takeOut(sealedSize)
				var pl []byte
				if err == nil {
					pl, err = openData(ks.recv, 1, f)
				}
				if err != nil || !bytes.Equal(pl, msg) {
					res.Mismatch(pfx+"keys:adversary-peer", fmt.Sprintf("after %v: the party that completed the handshake with session %d cannot read its first data frame (%v)", l.H, s.id, err), detail)
					return
				}
				s.c.feed(sealData(ks.send, 1, msg))
				buf := make([]byte, 200)
				k, err := s.sc.Read(buf)
				if err != nil || !bytes.Equal(buf[:k], msg) {
					res.Mismatch(pfx+"keys:adversary-peer", fmt.Sprintf("after %v: session %d cannot read the first data frame of the party it completed the handshake with (%v)", l.H, s.id, err), detail)
					return
				}
			} else if peer := matchOf(sess, s); peer != nil && peer.result() != "fail" { // honest pair through the relay
				s.sc.Write(msg)
				f, err := s.takeOut(sealedSize)
				if err != nil {
					res.Mismatch("infra:handshake-stream", err.Error(), detail)
					return
				}
				peer.c.mu.Lock()
				peer.c.block = false
				peer.c.mu.Unlock()
				peer.c.feed(f)
				buf := make([]byte, 200)
				k, err := peer.sc.Read(buf)
				if err != nil || !bytes.Equal(buf[:k], msg) {
					res.Mismatch(pfx+"keys:honest-pair", fmt.Sprintf("after %v: session %d cannot read the first data frame of session %d (%v)", l.H, peer.id, s.id, err), detail)
					return
				}
			}
		}
		res.Count(1)
		if nontrivial {
			res.Distinct(string(raw))
		}
		if n%499 == 1 {
			res.Sample(map[string]interface{}{"behaviour": l.H, "outcome": l.O, "cfg": tag})
		}
	})
	if err != nil {
		res.Mismatch("infra:read", err.Error(), nil)
	}
	if sent == 0 {
		res.Mismatch("infra:empty-dump", "no behaviour in "+os.Getenv("CONN_DUMP"), nil)
	}
	res.Behaviours = sent
	res.Set("replayed_"+tag, sent)
}

// matchOf: the other session that ran on the same two ephemeral keys.
func matchOf(sess map[int]*hsSession, s *hsSession) *hsSession {
	for _, o := range sess {
		if o != s && o.pub == s.remPub && o.remPub == s.pub {
			return o
		}
	}
	return nil
}

func splitList(s string) []string {
	var out []string
	cur := ""
	for _, r := range s {
		if r == ',' {
			out = append(out, cur)
			cur = ""
		} else if r != ' ' {
			cur += string(r)
		}
	}
	if cur != "" {
		out = append(out, cur)
	}
	return out
}
