package conn

// TV producer for StreamTrace.tla: concurrent writers on one real SecretConnection.

import (
	"bufio"
	"encoding/binary"
	"encoding/json"
	"fmt"
	"io"
	"math/rand"
	"os"
	"path/filepath"
	"sync"
	"testing"

	p2pconn "github.com/kardiachain/go-kardia/lib/p2p/conn"

	"verifharness/internal/mbt"
)

const blkMagic = 0xC2
const blkHeader = 8 // magic, writer, seq(2), len(4)

func blockBytes(w, k, n int) []byte {
	b := make([]byte, n)
	b[0] = blkMagic
	b[1] = byte(w)
	binary.LittleEndian.PutUint16(b[2:], uint16(k))
	binary.LittleEndian.PutUint32(b[4:], uint32(n))
	x := uint32(w)*40503 + uint32(k)*2654435761 + 12345
	for p := blkHeader; p < n; p++ {
		x = x*1664525 + 1013904223
		b[p] = byte(x >> 24)
	}
	return b
}

// TestWriters records CONN_RUNS runs into CONN_TRACE.
func TestWriters(t *testing.T) {
	res := mbt.NewResult()
	defer res.Write()
	runs := mbt.EnvInt("CONN_RUNS", 20)
	path := os.Getenv("CONN_TRACE")
	if path == "" {
		path = filepath.Join(os.Getenv("VERIF_SCRATCH"), "writers-trace.ndjson")
	}
	f, err := os.Create(path)
	if err != nil {
		res.Mismatch("infra:trace-file", err.Error(), nil)
		return
	}
	defer f.Close()
	out := bufio.NewWriterSize(f, 1<<20)
	defer out.Flush()
	events := 0
	emit := func(e map[string]interface{}) {
		b, _ := json.Marshal(e)
		out.Write(b)
		out.WriteByte('\n')
		events++
	}
	rng := rand.New(rand.NewSource(mbt.Seed()*15485863 + 3))
	sizes := []int{8, 9, 1023, 1024, 1025, 2048, 2049, 3100}
	for run := 0; run < runs; run++ {
		emit(map[string]interface{}{"e": "reset", "run": run})
		ca, cb := newMemConn("a", true), newMemConn("b", true)
		link(ca, cb)
		linkClose(ca, cb)
		var sa, sb *p2pconn.SecretConnection
		var ea, eb error
		var wg sync.WaitGroup
		wg.Add(2)
		go func() { defer wg.Done(); sa, ea = p2pconn.MakeSecretConnection(ca, longTerm["A"]) }()
		go func() { defer wg.Done(); sb, eb = p2pconn.MakeSecretConnection(cb, longTerm["B"]) }()
		wg.Wait()
		if ea != nil || eb != nil {
			res.Mismatch("conn:stream:handshake:honest-pair-fails", fmt.Sprintf("%v / %v", ea, eb), nil)
			return
		}
		w, r := sa, sb
		if run%2 == 1 {
			w, r = sb, sa
		}
		nw := 2 + rng.Intn(3)
		plans := make([][]int, nw)
		total := 0
		for i := range plans {
			k := 3 + rng.Intn(6)
			for j := 0; j < k; j++ {
				n := sizes[rng.Intn(len(sizes))]
				if rng.Intn(4) == 0 {
					n = blkHeader + rng.Intn(4000)
				}
				plans[i] = append(plans[i], n)
				total += n
			}
			emit(map[string]interface{}{"e": "plan", "w": i + 1, "sizes": plans[i]})
		}
		// reader: random buffer sizes, until EOF
		var got []byte
		var rerr error
		rdone := make(chan struct{})
		rs := rand.New(rand.NewSource(rng.Int63()))
		go func() {
			defer close(rdone)
			for {
				buf := make([]byte, 1+rs.Intn(3000))
				n, err := r.Read(buf)
				got = append(got, buf[:n]...)
				if err != nil {
					rerr = err
					return
				}
			}
		}()
		var ww sync.WaitGroup
		werrs := make([]error, nw)
		for i := range plans {
			ww.Add(1)
			go func(i int) {
				defer ww.Done()
				for k, n := range plans[i] {
					m, err := w.Write(blockBytes(i+1, k+1, n))
					if err != nil || m != n {
						werrs[i] = fmt.Errorf("Write(%d) = (%d, %v)", n, m, err)
						return
					}
				}
			}(i)
		}
		ww.Wait()
		w.Close()
		<-rdone
		for _, e := range werrs {
			if e != nil {
				res.Mismatch("conn:stream:writers:write-failed", e.Error(), map[string]interface{}{"run": run, "seed": mbt.Seed()})
				return
			}
		}
		if rerr != io.EOF {
			emit(map[string]interface{}{"e": "bad", "off": len(got), "err": fmt.Sprint(rerr)})
		}
		// cut what was read into blocks
		for off := 0; off < len(got); {
			b := got[off:]
			if len(b) < blkHeader || b[0] != blkMagic {
				emit(map[string]interface{}{"e": "bad", "off": off})
				break
			}
			wi, k, n := int(b[1]), int(binary.LittleEndian.Uint16(b[2:])), int(binary.LittleEndian.Uint32(b[4:]))
			if n < blkHeader || n > len(b) {
				emit(map[string]interface{}{"e": "bad", "off": off})
				break
			}
			ok := string(b[:n]) == string(blockBytes(wi, k, n))
			emit(map[string]interface{}{"e": "blk", "w": wi, "k": k, "n": n, "off": off, "ok": ok})
			off += n
		}
		emit(map[string]interface{}{"e": "end", "n": len(got)})
		res.Count(1)
		_ = total
	}
	res.Behaviours = runs
	res.Set("writers_trace_events", events)
}
