// Package conn binds specs/conn (SecretConn.tla, MConn.tla) to lib/p2p/conn and lib/p2p/transport.go
// (property C20).  This file: the in-memory wire the drivers own.
package conn

import (
	"crypto/ecdsa"
	"errors"
	"fmt"
	"io"
	"net"
	"sync"
	"time"

	"github.com/kardiachain/go-kardia/lib/crypto"
	"github.com/kardiachain/go-kardia/lib/log"
	p2pconn "github.com/kardiachain/go-kardia/lib/p2p/conn"
)

func init() { log.Root().SetHandler(log.DiscardHandler()) }

// hangTimeout bounds every blocking wait of the drivers.  It is not used for ordering: a wait that
// runs into it is reported as infrastructure ("infra:hang"), never as a verdict.
const hangTimeout = 60 * time.Second

var errWouldBlock = errors.New("memconn: read would block (the specification says this Read is enabled)")
var errHang = errors.New("memconn: wait timed out")
var errStopped = errors.New("memconn: the writer returned")

// errTransient is what an injected fault of the underlying connection returns (a timeout-like, non-fatal error:
// the memConn stays usable).
var errTransient = errors.New("memconn: injected transient i/o error")

// memConn is one end of an in-memory connection whose wire is owned by the driver.
// What the local party writes is handed, one Write call at a time, to onWrite (SecretConnection.Write
// issues exactly one conn.Write per sealed frame).  What it reads comes from `in`, a list of segments
// that the driver may edit (the man in the middle of SecretConn.tla); a Read never crosses a segment.
type memConn struct {
	name    string
	mu      sync.Mutex
	cond    *sync.Cond
	in      [][]byte
	eof     bool // the other side closed: EOF once `in` is drained
	closed  bool // this side closed
	wclosed bool // the other side closed: writes fail
	onClose func()
	block   bool // Read waits for input; otherwise an empty open wire is an error of the driver
	onWrite func(b []byte)
	out     [][]byte // writes recorded when onWrite is nil
	nread   int      // bytes handed to the reader so far
	served  [][]byte // pieces handed to the reader since the driver last cleared it (one entry per segment touched)
	keep    bool     // record `served`
	// injected faults of the underlying connection (SecretConn.tla WriteFaultOp / ReadFaultOp)
	wfIn    int                         // > 0: the wfIn-th Write from now fails ...
	wfPass  int                         // ... after wfPass of its bytes went out
	onFault func(full []byte, pass int) // receives the failed Write (all of its bytes, and how many went out)
	rfAfter int                         // >= 0: the underlying reads fail after handing over rfAfter more bytes
}

func newMemConn(name string, block bool) *memConn {
	c := &memConn{name: name, block: block, rfAfter: -1}
	c.cond = sync.NewCond(&c.mu)
	return c
}

// link makes every Write on a readable on b and vice versa.
func link(a, b *memConn) {
	a.mu.Lock()
	a.onWrite = b.feed
	a.mu.Unlock()
	b.mu.Lock()
	b.onWrite = a.feed
	b.mu.Unlock()
}

func (c *memConn) feed(b []byte) {
	c.mu.Lock()
	c.in = append(c.in, b)
	c.cond.Broadcast()
	c.mu.Unlock()
}

// errMarker, fed as a segment, makes the Read that reaches it return errTransient (a read error of the underlying
// connection at that point of the stream).
var errMarker = []byte{0xEE}

func (c *memConn) feedReadError() { c.feed(errMarker) }

func (c *memConn) feedEOF() {
	c.mu.Lock()
	c.eof = true
	c.cond.Broadcast()
	c.mu.Unlock()
}

// waitLocked waits on the condition until woken or until `until`; returns false on timeout.
func (c *memConn) waitLocked(until time.Time) bool {
	d := time.Until(until)
	if d <= 0 {
		return false
	}
	t := time.AfterFunc(d, func() { c.mu.Lock(); c.cond.Broadcast(); c.mu.Unlock() })
	c.cond.Wait()
	t.Stop()
	return true
}

func (c *memConn) Read(p []byte) (int, error) {
	c.mu.Lock()
	defer c.mu.Unlock()
	hard := time.Now().Add(hangTimeout)
	for {
		if c.closed {
			return 0, io.ErrClosedPipe
		}
		if c.rfAfter == 0 {
			c.rfAfter = -1
			return 0, errTransient
		}
		if len(c.in) > 0 {
			if len(p) == 0 {
				return 0, nil
			}
			h := c.in[0]
			if len(h) == 1 && &h[0] == &errMarker[0] {
				c.in = c.in[1:]
				return 0, errTransient
			}
			if c.rfAfter > 0 && len(p) > c.rfAfter {
				p = p[:c.rfAfter]
			}
			n := copy(p, h)
			if c.rfAfter > 0 {
				c.rfAfter -= n
			}
			if n == len(h) {
				c.in = c.in[1:]
			} else {
				c.in[0] = h[n:]
			}
			c.nread += n
			if c.keep {
				c.served = append(c.served, append([]byte(nil), p[:n]...))
			}
			return n, nil
		}
		if c.eof {
			return 0, io.EOF
		}
		if !c.block {
			return 0, errWouldBlock
		}
		if !c.waitLocked(hard) {
			return 0, errHang
		}
	}
}

func (c *memConn) Write(p []byte) (int, error) {
	c.mu.Lock()
	if c.closed || c.wclosed {
		c.mu.Unlock()
		return 0, io.ErrClosedPipe
	}
	b := append([]byte(nil), p...)
	if c.wfIn > 0 {
		c.wfIn--
		if c.wfIn == 0 {
			pass, ff := c.wfPass, c.onFault
			c.mu.Unlock()
			if ff != nil {
				ff(b, pass)
			}
			return pass, errTransient
		}
	}
	f := c.onWrite
	if f == nil {
		c.out = append(c.out, b)
		c.cond.Broadcast()
	}
	c.mu.Unlock()
	if f != nil {
		f(b)
	}
	return len(p), nil
}

func (c *memConn) Close() error {
	c.mu.Lock()
	was := c.closed
	c.closed = true
	f := c.onClose
	c.cond.Broadcast()
	c.mu.Unlock()
	if f != nil && !was {
		f()
	}
	return nil
}

// peerClosed: the other end was closed (reads see EOF after what is buffered, writes fail).
func (c *memConn) peerClosed() {
	c.mu.Lock()
	c.eof = true
	c.wclosed = true
	c.cond.Broadcast()
	c.mu.Unlock()
}

// takeOut waits until the local party has written at least n bytes (recording mode) and returns them.
// stop (optional) is polled whenever the conn is woken: when it reports true and the bytes are not
// there, the wait ends with errStopped.
func (c *memConn) takeOut(n int, stop func() bool) ([]byte, error) {
	c.mu.Lock()
	defer c.mu.Unlock()
	hard := time.Now().Add(hangTimeout)
	for {
		tot := 0
		for _, b := range c.out {
			tot += len(b)
		}
		if tot >= n {
			var all []byte
			for _, b := range c.out {
				all = append(all, b...)
			}
			c.out = nil
			if len(all) > n {
				c.out = [][]byte{all[n:]}
			}
			return all[:n], nil
		}
		if c.closed {
			return nil, io.ErrClosedPipe
		}
		if stop != nil && stop() {
			return nil, fmt.Errorf("%w after %d of %d bytes", errStopped, tot, n)
		}
		if !c.waitLocked(hard) {
			return nil, errHang
		}
	}
}

// wake is called by whoever changes something a takeOut waiter may be interested in.
func (c *memConn) wake() { c.mu.Lock(); c.cond.Broadcast(); c.mu.Unlock() }

func (c *memConn) LocalAddr() net.Addr  { return &net.TCPAddr{IP: net.IPv4(127, 0, 0, 1), Port: 1} }
func (c *memConn) RemoteAddr() net.Addr { return &net.TCPAddr{IP: net.IPv4(127, 0, 0, 1), Port: 2} }

// Deadlines are accepted and ignored: the code under test sets real-time handshake deadlines (3 s in the
// transport) that say nothing about C20 and could expire on a loaded machine; every wait of a memConn is bounded
// by hangTimeout instead.
func (c *memConn) SetDeadline(t time.Time) error      { return nil }
func (c *memConn) SetReadDeadline(t time.Time) error  { return c.SetDeadline(t) }
func (c *memConn) SetWriteDeadline(t time.Time) error { return nil }

var _ net.Conn = (*memConn)(nil)

// long-term keys of the honest parties and of the adversary (fixed, derived from strings)
func keyOf(name string) *ecdsa.PrivateKey {
	k, err := crypto.ToECDSA(crypto.Keccak256([]byte("verif-conn-key-" + name)))
	if err != nil {
		panic(err)
	}
	return k
}

var longTerm = map[string]*ecdsa.PrivateKey{"A": keyOf("A"), "B": keyOf("B"), "C": keyOf("C"), "M": keyOf("M")}

func nameOfPub(p ecdsa.PublicKey) string {
	for n, k := range longTerm {
		if crypto.PubkeyToAddress(k.PublicKey) == crypto.PubkeyToAddress(p) {
			return n
		}
	}
	return "?"
}

// scPair is a real MakeSecretConnection pair over two linked memConns.
type scPair struct {
	sa, sb *p2pconn.SecretConnection
	ca, cb *memConn
}

// newSCPair runs the real handshake between keys ka and kb.  After it the conns stop blocking: the
// drivers only call Read when the specification says it is enabled.
func newSCPair(ka, kb *ecdsa.PrivateKey) (*scPair, error) {
	ca, cb := newMemConn("a", true), newMemConn("b", true)
	link(ca, cb)
	p := &scPair{ca: ca, cb: cb}
	var ea, eb error
	var wg sync.WaitGroup
	wg.Add(2)
	go func() { defer wg.Done(); defer recoverTo(&ea); p.sa, ea = p2pconn.MakeSecretConnection(ca, ka) }()
	go func() { defer wg.Done(); defer recoverTo(&eb); p.sb, eb = p2pconn.MakeSecretConnection(cb, kb) }()
	wg.Wait()
	if ea != nil || eb != nil {
		return nil, fmt.Errorf("handshake between honest parties failed: %v / %v", ea, eb)
	}
	if nameOfPub(p.sa.RemotePubKey()) == "?" || nameOfPub(p.sb.RemotePubKey()) == "?" {
		return nil, fmt.Errorf("handshake returned an unknown key")
	}
	ca.mu.Lock()
	ca.block = false
	ca.mu.Unlock()
	cb.mu.Lock()
	cb.block = false
	cb.mu.Unlock()
	return p, nil
}

func recoverTo(e *error) {
	if r := recover(); r != nil {
		*e = fmt.Errorf("PANIC: %v", r)
	}
}
