package conn

// MBT of SecretConn.tla part 2: every transition of MC_Stream that ends in a Read is replayed on a
// real MakeSecretConnection pair.  The driver is the wire: it holds the sealed frames the writer
// produced as a list of segments and executes the man-in-the-middle script on them.

import (
	"bytes"
	"encoding/json"
	"fmt"
	"math"
	"math/rand"
	"os"
	"strconv"
	"sync"
	"testing"

	p2pconn "github.com/kardiachain/go-kardia/lib/p2p/conn"

	"verifharness/internal/mbt"
)

const sealedSize = 1044 // dataMaxSize + dataLenSize + aeadSizeOverhead, checked in TestStream against a real frame

// pattern[k] is byte k of the sender's stream (fixed per seed): delivering a byte at the wrong position shows.
var (
	patternOnce sync.Once
	pattern     []byte
)

func streamPattern() []byte {
	patternOnce.Do(func() {
		r := rand.New(rand.NewSource(mbt.Seed()*7919 + 11))
		pattern = make([]byte, 1<<16)
		r.Read(pattern)
	})
	return pattern
}

// frames of an older session between the same two long-term keys, by direction and nonce
var (
	oldOnce   sync.Once
	oldFrames [2][][]byte
	oldErr    error
)

const preNonces = 24

func oldSession() ([2][][]byte, error) {
	oldOnce.Do(func() {
		p, err := newSCPair(longTerm["A"], longTerm["B"])
		if err != nil {
			oldErr = err
			return
		}
		oldFrames[0] = sealSome(p.sa, p.ca, preNonces)
		oldFrames[1] = sealSome(p.sb, p.cb, preNonces)
	})
	return oldFrames, oldErr
}

// sealSome makes sc write n one-byte messages and returns the n sealed frames (nonces 0..n-1 if fresh).
func sealSome(sc *p2pconn.SecretConnection, c *memConn, n int) [][]byte {
	var out [][]byte
	c.mu.Lock()
	saved := c.onWrite
	c.onWrite = func(b []byte) { out = append(out, b) }
	c.mu.Unlock()
	for i := 0; i < n; i++ {
		sc.Write([]byte{byte(i)})
	}
	c.mu.Lock()
	c.onWrite = saved
	c.mu.Unlock()
	return out
}

type sline struct {
	H [][]interface{} `json:"h"`
	D int             `json:"d"`
	E int             `json:"e"`
}

func ai(x interface{}) int { return int(x.(float64)) }

type streamRun struct {
	w, r    *p2pconn.SecretConnection
	wc, rc  *memConn
	dir     int
	total   int
	sent    [][]byte // sealed frames as written (pristine copies)
	rev     [][]byte
	rng     *rand.Rand
	base    uint64   // real frame counter the pair started at
	archive [][]byte // frames of this session and direction with counters 0, 1, 2
}

// basePair is a real handshake whose session keys are forked (VerifFork: same keys, nonces at zero, fresh wire)
// for up to forksPerHandshake replayed behaviours.
type basePair struct {
	p       *scPair
	uses    int
	archive [2][][]byte // per direction: the session's first frames (counters 0, 1, 2), sealed by a fork at zero counters
}

const archiveFrames = 3

// streamBase: the real frame counter the pair under test starts at (CONN_BASE, decimal; VerifForkAt) -- a session
// that has already carried that many frames in each direction.  The model's Base stands for any value >= ArchN.
func streamBase() uint64 {
	b, err := strconv.ParseUint(os.Getenv("CONN_BASE"), 10, 64)
	if err != nil {
		return 0
	}
	return b
}

const forksPerHandshake = 48

var basePool sync.Pool

func newStreamRun(n int) (*streamRun, error) {
	var bp *basePair
	if x := basePool.Get(); x != nil {
		bp = x.(*basePair)
	}
	if bp == nil || bp.uses >= forksPerHandshake {
		p, err := newSCPair(longTerm["A"], longTerm["B"])
		if err != nil {
			return nil, err
		}
		bp = &basePair{p: p}
	}
	bp.uses++
	base := streamBase()
	if base > 0 && bp.archive[0] == nil {
		// the adversary's archive: what this very session (same keys) put on the wire at its beginning
		xa, xb := newMemConn("xa", false), newMemConn("xb", false)
		bp.archive[0] = sealSome(bp.p.sa.VerifFork(xa), xa, archiveFrames)
		bp.archive[1] = sealSome(bp.p.sb.VerifFork(xb), xb, archiveFrames)
	}
	ca, cb := newMemConn("a", false), newMemConn("b", false)
	link(ca, cb)
	sa, sb := bp.p.sa.VerifForkAt(ca, base, base), bp.p.sb.VerifForkAt(cb, base, base)
	arch := bp.archive
	basePool.Put(bp)
	sr := &streamRun{w: sa, r: sb, wc: ca, rc: cb, dir: n % 2, base: base}
	sr.archive = arch[sr.dir]
	if sr.dir == 1 {
		sr.w, sr.r, sr.wc, sr.rc = sb, sa, cb, ca
	}
	sr.rc.keep = true
	sr.rng = rand.New(rand.NewSource(mbt.Seed()*1000003 + int64(n)))
	sr.wc.mu.Lock()
	sr.wc.onWrite = func(b []byte) {
		sr.sent = append(sr.sent, b)
		sr.rc.feed(append([]byte(nil), b...))
	}
	// a frame whose underlying write "fails": the sealed frame is recorded, only its first `pass` bytes reach the wire
	sr.wc.onFault = func(full []byte, pass int) {
		sr.sent = append(sr.sent, full)
		if pass > 0 {
			sr.rc.feed(append([]byte(nil), full[:pass]...))
		}
	}
	sr.wc.mu.Unlock()
	return sr, nil
}

// spliced reports whether the last Read consumed bytes of more than one wire segment that happen to be
// byte-identical to a frame the writer sealed.  The specification treats a cut frame followed by other
// bytes as different from the original; when the byte(s) sliding in equal the ones cut away (1 in 256 for a
// one-byte cut) the wire content IS the genuine frame and accepting it is correct: such a behaviour is
// skipped, not judged.
func (sr *streamRun) spliced() bool {
	sr.rc.mu.Lock()
	defer sr.rc.mu.Unlock()
	if len(sr.rc.served) < 2 {
		return false
	}
	var all []byte
	for _, p := range sr.rc.served {
		all = append(all, p...)
	}
	for _, f := range sr.sent {
		if bytes.Equal(all, f) {
			return true
		}
	}
	return false
}

func insertAt(w [][]byte, j int, x []byte) [][]byte {
	w = append(w, nil)
	copy(w[j+1:], w[j:])
	w[j] = x
	return w
}

// manip executes one man-in-the-middle action on the unread wire (positions are 1-based as in the specification).
func (sr *streamRun) manip(a []interface{}) error {
	op := a[0].(string)
	j := ai(a[1]) - 1
	rc := sr.rc
	rc.mu.Lock()
	defer rc.mu.Unlock()
	w := rc.in
	need := func(k int) error {
		if k < 0 || k >= len(w) {
			return fmt.Errorf("driver wire has %d segments, action %v addresses %d", len(w), a, k+1)
		}
		return nil
	}
	switch op {
	case "flip":
		if err := need(j); err != nil {
			return err
		}
		off := ai(a[2])
		if off >= len(w[j]) {
			return fmt.Errorf("segment %d has %d bytes, flip at %d", j+1, len(w[j]), off)
		}
		bit := sr.rng.Intn(8)
		seg := append([]byte(nil), w[j]...)
		seg[off] ^= 1 << uint(bit)
		w[j] = seg
	case "drop":
		if err := need(j); err != nil {
			return err
		}
		w = append(w[:j:j], w[j+1:]...)
	case "dup":
		if err := need(j); err != nil {
			return err
		}
		w = insertAt(w, j+1, append([]byte(nil), w[j]...))
	case "swap":
		k := ai(a[2]) - 1
		if err := need(j); err != nil {
			return err
		}
		if err := need(k); err != nil {
			return err
		}
		w[j], w[k] = w[k], w[j]
	case "cutt":
		if err := need(j); err != nil {
			return err
		}
		w[j] = w[j][:ai(a[2])]
	case "cuth":
		if err := need(j); err != nil {
			return err
		}
		w[j] = w[j][ai(a[2]):]
	case "replay":
		i := ai(a[2]) - 1
		if i < 0 || i >= len(sr.sent) || j > len(w) {
			return fmt.Errorf("replay %v: %d frames sent, %d segments", a, len(sr.sent), len(w))
		}
		w = insertAt(w, j, append([]byte(nil), sr.sent[i]...))
	case "archive": // a frame recorded at the beginning of this session (counter a[2] < base), same keys, same direction
		i := ai(a[2])
		if i < 0 || i >= len(sr.archive) || j > len(w) {
			return fmt.Errorf("archive %v: %d archived frames, %d segments", a, len(sr.archive), len(w))
		}
		w = insertAt(w, j, append([]byte(nil), sr.archive[i]...))
	case "inject":
		if j > len(w) {
			return fmt.Errorf("inject %v: %d segments", a, len(w))
		}
		nonce := ai(a[2])
		var f []byte
		switch a[3].(string) {
		case "rev": // a frame the READER sealed for the other direction, with the nonce the reader expects next
			if sr.rev == nil {
				rsc, rcc := sr.r, sr.rc
				rc.mu.Unlock()
				sr.rev = sealSome(rsc, rcc, preNonces)
				rc.mu.Lock()
				w = rc.in
			}
			if nonce >= len(sr.rev) {
				return fmt.Errorf("nonce %d beyond the prepared frames", nonce)
			}
			f = sr.rev[nonce]
		case "old": // a frame with that nonce, same direction, from an earlier session of the same two keys
			of, err := oldSession()
			if err != nil {
				return err
			}
			if nonce >= len(of[sr.dir]) {
				return fmt.Errorf("nonce %d beyond the prepared frames", nonce)
			}
			f = of[sr.dir][nonce]
		default:
			f = make([]byte, sealedSize)
			sr.rng.Read(f)
		}
		w = insertAt(w, j, append([]byte(nil), f...))
	default:
		return fmt.Errorf("unknown action %v", a)
	}
	rc.in = w
	return nil
}

// TestStream replays the dump of MC_Stream.
func TestStream(t *testing.T) {
	res := mbt.NewResult()
	defer res.Write()
	pat := streamPattern()
	tag := os.Getenv("CONN_TAG")
	pfx := "conn:stream:"
	var first sync.Once
	sent, err := mbt.EachLine(os.Getenv("CONN_DUMP"), 0, mbt.EnvInt("CONN_LIMIT", 0), mbt.EnvInt("CONN_STRIDE", 1), mbt.Seed(), func(n int, raw []byte) {
		var l sline
		if err := json.Unmarshal(raw, &l); err != nil {
			res.Mismatch("infra:parse", err.Error(), string(raw))
			return
		}
		sr, err := newStreamRun(n)
		if err != nil {
			res.Mismatch(pfx+"handshake:honest-pair-fails", err.Error(), nil)
			return
		}
		detail := map[string]interface{}{"hist": l.H, "dir": sr.dir, "seed": mbt.Seed(), "line": n, "cfg": tag, "base": fmt.Sprint(sr.base)}
		// the code panics by design rather than let the counter pass 2^64-1 ("can't increase nonce without overflow"):
		// that ends the session; behaviours that would seal more frames than there is room for are not replayed
		frames := uint64(0)
		for _, a := range l.H {
			switch a[0].(string) {
			case "w":
				frames += uint64((ai(a[1]) + 1023) / 1024)
			case "wf":
				frames += uint64(ai(a[2]))
			}
		}
		if frames > math.MaxUint64-sr.base {
			res.Add("skipped_counter_would_overflow", 1)
			return
		}
		nontrivial := false
		delivered, manips, readFaults := 0, 0, 0
		for k, a := range l.H {
			op := a[0].(string)
			wantClass, wantN, wantOff := a[4].(string), ai(a[5]), ai(a[6])
			switch op {
			case "wf":
				// Write(nb) whose kf-th underlying frame write reports an error after `pass` of the 1044 bytes went out
				nontrivial = true
				nb, kf, pass := ai(a[1]), ai(a[2]), ai(a[3])
				sr.wc.mu.Lock()
				sr.wc.wfIn, sr.wc.wfPass = kf, pass
				sr.wc.mu.Unlock()
				var got int
				var werr error
				func() {
					defer recoverTo(&werr)
					got, werr = sr.w.Write(pat[sr.total : sr.total+nb])
				}()
				if werr != nil && len(werr.Error()) >= 5 && werr.Error()[:5] == "PANIC" {
					res.Mismatch(pfx+"write:panic", fmt.Sprintf("step %d of %v: Write panicked on a failing underlying write: %v", k+1, l.H, werr), detail)
					return
				}
				if werr == nil {
					res.Mismatch(pfx+"write:fault-swallowed", fmt.Sprintf("step %d of %v: the underlying write of frame %d of Write(%d) returned an error, Write returned (%d, nil): the application is told that bytes are out which are not", k+1, l.H, kf, nb, got), detail)
					return
				}
				if got != wantN {
					res.Add("write_fault_count_divergence", 1) // how many bytes Write reports next to the error is lock-step only
					return
				}
				// the failed frame has been sealed: its data are stream positions like any other frame's
				adv := kf * 1024
				if adv > nb {
					adv = nb
				}
				sr.total += adv
			case "rf":
				// Read(nb) whose underlying read fails after `at` bytes of the frame
				nontrivial = true
				readFaults++
				nb, at := ai(a[1]), ai(a[2])
				sr.rc.mu.Lock()
				sr.rc.rfAfter = at
				sr.rc.served = nil
				sr.rc.mu.Unlock()
				buf := make([]byte, nb)
				var got int
				var rerr error
				func() {
					defer recoverTo(&rerr)
					got, rerr = sr.r.Read(buf)
				}()
				sr.rc.mu.Lock()
				sr.rc.rfAfter = -1
				sr.rc.mu.Unlock()
				if rerr != nil && len(rerr.Error()) >= 5 && rerr.Error()[:5] == "PANIC" {
					res.Mismatch(pfx+"read:panic", fmt.Sprintf("step %d of %v: Read panicked on a failing underlying read: %v", k+1, l.H, rerr), detail)
					return
				}
				if got > 0 {
					res.Mismatch(pfx+"read:data-on-failed-read", fmt.Sprintf("step %d of %v: the underlying read failed after %d bytes of the frame, Read(%d) returned (%d, %v)", k+1, l.H, at, nb, got, rerr), detail)
					return
				}
				if rerr == nil {
					res.Add("read_fault_divergence", 1) // (0, nil): nothing delivered, nothing wrong; lock-step lost
					return
				}
			case "w":
				nb := ai(a[1])
				var got int
				var werr error
				func() {
					defer recoverTo(&werr)
					got, werr = sr.w.Write(pat[sr.total : sr.total+nb])
				}()
				if werr != nil || got != wantN {
					res.Mismatch(pfx+"write:result", fmt.Sprintf("step %d of %v: Write(%d bytes) returned (%d, %v), specified (%d, nil)", k+1, l.H, nb, got, werr, wantN), detail)
					return
				}
				for _, f := range sr.sent {
					if len(f) != sealedSize {
						res.Mismatch("infra:stream-framesize", fmt.Sprintf("a sealed frame of %d bytes was written; the driver's man in the middle works on frames of %d bytes (dataMaxSize + dataLenSize + aeadSizeOverhead)", len(f), sealedSize), detail)
						return
					}
				}
				if len(sr.sent) > 0 {
					first.Do(func() { res.Set("sealed_frame_bytes", len(sr.sent[0])) })
				}
				sr.total += nb
			case "c":
				sr.wc.Close()
				sr.rc.feedEOF()
				nontrivial = true
			case "r":
				nb := ai(a[1])
				buf := make([]byte, nb)
				var got int
				var rerr error
				sr.rc.mu.Lock()
				sr.rc.served = nil
				sr.rc.mu.Unlock()
				func() {
					defer recoverTo(&rerr)
					got, rerr = sr.r.Read(buf)
				}()
				if rerr == errWouldBlock || rerr == errHang {
					res.Mismatch("infra:stream-read-blocks", fmt.Sprintf("step %d of %v: %v", k+1, l.H, rerr), detail)
					return
				}
				if rerr != nil && len(rerr.Error()) > 5 && rerr.Error()[:5] == "PANIC" {
					res.Mismatch(pfx+"read:panic", fmt.Sprintf("step %d of %v: Read panicked: %v", k+1, l.H, rerr), detail)
					return
				}
				switch {
				case wantClass == "err" && rerr == nil && sr.spliced():
					res.Add("skipped_cut_restored_by_identical_bytes", 1)
					return
				case wantClass == "err" && rerr == nil && readFaults > 0 && manips == 0 && delivered+got <= len(pat) && bytes.Equal(buf[:got], pat[delivered:delivered+got]):
					// a connection that keeps the bytes of a frame across a failed underlying read and goes on
					// correctly satisfies C20 as well: the next bytes in order were delivered
					res.Add("read_fault_recovery_divergence", 1)
					return
				case wantClass == "err" && rerr == nil:
					res.Mismatch(pfx+"read:data-instead-of-error", fmt.Sprintf("step %d of %v: Read(%d) returned %d bytes and no error where the specification reports an error (manipulated / missing frame delivered)", k+1, l.H, nb, got), detail)
					return
				case wantClass == "ok" && rerr != nil:
					res.Mismatch(pfx+"read:error-instead-of-data", fmt.Sprintf("step %d of %v: Read(%d) failed with %q, specified %d bytes at stream offset %d", k+1, l.H, nb, rerr, wantN, wantOff), detail)
					return
				case wantClass == "err":
					if got != 0 {
						res.Mismatch(pfx+"read:bytes-with-error", fmt.Sprintf("step %d of %v: Read(%d) returned %d bytes together with error %q", k+1, l.H, nb, got, rerr), detail)
						return
					}
				default:
					// the bytes must be the next ones of the stream (the specification's offset is the number of bytes
					// delivered so far); HOW MANY a Read hands out is lock-step only
					if got > len(buf) || wantOff+got > len(pat) || !bytes.Equal(buf[:got], pat[wantOff:wantOff+got]) {
						res.Mismatch(pfx+"read:bytes", fmt.Sprintf("step %d of %v: Read(%d) returned %d bytes that are not bytes %d.. of what was written", k+1, l.H, nb, got, wantOff), detail)
						return
					}
					if got != wantN {
						res.Add("read_length_divergence", 1)
						return
					}
					delivered += got
				}
			default:
				nontrivial = true
				manips++
				if err := sr.manip(a); err != nil {
					res.Mismatch("infra:stream-manip", err.Error(), detail)
					return
				}
			}
		}
		res.Count(1)
		if nontrivial {
			res.Distinct(string(raw))
		}
		if n%4999 == 1 {
			res.Sample(map[string]interface{}{"behaviour": l.H, "delivered": l.D, "errors": l.E, "cfg": tag})
		}
	})
	if err != nil {
		res.Mismatch("infra:read", err.Error(), nil)
	}
	if sent == 0 {
		res.Mismatch("infra:empty-dump", "no behaviour in "+os.Getenv("CONN_DUMP"), nil)
	}
	res.Behaviours = sent
	res.Set("replayed_"+tag, sent)
}
