package conn

// MConn.tla bound to lib/p2p/conn/connection.go.
//
//  TestMConnReplay  MBT: every quiescent behaviour of MC_MConn.
//      CONN_SCHED=any   the packets of the behaviour (every interleaving across channels) are encoded by the
//                       driver and read by a real, running MConnection: deliveries and the final error compared.
//      CONN_SCHED=prio  the sender is a real MConnection too, stepped through the verif wrappers
//                       (VerifEnqueue / VerifSendPacketMsg / VerifUpdateStats): TrySend result and every packet
//                       (EOF flag, length, bytes; the channel chosen is lock-step only) compared, and its real
//                       bytes are what the real receiver reads.
//  TestMConnRecord  TV producer: a real MConnection pair over a real SecretConnection pair, concurrent senders;
//                   events send / pkt / dlv / rerr under one mutex into an ndjson file that MConnTrace.tla validates.

import (
	"bufio"
	"bytes"
	"encoding/json"
	"fmt"
	"io"
	"math/rand"
	"net"
	"os"
	"path/filepath"
	"runtime"
	"sync"
	"testing"
	"time"

	"github.com/gogo/protobuf/proto"

	"github.com/kardiachain/go-kardia/lib/log"
	p2pconn "github.com/kardiachain/go-kardia/lib/p2p/conn"
	kp2p "github.com/kardiachain/go-kardia/proto/kardiachain/p2p"

	"verifharness/internal/mbt"
)

// ------------------------------------------------------------------ configuration shared with the model

type mcfg struct {
	chid, prio, qcap, rcap []int
	maxPayload             int
}

func envInts(name string) []int {
	var out []int
	for _, x := range splitList(os.Getenv(name)) {
		var v int
		fmt.Sscan(x, &v)
		out = append(out, v)
	}
	return out
}

func loadMcfg() mcfg {
	return mcfg{chid: envInts("CONN_CHID"), prio: envInts("CONN_PRIO"), qcap: envInts("CONN_QCAP"), rcap: envInts("CONN_RCAP"),
		maxPayload: mbt.EnvInt("CONN_MAXPAYLOAD", 1024)}
}

func (c mcfg) descs() []*p2pconn.ChannelDescriptor {
	var ds []*p2pconn.ChannelDescriptor
	for i := range c.chid {
		ds = append(ds, &p2pconn.ChannelDescriptor{ID: byte(c.chid[i]), Priority: c.prio[i], SendQueueCapacity: c.qcap[i],
			RecvMessageCapacity: c.rcap[i], RecvBufferCapacity: 64})
	}
	return ds
}

func (c mcfg) conf() p2pconn.MConnConfig {
	return p2pconn.MConnConfig{SendRate: 0, RecvRate: 0, // 0 = unthrottled (flowrate.Limit)
		MaxPacketMsgPayloadSize: c.maxPayload, FlushThrottle: time.Millisecond,
		PingInterval: 2 * time.Hour, PongTimeout: time.Hour}
}

// msgBytes: the content of message id (of a given length): position p carries a byte that depends on id and p,
// so a fragment of another message, a shifted, a repeated or a missing fragment changes the content.
func msgBytes(id, n int) []byte {
	b := make([]byte, n)
	x := uint32(id)*2654435761 + 0x9e3779b9
	for p := range b {
		x = x*1664525 + 1013904223 + uint32(p)
		b[p] = byte(x >> 24)
	}
	return b
}

func encodePacket(chid int, eof bool, data []byte) []byte {
	return delimited(&kp2p.Packet{Sum: &kp2p.Packet_PacketMsg{PacketMsg: &kp2p.PacketMsg{ChannelID: int32(chid), EOF: eof, Data: data}}})
}

// readPacket parses one delimited kp2p.Packet from the front of b: (packet, bytes consumed) or (nil, 0) if incomplete.
func readPacket(b []byte) (*kp2p.Packet, int, error) {
	l, n := proto.DecodeVarint(b)
	if n == 0 || len(b) < n+int(l) {
		return nil, 0, nil
	}
	var p kp2p.Packet
	if err := proto.Unmarshal(b[n:n+int(l)], &p); err != nil {
		return nil, 0, err
	}
	return &p, n + int(l), nil
}

// ------------------------------------------------------------------ a real receiver

type delivery struct {
	ch   int
	data []byte
}

type receiver struct {
	mc      *p2pconn.MConnection
	c       *memConn
	mu      sync.Mutex
	got     []delivery
	errored bool       // onError has been called
	late    []delivery // deliveries after onError
	errc    chan interface{}
}

func newReceiver(cfg mcfg) (*receiver, error) {
	r := &receiver{c: newMemConn("recv", true), errc: make(chan interface{}, 4)}
	onRecv := func(ch byte, b []byte) {
		r.mu.Lock()
		d := delivery{int(ch), append([]byte(nil), b...)}
		if r.errored {
			r.late = append(r.late, d)
		}
		r.got = append(r.got, d)
		r.mu.Unlock()
	}
	onErr := func(e interface{}) {
		r.mu.Lock()
		r.errored = true
		r.mu.Unlock()
		r.errc <- e
	}
	r.mc = p2pconn.NewMConnectionWithConfig(r.c, cfg.descs(), onRecv, onErr, cfg.conf())
	r.mc.SetLogger(log.NewNopLogger())
	if err := r.mc.Start(); err != nil {
		return nil, err
	}
	return r, nil
}

// finish: the peer closes; the receiver reads what is left and reports an error (io.EOF when it got that far).
func (r *receiver) finish() (interface{}, error) {
	r.c.feedEOF()
	select {
	case e := <-r.errc:
		r.mc.Stop()
		return e, nil
	case <-time.After(hangTimeout):
		r.mc.Stop()
		return nil, errHang
	}
}

// stopClass: "" when the receiver ran until the peer closed (io.EOF), "stop" when it stopped the connection with
// an error of its own (capacity exceeded, unknown channel, ...).  The error text is not looked at.
func stopClass(e interface{}) string {
	if err, ok := e.(error); ok && err == io.EOF {
		return ""
	}
	return "stop"
}

// specStop maps the specification's rstop ("", "cap", "chan") to the same two classes.
func specStop(s string) string {
	if s == "" {
		return ""
	}
	return "stop"
}

type mline struct {
	H    [][]interface{} `json:"h"`
	D    [][][]int       `json:"d"`
	Stop string          `json:"stop"`
}

// TestMConnReplay replays the dump of MC_MConn.
//
// Verdicts are taken where C20 speaks: on what the receiving side's onReceive gets (per channel: the messages
// sent, each once, in order, intact; nothing above the capacity; the connection stops for an oversized message)
// and on a message that the sender accepted but reports no longer pending without having written it.  Which
// channel goes first, how a message is cut into packets and when TrySend reports a full queue keep the replay
// in lock-step with the specification; a difference there is counted (sched/shape/send divergence), the
// behaviour is then finished without packet-level comparison and judged by the deliveries alone.
func TestMConnReplay(t *testing.T) {
	res := mbt.NewResult()
	defer res.Write()
	cfg := loadMcfg()
	sched := os.Getenv("CONN_SCHED")
	batching := os.Getenv("CONN_BATCH")
	tag := os.Getenv("CONN_TAG")
	pfx := "conn:mconn:"
	// receivers that stopped with an error are looked at once more when everything has wound down: nothing may
	// have been delivered after onError (a receive loop that keeps draining its read buffer does that)
	type stoppedRcv struct {
		r *receiver
		h [][]interface{}
		n int
	}
	var stoppedMu sync.Mutex
	var stoppedList []stoppedRcv
	baseGoroutines := runtime.NumGoroutine()
	sent, err := mbt.EachLine(os.Getenv("CONN_DUMP"), 0, mbt.EnvInt("CONN_LIMIT", 0), mbt.EnvInt("CONN_STRIDE", 1), mbt.Seed(), func(n int, raw []byte) {
		var l mline
		if err := json.Unmarshal(raw, &l); err != nil {
			res.Mismatch("infra:parse", err.Error(), string(raw))
			return
		}
		detail := map[string]interface{}{"hist": l.H, "sched": sched, "cfg": tag, "chid": cfg.chid, "prio": cfg.prio, "qcap": cfg.qcap,
			"rcap": cfg.rcap, "maxPayload": cfg.maxPayload, "seed": mbt.Seed(), "line": n}
		rcv, err := newReceiver(cfg)
		if err != nil {
			res.Mismatch("infra:mconn-start", err.Error(), detail)
			return
		}
		stopped := false
		defer func() {
			if !stopped {
				rcv.c.feedEOF()
				rcv.mc.Stop()
			}
		}()
		var snd *p2pconn.MConnection
		var sc *memConn
		if sched == "prio" {
			sc = newMemConn("send", false)
			snd = p2pconn.NewMConnectionWithConfig(sc, cfg.descs(), func(byte, []byte) {}, func(interface{}) {}, cfg.conf())
			snd.SetLogger(log.NewNopLogger())
		}
		nid := 1
		lens := map[int]int{}                    // id -> length
		chOf := map[int]int{}                    // id -> channel index
		offs := map[int]int{}                    // id -> bytes packetised so far (specification)
		accepted := make([][]int, len(cfg.chid)) // per channel: ids the real sender accepted, in order
		nontrivial := false
		// packets are written to the receiver in BATCHES: one feed = one segment = one read of its bufio.Reader, so the
		// packets of a batch sit in the receiver's read buffer together (CONN_BATCH=any: at the model's flush steps)
		var batch []byte
		flush := func() {
			if len(batch) > 0 {
				rcv.c.feed(batch)
				batch = nil
			}
		}
		put := func(b []byte) {
			batch = append(batch, b...)
			if batching != "any" {
				flush()
			}
		}
		diverged := ""     // lock-step lost: why
		var pending []byte // real sender output not yet parsed
		// step the real sender once; returns the packet (nil: it says nothing is pending)
		step := func() (*kp2p.PacketMsg, bool, error) {
			var exhausted bool
			var perr error
			func() {
				defer recoverTo(&perr)
				exhausted = snd.VerifSendPacketMsg()
			}()
			if perr != nil {
				return nil, false, perr
			}
			sc.mu.Lock()
			for _, b := range sc.out {
				pending = append(pending, b...)
			}
			sc.out = nil
			sc.mu.Unlock()
			pk, used, err := readPacket(pending)
			if err != nil {
				return nil, exhausted, err
			}
			if pk == nil {
				return nil, exhausted, nil
			}
			put(pending[:used])
			pending = pending[used:]
			return pk.GetPacketMsg(), exhausted, nil
		}
		for k, a := range l.H {
			switch a[0].(string) {
			case "send":
				c, ln, want := ai(a[1])-1, ai(a[2]), a[3].(string)
				if ln == 0 || ln > cfg.maxPayload {
					nontrivial = true
				}
				ok := want == "ok"
				if snd != nil {
					var perr error
					func() {
						defer recoverTo(&perr)
						ok = snd.VerifEnqueue(byte(cfg.chid[c]), msgBytes(nid, ln))
					}()
					if perr != nil {
						res.Mismatch(pfx+"send:panic", fmt.Sprintf("step %d of %v: %v", k+1, l.H, perr), detail)
						return
					}
					if ok != (want == "ok") {
						// the queue bound is lock-step only; the message ids of the rest of the behaviour no longer line up
						res.Add("send_divergence", 1)
						return
					}
				}
				if ok {
					lens[nid] = ln
					chOf[nid] = c
					accepted[c] = append(accepted[c], nid)
					nid++
				}
			case "tick":
				if snd != nil {
					snd.VerifUpdateStats()
				}
			case "flush":
				flush()
			case "inj":
				nontrivial = true
				switch a[3].(string) {
				case "unknown":
					put(encodePacket(0x7e, true, []byte{1}))
				case "ping":
					put(delimited(&kp2p.Packet{Sum: &kp2p.Packet_PacketPing{PacketPing: &kp2p.PacketPing{}}}))
				case "pong":
					put(delimited(&kp2p.Packet{Sum: &kp2p.Packet_PacketPong{PacketPong: &kp2p.PacketPong{}}}))
				case "malformed": // a correct length prefix, bytes that are no Packet (field 1 with the illegal wire type 7)
					put([]byte{2, 0x0f, 0x00})
				case "toolong": // a length prefix far above maxPacketMsgSize
					put(proto.EncodeVarint(uint64(cfg.maxPayload + 100000)))
				case "nosum": // a Packet without content
					put(delimited(&kp2p.Packet{}))
				case "readerr": // the underlying read fails here: what was written before has been read
					flush()
					rcv.c.feedReadError()
				}
			case "pkt":
				c, ln, eof, id := ai(a[1])-1, ai(a[2]), a[3].(string) == "eof", ai(a[4])
				want := msgBytes(id, lens[id])[offs[id] : offs[id]+ln]
				offs[id] += ln
				if snd == nil {
					put(encodePacket(cfg.chid[c], eof, want))
					continue
				}
				pm, exhausted, err := step()
				if err != nil {
					res.Mismatch(pfx+"packet:panic-or-undecodable", fmt.Sprintf("step %d of %v: %v", k+1, l.H, err), detail)
					return
				}
				if diverged != "" {
					continue
				}
				if exhausted || pm == nil {
					// the real sender says nothing is pending while message id is: it will never be written
					if lens[id] == 0 {
						res.Mismatch(pfx+"empty-message-lost", fmt.Sprintf("step %d of %v: TrySend accepted the zero-length message %d on channel %#x, but sendPacketMsg never puts it on the wire (it reports nothing pending): it was taken from the queue during a scan that chose another channel and forgotten (isSendPending tests len(ch.sending) == 0); specified: delivered exactly once", k+1, l.H, id, cfg.chid[c]), detail)
					} else {
						res.Mismatch(pfx+"message-lost", fmt.Sprintf("step %d of %v: sendPacketMsg reports nothing pending although message %d (%d bytes, %d written) on channel %#x was accepted by TrySend: it is never transmitted", k+1, l.H, id, lens[id], offs[id]-ln, cfg.chid[c]), detail)
					}
					return
				}
				switch {
				case int(pm.ChannelID) != cfg.chid[c]:
					diverged = "sched"
				case pm.EOF != eof || len(pm.Data) != ln:
					diverged = "shape"
				case !bytes.Equal(pm.Data, want):
					res.Mismatch(pfx+"packet:bytes", fmt.Sprintf("step %d of %v: the packet on channel %#x does not carry bytes %d..%d of message %d", k+1, l.H, cfg.chid[c], offs[id]-ln, offs[id], id), detail)
					return
				}
			case "recv":
				if r := a[3].(string); r == "cap" || r == "chan" {
					nontrivial = true
				}
			}
		}
		if snd != nil {
			// the specification has nothing pending any more; whatever the real sender still has goes out
			for i := 0; ; i++ {
				pm, exhausted, err := step()
				if err != nil {
					res.Mismatch(pfx+"packet:panic-or-undecodable", fmt.Sprintf("after %v: %v", l.H, err), detail)
					return
				}
				if exhausted || pm == nil {
					break
				}
				if diverged == "" {
					diverged = "shape"
				}
				if i > 100000 {
					res.Mismatch(pfx+"packet:endless", fmt.Sprintf("after %v: the sender does not stop producing packets", l.H), detail)
					return
				}
			}
		}
		if diverged != "" {
			res.Add(diverged+"_divergence", 1)
		}
		flush()
		e, herr := rcv.finish()
		stopped = true
		if herr != nil {
			res.Mismatch("infra:hang-mconn-recv", fmt.Sprintf("after %v: receiver reported no error within %v after the peer closed", l.H, hangTimeout), detail)
			return
		}
		// deliveries, per channel, in order
		rcv.mu.Lock()
		got := rcv.got
		rcv.mu.Unlock()
		per := make([][]delivery, len(cfg.chid))
		for _, d := range got {
			idx := -1
			for i, id := range cfg.chid {
				if id == d.ch {
					idx = i
				}
			}
			if idx < 0 {
				res.Mismatch(pfx+"deliver:unknown-channel", fmt.Sprintf("after %v: onReceive called for channel %#x", l.H, d.ch), detail)
				return
			}
			per[idx] = append(per[idx], d)
		}
		realStop := stopClass(e)
		if realStop != "" {
			stoppedMu.Lock()
			stoppedList = append(stoppedList, stoppedRcv{rcv, l.H, n})
			stoppedMu.Unlock()
		}
		oversize := false
		for id, ln := range lens {
			if ln > cfg.rcap[chOf[id]] {
				oversize = true
			}
		}
		for c := range cfg.chid {
			// lock-step: exactly the specified deliveries.  After a divergence: the C20 statement itself
			// (a prefix of what was accepted on this channel, all of it if the connection did not stop)
			want := l.D[c]
			if diverged != "" {
				want = nil
				for _, id := range accepted[c] {
					want = append(want, []int{id, lens[id]})
				}
			}
			// deliveries against `want`; zero-length messages that are simply absent are collected separately: that is the
			// one known way connection.go loses a message (see MConn.tla, Forget), reported under its own signature
			var lostEmpty []int
			wi := 0
			for i, d := range per[c] {
				for wi < len(want) && want[wi][1] == 0 && len(d.data) != 0 {
					lostEmpty = append(lostEmpty, want[wi][0])
					wi++
				}
				if wi >= len(want) {
					res.Mismatch(pfx+"deliver:extra", fmt.Sprintf("after %v: channel %#x delivered %d messages, specified %d (the extra one has %d bytes)", l.H, cfg.chid[c], len(per[c]), len(want), len(d.data)), detail)
					return
				}
				id, ln := want[wi][0], want[wi][1]
				wi++
				if !bytes.Equal(d.data, msgBytes(id, ln)) {
					res.Mismatch(pfx+"deliver:content", fmt.Sprintf("after %v: delivery %d on channel %#x (%d bytes) is not message %d (%d bytes) intact", l.H, i+1, cfg.chid[c], len(d.data), id, ln), detail)
					return
				}
				if len(d.data) > cfg.rcap[c] {
					res.Mismatch(pfx+"deliver:oversize", fmt.Sprintf("after %v: channel %#x delivered a message of %d bytes, RecvMessageCapacity is %d", l.H, cfg.chid[c], len(d.data), cfg.rcap[c]), detail)
					return
				}
			}
			if diverged == "" || realStop == "" {
				for wi < len(want) && want[wi][1] == 0 {
					lostEmpty = append(lostEmpty, want[wi][0])
					wi++
				}
				if wi < len(want) {
					res.Mismatch(pfx+"deliver:missing", fmt.Sprintf("after %v: channel %#x delivered %d messages, specified %d (first missing: message %d of %d bytes); receiver ended with %v", l.H, cfg.chid[c], len(per[c]), len(want), want[wi][0], want[wi][1], e), detail)
					return
				}
			}
			if len(lostEmpty) > 0 {
				res.Mismatch(pfx+"empty-message-lost", fmt.Sprintf("after %v: the zero-length message(s) %v accepted by TrySend on channel %#x were never delivered (every other message of the channel was, in order); isSendPending tests len(ch.sending) == 0 and forgets a zero-length message taken from the queue while another channel is chosen; specified: delivered exactly once", l.H, lostEmpty, cfg.chid[c]), detail)
				return
			}
		}
		if diverged == "" && realStop != specStop(l.Stop) {
			if l.Stop == "" {
				res.Mismatch(pfx+"stop:spurious", fmt.Sprintf("after %v: receiver stopped the connection with %v, specified: runs until the peer closes", l.H, e), detail)
			} else {
				res.Mismatch(pfx+"stop:missing", fmt.Sprintf("after %v: receiver ran until the peer closed (%v), specified: stops the connection (%q: oversized message / unknown channel refused)", l.H, e, l.Stop), detail)
			}
			return
		}
		if diverged != "" && realStop != "" && !oversize && specStop(l.Stop) == "" {
			res.Mismatch(pfx+"stop:spurious", fmt.Sprintf("after %v: receiver stopped the connection with %v although no message exceeds the capacity", l.H, e), detail)
			return
		}
		res.Count(1)
		if nontrivial {
			res.Distinct(string(raw))
		}
		if n%1999 == 1 {
			res.Sample(map[string]interface{}{"behaviour": l.H, "delivered": l.D, "stop": l.Stop, "cfg": tag})
		}
	})
	if err != nil {
		res.Mismatch("infra:read", err.Error(), nil)
	}
	if sent == 0 {
		res.Mismatch("infra:empty-dump", "no behaviour in "+os.Getenv("CONN_DUMP"), nil)
	}
	// barrier: every recvRoutine / sendRoutine started above has returned (they all do once their connection is
	// stopped); bounded, and only ever adds detections
	for deadline := time.Now().Add(5 * time.Second); runtime.NumGoroutine() > baseGoroutines && time.Now().Before(deadline); {
		time.Sleep(time.Millisecond)
	}
	if g := runtime.NumGoroutine() - baseGoroutines; g > 0 {
		res.Set("goroutines_left_at_barrier", g)
	}
	for _, sr := range stoppedList {
		sr.r.mu.Lock()
		late := sr.r.late
		sr.r.mu.Unlock()
		if len(late) > 0 {
			res.Mismatch(pfx+"deliver:after-error", fmt.Sprintf("after %v: %d message(s) were handed to onReceive AFTER the receiver had stopped the connection and called onError (first: %d bytes on channel %#x); specified: nothing is delivered after an error -- the receive loop must not go on consuming what it has already read", sr.h, len(late), len(late[0].data), late[0].ch),
				map[string]interface{}{"hist": sr.h, "sched": sched, "batching": batching, "cfg": tag, "chid": cfg.chid, "rcap": cfg.rcap, "maxPayload": cfg.maxPayload, "seed": mbt.Seed(), "line": sr.n})
		}
	}
	res.Behaviours = sent
	res.Set("replayed_"+tag, sent)
}

// ------------------------------------------------------------------ trace recording (TV)

type evlog struct {
	mu   sync.Mutex
	cond *sync.Cond
	w    *bufio.Writer
	gen  int // bumped on every event: what TrySend retries wait for
	n    int
}

func (l *evlog) emitLocked(e map[string]interface{}) {
	b, _ := json.Marshal(e)
	l.w.Write(b)
	l.w.WriteByte('\n')
	l.n++
	l.gen++
	l.cond.Broadcast()
}
func (l *evlog) emit(e map[string]interface{}) { l.mu.Lock(); l.emitLocked(e); l.mu.Unlock() }

// tapConn sits between the sending MConnection and its SecretConnection: it cuts the byte stream the
// MConnection writes (in whatever chunks bufio flushes) into delimited packets, logs each PacketMsg BEFORE
// passing it on, and passes everything on unchanged.
type tapConn struct {
	net.Conn
	log  *evlog
	buf  []byte
	bad  bool
	dead bool // set under log.mu when the run is over: a sendRoutine that is still on its way out logs nothing more
}

func (t *tapConn) emit(e map[string]interface{}) {
	t.log.mu.Lock()
	if !t.dead {
		t.log.emitLocked(e)
	}
	t.log.mu.Unlock()
}

func (t *tapConn) Write(p []byte) (int, error) {
	t.buf = append(t.buf, p...)
	for !t.bad {
		pk, used, err := readPacket(t.buf)
		if err != nil {
			t.bad = true
			t.emit(map[string]interface{}{"e": "pkt", "ch": -1, "eof": false, "n": 0})
			break
		}
		if pk == nil {
			break
		}
		if pm := pk.GetPacketMsg(); pm != nil {
			t.emit(map[string]interface{}{"e": "pkt", "ch": int(pm.ChannelID), "eof": pm.EOF, "n": len(pm.Data)})
		}
		if _, err := t.Conn.Write(t.buf[:used]); err != nil {
			return 0, err
		}
		t.buf = t.buf[used:]
	}
	if t.bad {
		if _, err := t.Conn.Write(t.buf); err != nil {
			return 0, err
		}
		t.buf = nil
	}
	return len(p), nil
}

// linkClose makes a Close on one end visible on the other (EOF for reads, error for writes).
func linkClose(a, b *memConn) {
	a.mu.Lock()
	a.onClose = b.peerClosed
	a.mu.Unlock()
	b.mu.Lock()
	b.onClose = a.peerClosed
	b.mu.Unlock()
}

// TestMConnRecord runs CONN_RUNS seeded scenarios and writes the trace to CONN_TRACE.
func TestMConnRecord(t *testing.T) {
	res := mbt.NewResult()
	defer res.Write()
	cfg := loadMcfg()
	runs := mbt.EnvInt("CONN_RUNS", 10)
	path := os.Getenv("CONN_TRACE")
	if path == "" {
		path = filepath.Join(os.Getenv("VERIF_SCRATCH"), "mconn-trace.ndjson")
	}
	f, err := os.Create(path)
	if err != nil {
		res.Mismatch("infra:trace-file", err.Error(), nil)
		return
	}
	defer f.Close()
	lg := &evlog{w: bufio.NewWriterSize(f, 1<<20)}
	lg.cond = sync.NewCond(&lg.mu)
	defer lg.w.Flush()
	rng := rand.New(rand.NewSource(mbt.Seed()*104729 + int64(cfg.maxPayload)))
	oversizeEvery := mbt.EnvInt("CONN_OVERSIZE_EVERY", 4)
	for run := 0; run < runs; run++ {
		lg.emit(map[string]interface{}{"e": "reset", "run": run})
		if err := recordRun(cfg, lg, rng, run, oversizeEvery > 0 && run%oversizeEvery == oversizeEvery-1, res); err != nil {
			res.Mismatch("infra:mconn-record", fmt.Sprintf("run %d: %v", run, err), nil)
			return
		}
		res.Count(1)
	}
	res.Behaviours = runs
	res.Set("trace_events", lg.n)
}

func pickLen(rng *rand.Rand, cfg mcfg, c int, oversize bool) int {
	mp, rc := cfg.maxPayload, cfg.rcap[c]
	if oversize {
		return rc + 1 + rng.Intn(2*mp)
	}
	var n int
	switch rng.Intn(12) {
	case 0:
		n = 0
	case 1:
		n = 1
	case 2:
		n = mp - 1
	case 3:
		n = mp
	case 4:
		n = mp + 1
	case 5:
		n = 2 * mp
	case 6:
		n = 2*mp + 1
	case 7:
		n = rc
	case 8:
		n = rc - 1
	case 9:
		n = rng.Intn(mp + 1)
	default:
		n = rng.Intn(rc + 1)
	}
	if n > rc {
		n = rc
	}
	if n < 0 {
		n = 0
	}
	if n == 0 && !zeroLen {
		n = 1 + rng.Intn(3)
	}
	return n
}

// zeroLen: whether the recorder sends zero-length messages (CONN_ZERO, default yes).  The check records one
// group of runs without them, so that the bulk of the trace validation does not depend on how they are treated.
var zeroLen = os.Getenv("CONN_ZERO") != "0"

func recordRun(cfg mcfg, lg *evlog, rng *rand.Rand, run int, withOversize bool, res *mbt.Result) error {
	// real secret connection pair; blocking in-memory wire
	ca, cb := newMemConn("a", true), newMemConn("b", true)
	link(ca, cb)
	linkClose(ca, cb)
	var sa, sb *p2pconn.SecretConnection
	var ea, eb error
	var wg sync.WaitGroup
	wg.Add(2)
	go func() { defer wg.Done(); sa, ea = p2pconn.MakeSecretConnection(ca, longTerm["A"]) }()
	go func() { defer wg.Done(); sb, eb = p2pconn.MakeSecretConnection(cb, longTerm["B"]) }()
	wg.Wait()
	if ea != nil || eb != nil {
		return fmt.Errorf("handshake: %v / %v", ea, eb)
	}
	// plan: per sender goroutine a list of (channel, length); ids are assigned at TrySend time under the log mutex
	type item struct{ c, n int }
	nsend := 2 + rng.Intn(2)
	plans := make([][]item, nsend)
	total := 0
	for g := range plans {
		k := 3 + rng.Intn(6)
		for i := 0; i < k; i++ {
			c := rng.Intn(len(cfg.chid))
			if g < len(cfg.chid) && rng.Intn(3) > 0 {
				c = g // mostly its own channel, sometimes shared
			}
			plans[g] = append(plans[g], item{c, pickLen(rng, cfg, c, false)})
			total++
		}
	}
	if withOversize {
		g := rng.Intn(nsend)
		i := rng.Intn(len(plans[g]) + 1)
		c := rng.Intn(len(cfg.chid))
		plans[g] = append(plans[g][:i:i], append([]item{{c, pickLen(rng, cfg, c, true)}}, plans[g][i:]...)...)
		total++
	}
	// registry for attributing deliveries by content
	var regMu sync.Mutex
	type sentMsg struct {
		id, c int
		data  []byte
	}
	var reg []*sentMsg
	// ended: set (under the log mutex) as soon as either side reports an error; the senders give up then
	ended := false
	finish := func() {
		lg.mu.Lock()
		ended = true
		lg.gen++
		lg.cond.Broadcast()
		lg.mu.Unlock()
	}
	rerr := make(chan interface{}, 4)
	onRecv := func(ch byte, b []byte) {
		// every sent message with exactly these bytes (zero-length and one-byte messages are not unique; the
		// specification knows which message a delivery on this channel must be and checks that it is among them)
		regMu.Lock()
		ids := []int{}
		for _, m := range reg {
			if bytes.Equal(m.data, b) {
				ids = append(ids, m.id)
			}
		}
		regMu.Unlock()
		lg.emit(map[string]interface{}{"e": "dlv", "ch": int(ch), "ids": ids, "n": len(b)})
	}
	onRecvErr := func(e interface{}) {
		k := stopClass(e)
		if k == "" {
			k = "eof"
		}
		lg.emit(map[string]interface{}{"e": "rerr", "k": k, "err": fmt.Sprint(e)})
		rerr <- e
		finish()
	}
	rmc := p2pconn.NewMConnectionWithConfig(sb, cfg.descs(), onRecv, onRecvErr, cfg.conf())
	rmc.SetLogger(log.NewNopLogger())
	tap := &tapConn{Conn: sa, log: lg}
	smc := p2pconn.NewMConnectionWithConfig(tap, cfg.descs(), func(byte, []byte) {}, func(interface{}) { finish() }, cfg.conf())
	smc.SetLogger(log.NewNopLogger())
	if err := rmc.Start(); err != nil {
		return err
	}
	if err := smc.Start(); err != nil {
		return err
	}
	nextID := 1
	var sw sync.WaitGroup
	for g := range plans {
		sw.Add(1)
		go func(plan []item) {
			defer sw.Done()
			for _, it := range plan {
				for {
					lg.mu.Lock()
					if ended {
						lg.mu.Unlock()
						return
					}
					id := nextID
					data := msgBytes(id+run*1000, it.n)
					regMu.Lock()
					reg = append(reg, &sentMsg{id: id, c: it.c, data: data})
					regMu.Unlock()
					ok := smc.TrySend(byte(cfg.chid[it.c]), data)
					if ok {
						nextID++
						lg.emitLocked(map[string]interface{}{"e": "send", "ch": cfg.chid[it.c], "id": id, "n": it.n})
						lg.mu.Unlock()
						break
					}
					regMu.Lock()
					reg = reg[:len(reg)-1]
					regMu.Unlock()
					// queue full (or stopped): wait for the next event of anybody, then retry
					g0 := lg.gen
					for lg.gen == g0 && !ended {
						lg.cond.Wait()
					}
					lg.mu.Unlock()
				}
			}
		}(plans[g])
	}
	sw.Wait()
	// every accepted message gets flushed, then the connection is closed: the receiver ends with EOF
	smc.FlushStop()
	var e interface{}
	select {
	case e = <-rerr:
	case <-time.After(hangTimeout):
		rmc.Stop()
		return errHang
	}
	_ = e
	rmc.Stop()
	smc.Stop()
	// the run is over (the receiver has reported its error): stragglers of the sender log nothing into the next run
	lg.mu.Lock()
	tap.dead = true
	lg.mu.Unlock()
	return nil
}
