package conn

// MC_Upgrade bound to lib/p2p/transport.go: every abstract case is one call of the real
// MultiplexTransport.upgrade (through the verif wrapper) on an in-memory connection whose other end is
// the driver.  The driver completes the secret connection with the key the case names -- with the real
// MakeSecretConnection when it holds that key, as the adversary of handshake_test.go otherwise (no key:
// a forged auth frame; our own key without holding it: the self-reflection) -- and then reports the
// NodeInfo the case names.

import (
	"encoding/json"
	"errors"
	"fmt"
	"math/rand"
	"os"
	"testing"
	"time"

	"github.com/kardiachain/go-kardia/lib/crypto"
	"github.com/kardiachain/go-kardia/lib/p2p"
	p2pconn "github.com/kardiachain/go-kardia/lib/p2p/conn"

	"verifharness/internal/mbt"
)

type uline struct {
	U struct {
		Auth    string `json:"auth"`
		Dialed  string `json:"dialed"`
		Claimed string `json:"claimed"`
		Self    string `json:"self"`
		Compat  bool   `json:"compat"`
	} `json:"u"`
	R string `json:"r"`
}

func idOf(name string) p2p.ID { return p2p.PubKeyToID(longTerm[name].PublicKey) }

func nodeInfoFor(id p2p.ID, network string) p2p.DefaultNodeInfo {
	return p2p.DefaultNodeInfo{
		ProtocolVersion: p2p.NewProtocolVersion(1, 1, 0),
		DefaultNodeID:   id,
		ListenAddr:      "127.0.0.1:26656",
		Network:         network,
		Version:         "1.0.0",
		Channels:        []byte{0x20},
		Moniker:         "verif",
		Other:           p2p.DefaultNodeInfoOther{TxIndex: "on", RPCAddress: "127.0.0.1:26657"},
	}
}

// streamRW is what the driver talks NodeInfo over after the secret connection: a real SecretConnection or
// the adversary's own framing.
type advStream struct {
	c        *memConn
	ks       *sessionKeys
	sn, rn   uint64
	leftover []byte
}

func (a *advStream) Write(p []byte) (int, error) {
	n := 0
	for len(p) > 0 {
		k := len(p)
		if k > 1024 {
			k = 1024
		}
		if _, err := a.c.Write(sealData(a.ks.send, a.sn, p[:k])); err != nil {
			return n, err
		}
		a.sn++
		n += k
		p = p[k:]
	}
	return n, nil
}

func (a *advStream) Read(p []byte) (int, error) {
	if len(a.leftover) == 0 {
		buf := make([]byte, 0, sealedSize)
		tmp := make([]byte, sealedSize)
		for len(buf) < sealedSize {
			k, err := a.c.Read(tmp[:sealedSize-len(buf)])
			if err != nil {
				return 0, err
			}
			buf = append(buf, tmp[:k]...)
		}
		d, err := openData(a.ks.recv, a.rn, buf)
		if err != nil {
			return 0, err
		}
		a.rn++
		a.leftover = d
	}
	n := copy(p, a.leftover)
	a.leftover = a.leftover[n:]
	return n, nil
}

// TestUpgrade replays the dump of MC_Upgrade.
func TestUpgrade(t *testing.T) {
	res := mbt.NewResult()
	defer res.Write()
	pfx := "conn:upgrade:"
	sent, err := mbt.EachLine(os.Getenv("CONN_DUMP"), 0, 0, 1, mbt.Seed(), func(n int, raw []byte) {
		var l uline
		if err := json.Unmarshal(raw, &l); err != nil {
			res.Mismatch("infra:parse", err.Error(), string(raw))
			return
		}
		u := l.U
		detail := map[string]interface{}{"case": json.RawMessage(raw), "seed": mbt.Seed(), "line": n}
		self := u.Self
		mt := p2p.NewMultiplexTransport(nodeInfoFor(idOf(self), "verif-net"), p2p.NodeKey{PrivKey: longTerm[self]}, p2pconn.DefaulKAIConnConfig())
		c1, c2 := newMemConn("transport", true), newMemConn("remote", true)
		link(c1, c2)
		linkClose(c1, c2)
		var dialed *p2p.NetAddress
		if u.Dialed != "none" {
			dialed = p2p.NewNetAddressIPPort([]byte{127, 0, 0, 1}, 26656)
			dialed.ID = idOf(u.Dialed)
		}
		type out struct {
			sc  *p2pconn.SecretConnection
			ni  p2p.NodeInfo
			err error
		}
		done := make(chan out, 1)
		go func() {
			var o out
			func() {
				defer recoverTo(&o.err)
				o.sc, o.ni, o.err = mt.VerifUpgrade(c1, dialed)
			}()
			done <- o
		}()
		// ---- the remote side
		network := "verif-net"
		if !u.Compat {
			network = "another-net"
		}
		claimed := nodeInfoFor(idOf(u.Claimed), network)
		how := "real key"
		remote := func() error {
			var rw interface {
				Write([]byte) (int, error)
				Read([]byte) (int, error)
			}
			holdsKey := u.Auth != "none" && !(u.Auth == self && n%2 == 1)
			if holdsKey {
				sc, err := p2pconn.MakeSecretConnection(c2, longTerm[u.Auth])
				if err != nil {
					return fmt.Errorf("remote handshake: %w", err)
				}
				rw = sc
			} else {
				// adversary: own ephemeral key, own implementation
				eph := newEph(rand.New(rand.NewSource(mbt.Seed()*7 + int64(n))))
				c2.Write(ephMessage(eph.pub))
				b := make([]byte, 35)
				for got := 0; got < 35; {
					k, err := c2.Read(b[got:])
					if err != nil {
						return err
					}
					got += k
				}
				var rpub [32]byte
				copy(rpub[:], b[3:])
				ks, err := deriveSession(eph, rpub)
				if err != nil {
					return err
				}
				as := &advStream{c: c2, ks: ks}
				// their auth frame
				buf := make([]byte, 2048)
				k, err := as.Read(buf)
				if err != nil {
					return fmt.Errorf("adversary cannot open the auth frame: %w", err)
				}
				if u.Auth == "none" {
					how = "forged signature"
					// claim the key we would like to be (the dialed one if any), signed with our own key
					want := u.Claimed
					if u.Dialed != "none" {
						want = u.Dialed
					}
					if want == "M" { // that one it could prove; it must be a key it does not hold
						want = "B"
					}
					sig, _ := crypto.Sign(ks.challenge[:], longTerm["M"])
					as.Write(authPayload(longTerm[want].PublicKey, sig))
				} else {
					how = "self-reflection"
					m, err := parseAuthPayload(buf[:k])
					if err != nil {
						return err
					}
					pk := longTerm[self].PublicKey
					as.Write(authPayload(pk, m.Sig))
				}
				rw = as
			}
			// NodeInfo exchange (transport.handshake): write ours, read theirs
			if _, err := rw.Write(delimited(claimed.ToProto())); err != nil {
				return err
			}
			one := make([]byte, 1)
			if _, err := rw.Read(one); err != nil { // at least the first byte of their NodeInfo (or the close)
				return err
			}
			return nil
		}
		rerr := make(chan error, 1)
		go func() { rerr <- remote() }()
		var o out
		select {
		case o = <-done:
		case <-time.After(hangTimeout):
			res.Mismatch("infra:hang-upgrade", "upgrade did not return", detail)
			c1.Close()
			c2.Close()
			return
		}
		c1.Close()
		c2.Close()
		<-rerr
		detail["how"] = how
		got := "ok"
		if o.err != nil {
			var rej p2p.ErrRejected
			switch {
			case len(o.err.Error()) >= 5 && o.err.Error()[:5] == "PANIC":
				got = "panic"
			case !errors.As(o.err, &rej):
				got = "other:" + o.err.Error()
			case rej.IsAuthFailure():
				got = "auth"
			case rej.IsSelf():
				got = "self"
			case rej.IsIncompatible():
				got = "incompatible"
			default:
				got = "other:" + o.err.Error()
			}
		}
		res.Count(1)
		if l.R != "ok" {
			res.Distinct(string(raw))
		}
		if got != l.R {
			switch {
			case got == "ok":
				res.Mismatch(pfx+"accepted:"+l.R, fmt.Sprintf("upgrade accepted a peer (remote proved key %q via %s, dialed %q, NodeInfo ID of %q, compatible=%v) that the specification rejects with %q", u.Auth, how, u.Dialed, u.Claimed, u.Compat, l.R), detail)
			case l.R == "ok":
				res.Mismatch(pfx+"rejected", fmt.Sprintf("upgrade rejected (%v) an honest, compatible peer (key %q, dialed %q)", o.err, u.Auth, u.Dialed), detail)
			default:
				// rejected either way: which reason is reported first is not part of C20
				res.Add("upgrade_reason_differs", 1)
				res.Set("upgrade_reason_example", fmt.Sprintf("%s: real %s, specified %s", string(raw), got, l.R))
			}
			return
		}
		if got == "ok" {
			if p2p.PubKeyToID(o.sc.RemotePubKey()) != idOf(u.Auth) || o.ni.ID() != idOf(u.Auth) {
				res.Mismatch(pfx+"identity", fmt.Sprintf("upgrade accepted the peer under ID %v / key of %s, the key it proved is %q", o.ni.ID(), nameOfPub(o.sc.RemotePubKey()), u.Auth), detail)
			}
		}
		if n%17 == 1 {
			res.Sample(map[string]interface{}{"case": json.RawMessage(raw), "real": got, "how": how})
		}
	})
	if err != nil {
		res.Mismatch("infra:read", err.Error(), nil)
	}
	if sent == 0 {
		res.Mismatch("infra:empty-dump", "no case in "+os.Getenv("CONN_DUMP"), nil)
	}
	res.Behaviours = sent
}
