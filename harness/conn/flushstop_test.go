package conn

// MC_MConn with StopMode = "drain" bound to MConnection.FlushStop: a real, running MConnection pair over an
// in-memory pipe.  The model's sends before the close are queued with VerifEnqueue (what TrySend does, without
// waking the send routine, so that everything is still pending when FlushStop is called: more than 10 and more than
// 20 packets, and the batch boundary 10 / 11); then the real FlushStop runs, the driver waits for the receiver to see
// the end of the connection (its onError, no sleep) and compares what onReceive got with the model: every message
// accepted before the close, once, in order, intact.

import (
	"bytes"
	"encoding/json"
	"fmt"
	"io"
	"os"
	"testing"
	"time"

	"github.com/kardiachain/go-kardia/lib/log"
	p2pconn "github.com/kardiachain/go-kardia/lib/p2p/conn"

	"verifharness/internal/mbt"
)

func TestMConnFlushStop(t *testing.T) {
	res := mbt.NewResult()
	defer res.Write()
	cfg := loadMcfg()
	tag := os.Getenv("CONN_TAG")
	pfx := "conn:mconn:flushstop:"
	sent, err := mbt.EachLine(os.Getenv("CONN_DUMP"), 0, mbt.EnvInt("CONN_LIMIT", 0), mbt.EnvInt("CONN_STRIDE", 1), mbt.Seed(), func(n int, raw []byte) {
		var l mline
		if err := json.Unmarshal(raw, &l); err != nil {
			res.Mismatch("infra:parse", err.Error(), string(raw))
			return
		}
		var hs [][]interface{} // the history without the receiver's steps (for the texts)
		for _, a := range l.H {
			if a[0].(string) != "recv" {
				hs = append(hs, a)
			}
		}
		detail := map[string]interface{}{"hist": hs, "cfg": tag, "chid": cfg.chid, "prio": cfg.prio, "qcap": cfg.qcap, "rcap": cfg.rcap,
			"maxPayload": cfg.maxPayload, "seed": mbt.Seed(), "line": n}
		rcv, err := newReceiver(cfg)
		if err != nil {
			res.Mismatch("infra:mconn-start", err.Error(), detail)
			return
		}
		defer rcv.mc.Stop()
		sc := newMemConn("send", true)
		link(sc, rcv.c)
		linkClose(sc, rcv.c)
		snd := p2pconn.NewMConnectionWithConfig(sc, cfg.descs(), func(byte, []byte) {}, func(interface{}) {}, cfg.conf())
		snd.SetLogger(log.NewNopLogger())
		if err := snd.Start(); err != nil {
			res.Mismatch("infra:mconn-start", err.Error(), detail)
			return
		}
		defer snd.Stop()
		nid, packets, closed := 1, 0, false
		for k, a := range l.H {
			switch a[0].(string) {
			case "send":
				c, ln, want := ai(a[1])-1, ai(a[2]), a[3].(string)
				var ok bool
				if !closed {
					ok = snd.VerifEnqueue(byte(cfg.chid[c]), msgBytes(nid, ln)) // accepted, the send routine is not woken
				} else {
					// after the close the model refuses sends.  The code does not mark the connection as stopped in
					// FlushStop (IsRunning stays true), so TrySend may still queue the message, which is then never
					// sent.  C20 speaks about messages sent on a live connection; a send after the application's own
					// graceful close is counted, not judged.
					if snd.TrySend(byte(cfg.chid[c]), msgBytes(nid, ln)) {
						res.Add("send_accepted_after_flushstop", 1)
					}
					continue
				}
				if ok != (want == "ok") {
					res.Add("send_divergence", 1)
					return
				}
				if ok {
					packets += (ln + cfg.maxPayload - 1) / cfg.maxPayload
					if ln == 0 {
						packets++
					}
					nid++
				}
			case "flushstop":
				var perr error
				func() {
					defer recoverTo(&perr)
					snd.FlushStop()
				}()
				if perr != nil {
					res.Mismatch(pfx+"panic", fmt.Sprintf("step %d of %v: FlushStop panicked: %v", k+1, hs, perr), detail)
					return
				}
				closed = true
			}
		}
		if !closed {
			return
		}
		// the receiver reads everything that was written and then the end of the connection
		var e interface{}
		select {
		case e = <-rcv.errc:
		case <-time.After(hangTimeout):
			res.Mismatch("infra:hang-flushstop", fmt.Sprintf("after %v: the receiver did not see the end of the connection", hs), detail)
			return
		}
		rcv.mu.Lock()
		got := rcv.got
		rcv.mu.Unlock()
		per := make([][]delivery, len(cfg.chid))
		for _, d := range got {
			for i, id := range cfg.chid {
				if id == d.ch {
					per[i] = append(per[i], d)
				}
			}
		}
		for c := range cfg.chid {
			want := l.D[c]
			for i, d := range per[c] {
				if i >= len(want) || !bytes.Equal(d.data, msgBytes(want[i][0], want[i][1])) {
					res.Mismatch(pfx+"delivery", fmt.Sprintf("after %v: delivery %d on channel %#x (%d bytes) is not the specified one", hs, i+1, cfg.chid[c], len(d.data)), detail)
					return
				}
			}
			if len(per[c]) < len(want) {
				res.Mismatch(pfx+"not-all-delivered", fmt.Sprintf("after %v (%d packets pending at the call): FlushStop returned and the connection ended (%v), but channel %#x delivered %d of the %d messages that were accepted before the close (first missing: message %d, %d bytes); specified: a graceful close transmits everything that Send / TrySend accepted", hs, packets, e, cfg.chid[c], len(per[c]), len(want), want[len(per[c])][0], want[len(per[c])][1]), detail)
				return
			}
		}
		if err, ok := e.(error); !ok || err != io.EOF {
			res.Add("flushstop_end_not_eof", 1)
		}
		res.Count(1)
		if packets > 10 {
			res.Distinct(string(raw))
		}
		if n%397 == 1 {
			res.Sample(map[string]interface{}{"behaviour": hs, "delivered": l.D, "packets_pending_at_flushstop": packets, "cfg": tag})
		}
	})
	if err != nil {
		res.Mismatch("infra:read", err.Error(), nil)
	}
	if sent == 0 {
		res.Mismatch("infra:empty-dump", "no behaviour in "+os.Getenv("CONN_DUMP"), nil)
	}
	res.Behaviours = sent
	res.Set("replayed_"+tag, sent)
}
