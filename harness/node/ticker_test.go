//go:build verif

package node

import (
	"encoding/json"
	"fmt"
	"os"
	"sync"
	"testing"
	"time"

	"github.com/kardiachain/go-kardia/consensus"
	cstypes "github.com/kardiachain/go-kardia/consensus/types"

	"verifharness/internal/mbt"
)

// TestTickerReplay replays every behaviour of MC_Ticker on the real consensus.NewTimeoutTicker().
func TestTickerReplay(t *testing.T) {
	res := mbt.NewResult()
	defer res.Write()
	type line struct {
		A  [][]interface{} `json:"a"`
		F  [][]int         `json:"f"`
		P  bool            `json:"p"`
		PH []int           `json:"ph"`
	}
	const dur = 15 * time.Millisecond
	var mu sync.Mutex
	sem := make(chan struct{}, 48)
	var wg sync.WaitGroup
	sent, err := mbt.EachLine(os.Getenv("TICKER_DUMP"), 1, 0, mbt.EnvInt("TICKER_STRIDE", 1), mbt.Seed(), func(n int, raw []byte) {
		var l line
		if err := json.Unmarshal(raw, &l); err != nil {
			res.Mismatch("infra:parse", err.Error(), string(raw))
			return
		}
		wg.Add(1)
		sem <- struct{}{}
		go func() {
			defer wg.Done()
			defer func() { <-sem }()
			rt := consensus.NewVerifRealTicker()
			defer rt.Stop()
			// let the value of the constructor's expired zero timer arrive while nothing is held yet (it then comes out as
			// the empty timeout the filter drops; see dupOfLast)
			time.Sleep(5 * time.Millisecond)
			tk := tockFilter{rt}
			var got [][]int
			report := func(sig, text string) {
				mu.Lock()
				res.Mismatch(sig, text, map[string]interface{}{"behaviour": l.A, "specified_fired": l.F, "real_fired": got})
				mu.Unlock()
			}
			fi := 0
			for _, a := range l.A {
				if a[0].(string) == "s" {
					tk.Schedule(consensus.VerifTimeout{Duration: dur, Height: uint64(a[1].(float64)), Round: uint32(a[2].(float64)), Step: cstypes.RoundStepType(int(a[3].(float64)))})
					continue
				}
				// "w": the held timeout (if the specification says one is pending) fires
				if a[1].(float64) == 1 {
					ti, ok := tk.TryTock(8 * time.Second)
					if !ok {
						report("ticker:no-fire", fmt.Sprintf("after %v the real ticker did not fire within 8 s; specified: %v fires", l.A, l.F[fi]))
						return
					}
					got = append(got, []int{int(ti.Height), int(ti.Round), int(ti.Step)})
					fi++
				} else if ti, ok := tk.TryTock(6 * dur); ok {
					if dupOfLast(got, ti) {
						mu.Lock()
						res.Add("ticker_duplicate_fire", 1)
						mu.Unlock()
						continue
					}
					got = append(got, []int{int(ti.Height), int(ti.Round), int(ti.Step)})
					report("ticker:spurious-fire", fmt.Sprintf("in %v the real ticker fired %v where the specification holds no pending timeout", l.A, got[len(got)-1]))
					return
				}
			}
			// at the end: a pending timeout fires, nothing else does
			if l.P {
				ti, ok := tk.TryTock(8 * time.Second)
				if !ok {
					report("ticker:no-fire", fmt.Sprintf("after %v the real ticker did not fire within 8 s; specified: %v is pending", l.A, l.PH))
					return
				}
				got = append(got, []int{int(ti.Height), int(ti.Round), int(ti.Step)})
				if len(l.PH) == 3 && (got[len(got)-1][0] != l.PH[0] || got[len(got)-1][1] != l.PH[1] || got[len(got)-1][2] != l.PH[2]) {
					report("ticker:wrong-timeout", fmt.Sprintf("after %v the real ticker fired %v, specified %v", l.A, got[len(got)-1], l.PH))
					return
				}
			}
			if ti, ok := tk.TryTock(6 * dur); ok && dupOfLast(got, ti) {
				mu.Lock()
				res.Add("ticker_duplicate_fire", 1)
				mu.Unlock()
			} else if ok {
				got = append(got, []int{int(ti.Height), int(ti.Round), int(ti.Step)})
				report("ticker:spurious-fire", fmt.Sprintf("after %v the real ticker fired %v once more; specified: nothing pending", l.A, got[len(got)-1]))
				return
			}
			for k := 0; k < len(l.F) && k < len(got); k++ {
				if got[k][0] != l.F[k][0] || got[k][1] != l.F[k][1] || got[k][2] != l.F[k][2] {
					report("ticker:wrong-timeout", fmt.Sprintf("in %v the real ticker fired %v, specified %v", l.A, got, l.F))
					return
				}
			}
			mu.Lock()
			res.Count(len(l.A))
			res.Behaviour()
			if len(l.F) > 0 {
				res.Distinct(string(raw))
			}
			mu.Unlock()
		}()
	})
	wg.Wait()
	if err != nil {
		res.Mismatch("infra:read", err.Error(), nil)
	}
	if sent == 0 {
		res.Mismatch("infra:empty-dump", "no behaviours", nil)
	}
}

// tockFilter drops the ticker's INITIAL timeout info (height 0): NewTimeoutTicker creates its timer with duration 0 and
// stops it at once; when that first expiry wins the race the routine emits one tock carrying the empty timeout info,
// which every handler ignores (height 0 is never the node's height).  It is not part of the modelled behaviour.
type tockFilter struct{ t *consensus.VerifRealTicker }

func (f tockFilter) Schedule(x consensus.VerifTimeout) { f.t.Schedule(x) }
func (f tockFilter) TryTock(d time.Duration) (consensus.VerifTimeout, bool) {
	deadline := time.Now().Add(d)
	for {
		ti, ok := f.t.TryTock(time.Until(deadline))
		if !ok {
			return ti, false
		}
		if ti.Height != 0 {
			return ti, true
		}
	}
}

// dupOfLast: the ticker delivered the timeout it had just delivered a second time.  The code under test can do that
// (NewTimeoutTicker creates its timer with time.NewTimer(0) and stops it at once: when the runtime has not yet put the
// expired timer's value into the channel, the non-blocking drain finds nothing and the stale value arrives later, while
// a real timeout is held - seen once under a machine load above 40).  A second copy of a timeout is no subject of C04:
// handleTimeout is idempotent per (height, round, step); it is counted, not judged.  A fire of any OTHER timeout
// than the last one delivered is still a verdict.
func dupOfLast(got [][]int, ti consensus.VerifTimeout) bool {
	if len(got) == 0 {
		return false
	}
	l := got[len(got)-1]
	return l[0] == int(ti.Height) && l[1] == int(ti.Round) && l[2] == int(ti.Step)
}
