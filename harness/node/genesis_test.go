//go:build verif

package node

import (
	"fmt"
	"math/big"
	"sort"
	"testing"
	"time"

	"github.com/kardiachain/go-kardia/configs"
	"github.com/kardiachain/go-kardia/consensus"
	"github.com/kardiachain/go-kardia/kai/kaidb/memorydb"
	"github.com/kardiachain/go-kardia/kai/state/cstate"
	"github.com/kardiachain/go-kardia/lib/common"
	"github.com/kardiachain/go-kardia/lib/crypto"
	"github.com/kardiachain/go-kardia/lib/log"
	"github.com/kardiachain/go-kardia/lib/p2p"
	"github.com/kardiachain/go-kardia/mainchain/blockchain"
	"github.com/kardiachain/go-kardia/mainchain/genesis"
	"github.com/kardiachain/go-kardia/mainchain/tx_pool"
	"github.com/kardiachain/go-kardia/types"
	"github.com/kardiachain/go-kardia/types/evidence"

	"verifharness/internal/mbt"
)

// The validators of deployment/local/genesis_devnet.yaml with the node keys of deployment/local/node{1,2,3}.yaml.
var devnetKeys = []string{
	"8843ebcb1021b00ae9a644db6617f9c6d870e5fd53624cefe374c1d2d710fd06",
	"77cfc693f7861a6e1ea817c593c04fbc9b63d4d3146c5753c008cfc67cffca79",
	"98de1df1e242afb02bd5dc01fbcacddcc9a4d41df95a66f629139560ca6e4dbb",
}

// devnetGenesis builds a genesis document shaped like deployment/local/genesis_devnet.yaml: funded accounts,
// the genesis contracts incl. staking, and NAMED validators (val1..) that start with genesis.
func devnetGenesis(privs []*types.DefaultPrivValidator, names []string) *genesis.Genesis {
	amount, _ := big.NewInt(0).SetString("1000000000000000000000000000", 10)
	accts := map[string]*big.Int{}
	for _, p := range privs {
		accts[p.GetAddress().Hex()] = amount
	}
	g := mkGenesis()
	ga, _ := genesis.GenesisAllocFromAccountAndContract(accts, func() map[string]string {
		gc := map[string]string{}
		for key, c := range configs.GetContracts() {
			if key != configs.StakingContractKey {
				gc[c.Address] = c.ByteCode
			}
		}
		return gc
	}())
	g.Alloc = ga
	for i, p := range privs {
		g.Validators = append(g.Validators, &genesis.GenesisValidator{
			Name: names[i], Address: p.GetAddress().Hex(), CommissionRate: "100000000000000000", MaxRate: "250000000000000000",
			MaxChangeRate: "50000000000000000", SelfDelegate: "12500000000000000000000000", StartWithGenesis: true,
		})
	}
	return g
}

// TestGenesisNetwork: a fresh network wired as mainchain/backend.go does it (NewBlockChain on the genesis
// document, LoadStateFromDBOrGenesisDoc, real pools and executor) must commit its first blocks under timely
// delivery.  Property C04, clause "a fresh network started from its genesis file commits its first block".
func TestGenesisNetwork(t *testing.T) {
	res := mbt.NewResult()
	defer res.Write()
	log.Root().SetHandler(log.DiscardHandler())
	type variant struct {
		name  string
		names []string
		n     int
	}
	variants := []variant{
		{"devnet-val1..3", []string{"val1", "val2", "val3"}, 3},
		{"long-names", []string{"validator-number-one-with-a-name-longer-than-32-bytes", "v", "validator-exactly-32-bytes-long!!"}, 3},
		{"four", []string{"a", "bb", "ccc", "dddd"}, 4},
	}
	for _, v := range variants {
		func() {
			detail := map[string]interface{}{"variant": v.name, "names": v.names}
			defer func() {
				if r := recover(); r != nil {
					res.Mismatch("genesis:panic:"+v.name, fmt.Sprintf("fresh network %s: panic %v", v.name, r), detail)
				}
			}()
			var privs []*types.DefaultPrivValidator
			for i := 0; i < v.n; i++ {
				var k = devnetKeys[i%len(devnetKeys)]
				if i >= len(devnetKeys) {
					k = common.Bytes2Hex(crypto.Keccak256([]byte(fmt.Sprintf("extra-%d", i))))
				}
				key, err := crypto.HexToECDSA(k)
				if err != nil {
					panic(err)
				}
				privs = append(privs, types.NewDefaultPrivValidator(key))
			}
			type gnode struct {
				cs   *consensus.ConsensusState
				bo   *blockchain.BlockOperations
				tick Ticker
				sch  []consensus.VerifTimeout
			}
			var nodes []*gnode
			for i := 0; i < v.n; i++ {
				g := devnetGenesis(privs, v.names)
				db := memorydb.New()
				bc, err := blockchain.NewBlockChain(db, nil, g)
				if err != nil {
					panic(fmt.Sprintf("NewBlockChain: %v", err))
				}
				store := cstate.NewStore(db)
				evp, err := evidence.NewPool(store, db, bc)
				if err != nil {
					panic(err)
				}
				stk, _ := sharedStaking()
				pool := tx_pool.NewTxPool(tx_pool.TxPoolConfig{GlobalSlots: 64, GlobalQueue: 64}, bc.Config(), bc)
				bo := blockchain.NewBlockOperations(log.New(), bc, pool, evp, stk)
				be := cstate.NewBlockExecutor(store, log.New(), evp, bo)
				st, err := store.LoadStateFromDBOrGenesisDoc(g)
				if err != nil {
					panic(fmt.Sprintf("LoadStateFromDBOrGenesisDoc: %v", err))
				}
				cs := consensus.NewConsensusState(log.New(), configs.TestConsensusConfig(), st, bo, be, evp)
				cs.SetPrivValidator(privs[i])
				eb := types.NewEventBus()
				eb.SetLogger(log.New())
				eb.Start()
				cs.SetEventBus(eb)
				nd := &gnode{cs: cs, bo: bo}
				cs.VerifSetTicker(func(ti consensus.VerifTimeout) { nd.sch = append(nd.sch, ti) })
				nodes = append(nodes, nd)
				defer func() { eb.Stop(); pool.Stop(); bc.Stop() }()
			}
			type env struct {
				to, from int
				m        consensus.Message
			}
			var q []env
			collect := func(i int) {
				nd := nodes[i]
				for _, m := range nd.cs.VerifDrainInternal() {
					for j := range nodes {
						q = append(q, env{j, i, m})
					}
				}
				for _, ti := range nd.sch {
					nd.tick.Schedule(ti)
				}
				nd.sch = nil
			}
			for i, nd := range nodes {
				nd.cs.VerifScheduleRound0()
				collect(i)
			}
			target := uint64(3)
			steps := 0
			for ; steps < 5000; steps++ {
				done := true
				for _, nd := range nodes {
					if nd.bo.Height() < target {
						done = false
					}
				}
				if done {
					break
				}
				if len(q) > 0 {
					e := q[0]
					q = q[1:]
					peer := p2p.ID("")
					if e.from != e.to {
						peer = p2p.ID(fmt.Sprintf("n%d", e.from))
					}
					nodes[e.to].cs.VerifHandleMsg(e.m, peer)
					collect(e.to)
					continue
				}
				var armed []int
				for i, nd := range nodes {
					if nd.tick.Armed {
						armed = append(armed, i)
					}
				}
				if len(armed) == 0 {
					break
				}
				sort.Slice(armed, func(a, b int) bool {
					x, y := nodes[armed[a]].tick.TI, nodes[armed[b]].tick.TI
					return consensus.CompareHRS(x.Height, x.Round, x.Step, y.Height, y.Round, y.Step) < 0
				})
				nd := nodes[armed[0]]
				nd.tick.Armed = false
				nd.cs.VerifHandleTimeout(nd.tick.TI)
				collect(armed[0])
			}
			res.Count(steps)
			res.Behaviour()
			res.Distinct(v.name)
			var hs []uint64
			maxRound := uint32(0)
			for _, nd := range nodes {
				hs = append(hs, nd.bo.Height())
				if r := nd.cs.GetRoundState().Round; r > maxRound {
					maxRound = r
				}
			}
			res.Sample(map[string]interface{}{"variant": v.name, "validator_names": v.names, "steps": steps, "heights": hs})
			for _, h := range hs {
				if h < target {
					res.Mismatch("genesis:no-commit:"+v.name, fmt.Sprintf("fresh network %s with timely delivery: block store heights %v after %d steps (expected >= %d everywhere), round %d", v.name, hs, steps, target, maxRound), detail)
					break
				}
			}
			// the first blocks must be the same everywhere
			for h := uint64(1); h <= target; h++ {
				var ref common.Hash
				for i, nd := range nodes {
					if nd.bo.Height() < h {
						continue
					}
					b := nd.bo.LoadBlock(h)
					if i == 0 {
						ref = b.Hash()
					} else if b.Hash() != ref {
						res.Mismatch("genesis:agreement:"+v.name, fmt.Sprintf("fresh network %s: different blocks at height %d", v.name, h), detail)
					}
				}
			}
		}()
	}
	_ = time.Now
}
