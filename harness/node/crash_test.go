//go:build verif

package node

import (
	"bytes"
	"encoding/json"
	"fmt"
	"io"
	"os"
	"os/exec"
	"os/signal"
	"path/filepath"
	"runtime"
	"sort"
	"strings"
	"sync"
	"sync/atomic"
	"syscall"
	"testing"
	"time"

	bcreactor "github.com/kardiachain/go-kardia/blockchain"
	"github.com/kardiachain/go-kardia/configs"
	"github.com/kardiachain/go-kardia/consensus"
	"github.com/kardiachain/go-kardia/kai/kaidb"
	"github.com/kardiachain/go-kardia/kai/kaidb/memorydb"
	auto "github.com/kardiachain/go-kardia/lib/autofile"
	"github.com/kardiachain/go-kardia/lib/common"
	"github.com/kardiachain/go-kardia/lib/log"
	"github.com/kardiachain/go-kardia/lib/p2p"
	"github.com/kardiachain/go-kardia/mainchain/blockchain"
	"github.com/kardiachain/go-kardia/types"

	"verifharness/internal/mbt"
)

// ---------------------------------------------------------------------------------------------
// Crash control: one global sequence of the victim's DURABLE operations (database puts / deletes /
// batch writes, WAL writes and syncs).  A cut k means: operations 1..k-1 happened, k did not.
// ---------------------------------------------------------------------------------------------
type opRec struct {
	Kind string `json:"kind"` // put | del | batch | wal.write | wal.sync | wal.flush
	Tag  string `json:"tag"`  // who issued it (function of the real code) / which WAL message
	H    uint64 `json:"h"`    // victim's consensus height when it was issued
}
type crashCtl struct {
	mu      sync.Mutex
	count   int
	cutAt   int // 0: never
	crashed bool
	log     []opRec
	onCrash func()
	height  func() uint64
}

var dbTags = []struct{ fn, tag string }{
	{"BlockOperations).SaveBlock", "SaveBlock"},
	{"evidence.(*Pool)", "evidence"},
	{"cstate.saveState", "saveState"},
	{"cstate.(*dbStore).Save", "saveState"},
	{"BlockChain).writeHeadBlock", "writeHead"},
	{"BlockChain).writeBlockWithState", "writeBlockWithState"},
	{"BlockChain).WriteBlockAndSetHead", "writeBlockWithState"},
	{"trie.(*Database).Commit", "trieFlush"},
	{"hashdb.(*Database).Commit", "trieFlush"},
	{"genesis", "genesis"},
	{"tx_pool", "txpool"},
}

func callerTag() (tag string, inReceive bool) {
	pc := make([]uintptr, 48)
	n := runtime.Callers(3, pc)
	frames := runtime.CallersFrames(pc[:n])
	tag = "other"
	found := false
	for {
		f, more := frames.Next()
		if strings.Contains(f.Function, "ConsensusState).receiveRoutine") {
			inReceive = true
		}
		if !found {
			for _, t := range dbTags {
				if strings.Contains(f.Function, t.fn) {
					tag, found = t.tag, true
					break
				}
			}
		}
		if !more {
			break
		}
	}
	return
}

// op is called BEFORE a durable operation executes.  Returns false when the operation must be dropped
// (the process is already dead).  Panics "CRASH" at the cut when called from the receive routine.
func (c *crashCtl) op(kind, tag string, inReceive bool) bool {
	c.mu.Lock()
	if c.crashed {
		c.mu.Unlock()
		return false
	}
	c.count++
	h := uint64(0)
	if c.height != nil {
		h = c.height()
	}
	c.log = append(c.log, opRec{kind, tag, h})
	if c.cutAt > 0 && c.count == c.cutAt {
		c.crashed = true
		c.mu.Unlock()
		if c.onCrash != nil {
			c.onCrash()
		}
		if inReceive {
			panic("CRASH")
		}
		return false
	}
	c.mu.Unlock()
	return true
}

// crashDB: the victim's database; every write is a durable operation.
type crashDB struct {
	*memorydb.Database
	ctl *crashCtl
}

func (d *crashDB) Put(k, v []byte) error {
	tag, in := callerTag()
	if !d.ctl.op("put", tag, in) {
		return nil
	}
	return d.Database.Put(k, v)
}
func (d *crashDB) Delete(k []byte) error {
	tag, in := callerTag()
	if !d.ctl.op("del", tag, in) {
		return nil
	}
	return d.Database.Delete(k)
}
func (d *crashDB) NewBatch() kaidb.Batch { return &crashBatch{d.Database.NewBatch(), d.ctl} }

type crashBatch struct {
	kaidb.Batch
	ctl *crashCtl
}

func (b *crashBatch) Write() error {
	if b.Batch.ValueSize() == 0 {
		return b.Batch.Write()
	}
	tag, in := callerTag()
	if !b.ctl.op("batch", tag, in) {
		return nil
	}
	return b.Batch.Write()
}

// crashWAL: the victim's real file WAL behind a counter.
type crashWAL struct {
	*consensus.BaseWAL
	ctl  *crashCtl
	nrec int
}

func walTag(m consensus.WALMessage) string {
	switch mm := m.(type) {
	case consensus.EndHeightMessage:
		return fmt.Sprintf("EndHeight(%d)", mm.Height)
	default:
		if msg, peer, ok := consensus.VerifMsgInfoFields(m); ok {
			who := "peer"
			if peer == "" {
				who = "own"
			}
			switch x := msg.(type) {
			case *consensus.VoteMessage:
				return fmt.Sprintf("%s-vote(t%d,r%d)", who, x.Vote.Type, x.Vote.Round)
			case *consensus.ProposalMessage:
				return who + "-proposal"
			case *consensus.BlockPartMessage:
				return who + "-part"
			}
			return who + "-msg"
		}
		if _, _, _, st, ok := consensus.VerifTimeoutFields(m); ok {
			return fmt.Sprintf("timeout(%d)", st)
		}
		return fmt.Sprintf("%T", m)
	}
}
func (w *crashWAL) Write(m consensus.WALMessage) error {
	if !w.ctl.op("wal.write", walTag(m), true) {
		return nil
	}
	defer w.maybeRotate()
	return w.BaseWAL.Write(m)
}
func (w *crashWAL) WriteSync(m consensus.WALMessage) error {
	if !w.ctl.op("wal.sync", walTag(m), true) {
		return nil
	}
	defer w.maybeRotate()
	return w.BaseWAL.WriteSync(m)
}

// walRotateEvery > 0: the head file of the victim's WAL group is rotated (by the group's own size check, as its
// ticker would do at the size limit) after every walRotateEvery-th record, so that the log of one height is spread
// over several files, most of them without an #ENDHEIGHT marker
var walRotateEvery = 0

func (w *crashWAL) maybeRotate() {
	if walRotateEvery <= 0 || w.ctl.crashed {
		return
	}
	w.nrec++
	if w.nrec%walRotateEvery == 0 {
		g := w.BaseWAL.Group()
		g.VerifSetHeadSizeLimit(1)
		g.VerifCheckHeadSizeLimit()
	}
}
func (w *crashWAL) FlushAndSync() error {
	if !w.ctl.op("wal.flush", "flush", true) {
		return nil
	}
	return w.BaseWAL.FlushAndSync()
}

// ---------------------------------------------------------------------------------------------
// The scenario: 4 validators; validator `victim` runs the REAL receiveRoutine (gated), the real file
// WAL and the counting database; the others are driven synchronously.  Honest FIFO network.
// ---------------------------------------------------------------------------------------------
type gated struct {
	*Node
	arrive  chan struct{}
	release chan struct{}
	isGated bool
	sentV   map[string]bool
	sentP   map[string]bool
	tick    Ticker
}

type pubMsg struct {
	Kind string
	Type int
	H    uint64
	R    uint32
	Hash common.Hash
}

type crashScenario struct {
	w          *World
	mode       string // "flush" (TrieDirtyDisabled: state flushed every block) | "memory" (default cache)
	victim     int
	tmp        string
	nodes      map[int]*gated
	ctl        *crashCtl
	q          []flight
	dbImage    *memorydb.Database
	walAsIs    string
	walFlush   string
	pub        []pubMsg // what the victim published before the crash
	preSign    []SignReq
	headBefore uint64
	savedH     uint64 // highest height whose SaveBlock had completed before the crash
	appliedH   uint64 // highest height the victim had fully applied (state saved) before the crash
	steps      int
	deadline   time.Time
}

var gateMu sync.Mutex
var gateMap = map[*consensus.ConsensusState]*gated{}

func init() {
	consensus.VerifGate = func(name string, cs *consensus.ConsensusState) {
		gateMu.Lock()
		g := gateMap[cs]
		gateMu.Unlock()
		if g != nil && g.isGated {
			g.arrive <- struct{}{}
			<-g.release
		}
	}
}

func cacheFor(mode string) *blockchain.CacheConfig {
	if mode == "flush" {
		return &blockchain.CacheConfig{TrieCleanLimit: 16, TrieDirtyDisabled: true, TrieTimeLimit: 5 * time.Minute}
	}
	return nil
}

func newGated(nd *Node) *gated {
	return &gated{Node: nd, arrive: make(chan struct{}), release: make(chan struct{}), sentV: map[string]bool{}, sentP: map[string]bool{}}
}

func (s *crashScenario) build(cutAt int) error {
	s.nodes = map[int]*gated{}
	s.ctl = &crashCtl{cutAt: cutAt}
	for i := 1; i <= len(s.w.Privs); i++ {
		o := Opts{Fresh: true, Cache: cacheFor(s.mode)}
		if i == s.victim {
			inner := memorydb.New()
			if err := cloneGenesisDB(inner); err != nil {
				return err
			}
			o.DB = &crashDB{inner, s.ctl}
			o.RootDir = filepath.Join(s.tmp, "victim")
		}
		nd, err := BuildNode(s.w, i, o)
		if err != nil {
			return err
		}
		s.nodes[i] = newGated(nd)
	}
	v := s.nodes[s.victim]
	// (not GetRoundState: database writes happen under the consensus mutex)
	s.ctl.height = func() uint64 { return v.BO.Height() + 1 }
	// the victim's real WAL behind the counter
	wal, err := consensus.NewWAL(filepath.Join(s.tmp, "victim", "cs.wal", "wal"))
	if err != nil {
		return err
	}
	if err := wal.Start(); err != nil {
		return err
	}
	v.CS.VerifSetWAL(&crashWAL{BaseWAL: wal, ctl: s.ctl})
	s.ctl.onCrash = func() {
		// what a dead process leaves behind: the database writes done so far, and the WAL files
		img := memorydb.New()
		it := v.DB.(*crashDB).Database.NewIterator(nil, nil)
		for it.Next() {
			img.Put(append([]byte{}, it.Key()...), append([]byte{}, it.Value()...))
		}
		it.Release()
		s.dbImage = img
		s.walAsIs = filepath.Join(s.tmp, "wal-asis")
		exec.Command("cp", "-r", filepath.Join(s.tmp, "victim", "cs.wal"), s.walAsIs).Run()
		wal.FlushAndSync() // variant: everything written so far reached the disk
		s.walFlush = filepath.Join(s.tmp, "wal-flushed")
		exec.Command("cp", "-r", filepath.Join(s.tmp, "victim", "cs.wal"), s.walFlush).Run()
		s.savedH = v.BO.Height()
		s.headBefore = v.BC.CurrentBlock().Height()
	}
	return nil
}

func (s *crashScenario) startGated(g *gated) error {
	gateMu.Lock()
	gateMap[g.CS] = g
	gateMu.Unlock()
	g.isGated = true
	if err := g.CS.Start(); err != nil {
		return err
	}
	select {
	case <-g.arrive:
	case <-time.After(20 * time.Second):
		return fmt.Errorf("gated node did not reach its receive loop")
	}
	for _, ti := range g.TakeSched() {
		g.tick.Schedule(ti)
	}
	return nil
}

// startGatedViaFastSync starts the restarted validator the way mainchain/backend.go does when fast sync is enabled: the
// REAL block-sync reactor and consensus manager on a p2p switch (no peer is ahead: nobody is connected).  The reactor
// finishes after its sync timeout having fetched nothing and its demux routine switches to consensus
// (ConsensusManager.SwitchToConsensus -> ConsensusState.Start: WAL catch-up unless blocks were fetched).
func (s *crashScenario) startGatedViaFastSync(g *gated) (stop func(), err error) {
	gateMu.Lock()
	gateMap[g.CS] = g
	gateMu.Unlock()
	g.isGated = true
	fsCfg := configs.TestFastSyncConfig()
	fsCfg.SyncTimeout = 100 * time.Millisecond
	bcR := bcreactor.NewBlockchainReactor(g.CS.VerifState(), g.BE, g.Ops, fsCfg)
	conR := consensus.NewConsensusManager(g.CS, fsCfg)
	// (p2p.MakeSwitch listens on a "free" port it picked a moment earlier and panics when another process took it in
	// between: that is the test utility's race, not the node's behaviour - try again, and give up as infrastructure)
	var sw *p2p.Switch
	for attempt := 0; attempt < 8 && sw == nil; attempt++ {
		func() {
			defer func() {
				if r := recover(); r != nil {
					err = fmt.Errorf("infra:listen: %v", r)
					time.Sleep(time.Duration(20+attempt*30) * time.Millisecond)
				}
			}()
			sw = p2p.MakeSwitch(configs.DefaultP2PConfig(), 0, "verif", "1.0", func(i int, sw *p2p.Switch) *p2p.Switch {
				sw.AddReactor("BLOCKCHAIN", bcR)
				sw.AddReactor("CONSENSUS", conR)
				return sw
			})
		}()
	}
	if sw == nil {
		return func() {}, err
	}
	err = nil
	sw.SetLogger(log.New())
	if err := sw.Start(); err != nil {
		return func() {}, err
	}
	stop = func() { sw.Stop() }
	select {
	case <-g.arrive:
	case <-time.After(60 * time.Second):
		return stop, fmt.Errorf("fast sync did not switch to consensus (the consensus state never reached its receive loop)")
	}
	for _, ti := range g.TakeSched() {
		g.tick.Schedule(ti)
	}
	return stop, nil
}

// stepGated lets the gated node take one input (injected by `inject`) and then everything it queued for itself.
// Returns false when the node's receive routine ended (crash).
func (s *crashScenario) stepGated(g *gated, inject func()) bool {
	one := func() bool {
		g.release <- struct{}{}
		select {
		case <-g.arrive:
			return true
		case <-g.CS.VerifDone():
			g.isGated = false
			return false
		case <-time.After(30 * time.Second):
			panic("gated node hung")
		}
	}
	inject()
	if !one() {
		return false
	}
	s.steps++
	for g.CS.VerifInternalLen() > 0 {
		if !one() {
			return false
		}
		s.steps++
	}
	for _, ti := range g.TakeSched() {
		g.tick.Schedule(ti)
	}
	return !s.ctl.crashed || g != s.nodes[s.victim] || true
}

// gossip: what consensus/manager.go would send for node g by reading its round state: its own proposal with
// parts and its own votes ("published" = readable here).
func (s *crashScenario) gossip(g *gated, record bool) {
	rs := g.CS.GetRoundState()
	addr := s.w.Privs[g.ID-1].GetAddress()
	sendAll := func(m consensus.Message) {
		for j := 1; j <= len(s.w.Privs); j++ {
			if j != g.ID {
				s.q = append(s.q, flight{to: j, from: g.ID, msg: m})
			}
		}
	}
	if rs.Proposal != nil && rs.ProposalBlockParts != nil && rs.ProposalBlockParts.IsComplete() && rs.Validators.GetProposer().Address.Equal(addr) {
		key := fmt.Sprintf("%d/%d", rs.Proposal.Height, rs.Proposal.Round)
		if !g.sentP[key] {
			g.sentP[key] = true
			if record {
				s.pub = append(s.pub, pubMsg{"proposal", 0, rs.Proposal.Height, rs.Proposal.Round, rs.Proposal.POLBlockID.Hash})
			}
			sendAll(&consensus.ProposalMessage{Proposal: rs.Proposal})
			for k := 0; k < int(rs.ProposalBlockParts.Total()); k++ {
				sendAll(&consensus.BlockPartMessage{Height: rs.Height, Round: rs.Round, Part: rs.ProposalBlockParts.GetPart(k)})
			}
		}
	}
	vote := func(v *types.Vote) {
		if v == nil {
			return
		}
		key := fmt.Sprintf("%d/%d/%d", v.Height, v.Round, v.Type)
		if g.sentV[key] {
			return
		}
		g.sentV[key] = true
		if record {
			s.pub = append(s.pub, pubMsg{"vote", int(v.Type), v.Height, v.Round, v.BlockID.Hash})
		}
		sendAll(&consensus.VoteMessage{Vote: v})
	}
	for r := uint32(1); r <= rs.Round; r++ {
		if pv := rs.Votes.Prevotes(r); pv != nil {
			vote(pv.GetByAddress(addr))
			vote(rs.Votes.Precommits(r).GetByAddress(addr))
		}
	}
	if rs.LastCommit != nil {
		vote(rs.LastCommit.GetByAddress(addr))
	}
}

// run drives the network until every live node passed `untilH`, the victim crashed, or nothing can happen.
func (s *crashScenario) run(untilH uint64, stopOnCrash bool) {
	n := len(s.w.Privs)
	for it := 0; it < 200000; it++ {
		if stopOnCrash && s.ctl.crashed {
			return
		}
		done := true
		for i := 1; i <= n; i++ {
			g := s.nodes[i]
			if g == nil {
				continue
			}
			if g.CS.GetRoundState().Height <= untilH {
				done = false
			}
		}
		if done {
			return
		}
		if len(s.q) > 0 {
			f := s.q[0]
			s.q = s.q[1:]
			g := s.nodes[f.to]
			if g == nil {
				continue // the victim is dead: the message is lost
			}
			peer := p2p.ID(fmt.Sprintf("n%d", f.from))
			if g.isGated {
				alive := s.stepGated(g, func() { g.CS.VerifInjectPeer(f.msg, peer) })
				if alive && !s.ctl.crashed {
					s.gossip(g, f.to == s.victim)
				} else if !alive || s.ctl.crashed {
					if f.to == s.victim && s.ctl.crashed {
						s.nodes[s.victim] = nil
						if stopOnCrash {
							return
						}
					}
				}
			} else {
				g.CS.VerifHandleMsg(f.msg, peer)
				s.steps++
				s.drainSync(g)
			}
			continue
		}
		// nothing in flight: the earliest armed timeout fires
		best := 0
		for i := 1; i <= n; i++ {
			g := s.nodes[i]
			if g == nil || !g.tick.Armed {
				continue
			}
			if best == 0 {
				best = i
				continue
			}
			a, b := g.tick.TI, s.nodes[best].tick.TI
			if consensus.CompareHRS(a.Height, a.Round, a.Step, b.Height, b.Round, b.Step) < 0 {
				best = i
			}
		}
		if best == 0 {
			return
		}
		g := s.nodes[best]
		g.tick.Armed = false
		ti := g.tick.TI
		if g.isGated {
			alive := s.stepGated(g, func() { g.CS.VerifFireTimeout(ti) })
			if alive && !s.ctl.crashed {
				s.gossip(g, best == s.victim)
			} else if best == s.victim && s.ctl.crashed {
				s.nodes[s.victim] = nil
				if stopOnCrash {
					return
				}
			}
		} else {
			g.CS.VerifHandleTimeout(ti)
			s.steps++
			s.drainSync(g)
		}
	}
}

// deliverOne takes the head of the queue; returns false when the queue is empty.
func (s *crashScenario) deliverOne() bool {
	if len(s.q) == 0 {
		return false
	}
	f := s.q[0]
	s.q = s.q[1:]
	g := s.nodes[f.to]
	if g == nil {
		return true
	}
	peer := p2p.ID(fmt.Sprintf("n%d", f.from))
	if f.from == f.to {
		peer = ""
	}
	if g.isGated {
		if s.stepGated(g, func() {
			if peer == "" {
				g.CS.VerifInjectInternal(f.msg)
			} else {
				g.CS.VerifInjectPeer(f.msg, peer)
			}
		}) {
			s.gossip(g, false)
		}
	} else {
		g.CS.VerifHandleMsg(f.msg, peer)
		s.steps++
		s.drainSync(g)
	}
	return true
}

// fireEarliest fires the earliest armed timeout of any live node; false when none is armed.
func (s *crashScenario) fireEarliest() bool {
	best := 0
	for i := 1; i <= len(s.w.Privs); i++ {
		g := s.nodes[i]
		if g == nil || !g.tick.Armed {
			continue
		}
		if best == 0 {
			best = i
			continue
		}
		a, b := g.tick.TI, s.nodes[best].tick.TI
		if consensus.CompareHRS(a.Height, a.Round, a.Step, b.Height, b.Round, b.Step) < 0 {
			best = i
		}
	}
	if best == 0 {
		return false
	}
	g := s.nodes[best]
	g.tick.Armed = false
	ti := g.tick.TI
	if g.isGated {
		if s.stepGated(g, func() { g.CS.VerifFireTimeout(ti) }) {
			s.gossip(g, false)
		}
	} else {
		g.CS.VerifHandleTimeout(ti)
		s.steps++
		s.drainSync(g)
	}
	return true
}

func (s *crashScenario) drainSync(g *gated) {
	for _, m := range g.CS.VerifDrainInternal() {
		// own messages go back to the node itself first (internal queue), then to the others
		s.q = append(s.q, flight{to: g.ID, from: g.ID, msg: m})
	}
	for _, ti := range g.TakeSched() {
		g.tick.Schedule(ti)
	}
	s.gossip(g, false)
}

func (s *crashScenario) closeAll() {
	for _, g := range s.nodes {
		if g != nil {
			g.isGated = false
			select {
			case g.release <- struct{}{}:
			default:
			}
			started := g.CS.IsRunning()
			g.CS.Stop()
			if started {
				// the receive routine stops the WAL (and its file group's ticker) on its way out
				select {
				case <-g.CS.VerifDone():
				case <-time.After(5 * time.Second):
				}
			}
			g.Close()
		}
	}
}

// reference run: no crash; returns the victim's operation log.
func referenceOps(w *World, mode string, victim int, heights uint64, tmp string) ([]opRec, error) {
	s := &crashScenario{w: w, mode: mode, victim: victim, tmp: tmp}
	if err := s.build(0); err != nil {
		return nil, err
	}
	defer s.closeAll()
	for i := 1; i <= len(w.Privs); i++ {
		if i == victim {
			if err := s.startGated(s.nodes[i]); err != nil {
				return nil, err
			}
		} else {
			s.nodes[i].CS.VerifScheduleRound0()
			s.drainSync(s.nodes[i])
		}
	}
	s.run(heights, false)
	return append([]opRec{}, s.ctl.log...), nil
}

// TestCrashOps prints the victim's durable-operation script (used to map model positions to real cuts).
func TestCrashOps(t *testing.T) {
	res := mbt.NewResult()
	defer res.Write()
	w := NewWorld([]int64{1, 1, 1, 1})
	for _, mode := range []string{"flush", "memory"} {
		tmp, _ := os.MkdirTemp(os.Getenv("VERIF_SCRATCH"), "crashops")
		ops, err := referenceOps(w, mode, mbt.EnvInt("CRASH_VICTIM", 1), uint64(mbt.EnvInt("CRASH_HEIGHTS", 3)), tmp)
		_ = tmp
		if err != nil {
			res.Mismatch("infra:reference", err.Error(), nil)
			return
		}
		res.Set("ops_"+mode, ops)
		res.Count(len(ops))
	}
	_ = bytes.Equal
	_ = json.Marshal
	_ = sort.Ints
}

// ---------------------------------------------------------------------------------------------
// One crash / restart experiment.
// ---------------------------------------------------------------------------------------------
type crashOutcome struct {
	Mode       string   `json:"mode"`
	Cut        int      `json:"cut"`
	WalVariant string   `json:"wal"`
	Op         opRec    `json:"op"` // the operation that did NOT happen
	Window     string   `json:"window"`
	ModelH     uint64   `json:"model_h"` // position in CrashRecovery.tla: the crash happens before step ModelStep of height ModelH
	ModelStep  string   `json:"model_step"`
	HeadBefore uint64   `json:"head_before"` // chain head when the process died
	StartErr   string   `json:"start_err,omitempty"`
	SavedH     uint64   `json:"saved_h"`     // block store height when the process died
	StoreH     uint64   `json:"store_h"`     // block store height after restart
	HeadH      uint64   `json:"head_h"`      // chain head after restart
	StateH     uint64   `json:"state_h"`     // consensus state LastBlockHeight after restart
	ResumeH    uint64   `json:"resume_h"`    // consensus height after OnStart
	Conflicts  []string `json:"conflicts"`   // post-restart signature requests that conflict with published messages
	StoreDiff  string   `json:"store_diff"`  // a stored block that differs from what the network committed
	FinalH     uint64   `json:"final_h"`     // victim's height at the end of the continuation
	NetH       uint64   `json:"net_h"`       // the other nodes' height at the end
	WalCorrupt string   `json:"wal_corrupt"` // the WAL as left by the recovered validator is not readable to its end
	Problems   []string `json:"problems"`
}

// modelPos maps a cut to the position in specs/crash/CrashRecovery.tla: the first operation at or after the
// cut that is a step of the model's per-height script.
func modelPos(ops []opRec, cut int) (uint64, string) {
	for k := cut - 1; k < len(ops); k++ {
		op := ops[k]
		switch {
		case strings.HasPrefix(op.Tag, "own-vote(t1"):
			return op.H, "walPrevote"
		case strings.HasPrefix(op.Tag, "own-vote(t2"):
			return op.H, "walPrecommit"
		case op.Tag == "SaveBlock":
			return op.H, "SaveBlock"
		case strings.HasPrefix(op.Tag, "EndHeight("):
			var h uint64
			fmt.Sscanf(op.Tag, "EndHeight(%d)", &h)
			if h == 0 {
				continue
			}
			return h, "walEndHeight"
		case op.Tag == "writeBlockWithState" || op.Tag == "trieFlush" || op.Tag == "writeHead":
			return op.H - 1, op.Tag
		case op.Tag == "saveState" && op.H > 0:
			return op.H - 1, "saveState"
		}
	}
	return 0, "end"
}

// window names the position of a cut inside the per-height write script.
func windowOf(ops []opRec, cut int) string {
	op := ops[cut-1]
	if strings.HasPrefix(op.Kind, "wal") {
		if strings.HasPrefix(op.Tag, "EndHeight") {
			return "before:EndHeight"
		}
		return "before:wal:" + strings.SplitN(op.Tag, "(", 2)[0]
	}
	return "before:" + op.Tag
}

func (s *crashScenario) asNetSim() *netSim {
	ns := &netSim{w: s.w, nodes: map[int]*netNode{}, names: map[uint64]map[common.Hash]string{}, pnames: map[common.Hash]string{},
		ids: map[string]types.BlockID{}, parts: map[string][]*types.Part{}, counter: map[uint64]int{}, nodeNo: map[int]int{},
		byzSent: map[string]bool{}, cut: -1, claimed: map[string]bool{}, maj23: true}
	for i := 1; i <= len(s.w.Privs); i++ {
		if g := s.nodes[i]; g != nil {
			ns.nodes[i] = &netNode{Node: g.Node}
			ns.order = append(ns.order, i)
			ns.nodeNo[i] = len(ns.order)
		}
	}
	return ns
}

func crashOnce(w *World, mode string, victim int, heights uint64, cut int, walVariant string, ops []opRec, scratch string) (out crashOutcome) {
	out = crashOutcome{Mode: mode, Cut: cut, WalVariant: walVariant, Op: ops[cut-1], Window: windowOf(ops, cut)}
	out.ModelH, out.ModelStep = modelPos(ops, cut)
	tmp, _ := os.MkdirTemp(scratch, "crash")
	// (scratch directories are removed by the runner after the process ends: file groups poll their directory)
	s := &crashScenario{w: w, mode: mode, victim: victim, tmp: tmp}
	if err := s.build(cut); err != nil {
		out.Problems = append(out.Problems, "infra:build:"+err.Error())
		return
	}
	defer s.closeAll()
	for i := 1; i <= len(w.Privs); i++ {
		if i == victim {
			if err := s.startGated(s.nodes[i]); err != nil {
				out.Problems = append(out.Problems, "infra:start:"+err.Error())
				return
			}
		} else {
			s.nodes[i].CS.VerifScheduleRound0()
			s.drainSync(s.nodes[i])
		}
	}
	old := s.nodes[victim]
	s.run(heights+2, true)
	if !s.ctl.crashed {
		out.Problems = append(out.Problems, "infra:no-crash")
		return
	}
	s.nodes[victim] = nil
	s.preSign = old.Sign.Take()
	out.SavedH = s.savedH
	out.HeadBefore = s.headBefore
	s.ctl = &crashCtl{} // the restarted process has no scheduled death
	// the others finish what they can without the victim (3 of 4 is still +2/3)
	s.run(heights+2, false)
	// ---- restart on the surviving files, as mainchain/backend.go would (fast sync off: straight to consensus) ----
	root := filepath.Join(tmp, "victim2")
	os.MkdirAll(root, 0o700)
	src := s.walAsIs
	walVariant = strings.TrimSuffix(walVariant, "-fastsync")
	if walVariant == "flushed" || walVariant == "torn" {
		src = s.walFlush
	}
	exec.Command("cp", "-r", src, filepath.Join(root, "cs.wal")).Run()
	if walVariant == "torn" {
		// the last record only partly reached the disk: cut 5 bytes off the head file
		head := filepath.Join(root, "cs.wal", "wal")
		if st, err := os.Stat(head); err == nil && st.Size() > 40 {
			os.Truncate(head, st.Size()-5)
		}
	}
	var nv *Node
	func() {
		defer func() {
			if r := recover(); r != nil {
				out.StartErr = fmt.Sprintf("panic while rebuilding the node: %v", r)
			}
		}()
		var err error
		nv, err = BuildNode(w, victim, Opts{DB: s.dbImage, Fresh: false, Cache: cacheFor(mode), RootDir: root})
		if err != nil {
			out.StartErr = "rebuilding the node failed: " + err.Error()
		}
	}()
	if out.StartErr != "" {
		return
	}
	g := newGated(nv)
	stopSwitch := func() {}
	out.StoreH = nv.BO.Height()
	out.HeadH = nv.BC.CurrentBlock().Height()
	out.StateH = nv.CS.VerifState().LastBlockHeight
	// stored blocks must be the ones the network committed
	ref := s.nodes[victim%len(w.Privs)+1]
	for h := uint64(1); h <= out.StoreH; h++ {
		vb := nv.BO.LoadBlock(h)
		rb := ref.BO.LoadBlock(h)
		if vb == nil {
			out.StoreDiff = fmt.Sprintf("block store reports height %d but block %d is missing", out.StoreH, h)
			break
		}
		if rb != nil && vb.Hash() != rb.Hash() {
			out.StoreDiff = fmt.Sprintf("stored block %d differs from the committed one", h)
			break
		}
	}
	func() {
		defer func() {
			if r := recover(); r != nil {
				out.StartErr = fmt.Sprintf("panic in OnStart: %v", r)
			}
		}()
		if strings.HasSuffix(out.WalVariant, "-fastsync") {
			stop, err := s.startGatedViaFastSync(g)
			stopSwitch = stop
			if err != nil && strings.HasPrefix(err.Error(), "infra:") {
				// no port could be bound for the switch: start this crash point the direct way instead
				if err2 := s.startGated(g); err2 != nil {
					out.StartErr = "OnStart failed: " + err2.Error()
				}
			} else if err != nil {
				out.StartErr = "start through fast sync failed: " + err.Error()
			}
		} else if err := s.startGated(g); err != nil {
			out.StartErr = "OnStart failed: " + err.Error()
		}
	}()
	defer stopSwitch()
	if out.StartErr != "" || len(out.Problems) > 0 {
		nv.Close()
		return
	}
	s.nodes[victim] = g
	out.ResumeH = g.CS.GetRoundState().Height
	// whatever the replay queued for the node itself
	if g.CS.VerifInternalLen() > 0 {
		s.stepGated(g, func() {})
	}
	// ---- continuation against the other nodes, with the gossip model (catch-up included) ----
	target := uint64(0)
	for i, o := range s.nodes {
		if i != victim && o != nil {
			if h := o.CS.GetRoundState().Height; h > target {
				target = h
			}
		}
	}
	// timely delivery: everything in flight and everything gossip would send is delivered before the
	// earliest timeout fires; the victim must reach the height the others were at when it came back
	ns := s.asNetSim()
	for budget := 0; budget < 6000 && g.CS.GetRoundState().Height <= target; budget++ {
		if s.deliverOne() {
			continue
		}
		s.gossip(g, false)
		ns.q = nil
		ns.gossipOnce()
		s.q = append(s.q, ns.q...)
		if len(s.q) > 0 {
			continue
		}
		if !s.fireEarliest() {
			break
		}
	}
	out.FinalH = g.CS.GetRoundState().Height
	out.NetH = target
	// the log the recovered validator has been writing must itself be readable to its end (a torn tail that is
	// not repaired at start-up swallows everything appended after it at the NEXT restart)
	g.isGated = false
	select {
	case g.release <- struct{}{}:
	default:
	}
	g.CS.Stop()
	select {
	case <-g.CS.VerifDone():
	case <-time.After(5 * time.Second):
	}
	s.nodes[victim] = nil
	defer nv.Close()
	if grp, err := auto.OpenGroup(filepath.Join(root, "cs.wal", "wal")); err == nil {
		if rd, err := grp.NewReader(0); err == nil {
			dec := consensus.NewWALDecoder(rd)
			n := 0
			for {
				_, err := dec.Decode()
				if err == io.EOF {
					break
				}
				if err != nil {
					out.WalCorrupt = fmt.Sprintf("record %d of the WAL written after the restart does not decode: %v", n+1, err)
					break
				}
				n++
			}
			rd.Close()
		}
		grp.Close()
	}
	// ---- verdicts ----
	post := nv.Sign.Take()
	if dbgCrash {
		for _, q := range s.preSign {
			fmt.Printf("PRE  %s t%d (%d,%d) %s\n", q.Kind, q.Type, q.H, q.R, q.Hash.Hex()[:10])
		}
		for _, p := range s.pub {
			fmt.Printf("PUB  %s t%d (%d,%d) %s\n", p.Kind, p.Type, p.H, p.R, p.Hash.Hex()[:10])
		}
		for _, q := range post {
			fmt.Printf("POST %s t%d (%d,%d) %s\n", q.Kind, q.Type, q.H, q.R, q.Hash.Hex()[:10])
		}
	}
	for _, q := range post {
		for _, p := range s.pub {
			if p.Kind == q.Kind && p.Type == q.Type && p.H == q.H && p.R == q.R && p.Hash != q.Hash {
				out.Conflicts = append(out.Conflicts, fmt.Sprintf("%s type %d at (%d,%d): published %s before the crash, signed %s after it",
					q.Kind, q.Type, q.H, q.R, p.Hash.Hex()[:10], q.Hash.Hex()[:10]))
			}
		}
	}
	for h := uint64(1); h <= nv.BO.Height(); h++ {
		vb, rb := nv.BO.LoadBlock(h), ref.BO.LoadBlock(h)
		if vb != nil && rb != nil && vb.Hash() != rb.Hash() && out.StoreDiff == "" {
			out.StoreDiff = fmt.Sprintf("after resuming, block %d differs from the committed one", h)
		}
	}
	return
}

var dbgCrash bool

// TestCrashSweep: every cut of the victim's durable-operation script, both WAL tail variants.
// selfKills counts SIGTERMs the process received: consensus sends one to its own process when ApplyBlock fails
// (cmn.Kill, "please restart node"); in a test process that would end the whole sweep
var selfKills int32

func TestCrashSweep(t *testing.T) {
	res := mbt.NewResult()
	defer res.Write()
	sigc := make(chan os.Signal, 16)
	signal.Notify(sigc, syscall.SIGTERM)
	defer signal.Stop(sigc)
	go func() {
		for range sigc {
			atomic.AddInt32(&selfKills, 1)
		}
	}()
	w := NewWorld([]int64{1, 1, 1, 1})
	victim := mbt.EnvInt("CRASH_VICTIM", 1)
	heights := uint64(mbt.EnvInt("CRASH_HEIGHTS", 3))
	walRotateEvery = mbt.EnvInt("CRASH_ROTATE", 0)
	scratch := os.Getenv("VERIF_SCRATCH")
	modes := strings.Split(os.Getenv("CRASH_MODES"), ",")
	if os.Getenv("CRASH_MODES") == "" {
		modes = []string{"flush", "memory"}
	}
	var outs []crashOutcome
	var mu sync.Mutex
	for _, mode := range modes {
		tmp, _ := os.MkdirTemp(scratch, "crashref")
		ops, err := referenceOps(w, mode, victim, heights, tmp)
		_ = tmp
		if err != nil {
			res.Mismatch("infra:reference", err.Error(), nil)
			return
		}
		type job struct {
			cut int
			v   string
		}
		var jobs []job
		stride := mbt.EnvInt("CRASH_STRIDE", 1)
		for cut := 2; cut <= len(ops); cut++ {
			if stride > 1 && (cut+int(mbt.Seed()))%stride != 0 {
				continue
			}
			jobs = append(jobs, job{cut, "asis"})
			if mode == "flush" && os.Getenv("CRASH_FASTSYNC") != "0" {
				jobs = append(jobs, job{cut, "asis-fastsync"}) // the restart goes through the block-sync reactor (nobody is ahead)
			}
			if strings.HasPrefix(ops[cut-2].Kind, "wal.write") || strings.HasPrefix(ops[cut-1].Kind, "wal") {
				jobs = append(jobs, job{cut, "flushed"})
			}
			if strings.HasPrefix(ops[cut-2].Kind, "wal") {
				jobs = append(jobs, job{cut, "torn"}) // the record written last reached the disk only in part
			}
		}
		ch := make(chan job)
		var wg sync.WaitGroup
		for k := 0; k < mbt.EnvInt("CRASH_WORKERS", 8); k++ {
			wg.Add(1)
			go func() {
				defer wg.Done()
				for j := range ch {
					// one kill + restart + continuation, under a wall-clock watchdog: a restart that never returns (a
					// start-up or a handler that blocks for good) is an outcome, not a dead driver
					done := make(chan crashOutcome, 1)
					go func() { done <- crashOnce(w, mode, victim, heights, j.cut, j.v, ops, scratch) }()
					var o crashOutcome
					select {
					case o = <-done:
					case <-time.After(100 * time.Second):
						o = crashOutcome{Mode: mode, Cut: j.cut, WalVariant: j.v, Op: ops[j.cut-1], Window: windowOf(ops, j.cut)}
						o.ModelH, o.ModelStep = modelPos(ops, j.cut)
						o.StartErr = "the restarted validator (or the continuation with it) did not return within 100 seconds"
					}
					if n := atomic.LoadInt32(&selfKills); n > 0 && o.StartErr == "" && o.FinalH <= o.NetH {
						o.StartErr = "the restarted node sent SIGTERM to its own process (ApplyBlock failed: cmn.Kill) and never caught up"
					}
					mu.Lock()
					outs = append(outs, o)
					mu.Unlock()
					res.Count(1)
				}
			}()
		}
		for _, j := range jobs {
			ch <- j
		}
		close(ch)
		wg.Wait()
	}
	sort.Slice(outs, func(a, b int) bool {
		if outs[a].Mode != outs[b].Mode {
			return outs[a].Mode < outs[b].Mode
		}
		if outs[a].Cut != outs[b].Cut {
			return outs[a].Cut < outs[b].Cut
		}
		return outs[a].WalVariant < outs[b].WalVariant
	})
	res.Set("outcomes", outs)
	// ---- property-level verdicts (C05); signatures name mode and the position in the write script ----
	for _, o := range outs {
		pos := o.Mode + ":before-" + o.ModelStep
		detail := map[string]interface{}{"mode": o.Mode, "cut": o.Cut, "wal_tail": o.WalVariant, "operation_not_executed": o.Op, "outcome": o}
		where := fmt.Sprintf("%s mode, process dies before durable operation %d (%s %s at height %d; WAL tail %s)", o.Mode, o.Cut, o.Op.Kind, o.Op.Tag, o.Op.H, o.WalVariant)
		for _, p := range o.Problems {
			if strings.HasPrefix(p, "infra:") {
				res.Mismatch("infra:crash:"+p, where+": "+p, detail)
			}
		}
		if len(o.Problems) > 0 {
			continue
		}
		res.Distinct(fmt.Sprintf("%s/%d/%s", o.Mode, o.Cut, o.WalVariant))
		if o.StartErr != "" {
			res.Mismatch("crash:start-failed:"+pos, where+": the node does not start on the surviving files: "+o.StartErr, detail)
			continue
		}
		if o.StoreDiff != "" {
			res.Mismatch("crash:store-differs:"+pos, where+": "+o.StoreDiff, detail)
		}
		if o.WalCorrupt != "" {
			res.Mismatch("crash:wal-unreadable-after-recovery:"+o.Mode+":tail-"+o.WalVariant, where+": "+o.WalCorrupt, detail)
		}
		rewound := o.HeadH < o.HeadBefore
		if len(o.Conflicts) > 0 {
			kind := "crash:conflicting-signature:" + pos
			if rewound {
				kind = "crash:conflicting-signature:" + o.Mode + ":head-rewound"
			}
			res.Mismatch(kind, where+": after the restart the validator "+o.Conflicts[0], detail)
		}
		if o.FinalH <= o.NetH {
			kind := "crash:no-catch-up:" + pos
			res.Mismatch(kind, fmt.Sprintf("%s: restarted at height %d (head %d, consensus state %d) and never passed height %d of the network under timely delivery (stuck at %d)",
				where, o.ResumeH, o.HeadH, o.StateH, o.NetH, o.FinalH), detail)
		}
		if o.Mode == "flush" && o.StoreH < o.HeadBefore {
			res.Mismatch("crash:lost-committed-block:"+pos, fmt.Sprintf("%s: chain head %d before the crash, %d after the restart although state is flushed every block", where, o.HeadBefore, o.StoreH), detail)
		}
	}
	if len(outs) > 0 {
		res.Sample(outs[len(outs)/2])
	}
}
