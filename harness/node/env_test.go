//go:build verif

package node

import (
	"strconv"
	"encoding/json"
	"fmt"
	"os"
	"reflect"
	"sort"
	"strings"
	"testing"
	"time"

	"github.com/kardiachain/go-kardia/consensus"
	"github.com/kardiachain/go-kardia/lib/common"
	"github.com/kardiachain/go-kardia/lib/p2p"
	kproto "github.com/kardiachain/go-kardia/proto/kardiachain/types"
	"github.com/kardiachain/go-kardia/trie"
	"github.com/kardiachain/go-kardia/types"

	"verifharness/internal/mbt"
)

// ---- expected values as printed by MC_NodeEnv ----
type xVotes struct {
	Pv []string `json:"pv"`
	Pc []string `json:"pc"`
}
type xProj struct {
	H       uint64          `json:"h"`
	R       uint32          `json:"r"`
	Step    int             `json:"step"`
	HasProp bool            `json:"hasProp"`
	Pol     uint32          `json:"pol"`
	Pblock  string          `json:"pblock"`
	Pparts  string          `json:"pparts"`
	LockedR uint32          `json:"lockedR"`
	LockedB string          `json:"lockedB"`
	ValidR  uint32          `json:"validR"`
	ValidB  string          `json:"validB"`
	CommitR uint32          `json:"commitR"`
	Ttp     bool            `json:"ttp"`
	Rounds  []int           `json:"rounds"`
	Votes   json.RawMessage `json:"votes"`
	Last    []string        `json:"last"`
	votes   map[int]xVotes
}
type xOut struct {
	O    string `json:"o"`
	Type int    `json:"type"`
	H    uint64 `json:"h"`
	R    uint32 `json:"r"`
	Bid  string `json:"bid"`
	Pol  uint32 `json:"pol"`
	I    int    `json:"i"`
	A    string `json:"a"`
	B    string `json:"b"`
}
type xTimer struct {
	H     uint64 `json:"h"`
	R     uint32 `json:"r"`
	Step  int    `json:"step"`
	Armed bool   `json:"armed"`
}
type xStep struct {
	A   []interface{} `json:"a"`
	O   xProj         `json:"o"`
	Out []xOut        `json:"out"`
	T   xTimer        `json:"t"`
	Q   int           `json:"q"`
	Ev  *int          `json:"ev"`
	Evl []struct {
		I    int      `json:"i"`
		Type int      `json:"type"`
		H    uint64   `json:"h"`
		R    uint32   `json:"r"`
		Pair []string `json:"pair"`
	} `json:"evl"`
}
type xWalk struct {
	W    []xStep         `json:"w"`    // a whole behaviour with the observation after every step
	Acts [][]interface{} `json:"acts"` // or: the actions leading to the pre-state ...
	Last *xStep          `json:"last"` // ... and the transition to check
}

// votes may be serialised as an array (domain 1..n) or an object keyed by round
func (p *xProj) decodeVotes() {
	p.votes = map[int]xVotes{}
	if len(p.Votes) == 0 {
		return
	}
	if p.Votes[0] == '[' {
		var arr []xVotes
		json.Unmarshal(p.Votes, &arr)
		for i, v := range arr {
			p.votes[i+1] = v
		}
		return
	}
	var m map[string]xVotes
	json.Unmarshal(p.Votes, &m)
	for k, v := range m {
		var r int
		fmt.Sscan(k, &r)
		p.votes[r] = v
	}
}

func num(x interface{}) int { return int(x.(float64)) }

// ---- blocks of one height ----
type hblocks struct {
	parts    map[string][]*types.Part // name -> parts of the block
	id       map[string]types.BlockID // name -> block id
	name     map[common.Hash]string   // block hash -> name
	pname    map[common.Hash]string   // part-set header hash -> name
	ownOpen  bool                     // the parts of the node's own new block are being collected
	lastProp string                   // name of the block of the last own proposal (parts follow it)
}

type envDriver struct {
	nbad   int // invalid votes delivered so far (chooses how the next one is made invalid)
	w      *World
	me     int
	nd     *Node
	tick   Ticker
	inq    []consensus.Message
	hb     map[uint64]*hblocks
	myBid  string
	unbind string                 // set when the abstract names cannot be bound to real blocks any more
	votes  map[string]*types.Vote // a re-delivered abstract vote is the identical real message
}

func hasher() types.TrieHasher { return trie.NewStackTrie(nil) }

func (d *envDriver) blocksAt(h uint64) *hblocks {
	if b, ok := d.hb[h]; ok {
		return b
	}
	hb := &hblocks{parts: map[string][]*types.Part{}, id: map[string]types.BlockID{}, name: map[common.Hash]string{}, pname: map[common.Hash]string{}}
	d.hb[h] = hb
	if d.nd.CS.GetRoundState().Height != h {
		d.unbind = fmt.Sprintf("blocks of height %d requested while the node is at %d", h, d.nd.CS.GetRoundState().Height)
		return hb
	}
	// a valid block as the node itself would build it, re-headed for other proposers
	good, _ := d.nd.CS.VerifCreateProposalBlock()
	if good == nil {
		d.unbind = "node cannot create a block"
		return hb
	}
	rebuild := func(mut func(h *types.Header)) *types.Block {
		hd := good.Header()
		lc := good.LastCommit().Copy()
		hd.LastCommitHash = common.Hash{}
		mut(hd)
		return types.NewBlock(hd, good.Transactions(), lc, nil, hasher())
	}
	n := len(d.w.Privs)
	other := d.w.Privs[d.me%n].GetAddress()     // validator (me mod n)+1
	third := d.w.Privs[(d.me+1)%n].GetAddress() // the one after
	hb.add("A", rebuild(func(h *types.Header) { h.ProposerAddress = other }))
	hb.add("B", rebuild(func(h *types.Header) { h.ProposerAddress = third }))
	hb.add("X", rebuild(func(h *types.Header) { h.ProposerAddress = other; h.AppHash = common.BytesToHash([]byte{0xee}) }))
	return hb
}

func (hb *hblocks) add(name string, b *types.Block) {
	ps := b.MakePartSet(types.BlockPartSizeBytes)
	for i := 0; i < int(ps.Total()); i++ {
		hb.parts[name] = append(hb.parts[name], ps.GetPart(i))
	}
	hb.id[name] = types.BlockID{Hash: b.Hash(), PartsHeader: ps.Header()}
	hb.name[b.Hash()] = name
	hb.pname[ps.Header().Hash] = name
}

func (d *envDriver) bid(h uint64, name string) (types.BlockID, bool) {
	if name == "nil" {
		return types.BlockID{}, true
	}
	id, ok := d.blocksAt(h).id[name]
	return id, ok
}

func (d *envDriver) nameOf(h uint64, hash common.Hash) string {
	if hash.IsZero() {
		return "nil"
	}
	if hb, ok := d.hb[h]; ok {
		if n, ok := hb.name[hash]; ok {
			return n
		}
	}
	return "?" + hash.Hex()[2:10]
}

// after every handler call: own messages -> inq, timeouts -> ticker; returns the outputs of the step
func (d *envDriver) collect() []xOut {
	var outs []xOut
	for _, m := range d.nd.CS.VerifDrainInternal() {
		d.inq = append(d.inq, m)
		switch mm := m.(type) {
		case *consensus.ProposalMessage:
			p := mm.Proposal
			hb := d.blocksAt(p.Height)
			hb.ownOpen = false
			if _, known := hb.name[p.POLBlockID.Hash]; !known {
				// the node's own new block: bind the name MyBid (once per height)
				if _, dup := hb.id[d.myBid]; dup {
					d.unbind = "node created a second, different own block at one height"
				} else {
					hb.id[d.myBid] = p.POLBlockID
					hb.name[p.POLBlockID.Hash] = d.myBid
					hb.pname[p.POLBlockID.PartsHeader.Hash] = d.myBid
					hb.ownOpen = true
				}
			}
			hb.lastProp = d.nameOf(p.Height, p.POLBlockID.Hash)
			outs = append(outs, xOut{O: "proposal", H: p.Height, R: p.Round, Pol: p.POLRound, Bid: hb.lastProp, I: d.me})
		case *consensus.BlockPartMessage:
			hb := d.blocksAt(mm.Height)
			if hb.ownOpen {
				hb.parts[d.myBid] = append(hb.parts[d.myBid], mm.Part)
			}
			if mm.Part.Index == 0 {
				outs = append(outs, xOut{O: "part", H: mm.Height, R: mm.Round, Bid: hb.lastProp})
			}
		case *consensus.VoteMessage:
			v := mm.Vote
			outs = append(outs, xOut{O: "vote", Type: int(v.Type), H: v.Height, R: v.Round, Bid: d.nameOf(v.Height, v.BlockID.Hash), I: int(v.ValidatorIndex) + 1})
		}
	}
	for _, ti := range d.nd.TakeSched() {
		d.tick.Schedule(ti)
	}
	return outs
}

func (d *envDriver) voteFor(i, typ int, h uint64, r uint32, name string, id types.BlockID) *types.Vote {
	key := fmt.Sprintf("%d/%d/%d/%d/%s", i, typ, h, r, name)
	cp := func(v *types.Vote) *types.Vote {
		c := v.Copy()
		c.Signature = append([]byte{}, v.Signature...)
		return c
	}
	if v, ok := d.votes[key]; ok {
		return cp(v)
	}
	v := d.w.SignVoteFor(i, kproto.SignedMsgType(typ), h, r, id, time.Now())
	d.votes[key] = v
	return cp(v)
}

func peerOf(i int) p2p.ID { return p2p.ID(fmt.Sprintf("p%d", i)) }

// do performs one specification action on the real node.
func (d *envDriver) do(a []interface{}) error {
	cs := d.nd.CS
	rs := cs.GetRoundState()
	h := rs.Height
	switch a[0].(string) {
	case "own":
		if len(d.inq) == 0 {
			return fmt.Errorf("model delivers an own message but the real node has none queued")
		}
		m := d.inq[0]
		d.inq = d.inq[1:]
		cs.VerifHandleMsg(m, "")
	case "fire":
		if !d.tick.Armed {
			return fmt.Errorf("model fires a timeout but the real ticker holds none")
		}
		d.tick.Armed = false
		cs.VerifHandleTimeout(d.tick.TI)
	case "prop":
		r, b, pol, signer := uint32(num(a[1])), a[2].(string), uint32(num(a[3])), num(a[4])
		id, ok := d.bid(h, b)
		if !ok {
			return fmt.Errorf("unbound block %s", b)
		}
		cs.VerifHandleMsg(&consensus.ProposalMessage{Proposal: d.w.SignProposalFor(signer, h, r, pol, id)}, peerOf(signer))
	case "part":
		b := a[1].(string)
		parts, ok := d.blocksAt(h).parts[b]
		if !ok {
			return fmt.Errorf("unbound block %s", b)
		}
		for _, p := range parts {
			cs.VerifHandleMsg(&consensus.BlockPartMessage{Height: h, Round: rs.Round, Part: p}, peerOf(9))
		}
	case "vote", "badvote":
		i, typ, r, b := num(a[1]), num(a[2]), uint32(num(a[3])), a[4].(string)
		id, ok := d.bid(h, b)
		if !ok {
			return fmt.Errorf("unbound block %s", b)
		}
		v := d.voteFor(i, typ, h, r, b, id)
		if a[0].(string) == "badvote" {
			// "a vote in the name of validator i that does not verify", made concrete in three ways (in turn):
			// a damaged signature; a vote validly signed by ANOTHER validator under its own address but in i's
			// slot (index / address mismatch); another validator's signature under i's index and address
			n := len(d.w.Privs)
			j := i%n + 1
			if j == d.me {
				j = j%n + 1
			}
			d.nbad++
			switch variant := (d.nbad + int(mbt.Seed())) % 3; {
			case variant == 0 || j == i:
				v.Signature[11] ^= 0x20
			case variant == 1:
				idx := v.ValidatorIndex
				v = d.voteFor(j, typ, h, r, b, id)
				v.ValidatorIndex = idx
			default:
				idx, ad := v.ValidatorIndex, v.ValidatorAddress
				v = d.voteFor(j, typ, h, r, b, id)
				v.ValidatorIndex, v.ValidatorAddress = idx, ad
			}
		}
		cs.VerifHandleMsg(&consensus.VoteMessage{Vote: v}, peerOf(i))
	case "lastpc":
		i, b := num(a[1]), a[2].(string)
		if rs.LastCommit == nil {
			return fmt.Errorf("no last commit")
		}
		id, ok := d.blocksAt(h - 1).id[b]
		if !ok {
			return fmt.Errorf("unbound block %s at height %d", b, h-1)
		}
		v := d.voteFor(i, int(kproto.PrecommitType), h-1, rs.LastCommit.GetRound(), b, id)
		cs.VerifHandleMsg(&consensus.VoteMessage{Vote: v}, peerOf(i))
	case "bundle":
		typ, r, b := num(a[1]), uint32(num(a[2])), a[3].(string)
		id, ok := d.bid(h, b)
		if !ok {
			return fmt.Errorf("unbound block %s", b)
		}
		for i := 1; i <= len(d.w.Privs); i++ {
			if i == d.me {
				continue
			}
			if cs.GetRoundState().Height != h {
				break
			}
			cs.VerifHandleMsg(&consensus.VoteMessage{Vote: d.voteFor(i, typ, h, r, b, id)}, peerOf(i))
		}
	default:
		return fmt.Errorf("unknown action %v", a)
	}
	return nil
}

// proj is the projection of the real node that the specification's Proj must equal.
func (d *envDriver) proj() map[string]interface{} {
	rs := d.nd.CS.GetRoundState()
	n := len(d.w.Privs)
	h := rs.Height
	blk := func(b *types.Block) string {
		if b == nil {
			return "none"
		}
		return d.nameOf(b.Height(), b.Hash())
	}
	vlist := func(vs *types.VoteSet, hh uint64) []string {
		out := make([]string, n)
		for i := 0; i < n; i++ {
			out[i] = "none"
			if vs != nil {
				if v := vs.GetByIndex(uint32(i)); v != nil {
					out[i] = d.nameOf(hh, v.BlockID.Hash)
				}
			}
		}
		return out
	}
	rounds := []int{}
	votes := map[int]xVotes{}
	for r := 0; r <= int(rs.Round)+8; r++ {
		if pv := rs.Votes.Prevotes(uint32(r)); pv != nil {
			rounds = append(rounds, r)
			votes[r] = xVotes{vlist(pv, h), vlist(rs.Votes.Precommits(uint32(r)), h)}
		}
	}
	pparts := "none"
	if rs.ProposalBlockParts != nil {
		pparts = "?"
		if hb, ok := d.hb[h]; ok {
			if nme, ok := hb.pname[rs.ProposalBlockParts.Header().Hash]; ok {
				pparts = nme
			}
		}
	}
	pol := uint32(0)
	if rs.Proposal != nil {
		pol = rs.Proposal.POLRound
	}
	return map[string]interface{}{
		"h": rs.Height, "r": rs.Round, "step": int(rs.Step), "hasProp": rs.Proposal != nil, "pol": pol,
		"pblock": blk(rs.ProposalBlock), "pparts": pparts,
		"lockedR": rs.LockedRound, "lockedB": blk(rs.LockedBlock), "validR": rs.ValidRound, "validB": blk(rs.ValidBlock),
		"commitR": rs.CommitRound, "ttp": rs.TriggeredTimeoutPrecommit, "rounds": rounds, "votes": votes,
		"last": vlist(rs.LastCommit, h-1),
	}
}

func (p *xProj) asMap() map[string]interface{} {
	p.decodeVotes()
	rounds := append([]int{}, p.Rounds...)
	sort.Ints(rounds)
	return map[string]interface{}{
		"h": p.H, "r": p.R, "step": p.Step, "hasProp": p.HasProp, "pol": p.Pol, "pblock": p.Pblock, "pparts": p.Pparts,
		"lockedR": p.LockedR, "lockedB": p.LockedB, "validR": p.ValidR, "validB": p.ValidB, "commitR": p.CommitR, "ttp": p.Ttp,
		"rounds": rounds, "votes": p.votes, "last": p.Last,
	}
}

func diffMaps(real, spec map[string]interface{}) []string {
	var out []string
	keys := make([]string, 0, len(spec))
	for k := range spec {
		keys = append(keys, k)
	}
	sort.Strings(keys)
	for _, k := range keys {
		if !reflect.DeepEqual(real[k], spec[k]) {
			out = append(out, fmt.Sprintf("%s: real %v, specified %v", k, real[k], spec[k]))
		}
	}
	return out
}

// runWalk replays one behaviour on a fresh real node; compares after every step from `from`.
func runWalk(res *mbt.Result, w *World, me int, walk *xWalk, cmpFrom int, myBid string, pfx string) {
	nd, err := BuildNode(w, me, Opts{Fresh: true, WaitTxs: os.Getenv("NODE_WAITTXS") == "1"})
	if err != nil {
		res.Mismatch("infra:buildnode", err.Error(), nil)
		return
	}
	defer nd.Close()
	d := &envDriver{w: w, me: me, nd: nd, hb: map[uint64]*hblocks{}, myBid: myBid, votes: map[string]*types.Vote{}}
	nd.CS.VerifScheduleRound0()
	for _, ti := range nd.TakeSched() {
		d.tick.Schedule(ti)
	}
	nd.Sign.Take()
	acts := func(k int) [][]interface{} {
		var a [][]interface{}
		for j := 0; j <= k; j++ {
			a = append(a, walk.W[j].A)
		}
		return a
	}
	for k := range walk.W {
		st := &walk.W[k]
		var perr error
		func() {
			defer func() {
				if r := recover(); r != nil {
					perr = fmt.Errorf("PANIC: %v", r)
				}
			}()
			perr = d.do(st.A)
		}()
		if d.unbind != "" {
			res.Add("unbindable_walks", 1)
			return
		}
		if perr != nil {
			kind := "driver"
			if strings.HasPrefix(perr.Error(), "PANIC") {
				kind = "panic"
			}
			res.Mismatch(pfx+kind+":"+st.A[0].(string), fmt.Sprintf("step %d (%v): %v", k+1, st.A, perr), map[string]interface{}{"me": me, "actions": acts(k)})
			return
		}
		outs := d.collect()
		if d.unbind != "" {
			res.Add("unbindable_walks", 1)
			return
		}
		sreq := nd.Sign.Take()
		res.Count(1)
		if k < cmpFrom {
			continue
		}
		detail := map[string]interface{}{"me": me, "actions": acts(k)}
		// 1. signature requests = the specification's signed outputs (property C03 is stated on these)
		var wantSig, gotSig []string
		for _, o := range st.Out {
			if o.O == "vote" {
				wantSig = append(wantSig, fmt.Sprintf("vote/%d/%d/%d/%s", o.Type, o.H, o.R, o.Bid))
			} else if o.O == "proposal" {
				wantSig = append(wantSig, fmt.Sprintf("proposal/%d/%d/%d/%s", o.H, o.R, o.Pol, o.Bid))
			}
		}
		for _, q := range sreq {
			if q.Kind == "vote" {
				gotSig = append(gotSig, fmt.Sprintf("vote/%d/%d/%d/%s", q.Type, q.H, q.R, d.nameOf(q.H, q.Hash)))
			} else {
				gotSig = append(gotSig, fmt.Sprintf("proposal/%d/%d/%d/%s", q.H, q.R, q.Pol, d.nameOf(q.H, q.Hash)))
			}
		}
		if !reflect.DeepEqual(gotSig, wantSig) {
			res.Mismatch(pfx+"signed:"+st.A[0].(string), fmt.Sprintf("step %d (%v): the real validator signed %v, the specification allows %v", k+1, st.A, gotSig, wantSig), detail)
			return
		}
		// 2. messages published on the internal queue
		var wantOut, gotOut []string
		for _, o := range st.Out {
			switch o.O {
			case "vote", "proposal", "part":
				wantOut = append(wantOut, fmt.Sprintf("%s/%d/%d/%d/%s", o.O, o.Type, o.H, o.R, o.Bid))
			}
		}
		for _, o := range outs {
			gotOut = append(gotOut, fmt.Sprintf("%s/%d/%d/%d/%s", o.O, o.Type, o.H, o.R, o.Bid))
		}
		if !reflect.DeepEqual(gotOut, wantOut) {
			res.Mismatch(pfx+"published:"+st.A[0].(string), fmt.Sprintf("step %d (%v): the real node queued %v, specified %v", k+1, st.A, gotOut, wantOut), detail)
			return
		}
		// 3. round state
		if df := diffMaps(d.proj(), st.O.asMap()); len(df) > 0 {
			field := strings.SplitN(df[0], ":", 2)[0]
			res.Mismatch(pfx+"state:"+field+":"+st.A[0].(string), fmt.Sprintf("step %d (%v): %s", k+1, st.A, strings.Join(df, "; ")), detail)
			return
		}
		// 4. ticker
		gt := xTimer{d.tick.TI.Height, d.tick.TI.Round, int(d.tick.TI.Step), d.tick.Armed}
		if gt != st.T {
			res.Mismatch(pfx+"timer:"+st.A[0].(string), fmt.Sprintf("step %d (%v): real ticker %+v, specified %+v", k+1, st.A, gt, st.T), detail)
			return
		}
		if st.Ev != nil {
			var want, got []string
			// the comparison is on the offences of the height the node works on: what the pool does with evidence of
			// earlier heights once their block exists (restamping with the block's facts, offering it to proposers,
			// marking it committed, pruning) is specified and bound by the evidence family (C19)
			curH := uint64(st.O.H)
			for _, e := range st.Evl {
				if uint64(e.H) != curH {
					continue
				}
				p := append([]string{}, e.Pair...)
				sort.Strings(p)
				want = append(want, fmt.Sprintf("v%d/t%d/h%d/r%d/%v", e.I, e.Type, e.H, e.R, p))
			}
			// everything the pool holds (its gossip list): PendingEvidence only offers what every node can verify NOW,
			// which excludes evidence of the height being decided
			var evs []types.Evidence
			for el := nd.EvPool.EvidenceFront(); el != nil; el = el.Next() {
				if e, ok := el.Value.(types.Evidence); ok {
					evs = append(evs, e)
				}
			}
			for _, e := range evs {
				if dv, ok := e.(*types.DuplicateVoteEvidence); ok {
					if dv.VoteA.Height != curH {
						continue
					}
					p := []string{d.nameOf(dv.VoteA.Height, dv.VoteA.BlockID.Hash), d.nameOf(dv.VoteB.Height, dv.VoteB.BlockID.Hash)}
					sort.Strings(p)
					got = append(got, fmt.Sprintf("v%d/t%d/h%d/r%d/%v", dv.VoteA.ValidatorIndex+1, dv.VoteA.Type, dv.VoteA.Height, dv.VoteA.Round, p))
				}
			}
			sort.Strings(want)
			sort.Strings(got)
			// the pool may hold the same offence twice with different evidence timestamps (tryAddVote stamps it with
			// the median of the CURRENT last commit, which grows with late precommits): that is C19's subject, the
			// comparison here is on the set of offences
			uniq := got[:0]
			for i, g := range got {
				if i == 0 || g != got[i-1] {
					uniq = append(uniq, g)
				}
			}
			got = uniq
			if !reflect.DeepEqual(got, want) && !(len(got) == 0 && len(want) == 0) {
				res.Mismatch(pfx+"evidence:"+st.A[0].(string), fmt.Sprintf("step %d (%v): the evidence pool holds %v, specified %v", k+1, st.A, got, want), detail)
				return
			}
		}
		if len(d.inq) != st.Q {
			res.Mismatch(pfx+"queue:"+st.A[0].(string), fmt.Sprintf("step %d (%v): %d own messages queued, specified %d", k+1, st.A, len(d.inq), st.Q), detail)
			return
		}
	}
	res.Behaviour()
	// non-trivial: the behaviour made the node lock, unlock, skip a round or commit
	for _, st := range walk.W {
		if st.O.LockedB != "none" || st.O.R > 1 || st.O.H > 1 {
			res.Distinct(fmt.Sprint(acts(len(walk.W) - 1)))
			break
		}
	}
}

func envWorld() (*World, int, string) {
	powers := []int64{1, 1, 1, 1}
	if ps := os.Getenv("NODE_POWERS"); ps != "" {
		powers = nil
		for _, f := range strings.Split(ps, ",") {
			p, _ := strconv.ParseInt(f, 10, 64)
			powers = append(powers, p)
		}
	}
	w := NewWorld(powers)
	me := mbt.EnvInt("NODE_ME", 2)
	myBid := os.Getenv("NODE_MYBID")
	if myBid == "" {
		myBid = "M"
	}
	return w, me, myBid
}

// TestProposerTable prints the proposer table for the model constants.
func TestProposerTable(t *testing.T) {
	w, _, _ := envWorld()
	res := mbt.NewResult()
	defer res.Write()
	res.Set("proposer_table", w.ProposerTable(mbt.EnvInt("NODE_MAXH", 4), mbt.EnvInt("NODE_MAXR", 12)))
	res.Count(1)
}

// TestEnvReplay replays behaviours of MC_NodeEnv (one JSON object {"w": [...]} per line).
// NODE_LASTONLY=1: lines are transitions of a BFS dump, only the last step is compared.
func TestEnvReplay(t *testing.T) {
	res := mbt.NewResult()
	defer res.Write()
	w, me, myBid := envWorld()
	lastOnly := os.Getenv("NODE_LASTONLY") == "1"
	sent, err := mbt.EachLine(os.Getenv("NODE_DUMP"), 0, mbt.EnvInt("NODE_LIMIT", 0), mbt.EnvInt("NODE_STRIDE", 1), mbt.Seed(), func(n int, raw []byte) {
		var walk xWalk
		if err := json.Unmarshal(raw, &walk); err != nil {
			res.Mismatch("infra:parse", err.Error(), string(raw[:min(len(raw), 300)]))
			return
		}
		if walk.Last != nil { // compact transition format
			for _, a := range walk.Acts {
				walk.W = append(walk.W, xStep{A: a})
			}
			walk.W = append(walk.W, *walk.Last)
		}
		if len(walk.W) == 0 {
			return
		}
		from := 0
		if lastOnly || walk.Last != nil {
			from = len(walk.W) - 1
		}
		runWalk(res, w, me, &walk, from, myBid, "node:")
		if n%499 == 1 {
			var acts [][]interface{}
			for _, s := range walk.W {
				acts = append(acts, s.A)
			}
			res.Sample(map[string]interface{}{"me": me, "actions": acts, "final": walk.W[len(walk.W)-1].O.asMap()})
		}
	})
	if err != nil {
		res.Mismatch("infra:read", err.Error(), nil)
	}
	res.Set("lines", sent)
}

func min(a, b int) int {
	if a < b {
		return a
	}
	return b
}
