//go:build verif

// Package node drives real consensus nodes (consensus.ConsensusState with real BlockChain,
// staking genesis, tx pool, evidence pool, BlockExecutor and stores) under the control of
// behaviours produced by the specifications in specs/node.
package node

import (
	"fmt"
	"math/big"
	"sort"
	"sync"
	"time"

	"github.com/kardiachain/go-kardia/configs"
	"github.com/kardiachain/go-kardia/consensus"
	"github.com/kardiachain/go-kardia/kai/kaidb"
	"github.com/kardiachain/go-kardia/kai/kaidb/memorydb"
	"github.com/kardiachain/go-kardia/kai/state/cstate"
	"github.com/kardiachain/go-kardia/lib/common"
	"github.com/kardiachain/go-kardia/lib/crypto"
	"github.com/kardiachain/go-kardia/lib/log"
	"github.com/kardiachain/go-kardia/mainchain/blockchain"
	"github.com/kardiachain/go-kardia/mainchain/genesis"
	"github.com/kardiachain/go-kardia/mainchain/staking"
	stypes "github.com/kardiachain/go-kardia/mainchain/staking/types"
	"github.com/kardiachain/go-kardia/mainchain/tx_pool"
	kproto "github.com/kardiachain/go-kardia/proto/kardiachain/types"
	"github.com/kardiachain/go-kardia/types"
	"github.com/kardiachain/go-kardia/types/evidence"
)

const ChainID = "verif"

var genesisOnce sync.Once

func mkGenesis() *genesis.Genesis {
	initValue, _ := big.NewInt(0).SetString("10000000000000000", 10)
	accts := map[string]*big.Int{"0xc1fe56E3F58D3244F606306611a5d10c8333f1f6": initValue}
	genesisOnce.Do(func() {
		configs.AddDefaultContract()
		for key, c := range configs.GetContracts() {
			configs.LoadGenesisContract(key, c.Address, c.ByteCode, c.ABI)
		}
	})
	gc := make(map[string]string)
	for key, c := range configs.GetContracts() {
		if key != configs.StakingContractKey {
			gc[c.Address] = c.ByteCode
		}
	}
	g := genesis.DefaulTestnetFullGenesisBlock(accts, gc)
	g.Timestamp = time.Unix(1700000000, 0)
	g.ChainID = ChainID
	return g
}

// World: validator keys in validator-set order (index i of the specification = Privs[i-1]).
type World struct {
	Powers []int64
	Privs  []*types.DefaultPrivValidator
	Vals   []*types.Validator
	// Plan[k] = the validator list (power per validator identity, 0 = not in the list) the application reports when
	// block k is executed; the block executor turns it into validator updates that are in force from height k+2
	// (cstate.updateState).  nil: static set.
	Plan map[uint64][]int64

	setsMu sync.Mutex
	sets   []*types.ValidatorSet // sets[h] = validator set of height h as updateState evolves it (index 0 unused)
}

// NewWorld builds n validators; powers must be non-increasing so that sorting the keys by
// address gives the order of types.ValidatorSet (power desc, address asc).
func NewWorld(powers []int64) *World {
	w := &World{Powers: powers}
	for i := range powers {
		k, _ := crypto.ToECDSA(crypto.Keccak256([]byte(fmt.Sprintf("verif-node-%d", i))))
		w.Privs = append(w.Privs, types.NewDefaultPrivValidator(k))
	}
	sort.Slice(w.Privs, func(a, b int) bool {
		return string(w.Privs[a].GetAddress().Bytes()) < string(w.Privs[b].GetAddress().Bytes())
	})
	for i, p := range powers {
		w.Vals = append(w.Vals, types.NewValidator(w.Privs[i].GetAddress(), p))
	}
	vs := types.NewValidatorSet(w.Vals)
	for i := range powers {
		if !vs.Validators[i].Address.Equal(w.Privs[i].GetAddress()) {
			panic("validator order assumption broken")
		}
	}
	return w
}

func (w *World) ValSet() *types.ValidatorSet { return types.NewValidatorSet(w.Vals) }

// SetAt returns (a copy of) the validator set of height h, priorities included, evolved the way
// cstate.updateState does: set(k+2) = Increment(Update(Copy(set(k+1)), updates of block k), 1).
func (w *World) SetAt(h int) *types.ValidatorSet {
	w.setsMu.Lock()
	defer w.setsMu.Unlock()
	if len(w.sets) == 0 {
		vs := w.ValSet()
		w.sets = []*types.ValidatorSet{nil, vs, vs.CopyIncrementProposerPriority(1)}
	}
	for len(w.sets) <= h {
		k := uint64(len(w.sets) - 2) // the block whose execution decides this set
		n := w.sets[len(w.sets)-1].Copy()
		if plan := w.Plan[k]; plan != nil {
			// cstate.calculateValidatorSetUpdates: changed or new entries, and power 0 for whoever is missing
			last := map[common.Address]int64{}
			for _, v := range n.Validators {
				last[v.Address] = v.VotingPower
			}
			var ups []*types.Validator
			for i, pw := range plan {
				addr := w.Privs[i].GetAddress()
				if pw > 0 {
					if old, ok := last[addr]; !ok || old != pw {
						ups = append(ups, types.NewValidator(addr, pw))
					}
					delete(last, addr)
				}
			}
			for addr := range last {
				ups = append(ups, types.NewValidator(addr, 0))
			}
			if len(ups) > 0 {
				if err := n.UpdateWithChangeSet(ups); err != nil {
					panic(fmt.Sprintf("plan of block %d: %v", k, err))
				}
			}
		}
		n.IncrementProposerPriority(1)
		w.sets = append(w.sets, n)
	}
	return w.sets[h].Copy()
}

// IDOf: validator identity (1-based index into Privs) of an address, 0 if unknown.
func (w *World) IDOf(a common.Address) int {
	for i, p := range w.Privs {
		if p.GetAddress().Equal(a) {
			return i + 1
		}
	}
	return 0
}

// IndexAt: position of validator id in the set of height h, -1 if it is not a member.
func (w *World) IndexAt(h uint64, id int) int {
	if w.Plan == nil {
		return id - 1
	}
	idx, v := w.SetAt(int(h)).GetByAddress(w.Privs[id-1].GetAddress())
	if v == nil {
		return -1
	}
	return int(idx)
}

// PowersAt: power of every validator identity at height h (0: not a member).
func (w *World) PowersAt(h int) []int64 {
	out := make([]int64, len(w.Privs))
	vs := w.SetAt(h)
	for i, p := range w.Privs {
		if _, v := vs.GetByAddress(p.GetAddress()); v != nil {
			out[i] = v.VotingPower
		}
	}
	return out
}

// ProposerTable[h-1][r-1] = identity of the proposer of round r at height h.
func (w *World) ProposerTable(maxH, maxR int) [][]int {
	out := make([][]int, maxH)
	for h := 1; h <= maxH; h++ {
		out[h-1] = make([]int, maxR)
		vs := w.SetAt(h)
		for r := 1; r <= maxR; r++ {
			out[h-1][r-1] = w.IDOf(vs.GetProposer().Address)
			vs.IncrementProposerPriority(1)
		}
	}
	return out
}

// planOps makes the application report World.Plan (it stands for a deterministic application: every node gets it)
type planOps struct {
	BlockOps
	w *World
}

func (o *planOps) CommitAndValidateBlockTxs(b *types.Block, lci stypes.LastCommitInfo, byz []stypes.Evidence) ([]*types.Validator, common.Hash, error) {
	vals, app, err := o.BlockOps.CommitAndValidateBlockTxs(b, lci, byz)
	if plan := o.w.Plan[b.Height()]; err == nil && plan != nil {
		vals = nil
		for i, pw := range plan {
			if pw > 0 {
				vals = append(vals, types.NewValidator(o.w.Privs[i].GetAddress(), pw))
			}
		}
	}
	return vals, app, err
}

// SignLog wraps a PrivValidator and records every signature request.
type SignReq struct {
	Kind  string // "vote" | "proposal"
	Type  int
	H     uint64
	R     uint32
	Hash  common.Hash
	Parts common.Hash
	Pol   uint32
}
type SignLog struct {
	types.PrivValidator
	mu   sync.Mutex
	Reqs []SignReq
}

func (s *SignLog) SignVote(chainID string, v *kproto.Vote) error {
	s.mu.Lock()
	s.Reqs = append(s.Reqs, SignReq{Kind: "vote", Type: int(v.Type), H: v.Height, R: v.Round,
		Hash: common.BytesToHash(v.BlockID.Hash), Parts: common.BytesToHash(v.BlockID.PartSetHeader.Hash)})
	s.mu.Unlock()
	return s.PrivValidator.SignVote(chainID, v)
}
func (s *SignLog) SignProposal(chainID string, p *kproto.Proposal) error {
	s.mu.Lock()
	s.Reqs = append(s.Reqs, SignReq{Kind: "proposal", H: p.Height, R: p.Round, Hash: common.BytesToHash(p.BlockID.Hash), Pol: p.PolRound})
	s.mu.Unlock()
	return s.PrivValidator.SignProposal(chainID, p)
}
func (s *SignLog) Take() []SignReq {
	s.mu.Lock()
	defer s.mu.Unlock()
	r := s.Reqs
	s.Reqs = nil
	return r
}

// Node is one real consensus node with its stores.
type Node struct {
	ID     int // 1-based validator index (0: not a validator)
	CS     *consensus.ConsensusState
	BO     *blockchain.BlockOperations
	BE     *cstate.BlockExecutor
	Ops    BlockOps // what the consensus state and the block executor were given (BO behind the interposers)
	BC     *blockchain.BlockChain
	EvPool *evidence.Pool
	Store  cstate.Store
	DB     kaidb.Database
	Sign   *SignLog
	Sched  []consensus.VerifTimeout // every ScheduleTimeout call since the last Take
	Bus    *types.EventBus
	TxPool *tx_pool.TxPool
}

// BlockOps is what both the consensus state and the block executor need from the chain.
type BlockOps interface {
	consensus.BaseBlockOperations
	cstate.BlockStore
}

// Opts configures BuildNode.
type Opts struct {
	DB      kaidb.Database                                // nil: fresh memorydb
	Fresh   bool                                          // save the genesis consensus state first (else load from DB)
	Cache   *blockchain.CacheConfig                       // nil: the chain's default (recent state kept in memory)
	WrapBO  func(bo *blockchain.BlockOperations) BlockOps // optional interposer (crash injection, recording)
	RootDir string                                        // consensus root dir (the WAL lives in <RootDir>/cs.wal/wal)
	Priv    types.PrivValidator                           // optional wrapper around the validator key
	WaitTxs bool                                          // the default configuration's CreateEmptyBlocksInterval > 0: round 1 is proposed on the NewRound timeout
}

// BuildNode constructs a node the way mainchain/backend.go wires it.
func BuildNode(w *World, id int, o Opts) (*Node, error) {
	db, fresh, cache := o.DB, o.Fresh, o.Cache
	if db == nil {
		db = memorydb.New()
		if fresh {
			// start from a copy of a database that already holds the committed genesis block
			if err := cloneGenesisDB(db); err != nil {
				return nil, err
			}
		}
	}
	g := mkGenesis()
	bc, err := blockchain.NewBlockChain(db, cache, g)
	if err != nil {
		return nil, err
	}
	store := cstate.NewStore(db)
	var st cstate.LatestBlockState
	genesisState := func() cstate.LatestBlockState {
		vs := w.ValSet()
		gs := cstate.LatestBlockState{
			ChainID: ChainID, InitialHeight: 1, LastBlockHeight: 0, LastBlockID: types.BlockID{},
			LastBlockTime: g.Timestamp, Validators: vs, NextValidators: vs.CopyIncrementProposerPriority(1),
			LastHeightValidatorsChanged: 1, ConsensusParams: *configs.DefaultConsensusParams(), LastHeightConsensusParamsChanged: 1,
		}
		// (AppHash stays zero, as cstate.MakeGenesisState leaves it)
		return gs
	}
	if fresh {
		st = genesisState()
		store.Save(st)
	} else {
		// mainchain/backend.go: LoadStateFromDBOrGenesisDoc — an empty store means "start from the genesis state"
		st = store.Load()
		if st.IsEmpty() {
			st = genesisState()
			store.Save(st)
		}
	}
	stk, err := sharedStaking()
	if err != nil {
		return nil, err
	}
	pool := tx_pool.NewTxPool(tx_pool.TxPoolConfig{GlobalSlots: 64, GlobalQueue: 64}, bc.Config(), bc)
	evp, err := evidence.NewPool(store, db, bc)
	if err != nil {
		return nil, err
	}
	bo := blockchain.NewBlockOperations(log.New(), bc, pool, evp, stk)
	var ops BlockOps = bo
	if o.WrapBO != nil {
		ops = o.WrapBO(bo)
	}
	if w.Plan != nil {
		ops = &planOps{BlockOps: ops, w: w}
	}
	be := cstate.NewBlockExecutor(store, log.New(), evp, ops)
	ccfg := configs.TestConsensusConfig()
	if o.RootDir != "" {
		ccfg.RootDir = o.RootDir
	}
	if o.WaitTxs {
		ccfg.CreateEmptyBlocksInterval = configs.DefaultConsensusConfig().CreateEmptyBlocksInterval
	}
	cs := consensus.NewConsensusState(log.New(), ccfg, st, ops, be, evp)
	nd := &Node{ID: id, CS: cs, BO: bo, BE: be, Ops: ops, BC: bc, EvPool: evp, Store: store, DB: db, TxPool: pool}
	if id > 0 {
		nd.Sign = &SignLog{PrivValidator: w.Privs[id-1]}
		cs.SetPrivValidator(nd.Sign)
	}
	eb := types.NewEventBus()
	eb.SetLogger(log.New())
	if err := eb.Start(); err != nil {
		return nil, err
	}
	nd.Bus = eb
	cs.SetEventBus(eb)
	cs.VerifSetTicker(func(ti consensus.VerifTimeout) { nd.Sched = append(nd.Sched, ti) })
	return nd, nil
}

var (
	stkOnce sync.Once
	stkUtil *staking.StakingSmcUtil
	stkErr  error

	genOnce sync.Once
	genKV   [][2][]byte
	genErr  error
)

// the staking helper only holds the parsed ABI, address and bytecode: one instance serves every node
func sharedStaking() (*staking.StakingSmcUtil, error) {
	stkOnce.Do(func() { stkUtil, stkErr = staking.NewSmcStakingUtil() })
	return stkUtil, stkErr
}

// cloneGenesisDB fills db with the key/value pairs NewBlockChain writes for the genesis block
// (computed once by the real code, then copied).
func cloneGenesisDB(db kaidb.Database) error {
	genOnce.Do(func() {
		src := memorydb.New()
		bc, err := blockchain.NewBlockChain(src, nil, mkGenesis())
		if err != nil {
			genErr = err
			return
		}
		bc.Stop()
		it := src.NewIterator(nil, nil)
		defer it.Release()
		for it.Next() {
			genKV = append(genKV, [2][]byte{append([]byte{}, it.Key()...), append([]byte{}, it.Value()...)})
		}
	})
	if genErr != nil {
		return genErr
	}
	for _, kv := range genKV {
		if err := db.Put(kv[0], kv[1]); err != nil {
			return err
		}
	}
	return nil
}

func (nd *Node) Close() {
	if nd.Bus != nil {
		nd.Bus.Stop()
	}
	if nd.TxPool != nil {
		nd.TxPool.Stop()
	}
	if nd.BC != nil {
		nd.BC.Stop()
	}
}

// TakeSched returns and clears the timeouts scheduled since the last call.
func (nd *Node) TakeSched() []consensus.VerifTimeout {
	s := nd.Sched
	nd.Sched = nil
	return s
}

// Ticker mirrors consensus/ticker.go timeoutRoutine: a newly scheduled timeout replaces the
// held one unless it is for an older (or, within a round, not later) height/round/step.
type Ticker struct {
	TI    consensus.VerifTimeout
	Armed bool
}

func (t *Ticker) Schedule(n consensus.VerifTimeout) {
	ti := t.TI
	if n.Height < ti.Height {
		return
	} else if n.Height == ti.Height {
		if n.Round < ti.Round {
			return
		} else if n.Round == ti.Round {
			if ti.Step > 0 && n.Step <= ti.Step {
				return
			}
		}
	}
	t.TI = n
	t.Armed = true
}

// SignVoteFor signs a vote of validator i (1-based) as an adversary holding its key would.
func (w *World) SignVoteFor(i int, typ kproto.SignedMsgType, h uint64, r uint32, bid types.BlockID, ts time.Time) *types.Vote {
	pos := w.IndexAt(h, i)
	if pos < 0 {
		pos = 0 // not a member at that height: any index is wrong
	}
	v := &types.Vote{ValidatorAddress: w.Privs[i-1].GetAddress(), ValidatorIndex: uint32(pos), Height: h, Round: r,
		Timestamp: ts, Type: typ, BlockID: bid}
	pv := v.ToProto()
	if err := w.Privs[i-1].SignVote(ChainID, pv); err != nil {
		panic(err)
	}
	v.Signature = pv.Signature
	return v
}

func (w *World) SignProposalFor(i int, h uint64, r uint32, pol uint32, bid types.BlockID) *types.Proposal {
	p := types.NewProposal(h, r, pol, bid)
	pp := p.ToProto()
	if err := w.Privs[i-1].SignProposal(ChainID, pp); err != nil {
		panic(err)
	}
	p.Signature = pp.Signature
	return p
}

func init() {
	log.Root().SetHandler(log.DiscardHandler())
}
