//go:build verif

package node

import (
	"encoding/json"
	"fmt"
	"math/rand"
	"os"
	"path/filepath"
	"sort"
	"strings"
	"testing"
	"time"

	"github.com/kardiachain/go-kardia/consensus"
	"github.com/kardiachain/go-kardia/kai/kaidb"
	"github.com/kardiachain/go-kardia/kai/kaidb/memorydb"
	"github.com/kardiachain/go-kardia/lib/common"
	"github.com/kardiachain/go-kardia/lib/crypto"
	"github.com/kardiachain/go-kardia/lib/p2p"
	kproto "github.com/kardiachain/go-kardia/proto/kardiachain/types"
	"github.com/kardiachain/go-kardia/types"

	"verifharness/internal/mbt"
)

type J = map[string]interface{}

// ---- network of real nodes driven by one single-threaded scheduler ----
type netNode struct {
	*Node
	tick Ticker
	// restartable nodes run the REAL receive routine (gated: it takes one input per release) with the real
	// file WAL, on a database and a directory that survive the process
	g    *gated
	db   kaidb.Database
	root string
}
type flight struct {
	to, from int // validator indices (1-based); from == to: the node's own message
	msg      consensus.Message
	abs      J // abstract form for the trace
}
type netSim struct {
	w        *World
	rng      *rand.Rand
	nodes    map[int]*netNode // correct validators by index
	byz      []int            // Byzantine validator indices (played by the driver)
	q        []flight
	names    map[uint64]map[common.Hash]string // height -> block hash -> name
	pnames   map[common.Hash]string            // part-set header hash -> name
	ids      map[string]types.BlockID          // name -> block id
	parts    map[string][]*types.Part          // name -> parts (for Byzantine blocks)
	counter  map[uint64]int
	trace    []J
	order    []int // node number (1..len(nodes)) in the trace -> validator index
	nodeNo   map[int]int
	steps    int
	abort    string
	byzSent  map[string]bool
	maj23    bool // gossip of majority claims (VoteSetMaj23 / VoteSetBits) enabled
	cut      int  // trace length when the first majority claim was delivered (-1: none); the trace is validated up to here
	claimed  map[string]bool
	restarts int // restarts done so far
	walDir   string
	waitTxs  bool
}

func (s *netSim) nameBlock(h uint64, id types.BlockID, prefix string) string {
	if id.Hash.IsZero() {
		return "nil"
	}
	if s.names[h] == nil {
		s.names[h] = map[common.Hash]string{}
	}
	if n, ok := s.names[h][id.Hash]; ok {
		return n
	}
	s.counter[h]++
	n := fmt.Sprintf("%s%d_%d", prefix, h, s.counter[h])
	s.names[h][id.Hash] = n
	s.pnames[id.PartsHeader.Hash] = n
	s.ids[n] = id
	return n
}
func (s *netSim) nameOf(h uint64, hash common.Hash) string {
	if hash.IsZero() {
		return "nil"
	}
	if n, ok := s.names[h][hash]; ok {
		return n
	}
	return "?" + hash.Hex()[2:10]
}

// abstract form of a real message (from = validator index of the sender)
func (s *netSim) abstract(m consensus.Message, from int, own bool) J {
	peer := from
	if own {
		peer = 0
	}
	switch mm := m.(type) {
	case *consensus.ProposalMessage:
		p := mm.Proposal
		// the signer is whoever's key verifies the signature (a proposal may be forwarded by anybody)
		signer := 0
		sb := types.ProposalSignBytes(ChainID, p.ToProto())
		for i, pv := range s.w.Privs {
			if types.VerifySignature(pv.GetAddress(), crypto.Keccak256(sb), p.Signature) {
				signer = i + 1
			}
		}
		return J{"k": "proposal", "h": p.Height, "r": p.Round, "pol": p.POLRound, "bid": s.nameBlock(p.Height, p.POLBlockID, "b"), "i": signer, "sigOK": signer > 0}
	case *consensus.BlockPartMessage:
		name := "?"
		// a part proves itself against exactly one part-set header: find it by trying the known ones
		for hh, nme := range s.pnames {
			if mm.Part.Proof.Verify(hh.Bytes(), mm.Part.Bytes) == nil && uint64(mm.Part.Index) == uint64(mm.Part.Proof.Index) {
				name = nme
			}
		}
		return J{"k": "part", "h": mm.Height, "r": mm.Round, "bid": name}
	case *consensus.VoteMessage:
		v := mm.Vote
		// identity of the signer (its key); the vote is acceptable if that validator is a member of the set of the
		// vote's height and names its position there
		id := s.w.IDOf(v.ValidatorAddress)
		ok := id > 0 && s.w.IndexAt(v.Height, id) == int(v.ValidatorIndex)
		return J{"k": "vote", "type": int(v.Type), "h": v.Height, "r": v.Round, "bid": s.nameOf(v.Height, v.BlockID.Hash), "i": id, "ok": ok, "peer": peer}
	}
	return nil
}

func (s *netSim) projNode(nd *netNode) J {
	rs := nd.CS.GetRoundState()
	n := len(s.w.Privs)
	h := rs.Height
	blk := func(b *types.Block) string {
		if b == nil {
			return "none"
		}
		return s.nameOf(b.Height(), b.Hash())
	}
	vlist := func(vs *types.VoteSet, hh uint64) []string {
		out := make([]string, n)
		for i := 0; i < n; i++ {
			out[i] = "none"
			if vs != nil {
				if pos := s.w.IndexAt(hh, i+1); pos >= 0 && pos < vs.Size() {
					if v := vs.GetByIndex(uint32(pos)); v != nil {
						out[i] = s.nameOf(hh, v.BlockID.Hash)
					}
				}
			}
		}
		return out
	}
	votes := []J{}
	for r := 0; r <= int(rs.Round)+40; r++ {
		if pv := rs.Votes.Prevotes(uint32(r)); pv != nil {
			votes = append(votes, J{"r": r, "pv": vlist(pv, h), "pc": vlist(rs.Votes.Precommits(uint32(r)), h)})
		}
	}
	pparts := "none"
	if rs.ProposalBlockParts != nil {
		pparts = "?"
		if nme, ok := s.pnames[rs.ProposalBlockParts.Header().Hash]; ok {
			pparts = nme
		}
	}
	pol := uint32(0)
	if rs.Proposal != nil {
		pol = rs.Proposal.POLRound
	}
	return J{"h": rs.Height, "r": rs.Round, "step": int(rs.Step), "hasProp": rs.Proposal != nil, "pol": pol,
		"pblock": blk(rs.ProposalBlock), "pparts": pparts,
		"lockedR": rs.LockedRound, "lockedB": blk(rs.LockedBlock), "validR": rs.ValidRound, "validB": blk(rs.ValidBlock),
		"commitR": rs.CommitRound, "ttp": rs.TriggeredTimeoutPrecommit, "votes": votes, "last": vlist(rs.LastCommit, h-1)}
}

// after one handler call at nd: broadcast its new own messages, update its ticker, log the event
func (s *netSim) after(nd *netNode, ev J) {
	outs := []J{}
	newBid := "none"
	for _, m := range nd.CS.VerifDrainInternal() {
		switch mm := m.(type) {
		case *consensus.ProposalMessage:
			// the block the node proposes (the specification ignores it when the node re-proposes a valid block)
			newBid = s.nameBlock(mm.Proposal.Height, mm.Proposal.POLBlockID, "b")
		case *consensus.BlockPartMessage:
			if mm.Part.Proof.Total != 1 {
				s.abort = "multi-part block"
			}
		}
		a := s.abstract(m, nd.ID, true)
		switch a["k"] {
		case "proposal":
			outs = append(outs, J{"o": "proposal", "h": a["h"], "r": a["r"], "pol": a["pol"], "bid": a["bid"], "i": a["i"]})
		case "part":
			outs = append(outs, J{"o": "part", "h": a["h"], "r": a["r"], "bid": a["bid"]})
		case "vote":
			outs = append(outs, J{"o": "vote", "type": a["type"], "h": a["h"], "r": a["r"], "bid": a["bid"], "i": a["i"]})
		}
		for _, to := range s.order {
			// what a node signs again while it replays its WAL only sits in its internal queue: the reactor publishes
			// from the round state (the ORIGINAL proposal and votes restored by the replay), never from that queue
			if ev["k"] == "restart" && to != nd.ID {
				continue
			}
			s.q = append(s.q, flight{to: to, from: nd.ID, msg: m})
		}
	}
	touts := []J{}
	for _, ti := range nd.TakeSched() {
		nd.tick.Schedule(ti)
		touts = append(touts, J{"o": "timeout", "h": ti.Height, "r": ti.Round, "step": int(ti.Step)})
	}
	ev["n"] = s.nodeNo[nd.ID]
	ev["newBid"] = newBid
	ev["post"] = s.projNode(nd)
	ev["out"] = outs
	ev["touts"] = touts
	s.trace = append(s.trace, ev)
	s.steps++
}

func (s *netSim) deliver(f flight) {
	nd := s.nodes[f.to]
	own := f.from == f.to
	peer := p2p.ID("")
	if !own {
		peer = p2p.ID(fmt.Sprintf("n%d", f.from))
	}
	abs := f.abs
	if abs == nil {
		abs = s.abstract(f.msg, f.from, own)
	}
	if nd.g != nil {
		s.gatedStep(nd, func() {
			if own {
				nd.CS.VerifInjectInternal(f.msg)
			} else {
				nd.CS.VerifInjectPeer(f.msg, peer)
			}
		})
	} else {
		nd.CS.VerifHandleMsg(f.msg, peer)
	}
	s.after(nd, J{"k": "msg", "m": abs})
}

// gatedStep: the node's real receive routine takes exactly one input (writes it to the WAL, handles it) and parks again
func (s *netSim) gatedStep(nd *netNode, inject func()) {
	inject()
	nd.g.release <- struct{}{}
	select {
	case <-nd.g.arrive:
	case <-nd.CS.VerifDone():
		nd.g.isGated = false
		panic(fmt.Sprintf("the receive routine of validator %d ended (CONSENSUS FAILURE)", nd.ID))
	case <-time.After(60 * time.Second):
		panic("gated node hung")
	}
}

func startGatedNode(g *gated) error {
	gateMu.Lock()
	gateMap[g.CS] = g
	gateMu.Unlock()
	g.isGated = true
	if err := g.CS.Start(); err != nil {
		return err
	}
	select {
	case <-g.arrive:
	case <-time.After(60 * time.Second):
		return fmt.Errorf("gated node did not reach its receive loop")
	}
	return nil
}

func stopGatedNode(g *gated) {
	g.isGated = false
	select {
	case g.release <- struct{}{}:
	default:
	}
	started := g.CS.IsRunning()
	g.CS.Stop()
	if started {
		// the receive routine stops the WAL (flushing it) on its way out
		select {
		case <-g.CS.VerifDone():
		case <-time.After(10 * time.Second):
		}
	}
	gateMu.Lock()
	delete(gateMap, g.CS)
	gateMu.Unlock()
	g.Close()
}

// restart: the process of nd stops between two handler calls; a new one is built on the surviving database and
// WAL directory the way the node starts (load state, open the WAL, catchupReplay, receive routine).
func (s *netSim) restart(nd *netNode) {
	stopGatedNode(nd.g)
	n2, err := BuildNode(s.w, nd.ID, Opts{DB: nd.db, Fresh: false, Cache: cacheFor("flush"), RootDir: nd.root, WaitTxs: s.waitTxs})
	if err != nil {
		panic(fmt.Sprintf("validator %d does not start after a restart: %v", nd.ID, err))
	}
	g2 := newGated(n2)
	nd.Node, nd.g, nd.tick = n2, g2, Ticker{}
	if err := startGatedNode(g2); err != nil {
		panic(fmt.Sprintf("validator %d does not start after a restart: %v", nd.ID, err))
	}
	s.restarts++
	s.after(nd, J{"k": "restart"})
}

func (s *netSim) fire(nd *netNode) {
	ti := nd.tick.TI
	nd.tick.Armed = false
	if nd.g != nil {
		s.gatedStep(nd, func() { nd.CS.VerifFireTimeout(ti) })
	} else {
		nd.CS.VerifHandleTimeout(ti)
	}
	s.after(nd, J{"k": "timeout", "ti": J{"h": ti.Height, "r": ti.Round, "step": int(ti.Step)}})
}

// Byzantine validator b does something to node `to`: an equivocating / arbitrary vote, or a proposal
func (s *netSim) byzAct(b int) {
	// pick a target and look at its state
	var targets []int
	for i := range s.nodes {
		targets = append(targets, i)
	}
	sort.Ints(targets)
	to := targets[s.rng.Intn(len(targets))]
	nd := s.nodes[to]
	rs := nd.CS.GetRoundState()
	h := rs.Height
	if s.w.IndexAt(h, b) < 0 && !(h > 1 && s.w.IndexAt(h-1, b) >= 0) {
		return // not a validator at this height (nor at the previous one)
	}
	// candidate block ids at this height
	var cands []string
	for _, n := range s.names[h] {
		cands = append(cands, n)
	}
	sort.Strings(cands)
	cands = append(cands, "nil")
	if h > 1 && rs.LastCommit != nil && s.rng.Intn(6) == 0 && s.w.IndexAt(h-1, b) >= 0 {
		// a LATE precommit for the previous height (handled through cs.LastCommit while the node is in NewHeight):
		// for the committed block, for nil or for another block - also by a validator that has left the set since
		var prev []string
		for _, n := range s.names[h-1] {
			prev = append(prev, n)
		}
		sort.Strings(prev)
		prev = append(prev, "nil")
		name := prev[s.rng.Intn(len(prev))]
		key := fmt.Sprintf("late/%d/%d/%s/%d", b, h-1, name, to)
		if s.byzSent[key] {
			return
		}
		s.byzSent[key] = true
		id := types.BlockID{}
		if name != "nil" {
			id = s.ids[name]
		}
		v := s.w.SignVoteFor(b, kproto.PrecommitType, h-1, rs.LastCommit.GetRound(), id, time.Now())
		s.deliver(flight{to: to, from: b, msg: &consensus.VoteMessage{Vote: v}})
		return
	}
	if s.w.IndexAt(h, b) < 0 {
		return
	}
	if s.rng.Intn(14) == 0 && s.steps > 150 {
		// FALSE MAJORITY CLAIM + duplicates: the Byzantine validator, as a peer, claims +2/3 precommits for one of ITS OWN
		// (valid) blocks, sends nil first, then its conflicting precommit for that block several times, and the block
		// part.  A vote set counts a validator once however often and with whichever votes it comes; if it did not, the
		// victim would see a majority nobody else sees and commit another block than the rest (agreement of the stores).
		// (Majority claims change the vote-set semantics the trace specification models: the trace is cut here.)
		var own []string
		for n := range s.parts {
			if strings.HasPrefix(n, "z") && s.ids[n].Hash != (common.Hash{}) {
				if _, ok := s.names[h][s.ids[n].Hash]; ok {
					own = append(own, n)
				}
			}
		}
		sort.Strings(own)
		if len(own) > 0 {
			name := own[s.rng.Intn(len(own))]
			key := fmt.Sprintf("claim/%d/%d/%d/%d", b, h, rs.Round, to)
			if !s.byzSent[key] {
				s.byzSent[key] = true
				if s.cut < 0 {
					s.cut = len(s.trace)
				}
				nd.CS.VerifSetPeerMaj23(h, rs.Round, kproto.PrecommitType, p2p.ID(fmt.Sprintf("n%d", b)), s.ids[name])
				vn := s.w.SignVoteFor(b, kproto.PrecommitType, h, rs.Round, types.BlockID{}, time.Now())
				s.deliver(flight{to: to, from: b, msg: &consensus.VoteMessage{Vote: vn}})
				vb := s.w.SignVoteFor(b, kproto.PrecommitType, h, rs.Round, s.ids[name], time.Now())
				for k := 0; k < 4; k++ {
					s.deliver(flight{to: to, from: b, msg: &consensus.VoteMessage{Vote: vb.Copy()}})
				}
				s.deliver(flight{to: to, from: b, msg: &consensus.BlockPartMessage{Height: h, Round: rs.Round, Part: s.parts[name][0]},
					abs: J{"k": "part", "h": h, "r": rs.Round, "bid": name}})
				return
			}
		}
	}
	if s.rng.Intn(5) == 0 && len(cands) > 1 {
		// SPLIT vote: nil to one victim, a block to everybody else (same type and round).  The others may reach +2/3
		// with the Byzantine vote and move on; the victim later holds the Byzantine validator's OTHER vote first and
		// can only complete the majority through a peer's majority claim (VoteSet.SetPeerMaj23)
		name := cands[s.rng.Intn(len(cands)-1)] // a block, not "nil" (which is last)
		if rs.ProposalBlock != nil {
			if n := s.nameOf(h, rs.ProposalBlock.Hash()); s.ids[n].Hash != (common.Hash{}) {
				name = n
			}
		}
		typ := kproto.PrecommitType
		if s.rng.Intn(3) == 0 {
			typ = kproto.PrevoteType
		}
		key := fmt.Sprintf("split/%d/%d/%d/%d", b, typ, h, rs.Round)
		if s.byzSent[key] {
			return
		}
		s.byzSent[key] = true
		vb := s.w.SignVoteFor(b, typ, h, rs.Round, s.ids[name], time.Now())
		for _, other := range s.order {
			if other != to {
				s.q = append(s.q, flight{to: other, from: b, msg: &consensus.VoteMessage{Vote: vb.Copy()}})
			}
		}
		vn := s.w.SignVoteFor(b, typ, h, rs.Round, types.BlockID{}, time.Now())
		s.deliver(flight{to: to, from: b, msg: &consensus.VoteMessage{Vote: vn}})
		return
	}
	switch s.rng.Intn(4) {
	case 0, 1, 2: // a vote, possibly conflicting with what it told others
		name := cands[s.rng.Intn(len(cands))]
		typ := kproto.PrevoteType
		if s.rng.Intn(2) == 0 {
			typ = kproto.PrecommitType
		}
		r := rs.Round
		if k := s.rng.Intn(6); k == 0 && r > 1 {
			r--
		} else if k == 1 {
			r++
		}
		key := fmt.Sprintf("%d/%d/%d/%d/%s/%d", b, typ, h, r, name, to)
		if s.byzSent[key] {
			return
		}
		s.byzSent[key] = true
		id := types.BlockID{}
		if name != "nil" {
			id = s.ids[name]
		}
		v := s.w.SignVoteFor(b, typ, h, r, id, time.Now())
		if n := rs.Validators.Size(); s.rng.Intn(6) == 0 && n > 1 {
			// SLOT STUFFING: its own address and valid signature, but the position of another validator (one validator
			// filling several slots of a vote set would reach +2/3 alone); abstracted as an invalid vote
			v.ValidatorIndex = (v.ValidatorIndex + 1 + uint32(s.rng.Intn(n-1))) % uint32(n)
		}
		s.deliver(flight{to: to, from: b, msg: &consensus.VoteMessage{Vote: v}})
	case 3: // a proposal if it is the proposer of the target's round: two different blocks for different nodes
		if s.w.IDOf(rs.Validators.GetProposer().Address) != b || rs.Proposal != nil {
			return
		}
		good, _ := nd.CS.VerifCreateProposalBlock()
		if good == nil {
			return
		}
		variant := s.rng.Intn(3)
		hd := good.Header()
		lc := good.LastCommit().Copy()
		hd.LastCommitHash = common.Hash{}
		prefix := "z"
		switch variant {
		case 0:
			hd.ProposerAddress = s.w.Privs[b-1].GetAddress()
		case 1:
			hd.ProposerAddress = s.w.Privs[(b)%len(s.w.Privs)].GetAddress()
		case 2:
			hd.ProposerAddress = s.w.Privs[b-1].GetAddress()
			hd.AppHash = common.BytesToHash([]byte{0xee})
			prefix = "X"
		}
		blk := types.NewBlock(hd, good.Transactions(), lc, nil, hasher())
		ps := blk.MakePartSet(types.BlockPartSizeBytes)
		if ps.Total() != 1 {
			s.abort = "multi-part block"
			return
		}
		id := types.BlockID{Hash: blk.Hash(), PartsHeader: ps.Header()}
		var name string
		if prefix == "X" {
			// invalid blocks use the pre-announced names X<h>_<k>
			if s.names[h] == nil {
				s.names[h] = map[common.Hash]string{}
			}
			if n, ok := s.names[h][id.Hash]; ok {
				name = n
			} else {
				k := 1
				for ; k <= 3; k++ {
					if _, used := s.ids[fmt.Sprintf("X%d_%d", h, k)]; !used {
						break
					}
				}
				if k > 3 || h > 9 {
					return
				}
				name = fmt.Sprintf("X%d_%d", h, k)
				s.names[h][id.Hash] = name
				s.pnames[id.PartsHeader.Hash] = name
				s.ids[name] = id
			}
		} else {
			name = s.nameBlock(h, id, prefix)
		}
		s.parts[name] = []*types.Part{ps.GetPart(0)}
		pol := uint32(0)
		if rs.Round > 1 && s.rng.Intn(3) == 0 {
			pol = uint32(1 + s.rng.Intn(int(rs.Round-1)))
		}
		prop := s.w.SignProposalFor(b, h, rs.Round, pol, id)
		s.deliver(flight{to: to, from: b, msg: &consensus.ProposalMessage{Proposal: prop},
			abs: J{"k": "proposal", "h": h, "r": rs.Round, "pol": pol, "bid": name, "i": b, "sigOK": true}})
		if s.rng.Intn(4) != 0 {
			s.deliver(flight{to: to, from: b, msg: &consensus.BlockPartMessage{Height: h, Round: rs.Round, Part: ps.GetPart(0)},
				abs: J{"k": "part", "h": h, "r": rs.Round, "bid": name}})
		}
	}
}

type netCfg struct {
	powers     []int64
	byz        []int
	maxH       uint64
	maxSteps   int
	dropPct    int
	reorderPct int
	earlyPct   int // probability (in 1/1000) of firing a timer while messages are deliverable
	byzPct     int
	restarts   int                // at most this many restarts of correct nodes in the adversarial phase (> 0: every node is gated)
	restartPct int                // probability (in 1/1000) per scheduler step
	waitTxs    bool               // default configuration: CreateEmptyBlocksInterval > 0
	plan       map[uint64][]int64 // validator-set changes (World.Plan)
}

func newNetSim(cfg netCfg, seed int64, walDir string) (*netSim, error) {
	os.RemoveAll(walDir) // a log left by an earlier process would be continued (and its #ENDHEIGHT markers stop the replay)
	w := NewWorld(cfg.powers)
	w.Plan = cfg.plan
	s := &netSim{w: w, rng: rand.New(rand.NewSource(seed)), nodes: map[int]*netNode{}, byz: cfg.byz,
		names: map[uint64]map[common.Hash]string{}, pnames: map[common.Hash]string{}, ids: map[string]types.BlockID{},
		parts: map[string][]*types.Part{}, counter: map[uint64]int{}, nodeNo: map[int]int{}, byzSent: map[string]bool{},
		cut: -1, claimed: map[string]bool{}, waitTxs: cfg.waitTxs}
	isByz := map[int]bool{}
	for _, b := range cfg.byz {
		isByz[b] = true
	}
	for i := 1; i <= len(cfg.powers); i++ {
		if isByz[i] {
			continue
		}
		o := Opts{Fresh: true, WaitTxs: cfg.waitTxs}
		nn := &netNode{}
		if cfg.restarts > 0 {
			db := memorydb.New()
			if err := cloneGenesisDB(db); err != nil {
				return nil, err
			}
			nn.db, nn.root = db, filepath.Join(walDir, fmt.Sprintf("n%d", i))
			o = Opts{DB: db, Fresh: true, Cache: cacheFor("flush"), RootDir: nn.root, WaitTxs: cfg.waitTxs}
		}
		nd, err := BuildNode(w, i, o)
		if err != nil {
			return nil, err
		}
		nn.Node = nd
		if cfg.restarts > 0 {
			nn.g = newGated(nd)
		}
		s.nodes[i] = nn
		s.order = append(s.order, i)
		s.nodeNo[i] = len(s.order)
	}
	return s, nil
}

func (s *netSim) close() {
	for _, nd := range s.nodes {
		if nd.g != nil {
			stopGatedNode(nd.g)
		} else {
			nd.Close()
		}
	}
}

func (s *netSim) header(maxH, maxR int) J {
	pw := [][]int64{}
	for h := 1; h <= maxH+1; h++ {
		pw = append(pw, s.w.PowersAt(h))
	}
	inv := []string{}
	for h := 1; h <= 9; h++ {
		for k := 1; k <= 3; k++ {
			inv = append(inv, fmt.Sprintf("X%d_%d", h, k))
		}
	}
	return J{"t": "hdr", "n": len(s.order), "power": pw, "prop": s.w.ProposerTable(maxH, maxR), "me": s.order, "invalid": inv, "wait": s.waitTxs}
}

func (s *netSim) start() {
	for _, i := range s.order {
		nd := s.nodes[i]
		if nd.g != nil {
			if err := startGatedNode(nd.g); err != nil {
				panic(err)
			}
		} else {
			nd.CS.VerifScheduleRound0()
		}
		for _, ti := range nd.TakeSched() {
			nd.tick.Schedule(ti)
		}
		nd.Sign.Take()
	}
}

func (s *netSim) minHeight() uint64 {
	m := uint64(1 << 62)
	for _, nd := range s.nodes {
		if h := nd.CS.GetRoundState().Height; h < m {
			m = h
		}
	}
	return m
}
func (s *netSim) maxRound() uint32 {
	m := uint32(0)
	for _, nd := range s.nodes {
		if r := nd.CS.GetRoundState().Round; r > m {
			m = r
		}
	}
	return m
}

// adversarial phase: random delivery order, drops, early timeouts, Byzantine messages
func (s *netSim) runAdversarial(cfg netCfg) {
	for s.steps < cfg.maxSteps && s.abort == "" && s.minHeight() < cfg.maxH && s.maxRound() < 30 {
		if len(s.byz) > 0 && s.rng.Intn(1000) < cfg.byzPct*10 {
			s.byzAct(s.byz[s.rng.Intn(len(s.byz))])
			continue
		}
		if s.restarts < cfg.restarts && s.rng.Intn(1000) < cfg.restartPct {
			s.restart(s.nodes[s.order[s.rng.Intn(len(s.order))]])
			continue
		}
		early := s.rng.Intn(1000) < cfg.earlyPct
		if len(s.q) > 0 && !early {
			k := 0
			if s.rng.Intn(100) < cfg.reorderPct {
				k = s.rng.Intn(len(s.q))
			}
			f := s.q[k]
			s.q = append(s.q[:k], s.q[k+1:]...)
			if f.from != f.to && s.rng.Intn(100) < cfg.dropPct {
				continue
			}
			s.deliver(f)
			continue
		}
		var armed []int
		for _, i := range s.order {
			if s.nodes[i].tick.Armed {
				armed = append(armed, i)
			}
		}
		if len(s.q) == 0 && (len(armed) == 0 || s.rng.Intn(3) == 0) {
			if s.gossipOnce() > 0 || len(armed) == 0 {
				if len(s.q) == 0 {
					return
				}
				continue
			}
		}
		if len(armed) == 0 {
			continue
		}
		s.fire(s.nodes[armed[s.rng.Intn(len(armed))]])
	}
}

// gossipOnce mirrors what consensus/manager.go's gossip routines send from a to b by reading the round
// states (votes the peer lacks for its round / POL round / last commit, the proposal and block part of its
// round, and for a peer on a lower height the stored commit and block part).  Returns the number of
// messages put in flight.
func (s *netSim) gossipOnce() int {
	n := 0
	nv := len(s.w.Privs)
	send := func(from, to int, m consensus.Message) {
		s.q = append(s.q, flight{to: to, from: from, msg: m})
		n++
	}
	missing := func(src, dst *types.VoteSet, from, to int) {
		if src == nil {
			return
		}
		for i := 0; i < nv && i < src.Size(); i++ {
			v := src.GetByIndex(uint32(i))
			if v == nil {
				continue
			}
			if dst != nil && dst.GetByIndex(uint32(i)) != nil {
				continue
			}
			send(from, to, &consensus.VoteMessage{Vote: v.Copy()})
		}
	}
	// queryMaj23Routine + VoteSetBits: a tells b which block has +2/3 in a vote set; b then also accepts
	// (and a sends) votes for that block from validators whose first vote at b was for something else
	claim := func(a, b *netNode, ai, bi int, h uint64, src *types.VoteSet, id types.BlockID) {
		if !s.maj23 || src == nil {
			return
		}
		key := fmt.Sprintf("%d>%d/%d/%d/%d/%s", ai, bi, h, src.GetRound(), src.Type(), id.Hash.Hex())
		if !s.claimed[key] {
			s.claimed[key] = true
			if s.cut < 0 {
				s.cut = len(s.trace)
			}
			b.CS.VerifSetPeerMaj23(h, src.GetRound(), src.Type(), p2p.ID(fmt.Sprintf("n%d", ai)), id)
		}
		brs := b.CS.GetRoundState()
		if brs.Height != h {
			return
		}
		var dst *types.VoteSet
		if src.Type() == kproto.PrevoteType {
			dst = brs.Votes.Prevotes(src.GetRound())
		} else {
			dst = brs.Votes.Precommits(src.GetRound())
		}
		have := (*types.VoteSet)(nil)
		_ = have
		srcBits := src.BitArrayByBlockID(id)
		if srcBits == nil {
			return
		}
		for i := 0; i < nv && i < src.Size(); i++ {
			if !srcBits.GetIndex(i) {
				continue
			}
			if dst != nil {
				if ba := dst.BitArrayByBlockID(id); ba != nil && ba.GetIndex(i) {
					continue
				}
			}
			// the vote of validator i for that block, as a holds it
			var v *types.Vote
			if cv := src.GetByIndex(uint32(i)); cv != nil && cv.BlockID.Equal(id) {
				v = cv
			}
			if v != nil {
				send(ai, bi, &consensus.VoteMessage{Vote: v.Copy()})
			}
		}
	}
	for _, ai := range s.order {
		a := s.nodes[ai]
		ars := a.CS.GetRoundState()
		for _, bi := range s.order {
			if ai == bi {
				continue
			}
			b := s.nodes[bi]
			brs := b.CS.GetRoundState()
			if s.maj23 && ars.Height == brs.Height {
				for r := uint32(1); r <= ars.Round; r++ {
					for _, vs := range []*types.VoteSet{ars.Votes.Prevotes(r), ars.Votes.Precommits(r)} {
						if vs == nil {
							continue
						}
						if id, ok := vs.TwoThirdsMajority(); ok {
							claim(a, b, ai, bi, ars.Height, vs, id)
						}
					}
				}
			}
			if s.maj23 && ars.Height > brs.Height && a.BO.Height() >= brs.Height {
				if c := a.BO.LoadSeenCommit(brs.Height); c != nil {
					vs := types.CommitToVoteSet(ChainID, c, brs.Validators)
					claim(a, b, ai, bi, brs.Height, vs, c.BlockID)
				}
			}
			switch {
			case ars.Height == brs.Height:
				if brs.Step == 1 && ars.LastCommit != nil { // peer in NewHeight: last commit votes
					missing(ars.LastCommit, brs.LastCommit, ai, bi)
				}
				r := brs.Round
				missing(ars.Votes.Prevotes(r), brs.Votes.Prevotes(r), ai, bi)
				missing(ars.Votes.Precommits(r), brs.Votes.Precommits(r), ai, bi)
				if brs.Proposal != nil && brs.Proposal.POLRound >= 1 {
					pr := brs.Proposal.POLRound
					missing(ars.Votes.Prevotes(pr), brs.Votes.Prevotes(pr), ai, bi)
				}
				if ars.Round == brs.Round && ars.Proposal != nil && brs.Proposal == nil {
					send(ai, bi, &consensus.ProposalMessage{Proposal: ars.Proposal})
				}
				if ars.ProposalBlockParts != nil && brs.ProposalBlockParts != nil && !brs.ProposalBlockParts.IsComplete() &&
					ars.ProposalBlockParts.HasHeader(brs.ProposalBlockParts.Header()) && ars.ProposalBlockParts.IsComplete() {
					for k := 0; k < int(ars.ProposalBlockParts.Total()); k++ {
						send(ai, bi, &consensus.BlockPartMessage{Height: brs.Height, Round: brs.Round, Part: ars.ProposalBlockParts.GetPart(k)})
					}
				}
			case ars.Height > brs.Height && a.BO.Height() >= brs.Height:
				// catch-up: the commit of the peer's height and the block part it is waiting for
				if c := a.BO.LoadSeenCommit(brs.Height); c != nil {
					for i := 0; i < nv && i < len(c.Signatures); i++ {
						if c.Signatures[i].Absent() {
							continue
						}
						dst := brs.Votes.Precommits(c.Round)
						if dst != nil && dst.GetByIndex(uint32(i)) != nil {
							continue
						}
						send(ai, bi, &consensus.VoteMessage{Vote: c.GetVote(uint32(i))})
					}
				}
				if brs.ProposalBlockParts != nil && !brs.ProposalBlockParts.IsComplete() {
					if blk := a.BO.LoadBlock(brs.Height); blk != nil {
						ps := blk.MakePartSet(types.BlockPartSizeBytes)
						if ps.HasHeader(brs.ProposalBlockParts.Header()) {
							for k := 0; k < int(ps.Total()); k++ {
								send(ai, bi, &consensus.BlockPartMessage{Height: brs.Height, Round: brs.Round, Part: ps.GetPart(k)})
							}
						}
					}
				}
			}
		}
	}
	return n
}

// synchronous suffix (property C04): everything in flight is delivered (FIFO, no loss) before any timeout
// fires; only then the earliest timeout fires.  Returns true when every correct node passed height `until`.
func (s *netSim) runSynchronous(until uint64, maxSteps int) bool {
	start := s.steps
	// fingerprint of everything gossip can change; a gossip batch that changes nothing (e.g. votes the
	// receiver keeps refusing) must not starve the timers: "delivery reaches a fixpoint before any timeout"
	finger := func() string {
		var sb strings.Builder
		for _, i := range s.order {
			rs := s.nodes[i].CS.GetRoundState()
			fmt.Fprintf(&sb, "%d/%d/%d/%v/%v|", rs.Height, rs.Round, rs.Step, rs.Proposal != nil, rs.ProposalBlock != nil)
			for r := uint32(0); r <= rs.Round+1; r++ {
				if pv := rs.Votes.Prevotes(r); pv != nil {
					fmt.Fprintf(&sb, "%s%s", pv.BitArray().String(), rs.Votes.Precommits(r).BitArray().String())
				}
			}
			if rs.LastCommit != nil {
				sb.WriteString(rs.LastCommit.BitArray().String())
			}
		}
		return sb.String()
	}
	lastGossip := ""
	for s.steps-start < maxSteps && s.abort == "" {
		if s.minHeight() > until {
			return true
		}
		if len(s.q) > 0 {
			f := s.q[0]
			s.q = s.q[1:]
			s.deliver(f)
			continue
		}
		if fp := finger(); fp != lastGossip {
			lastGossip = fp
			if s.gossipOnce() > 0 {
				continue
			}
		}
		// nothing deliverable: the earliest armed timeout fires
		best := -1
		for _, i := range s.order {
			nd := s.nodes[i]
			if !nd.tick.Armed {
				continue
			}
			if best < 0 {
				best = i
				continue
			}
			a, b := nd.tick.TI, s.nodes[best].tick.TI
			if consensus.CompareHRS(a.Height, a.Round, a.Step, b.Height, b.Round, b.Step) < 0 {
				best = i
			}
		}
		if best < 0 {
			return s.minHeight() > until // nothing can happen any more
		}
		s.fire(s.nodes[best])
	}
	return s.minHeight() > until
}

// agreement on the real block stores
func (s *netSim) storeDisagreement() string {
	// every stored block must be justified by its stored commit: +2/3 of the validator set of that height signed it
	// (the real VerifyCommit, which C02 binds to the specification)
	for _, i := range s.order {
		nd := s.nodes[i]
		for h := uint64(1); h <= nd.BO.Height(); h++ {
			b, c := nd.BO.LoadBlock(h), nd.BO.LoadSeenCommit(h)
			if b == nil || c == nil {
				continue
			}
			id := types.BlockID{Hash: b.Hash(), PartsHeader: b.MakePartSet(types.BlockPartSizeBytes).Header()}
			if err := s.w.SetAt(int(h)).VerifyCommit(ChainID, id, h, c); err != nil {
				return fmt.Sprintf("validator %d stored block %s at height %d but the commit it stored for it does not justify it: %v", i, b.Hash().Hex()[:12], h, err)
			}
		}
	}
	maxH := uint64(0)
	for _, nd := range s.nodes {
		if h := nd.BO.Height(); h > maxH {
			maxH = h
		}
	}
	for h := uint64(1); h <= maxH; h++ {
		var ref common.Hash
		refN := 0
		for _, i := range s.order {
			nd := s.nodes[i]
			if nd.BO.Height() < h {
				continue
			}
			b := nd.BO.LoadBlock(h)
			if b == nil {
				continue
			}
			if refN == 0 {
				ref, refN = b.Hash(), i
			} else if b.Hash() != ref {
				return fmt.Sprintf("height %d: validator %d stored block %s, validator %d stored block %s", h, refN, ref.Hex()[:12], i, b.Hash().Hex()[:12])
			}
		}
	}
	return ""
}

func (s *netSim) writeTrace(path string, hdr J) error {
	f, err := os.Create(path)
	if err != nil {
		return err
	}
	defer f.Close()
	enc := json.NewEncoder(f)
	if err := enc.Encode(hdr); err != nil {
		return err
	}
	for k, e := range s.trace {
		if s.cut >= 0 && k >= s.cut {
			break // majority claims change the vote-set semantics the trace specification models (first vote wins)
		}
		if err := enc.Encode(e); err != nil {
			return err
		}
	}
	return nil
}

var netConfigs = map[string]netCfg{
	"4eq-byz":   {powers: []int64{1, 1, 1, 1}, byz: []int{4}, maxH: 4, maxSteps: 2500, dropPct: 8, reorderPct: 35, earlyPct: 25, byzPct: 6},
	"4eq-byz2":  {powers: []int64{1, 1, 1, 1}, byz: []int{2}, maxH: 3, maxSteps: 2500, dropPct: 15, reorderPct: 60, earlyPct: 40, byzPct: 10},
	"4w-byz":    {powers: []int64{3, 2, 2, 2}, byz: []int{3}, maxH: 4, maxSteps: 2500, dropPct: 8, reorderPct: 35, earlyPct: 25, byzPct: 6},
	"4eq-calm":  {powers: []int64{1, 1, 1, 1}, byz: nil, maxH: 5, maxSteps: 2500, dropPct: 3, reorderPct: 20, earlyPct: 5, byzPct: 0},
	"5w-byz":    {powers: []int64{3, 2, 2, 1, 1}, byz: []int{2}, maxH: 3, maxSteps: 3000, dropPct: 8, reorderPct: 35, earlyPct: 25, byzPct: 6},
	"7eq-byz2":  {powers: []int64{1, 1, 1, 1, 1, 1, 1}, byz: []int{3, 6}, maxH: 3, maxSteps: 4000, dropPct: 6, reorderPct: 30, earlyPct: 20, byzPct: 6},
	"5eq-byz":   {powers: []int64{1, 1, 1, 1, 1}, byz: []int{3}, maxH: 3, maxSteps: 2500, dropPct: 8, reorderPct: 35, earlyPct: 25, byzPct: 8}, // total 5: remainder 2 modulo three
	"3eq-nobyz": {powers: []int64{1, 1, 1}, byz: nil, maxH: 4, maxSteps: 2000, dropPct: 10, reorderPct: 40, earlyPct: 30, byzPct: 0},
	// validator-set changes across heights (the application's result of block k is in force from height k+2): power
	// raised, a correct validator removed and re-added with another power, the Byzantine validator's power changed
	"4eq-change": {powers: []int64{1, 1, 1, 1}, byz: []int{4}, maxH: 7, maxSteps: 4000, dropPct: 6, reorderPct: 30, earlyPct: 20, byzPct: 5,
		plan: map[uint64][]int64{1: {3, 1, 1, 1}, 2: {3, 1, 0, 1}, 3: {3, 1, 2, 1}, 4: {3, 2, 2, 2}}},
	"4eq-byz-leaves": {powers: []int64{1, 1, 1, 1, 1}, byz: []int{5}, maxH: 6, maxSteps: 3000, dropPct: 5, reorderPct: 30, earlyPct: 15, byzPct: 12,
		plan: map[uint64][]int64{1: {1, 1, 1, 1, 0}, 3: {2, 1, 1, 1, 1}}},
	"5w-change-restart": {powers: []int64{3, 2, 2, 1, 1}, byz: []int{2}, maxH: 7, maxSteps: 4000, dropPct: 6, reorderPct: 30, earlyPct: 20, byzPct: 5,
		restarts: 6, restartPct: 5,
		plan: map[uint64][]int64{1: {3, 2, 2, 1, 0}, 2: {2, 2, 2, 1, 0}, 3: {2, 2, 2, 1, 3}, 5: {3, 2, 2, 1, 1}}},
	// the default configuration (WaitForTxs with CreateEmptyBlocksInterval): round 1 waits for the NewRound timeout
	"4eq-wait":        {powers: []int64{1, 1, 1, 1}, byz: []int{4}, maxH: 4, maxSteps: 2500, dropPct: 8, reorderPct: 35, earlyPct: 25, byzPct: 6, waitTxs: true},
	"4w-wait-restart": {powers: []int64{3, 2, 2, 2}, byz: []int{3}, maxH: 5, maxSteps: 3000, dropPct: 6, reorderPct: 30, earlyPct: 20, byzPct: 5, restarts: 6, restartPct: 6, waitTxs: true},
	// restarts of correct nodes between handler calls (real receive routine, file WAL, catchupReplay)
	"4eq-restart": {powers: []int64{1, 1, 1, 1}, byz: []int{4}, maxH: 5, maxSteps: 3000, dropPct: 8, reorderPct: 35, earlyPct: 25, byzPct: 5, restarts: 6, restartPct: 6},
	"4w-restart":  {powers: []int64{3, 2, 2, 2}, byz: nil, maxH: 6, maxSteps: 3000, dropPct: 5, reorderPct: 30, earlyPct: 15, byzPct: 0, restarts: 8, restartPct: 8},
	"5w-restart":  {powers: []int64{3, 2, 2, 1, 1}, byz: []int{2}, maxH: 4, maxSteps: 3000, dropPct: 8, reorderPct: 35, earlyPct: 25, byzPct: 5, restarts: 6, restartPct: 6},
}

// TestNetRecord runs NET_RUNS seeded adversarial runs of configuration NET_CFG, each followed by a
// synchronous suffix, checks agreement of the real stores and bounded progress, and writes one trace per
// run to NET_DIR for validation by KardiaNodeTrace.
func TestNetRecord(t *testing.T) {
	res := mbt.NewResult()
	defer res.Write()
	cfgName := os.Getenv("NET_CFG")
	cfg, ok := netConfigs[cfgName]
	if !ok {
		t.Fatalf("unknown NET_CFG %q", cfgName)
	}
	runs := mbt.EnvInt("NET_RUNS", 4)
	dir := os.Getenv("NET_DIR")
	os.MkdirAll(dir, 0o755)
	var files []string
	for k := 0; k < runs; k++ {
		seed := mbt.Seed()*1000 + int64(k)
		s, err := newNetSim(cfg, seed, filepath.Join(dir, fmt.Sprintf("wal-%s-%d", cfgName, seed)))
		if err != nil {
			res.Mismatch("infra:buildnode", err.Error(), nil)
			return
		}
		s.start()
		detail := J{"cfg": cfgName, "seed": seed}
		func() {
			defer func() {
				if r := recover(); r != nil {
					res.Mismatch("net:panic:"+cfgName, fmt.Sprintf("a real node panicked in run %s/%d after %d steps: %v", cfgName, seed, s.steps, r), detail)
					s.abort = "panic"
				}
			}()
			s.runAdversarial(cfg)
			if s.abort != "" {
				return
			}
			// C04: from here on delivery is timely; every correct node must pass the current maximum height
			target := uint64(0)
			for _, nd := range s.nodes {
				if h := nd.CS.GetRoundState().Height; h > target {
					target = h
				}
			}
			startRound := s.maxRound()
			s.maj23 = true
			okLive := s.runSynchronous(target, 4000)
			if os.Getenv("NET_DEBUG") != "" && !okLive {
				for _, i := range s.order {
					p := s.projNode(s.nodes[i])
					b, _ := json.Marshal(p)
					fmt.Printf("DEBUG %s/%d node %d armed=%v ti=%+v q=%d: %s\n", cfgName, seed, i, s.nodes[i].tick.Armed, s.nodes[i].tick.TI, len(s.q), string(b))
				}
			}
			if s.abort == "" && !okLive {
				res.Mismatch("net:liveness:"+cfgName, fmt.Sprintf("run %s/%d: with timely delivery after %d adversarial steps the correct nodes did not all pass height %d within 4000 steps (round at the synchronous point %d, now %d)",
					cfgName, seed, s.steps, target, startRound, s.maxRound()), detail)
			}
			if r := s.maxRound(); okLive && false && r > startRound+3*uint32(len(cfg.powers)) {
				_ = r
			}
		}()
		if s.abort != "" && s.abort != "panic" {
			res.Add("aborted_runs", 1)
			s.close()
			continue
		}
		if d := s.storeDisagreement(); d != "" {
			res.Mismatch("net:agreement:"+cfgName, fmt.Sprintf("run %s/%d: %s", cfgName, seed, d), detail)
		}
		res.Count(s.steps)
		res.Behaviour()
		maxr := 0
		for _, e := range s.trace {
			if p, ok := e["post"].(J); ok {
				if r, ok := p["r"].(uint32); ok && int(r) > maxr {
					maxr = int(r)
				}
			}
		}
		if maxr > 1 {
			res.Distinct(fmt.Sprintf("%s/%d", cfgName, seed))
		}
		path := filepath.Join(dir, fmt.Sprintf("%s-%d.ndjson", cfgName, seed))
		if err := s.writeTrace(path, s.header(int(cfg.maxH)+3, 64)); err != nil {
			res.Mismatch("infra:tracefile", err.Error(), nil)
		}
		files = append(files, path)
		if k == 0 {
			kinds := []string{}
			for i, e := range s.trace {
				if i < 12 {
					b, _ := json.Marshal(J{"n": e["n"], "k": e["k"], "m": e["m"], "ti": e["ti"]})
					kinds = append(kinds, string(b))
				}
			}
			res.Sample(J{"cfg": cfgName, "seed": seed, "events": len(s.trace), "max_round": maxr, "first_events": kinds})
		}
		s.close()
	}
	res.Set("trace_files", files)
	_ = strings.Join
}
