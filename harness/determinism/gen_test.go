//go:build verif

// gen_test.go: a tiny assembler, the byte-code grammar and the transaction generator.
//
// Programs are straight-line sequences of statements over the scenario's accounts: value-bearing
// CALL / CALLCODE / DELEGATECALL / STATICCALL (to plain accounts, to the other contracts -- mutual
// recursion bounded by gas --, to a precompile, to the staking contract), CREATE / CREATE2 with small
// init programs, SSTORE of constants (set / clear: refunds) and of ENVIRONMENT values (block number,
// time, proposer, gas limit, previous block hash, balances, remaining GAS, caller, code hashes: anything
// a node could get wrong shows up in the state root), LOG0..LOG3, and one terminator: STOP, RETURN,
// REVERT, INVALID, an endless loop (out of gas) or SELFDESTRUCT.
package determinism

import (
	"crypto/ecdsa"
	"math/big"
	"math/rand"

	"github.com/kardiachain/go-kardia/configs"
	"github.com/kardiachain/go-kardia/lib/common"
	"github.com/kardiachain/go-kardia/mainchain/tx_pool"
	"github.com/kardiachain/go-kardia/types"
)

const (
	opSTOP         = 0x00
	opADD          = 0x01
	opSUB          = 0x03
	opADDRESS      = 0x30
	opBALANCE      = 0x31
	opORIGIN       = 0x32
	opCALLER       = 0x33
	opCALLVALUE    = 0x34
	opGASPRICE     = 0x3a
	opEXTCODESIZE  = 0x3b
	opEXTCODEHASH  = 0x3f
	opBLOCKHASH    = 0x40
	opCOINBASE     = 0x41
	opTIMESTAMP    = 0x42
	opNUMBER       = 0x43
	opDIFFICULTY   = 0x44
	opGASLIMIT     = 0x45
	opCHAINID      = 0x46
	opSELFBALANCE  = 0x47
	opPOP          = 0x50
	opMSTORE       = 0x52
	opSLOAD        = 0x54
	opSSTORE       = 0x55
	opJUMP         = 0x56
	opGAS          = 0x5a
	opJUMPDEST     = 0x5b
	opPUSH1        = 0x60
	opPUSH20       = 0x73
	opPUSH32       = 0x7f
	opLOG0         = 0xa0
	opCREATE       = 0xf0
	opCALL         = 0xf1
	opCALLCODE     = 0xf2
	opRETURN       = 0xf3
	opDELEGATECALL = 0xf4
	opCREATE2      = 0xf5
	opSTATICCALL   = 0xfa
	opREVERT       = 0xfd
	opINVALID      = 0xfe
	opSELFDESTRUCT = 0xff
)

type asm struct{ b []byte }

func (a *asm) op(o ...byte) *asm { a.b = append(a.b, o...); return a }

func (a *asm) push(v uint64) *asm {
	var tmp []byte
	for x := v; x > 0; x >>= 8 {
		tmp = append([]byte{byte(x)}, tmp...)
	}
	if len(tmp) == 0 {
		tmp = []byte{0}
	}
	a.b = append(a.b, byte(opPUSH1+len(tmp)-1))
	a.b = append(a.b, tmp...)
	return a
}

func (a *asm) pushAddr(x common.Address) *asm {
	a.b = append(a.b, opPUSH20)
	a.b = append(a.b, x.Bytes()...)
	return a
}

func (a *asm) mstoreBytes(data []byte) *asm {
	for off := 0; off < len(data); off += 32 {
		var w [32]byte
		copy(w[:], data[off:])
		a.b = append(a.b, opPUSH32)
		a.b = append(a.b, w[:]...)
		a.push(uint64(off)).op(opMSTORE)
	}
	return a
}

func (a *asm) call(op byte, to common.Address, value uint64, gas int) *asm {
	a.push(0).push(0).push(0).push(0)
	if op == opCALL || op == opCALLCODE {
		a.push(value)
	}
	a.pushAddr(to)
	if gas < 0 {
		a.op(opGAS)
	} else {
		a.push(uint64(gas))
	}
	return a.op(op, opPOP)
}

func (a *asm) create(value uint64, init []byte) *asm {
	a.mstoreBytes(init)
	return a.push(uint64(len(init))).push(0).push(value).op(opCREATE, opPOP)
}

func (a *asm) create2(value uint64, init []byte, salt uint64) *asm {
	a.mstoreBytes(init)
	return a.push(salt).push(uint64(len(init))).push(0).push(value).op(opCREATE2, opPOP)
}

func (a *asm) sstore(slot, val uint64) *asm { return a.push(val).push(slot).op(opSSTORE) }

func (a *asm) returnCode(code []byte) *asm {
	a.mstoreBytes(code)
	return a.push(uint64(len(code))).push(0).op(opRETURN)
}

// ---------------------------------------------------------------- program grammar

type gen struct {
	rng  *rand.Rand
	s    *scenario
	self int // index of the contract the program is for (-1: init code)
}

func (g *gen) amount() uint64 {
	switch g.rng.Intn(6) {
	case 0:
		return 0
	case 1:
		return 1
	case 2:
		return uint64(2 + g.rng.Intn(9))
	case 3:
		return uint64(100 + g.rng.Intn(900))
	default:
		return uint64(1 + g.rng.Intn(60))
	}
}

func (g *gen) target() common.Address {
	switch r := g.rng.Intn(14); {
	case r < 6:
		return g.s.contract[g.rng.Intn(len(g.s.contract))]
	case r < 8:
		return g.s.plain[g.rng.Intn(len(g.s.plain))]
	case r == 8:
		return g.s.valAddr[g.rng.Intn(len(g.s.valAddr))] // a proposer (coinbase) address
	case r == 9:
		return g.s.sndAddr[g.rng.Intn(len(g.s.sndAddr))]
	case r == 10:
		return common.BytesToAddress([]byte{byte(1 + g.rng.Intn(9))}) // precompiles 1..9 (some do not exist)
	case r == 11:
		return configs.StakingContractAddress
	default:
		if g.self >= 0 {
			return g.s.contract[g.self]
		}
		return g.s.contract[0]
	}
}

func (g *gen) callGas() int {
	switch g.rng.Intn(10) {
	case 0:
		return 0
	case 1:
		return 2300
	case 2:
		return 100 + g.rng.Intn(3000)
	case 3, 4, 5:
		return 20000 + g.rng.Intn(60000)
	default:
		return -1
	}
}

// env pushes one environment / state dependent value
func (g *gen) env(a *asm) {
	switch g.rng.Intn(18) {
	case 0:
		a.op(opNUMBER)
	case 1:
		a.op(opTIMESTAMP)
	case 2:
		a.op(opCOINBASE)
	case 3:
		a.op(opGASLIMIT)
	case 4:
		a.push(1).op(opNUMBER, opSUB, opBLOCKHASH) // hash of the previous block
	case 5:
		a.push(uint64(1 + g.rng.Intn(3))).op(opNUMBER, opSUB, opBLOCKHASH) // deeper (or out of range at low heights)
	case 6:
		a.pushAddr(g.target()).op(opBALANCE)
	case 7:
		a.op(opGAS)
	case 8:
		a.op(opCALLER)
	case 9:
		a.op(opORIGIN)
	case 10:
		a.op(opGASPRICE)
	case 11:
		a.pushAddr(g.target()).op(opEXTCODEHASH)
	case 12:
		a.pushAddr(g.target()).op(opEXTCODESIZE)
	case 13:
		a.op(opSELFBALANCE)
	case 14:
		a.op(opCHAINID)
	case 15:
		a.op(opDIFFICULTY)
	case 16:
		a.push(uint64(g.rng.Intn(4))).op(opSLOAD)
	default:
		a.op(opCALLVALUE)
	}
}

func (g *gen) terminator(a *asm) {
	switch r := g.rng.Intn(24); {
	case r < 10:
		a.op(opSTOP)
	case r < 13:
		a.push(0).push(0).op(opRETURN)
	case r < 15:
		a.push(0).push(0).op(opREVERT)
	case r < 17:
		a.op(opINVALID)
	case r == 17:
		pc := len(a.b)
		a.op(opJUMPDEST).push(uint64(pc)).op(opJUMP)
	case r < 21:
		a.pushAddr(g.target()).op(opSELFDESTRUCT)
	case r < 23:
		a.op(opADDRESS, opSELFDESTRUCT) // to the own address
	default:
		a.op(opSTOP)
	}
}

func (g *gen) initCode(depth int) []byte {
	a := &asm{}
	sub := &gen{rng: g.rng, s: g.s, self: -1}
	n := g.rng.Intn(3)
	for i := 0; i < n; i++ {
		sub.statement(a, depth+1)
	}
	switch r := g.rng.Intn(10); {
	case r < 5:
		rt := &asm{}
		m := g.rng.Intn(4)
		for i := 0; i < m; i++ {
			sub.statement(rt, 2)
		}
		sub.terminator(rt)
		a.returnCode(rt.b)
	case r < 7:
		a.op(opSTOP)
	default:
		sub.terminator(a)
	}
	return a.b
}

// precompileCall: an inner CALL / STATICCALL to a precompile (most often RIPEMD-160) or to an address that does not exist,
// value 0 or 1, with anything between no gas and all gas: the inner frame runs out of gas and is reverted, the outer goes on
func (g *gen) precompileCall(a *asm) {
	var to common.Address
	switch k := g.rng.Intn(10); {
	case k < 5:
		to = common.BytesToAddress([]byte{3})
	case k < 8:
		to = common.BytesToAddress([]byte{byte(1 + g.rng.Intn(9))})
	default:
		to = g.s.ghost[g.rng.Intn(len(g.s.ghost))]
	}
	gas := []int{0, 50, 100, 300, 599, 700, 2000, -1}[g.rng.Intn(8)]
	if g.rng.Intn(5) == 0 {
		a.call(opSTATICCALL, to, 0, gas)
		return
	}
	a.call(opCALL, to, uint64(g.rng.Intn(4)/3), gas)
}

func (g *gen) statement(a *asm, depth int) {
	if g.rng.Intn(12) == 0 {
		g.precompileCall(a)
		return
	}
	switch r := g.rng.Intn(24); {
	case r < 7:
		a.call(opCALL, g.target(), g.amount(), g.callGas())
	case r < 8:
		a.call(opCALLCODE, g.target(), g.amount(), g.callGas())
	case r < 9:
		a.call(opDELEGATECALL, g.target(), 0, g.callGas())
	case r < 10:
		a.call(opSTATICCALL, g.target(), 0, g.callGas())
	case r < 12:
		if depth < 2 {
			if g.rng.Intn(3) == 0 {
				a.create2(g.amount(), g.initCode(depth), uint64(g.rng.Intn(3)))
			} else {
				a.create(g.amount(), g.initCode(depth))
			}
		} else {
			a.sstore(uint64(g.rng.Intn(4)), uint64(g.rng.Intn(2)))
		}
	case r < 15:
		a.sstore(uint64(g.rng.Intn(4)), uint64(g.rng.Intn(2)*(1+g.rng.Intn(5)))) // constant: set or clear
	case r < 20:
		g.env(a) // environment value into storage
		a.push(uint64(g.rng.Intn(4))).op(opSSTORE)
	default: // LOGn: topics are environment values, data = memory[0:len]
		n := g.rng.Intn(4)
		g.env(a)
		a.push(0).op(opMSTORE)
		for i := 0; i < n; i++ {
			if g.rng.Intn(2) == 0 {
				g.env(a)
			} else {
				a.push(uint64(g.rng.Intn(1000)))
			}
		}
		a.push(uint64(g.rng.Intn(40))).push(0).op(byte(opLOG0 + n))
	}
}

func (g *gen) program() []byte {
	a := &asm{}
	n := g.rng.Intn(8)
	for i := 0; i < n; i++ {
		g.statement(a, 0)
	}
	g.terminator(a)
	return a.b
}

// ---------------------------------------------------------------- transactions

// txKind names the class a generated transaction aims at (the real outcome is whatever the code decides).
type genTx struct {
	tx   *types.Transaction
	kind string
	pool bool // acceptable to a transaction pool as far as the generator can tell (valid signature, nonce, funds)
}

type chainView interface {
	hasCode(a common.Address) bool
	nonce(a common.Address) uint64
	balance(a common.Address) *big.Int
	valContract(owner common.Address) common.Address // validator contract of a validator owner (zero: none)
}

type txGen struct {
	rng    *rand.Rand
	s      *scenario
	g      *gen
	signer types.Signer
	next   map[common.Address]uint64 // next nonce per sender within the block being generated
	legacy bool                      // pre-Galaxias rules at the height of the block (intrinsic gas)
}

func (t *txGen) intrinsic(data []byte) uint64 {
	g, err := tx_pool.IntrinsicGas(data, false, t.legacy)
	if err != nil {
		panic(err)
	}
	return g
}

func (t *txGen) sign(tx *types.Transaction, k *ecdsa.PrivateKey) *types.Transaction {
	stx, err := types.SignTx(t.signer, tx, k)
	if err != nil {
		panic(err)
	}
	return stx
}

func (t *txGen) gasLimit() uint64 {
	switch t.rng.Intn(10) {
	case 0:
		return uint64(21000 + t.rng.Intn(9000)) // around the intrinsic gas of both rule sets
	case 1:
		return uint64(30000 + t.rng.Intn(30000))
	case 2:
		return 3000000
	default:
		return uint64(100000 + t.rng.Intn(400000))
	}
}

// one generates the next transaction of a block. handMade blocks may carry transactions no pool would accept.
func (t *txGen) one(view chainView, handMade bool) genTx {
	r := t.rng
	si := []int{0, 0, 1, 1, 1, 2, 2, 3}[r.Intn(8)]
	from, key := t.s.sndAddr[si], t.s.sndKeys[si]
	nonce, ok := t.next[from]
	if !ok {
		nonce = view.nonce(from)
	}
	price := big.NewInt(int64(1 + r.Intn(3)))
	gas := t.gasLimit()
	out := genTx{pool: true}
	mk := func(to *common.Address, value *big.Int, data []byte) *types.Transaction {
		if to == nil {
			return types.NewContractCreation(nonce, value, gas, price, data)
		}
		return types.NewTransaction(nonce, *to, value, gas, price, data)
	}
	small := func() *big.Int { return big.NewInt(int64(t.g.amount())) }
	var tx *types.Transaction
	switch k := r.Intn(100); {
	case k < 15: // plain transfer
		to := t.g.target()
		v := small()
		if r.Intn(6) == 0 {
			v = new(big.Int).Add(view.balance(from), big.NewInt(int64(r.Intn(3)))) // more than the sender can pay: rejected after buyGas
			out.pool = false
		}
		tx, out.kind = mk(&to, v, nil), "transfer"
	case k < 33: // call of a generated contract (or whatever sits at that address)
		to := t.s.contract[r.Intn(len(t.s.contract))]
		var data []byte
		if r.Intn(3) == 0 {
			data = make([]byte, r.Intn(70))
			r.Read(data)
		}
		tx, out.kind = mk(&to, small(), data), "call"
	case k < 43: // contract creation
		tx, out.kind = mk(nil, small(), t.g.initCode(0)), "create"
	case k < 48: // resurrection kit: destroy the victim / re-create it at the same address (often within one block)
		if r.Intn(2) == 0 {
			tx, out.kind = mk(&t.s.victim, small(), nil), "victim-kill"
		} else {
			tx, out.kind = mk(&t.s.factory, new(big.Int), nil), "victim-resurrect"
		}
	case k < 58: // a precompile (1..9, most often RIPEMD-160 = 3: its touch survives a reverted frame in the journal) or an address that
		// does not exist is called at top level: value 0 or not, with ample gas or with so little that the frame runs out of gas
		to := t.precompileOrGhost()
		v := new(big.Int)
		if r.Intn(4) == 0 {
			v = small()
		}
		var data []byte
		if r.Intn(3) == 0 {
			data = make([]byte, r.Intn(70))
			r.Read(data)
		}
		if r.Intn(3) != 0 {
			gas = t.intrinsic(data) + uint64(r.Intn(700)) // the precompile's own gas does not fit
		}
		tx, out.kind = mk(&to, v, data), "precompile-call"
	case k < 62 && handMade: // pre-check rejections: nonce too high / too low
		if r.Intn(2) == 0 {
			nonce += uint64(1 + r.Intn(3))
			out.kind = "nonce-high"
		} else if nonce > 0 {
			nonce--
			out.kind = "nonce-low"
		} else {
			nonce += 2
			out.kind = "nonce-high"
		}
		to := t.g.target()
		tx, out.pool = mk(&to, small(), nil), false
		return genTx{tx: t.sign(tx, key), kind: out.kind} // does not consume the sender's next nonce
	case k < 65 && handMade: // gas limit below the intrinsic gas
		gas = uint64(r.Intn(21000))
		to := t.g.target()
		tx, out.kind, out.pool = mk(&to, small(), nil), "intrinsic", false
		return genTx{tx: t.sign(tx, key), kind: out.kind}
	case k < 68 && handMade: // gas limit above what is left of the block: gas limit reached
		gas = configs.BlockGasLimit - uint64(r.Intn(100000))
		price = big.NewInt(1)
		from, key = t.s.sndAddr[0], t.s.sndKeys[0]
		if n, ok := t.next[from]; ok {
			nonce = n
		} else {
			nonce = view.nonce(from)
		}
		to := t.s.contract[r.Intn(len(t.s.contract))]
		tx, out.kind, out.pool = mk(&to, small(), nil), "huge-gas", false
	case k < 71 && handMade: // signed for another chain: the block carries a transaction without valid sender
		to := t.g.target()
		tx = mk(&to, small(), nil)
		stx, err := types.SignTx(types.NewChainIDSigner(big.NewInt(7777)), tx, key)
		if err != nil {
			panic(err)
		}
		return genTx{tx: stx, kind: "foreign-signature"}
	default: // staking
		return t.staking(view, handMade)
	}
	t.next[from] = nonce + 1
	out.tx = t.sign(tx, key)
	return out
}

func (t *txGen) precompileOrGhost() common.Address {
	switch k := t.rng.Intn(10); {
	case k < 5:
		return common.BytesToAddress([]byte{3})
	case k < 8:
		return common.BytesToAddress([]byte{byte(1 + t.rng.Intn(9))})
	default:
		return t.s.ghost[t.rng.Intn(len(t.s.ghost))]
	}
}

// destructRevert: the victim is destroyed, and a LATER transaction of the same block re-creates its account object (value
// transfer to it / CREATE2 at its address) inside a call frame that is reverted -- the whole transaction reverts, or only
// an inner frame while a sibling frame and the transaction succeed.  followUp says that the next block should read the
// victim (readers).  When the victim holds no code at the start of the block it is re-created for a later block instead.
func (t *txGen) destructRevert(view chainView) (txs []genTx, followUp bool) {
	from, key := t.s.sndAddr[0], t.s.sndKeys[0]
	nonce, ok := t.next[from]
	if !ok {
		nonce = view.nonce(from)
	}
	mk := func(to common.Address, value int64, gas uint64, kind string) {
		tx := types.NewTransaction(nonce, to, big.NewInt(value), gas, big.NewInt(1), nil)
		txs = append(txs, genTx{tx: t.sign(tx, key), kind: kind, pool: true})
		nonce++
	}
	if !view.hasCode(t.s.victim) {
		mk(t.s.factory, 0, 600000, "victim-resurrect")
		t.next[from] = nonce
		return txs, false
	}
	mk(t.s.victim, int64(t.rng.Intn(5)), 200000, "victim-kill")
	switch t.rng.Intn(4) {
	case 0:
		mk(t.s.revToucher, 0, 300000, "recreate-reverted:transfer")
	case 1:
		mk(t.s.sibToucher, 0, 400000, "recreate-reverted:transfer-inner")
	case 2:
		mk(t.s.revWrap, 0, 900000, "recreate-reverted:create2")
	default:
		mk(t.s.sibWrap, 0, 900000, "recreate-reverted:create2-inner")
	}
	t.next[from] = nonce
	return txs, true
}

// readers: transactions that read the victim's account (balance, code hash, code size, a call that runs whatever code is there,
// a plain transfer to it): what a node serves from its snapshot tree and what it reads from the trie must agree.
func (t *txGen) readers(view chainView) (txs []genTx) {
	from, key := t.s.sndAddr[1], t.s.sndKeys[1]
	nonce, ok := t.next[from]
	if !ok {
		nonce = view.nonce(from)
	}
	for _, x := range []struct {
		to    common.Address
		value int64
		kind  string
	}{{t.s.probe, 0, "victim-probe"}, {t.s.victim, 5, "victim-transfer"}, {t.s.probe, 0, "victim-probe"}} {
		tx := types.NewTransaction(nonce, x.to, big.NewInt(x.value), 400000, big.NewInt(1), nil)
		txs = append(txs, genTx{tx: t.sign(tx, key), kind: x.kind, pool: true})
		nonce++
	}
	t.next[from] = nonce
	return txs
}

// resurrection generates the pair "destroy the victim, re-create it at the same address" as two consecutive transactions of
// one sender: in one block the second runs against an account that was destructed in this block (state snapshots and the
// trie must agree that its storage is gone).
func (t *txGen) resurrection(view chainView) []genTx {
	from, key := t.s.sndAddr[1], t.s.sndKeys[1]
	nonce, ok := t.next[from]
	if !ok {
		nonce = view.nonce(from)
	}
	t.next[from] = nonce + 2
	kill := types.NewTransaction(nonce, t.s.victim, big.NewInt(int64(t.rng.Intn(5))), 200000, big.NewInt(1), nil)
	back := types.NewTransaction(nonce+1, t.s.factory, new(big.Int), 600000, big.NewInt(1), nil)
	return []genTx{{tx: t.sign(kill, key), kind: "victim-kill", pool: true}, {tx: t.sign(back, key), kind: "victim-resurrect", pool: true}}
}

// staking generates a call into the staking system that may change the validator set two heights later:
// delegations / undelegations in units of a tenth of the minimum stake (voting power = tokens / 10^10), a validator
// owner stopping / starting / un-jailing its validator, creation of a new validator, and the bookkeeping calls
// (reward / commission withdrawal, commission and name updates).
func (t *txGen) staking(view chainView, handMade bool) genTx {
	r := t.rng
	stk, val, _ := sharedStaking()
	pick := r.Intn(t.s.p.NVals)
	owner := t.s.valAddr[pick]
	vc := view.valContract(owner)
	type sender struct {
		a common.Address
		k *ecdsa.PrivateKey
	}
	rich := sender{t.s.sndAddr[0], t.s.sndKeys[0]}
	own := sender{owner, t.s.valKeys[pick]}
	mkTx := func(s sender, to common.Address, value *big.Int, data []byte, kind string) genTx {
		nonce, ok := t.next[s.a]
		if !ok {
			nonce = view.nonce(s.a)
		}
		t.next[s.a] = nonce + 1
		gas := uint64(3000000 + r.Intn(2000000))
		if r.Intn(12) == 0 {
			gas = uint64(60000 + r.Intn(200000)) // runs out of gas inside the staking code
		}
		tx := types.NewTransaction(nonce, to, value, gas, big.NewInt(int64(1+r.Intn(2))), data)
		return genTx{tx: t.sign(tx, s.k), kind: kind, pool: true}
	}
	must := func(b []byte, err error) []byte {
		if err != nil {
			panic(err)
		}
		return b
	}
	units := func(max int) *big.Int { return new(big.Int).Mul(stakeUnit, big.NewInt(int64(1+r.Intn(max)))) }
	if t.s.p.NVals > t.s.p.Started && r.Intn(5) == 0 {
		// a validator of the genesis document that did not start with genesis joins the set
		j := t.s.p.Started + r.Intn(t.s.p.NVals-t.s.p.Started)
		if c := view.valContract(t.s.valAddr[j]); c != (common.Address{}) {
			return mkTx(sender{t.s.valAddr[j], t.s.valKeys[j]}, c, new(big.Int), must(val.Abi.Pack("start")), "stk-start-late")
		}
	}
	if vc == (common.Address{}) {
		// the picked key has no validator yet: create one (self stake as value), from its owner
		var name [32]byte
		copy(name[:], "late-validator")
		data := must(stk.Abi.Pack("createValidator", name, bigStr("100000000000000000"), bigStr("250000000000000000"), bigStr("50000000000000000")))
		return mkTx(own, configs.StakingContractAddress, new(big.Int).Add(minSelfStake, units(3)), data, "stk-create")
	}
	switch k := r.Intn(100); {
	case k < 34:
		return mkTx(rich, vc, units(6), must(val.Abi.Pack("delegate")), "stk-delegate")
	case k < 46:
		return mkTx(own, vc, units(4), must(val.Abi.Pack("delegate")), "stk-self-delegate")
	case k < 58:
		return mkTx(rich, vc, new(big.Int), must(val.Abi.Pack("undelegateWithAmount", units(4))), "stk-undelegate")
	case k < 62:
		return mkTx(rich, vc, new(big.Int), must(val.Abi.Pack("undelegate")), "stk-undelegate-all")
	case k < 65:
		return mkTx(own, vc, new(big.Int), must(val.Abi.Pack("stop")), "stk-stop")
	case k < 70: // below the minimum self stake: the validator leaves the set
		return mkTx(own, vc, new(big.Int), must(val.Abi.Pack("undelegateWithAmount", units(5))), "stk-self-undelegate")
	case k < 78:
		return mkTx(own, vc, new(big.Int), must(val.Abi.Pack("start")), "stk-start")
	case k < 82:
		return mkTx(own, vc, new(big.Int), must(val.Abi.Pack("unjail")), "stk-unjail")
	case k < 86:
		return mkTx(rich, vc, new(big.Int), must(val.Abi.Pack("withdrawRewards")), "stk-withdraw-rewards")
	case k < 90:
		return mkTx(own, vc, new(big.Int), must(val.Abi.Pack("withdrawCommission")), "stk-withdraw-commission")
	case k < 93:
		return mkTx(own, vc, new(big.Int), must(val.Abi.Pack("updateCommissionRate", bigStr("120000000000000000"))), "stk-commission")
	case k < 96:
		return mkTx(own, vc, new(big.Int), must(val.Abi.Pack("undelegateWithAmount", units(3))), "stk-self-undelegate")
	default:
		return mkTx(rich, vc, new(big.Int), must(val.Abi.Pack("withdraw")), "stk-withdraw")
	}
}
