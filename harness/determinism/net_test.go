//go:build verif

// net_test.go: TestNetwork, the network level of property C06 ("a proposer's own block is accepted
// by every correct validator"; all nodes end every height with the same application hash and next
// validator set).
//
// One real consensus node per validator that starts with genesis (consensus.ConsensusState wired as
// mainchain/backend.go does it: BlockChain on the scenario's genesis document -- EVERY NODE WITH ANOTHER
// CACHE CONFIGURATION --, consensus-state store, transaction pool, evidence pool, BlockOperations,
// BlockExecutor), driven by one single-threaded scheduler: messages are delivered in FIFO order to all
// nodes, a timeout fires only when nothing is in flight.  Seeded random transactions (incl. staking calls
// that change validator powers) are submitted to the pools of all nodes or of one node only.
//
// Logged for TLC (DeterminismTrace.tla): one "gen" / "apply" event per node and block exactly as TestRecord
// logs them (path "network"), one "propose" event per proposal a node signs (block, digest of the proposer's
// chain state) and one "prevote" event per prevote a node signs (block or nil, digest of the voter's chain
// state, whether the voter could be locked from an earlier round).
package determinism

import (
	"crypto/sha256"
	"encoding/hex"
	"fmt"
	"math/rand"
	"os"
	"path/filepath"
	"sort"
	"strings"
	"sync"
	"testing"

	"github.com/kardiachain/go-kardia/configs"
	"github.com/kardiachain/go-kardia/consensus"
	"github.com/kardiachain/go-kardia/kai/kaidb"
	"github.com/kardiachain/go-kardia/kai/kaidb/memorydb"
	"github.com/kardiachain/go-kardia/kai/rawdb"
	"github.com/kardiachain/go-kardia/kai/state/cstate"
	"github.com/kardiachain/go-kardia/lib/common"
	"github.com/kardiachain/go-kardia/lib/log"
	"github.com/kardiachain/go-kardia/lib/p2p"
	"github.com/kardiachain/go-kardia/mainchain/blockchain"
	stypes "github.com/kardiachain/go-kardia/mainchain/staking/types"
	"github.com/kardiachain/go-kardia/mainchain/tx_pool"
	kproto "github.com/kardiachain/go-kardia/proto/kardiachain/types"
	"github.com/kardiachain/go-kardia/types"
	"github.com/kardiachain/go-kardia/types/evidence"

	"verifharness/internal/mbt"
)

// netOps interposes on CommitAndValidateBlockTxs of one node.
type netOps struct {
	*blockchain.BlockOperations
	db      kaidb.Database
	pending *result // execution not yet completed with the consensus-level consequences
	h       uint64
	errs    []string
}

func (o *netOps) CommitAndValidateBlockTxs(b *types.Block, lci stypes.LastCommitInfo, byz []stypes.Evidence) ([]*types.Validator, common.Hash, error) {
	h := b.Height()
	r := &result{Par: hx(rawdb.ReadAppHash(o.db, h-1)), Blk: hx(b.Hash())}
	vals, app, err := o.BlockOperations.CommitAndValidateBlockTxs(b, lci, byz)
	if err != nil {
		r.Err = errClass("apply-error", fmt.Errorf("commit failed for application: %v", err))
		o.errs = append(o.errs, err.Error())
	} else {
		r.App = hx(app)
		if rawdb.ReadAppHash(o.db, h) != app {
			r.Err = "apphash-inconsistent"
		}
		infoResult(r, rawdb.VerifDetReadBlockInfoRaw(o.db, b.Hash(), h), len(b.Transactions()))
		r.VR = valList(vals)
	}
	o.pending, o.h = r, h
	return vals, app, err
}

type netNode struct {
	idx   int // validator key index
	name  string
	cfg   cfgSpec
	db    kaidb.Database
	bc    *blockchain.BlockChain
	pool  *tx_pool.TxPool
	ops   *netOps
	cs    *consensus.ConsensusState
	bus   *types.EventBus
	tick  netTicker
	sch   []consensus.VerifTimeout
	prevN *types.ValidatorSet // NextValidators before the block being applied
	lastH uint64
	genNV string
	genVS [][]string
}

type netTicker struct {
	ti    consensus.VerifTimeout
	armed bool
}

// consensus/ticker.go timeoutRoutine: a newly scheduled timeout replaces the held one unless it is older
func (t *netTicker) schedule(n consensus.VerifTimeout) {
	ti := t.ti
	if n.Height < ti.Height {
		return
	} else if n.Height == ti.Height {
		if n.Round < ti.Round {
			return
		} else if n.Round == ti.Round && ti.Step > 0 && n.Step <= ti.Step {
			return
		}
	}
	t.ti, t.armed = n, true
}

func stateDigest(st cstate.LatestBlockState) string {
	var sb strings.Builder
	fmt.Fprintf(&sb, "%d/%x/%x/%d/%x/", st.LastBlockHeight, st.LastBlockID.Hash[:], st.LastBlockID.PartsHeader.Hash[:], st.LastBlockID.PartsHeader.Total, st.AppHash[:])
	sb.WriteString(valSetDigest(st.Validators) + "/" + valSetDigest(st.NextValidators) + "/" + valSetDigest(st.LastValidators))
	d := sha256.Sum256([]byte(sb.String()))
	return hex.EncodeToString(d[:12])
}

type netEvent struct {
	event
	R   int    `json:"r"`   // propose / prevote: round
	St  string `json:"st"`  // propose / prevote: digest of the node's chain state
	Fre bool   `json:"fre"` // prevote: no earlier round of this height had a proposal (the voter cannot be locked)
	Has bool   `json:"has"` // prevote: the voter held the complete proposal block of this round when it voted
}

func (s *scenario) network(res *mbt.Result, heights uint64, mode string) []netEvent {
	var evs []netEvent
	rng := rand.New(rand.NewSource(s.p.Seed ^ 0x5eed))
	cfgs := allConfigs()
	var nodes []*netNode
	defer func() {
		for _, nd := range nodes {
			nd.bus.Stop()
			nd.pool.Stop()
			nd.bc.Stop()
		}
	}()
	stk, _, err := sharedStaking()
	if err != nil {
		res.Mismatch("infra:staking", err.Error(), nil)
		return nil
	}
	byAddr := map[common.Address]*netNode{}
	for i := 0; i < s.p.Started; i++ {
		// every node another configuration (warm ones: a consensus node keeps its chain object)
		var cfg cfgSpec
		for k := 0; ; k++ {
			cfg = cfgs[(int(s.p.Seed%97)+i*3+k)%len(cfgs)]
			if !cfg.reopen {
				break
			}
		}
		doc := s.genesis()
		db := memorydb.New()
		bc, err := blockchain.NewBlockChain(db, cfg.cache, doc)
		if err != nil {
			res.Mismatch("determinism:genesis:network", fmt.Sprintf("scenario %d: node %d (%s) cannot build its chain: %v", s.p.ID, i, cfg.name, err), map[string]interface{}{"scenario": s.p})
			return evs
		}
		store := cstate.NewStore(db)
		st, err := store.LoadStateFromDBOrGenesisDoc(doc)
		if err != nil {
			res.Mismatch("infra:genesis-state", err.Error(), nil)
			return evs
		}
		evp, err := evidence.NewPool(store, db, bc)
		if err != nil {
			res.Mismatch("infra:evidence-pool", err.Error(), nil)
			return evs
		}
		pool := tx_pool.NewTxPool(tx_pool.TxPoolConfig{GlobalSlots: 256, GlobalQueue: 256, AccountSlots: 64, AccountQueue: 64}, bc.Config(), bc)
		bo := blockchain.NewBlockOperations(log.New(), bc, pool, evp, stk)
		ops := &netOps{BlockOperations: bo, db: db}
		be := cstate.NewBlockExecutor(store, log.New(), evp, ops)
		cs := consensus.NewConsensusState(log.New(), configs.TestConsensusConfig(), st, ops, be, evp)
		cs.SetPrivValidator(s.valPV[i])
		eb := types.NewEventBus()
		eb.SetLogger(log.New())
		eb.Start()
		cs.SetEventBus(eb)
		be.SetEventBus(eb)
		nd := &netNode{idx: i, name: fmt.Sprintf("s%d/net-%s-node%d-%s", s.p.ID, mode, i, cfg.name), cfg: cfg, db: db, bc: bc, pool: pool, ops: ops, cs: cs, bus: eb,
			prevN: st.NextValidators, genNV: valSetDigest(st.NextValidators), genVS: valList(st.NextValidators.Validators)}
		cs.VerifSetTicker(func(ti consensus.VerifTimeout) { nd.sch = append(nd.sch, ti) })
		nodes = append(nodes, nd)
		byAddr[s.valAddr[i]] = nd
		evs = append(evs, netEvent{event: event{E: "gen", N: nd.name, Scn: s.p.ID, Cfg: cfg.name, Path: "network", Doc: fmt.Sprintf("scn%d", s.p.ID),
			Root: hx(bc.Genesis().AppHash()), GH: hx(bc.Genesis().Hash()), result: result{VR: [][]string{}, VU: [][]string{}, NVS: nd.genVS, NV: nd.genNV}}})
	}
	type env struct {
		to, from int
		m        consensus.Message
	}
	var q []env
	// what consensus/manager.go gossipDataRoutine does: a node that is in round (h, r) without the proposal is sent the
	// proposal and its parts (a proposal that arrives while the node is still in an earlier round is dropped by the node)
	proposals := map[string][]consensus.Message{} // "h/r" -> proposal message and block parts, as the proposer emitted them
	resent := map[string]bool{}
	proposed := map[string]bool{} // "h" -> some round of this height had a proposal
	view := stateView{&replica{bc: nodes[0].bc}}
	g := &gen{rng: rng, s: s, self: -1}
	submitted := uint64(0)
	submit := func(h uint64) {
		// transactions for the block after height h, generated against node 0's state
		hh := h + 1
		tg := &txGen{rng: rng, s: s, g: g, signer: types.MakeSigner(nodes[0].bc.Config(), &hh), next: map[common.Address]uint64{},
			legacy: !nodes[0].bc.Config().IsGalaxias(&hh)}
		n := 1 + rng.Intn(6)
		var txs []*types.Transaction
		for i := 0; i < n; i++ {
			txs = append(txs, tg.one(view, false).tx)
		}
		targets := nodes
		if mode == "one" {
			targets = []*netNode{nodes[rng.Intn(len(nodes))]}
		}
		for _, nd := range targets {
			nd.pool.AddRemotesSync(txs)
		}
	}
	collect := func(i int) {
		nd := nodes[i]
		// a block was applied: complete the execution record with the consensus-level consequences
		if p := nd.ops.pending; p != nil {
			nd.ops.pending = nil
			st := nd.cs.VerifState()
			if p.Err == "" && st.LastBlockHeight == nd.ops.h {
				if st.AppHash.Hex() != "0x"+p.App && hx(st.AppHash) != p.App {
					p.Err = "apphash-inconsistent"
				}
				p.VU = valList(cstate.VerifDetCalcValidatorUpdates(nd.prevN.Validators, validatorsOf(p.VR, s)))
				p.NV = valSetDigest(st.NextValidators)
				p.NVS = valList(st.NextValidators.Validators)
				nd.prevN = st.NextValidators
			} else if p.Err == "" {
				p.Err = "not-committed"
			}
			evs = append(evs, netEvent{event: event{E: "apply", N: nd.name, Scn: s.p.ID, Cfg: nd.cfg.name, Path: "network", H: int(nd.ops.h), result: *p}})
			// reset the pool to the new head on THIS goroutine (pool.mu serialises it with the pool's own run for the chain
			// head event).  Not VerifReset: its (nil, nil) request can be merged by scheduleReorgLoop into a pending
			// head-event request (oldHead kept, newHead := nil), and TxPool.reset dereferences the nil newHead
			nd.pool.VerifRunReorg(true, nil)
			if i == 0 && nd.ops.h > submitted && nd.ops.h < heights {
				submitted = nd.ops.h
				submit(nd.ops.h)
			}
		}
		for _, m := range nd.cs.VerifDrainInternal() {
			switch mm := m.(type) {
			case *consensus.ProposalMessage:
				pr := mm.Proposal
				st := nd.cs.VerifState()
				evs = append(evs, netEvent{event: event{E: "propose", N: nd.name, Scn: s.p.ID, Cfg: nd.cfg.name, Path: "network", H: int(pr.Height),
					Doc: fmt.Sprintf("scn%d", s.p.ID), result: result{Blk: hx(pr.POLBlockID.Hash), VR: [][]string{}, VU: [][]string{}, NVS: [][]string{}}},
					R: int(pr.Round), St: stateDigest(st)})
			case *consensus.VoteMessage:
				v := mm.Vote
				if v.Type == kproto.PrevoteType {
					st := nd.cs.VerifState()
					blk := ""
					if !v.BlockID.Hash.IsZero() {
						blk = hx(v.BlockID.Hash)
					}
					free := !proposed[fmt.Sprintf("%d<%d", v.Height, v.Round)]
					rs := nd.cs.GetRoundState()
					has := rs.Height == v.Height && rs.Round == v.Round && rs.Proposal != nil && rs.ProposalBlock != nil
					evs = append(evs, netEvent{event: event{E: "prevote", N: nd.name, Scn: s.p.ID, Cfg: nd.cfg.name, Path: "network", H: int(v.Height),
						Doc: fmt.Sprintf("scn%d", s.p.ID), result: result{Blk: blk, VR: [][]string{}, VU: [][]string{}, NVS: [][]string{}}},
						R: int(v.Round), St: stateDigest(st), Fre: free, Has: has})
				}
			}
			switch mm := m.(type) {
			case *consensus.ProposalMessage:
				k := fmt.Sprintf("%d/%d", mm.Proposal.Height, mm.Proposal.Round)
				proposals[k] = append(proposals[k], m)
			case *consensus.BlockPartMessage:
				k := fmt.Sprintf("%d/%d", mm.Height, mm.Round)
				proposals[k] = append(proposals[k], m)
			}
			for j := range nodes {
				q = append(q, env{j, i, m})
			}
		}
		if rs := nd.cs.GetRoundState(); rs.Proposal == nil {
			k := fmt.Sprintf("%d/%d", rs.Height, rs.Round)
			if ms := proposals[k]; len(ms) > 0 && !resent[fmt.Sprintf("%s>%d", k, i)] {
				resent[fmt.Sprintf("%s>%d", k, i)] = true
				for _, m := range ms {
					q = append(q, env{i, -1, m})
				}
			}
		}
		// bookkeeping for "could be locked": rounds of a height that had a proposal
		for _, e := range evs[len(evs)-minInt(len(evs), 8):] {
			if e.E == "propose" {
				for r := e.R + 1; r < e.R+40; r++ {
					proposed[fmt.Sprintf("%d<%d", e.H, r)] = true
				}
			}
		}
		for _, ti := range nd.sch {
			nd.tick.schedule(ti)
		}
		nd.sch = nil
	}
	// what consensus/manager.go gossipVotesRoutine / gossipDataForCatchup do, as one pass over all pairs: node a sends node b the
	// votes b is missing for its current height and round (same height), or the commit of b's height and the block b is
	// waiting for (a is ahead).  Run only when nothing is in flight and something changed since the last pass.
	gossip := func() int {
		n := 0
		send := func(from, to int, m consensus.Message) { q = append(q, env{to, from, m}); n++ }
		missing := func(src, dst *types.VoteSet, from, to int) {
			if src == nil {
				return
			}
			for i := 0; i < src.Size(); i++ {
				v := src.GetByIndex(uint32(i))
				if v == nil || (dst != nil && i < dst.Size() && dst.GetByIndex(uint32(i)) != nil) {
					continue
				}
				send(from, to, &consensus.VoteMessage{Vote: v.Copy()})
			}
		}
		for ai, a := range nodes {
			ars := a.cs.GetRoundState()
			for bi, b := range nodes {
				if ai == bi {
					continue
				}
				brs := b.cs.GetRoundState()
				switch {
				case ars.Height == brs.Height:
					if brs.Step == 1 && ars.LastCommit != nil {
						missing(ars.LastCommit, brs.LastCommit, ai, bi)
					}
					missing(ars.Votes.Prevotes(brs.Round), brs.Votes.Prevotes(brs.Round), ai, bi)
					missing(ars.Votes.Precommits(brs.Round), brs.Votes.Precommits(brs.Round), ai, bi)
				case ars.Height > brs.Height && a.ops.Height() >= brs.Height:
					if c := a.ops.LoadSeenCommit(brs.Height); c != nil {
						for i := 0; i < len(c.Signatures); i++ {
							if c.Signatures[i].Absent() {
								continue
							}
							if dst := brs.Votes.Precommits(c.Round); dst != nil && i < dst.Size() && dst.GetByIndex(uint32(i)) != nil {
								continue
							}
							send(ai, bi, &consensus.VoteMessage{Vote: c.GetVote(uint32(i))})
						}
					}
					if brs.ProposalBlockParts != nil && !brs.ProposalBlockParts.IsComplete() {
						if blk := a.ops.LoadBlock(brs.Height); blk != nil {
							if ps := blk.MakePartSet(types.BlockPartSizeBytes); ps.HasHeader(brs.ProposalBlockParts.Header()) {
								for k := 0; k < int(ps.Total()); k++ {
									send(ai, bi, &consensus.BlockPartMessage{Height: brs.Height, Round: brs.Round, Part: ps.GetPart(k)})
								}
							}
						}
					}
				}
			}
		}
		return n
	}
	finger := func() string {
		var sb strings.Builder
		for _, nd := range nodes {
			rs := nd.cs.GetRoundState()
			fmt.Fprintf(&sb, "%d/%d/%d/%v/%v/", rs.Height, rs.Round, rs.Step, rs.Proposal != nil, rs.ProposalBlock != nil)
			if pv := rs.Votes.Prevotes(rs.Round); pv != nil {
				sb.WriteString(pv.BitArray().String())
			}
			if pc := rs.Votes.Precommits(rs.Round); pc != nil {
				sb.WriteString(pc.BitArray().String())
			}
			sb.WriteString("|")
		}
		return sb.String()
	}
	lastFinger := ""
	submit(0)
	for i, nd := range nodes {
		nd.cs.VerifScheduleRound0()
		collect(i)
	}
	steps := 0
	for ; steps < 20000; steps++ {
		done := true
		for _, nd := range nodes {
			if nd.ops.Height() < heights {
				done = false
			}
		}
		if done {
			break
		}
		if len(q) > 0 {
			e := q[0]
			q = q[1:]
			peer := p2p.ID("")
			if e.from != e.to {
				peer = p2p.ID(fmt.Sprintf("n%d", e.from+1))
			}
			nodes[e.to].cs.VerifHandleMsg(e.m, peer)
			collect(e.to)
			continue
		}
		if f := finger(); f != lastFinger {
			lastFinger = f
			if gossip() > 0 {
				continue
			}
		}
		var armed []int
		for i, nd := range nodes {
			if nd.tick.armed {
				armed = append(armed, i)
			}
		}
		if len(armed) == 0 {
			break
		}
		sort.SliceStable(armed, func(a, b int) bool {
			x, y := nodes[armed[a]].tick.ti, nodes[armed[b]].tick.ti
			return consensus.CompareHRS(x.Height, x.Round, x.Step, y.Height, y.Round, y.Step) < 0
		})
		nd := nodes[armed[0]]
		nd.tick.armed = false
		nd.cs.VerifHandleTimeout(nd.tick.ti)
		collect(armed[0])
	}
	res.Count(steps)
	// A node that cannot execute a decided block which another node executed shows in its "apply" event (TLC compares);
	// a network that stops (all nodes fail alike on a block, or too little power is on line after a validator without
	// node joined) is not C06's subject: counted only.
	for _, nd := range nodes {
		if nd.ops.Height() < heights {
			res.Add("networks_not_reaching_target_height", 1)
			var sb strings.Builder
			fmt.Fprintf(&sb, "network scenario %d (%s), %d steps:", s.p.ID, mode, steps)
			for _, x := range nodes {
				rs := x.cs.GetRoundState()
				fmt.Fprintf(&sb, " node%d store=%d h=%d r=%d step=%d validators=%d armed=%v;", x.idx, x.ops.Height(), rs.Height, rs.Round, rs.Step, rs.Validators.Size(), x.tick.armed)
			}
			res.Set("network_not_reaching_target_example", sb.String())
			break
		}
	}
	return evs
}

// validatorsOf rebuilds the reported validators (order kept) from their logged form: the addresses are the scenario's keys
func validatorsOf(vr [][]string, s *scenario) []*types.Validator {
	var out []*types.Validator
	for _, v := range vr {
		var a common.Address
		for _, x := range s.valAddr {
			if strings.ToLower(hex.EncodeToString(x[:4])) == v[0] {
				a = x
			}
		}
		var p int64
		fmt.Sscan(v[1], &p)
		out = append(out, types.NewValidator(a, p))
	}
	return out
}

func TestNetwork(t *testing.T) {
	res := mbt.NewResult()
	defer res.Write()
	base := os.Getenv("DET_TRACE")
	if base == "" {
		base = filepath.Join(os.TempDir(), "det-net-trace")
	}
	nscn := mbt.EnvInt("DET_NETS", 4)
	first := mbt.EnvInt("DET_FIRST", 0)
	shards := mbt.EnvInt("DET_SHARDS", 1)
	heights := uint64(mbt.EnvInt("DET_NET_HEIGHTS", 5))
	workers := mbt.EnvInt("DET_WORKERS", 8)
	seed := mbt.Seed()
	outs := make([][]netEvent, nscn)
	var wg sync.WaitGroup
	sem := make(chan struct{}, workers)
	for i := 0; i < nscn; i++ {
		wg.Add(1)
		sem <- struct{}{}
		go func(i int) {
			defer wg.Done()
			defer func() { <-sem }()
			id := first + i
			p := scenarioParams(seed+500, id)
			p.ID = 100000 + id
			s := newScenario(p)
			mode := []string{"all", "one"}[i%2]
			defer func() {
				if x := recover(); x != nil {
					res.Mismatch("determinism:net:panic", fmt.Sprintf("network scenario %d (seed %d, %s): panic %v", id, p.Seed, mode, x), map[string]interface{}{"scenario": p, "mode": mode})
				}
			}()
			outs[i] = s.network(res, heights, mode)
			res.Behaviour()
			if i < 2 {
				np, nv, na := 0, 0, 0
				for _, e := range outs[i] {
					switch e.E {
					case "propose":
						np++
					case "prevote":
						nv++
					case "apply":
						na++
					}
				}
				res.Sample(map[string]interface{}{"network": p, "mode": mode, "proposals": np, "prevotes": nv, "executions": na})
			}
		}(i)
	}
	wg.Wait()
	per := make([][]netEvent, shards)
	nontrivial := 0
	for i, o := range outs {
		per[i%shards] = append(per[i%shards], o...)
		for _, e := range o {
			if e.E == "apply" && (e.Gas > 0 || len(e.VU) > 0) {
				nontrivial++
			}
		}
	}
	for k := range per {
		f, err := os.Create(fmt.Sprintf("%s.%d", base, k))
		if err != nil {
			res.Mismatch("infra:write-trace", err.Error(), nil)
			return
		}
		for _, e := range per[k] {
			fixLists(&e.event)
			b, _ := jsonMarshal(e)
			f.Write(append(b, '\n'))
		}
		f.Close()
	}
	res.Set("network_nontrivial_executions", nontrivial)
}
