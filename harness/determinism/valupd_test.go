//go:build verif

// valupd_test.go: TestValUpdates replays every transition of specs/determinism/MC_ValUpdates.tla
// (TLC dump) into the real cstate path that turns the application's validator report into the next
// validator set: calculateValidatorSetUpdates + updateState (UpdateWithChangeSet +
// IncrementProposerPriority), each report in several permutations.  Compared: ok / error, the
// resulting NextValidators (order, powers, every priority) with the specification's, equality of
// the results of all permutations, the rotation of Validators / LastValidators, and that a
// rejected change set leaves the state as it was.
package determinism

import (
	"encoding/json"
	"fmt"
	"math/rand"
	"os"
	"strconv"
	"strings"
	"testing"

	"github.com/kardiachain/go-kardia/kai/state/cstate"
	"github.com/kardiachain/go-kardia/lib/common"
	"github.com/kardiachain/go-kardia/types"

	"verifharness/internal/mbt"
)

type vuEntry struct {
	A int   `json:"a"`
	P int64 `json:"p"`
}
type vuVal struct {
	A    int   `json:"a"`
	P    int64 `json:"p"`
	Prio int64 `json:"prio"`
}
type vuLine struct {
	H []json.RawMessage `json:"h"`
	V []vuVal           `json:"v"`
}
type vuStep struct {
	rep []vuEntry
	res string
}

func vuAddr(a int) common.Address { return common.BytesToAddress([]byte{0xa0, byte(a)}) }

func vuSnapshot(vs *types.ValidatorSet) string {
	if vs == nil {
		return "nil"
	}
	var sb strings.Builder
	for _, v := range vs.Validators {
		fmt.Fprintf(&sb, "%d/%d/%d ", v.Address.Bytes()[19], v.VotingPower, v.ProposerPriority)
	}
	return sb.String()
}

func vuParse(raw json.RawMessage) (vuStep, error) {
	var parts []json.RawMessage
	if err := json.Unmarshal(raw, &parts); err != nil || len(parts) != 2 {
		return vuStep{}, fmt.Errorf("bad step %s", string(raw))
	}
	var s vuStep
	if err := json.Unmarshal(parts[0], &s.rep); err != nil {
		return s, err
	}
	if err := json.Unmarshal(parts[1], &s.res); err != nil {
		return s, err
	}
	return s, nil
}

// orders of a report: as given, reversed, rotated, and seeded shuffles
func vuOrders(n int, rng *rand.Rand) [][]int {
	id := make([]int, n)
	for i := range id {
		id[i] = i
	}
	out := [][]int{id}
	if n < 2 {
		return out
	}
	rev := make([]int, n)
	rot := make([]int, n)
	for i := range id {
		rev[i] = n - 1 - i
		rot[i] = (i + 1) % n
	}
	out = append(out, rev, rot)
	for k := 0; k < 2; k++ {
		out = append(out, rng.Perm(n))
	}
	return out
}

func TestValUpdates(t *testing.T) {
	res := mbt.NewResult()
	defer res.Write()
	var initP []int64
	for _, f := range strings.Split(os.Getenv("VU_INIT"), ",") {
		p, err := strconv.ParseInt(f, 10, 64)
		if err != nil {
			res.Mismatch("infra:init", "VU_INIT: "+err.Error(), nil)
			return
		}
		initP = append(initP, p)
	}
	// VU_CAP > 0: the specification ran with Cap = VU_CAP; powers are scaled so that it is the real MaxTotalVotingPower
	// (ok / error, members and order independence are compared; priorities are not scale invariant)
	unit, cmpPrio := int64(1), true
	if cp := int64(mbt.EnvInt("VU_CAP", 0)); cp > 0 {
		unit, cmpPrio = types.MaxTotalVotingPower/cp, false
	}
	pfx := "determinism:valupd:"
	seed := mbt.Seed()
	sent, err := mbt.EachLine(os.Getenv("VU_DUMP"), 0, mbt.EnvInt("VU_LIMIT", 0), mbt.EnvInt("VU_STRIDE", 1), seed, func(n int, raw []byte) {
		var l vuLine
		if err := json.Unmarshal(raw, &l); err != nil {
			res.Mismatch("infra:parse", err.Error(), string(raw))
			return
		}
		steps := make([]vuStep, len(l.H))
		for i, r := range l.H {
			s, err := vuParse(r)
			if err != nil {
				res.Mismatch("infra:parse", err.Error(), string(raw))
				return
			}
			steps[i] = s
		}
		rng := rand.New(rand.NewSource(seed*1000003 + int64(n)))
		detail := map[string]interface{}{"init": initP, "hist": l.H, "seed": seed}
		// MakeGenesisState
		vals := make([]*types.Validator, len(initP))
		for i, p := range initP {
			vals[i] = types.NewValidator(vuAddr(i+1), p*unit)
		}
		st := cstate.LatestBlockState{ChainID: "vu", InitialHeight: 1, Validators: types.NewValidatorSet(vals),
			NextValidators: types.NewValidatorSet(vals).CopyIncrementProposerPriority(1), LastHeightValidatorsChanged: 1}
		defer func() {
			if x := recover(); x != nil {
				res.Mismatch(pfx+"panic", fmt.Sprintf("panic %v while replaying %s", x, string(raw)), detail)
			}
		}()
		for k, s := range steps {
			h := uint64(k + 1)
			header := &types.Header{Height: h}
			bid := types.BlockID{Hash: common.BytesToHash([]byte{byte(h)})}
			before := vuSnapshot(st.NextValidators)
			var first *cstate.LatestBlockState
			var firstErr error
			for oi, ord := range vuOrders(len(s.rep), rng) {
				rep := make([]*types.Validator, len(s.rep))
				for i, j := range ord {
					rep[i] = types.NewValidator(vuAddr(s.rep[j].A), s.rep[j].P*unit)
				}
				ups := cstate.VerifDetCalcValidatorUpdates(st.NextValidators.Validators, rep)
				st2, err := cstate.VerifDetUpdateState(st, bid, header, ups)
				res.Count(1)
				want := "ok"
				if s.res != "ok" {
					want = "err"
				}
				got := "ok"
				if err != nil {
					got = "err"
				}
				if got != want {
					res.Mismatch(pfx+"result:"+s.res+"->"+got, fmt.Sprintf("step %d of %s, report order %v: real %s (%v), specified %s", k+1, string(raw), ord, got, err, s.res), detail)
					return
				}
				if err != nil && vuSnapshot(st2.NextValidators) != before {
					res.Mismatch(pfx+"allornothing:"+s.res, fmt.Sprintf("step %d of %s: a rejected change set changed NextValidators: %s -> %s", k+1, string(raw), before, vuSnapshot(st2.NextValidators)), detail)
					return
				}
				if oi == 0 {
					c := st2
					first, firstErr = &c, err
					continue
				}
				if (err == nil) != (firstErr == nil) || vuSnapshot(st2.NextValidators) != vuSnapshot(first.NextValidators) ||
					(err == nil && st2.NextValidators.GetProposer().Address != first.NextValidators.GetProposer().Address) {
					res.Mismatch(pfx+"order", fmt.Sprintf("step %d of %s: the report in order %v gives %s (err %v), in the order given %s (err %v)",
						k+1, string(raw), ord, vuSnapshot(st2.NextValidators), err, vuSnapshot(first.NextValidators), firstErr), detail)
					return
				}
			}
			if firstErr == nil {
				// rotation of the three sets
				if vuSnapshot(first.Validators) != before || vuSnapshot(first.LastValidators) != vuSnapshot(st.Validators) {
					res.Mismatch(pfx+"rotation", fmt.Sprintf("step %d of %s: Validators / LastValidators after the block are not the previous NextValidators / Validators", k+1, string(raw)), detail)
					return
				}
				st = *first
			}
		}
		// the set after the last step
		got := st.NextValidators
		if len(got.Validators) != len(l.V) {
			res.Mismatch(pfx+"members", fmt.Sprintf("after %s: real NextValidators %s, specified %v", string(raw), vuSnapshot(got), l.V), detail)
			return
		}
		for i, v := range got.Validators {
			w := l.V[i]
			if v.Address != vuAddr(w.A) || v.VotingPower != w.P*unit {
				res.Mismatch(pfx+"members", fmt.Sprintf("after %s: real NextValidators %s, specified %v", string(raw), vuSnapshot(got), l.V), detail)
				return
			}
			if cmpPrio && v.ProposerPriority != w.Prio {
				res.Mismatch(pfx+"priority", fmt.Sprintf("after %s: real NextValidators %s, specified %v", string(raw), vuSnapshot(got), l.V), detail)
				return
			}
		}
		last := steps[len(steps)-1]
		if len(last.rep) > 0 {
			res.Distinct(string(raw[:minInt(len(raw), 160)]))
		}
		if n%499 == 1 {
			res.Sample(map[string]interface{}{"init": initP, "reports": l.H, "expected_next_validators": l.V})
		}
	})
	if err != nil {
		res.Mismatch("infra:read", err.Error(), nil)
	}
	res.Behaviours = sent
	res.Set("duplicate_report_is_order_dependent_in_the_real_code", vuDuplicateProbe())
}

// vuDuplicateProbe documents the assumption WELLFORMED of Determinism.tla on the real code (it is not a verdict): a report
// that names validator 1 twice, once with its current power and once with another, updates it in one order and is rejected
// as a duplicate change in the other -- exactly what MC_ValUpdates.tla shows with AllowDup = TRUE.
func vuDuplicateProbe() (dependent bool) {
	defer func() { recover() }()
	mk := func() cstate.LatestBlockState {
		vals := []*types.Validator{types.NewValidator(vuAddr(1), 1), types.NewValidator(vuAddr(2), 1), types.NewValidator(vuAddr(3), 1)}
		return cstate.LatestBlockState{ChainID: "vu", InitialHeight: 1, Validators: types.NewValidatorSet(vals),
			NextValidators: types.NewValidatorSet(vals).CopyIncrementProposerPriority(1), LastHeightValidatorsChanged: 1}
	}
	run := func(rep []*types.Validator) string {
		st := mk()
		ups := cstate.VerifDetCalcValidatorUpdates(st.NextValidators.Validators, rep)
		st2, err := cstate.VerifDetUpdateState(st, types.BlockID{}, &types.Header{Height: 1}, ups)
		if err != nil {
			return "err"
		}
		return vuSnapshot(st2.NextValidators)
	}
	a := []*types.Validator{types.NewValidator(vuAddr(1), 1), types.NewValidator(vuAddr(1), 3), types.NewValidator(vuAddr(2), 1), types.NewValidator(vuAddr(3), 1)}
	b := []*types.Validator{types.NewValidator(vuAddr(1), 3), types.NewValidator(vuAddr(1), 1), types.NewValidator(vuAddr(2), 1), types.NewValidator(vuAddr(3), 1)}
	return run(a) != run(b)
}

func minInt(a, b int) int {
	if a < b {
		return a
	}
	return b
}
