//go:build verif

// record_test.go: TestRecord, the producer of the traces TLC validates against
// specs/determinism/DeterminismTrace.tla (trace validation, code -> specification), and TestChild,
// the entry point of the fresh child processes.
//
// One scenario:
//
//	producer   a real application stack with a transaction pool builds a chain of blocks: seeded random
//	           transactions go into the pool and the block comes out of the real CreateProposalBlock
//	           (proposer path; under Galaxias rules that path pre-executes the pool content), or the
//	           driver plays another proposer and fills the proposer's header with a hand-made list that
//	           also carries transactions no pool would hand out (wrong nonce, unaffordable, below the
//	           intrinsic gas, above the block gas, foreign signature).  Commits are signed with the
//	           validators' keys (some signatures absent: the staking contract counts missed blocks).
//	           The producer executes its own blocks: path "proposer".
//	replicas   every configuration of allConfigs() gets its own database and executes the same blocks,
//	           decoded from their wire bytes, through SaveBlock + BlockExecutor.ApplyBlock: path "receiver"
//	           (cold configurations stop the chain and re-open it from the database before every block).
//	re-exec    on a warm chain object every (parent state, block) pair is executed again several times by the
//	           real commitBlock without writing: plain, with the trie prefetcher running, on a StateDB.Copy,
//	           without the snapshot tree: path "reexec".
//	children   the test binary re-executes itself (TestChild) so that Go's per-process hash seed differs:
//	           each child rebuilds the genesis documents from the scenario parameters and executes all
//	           blocks in one configuration: path "child".
//
// Every execution is logged as one "apply" event (parent state root, block hash, application hash, receipts,
// bloom, gas used, reward, validators in the order the application reported them, update list in the order
// calculateValidatorSetUpdates produced it, resulting NextValidators), every genesis execution as one "gen" event.
package determinism

import (
	"bufio"
	"encoding/json"
	"fmt"
	"io/ioutil"
	"math/big"
	"math/rand"
	"os"
	"os/exec"
	"path/filepath"
	"runtime"
	"sort"
	"strings"
	"sync"
	"testing"
	"time"

	"github.com/gogo/protobuf/proto"
	"github.com/kardiachain/go-kardia/kvm"
	"github.com/kardiachain/go-kardia/lib/common"
	"github.com/kardiachain/go-kardia/lib/crypto"
	stypes "github.com/kardiachain/go-kardia/mainchain/staking/types"
	kproto "github.com/kardiachain/go-kardia/proto/kardiachain/types"
	"github.com/kardiachain/go-kardia/trie"
	"github.com/kardiachain/go-kardia/types"

	"verifharness/internal/mbt"
)

// ---------------------------------------------------------------- events

type event struct {
	E    string `json:"e"`    // "gen" | "apply"
	N    string `json:"n"`    // run = one replica / one re-execution series / one child replica
	Scn  int    `json:"scn"`  // scenario
	Cfg  string `json:"cfg"`  // configuration name
	Path string `json:"path"` // proposer | receiver | reexec:<variant> | child
	H    int    `json:"h"`    // height (gen: 0)
	Doc  string `json:"doc"`  // gen: identity of the genesis document
	Root string `json:"root"` // gen: state root of the genesis block
	GH   string `json:"gh"`   // gen: hash of the genesis block
	result
}

func genEvent(scn int, run, cfg, path string, r *replica) event {
	return event{E: "gen", N: run, Scn: scn, Cfg: cfg, Path: path, Doc: fmt.Sprintf("scn%d", scn),
		Root: hx(r.bc.Genesis().AppHash()), GH: hx(r.bc.Genesis().Hash()),
		result: result{VR: [][]string{}, VU: [][]string{}, NVS: r.genNVS, NV: r.genNV}}
}

// ---------------------------------------------------------------- scenario file (what a child needs)

type blockRec struct {
	H      uint64   `json:"h"`
	Block  []byte   `json:"block"` // wire bytes of the block (what the parts carry)
	Seen   []byte   `json:"seen"`  // the commit that decided it
	Source string   `json:"source"`
	Kinds  []string `json:"kinds"`
	Fails  bool     `json:"fails"` // the producer could not execute it (every node must fail alike): the chain of the scenario ends here
}

type scnFile struct {
	P      scnParams  `json:"p"`
	Blocks []blockRec `json:"blocks"`
}

func decodeBlock(b blockRec) (*types.Block, *types.PartSet, *types.Commit, error) {
	pbb := new(kproto.Block)
	if err := proto.Unmarshal(b.Block, pbb); err != nil {
		return nil, nil, nil, err
	}
	blk, err := types.BlockFromProto(pbb, trie.NewStackTrie(nil))
	if err != nil {
		return nil, nil, nil, err
	}
	pc := new(kproto.Commit)
	if err := proto.Unmarshal(b.Seen, pc); err != nil {
		return nil, nil, nil, err
	}
	seen, err := types.CommitFromProto(pc)
	if err != nil {
		return nil, nil, nil, err
	}
	return blk, types.NewPartSetFromData(b.Block, types.BlockPartSizeBytes), seen, nil
}

// ---------------------------------------------------------------- producer

type stateView struct {
	r *replica
}

func (v stateView) hasCode(a common.Address) bool {
	st, err := v.r.bc.State()
	if err != nil {
		panic(err)
	}
	return st.GetCodeSize(a) > 0
}
func (v stateView) nonce(a common.Address) uint64 {
	st, err := v.r.bc.State()
	if err != nil {
		panic(err)
	}
	return st.GetNonce(a)
}
func (v stateView) balance(a common.Address) *big.Int {
	st, err := v.r.bc.State()
	if err != nil {
		panic(err)
	}
	return st.GetBalance(a)
}
func (v stateView) valContract(owner common.Address) common.Address {
	st, err := v.r.bc.State()
	if err != nil {
		panic(err)
	}
	stk, _, _ := sharedStaking()
	hdr := &types.Header{Height: v.r.bc.CurrentBlock().Height() + 1, Time: genesisTime, GasLimit: 100000000}
	a, _ := stk.GetValFromOwner(st, hdr, v.r.bc, kvm.Config{}, owner)
	return a
}

// signCommit signs the precommits that decide (h, bid) with the keys of the validators of that height; some
// signatures are left out as long as strictly more than two thirds of the power has signed.
func (s *scenario) signCommit(rng *rand.Rand, h uint64, bid types.BlockID, vals *types.ValidatorSet) *types.Commit {
	total := vals.TotalVotingPower()
	absent := map[int]bool{}
	if rng.Intn(2) == 0 {
		present := total
		for _, i := range rng.Perm(len(vals.Validators)) {
			p := vals.Validators[i].VotingPower
			if (present-p)*3 > total*2 && rng.Intn(2) == 0 {
				absent[i] = true
				present -= p
			}
		}
	}
	sigs := make([]types.CommitSig, len(vals.Validators))
	for i, v := range vals.Validators {
		if absent[i] {
			sigs[i] = types.NewCommitSigAbsent()
			continue
		}
		pv := s.pvByAddr[v.Address]
		if pv == nil {
			panic(fmt.Sprintf("no key for validator %x", v.Address))
		}
		ts := genesisTime.Add(time.Duration(h)*5*time.Second + time.Duration(i*7+rng.Intn(5))*time.Millisecond)
		vote := &types.Vote{ValidatorAddress: v.Address, ValidatorIndex: uint32(i), Height: h, Round: 1, Timestamp: ts,
			Type: kproto.PrecommitType, BlockID: bid}
		p := vote.ToProto()
		if err := pv.SignVote(chainID, p); err != nil {
			panic(err)
		}
		sigs[i] = types.NewCommitSigForBlock(p.Signature, v.Address, ts)
	}
	return types.NewCommit(h, 1, bid, sigs)
}

// flushBlock: the transactions of block h of a snapshot-flush scenario (all from the rich sender, in nonce order).
//
//	blocks 1..bulkFills      one fill transaction each (bulkPerFill fresh slots with 32-byte values): together more than the
//	                         snapshot aggregator's memory limit, so that these layers go to the snapshot's disk layer once more
//	                         than 128 diff layers are stacked on top
//	block 3, before the fill the slots the GENESIS state holds are cleared (the clearing SSTORE reads them through the disk layer)
//	                         and the victim -- a genesis account with code and storage -- is destroyed
//	the last 9 blocks        each re-reads a ninth of the cleared slots (SLOAD, +1, SSTORE) and probes the victim (balance, code
//	                         hash, code size, call): whichever of them runs after the flush reads what the disk layer serves
func (s *scenario) flushBlock(h uint64, view chainView, signer types.Signer) []genTx {
	from, key := s.sndAddr[0], s.sndKeys[0]
	nonce := view.nonce(from)
	var out []genTx
	add := func(to common.Address, gas uint64, data []byte, kind string) {
		tx, err := types.SignTx(signer, types.NewTransaction(nonce, to, new(big.Int), gas, big.NewInt(1), data), key)
		if err != nil {
			panic(err)
		}
		out = append(out, genTx{tx: tx, kind: kind, pool: true})
		nonce++
	}
	last := uint64(s.p.Blocks)
	switch {
	case h <= bulkFills:
		if h == 3 {
			add(s.bulk, 4000000, bulkData(bulkBase, bulkBase+bulkPreset, 1), "bulk-clear")
			add(s.victim, 200000, nil, "victim-kill")
		}
		add(s.bulk, 192000000, bulkData(int(h)*10000, int(h)*10000+bulkPerFill, 0), "bulk-fill")
	case h+9 > last:
		k := int(h + 9 - last - 1) // 0..8
		per := (bulkPreset + 8) / 9
		lo, hi := bulkBase+k*per, bulkBase+(k+1)*per
		if hi > bulkBase+bulkPreset {
			hi = bulkBase + bulkPreset
		}
		add(s.bulk, 3000000, bulkData(lo, hi, 2), "bulk-reread")
		add(s.probe, 400000, nil, "victim-probe")
	}
	return out
}

// doubleSign builds duplicate-vote evidence against a validator of height e: two prevotes of round 1 for different blocks.
func (s *scenario) doubleSign(rng *rand.Rand, p *replica, e uint64) types.Evidence {
	vals, err := p.cs.LoadValidators(e)
	if err != nil || vals == nil {
		return nil
	}
	meta := p.bc.LoadBlockMeta(e)
	if meta == nil {
		return nil
	}
	i := rng.Intn(len(vals.Validators))
	v := vals.Validators[i]
	pv := s.pvByAddr[v.Address]
	mk := func(tag string) *types.Vote {
		bid := types.BlockID{Hash: common.BytesToHash(crypto.Keccak256([]byte(tag))), PartsHeader: types.PartSetHeader{Total: 1, Hash: common.BytesToHash(crypto.Keccak256([]byte("parts" + tag)))}}
		vote := &types.Vote{ValidatorAddress: v.Address, ValidatorIndex: uint32(i), Height: e, Round: 1, Timestamp: meta.Header.Time.Add(time.Millisecond),
			Type: kproto.PrevoteType, BlockID: bid}
		pb := vote.ToProto()
		if err := pv.SignVote(chainID, pb); err != nil {
			panic(err)
		}
		vote.Signature = pb.Signature
		return vote
	}
	ev := types.NewDuplicateVoteEvidence(mk(fmt.Sprintf("x%d", rng.Intn(1000))), mk(fmt.Sprintf("y%d", rng.Intn(1000))), meta.Header.Time, vals)
	if ev == nil {
		return nil
	}
	return ev
}

type produced struct {
	file   scnFile
	events []event
	prod   *replica // the producer, still open (default configuration, warm): used for the re-executions
	lcis   []stypes.LastCommitInfo
	byzs   [][]stypes.Evidence
	kinds  map[string]int
	failed string // the block that ended the chain, if any
}

func (s *scenario) produce(res *mbt.Result) (*produced, error) {
	rng := rand.New(rand.NewSource(s.p.Seed))
	p, err := newReplica(s, cfgSpec{name: "default", cache: nil}, true)
	if err != nil {
		return nil, fmt.Errorf("producer: %v", err)
	}
	out := &produced{file: scnFile{P: s.p}, prod: p, kinds: map[string]int{}}
	run := fmt.Sprintf("s%d/producer", s.p.ID)
	out.events = append(out.events, genEvent(s.p.ID, run, "default", "proposer", p))
	view := stateView{p}
	g := &gen{rng: rng, s: s, self: -1}
	lastCommit := types.NewCommit(0, 0, types.BlockID{}, nil)
	nEvidence := 0 // a chain that slashes all its validators ends early
	followUp := false
	for h := uint64(1); h <= uint64(s.p.Blocks); h++ {
		signer := types.MakeSigner(p.bc.Config(), &h)
		tg := &txGen{rng: rng, s: s, g: g, signer: signer, next: map[common.Address]uint64{}, legacy: !p.bc.Config().IsGalaxias(&h)}
		handMade := rng.Intn(5) < 2
		n := rng.Intn(9)
		if rng.Intn(10) == 0 {
			n = 0
		}
		if s.p.Long && h+8 < uint64(s.p.Blocks) && rng.Intn(12) != 0 {
			n = 0 // a long chain: mostly empty blocks, transactions at the end
		}
		var txs []genTx
		if followUp {
			// the previous block destroyed the victim and reverted its re-creation: read it now
			txs, followUp = append(txs, tg.readers(view)...), false
		}
		single := len(txs) == 0 && rng.Intn(8) == 0 && !(s.p.Long && h+8 < uint64(s.p.Blocks))
		if single {
			// a block whose ONLY transaction calls a precompile / non-existent address: nothing else finalises its accounts
			n = 0
			tg2 := *tg
			for try := 0; try < 40; try++ {
				if t := tg2.one(view, false); t.kind == "precompile-call" {
					txs = append(txs, t)
					break
				}
				tg2.next = map[common.Address]uint64{}
			}
		}
		for i := 0; i < n; i++ {
			txs = append(txs, tg.one(view, handMade))
			if rng.Intn(12) == 0 {
				txs = append(txs, tg.resurrection(view)...)
			}
			if rng.Intn(10) == 0 && !followUp {
				var seq []genTx
				seq, followUp = tg.destructRevert(view)
				txs = append(txs, seq...)
			}
		}
		if s.p.Flush {
			handMade, txs, followUp = true, s.flushBlock(h, view, signer), false
		}
		var kinds []string
		source := "pool"
		if !handMade {
			for _, t := range txs {
				var e error
				if rng.Intn(2) == 0 {
					e = p.pool.AddLocal(t.tx)
				} else {
					e = p.pool.AddRemotesSync([]*types.Transaction{t.tx})[0]
				}
				if e == nil {
					kinds = append(kinds, t.kind)
				}
			}
			p.pool.VerifBarrier()
		}
		proposer := p.st.Validators.GetProposer().Address
		block, parts := p.bo.CreateProposalBlock(h, p.st, proposer, lastCommit)
		if handMade {
			source = "hand"
			var list []*types.Transaction
			for _, t := range txs {
				list = append(list, t.tx)
				kinds = append(kinds, t.kind)
			}
			// another proposer's order: nonce order per sender is kept or broken at random
			if rng.Intn(4) == 0 && !s.p.Flush {
				rng.Shuffle(len(list), func(i, j int) { list[i], list[j] = list[j], list[i] })
			}
			hdr := block.Header()
			if rng.Intn(3) == 0 {
				hdr.ProposerAddress = p.st.Validators.Validators[rng.Intn(len(p.st.Validators.Validators))].Address
			}
			var evs []types.Evidence
			if h >= 2 && rng.Intn(3) == 0 && nEvidence < 2 && !s.p.Flush && !(s.p.Long && h+8 < uint64(s.p.Blocks)) {
				nEvidence++
				// the block carries evidence of a double sign at the previous height: commitBlock slashes and jails the validator
				if ev := s.doubleSign(rng, p, h-1); ev != nil {
					evs = append(evs, ev)
					kinds = append(kinds, "evidence-double-sign")
				}
			}
			block = types.NewBlock(hdr, list, lastCommit, evs, trie.NewStackTrie(nil))
			parts = block.MakePartSet(types.BlockPartSizeBytes)
		}
		bz, err := ioutil.ReadAll(parts.GetReader())
		if err != nil {
			return out, err
		}
		bid := types.BlockID{Hash: block.Hash(), PartsHeader: parts.Header()}
		seen := s.signCommit(rng, h, bid, p.st.Validators)
		sb, err := proto.Marshal(seen.ToProto())
		if err != nil {
			return out, err
		}
		out.file.Blocks = append(out.file.Blocks, blockRec{H: h, Block: bz, Seen: sb, Source: source, Kinds: kinds})
		for _, k := range kinds {
			out.kinds[k]++
		}
		r, err := p.apply(block, parts, seen)
		ev := event{E: "apply", N: run, Scn: s.p.ID, Cfg: "default", Path: "proposer", H: int(h), result: r}
		out.events = append(out.events, ev)
		if err != nil {
			// not a statement of C06 by itself (all nodes may fail alike: TLC compares the failures); the chain ends here
			out.file.Blocks[len(out.file.Blocks)-1].Fails = true
			out.failed = fmt.Sprintf("scenario %d (seed %d): block %d (%s: %s) cannot be executed: %v", s.p.ID, s.p.Seed, h, source, strings.Join(kinds, ","), err)
			return out, nil
		}
		out.lcis = append(out.lcis, p.rec.lci)
		out.byzs = append(out.byzs, p.rec.byz)
		// reset the pool to the new head on this goroutine (see net_test.go: a (nil, nil) reset REQUEST can be merged into a
		// pending head-event request and crash TxPool.reset)
		p.pool.VerifRunReorg(true, nil)
		lastCommit = seen
	}
	return out, nil
}

// ---------------------------------------------------------------- receivers

func (s *scenario) receive(res *mbt.Result, f *scnFile, cfg cfgSpec, path string, runTag string) []event {
	var evs []event
	run := fmt.Sprintf("s%d/%s", s.p.ID, runTag)
	r, err := newReplica(s, cfg, false)
	if err != nil {
		res.Mismatch("determinism:genesis:"+path, fmt.Sprintf("scenario %d: configuration %s cannot build the chain from the genesis document: %v", s.p.ID, cfg.name, err),
			map[string]interface{}{"scenario": s.p, "cfg": cfg.name})
		return nil
	}
	defer func() { r.close() }()
	evs = append(evs, genEvent(s.p.ID, run, cfg.name, path, r))
	for _, b := range f.Blocks {
		block, parts, seen, err := decodeBlock(b)
		if err != nil {
			res.Mismatch("infra:decode-block", err.Error(), nil)
			return evs
		}
		if cfg.reopen && (!f.P.Long || b.H%16 == 1 || b.H+6 > uint64(f.P.Blocks)) {
			if err := r.reopen(); err != nil {
				res.Mismatch("determinism:reopen", fmt.Sprintf("scenario %d: configuration %s cannot re-open its chain before block %d: %v", s.p.ID, cfg.name, b.H, err),
					map[string]interface{}{"scenario": s.p, "cfg": cfg.name, "height": b.H})
				return evs
			}
			// the genesis document is executed again at every start (SetupGenesisBlock compares the result with the stored block)
			evs = append(evs, genEvent(s.p.ID, run, cfg.name, path, r))
		}
		rr, err := r.apply(block, parts, seen)
		evs = append(evs, event{E: "apply", N: run, Scn: s.p.ID, Cfg: cfg.name, Path: path, H: int(b.H), result: rr})
		if err != nil {
			if !b.Fails {
				// the producer executed this block: a replica that cannot is a disagreement; TLC reports it from the event
				// (err field), the full text of the error goes into the detail here
				res.Mismatch("determinism:apply:"+sigOf(rr.Err)+":"+path, fmt.Sprintf("scenario %d (seed %d): configuration %s could not apply block %d which its proposer applied: %v",
					s.p.ID, s.p.Seed, cfg.name, b.H, err), map[string]interface{}{"scenario": s.p, "cfg": cfg.name, "height": b.H, "kinds": b.Kinds})
			}
			return evs
		}
	}
	return evs
}

// ---------------------------------------------------------------- re-execution on a warm chain

var flushConfigs = map[string]bool{"default": true, "nosnap": true, "default-cold": true, "archive": true}

var reexecVariants = []string{"plain", "prefetch", "copy", "nosnap", "plain", "prefetch-copy"}

func (s *scenario) reexec(res *mbt.Result, pr *produced, reps int) []event {
	var evs []event
	p := pr.prod
	for i, b := range pr.file.Blocks {
		if i >= len(pr.lcis) {
			break
		}
		if s.p.Long && b.H+8 < uint64(s.p.Blocks) {
			continue // the parent states of old blocks are garbage collected by then
		}
		block, _, _, err := decodeBlock(b)
		if err != nil {
			res.Mismatch("infra:decode-block", err.Error(), nil)
			return evs
		}
		for k := 0; k < reps; k++ {
			variant := reexecVariants[k%len(reexecVariants)]
			run := fmt.Sprintf("s%d/reexec-%s-%d", s.p.ID, variant, k)
			ev := event{E: "apply", N: run, Scn: s.p.ID, Cfg: "default", Path: "reexec:" + variant, H: int(b.H)}
			func() {
				defer func() {
					if x := recover(); x != nil {
						ev.Err = errClass("panic", fmt.Errorf("%v", x))
						res.Mismatch("determinism:reexec:panic", fmt.Sprintf("scenario %d: re-execution (%s) of block %d panicked: %v", s.p.ID, variant, b.H, x),
							map[string]interface{}{"scenario": s.p, "height": b.H})
					}
				}()
				st, err := p.bc.VerifDetStateAt(b.H-1, variant != "nosnap")
				if err != nil {
					ev.E = "" // the parent state is gone (garbage collected): nothing to execute on
					return
				}
				ev.Par = hx(st.IntermediateRoot(true))
				ev.Blk = hx(block.Hash())
				if strings.HasPrefix(variant, "prefetch") {
					st.StartPrefetcher("verif")
					defer st.StopPrefetcher()
				}
				if strings.HasSuffix(variant, "copy") {
					st = st.Copy()
				}
				vals, bi, err := p.bo.VerifDetCommitBlock(st, block.Transactions(), block.Header(), pr.lcis[i], pr.byzs[i])
				if err != nil {
					ev.Err = errClass("apply-error", fmt.Errorf("commit failed for application: %v", err))
					return
				}
				ev.App = hx(st.IntermediateRoot(true))
				infoResult(&ev.result, encodeInfo(bi), len(block.Transactions()))
				ev.VR = valList(vals)
			}()
			if ev.VR == nil {
				ev.VR = [][]string{}
			}
			ev.VU, ev.NVS = [][]string{}, [][]string{}
			if ev.E != "" {
				evs = append(evs, ev)
			}
		}
	}
	return evs
}

// ---------------------------------------------------------------- TestRecord

func writeEvents(path string, evs []event) error {
	f, err := os.Create(path)
	if err != nil {
		return err
	}
	w := bufio.NewWriter(f)
	enc := json.NewEncoder(w)
	for _, e := range evs {
		fixLists(&e)
		if err := enc.Encode(e); err != nil {
			return err
		}
	}
	if err := w.Flush(); err != nil {
		return err
	}
	return f.Close()
}

// fixLists: the trace reader wants sequences, not null
func fixLists(e *event) {
	if e.VR == nil {
		e.VR = [][]string{}
	}
	if e.VU == nil {
		e.VU = [][]string{}
	}
	if e.NVS == nil {
		e.NVS = [][]string{}
	}
}

func jsonMarshal(v interface{}) ([]byte, error) { return json.Marshal(v) }

func scenarioParams(seed int64, id int) scnParams {
	rng := rand.New(rand.NewSource(seed*1000003 + int64(id)*7907 + 11))
	p := scnParams{ID: id, Seed: seed*1000003 + int64(id), Blocks: 3 + rng.Intn(3)}
	if id%24 == 5 {
		p.Long, p.Blocks = true, 131+rng.Intn(8)
	}
	p.NVals = 3 + rng.Intn(3)
	p.Started = 3 + rng.Intn(p.NVals-2)
	if p.Started > 4 {
		p.Started = 4
	}
	switch rng.Intn(6) {
	case 0, 1:
		p.Galaxias = -1
	case 2, 3:
		p.Galaxias = 0
	default:
		p.Galaxias = 1 + rng.Intn(3) // the hard-fork switch runs inside the scenario
	}
	if id%40 == 11 {
		// snapshot-flush scenario: pre-Galaxias rules (block gas limit 200M: a fill transaction writes 9300 fresh slots)
		p.Long, p.Flush, p.Blocks, p.Galaxias = true, true, 128+bulkFills+6+rng.Intn(3), -1
	}
	return p
}

// TestRecord writes DET_SHARDS trace files <DET_TRACE>.<k> (scenario i goes to shard i mod DET_SHARDS).
func TestRecord(t *testing.T) {
	res := mbt.NewResult()
	defer res.Write()
	base := os.Getenv("DET_TRACE")
	if base == "" {
		base = filepath.Join(os.TempDir(), "det-trace")
	}
	nscn := mbt.EnvInt("DET_SCENARIOS", 8)
	first := mbt.EnvInt("DET_FIRST", 0)
	shards := mbt.EnvInt("DET_SHARDS", 1)
	reps := mbt.EnvInt("DET_REPS", 4)
	nchild := mbt.EnvInt("DET_CHILDREN", 2)
	workers := mbt.EnvInt("DET_WORKERS", runtime.NumCPU())
	seed := mbt.Seed()
	cfgs := allConfigs()

	type scnOut struct {
		id   int
		evs  []event
		file *scnFile
	}
	outs := make([]scnOut, nscn)
	var wg sync.WaitGroup
	sem := make(chan struct{}, workers)
	kinds := map[string]int{}
	var halted []string // chains that ended in a block nobody can execute (not C06's subject; listed in the evidence)
	var kmu sync.Mutex
	for i := 0; i < nscn; i++ {
		wg.Add(1)
		sem <- struct{}{}
		go func(i int) {
			defer wg.Done()
			defer func() { <-sem }()
			id := first + i
			s := newScenario(scenarioParams(seed, id))
			outs[i].id = id
			defer func() {
				if x := recover(); x != nil {
					res.Mismatch("determinism:driver:panic", fmt.Sprintf("scenario %d (seed %d): panic %v", id, s.p.Seed, x), map[string]interface{}{"scenario": s.p})
				}
			}()
			pr, err := s.produce(res)
			if pr != nil && pr.prod != nil {
				defer pr.prod.close()
			}
			if err != nil {
				res.Mismatch("determinism:producer", fmt.Sprintf("scenario %d (seed %d): %v", id, s.p.Seed, err), map[string]interface{}{"scenario": s.p})
				return
			}
			evs := pr.events
			for ci, cfg := range cfgs {
				if s.p.Flush && !flushConfigs[cfg.name] {
					continue // the expensive scenario kind runs where it matters: long-running with snapshots, trie only, re-opened
				}
				evs = append(evs, s.receive(res, &pr.file, cfg, "receiver", fmt.Sprintf("c%d-%s", ci, cfg.name))...)
			}
			evs = append(evs, s.reexec(res, pr, reps)...)
			outs[i].evs = evs
			outs[i].file = &pr.file
			kmu.Lock()
			for k, v := range pr.kinds {
				kinds[k] += v
			}
			if pr.failed != "" {
				halted = append(halted, pr.failed)
			}
			kmu.Unlock()
			res.Behaviour()
			if i < 2 {
				var hs []string
				for _, b := range pr.file.Blocks {
					hs = append(hs, fmt.Sprintf("h%d:%s:%s", b.H, b.Source, strings.Join(b.Kinds, ",")))
				}
				res.Sample(map[string]interface{}{"scenario": s.p, "blocks": hs})
			}
		}(i)
	}
	wg.Wait()

	// children: fresh processes (different hash seed), each executes every scenario in one configuration
	var files []*scnFile
	for _, o := range outs {
		if o.file != nil {
			files = append(files, o.file)
		}
	}
	childEvs := map[int][]event{}
	if nchild > 0 && len(files) > 0 {
		in := base + ".scenarios.json"
		bz, _ := json.Marshal(files)
		if err := os.WriteFile(in, bz, 0o644); err != nil {
			res.Mismatch("infra:write-scenarios", err.Error(), nil)
		}
		var cwg sync.WaitGroup
		var cmu sync.Mutex
		for c := 0; c < nchild; c++ {
			cwg.Add(1)
			go func(c int) {
				defer cwg.Done()
				// configuration of child c: rotate over all configurations with the seed, so that over the seeds
				// every configuration runs in a fresh process
				ci := (int(seed%1000) + c*3) % len(cfgs)
				outp := fmt.Sprintf("%s.child%d", base, c)
				cmd := exec.Command(os.Args[0], "-test.run", "^TestChild$", "-test.count=1")
				cmd.Env = append(os.Environ(), "DET_CHILD_IN="+in, "DET_CHILD_OUT="+outp, fmt.Sprintf("DET_CHILD_CFG=%d", ci),
					fmt.Sprintf("DET_CHILD_NO=%d", c), "VERIF_OUT="+outp+".result")
				if b, err := cmd.CombinedOutput(); err != nil {
					res.Mismatch("infra:child", fmt.Sprintf("child %d: %v: %s", c, err, tail(string(b), 2000)), nil)
					return
				}
				evs, err := readEvents(outp)
				if err != nil {
					res.Mismatch("infra:child-events", err.Error(), nil)
					return
				}
				// fold the child's own mismatches (panics, apply errors) into this result
				if rb, err := os.ReadFile(outp + ".result"); err == nil {
					var cr struct {
						Mismatches []mbt.Mismatch `json:"mismatches"`
					}
					if json.Unmarshal(rb, &cr) == nil {
						for _, m := range cr.Mismatches {
							res.Mismatch(m.Sig, m.Text, m.Detail)
						}
					}
				}
				cmu.Lock()
				for _, e := range evs {
					childEvs[e.Scn] = append(childEvs[e.Scn], e)
				}
				cmu.Unlock()
				os.Remove(outp)
				os.Remove(outp + ".result")
			}(c)
		}
		cwg.Wait()
		os.Remove(in)
	}

	// shards
	perShard := make([][]event, shards)
	nev, napply := 0, 0
	distinct := map[string]bool{}
	for _, o := range outs {
		k := o.id % shards
		all := append(o.evs, childEvs[o.id]...)
		perShard[k] = append(perShard[k], all...)
		for _, e := range all {
			nev++
			if e.E == "apply" {
				napply++
				// non-trivial: the block has transactions or changes the validator set
				if e.Gas > 0 || len(e.VU) > 0 {
					distinct[e.Par+e.Blk] = true
				}
			}
		}
	}
	for k := range perShard {
		if err := writeEvents(fmt.Sprintf("%s.%d", base, k), perShard[k]); err != nil {
			res.Mismatch("infra:write-trace", err.Error(), nil)
		}
	}
	res.Count(napply)
	for k := range distinct {
		res.Distinct(k)
	}
	res.Set("events", nev)
	res.Set("executions", napply)
	res.Set("scenarios_recorded", len(files))
	res.Set("configurations", len(cfgs))
	res.Set("child_processes", nchild)
	var ks []string
	for k, v := range kinds {
		ks = append(ks, fmt.Sprintf("%s=%d", k, v))
	}
	sort.Strings(ks)
	res.Set("tx_kinds", strings.Join(ks, " "))
	sort.Strings(halted)
	res.Set("chains_ended_by_unexecutable_block", len(halted))
	if len(halted) > 0 {
		res.Set("unexecutable_block_example", halted[0])
	}
}

func tail(s string, n int) string {
	if len(s) > n {
		return s[len(s)-n:]
	}
	return s
}

func readEvents(path string) ([]event, error) {
	f, err := os.Open(path)
	if err != nil {
		return nil, err
	}
	defer f.Close()
	var out []event
	sc := bufio.NewScanner(f)
	sc.Buffer(make([]byte, 1<<20), 1<<26)
	for sc.Scan() {
		var e event
		if err := json.Unmarshal(sc.Bytes(), &e); err != nil {
			return nil, err
		}
		out = append(out, e)
	}
	return out, sc.Err()
}

// TestChild runs in a fresh process started by TestRecord (it does nothing when run directly).
func TestChild(t *testing.T) {
	in := os.Getenv("DET_CHILD_IN")
	if in == "" {
		t.Skip("child entry point")
	}
	res := mbt.NewResult()
	defer res.Write()
	bz, err := os.ReadFile(in)
	if err != nil {
		res.Mismatch("infra:child-read", err.Error(), nil)
		return
	}
	var files []*scnFile
	if err := json.Unmarshal(bz, &files); err != nil {
		res.Mismatch("infra:child-parse", err.Error(), nil)
		return
	}
	cfgs := allConfigs()
	ci := mbt.EnvInt("DET_CHILD_CFG", 0) % len(cfgs)
	no := mbt.EnvInt("DET_CHILD_NO", 0)
	var evs []event
	for _, f := range files {
		s := newScenario(f.P)
		func() {
			defer func() {
				if x := recover(); x != nil {
					res.Mismatch("determinism:driver:panic", fmt.Sprintf("child %d, scenario %d: panic %v", no, f.P.ID, x), map[string]interface{}{"scenario": f.P})
				}
			}()
			evs = append(evs, s.receive(res, f, cfgs[ci], "child", fmt.Sprintf("child%d-%s", no, cfgs[ci].name))...)
		}()
	}
	if err := writeEvents(os.Getenv("DET_CHILD_OUT"), evs); err != nil {
		res.Mismatch("infra:child-write", err.Error(), nil)
	}
}
