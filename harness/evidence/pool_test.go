//go:build verif

package evidence

import (
	"bufio"
	"encoding/json"
	"fmt"
	"os"
	"sort"
	"strings"
	"testing"

	"github.com/kardiachain/go-kardia/kai/kaidb/memorydb"
	"github.com/kardiachain/go-kardia/types"
	evpool "github.com/kardiachain/go-kardia/types/evidence"

	"verifharness/internal/mbt"
)

type poolUniverse struct {
	Items []AEv `json:"items"`
	L0    int   `json:"l0"`
	Cons  []int `json:"cons"`
	Raw   []int `json:"raw"` // items consensus hands over with its own stamp (see twins)
}

// readUniverse finds the line MC_EvidencePool prints at start-up (the items behind the indices of the histories).
func readUniverse(path string) (*poolUniverse, error) {
	f, err := os.Open(path)
	if err != nil {
		return nil, err
	}
	defer f.Close()
	sc := bufio.NewScanner(f)
	sc.Buffer(make([]byte, 1<<20), 1<<26)
	for sc.Scan() {
		line := sc.Text()
		if !strings.HasPrefix(line, `"{\"items\"`) {
			continue
		}
		var inner string
		if err := json.Unmarshal([]byte(line), &inner); err != nil {
			return nil, err
		}
		u := &poolUniverse{}
		return u, json.Unmarshal([]byte(inner), u)
	}
	return nil, fmt.Errorf("no universe line in %s", path)
}

type poolObs struct {
	H int   `json:"h"`
	P []int `json:"p"`
	C []int `json:"c"`
	G []int `json:"g"`
	Q []int `json:"q"`
	W []int `json:"w"` // pending in the raw form (the stamp consensus gave)
}
type poolLine struct {
	H [][]json.RawMessage `json:"h"`
	O poolObs             `json:"o"`
}

// realPool: one real pool under replay.
type realPool struct {
	f    *Fixture
	view *chainView
	db   *memorydb.Database
	p    *evpool.Pool
	evs  []*types.DuplicateVoteEvidence // real evidence per item (index = item - 1)
	ids  map[string]int                 // evidence hash -> item (also the hash of the item's twin)
	// twins[k-1] != nil for the raw items: the same two votes as consensus/state.go tryAddVote may hand them over -
	// the time is not the block time (median of the observer's own last commit) and the total is that of another set
	twins []*types.DuplicateVoteEvidence
}

func (rp *realPool) isPending(k int) bool {
	return rp.p.VerifIsPending(rp.evs[k-1]) || (rp.twins[k-1] != nil && rp.p.VerifIsPending(rp.twins[k-1]))
}

func (rp *realPool) list(l []int) types.EvidenceList {
	var out types.EvidenceList
	for _, k := range l {
		out = append(out, rp.evs[k-1])
	}
	return out
}

// throughBlock passes a list through the block codec (types.EvidenceData), as a proposed block's evidence is.
func throughBlock(l types.EvidenceList) (types.EvidenceList, error) {
	d := &types.EvidenceData{Evidence: l}
	pb, err := d.ToProto()
	if err != nil {
		return nil, err
	}
	out := &types.EvidenceData{}
	if err := out.FromProto(pb); err != nil {
		return nil, err
	}
	return out.Evidence, nil
}

// step executes one call of the history on the real pool and returns the specification's result class.
func (rp *realPool) step(op string, arg json.RawMessage) (class string, ec string, pan interface{}) {
	defer func() {
		if r := recover(); r != nil {
			class, pan = "panic", r
		}
	}()
	switch op {
	case "recv":
		var k int
		json.Unmarshal(arg, &k)
		return recvReal(rp.p, rp.evs[k-1])
	case "cons", "consb":
		var k int
		json.Unmarshal(arg, &k)
		ev := rp.evs[k-1]
		wasP, wasC := rp.isPending(k), rp.p.VerifIsCommitted(ev)
		// as consensus/state.go tryAddVote: the real constructor on (the vote seen first, the conflicting vote);
		// cons = the vote with the smaller block key was seen first, consb = the other one
		first, second := ev.VoteA.Copy(), ev.VoteB.Copy()
		if op == "consb" {
			first, second = second, first
		}
		vs, verr := rp.f.Ref.Store.LoadValidators(ev.Height())
		if verr != nil {
			return "error", "novalset", nil
		}
		built := types.NewDuplicateVoteEvidence(first, second, ev.Timestamp, vs)
		if built == nil {
			return "unbuildable", "nil", nil
		}
		if rp.twins[k-1] != nil { // the stamp consensus gives
			built.Timestamp = built.Timestamp.Add(1)
			built.TotalVotingPower++
		}
		if berr := built.ValidateBasic(); berr != nil {
			// it would be stored, but no decoding (the pool's own database, gossip, a block) takes it back
			return "unbuildable", errClass(berr), nil
		}
		err := rp.p.AddEvidenceFromConsensus(built)
		switch {
		case err != nil:
			return "error", errClass(err), nil
		case wasP:
			return "dup", "nil", nil
		case rp.isPending(k):
			return "added", "nil", nil
		case wasC:
			return "committed", "nil", nil
		}
		return "ignored", "nil", nil
	case "check", "apply":
		var l []int
		json.Unmarshal(arg, &l)
		lst, err := throughBlock(rp.list(l))
		if err != nil {
			return "malformed", errClass(err), nil
		}
		err = rp.p.CheckEvidence(lst)
		if op == "check" {
			if err != nil {
				return "invalid", errClass(err), nil
			}
			return "ok", "nil", nil
		}
		if err != nil {
			return "rejected", errClass(err), nil
		}
		rp.view.cur++
		rp.p.Update(rp.view.Load(), lst)
		return "applied", "nil", nil
	case "restart":
		p, _, err := rp.f.newPool(rp.view, rp.db)
		if err != nil {
			return "error", err.Error(), nil
		}
		rp.p = p
		return "ok", "nil", nil
	}
	return "unknown-op", "", nil
}

func sortedInts(m map[int]bool) []int {
	out := []int{}
	for k := range m {
		out = append(out, k)
	}
	sort.Ints(out)
	return out
}

type problem struct{ sig, text string }

// observe projects the real pool onto the specification's observation and checks PendingEvidence: without limit
// it must return the proposable items `want` (ordered by height); under every byte limit (the exact size of each
// prefix and one byte less) exactly the prefix that fits.
func (rp *realPool) observe(want []int) (pend, comm, gossip, raw []int, size int, problems []problem) {
	pm, cm, gm, wm := map[int]bool{}, map[int]bool{}, map[int]bool{}, map[int]bool{}
	npend := 0
	for i, ev := range rp.evs {
		if rp.p.VerifIsPending(ev) {
			pm[i+1] = true
			npend++
		}
		if rp.p.VerifIsCommitted(ev) {
			cm[i+1] = true
		}
		if tw := rp.twins[i]; tw != nil {
			if rp.p.VerifIsPending(tw) {
				if pm[i+1] {
					problems = append(problems, problem{"raw-and-restated", fmt.Sprintf("item %d is pending twice: as consensus stamped it and with the facts of its height", i+1)})
				}
				pm[i+1], wm[i+1] = true, true
				npend++
			}
			if rp.p.VerifIsCommitted(tw) {
				problems = append(problems, problem{"raw-committed", fmt.Sprintf("item %d is marked committed in the form consensus stamped it", i+1)})
			}
		}
	}
	for e := rp.p.EvidenceFront(); e != nil; e = e.Next() {
		id := rp.ids[e.Value.(types.Evidence).Hash().Hex()]
		if gm[id] {
			problems = append(problems, problem{"gossip-list-repeats", fmt.Sprintf("the gossip list holds item %d twice", id)})
		}
		gm[id] = true
	}
	size = int(rp.p.Size())
	all, total := rp.p.PendingEvidence(-1)
	seen := map[int]bool{}
	lastH := uint64(0)
	var cum []int64
	var pb types.EvidenceData
	for _, ev := range all {
		id := rp.ids[ev.Hash().Hex()]
		if id == 0 || seen[id] {
			problems = append(problems, problem{"repeats", fmt.Sprintf("PendingEvidence(-1) returns an unknown or repeated item (%d)", id)})
		}
		seen[id] = true
		if ev.Height() < lastH {
			problems = append(problems, problem{"order", "PendingEvidence(-1) is not ordered by height"})
		}
		lastH = ev.Height()
		pb.Evidence = append(pb.Evidence, ev)
		p, _ := pb.ToProto()
		cum = append(cum, int64(p.Size()))
	}
	if len(all) > 0 && total != cum[len(cum)-1] {
		problems = append(problems, problem{"size-reported", fmt.Sprintf("PendingEvidence(-1) reports %d bytes, the list encodes to %d", total, cum[len(cum)-1])})
	}
	qm := map[int]bool{}
	for _, id := range want {
		qm[id] = true
		if !seen[id] {
			problems = append(problems, problem{"misses-proposable", fmt.Sprintf("item %d is pending, verifiable and unexpired but PendingEvidence(-1) does not return it (Size() = %d)", id, size)})
		}
	}
	for id := range seen {
		if qm[id] || id == 0 {
			continue
		}
		ev := rp.evs[id-1]
		switch {
		case !pm[id]:
			problems = append(problems, problem{"returns-not-pending", fmt.Sprintf("PendingEvidence(-1) returns item %d which is not pending", id)})
		case ev.Height() > rp.view.cur:
			problems = append(problems, problem{"returns-unverifiable", fmt.Sprintf("PendingEvidence offers a proposer item %d of height %d while the chain is at height %d: no node can verify it before block %d exists",
				id, ev.Height(), rp.view.cur, ev.Height())})
		case rp.p.VerifIsExpired(ev):
			problems = append(problems, problem{"returns-expired", fmt.Sprintf("PendingEvidence offers a proposer item %d of height %d which is expired at height %d", id, ev.Height(), rp.view.cur)})
		default:
			problems = append(problems, problem{"returns-other", fmt.Sprintf("PendingEvidence returns item %d which the specification does not consider proposable", id)})
		}
	}
	// byte limits: exactly the first k items fit into cum[k-1] bytes, one byte less holds k-1 items
	for k := 1; k <= len(cum); k++ {
		got, _ := rp.p.PendingEvidence(cum[k-1])
		less, _ := rp.p.PendingEvidence(cum[k-1] - 1)
		if len(got) != k || len(less) != k-1 {
			problems = append(problems, problem{"byte-limit", fmt.Sprintf("PendingEvidence(%d) returns %d items and PendingEvidence(%d) %d; the first %d items encode to exactly %d bytes",
				cum[k-1], len(got), cum[k-1]-1, len(less), k, cum[k-1])})
			continue
		}
		for j := range got {
			if got[j].Hash() != all[j].Hash() {
				problems = append(problems, problem{"byte-limit", "PendingEvidence(limit) is not a prefix of PendingEvidence(-1)"})
			}
		}
	}
	if size != npend {
		problems = append(problems, problem{"size", fmt.Sprintf("Size() = %d with %d pending entries", size, npend)})
	}
	return sortedInts(pm), sortedInts(cm), sortedInts(gm), sortedInts(wm), size, problems
}

func eqInts(a, b []int) bool {
	if len(a) != len(b) {
		return false
	}
	x, y := append([]int{}, a...), append([]int{}, b...)
	sort.Ints(x)
	sort.Ints(y)
	for i := range x {
		if x[i] != y[i] {
			return false
		}
	}
	return true
}

// stepSig: the stable signature of a result-class disagreement.
func stepSig(op, spec, why, real, ec string) string {
	accepted := map[string]bool{"added": true, "ok": true, "applied": true}
	switch {
	case real == "panic":
		return "evidence:" + op + ":panic:" + spec
	case real == "unbuildable":
		return "evidence:" + op + ":constructor:" + ec
	case op == "cons" && spec == "committed" && real == "added":
		return "evidence:cons:added-although-committed"
	case accepted[real] && !accepted[spec]:
		return "evidence:" + op + ":accepted-invalid:" + why
	case accepted[spec] && !accepted[real]:
		return "evidence:" + op + ":rejected-valid:" + ec
	}
	return "evidence:" + op + ":class:" + spec + "-" + real
}

// TestPoolReplay replays every transition of MC_EvidencePool: the history from a fresh real pool at height l0
// over the real chain; the result class of every call and the final observation must be the specification's.
func TestPoolReplay(t *testing.T) {
	res := mbt.NewResult()
	defer res.Write()
	s, err := scriptFromEnv()
	if err != nil {
		res.Mismatch("infra:script", err.Error(), nil)
		return
	}
	f, err := GetFixture(s)
	if err != nil {
		res.Mismatch("infra:fixture", err.Error(), nil)
		return
	}
	mb, md := envParams(f)
	path := os.Getenv("EV_DUMP")
	u, err := readUniverse(path)
	if err != nil {
		res.Mismatch("infra:universe", err.Error(), nil)
		return
	}
	evs := make([]*types.DuplicateVoteEvidence, len(u.Items))
	ids := map[string]int{}
	for i, it := range u.Items {
		evs[i] = f.Evidence(it)
		if err := evs[i].ValidateBasic(); err != nil {
			res.Mismatch("infra:item", fmt.Sprintf("item %d of the universe is refused by ValidateBasic: %v", i+1, err), it)
			return
		}
		ids[evs[i].Hash().Hex()] = i + 1
	}
	if len(ids) != len(evs) {
		res.Mismatch("infra:item", "two items of the universe have the same hash", nil)
		return
	}
	twins := make([]*types.DuplicateVoteEvidence, len(evs))
	for _, k := range u.Raw {
		tw := *evs[k-1]
		tw.Timestamp = tw.Timestamp.Add(1)
		tw.TotalVotingPower++
		twins[k-1] = &tw
		ids[tw.Hash().Hex()] = k
	}
	n, err := mbt.EachLine(path, 0, mbt.EnvInt("EV_LIMIT", 0), mbt.EnvInt("EV_STRIDE", 1), mbt.Seed(), func(k int, raw []byte) {
		if strings.HasPrefix(string(raw), `{"items"`) {
			return
		}
		var ln poolLine
		if err := json.Unmarshal(raw, &ln); err != nil {
			res.Mismatch("infra:parse", err.Error(), string(raw))
			return
		}
		view := &chainView{f: f, cur: uint64(u.L0), maxAgeBlocks: mb, maxAgeDur: md}
		rp := &realPool{f: f, view: view, evs: evs, ids: ids, twins: twins}
		rp.p, rp.db, err = f.newPool(view, nil)
		if err != nil {
			res.Mismatch("infra:newpool", err.Error(), nil)
			return
		}
		res.Count(1)
		res.Behaviour()
		detail := map[string]interface{}{"history": ln.H, "items": u.Items, "l0": u.L0, "max_age_blocks": mb, "max_age_dur": md.String(),
			"legend": "history = [op, item or list of items, specified result, specified reason]; items: see the evidence legend of TestVerifyReplay"}
		for j, st := range ln.H {
			var op, want, why string
			json.Unmarshal(st[0], &op)
			json.Unmarshal(st[2], &want)
			json.Unmarshal(st[3], &why)
			class, ec, pan := rp.step(op, st[1])
			if class == want {
				continue
			}
			if j < len(ln.H)-1 {
				// the disagreement is reported by the transition whose last step this is
				res.Add("cut_after_earlier_disagreement", 1)
				return
			}
			detail["step"], detail["real"], detail["real_error"] = j+1, class, ec
			txt := fmt.Sprintf("%s %s: the real pool answers %s (%s), the specification %s (%s); history %s", op, string(st[1]), class, ec, want, why, histString(ln.H))
			if pan != nil {
				txt = fmt.Sprintf("%s %s PANICKED: %v; history %s", op, string(st[1]), pan, histString(ln.H))
			}
			res.Mismatch(stepSig(op, want, why, class, ec), txt, detail)
			return
		}
		var lastOp string
		json.Unmarshal(ln.H[len(ln.H)-1][0], &lastOp)
		if lastOp != "recv" || len(ln.H) > 1 {
			res.Distinct(histString(ln.H))
		}
		pend, comm, gossip, rawIDs, size, problems := rp.observe(ln.O.Q)
		detail["real_obs"] = map[string]interface{}{"h": view.cur, "p": pend, "c": comm, "g": gossip, "w": rawIDs, "size": size}
		detail["spec_obs"] = ln.O
		if int(view.cur) != ln.O.H {
			res.Mismatch("infra:height", "driver height differs from the specification's", detail)
		}
		if !eqInts(pend, ln.O.P) {
			res.Mismatch("evidence:state:pending:after-"+lastOp, fmt.Sprintf("pending evidence %v, the specification says %v; history %s", pend, ln.O.P, histString(ln.H)), detail)
		}
		if !eqInts(comm, ln.O.C) {
			res.Mismatch("evidence:state:committed:after-"+lastOp, fmt.Sprintf("committed marks %v, the specification says %v; history %s", comm, ln.O.C, histString(ln.H)), detail)
		}
		if !eqInts(gossip, ln.O.G) {
			res.Mismatch("evidence:state:gossip-list:after-"+lastOp, fmt.Sprintf("gossip list %v, the specification says %v; history %s", gossip, ln.O.G, histString(ln.H)), detail)
		}
		if !eqInts(rawIDs, ln.O.W) {
			res.Mismatch("evidence:state:raw:after-"+lastOp, fmt.Sprintf("evidence pending as consensus stamped it (time / total not those of the evidence height: every other node refuses it) %v, the specification says %v (stated with the facts of its height as soon as the block of that height exists); history %s",
				rawIDs, ln.O.W, histString(ln.H)), detail)
		}
		for _, p := range problems {
			res.Mismatch("evidence:pending-evidence:"+p.sig, p.text+"; history "+histString(ln.H), detail)
		}
		if k%499 == 0 {
			res.Sample(map[string]interface{}{"history": ln.H, "obs": ln.O})
		}
	})
	if err != nil || n == 0 {
		res.Mismatch("infra:dump", fmt.Sprintf("no transitions replayed from %q: %v", path, err), nil)
	}
	res.Set("pool_transitions", n)
}

func histString(h [][]json.RawMessage) string {
	var sb strings.Builder
	for i, st := range h {
		if i > 0 {
			sb.WriteString("; ")
		}
		var op string
		json.Unmarshal(st[0], &op)
		sb.WriteString(op)
		if op != "restart" {
			sb.WriteString(string(st[1]))
		}
	}
	return sb.String()
}
