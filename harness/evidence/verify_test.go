//go:build verif

package evidence

import (
	"encoding/json"
	"fmt"
	"os"
	"testing"
	"time"

	"github.com/kardiachain/go-kardia/types"
	evpool "github.com/kardiachain/go-kardia/types/evidence"

	"verifharness/internal/mbt"
)

func envParams(f *Fixture) (int64, time.Duration) {
	mb := int64(mbt.EnvInt("EV_MAXAGE_BLOCKS", 2))
	md := time.Duration(int64(mbt.EnvInt("EV_MAXAGE_TICKS", 6)) * f.W.S.IotaNs / 2)
	return mb, md
}

// TestWorldInfo builds the real chain of the script and reports the facts the TLA+ constants are generated
// from: the power of every validator in the set of every height (as the real state store returns it).
func TestWorldInfo(t *testing.T) {
	res := mbt.NewResult()
	defer res.Write()
	s, err := scriptFromEnv()
	if err != nil {
		res.Mismatch("infra:script", err.Error(), nil)
		return
	}
	f, err := GetFixture(s)
	if err != nil {
		res.Mismatch("infra:fixture", err.Error(), nil)
		return
	}
	pw, ix, err := f.PowerTable()
	if err != nil {
		res.Mismatch("infra:powertable", err.Error(), nil)
		return
	}
	res.Set("power_table", pw)
	res.Set("index_table", ix)
	var times []int64
	for h := uint64(1); h <= s.Top; h++ {
		times = append(times, f.BlockTime(h).UnixNano())
		if s.GenesisUnix > time.Now().Unix() && !f.BlockTime(h).Equal(f.W.TickTime(2*(int(h)-1))) {
			res.Mismatch("infra:blocktime", fmt.Sprintf("block %d has time %v, the specification's T(h) maps to %v", h, f.BlockTime(h), f.W.TickTime(2*(int(h)-1))), nil)
		}
	}
	res.Set("block_times", times)
	var props []int
	for h := uint64(1); h <= s.Top; h++ {
		props = append(props, f.W.IDOf(f.Ref.BC.GetBlockByHeight(h).Header().ProposerAddress))
	}
	res.Set("proposers", props)
	// the rotation: proposer of round r (1..8) at height h, from the validator sets of the real chain
	var table [][]int
	for h := uint64(1); h <= s.Top; h++ {
		vs := f.States[h-1].Validators.Copy()
		var row []int
		for r := 1; r <= 8; r++ {
			row = append(row, f.W.IDOf(vs.GetProposer().Address))
			vs.IncrementProposerPriority(1)
		}
		table = append(table, row)
	}
	res.Set("prop_table", table)
	// under timely delivery the first correct proposer of every height gets its block decided
	isNode := map[int]bool{}
	for _, id := range s.Nodes {
		isNode[id] = true
	}
	for h, row := range table {
		for _, id := range row {
			if isNode[id] {
				if props[h] != id {
					res.Mismatch("infra:proposer", fmt.Sprintf("block %d was proposed by %d, the first correct proposer of the rotation %v is %d", h+1, props[h], row, id), nil)
				}
				break
			}
		}
	}
	// sizes of one evidence on the wire (for the byte limits of PendingEvidence)
	ev := f.Evidence(AEv{A: AVote{4, 0, 2, 1, 1, 2, 4}, B: AVote{4, 0, 2, 1, 1, 3, 4}, VP: 5, TP: 35, TS: 2})
	res.Set("evidence_bytes", len(ev.Bytes()))
	res.Count(1)
}

// TestViewFidelity: the chainView used by the pool drivers answers, for every height cur and every height asked,
// what the real state store / block store of a real node answered when its head was at cur.
func TestViewFidelity(t *testing.T) {
	res := mbt.NewResult()
	defer res.Write()
	s, err := scriptFromEnv()
	if err != nil {
		res.Mismatch("infra:script", err.Error(), nil)
		return
	}
	f, err := GetFixture(s)
	if err != nil {
		res.Mismatch("infra:fixture", err.Error(), nil)
		return
	}
	for cur := uint64(0); cur <= s.Top; cur++ {
		v := &chainView{f: f, cur: cur, maxAgeBlocks: 100000, maxAgeDur: 48 * time.Hour}
		for h := uint64(0); h <= s.Top+2; h++ {
			set, err := v.LoadValidators(h)
			got := ""
			if err == nil && set != nil {
				got = set.Hash().Hex()
			}
			res.Count(1)
			if got != f.seenVals[cur][h] || (v.LoadBlockMeta(h) != nil) != f.seenMeta[cur][h] {
				res.Mismatch("infra:view-fidelity", fmt.Sprintf("chain view at %d, height %d: validators %q / meta %v, the real stores had %q / %v",
					cur, h, got, v.LoadBlockMeta(h) != nil, f.seenVals[cur][h], f.seenMeta[cur][h]), nil)
			}
		}
		st := v.Load()
		if st.LastBlockHeight != cur || (cur > 0 && !st.LastBlockTime.Equal(f.BlockTime(cur))) {
			res.Mismatch("infra:view-fidelity", fmt.Sprintf("chain view at %d loads state of height %d", cur, st.LastBlockHeight), nil)
		}
	}
}

// recvReal does what Reactor.Receive does with one evidence from a peer: the wire codec (ValidateBasic
// included) and Pool.AddEvidence.  Returns the specification's result class and the error class.
func recvReal(p *evpool.Pool, ev types.Evidence) (class string, ec string, panicked interface{}) {
	defer func() {
		if r := recover(); r != nil {
			class, panicked = "panic", r
		}
	}()
	bz, err := evpool.VerifEncodeMsg([]types.Evidence{ev})
	if err != nil {
		return "malformed", "encode", nil
	}
	evs, err := evpool.VerifDecodeMsg(bz)
	if err != nil {
		return "malformed", errClass(err), nil
	}
	if len(evs) != 1 {
		return "malformed", "count", nil
	}
	dec := evs[0]
	wasP, wasC := p.VerifIsPending(dec), p.VerifIsCommitted(dec)
	err = p.AddEvidence(dec)
	switch {
	case err != nil:
		if p.VerifIsPending(dec) != wasP {
			return "error-but-stored", errClass(err), nil
		}
		return "invalid", errClass(err), nil
	case wasP:
		return "dup", "nil", nil
	case wasC:
		if p.VerifIsPending(dec) {
			return "added", "nil", nil
		}
		return "committed", "nil", nil
	case p.VerifIsPending(dec):
		return "added", "nil", nil
	}
	return "ignored", "nil", nil
}

type verifyLine struct {
	E AEv    `json:"e"`
	L int    `json:"l"`
	R string `json:"r"`
	W string `json:"w"`
	N int    `json:"n"`
	C string `json:"c"` // VerifyCore: the exported VerifyDuplicateVote on its own
	B bool   `json:"b"` // ValidateBasic
}

// TestVerifyReplay replays every case of MC_EvidenceVerify: a fresh real pool at height l receives the real
// evidence for e through the reactor's decode + AddEvidence; the result class must be the specification's.
func TestVerifyReplay(t *testing.T) {
	res := mbt.NewResult()
	defer res.Write()
	s, err := scriptFromEnv()
	if err != nil {
		res.Mismatch("infra:script", err.Error(), nil)
		return
	}
	f, err := GetFixture(s)
	if err != nil {
		res.Mismatch("infra:fixture", err.Error(), nil)
		return
	}
	mb, md := envParams(f)
	path := os.Getenv("EV_DUMP")
	stride := mbt.EnvInt("EV_STRIDE", 1)
	n, err := mbt.EachLine(path, 0, mbt.EnvInt("EV_LIMIT", 0), stride, mbt.Seed(), func(k int, raw []byte) {
		var ln verifyLine
		if err := json.Unmarshal(raw, &ln); err != nil {
			res.Mismatch("infra:parse", err.Error(), string(raw))
			return
		}
		view := &chainView{f: f, cur: uint64(ln.L), maxAgeBlocks: mb, maxAgeDur: md}
		p, _, err := f.newPool(view, nil)
		if err != nil {
			res.Mismatch("infra:newpool", err.Error(), nil)
			return
		}
		ev := f.Evidence(ln.E)
		class, ec, pan := recvReal(p, ev)
		res.Count(1)
		if ln.N > 0 || ln.R != "added" {
			res.Distinct(ln.E.Key() + fmt.Sprint(ln.L))
		}
		detail := map[string]interface{}{"evidence": ln.E, "pool_height": ln.L, "max_age_blocks": mb, "max_age_dur": md.String(),
			"spec": ln.R, "spec_reason": ln.W, "real": class, "real_error": ec, "mutations": ln.N,
			"legend": "vote = [validator, index 0 right/1 wrong, height, round, type, block, sig (k: key k, 0 junk, -9 empty, -1..-6 stale, -11 high-s twin of the genuine signature, -12 with v+4, -13 with a trailing byte)]; evidence = [a, b, power, total, time ticks]"}
		// the exported VerifyDuplicateVote with the real validator set of the evidence height
		if h := ln.E.A[2]; h >= 1 && uint64(h) <= f.W.S.Top && (ln.C != "ok" || ln.B) {
			if vs, err := f.Ref.Store.LoadValidators(uint64(h)); err == nil {
				var verr error
				func() {
					defer func() {
						if r := recover(); r != nil {
							verr = fmt.Errorf("panic: %v", r)
							res.Mismatch("evidence:verifyduplicatevote:panic", fmt.Sprintf("VerifyDuplicateVote panicked: %v on %v", r, ln.E), detail)
						}
					}()
					verr = evpool.VerifyDuplicateVote(ev, chainID, vs)
				}()
				res.Count(1)
				if verr == nil && ln.C != "ok" {
					res.Mismatch("evidence:verifyduplicatevote:accepted-invalid:"+ln.C, fmt.Sprintf("VerifyDuplicateVote accepts evidence the specification refuses (%s): %v", ln.C, ln.E), detail)
				} else if verr != nil && ln.C == "ok" {
					res.Mismatch("evidence:verifyduplicatevote:rejected-valid:"+errClass(verr), fmt.Sprintf("VerifyDuplicateVote refuses (%v) a real equivocation: %v", verr, ln.E), detail)
				}
			}
		}
		switch {
		case pan != nil:
			res.Mismatch("evidence:recv:panic:"+ln.W, fmt.Sprintf("AddEvidence panicked on evidence from a peer: %v", pan), detail)
		case class == ln.R:
			if k%997 == 0 {
				res.Sample(detail)
			}
		case class == "added":
			res.Mismatch("evidence:recv:accepted-invalid:"+ln.W, fmt.Sprintf("a pool at height %d ACCEPTED evidence from a peer that the specification refuses (%s/%s): %v", ln.L, ln.R, ln.W, ln.E), detail)
		case ln.R == "added":
			res.Mismatch("evidence:recv:rejected-valid:"+ec, fmt.Sprintf("a pool at height %d refused (%s/%s) evidence of a real equivocation that the specification accepts: %v", ln.L, class, ec, ln.E), detail)
		case (class == "malformed") != (ln.R == "malformed"):
			// refused on both sides, but at a different layer (wire decoding vs pool): only the layer differs
			res.Add("refused_at_other_layer", 1)
		default:
			res.Mismatch("evidence:recv:class:"+ln.R+"-"+class, fmt.Sprintf("result class %s, the specification says %s (%s): %v", class, ln.R, ln.W, ln.E), detail)
		}
	})
	if err != nil || n == 0 {
		res.Mismatch("infra:dump", fmt.Sprintf("no cases replayed from %q: %v", path, err), nil)
	}
	res.Set("verify_cases", n)
}
