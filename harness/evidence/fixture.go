//go:build verif

package evidence

import (
	"crypto/sha256"
	"encoding/json"
	"fmt"
	"math/big"
	"os"
	"sync"
	"time"

	"github.com/kardiachain/go-kardia/kai/kaidb/memorydb"
	"github.com/kardiachain/go-kardia/kai/state/cstate"
	"github.com/kardiachain/go-kardia/lib/common"
	kproto "github.com/kardiachain/go-kardia/proto/kardiachain/types"
	"github.com/kardiachain/go-kardia/types"
	evpool "github.com/kardiachain/go-kardia/types/evidence"
)

// Fixture: one real chain of Top heights committed by real nodes under the script, kept for reading.
// Pools under test look at it through a chainView ("the chain as it was when its head was at height cur").
type Fixture struct {
	W      *World
	Net    *Net
	Ref    *Node
	States []cstate.LatestBlockState // States[h] = what the state store loaded when the head was block h
	// what the reference node's real stores answered when its head was at height cur, for every height asked:
	// seenVals[cur][h] = hash of LoadValidators(h) ("" = error), seenMeta[cur][h] = has block meta
	seenVals [][]string
	seenMeta [][]bool
}

var (
	fixMu  sync.Mutex
	fixMap = map[string]*Fixture{}
)

func scriptFromEnv() (Script, error) {
	var s Script
	raw := os.Getenv("EV_WORLD")
	if raw == "" {
		// the default world of checks/C19.py
		raw = `{"powers":[10,10,10,5,0,0],"nodes":[1,2,3],"top":8,
		        "updates":{"2":{"1":10,"2":10,"3":10,"4":4,"5":3},"5":{"1":10,"2":10,"3":10,"5":3}}}`
	}
	err := json.Unmarshal([]byte(raw), &s)
	s.fill()
	return s, err
}

// GetFixture builds (once per process and script) the real chain.
func GetFixture(s Script) (*Fixture, error) {
	key, _ := json.Marshal(s)
	fixMu.Lock()
	defer fixMu.Unlock()
	if f, ok := fixMap[string(key)]; ok {
		return f, nil
	}
	w := NewWorld(s)
	n, err := w.NewNet()
	if err != nil {
		return nil, err
	}
	f := &Fixture{W: w, Net: n, Ref: n.Nodes[s.Nodes[0]]}
	probe := func(cur uint64) {
		var vs []string
		var ms []bool
		for h := uint64(0); h <= w.S.Top+2; h++ {
			set, err := f.Ref.Store.LoadValidators(h)
			if err != nil || set == nil {
				vs = append(vs, "")
			} else {
				vs = append(vs, set.Hash().Hex())
			}
			ms = append(ms, f.Ref.BC.LoadBlockMeta(h) != nil)
		}
		f.seenVals = append(f.seenVals, vs)
		f.seenMeta = append(f.seenMeta, ms)
	}
	f.States = append(f.States, f.Ref.Store.Load())
	probe(0)
	n.Start()
	for h := uint64(1); h <= w.S.Top; h++ {
		if !n.RunUntil(h, 200000) {
			return nil, fmt.Errorf("the real nodes did not commit height %d (steps %d)", h, n.Steps)
		}
		st := f.Ref.Store.Load()
		if st.LastBlockHeight != h {
			return nil, fmt.Errorf("state store head %d after committing %d", st.LastBlockHeight, h)
		}
		f.States = append(f.States, st)
		probe(h)
	}
	fixMap[string(key)] = f
	return f, nil
}

// PowerTable[h-1][id-1] = power of validator id in the set of height h, as the real store returns it.
func (f *Fixture) PowerTable() ([][]int64, [][]int, error) {
	var pw [][]int64
	var ix [][]int
	for h := uint64(1); h <= f.W.S.Top; h++ {
		vs, err := f.Ref.Store.LoadValidators(h)
		if err != nil {
			return nil, nil, err
		}
		row := make([]int64, len(f.W.Privs))
		irow := make([]int, len(f.W.Privs))
		for i := range irow {
			irow[i] = -1
		}
		for i, v := range vs.Validators {
			id := f.W.IDOf(v.Address)
			if id == 0 {
				return nil, nil, fmt.Errorf("unknown validator %s at height %d", v.Address.Hex(), h)
			}
			row[id-1] = v.VotingPower
			irow[id-1] = i
		}
		pw = append(pw, row)
		ix = append(ix, irow)
	}
	return pw, ix, nil
}

// BlockTime(h) as the real chain has it.
func (f *Fixture) BlockTime(h uint64) time.Time { return f.Ref.BC.LoadBlockMeta(h).Header.Time }

// TickTime maps the specification's ticks (2 per block interval, 0 = genesis = block 1) to real time.
func (w *World) TickTime(ts int) time.Time {
	g := time.Unix(w.S.GenesisUnix, 0).UTC()
	half := ts / 2
	odd := ts % 2
	if odd < 0 {
		half--
		odd += 2
	}
	return g.Add(time.Duration(int64(half) * w.S.IotaNs)).Add(time.Duration(odd))
}

// chainView is the chain truncated at height cur, with the evidence parameters of the case: what a node
// whose head is block cur offers its evidence pool as state store and block store.  It answers from the real
// stores of the reference node (append-only above cur); TestViewFidelity compares its answers with what the
// real stores answered when the head really was at cur.
type chainView struct {
	cstate.Store // nil: any other method of the interface panics (the pool must not use it)
	f            *Fixture
	cur          uint64
	maxAgeBlocks int64
	maxAgeDur    time.Duration
}

func (v *chainView) stateAt(h uint64) cstate.LatestBlockState {
	st := v.f.States[h].Copy()
	st.ConsensusParams.Evidence.MaxAgeNumBlocks = v.maxAgeBlocks
	st.ConsensusParams.Evidence.MaxAgeDuration = v.maxAgeDur
	return st
}
func (v *chainView) Load() cstate.LatestBlockState { return v.stateAt(v.cur) }
func (v *chainView) LoadValidators(h uint64) (*types.ValidatorSet, error) {
	if h > v.cur {
		return nil, cstate.ErrNoConsensusStateForHeight{Height: h}
	}
	return v.f.Ref.Store.LoadValidators(h)
}
func (v *chainView) LoadBlockMeta(h uint64) *types.BlockMeta {
	if h > v.cur {
		return nil
	}
	return v.f.Ref.BC.LoadBlockMeta(h)
}
func (v *chainView) LoadBlockCommit(h uint64) *types.Commit {
	if h > v.cur {
		return nil
	}
	return v.f.Ref.BC.LoadBlockCommit(h)
}

// newPool opens a real evidence pool on db (nil: new) looking at the chain at height cur.
func (f *Fixture) newPool(view *chainView, db *memorydb.Database) (*evpool.Pool, *memorydb.Database, error) {
	if db == nil {
		db = memorydb.New()
	}
	p, err := evpool.NewPool(view, db, view)
	return p, db, err
}

// ---------------------------------------------------------------------------------------------------------
// abstract evidence -> real evidence

// AVote / AEv: the specification's vote and evidence (Evidence.tla), as printed by the MC modules:
// vote = [v, i, h, r, t, b, sig], evidence = [a, b, vp, tp, ts].
type AVote [7]int
type AEv struct {
	A, B       AVote
	VP, TP, TS int
}

func (e *AEv) UnmarshalJSON(b []byte) error {
	var raw []json.RawMessage
	if err := json.Unmarshal(b, &raw); err != nil {
		return err
	}
	if len(raw) != 5 {
		return fmt.Errorf("evidence tuple of length %d", len(raw))
	}
	if err := json.Unmarshal(raw[0], &e.A); err != nil {
		return err
	}
	if err := json.Unmarshal(raw[1], &e.B); err != nil {
		return err
	}
	for i, p := range []*int{&e.VP, &e.TP, &e.TS} {
		if err := json.Unmarshal(raw[2+i], p); err != nil {
			return err
		}
	}
	return nil
}
func (e AEv) MarshalJSON() ([]byte, error) {
	return json.Marshal([]interface{}{e.A, e.B, e.VP, e.TP, e.TS})
}
func (e AEv) Key() string { return fmt.Sprint(e.A, e.B, e.VP, e.TP, e.TS) }

var blockIDs = []types.BlockID{
	{}, // 0 nil
	{Hash: common.BytesToHash([]byte{1})}, // 1 malformed: a hash without part-set header
	{Hash: common.BytesToHash([]byte{2}), PartsHeader: types.PartSetHeader{Total: 1, Hash: common.BytesToHash([]byte{0x21})}}, // 2 A
	{Hash: common.BytesToHash([]byte{3}), PartsHeader: types.PartSetHeader{Total: 2, Hash: common.BytesToHash([]byte{0x31})}}, // 3 B
	{Hash: common.BytesToHash([]byte{4}), PartsHeader: types.PartSetHeader{Total: 1, Hash: common.BytesToHash([]byte{0x41})}}, // 4 C
	{Hash: common.BytesToHash([]byte{2}), PartsHeader: types.PartSetHeader{Total: 1, Hash: common.BytesToHash([]byte{0x22})}}, // 5 A's block hash, another part-set hash
	{Hash: common.BytesToHash([]byte{2}), PartsHeader: types.PartSetHeader{Total: 3, Hash: common.BytesToHash([]byte{0x21})}}, // 6 A with another part-set total
}

// the specification's BKey: the order of BlockID.Key()
var blockKeyRank = []int{0, 10, 20, 30, 40, 25, 20}
var otherBlock = types.BlockID{Hash: common.BytesToHash([]byte{9}), PartsHeader: types.PartSetHeader{Total: 1, Hash: common.BytesToHash([]byte{0x91})}}

func init() {
	for i := range blockIDs {
		for j := range blockIDs {
			ki, kj := blockIDs[i].Key(), blockIDs[j].Key()
			if (blockKeyRank[i] < blockKeyRank[j]) != (ki < kj) || (blockKeyRank[i] == blockKeyRank[j]) != (ki == kj) {
				panic("the order of BlockID.Key() is not the order BKey of the specification's block ids")
			}
		}
	}
}

// index of validator id in the real set of height h ("some index" when it is not a member or h is off the chain)
func (f *Fixture) indexOf(id int, h int) uint32 {
	if h >= 1 && uint64(h) <= f.W.S.Top {
		if vs, err := f.Ref.Store.LoadValidators(uint64(h)); err == nil {
			if i, _ := vs.GetByAddress(f.W.Addr(id)); i >= 0 {
				return uint32(i)
			}
		}
	}
	return 0
}

// Vote builds the real vote for an abstract one.  The vote time is a function of the vote alone.
func (f *Fixture) Vote(a AVote) *types.Vote {
	w := f.W
	v, i, h, r, t, b, sig := a[0], a[1], a[2], a[3], a[4], a[5], a[6]
	if h < 0 {
		h = 0
	}
	vote := &types.Vote{
		ValidatorAddress: w.Addr(v), ValidatorIndex: f.indexOf(v, h) + uint32(i),
		Height: uint64(h), Round: uint32(r), Type: kproto.SignedMsgType(t), BlockID: blockIDs[b],
		Timestamp: w.TickTime(2 * h).Add(3 * time.Second).Add(time.Duration(r) * time.Millisecond),
	}
	switch {
	case sig >= 1:
		vote.Signature = w.SignVote(sig, chainID, vote)
	case sig == 0:
		d := sha256.Sum256([]byte(fmt.Sprint("junk", a)))
		d2 := sha256.Sum256(d[:])
		vote.Signature = append(append(append([]byte{}, d[:]...), d2[:]...), byte(d[0]&1))
		vote.Signature[32] &= 0x3f // keep s in the lower half so that the value checks pass and recovery decides
	case sig == -9:
		vote.Signature = nil
	case sig <= -11 && sig >= -13:
		// another FORM of the named validator's genuine signature over exactly these sign bytes
		g := w.SignVote(v, chainID, vote)
		switch sig {
		case -11: // the high-s twin (r, N - s, v xor 1): computable by anybody from the genuine signature
			n, _ := new(big.Int).SetString("fffffffffffffffffffffffffffffffebaaedce6af48a03bbfd25e8cd0364141", 16)
			s2 := new(big.Int).Sub(n, new(big.Int).SetBytes(g[32:64])).Bytes()
			tw := append([]byte{}, g...)
			copy(tw[32:64], make([]byte, 32))
			copy(tw[64-len(s2):64], s2)
			tw[64] ^= 1
			vote.Signature = tw
		case -12: // the "compressed key" flag
			g[64] += 4
			vote.Signature = g
		case -13: // a trailing byte
			vote.Signature = append(g, 0)
		}
	default:
		// the named validator's own key over sign bytes that differ in one field
		c := *vote
		chain := chainID
		switch sig {
		case -1:
			c.Height++
		case -2:
			c.Round++
		case -3:
			if c.Type == kproto.PrevoteType {
				c.Type = kproto.PrecommitType
			} else {
				c.Type = kproto.PrevoteType
			}
		case -4:
			c.BlockID = otherBlock
		case -5:
			c.Timestamp = c.Timestamp.Add(1)
		case -6:
			chain = "other-chain"
		}
		vote.Signature = w.SignVote(v, chain, &c)
	}
	return vote
}

// Evidence builds the real DuplicateVoteEvidence for an abstract one (fields set directly: the specification
// decides the order of the votes and every number).
func (f *Fixture) Evidence(e AEv) *types.DuplicateVoteEvidence {
	return &types.DuplicateVoteEvidence{VoteA: f.Vote(e.A), VoteB: f.Vote(e.B), TotalVotingPower: int64(e.TP),
		ValidatorPower: int64(e.VP), Timestamp: f.W.TickTime(e.TS)}
}

// errClass: a stable class of the pool's error texts (diagnostics and signatures only).
func errClass(err error) string {
	if err == nil {
		return "nil"
	}
	s := err.Error()
	for _, kw := range [][2]string{
		{"don't have header", "noheader"}, {"different time", "time"}, {"too old", "expired"}, {"was not a validator", "notval"},
		{"h/r/s does not match", "hrs"}, {"addresses do not match", "addr"}, {"block IDs are the same", "sameblock"},
		{"validator power from evidence", "power"}, {"total voting power from the evidence", "total"},
		{"verifying VoteA", "siga"}, {"verifying VoteB", "sigb"}, {"already committed", "committed"},
		{"duplicate evidence", "duplicate"}, {"could not find consensus state", "novalset"}, {"invalid order", "order"},
		{"invalid Type", "type"}, {"blockID must be", "blockid"}, {"signature is missing", "nosig"},
	} {
		if contains(s, kw[0]) {
			return kw[1]
		}
	}
	return "other"
}

func contains(s, sub string) bool {
	for i := 0; i+len(sub) <= len(s); i++ {
		if s[i:i+len(sub)] == sub {
			return true
		}
	}
	return false
}
