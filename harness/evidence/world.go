//go:build verif

// Package evidence binds specs/evidence (Evidence.tla, MC_EvidenceVerify, MC_EvidencePool, MC_EvidenceNet) to the
// real evidence pool (types/evidence/pool.go, verify.go), the real DuplicateVoteEvidence (types/evidence.go) and,
// end to end, to real consensus nodes (consensus/state.go tryAddVote, cstate.validateBlock,
// BlockOperations.CreateProposalBlock, staking DoubleSign).  Property C19.
//
// world.go: the keys, the real nodes and the real chain every driver of this package works on.
package evidence

import (
	"fmt"
	"math/big"
	"sort"
	"sync"
	"time"

	"github.com/kardiachain/go-kardia/configs"
	"github.com/kardiachain/go-kardia/consensus"
	"github.com/kardiachain/go-kardia/kai/kaidb"
	"github.com/kardiachain/go-kardia/kai/kaidb/memorydb"
	"github.com/kardiachain/go-kardia/kai/state/cstate"
	"github.com/kardiachain/go-kardia/lib/common"
	"github.com/kardiachain/go-kardia/lib/crypto"
	"github.com/kardiachain/go-kardia/lib/log"
	"github.com/kardiachain/go-kardia/lib/p2p"
	"github.com/kardiachain/go-kardia/mainchain/blockchain"
	"github.com/kardiachain/go-kardia/mainchain/genesis"
	"github.com/kardiachain/go-kardia/mainchain/staking"
	stypes "github.com/kardiachain/go-kardia/mainchain/staking/types"
	"github.com/kardiachain/go-kardia/mainchain/tx_pool"
	kproto "github.com/kardiachain/go-kardia/proto/kardiachain/types"
	"github.com/kardiachain/go-kardia/types"
	evpool "github.com/kardiachain/go-kardia/types/evidence"
)

const chainID = "verif"

// Script describes one world: who the validators are at which height and which of them run real nodes.
// It is written by checks/C19.py (the same description generates the constants of the TLA+ models).
type Script struct {
	// Powers[id-1] = voting power of validator id at genesis (0: not a member at genesis).
	Powers []int64 `json:"powers"`
	// Updates[h] = full validator set (id -> power) the application returns when block h is executed; it is
	// the set of height h+2 (kai/state/cstate/execution.go updateState).
	Updates map[string]map[string]int64 `json:"updates"`
	// Nodes = validator ids that run a real node (the others are keys held by the driver).
	Nodes []int `json:"nodes"`
	// Top = number of heights the chain is driven to.
	Top uint64 `json:"top"`
	// GenesisUnix: genesis time.  In the far future (default 2100-01-01) every vote time is "block time + iota"
	// (consensus/state.go voteTime) and block times are genesis + (h-1)*iota: no wall-clock dependence.
	GenesisUnix int64 `json:"genesis_unix"`
	// IotaNs: ConsensusParams.Block.TimeIotaMs (consensus/state.go uses it as nanoseconds).
	IotaNs int64 `json:"iota_ns"`
	// Evidence parameters of the chain's consensus params.
	MaxAgeBlocks int64 `json:"max_age_blocks"`
	MaxAgeDurNs  int64 `json:"max_age_dur_ns"`
}

func (s *Script) fill() {
	if s.GenesisUnix == 0 {
		s.GenesisUnix = 4102444800
	}
	if s.IotaNs == 0 {
		s.IotaNs = int64(10 * time.Second)
	}
	if s.MaxAgeBlocks == 0 {
		s.MaxAgeBlocks = 100000
	}
	if s.MaxAgeDurNs == 0 {
		s.MaxAgeDurNs = int64(48 * time.Hour)
	}
}

// World: the keys.  Validator id i (1-based) of the specification = Privs[i-1]; ids are ordered by address so
// that among equal powers the id order is the order of types.ValidatorSet.
type World struct {
	S     Script
	Privs []*types.DefaultPrivValidator
	idOf  map[common.Address]int
	sc    *sigCache
}

// signatures are a function of key and sign bytes (RFC 6979): one cache serves every world of a process
type sigCache struct {
	mu sync.Mutex
	m  map[string][]byte
}

var sharedSigs = &sigCache{m: map[string][]byte{}}

func NewWorld(s Script) *World {
	s.fill()
	w := &World{S: s, idOf: map[common.Address]int{}, sc: sharedSigs}
	for i := range s.Powers {
		k, _ := crypto.ToECDSA(crypto.Keccak256([]byte(fmt.Sprintf("verif-evidence-%d", i))))
		w.Privs = append(w.Privs, types.NewDefaultPrivValidator(k))
	}
	sort.Slice(w.Privs, func(a, b int) bool {
		return string(w.Privs[a].GetAddress().Bytes()) < string(w.Privs[b].GetAddress().Bytes())
	})
	for i, p := range w.Privs {
		w.idOf[p.GetAddress()] = i + 1
	}
	return w
}

func (w *World) Addr(id int) common.Address { return w.Privs[id-1].GetAddress() }
func (w *World) IDOf(a common.Address) int  { return w.idOf[a] }

func (w *World) valList(powers map[int]int64) []*types.Validator {
	var out []*types.Validator
	for id := 1; id <= len(w.Privs); id++ {
		if p := powers[id]; p > 0 {
			out = append(out, types.NewValidator(w.Addr(id), p))
		}
	}
	return out
}

func (w *World) GenesisValSet() *types.ValidatorSet {
	m := map[int]int64{}
	for i, p := range w.S.Powers {
		m[i+1] = p
	}
	return types.NewValidatorSet(w.valList(m))
}

// SignVote signs (and caches) a vote with the key of validator `key` as an adversary holding that key would.
// The vote may name any address / index: only the canonical sign bytes are covered by the signature.
func (w *World) SignVote(key int, chain string, v *types.Vote) []byte {
	ck := fmt.Sprint(w.Addr(key).Hex(), chain, v.Type, v.Height, v.Round, v.BlockID.Key(), v.BlockID.PartsHeader.Total, v.Timestamp.UnixNano()) // (Key() leaves the total out)
	w.sc.mu.Lock()
	sig, ok := w.sc.m[ck]
	w.sc.mu.Unlock()
	if ok {
		return append([]byte{}, sig...)
	}
	pv := v.ToProto()
	if err := w.Privs[key-1].SignVote(chain, pv); err != nil {
		panic(err)
	}
	w.sc.mu.Lock()
	w.sc.m[ck] = pv.Signature
	w.sc.mu.Unlock()
	return append([]byte{}, pv.Signature...)
}

// ---------------------------------------------------------------------------------------------------------
// real nodes

var (
	genOnce  sync.Once
	genMu    sync.Mutex
	genKV    = map[int64][][2][]byte{}
	stkOnce  sync.Once
	stkUtil  *staking.StakingSmcUtil
	stkErr   error
	initOnce sync.Once
)

func mkGenesis(unix int64) *genesis.Genesis {
	initValue, _ := big.NewInt(0).SetString("10000000000000000", 10)
	accts := map[string]*big.Int{"0xc1fe56E3F58D3244F606306611a5d10c8333f1f6": initValue}
	genOnce.Do(func() {
		configs.AddDefaultContract()
		for key, c := range configs.GetContracts() {
			configs.LoadGenesisContract(key, c.Address, c.ByteCode, c.ABI)
		}
	})
	gc := make(map[string]string)
	for key, c := range configs.GetContracts() {
		if key != configs.StakingContractKey {
			gc[c.Address] = c.ByteCode
		}
	}
	g := genesis.DefaulTestnetFullGenesisBlock(accts, gc)
	g.Timestamp = time.Unix(unix, 0)
	g.ChainID = chainID
	return g
}

func sharedStaking() (*staking.StakingSmcUtil, error) {
	stkOnce.Do(func() { stkUtil, stkErr = staking.NewSmcStakingUtil() })
	return stkUtil, stkErr
}

// cloneGenesisDB fills db with what NewBlockChain writes for the genesis block (computed once per genesis time).
func cloneGenesisDB(db kaidb.Database, unix int64) error {
	genMu.Lock()
	kv, ok := genKV[unix]
	if !ok {
		src := memorydb.New()
		bc, err := blockchain.NewBlockChain(src, nil, mkGenesis(unix))
		if err != nil {
			genMu.Unlock()
			return err
		}
		bc.Stop()
		it := src.NewIterator(nil, nil)
		for it.Next() {
			kv = append(kv, [2][]byte{append([]byte{}, it.Key()...), append([]byte{}, it.Value()...)})
		}
		it.Release()
		genKV[unix] = kv
	}
	genMu.Unlock()
	for _, e := range kv {
		if err := db.Put(e[0], e[1]); err != nil {
			return err
		}
	}
	return nil
}

// scriptedBO interposes between the block executor and the real BlockOperations: it lets the real code execute
// the block (staking Mint / FinalizeCommit / DoubleSign included) and then substitutes the validator set the
// script prescribes for that height (the real staking contract of this genesis returns none), and it records the
// evidence handed to the application (the DoubleSign call).
type scriptedBO struct {
	*blockchain.BlockOperations
	w      *World
	mu     sync.Mutex
	Slash  map[uint64][]stypes.Evidence // block height -> byzVals passed to CommitAndValidateBlockTxs
	ExecOK map[uint64]bool
}

func (s *scriptedBO) CommitAndValidateBlockTxs(b *types.Block, lci stypes.LastCommitInfo, byz []stypes.Evidence) ([]*types.Validator, common.Hash, error) {
	vals, root, err := s.BlockOperations.CommitAndValidateBlockTxs(b, lci, byz)
	s.mu.Lock()
	if len(byz) > 0 {
		s.Slash[b.Height()] = append([]stypes.Evidence{}, byz...)
	}
	s.ExecOK[b.Height()] = err == nil
	s.mu.Unlock()
	if err == nil {
		if u, ok := s.w.S.Updates[fmt.Sprint(b.Height())]; ok {
			m := map[int]int64{}
			for k, p := range u {
				var id int
				fmt.Sscan(k, &id)
				m[id] = p
			}
			vals = s.w.valList(m)
		}
	}
	return vals, root, err
}

// Node is one real consensus node wired as mainchain/backend.go does it (see harness/node BuildNode, of which
// this is a copy with a configurable genesis time, configurable consensus parameters and the scripted set).
type Node struct {
	ID     int
	CS     *consensus.ConsensusState
	BO     *scriptedBO
	BC     *blockchain.BlockChain
	EvPool *evpool.Pool
	Store  cstate.Store
	DB     kaidb.Database
	BE     *cstate.BlockExecutor
	Bus    *types.EventBus
	TxPool *tx_pool.TxPool
	Tick   Ticker
	sched  []consensus.VerifTimeout
}

// Ticker mirrors consensus/ticker.go timeoutRoutine (copy of harness/node's Ticker, kept here so that this package
// does not depend on a package that is edited concurrently): a newly scheduled timeout replaces the held one
// unless it is for an older (or, within a round, not later) height/round/step.
type Ticker struct {
	TI    consensus.VerifTimeout
	Armed bool
}

func (t *Ticker) Schedule(n consensus.VerifTimeout) {
	ti := t.TI
	if n.Height < ti.Height {
		return
	} else if n.Height == ti.Height {
		if n.Round < ti.Round {
			return
		} else if n.Round == ti.Round {
			if ti.Step > 0 && n.Step <= ti.Step {
				return
			}
		}
	}
	t.TI = n
	t.Armed = true
}

func (w *World) consensusParams() kproto.ConsensusParams {
	p := *configs.DefaultConsensusParams()
	p.Block.TimeIotaMs = w.S.IotaNs
	p.Evidence.MaxAgeNumBlocks = w.S.MaxAgeBlocks
	p.Evidence.MaxAgeDuration = time.Duration(w.S.MaxAgeDurNs)
	return p
}

// BuildNode: fresh = start from the genesis state on a new database; otherwise re-open db (restart).
func (w *World) BuildNode(id int, db kaidb.Database, fresh bool) (*Node, error) {
	initOnce.Do(func() { log.Root().SetHandler(log.DiscardHandler()) })
	if db == nil {
		db = memorydb.New()
		if err := cloneGenesisDB(db, w.S.GenesisUnix); err != nil {
			return nil, err
		}
	}
	g := mkGenesis(w.S.GenesisUnix)
	bc, err := blockchain.NewBlockChain(db, nil, g)
	if err != nil {
		return nil, err
	}
	store := cstate.NewStore(db)
	var st cstate.LatestBlockState
	if fresh {
		vs := w.GenesisValSet()
		st = cstate.LatestBlockState{
			ChainID: chainID, InitialHeight: 1, LastBlockHeight: 0, LastBlockID: types.BlockID{},
			LastBlockTime: g.Timestamp, Validators: vs, NextValidators: vs.CopyIncrementProposerPriority(1),
			LastHeightValidatorsChanged: 1, ConsensusParams: w.consensusParams(), LastHeightConsensusParamsChanged: 1,
		}
		store.Save(st)
	} else {
		st = store.Load()
		if st.IsEmpty() {
			return nil, fmt.Errorf("restart of node %d: the state store is empty", id)
		}
	}
	stk, err := sharedStaking()
	if err != nil {
		return nil, err
	}
	pool := tx_pool.NewTxPool(tx_pool.TxPoolConfig{GlobalSlots: 64, GlobalQueue: 64}, bc.Config(), bc)
	evp, err := evpool.NewPool(store, db, bc)
	if err != nil {
		return nil, err
	}
	bo := &scriptedBO{BlockOperations: blockchain.NewBlockOperations(log.New(), bc, pool, evp, stk), w: w,
		Slash: map[uint64][]stypes.Evidence{}, ExecOK: map[uint64]bool{}}
	be := cstate.NewBlockExecutor(store, log.New(), evp, bo)
	cs := consensus.NewConsensusState(log.New(), configs.TestConsensusConfig(), st, bo, be, evp)
	nd := &Node{ID: id, CS: cs, BO: bo, BC: bc, EvPool: evp, Store: store, DB: db, BE: be, TxPool: pool}
	cs.SetPrivValidator(w.Privs[id-1])
	eb := types.NewEventBus()
	eb.SetLogger(log.New())
	if err := eb.Start(); err != nil {
		return nil, err
	}
	nd.Bus = eb
	cs.SetEventBus(eb)
	cs.VerifSetTicker(func(ti consensus.VerifTimeout) { nd.sched = append(nd.sched, ti) })
	return nd, nil
}

func (nd *Node) Close() {
	if nd.Bus != nil {
		nd.Bus.Stop()
	}
	if nd.TxPool != nil {
		nd.TxPool.Stop()
	}
	if nd.BC != nil {
		nd.BC.Stop()
	}
}

// ---------------------------------------------------------------------------------------------------------
// a synchronous network of real nodes: one single-threaded scheduler, FIFO delivery, a timeout fires only
// when nothing is deliverable (timely delivery).  Hooks let a driver drop / inject messages.

type flight struct {
	to, from int
	msg      consensus.Message
}

type Net struct {
	W     *World
	Nodes map[int]*Node
	Order []int
	q     []flight
	held  map[int][]flight // proposals / block parts for a round or height the receiver has not reached yet
	Steps int
	// Filter, when set, decides whether a message from a real node is delivered (false: dropped).
	Filter func(from, to int, m consensus.Message) bool
	// OnHandled is called after every handler call with the node that handled something.
	OnHandled func(nd *Node)
}

func (w *World) NewNet() (*Net, error) {
	n := &Net{W: w, Nodes: map[int]*Node{}, held: map[int][]flight{}}
	for _, id := range w.S.Nodes {
		nd, err := w.BuildNode(id, nil, true)
		if err != nil {
			return nil, err
		}
		n.Nodes[id] = nd
		n.Order = append(n.Order, id)
	}
	return n, nil
}

func (n *Net) Close() {
	for _, nd := range n.Nodes {
		nd.Close()
	}
}

// after one handler call: broadcast the node's new own messages and update its ticker
func (n *Net) after(nd *Node) {
	for _, m := range nd.CS.VerifDrainInternal() {
		// the node's own message is handled by itself first (internal queue), then goes to the others
		n.q = append(n.q, flight{to: nd.ID, from: nd.ID, msg: m})
		for _, to := range n.Order {
			if to != nd.ID {
				n.q = append(n.q, flight{to: to, from: nd.ID, msg: m})
			}
		}
	}
	for _, ti := range nd.sched {
		nd.Tick.Schedule(ti)
	}
	nd.sched = nil
	n.Steps++
	// what the gossip routines would send again: proposals and parts held back for this node are delivered
	// once it has reached their height and round
	if hs := n.held[nd.ID]; len(hs) > 0 {
		rs := nd.CS.GetRoundState()
		var keep, ready []flight
		for _, f := range hs {
			h, r := hrOf(f.msg)
			switch {
			case h < rs.Height || (h == rs.Height && r < rs.Round):
				// stale
			case h == rs.Height && r == rs.Round:
				ready = append(ready, f)
			default:
				keep = append(keep, f)
			}
		}
		n.held[nd.ID] = keep
		n.q = append(ready, n.q...)
	}
	if n.OnHandled != nil {
		n.OnHandled(nd)
	}
}

// hrOf: height and round of a proposal / block part message (0, 0 for everything else)
func hrOf(m consensus.Message) (uint64, uint32) {
	switch mm := m.(type) {
	case *consensus.ProposalMessage:
		return mm.Proposal.Height, mm.Proposal.Round
	case *consensus.BlockPartMessage:
		return mm.Height, mm.Round
	}
	return 0, 0
}

func (n *Net) Start() {
	for _, id := range n.Order {
		nd := n.Nodes[id]
		nd.CS.VerifScheduleRound0()
		n.after(nd)
	}
}

// StartNode schedules round 0 of a (re)started node.
func (n *Net) StartNode(nd *Node) {
	nd.CS.VerifScheduleRound0()
	n.after(nd)
}

// Inject delivers a message of a driver-held (Byzantine) validator to one node.
func (n *Net) Inject(to int, from int, m consensus.Message) {
	nd := n.Nodes[to]
	nd.CS.VerifHandleMsg(m, p2p.ID(fmt.Sprintf("n%d", from)))
	n.after(nd)
}

func (n *Net) MinHeight() uint64 {
	m := uint64(1 << 62)
	for _, nd := range n.Nodes {
		if h := nd.CS.GetRoundState().Height; h < m {
			m = h
		}
	}
	return m
}

// Step performs one scheduler step; false when nothing can happen any more.
func (n *Net) Step() bool {
	if len(n.q) > 0 {
		f := n.q[0]
		n.q = n.q[1:]
		nd, ok := n.Nodes[f.to]
		if !ok {
			return true
		}
		own := f.from == f.to
		if !own && n.Filter != nil && !n.Filter(f.from, f.to, f.msg) {
			return true
		}
		if h, r := hrOf(f.msg); h > 0 {
			rs := nd.CS.GetRoundState()
			if h > rs.Height || (h == rs.Height && r > rs.Round) {
				n.held[f.to] = append(n.held[f.to], f)
				return true
			}
		}
		peer := p2p.ID("")
		if !own {
			peer = p2p.ID(fmt.Sprintf("n%d", f.from))
		}
		nd.CS.VerifHandleMsg(f.msg, peer)
		n.after(nd)
		return true
	}
	best := -1
	for _, id := range n.Order {
		nd := n.Nodes[id]
		if !nd.Tick.Armed {
			continue
		}
		if best < 0 {
			best = id
			continue
		}
		a, b := nd.Tick.TI, n.Nodes[best].Tick.TI
		if consensus.CompareHRS(a.Height, a.Round, a.Step, b.Height, b.Round, b.Step) < 0 {
			best = id
		}
	}
	if best < 0 {
		return false
	}
	nd := n.Nodes[best]
	nd.Tick.Armed = false
	nd.CS.VerifHandleTimeout(nd.Tick.TI)
	n.after(nd)
	return true
}

// RunUntil steps until every node works on a height > h (true) or nothing moves / maxSteps is exhausted.
func (n *Net) RunUntil(h uint64, maxSteps int) bool {
	for i := 0; i < maxSteps; i++ {
		if n.MinHeight() > h {
			return true
		}
		if !n.Step() {
			break
		}
	}
	return n.MinHeight() > h
}
